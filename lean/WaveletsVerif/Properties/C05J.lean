/-
  C05 — back-propagation through the whole J-level 2-D forward transform is the exact adjoint (mode zero, every image size,
  every filter lengths ≥ 2, every J).

  The module `DWTForward` applies `AFB2D` level after level to the low-pass; autograd therefore runs `AFB2D.backward` from the
  coarsest level to the finest, each time with the gradient of the low-pass that the coarser levels produced and the saved
  input shape of that level (`DWTForwardBackward`: PyTorch's chain rule over the module's loop, with the library's hand-written
  backward at every level).  One level is the adjoint of one level (`C05D.AFB2D_zero_adjoint`); by induction over the levels
  `⟨DWTForward x, P⟩ = ⟨x, backward(P)⟩` for every cotangent pyramid `P` of forward shapes.
-/
import WaveletsVerif.Properties.C17T
import WaveletsVerif.Properties.C01P
namespace WV.C05J
open Finset WV WV.C04 WV.C04Q WV.C06 WV.C05D WV.C17T
variable {R : Type} [CommRing R]

/-- autograd's chain rule over the level loop of `DWTForward`: `AFB2D.backward` from the coarsest level to the finest;
`shapes` are the saved input shapes of the levels, finest first -/
def DWTForwardBackward (mode : Mode) (wr0 wr1 wc0 wc1 : List R) : List (Nat × Nat) → Img R → List (List (Img R)) → Option (Img R)
  | [], gl, _ => some gl
  | (H, W) :: ss, gl, b :: rest => do
    let g ← DWTForwardBackward mode wr0 wr1 wc0 wc1 ss gl rest
    let r ← AFB2D_backward mode wr0 wr1 wc0 wc1 H W [g] [b]
    r.head?
  | _ :: _, _, [] => none

/-- the input shapes of the levels of a `J`-level transform of an `H × W` image in the non-periodization modes -/
def shapesZ (Lc Lr : Nat) : Nat → Nat → Nat → List (Nat × Nat)
  | 0, _, _ => []
  | J+1, H, W => (H, W) :: shapesZ Lc Lr J (dwtCoeffLen H Lc) (dwtCoeffLen W Lr)

/-- a cotangent pyramid of the shapes a `J`-level mode-zero transform of an `H × W` image produces (finest level first) -/
def PyrRectZ (Lc Lr : Nat) : Nat → Nat → Nat → Img R → List (List (Img R)) → Prop
  | 0, H, W, gl, [] => Rect gl H W
  | J+1, H, W, gl, b :: rest =>
    (∃ glh ghl ghh, b = [glh, ghl, ghh] ∧ Rect glh (dwtCoeffLen H Lc) (dwtCoeffLen W Lr) ∧ Rect ghl (dwtCoeffLen H Lc) (dwtCoeffLen W Lr) ∧
      Rect ghh (dwtCoeffLen H Lc) (dwtCoeffLen W Lr)) ∧ PyrRectZ Lc Lr J (dwtCoeffLen H Lc) (dwtCoeffLen W Lr) gl rest
  | _, _, _, _, _ => False

/-- **the J-level back-propagation is the adjoint of the J-level forward transform** (mode zero, one channel): for every J,
every image, every filter lengths ≥ 2 and every cotangent pyramid `P` of forward shapes, `⟨DWTForward x, P⟩ = ⟨x, backward(P)⟩` -/
theorem DWT2D_zero_adjoint (wr0 wr1 wc0 wc1 : List R) (hLr : 2 ≤ wr0.length) (hwr : wr1.length = wr0.length)
    (hLc : 2 ≤ wc0.length) (hwc : wc1.length = wc0.length) :
    ∀ (J : Nat) (x : Img R) (H W : Nat) (gl : Img R) (gh : List (List (Img R))), Rect x H W → 1 ≤ H → 1 ≤ W →
      PyrRectZ wc0.length wr0.length J H W gl gh →
      ∃ yl yh y, DWTForward .zero wc0 wc1 wr0 wr1 J [x] = some ([yl], yh) ∧
        DWTForwardBackward .zero wr0 wr1 wc0 wc1 (shapesZ wc0.length wr0.length J H W) gl gh = some y ∧
        Rect y H W ∧ pdot yl yh gl gh = idot x y
  | 0, x, H, W, gl, gh, hx, hH, _, hp => by
    cases gh with
    | nil =>
      refine ⟨x, [], gl, by simp [DWTForward], by simp [DWTForwardBackward, shapesZ], hp, ?_⟩
      simp only [pdot, List.zipWith_nil_left, List.sum_nil, add_zero]
    | cons b rest => exact absurd hp (by simp [PyrRectZ])
  | J+1, x, H, W, gl, gh, hx, hH, hW, hp => by
    cases gh with
    | nil => exact absurd hp (by simp [PyrRectZ])
    | cons b rest =>
      obtain ⟨⟨glh, ghl, ghh, rfl, r2, r3, r4⟩, hrest⟩ := hp
      have hKh : 1 ≤ dwtCoeffLen H wc0.length := by unfold dwtCoeffLen; omega
      have hKw : 1 ≤ dwtCoeffLen W wr0.length := by unfold dwtCoeffLen; omega
      -- the forward level and the shape of its low-pass
      have hfv := C05D.AFB2D_forward_val wr0 wr1 wc0 wc1 hLr hwr hLc hwc x H W hx hH hW
      have rll : Rect (alongH (Az wc0) (alongW (Az wr0) x)) (dwtCoeffLen H wc0.length) (dwtCoeffLen W wr0.length) :=
        Az_alongH_rect wc0 hLc _ H _ (Az_alongW_rect wr0 hLr x H W hx hW) hH hKw
      -- the coarser levels
      obtain ⟨yl, yh, y', hfr, hbr, ry', hdr⟩ := DWT2D_zero_adjoint wr0 wr1 wc0 wc1 hLr hwr hLc hwc J _ _ _ gl rest rll hKh hKw hrest
      -- this level
      obtain ⟨ll, lh, hl, hh, dx, hf, hb, hd⟩ := AFB2D_zero_adjoint wr0 wr1 wc0 wc1 hLr hwr hLc hwc H W hH hW x y' glh ghl ghh hx ry' r2 r3 r4
      have hbv := AFB2D_backward_val wr0 wr1 wc0 wc1 hLr hwr hLc hwc H W hH hW y' glh ghl ghh ry' r2 r3 r4
      rw [hbv] at hb
      have edx : dx = tab2 H W (get2 (dxFull wr0 wr1 wc0 wc1 H W y' glh ghl ghh)) := by
        simp only [Option.some.injEq, List.cons.injEq, and_true] at hb; exact hb.symm
      have rdx : Rect dx H W := by rw [edx]; exact tab2_rect _ _ _
      rw [hfv] at hf
      simp only [Option.some.injEq, Prod.mk.injEq, List.cons.injEq, and_true] at hf
      obtain ⟨e1, e2, e3, e4⟩ := hf
      have rl2 : Rect lh (dwtCoeffLen H wc0.length) (dwtCoeffLen W wr0.length) := by
        rw [← e2]; exact (by
          have := Az_alongH_rect wc1 (by omega) _ H _ (Az_alongW_rect wr0 hLr x H W hx hW) hH hKw
          rw [hwc] at this; exact this)
      have rl3 : Rect hl (dwtCoeffLen H wc0.length) (dwtCoeffLen W wr0.length) := by
        rw [← e3]; exact (by
          have := Az_alongH_rect wc0 hLc _ H _ (Az_alongW_rect wr1 (by omega) x H W hx hW) hH (by rw [hwr]; exact hKw)
          rw [hwr] at this; exact this)
      have rl4 : Rect hh (dwtCoeffLen H wc0.length) (dwtCoeffLen W wr0.length) := by
        rw [← e4]; exact (by
          have := Az_alongH_rect wc1 (by omega) _ H _ (Az_alongW_rect wr1 (by omega) x H W hx hW) hH (by rw [hwr]; exact hKw)
          rw [hwc, hwr] at this; exact this)
      refine ⟨yl, [[lh, hl, hh]] :: yh, dx, ?_, ?_, rdx, ?_⟩
      · simp only [DWTForward]
        rw [hfv]
        simp only [Option.bind_eq_bind, Option.bind_some]
        rw [hfr]
        simp only [Option.bind_some]
        rw [e2, e3, e4]
      · simp only [shapesZ, DWTForwardBackward, hbr, Option.bind_eq_bind, Option.bind_some, hbv, List.head?_cons, edx]
      · unfold pdot
        simp only [List.zipWith_cons_cons, List.sum_cons, List.getD_cons_zero, List.getD_cons_succ]
        unfold pdot at hdr
        rw [idot_rect lh _ _ _ rl2 hKh, idot_rect hl _ _ _ rl3 hKh, idot_rect hh _ _ _ rl4 hKh, idot_rect x _ H W hx hH, ← hd]
        have : idot yl gl + (List.zipWith (fun lvl b => idot ((lvl.getD 0 []).getD 0 []) (b.getD 0 []) + idot ((lvl.getD 0 []).getD 1 []) (b.getD 1 [])
            + idot ((lvl.getD 0 []).getD 2 []) (b.getD 2 [])) yh rest).sum
            = dot2 (dwtCoeffLen H wc0.length) (dwtCoeffLen W wr0.length) ll y' := by
          rw [hdr, ← e1, idot_rect _ _ _ _ rll hKh]
        rw [← this]
        ring


/-! ### periodization -/

open WV.C05P in
/-- the input shapes of the levels in periodization mode (odd sides are extended by one sample first) -/
def shapesP : Nat → Nat → Nat → List (Nat × Nat)
  | 0, _, _ => []
  | J+1, H, W => (H, W) :: shapesP J ((H + H % 2) / 2) ((W + W % 2) / 2)

/-- a cotangent pyramid of the shapes a `J`-level periodization transform of an `H × W` image produces -/
def PyrRectP : Nat → Nat → Nat → Img R → List (List (Img R)) → Prop
  | 0, H, W, gl, [] => Rect gl H W
  | J+1, H, W, gl, b :: rest =>
    (∃ glh ghl ghh, b = [glh, ghl, ghh] ∧ Rect glh ((H + H % 2) / 2) ((W + W % 2) / 2) ∧ Rect ghl ((H + H % 2) / 2) ((W + W % 2) / 2) ∧
      Rect ghh ((H + H % 2) / 2) ((W + W % 2) / 2)) ∧ PyrRectP J ((H + H % 2) / 2) ((W + W % 2) / 2) gl rest
  | _, _, _, _, _ => False

open WV.C05P WV.C01P in
/-- **the J-level back-propagation is the adjoint of the J-level forward transform in periodization mode** (one channel; every
J and image size, odd sizes included — the gradient of the repeated sample is folded back at every level —, even filter
lengths that fit the even-extended sides at every level, `LevelsFitP`: the complement of the recorded short-level finding) -/
theorem DWT2D_per_adjoint (hr0 hr1 hc0 hc1 : List R) (hLr : 2 ≤ hr0.length) (hLre : hr0.length % 2 = 0) (hwr : hr1.length = hr0.length)
    (hLc : 2 ≤ hc0.length) (hLce : hc0.length % 2 = 0) (hwc : hc1.length = hc0.length) :
    ∀ (J : Nat) (x : Img R) (H W : Nat) (gl : Img R) (gh : List (List (Img R))), Rect x H W → 1 ≤ H → 1 ≤ W →
      LevelsFitP hc0.length hr0.length J H W → PyrRectP J H W gl gh →
      ∃ yl yh y, DWTForward .periodization hc0.reverse hc1.reverse hr0.reverse hr1.reverse J [x] = some ([yl], yh) ∧
        DWTForwardBackward .periodization hr0.reverse hr1.reverse hc0.reverse hc1.reverse (shapesP J H W) gl gh = some y ∧
        Rect y H W ∧ pdot yl yh gl gh = idot x y
  | 0, x, H, W, gl, gh, hx, hH, _, _, hp => by
    cases gh with
    | nil =>
      refine ⟨x, [], gl, by simp [DWTForward], by simp [DWTForwardBackward, shapesP], hp, ?_⟩
      simp only [pdot, List.zipWith_nil_left, List.sum_nil, add_zero]
    | cons b rest => exact absurd hp (by simp [PyrRectP])
  | J+1, x, H, W, gl, gh, hx, hH, hW, hfit, hp => by
    cases gh with
    | nil => exact absurd hp (by simp [PyrRectP])
    | cons b rest =>
      obtain ⟨⟨glh, ghl, ghh, rfl, r2, r3, r4⟩, hrest⟩ := hp
      obtain ⟨hfH, hfW, hfitr⟩ := hfit
      have hKh : 1 ≤ (H + H % 2) / 2 := by omega
      have hKw : 1 ≤ (W + W % 2) / 2 := by omega
      have hfv := C05P.AFB2D_forward_val hr0 hr1 hc0 hc1 hLr hLre hwr hLc hLce hwc H W hH hW hfH hfW x hx
      have rW : ∀ w : List R, Rect (alongW (Ap w) x) H ((W + W % 2) / 2) := by
        intro w
        rw [alongW_get' (Ap w) x H W _ hx (fun c hc => by rw [Ap_length, hc])]
        exact tab2_rect _ _ _
      have rB : ∀ wc wr : List R, Rect (alongH (Ap wc) (alongW (Ap wr) x)) ((H + H % 2) / 2) ((W + W % 2) / 2) := by
        intro wc wr
        rw [alongH_get' (Ap wc) _ H ((H + H % 2) / 2) ((W + W % 2) / 2) (rW wr) hH hKw (fun c hc => by rw [Ap_length, hc])]
        exact tab2_rect _ _ _
      obtain ⟨yl, yh, y', hfr, hbr, ry', hdr⟩ := DWT2D_per_adjoint hr0 hr1 hc0 hc1 hLr hLre hwr hLc hLce hwc J _ _ _ gl rest (rB hc0 hr0)
        hKh hKw hfitr hrest
      obtain ⟨ll, lh, hl, hh, dx, hf, hb, hd⟩ := AFB2D_per_adjoint hr0 hr1 hc0 hc1 hLr hLre hwr hLc hLce hwc H W hH hW hfH hfW x y' glh ghl ghh
        hx ry' r2 r3 r4
      have hbv := C05P.AFB2D_backward_val hr0 hr1 hc0 hc1 hLr hwr hLc hwc H W hH hW hfH hfW y' glh ghl ghh ry' r2 r3 r4
      rw [hbv] at hb
      have edx : dx = foldCrop2 .periodization H W (dxFullP hr0 hr1 hc0 hc1 H W y' glh ghl ghh) := by
        simp only [Option.some.injEq, List.cons.injEq, and_true] at hb; exact hb.symm
      have rdx : Rect dx H W := by
        have rfull : Rect (dxFullP hr0 hr1 hc0 hc1 H W y' glh ghl ghh) (2 * ((H + H % 2) / 2)) (2 * ((W + W % 2) / 2)) := rowzip_rect _ _ _ _ _
        rw [edx, foldCrop2_val .periodization _ (2 * ((H + H % 2) / 2)) (2 * ((W + W % 2) / 2)) H W rfull (by omega) (by omega)
          (fun N c hc => foldCrop_per_length N c hc) (by omega) (by omega)]
        exact tab2_rect _ _ _
      rw [hfv] at hf
      simp only [Option.some.injEq, Prod.mk.injEq, List.cons.injEq, and_true] at hf
      obtain ⟨e1, e2, e3, e4⟩ := hf
      refine ⟨yl, [[lh, hl, hh]] :: yh, dx, ?_, ?_, rdx, ?_⟩
      · simp only [DWTForward]
        rw [hfv]
        simp only [Option.bind_eq_bind, Option.bind_some]
        rw [hfr]
        simp only [Option.bind_some]
        rw [e2, e3, e4]
      · simp only [shapesP, DWTForwardBackward, hbr, Option.bind_eq_bind, Option.bind_some, hbv, List.head?_cons, edx]
      · unfold pdot
        simp only [List.zipWith_cons_cons, List.sum_cons, List.getD_cons_zero, List.getD_cons_succ]
        unfold pdot at hdr
        rw [idot_rect lh _ _ _ (by rw [← e2]; exact rB hc1 hr0) hKh, idot_rect hl _ _ _ (by rw [← e3]; exact rB hc0 hr1) hKh,
          idot_rect hh _ _ _ (by rw [← e4]; exact rB hc1 hr1) hKh, idot_rect x _ H W hx hH, ← hd]
        have : idot yl gl + (List.zipWith (fun lvl b => idot ((lvl.getD 0 []).getD 0 []) (b.getD 0 []) + idot ((lvl.getD 0 []).getD 1 []) (b.getD 1 [])
            + idot ((lvl.getD 0 []).getD 2 []) (b.getD 2 [])) yh rest).sum
            = dot2 ((H + H % 2) / 2) ((W + W % 2) / 2) ll y' := by
          rw [hdr, ← e1, idot_rect _ _ _ _ (rB hc0 hr0) hKh]
        rw [← this]
        ring

/-- the shape hypotheses are satisfiable: one-level cotangent pyramids for a 3 × 5 image with 4-tap / 2-tap filters (mode zero:
bands 3 × 3; periodization: bands 2 × 3, the odd sides extended) -/
example : PyrRectZ 4 2 1 3 5 ([[1, 2, 3], [4, 5, 6], [7, 8, 9]] : Img Int)
      [[[[1, 0, 0], [0, 1, 0], [0, 0, 1]], [[2, 0, 0], [0, 2, 0], [0, 0, 2]], [[0, 0, 3], [0, 3, 0], [3, 0, 0]]]] ∧
    PyrRectP 1 3 5 ([[1, 2, 3], [4, 5, 6]] : Img Int) [[[[1, 0, 0], [0, 1, 0]], [[2, 0, 0], [0, 2, 0]], [[0, 0, 3], [0, 3, 0]]]] := by
  constructor
  · refine ⟨⟨_, _, _, rfl, ?_, ?_, ?_⟩, ?_⟩ <;> (constructor <;> simp [dwtCoeffLen])
  · refine ⟨⟨_, _, _, rfl, ?_, ?_, ?_⟩, ?_⟩ <;> (constructor <;> simp)

end WV.C05J
