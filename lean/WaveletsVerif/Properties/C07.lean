/-
  C07 — the transforms are linear and act per (batch, channel) slice.

  * every filtering primitive is a fixed-weight sum of gathered samples, hence
    linear (`corr_linear`, `padIdx_linear`, `zeroPad_linear`, `afb1dOne_zero_linear`);
  * the grouped convolution with the code's weight `cat([h0,h1]*C)`, `groups=C`,
    applies the *same* pair of one-channel operators to every channel: output
    channel `2c+b` is filter `b` applied to input channel `c`, whatever `C` is
    (`afb1dT_per_channel`), and the call raises iff one channel does.
-/
import WaveletsVerif.Lemmas.Basic
namespace WV.C07
open Finset WV
variable {R : Type} [CommRing R]

/-- `a·x + b·y` -/
def lincomb (a b : R) (x y : List R) : List R := tab x.length fun i => a * getN x i + b * getN y i

@[simp] theorem lincomb_length (a b : R) (x y : List R) : (lincomb a b x y).length = x.length := by
  simp [lincomb]

theorem getN_lincomb (a b : R) (x y : List R) (hxy : x.length = y.length) (i : Nat) :
    getN (lincomb a b x y) i = a * getN x i + b * getN y i := by
  unfold lincomb
  rw [getN_tab]
  split
  · rfl
  · rename_i hlt
    have h1 : getN x i = 0 := by rw [getN_eq_getZ]; exact getZ_of_ge x i (by omega)
    have h2 : getN y i = 0 := by rw [getN_eq_getZ]; exact getZ_of_ge y i (by omega)
    rw [h1, h2]; ring

/-- cross-correlation (any stride, any dilation) is linear in the signal -/
theorem corr_linear (w x y : List R) (a b : R) (s d : Nat) (hxy : x.length = y.length) :
    corr w (lincomb a b x y) s d = lincomb a b (corr w x s d) (corr w y s d) := by
  unfold corr
  simp only [lincomb_length]
  unfold lincomb
  simp only [length_tab]
  apply tab_ext rfl
  intro k hk
  rw [getN_tab, getN_tab]
  have hk2 : k < corrLen y.length w.length s d := by rw [← hxy]; exact hk
  simp only [hk, hk2, if_true]
  rw [sumN_eq, sumN_eq, sumN_eq, Finset.mul_sum, Finset.mul_sum, ← Finset.sum_add_distrib]
  apply Finset.sum_congr rfl; intro j _
  have := getN_lincomb a b x y hxy (s * k + d * j)
  unfold lincomb at this
  rw [this]; ring

/-- gathering through an index vector (symmetric / reflect / periodic padding) is linear -/
theorem padIdx_linear (idx : Int → Int → Int) (x y : List R) (a b : R) (l r : Nat) (hxy : x.length = y.length) :
    padIdx idx (lincomb a b x y) l r = lincomb a b (padIdx idx x l r) (padIdx idx y l r) := by
  unfold padIdx
  simp only [lincomb_length]
  unfold lincomb
  simp only [length_tab]
  apply tab_ext rfl
  intro i hi
  rw [getN_tab, getN_tab]
  have hi2 : i < l + y.length + r := by rw [← hxy]; exact hi
  simp only [hi, hi2, if_true]
  -- getZ of a lincomb
  have key : ∀ t : Int, getZ (tab x.length fun i => a * getN x i + b * getN y i) t = a * getZ x t + b * getZ y t := by
    intro t
    rw [getZ_tab]
    split
    · rename_i h
      rw [getN_eq_getZ, getN_eq_getZ]
      have : ((t.toNat : Nat) : Int) = t := by omega
      rw [this]
    · rename_i h
      have hx : getZ x t = 0 := by
        by_cases h0 : 0 ≤ t
        · exact getZ_of_ge x t (by omega)
        · exact getZ_neg x t (by omega)
      have hy : getZ y t = 0 := by
        by_cases h0 : 0 ≤ t
        · exact getZ_of_ge y t (by omega)
        · exact getZ_neg y t (by omega)
      rw [hx, hy]; ring
  rw [key, hxy]

theorem zeroPad_linear (x y : List R) (a b : R) (l r : Nat) (hxy : x.length = y.length) :
    zeroPad (lincomb a b x y) l r = lincomb a b (zeroPad x l r) (zeroPad y l r) :=
  padIdx_linear (fun _ i => i) x y a b l r hxy

/-- the value `afb1d` computes in mode `symmetric` for one filter -/
def afbSymVal (w x : List R) : List R :=
  let p := 2 * (dwtCoeffLen x.length w.length - 1) + w.length - x.length
  corr w (padIdx symIdx x (p/2) ((p+1)/2)) 2 1

theorem afb1dOne_symmetric_val (w x : List R) (hL : 2 ≤ w.length) (hN : 1 ≤ x.length) :
    afb1dOne .symmetric w x = some (afbSymVal w x) := by
  have g1 : ¬ (w.length < 2 ∨ x.length < 1) := by omega
  simp only [afb1dOne, afbSymVal, g1, if_false]

/-- hence `afb1d` in the index-vector modes is linear: e.g. symmetric, for every size and filter:
`T(a·x + b·y) = a·T(x) + b·T(y)` (and it never raises) -/
theorem afb1dOne_symmetric_linear (w x y : List R) (a b : R) (hL : 2 ≤ w.length) (hN : 1 ≤ x.length)
    (hxy : x.length = y.length) :
    afb1dOne .symmetric w (lincomb a b x y) = some (lincomb a b (afbSymVal w x) (afbSymVal w y)) := by
  rw [afb1dOne_symmetric_val w _ hL (by simpa using hN)]
  congr 1
  unfold afbSymVal
  simp only [lincomb_length]
  rw [padIdx_linear _ _ _ _ _ _ _ hxy, corr_linear _ _ _ _ _ _ _ (by simp [hxy]), hxy]

/-! ### per (batch, channel) slice -/

omit [CommRing R] in
theorem mapM_id_some {β : Type} : ∀ (l : List (Option β)) (y : List β), l.mapM id = some y → l = y.map some
  | [], y, h => by simp at h; subst h; rfl
  | a :: l, y, h => by
    cases a with
    | none => simp at h
    | some b =>
      cases hm : l.mapM id with
      | none => simp [hm] at h
      | some bs =>
        simp [hm] at h
        subst h
        rw [mapM_id_some l bs hm]
        rfl

/-- weight `ws[o]` of `cat([w0, w1] * C)` -/
theorem weights_get (w0 w1 : List R) (C o : Nat) (ho : o < 2 * C) :
    ((List.replicate C [w0, w1]).flatten).getD o [] = if o % 2 = 0 then w0 else w1 := by
  induction C generalizing o with
  | zero => omega
  | succ C ih =>
    rw [List.replicate_succ, List.flatten_cons]
    match o with
    | 0 => simp
    | 1 => simp
    | o + 2 =>
      have : ([w0, w1] ++ (List.replicate C [w0, w1]).flatten).getD (o + 2) [] = ((List.replicate C [w0, w1]).flatten).getD o [] := by
        simp [List.getD]
      rw [this, ih o (by omega)]
      have : (o + 2) % 2 = o % 2 := by omega
      rw [this]

theorem weights_length (w0 w1 : List R) (C : Nat) : ((List.replicate C [w0, w1]).flatten).length = 2 * C := by
  induction C with
  | zero => simp
  | succ C ih => rw [List.replicate_succ, List.flatten_cons, List.length_append, ih]; simp; omega

/-- `afb1d` on a stack of `C` channels: the result has `2C` channels, channel `2c` is the low-pass
filter applied to input channel `c` alone, channel `2c+1` the high-pass filter applied to input
channel `c` alone — the same two one-channel operators for every `c` and every `C`. -/
theorem afb1dT_per_channel (ax : Axis) (mode : Mode) (w0 w1 : List R) (x y : List (Img R))
    (h : afb1dT ax mode w0 w1 x = some y) :
    y.length = 2 * x.length ∧ ∀ c < x.length,
      alongO ax (afb1dOne mode w0) (x.getD c []) = some (y.getD (2*c) []) ∧
      alongO ax (afb1dOne mode w1) (x.getD c []) = some (y.getD (2*c+1) []) := by
  unfold afb1dT at h
  have hm := mapM_id_some _ _ h
  unfold grouped at hm
  rw [weights_length] at hm
  have hlen : y.length = 2 * x.length := by
    have := congrArg List.length hm
    simp at this; omega
  refine ⟨hlen, ?_⟩
  intro c hc
  have hpos : 0 < x.length := by omega
  have hdiv : 2 * x.length / x.length = 2 := Nat.mul_div_cancel _ hpos
  have elem : ∀ o < 2 * x.length,
      alongO ax (afb1dOne mode (if o % 2 = 0 then w0 else w1)) (x.getD (o / 2) []) = some (y.getD o []) := by
    intro o ho
    have e1 := congrArg (fun l => l.getD o none) hm
    simp only [getD_tab, ho, if_true] at e1
    change alongO ax (afb1dOne mode (((List.replicate x.length [w0, w1]).flatten).getD o []))
        (x.getD (o / (2 * x.length / x.length)) []) = _ at e1
    rw [weights_get w0 w1 x.length o ho, hdiv] at e1
    have e2 : (y.map some).getD o none = some (y.getD o []) := by
      rw [List.getD_eq_getElem?_getD, List.getD_eq_getElem?_getD, List.getElem?_map]
      have : o < y.length := by omega
      simp [List.getElem?_eq_getElem this]
    rw [e2] at e1
    exact e1
  constructor
  · have := elem (2*c) (by omega)
    simpa using this
  · have := elem (2*c+1) (by omega)
    have h1 : (2*c+1) % 2 = 1 := by omega
    have h2 : (2*c+1) / 2 = c := by omega
    simpa [h1, h2] using this

omit [CommRing R] in
theorem mapM_id_map_some {β : Type} : ∀ (l : List β), (l.map some).mapM id = some l
  | [] => by simp
  | a :: l => by simp [mapM_id_map_some l]

omit [CommRing R] in
theorem map_tab {α β : Type} (n : Nat) (f : Nat → α) (g : α → β) : (tab n f).map g = tab n (fun i => g (f i)) := by
  simp [tab, List.map_map, Function.comp_def]

/-- constructive form of the per-channel statement, for EVERY channel count `C`: if the two one-channel
operators return on every channel, `afb1d` on the stack returns exactly their results interleaved
(`[lo₀, hi₀, lo₁, hi₁, …]`) — nothing else enters an output channel. -/
theorem afb1dT_total (ax : Axis) (mode : Mode) (w0 w1 : List R) (x : List (Img R)) (g0 g1 : Img R → Img R)
    (h : ∀ c < x.length, alongO ax (afb1dOne mode w0) (x.getD c []) = some (g0 (x.getD c [])) ∧
                         alongO ax (afb1dOne mode w1) (x.getD c []) = some (g1 (x.getD c []))) :
    afb1dT ax mode w0 w1 x
      = some (tab (2 * x.length) fun o => if o % 2 = 0 then g0 (x.getD (o/2) []) else g1 (x.getD (o/2) [])) := by
  unfold afb1dT grouped
  simp only []
  rw [weights_length]
  have e : (tab (2 * x.length) fun o =>
        (fun w ch => alongO ax (afb1dOne mode w) ch) (((List.replicate x.length [w0, w1]).flatten).getD o default)
          (x.getD (o / (2 * x.length / x.length)) default))
      = (tab (2 * x.length) fun o => if o % 2 = 0 then g0 (x.getD (o/2) []) else g1 (x.getD (o/2) [])).map some := by
    rw [map_tab]
    apply tab_ext rfl
    intro o ho
    have hpos : 0 < x.length := by omega
    have hdiv : 2 * x.length / x.length = 2 := Nat.mul_div_cancel _ hpos
    show alongO ax (afb1dOne mode (((List.replicate x.length [w0, w1]).flatten).getD o []))
        (x.getD (o / (2 * x.length / x.length)) []) = _
    rw [weights_get w0 w1 x.length o ho, hdiv]
    have hc := h (o/2) (by omega)
    split
    · exact hc.1
    · exact hc.2
  rw [e]
  exact mapM_id_map_some _


/-! ## linearity of `afb1d` in every mode: a small calculus of linear list operators -/

/-- `F` is linear on lists: it maps `a·x + b·y` to `a·F x + b·F y` for equally long `x, y`, and its output
length depends on the input length only -/
def Lin (F : List R → List R) : Prop :=
  ∀ (a b : R) (x y : List R), x.length = y.length →
    F (lincomb a b x y) = lincomb a b (F x) (F y) ∧ (F x).length = (F y).length

theorem Lin.comp {F G : List R → List R} (hF : Lin F) (hG : Lin G) : Lin (fun x => F (G x)) := by
  intro a b x y hxy
  obtain ⟨g1, g2⟩ := hG a b x y hxy
  obtain ⟨f1, f2⟩ := hF a b (G x) (G y) g2
  exact ⟨by show F (G (lincomb a b x y)) = lincomb a b (F (G x)) (F (G y)); rw [g1, f1], f2⟩

theorem list_ext_getN (u v : List R) (hl : u.length = v.length) (h : ∀ i < u.length, getN u i = getN v i) : u = v := by
  apply List.ext_getElem hl
  intro i h1 h2
  have := h i h1
  unfold getN at this
  rw [List.getD_eq_getElem?_getD, List.getD_eq_getElem?_getD, List.getElem?_eq_getElem h1, List.getElem?_eq_getElem h2] at this
  simpa using this

theorem lin_corr (w : List R) (s d : Nat) : Lin (fun x : List R => corr w x s d) := by
  intro a b x y hxy
  exact ⟨corr_linear w x y a b s d hxy, by rw [corr_length, corr_length, hxy]⟩

theorem lin_padIdx (idx : Int → Int → Int) (l r : Nat) : Lin (fun x : List R => padIdx idx x l r) := by
  intro a b x y hxy
  exact ⟨padIdx_linear idx x y a b l r hxy, by simp [padIdx, hxy]⟩

theorem lin_zeroPad (l r : Nat) : Lin (fun x : List R => zeroPad x l r) := by
  intro a b x y hxy
  exact ⟨zeroPad_linear x y a b l r hxy, by simp [zeroPad, hxy]⟩

theorem lin_take (n : Nat) : Lin (fun x : List R => x.take n) := by
  intro a b x y hxy
  refine ⟨?_, by simp [hxy]⟩
  apply list_ext_getN
  · simp [hxy]
  · intro i hi
    simp at hi
    rw [getN_take _ _ _ hi.1, getN_lincomb a b x y hxy, getN_lincomb a b _ _ (by simp [hxy]), getN_take _ _ _ hi.1, getN_take _ _ _ hi.1]

theorem getN_drop (x : List R) (n i : Nat) : getN (x.drop n) i = getN x (n + i) := by
  unfold getN
  rw [List.getD_eq_getElem?_getD, List.getD_eq_getElem?_getD, List.getElem?_drop]

theorem lin_drop (n : Nat) : Lin (fun x : List R => x.drop n) := by
  intro a b x y hxy
  refine ⟨?_, by simp [hxy]⟩
  apply list_ext_getN
  · simp [hxy]
  · intro i _
    rw [getN_drop, getN_lincomb a b x y hxy, getN_lincomb a b _ _ (by simp [hxy]), getN_drop, getN_drop]

theorem getN_append (u v : List R) (i : Nat) : getN (u ++ v) i = if i < u.length then getN u i else getN v (i - u.length) := by
  unfold getN
  rw [List.getD_eq_getElem?_getD, List.getElem?_append]
  split <;> simp [List.getD_eq_getElem?_getD]

/-- concatenation of two linear maps is linear -/
theorem Lin.append {F G : List R → List R} (hF : Lin F) (hG : Lin G) : Lin (fun x => F x ++ G x) := by
  intro a b x y hxy
  obtain ⟨f1, f2⟩ := hF a b x y hxy
  obtain ⟨g1, g2⟩ := hG a b x y hxy
  refine ⟨?_, by simp [f2, g2]⟩
  simp only [f1, g1]
  apply list_ext_getN
  · simp [f2, g2]
  · intro i _
    rw [getN_append, getN_lincomb a b (F x ++ G x) (F y ++ G y) (by simp [f2, g2]), getN_append, getN_append, lincomb_length, f2]
    split
    · rw [getN_lincomb a b _ _ f2]
    · rw [getN_lincomb a b _ _ g2]

/-- a length-dependent choice between linear maps is linear -/
theorem Lin.ite_len {F G : List R → List R} (c : Nat → Prop) [DecidablePred c] (hF : Lin F) (hG : Lin G) :
    Lin (fun x => if c x.length then F x else G x) := by
  intro a b x y hxy
  simp only [lincomb_length, hxy]
  by_cases hc : c y.length
  · simp only [hc, if_true]; exact hF a b x y hxy
  · simp only [hc, if_false]; exact hG a b x y hxy

/-- a linear map whose parameters depend on the input length -/
theorem Lin.dep {P : Type} (p : Nat → P) (F : P → List R → List R) (hF : ∀ q, Lin (F q)) :
    Lin (fun x => F (p x.length) x) := by
  intro a b x y hxy
  simp only [lincomb_length, hxy]
  exact hF (p y.length) a b x y hxy

theorem lin_id : Lin (fun x : List R => x) := fun a b x y hxy => ⟨rfl, hxy⟩

theorem getN_foldAdd (x : List R) (p q i : Nat) (hi : i < x.length) :
    getN (foldAdd x p q) i = if i < p then getN x i + getN x (q + i) else getN x i := by
  unfold foldAdd; rw [getN_tab, if_pos hi]

theorem lin_foldAdd (p q : Nat) : Lin (fun x : List R => foldAdd x p q) := by
  intro a b x y hxy
  have hl : ∀ z : List R, (foldAdd z p q).length = z.length := by intro z; simp [foldAdd]
  refine ⟨?_, by rw [hl, hl, hxy]⟩
  show foldAdd (lincomb a b x y) p q = lincomb a b (foldAdd x p q) (foldAdd y p q)
  apply list_ext_getN
  · rw [hl, lincomb_length, lincomb_length, hl]
  · intro i hi
    rw [hl, lincomb_length] at hi
    have hly : (foldAdd x p q).length = (foldAdd y p q).length := by rw [hl, hl, hxy]
    rw [getN_foldAdd _ _ _ _ (by rw [lincomb_length]; exact hi), getN_lincomb a b _ _ hly,
      getN_foldAdd _ _ _ _ hi, getN_foldAdd _ _ _ _ (by omega), getN_lincomb a b x y hxy, getN_lincomb a b x y hxy]
    split <;> ring


theorem lin_const_ite (c : Prop) [Decidable c] {F G : List R → List R} (hF : Lin F) (hG : Lin G) :
    Lin (fun x => if c then F x else G x) := by
  by_cases hc : c
  · simp only [hc, if_true]; exact hF
  · simp only [hc, if_false]; exact hG

/-- an operator of the shape "guard on the length, then a linear map" -/
def GuardedLin (T : List R → Option (List R)) : Prop :=
  ∃ (g : Nat → Bool) (F : List R → List R), Lin F ∧ ∀ x, T x = if g x.length then some (F x) else none

theorem GuardedLin.linear {T : List R → Option (List R)} (hT : GuardedLin T) (a b : R) (x y : List R)
    (hxy : x.length = y.length) :
    T (lincomb a b x y) = (T x).bind fun u => (T y).bind fun v => some (lincomb a b u v) := by
  obtain ⟨g, F, hF, hT⟩ := hT
  rw [hT, hT x, hT y, lincomb_length, ← hxy]
  by_cases hg : g x.length
  · simp only [hg, if_true, Option.bind_some]
    rw [(hF a b x y hxy).1]
  · simp [hg]

theorem lin_rollPy_neg (k : Nat) : Lin (fun x : List R => rollPy x (-(k:Int))) := by
  unfold rollPy sliceFrom sliceTo
  exact Lin.append
    (Lin.dep (fun n => pyBound n (-(if (-(k:Int)) < 0 then (n:Int) + (-(k:Int)) else (-(k:Int))))) (fun q x => x.drop q) (fun q => lin_drop q))
    (Lin.dep (fun n => pyBound n (-(if (-(k:Int)) < 0 then (n:Int) + (-(k:Int)) else (-(k:Int))))) (fun q x => x.take q) (fun q => lin_take q))

theorem guard_key (P : Prop) [Decidable P] (v : List R) :
    (if (!(decide P)) = true then some v else none) = (if P then none else some v) := by
  by_cases h : P <;> simp [h]

theorem guard_key2 (P Q : Prop) [Decidable P] [Decidable Q] (v : List R) :
    (if ((!(decide P)) && decide Q) = true then some v else none) = (if P then none else if Q then some v else none) := by
  by_cases h : P <;> by_cases h2 : Q <;> simp [h, h2]

theorem afb1dOne_guardedLin (m : Mode) (w : List R) : GuardedLin (afb1dOne m w) := by
  cases m with
  | zero =>
    refine ⟨fun n => !(decide (w.length < 2 ∨ n < 1)),
      fun x => corr w (zeroPad (if (2 * (dwtCoeffLen x.length w.length - 1) + w.length - x.length) % 2 = 1 then zeroPad x 0 1 else x)
        ((2 * (dwtCoeffLen x.length w.length - 1) + w.length - x.length)/2) ((2 * (dwtCoeffLen x.length w.length - 1) + w.length - x.length)/2)) 2 1, ?_, ?_⟩
    · exact Lin.dep (fun n => 2 * (dwtCoeffLen n w.length - 1) + w.length - n)
        (fun p x => corr w (zeroPad (if p % 2 = 1 then zeroPad x 0 1 else x) (p/2) (p/2)) 2 1)
        (fun p => (lin_corr w 2 1).comp ((lin_zeroPad (p/2) (p/2)).comp (lin_const_ite _ (lin_zeroPad 0 1) lin_id)))
    · intro x
      rw [guard_key]; rfl
  | symmetric =>
    refine ⟨fun n => !(decide (w.length < 2 ∨ n < 1)),
      fun x => corr w (padIdx symIdx x ((2 * (dwtCoeffLen x.length w.length - 1) + w.length - x.length)/2)
        ((2 * (dwtCoeffLen x.length w.length - 1) + w.length - x.length + 1)/2)) 2 1, ?_, ?_⟩
    · exact Lin.dep (fun n => 2 * (dwtCoeffLen n w.length - 1) + w.length - n)
        (fun p x => corr w (padIdx symIdx x (p/2) ((p+1)/2)) 2 1)
        (fun p => (lin_corr w 2 1).comp (lin_padIdx symIdx (p/2) ((p+1)/2)))
    · intro x
      rw [guard_key]; rfl
  | periodic =>
    refine ⟨fun n => !(decide (w.length < 2 ∨ n < 1)),
      fun x => corr w (padIdx perIdx x ((2 * (dwtCoeffLen x.length w.length - 1) + w.length - x.length)/2)
        ((2 * (dwtCoeffLen x.length w.length - 1) + w.length - x.length + 1)/2)) 2 1, ?_, ?_⟩
    · exact Lin.dep (fun n => 2 * (dwtCoeffLen n w.length - 1) + w.length - n)
        (fun p x => corr w (padIdx perIdx x (p/2) ((p+1)/2)) 2 1)
        (fun p => (lin_corr w 2 1).comp (lin_padIdx perIdx (p/2) ((p+1)/2)))
    · intro x
      rw [guard_key]; rfl
  | reflect =>
    refine ⟨fun n => !(decide (w.length < 2 ∨ n < 1)) && decide ((2 * (dwtCoeffLen n w.length - 1) + w.length - n)/2 < n ∧ (2 * (dwtCoeffLen n w.length - 1) + w.length - n + 1)/2 < n),
      fun x => corr w (padIdx reflIdx x ((2 * (dwtCoeffLen x.length w.length - 1) + w.length - x.length)/2)
        ((2 * (dwtCoeffLen x.length w.length - 1) + w.length - x.length + 1)/2)) 2 1, ?_, ?_⟩
    · exact Lin.dep (fun n => 2 * (dwtCoeffLen n w.length - 1) + w.length - n)
        (fun p x => corr w (padIdx reflIdx x (p/2) ((p+1)/2)) 2 1)
        (fun p => (lin_corr w 2 1).comp (lin_padIdx reflIdx (p/2) ((p+1)/2)))
    · intro x
      rw [guard_key2]; rfl
  | periodization =>
    let G : List R → List R := fun x1 =>
      (foldAdd (corr w (zeroPad (rollPy x1 (-((w.length/2 : Nat) : Int))) (w.length-1) (w.length-1)) 2 1) (w.length/2) (x1.length/2)).take (x1.length/2)
    let pre : List R → List R := fun x => if x.length % 2 = 1 then x ++ sliceFrom x (-1) else x
    have hG : Lin G :=
      Lin.dep (fun n => n / 2)
        (fun N2 x1 => (foldAdd (corr w (zeroPad (rollPy x1 (-((w.length/2 : Nat) : Int))) (w.length-1) (w.length-1)) 2 1) (w.length/2) N2).take N2)
        (fun N2 => (lin_take N2).comp ((lin_foldAdd (w.length/2) N2).comp ((lin_corr w 2 1).comp ((lin_zeroPad _ _).comp (lin_rollPy_neg _)))))
    have hpre : Lin pre :=
      Lin.ite_len (fun n => n % 2 = 1)
        (Lin.append lin_id (by unfold sliceFrom; exact Lin.dep (fun n => pyBound n (-1)) (fun q x => x.drop q) (fun q => lin_drop q))) lin_id
    refine ⟨fun n => !(decide (w.length < 2 ∨ n < 1)), fun x => G (pre x), hG.comp hpre, ?_⟩
    intro x
    rw [guard_key]; rfl
  | _ =>
    refine ⟨fun _ => false, fun x => x, lin_id, ?_⟩
    intro x
    unfold afb1dOne
    by_cases hg : w.length < 2 ∨ x.length < 1 <;> simp [hg]

/-- **`afb1d` is linear in every padding mode** (zero, symmetric, reflect, periodic, periodization), for every
filter buffer, signal length and pair of scalars; whether it raises depends on the lengths only. -/
theorem afb1dOne_linear (m : Mode) (w x y : List R) (a b : R) (hxy : x.length = y.length) :
    afb1dOne m w (lincomb a b x y)
      = (afb1dOne m w x).bind fun u => (afb1dOne m w y).bind fun v => some (lincomb a b u v) :=
  (afb1dOne_guardedLin m w).linear a b x y hxy


end WV.C07
