/-
  C07 — the transforms are linear and act per (batch, channel) slice.

  * every filtering primitive is a fixed-weight sum of gathered samples, hence
    linear (`corr_linear`, `padIdx_linear`, `zeroPad_linear`, `afb1dOne_zero_linear`);
  * the grouped convolution with the code's weight `cat([h0,h1]*C)`, `groups=C`,
    applies the *same* pair of one-channel operators to every channel: output
    channel `2c+b` is filter `b` applied to input channel `c`, whatever `C` is
    (`afb1dT_per_channel`), and the call raises iff one channel does.
-/
import WaveletsVerif.Lemmas.Basic
namespace WV.C07
open Finset WV
variable {R : Type} [CommRing R]

/-- `a·x + b·y` -/
def lincomb (a b : R) (x y : List R) : List R := tab x.length fun i => a * getN x i + b * getN y i

@[simp] theorem lincomb_length (a b : R) (x y : List R) : (lincomb a b x y).length = x.length := by
  simp [lincomb]

theorem getN_lincomb (a b : R) (x y : List R) (hxy : x.length = y.length) (i : Nat) :
    getN (lincomb a b x y) i = a * getN x i + b * getN y i := by
  unfold lincomb
  rw [getN_tab]
  split
  · rfl
  · rename_i hlt
    have h1 : getN x i = 0 := by rw [getN_eq_getZ]; exact getZ_of_ge x i (by omega)
    have h2 : getN y i = 0 := by rw [getN_eq_getZ]; exact getZ_of_ge y i (by omega)
    rw [h1, h2]; ring

/-- cross-correlation (any stride, any dilation) is linear in the signal -/
theorem corr_linear (w x y : List R) (a b : R) (s d : Nat) (hxy : x.length = y.length) :
    corr w (lincomb a b x y) s d = lincomb a b (corr w x s d) (corr w y s d) := by
  unfold corr
  simp only [lincomb_length]
  unfold lincomb
  simp only [length_tab]
  apply tab_ext rfl
  intro k hk
  rw [getN_tab, getN_tab]
  have hk2 : k < corrLen y.length w.length s d := by rw [← hxy]; exact hk
  simp only [hk, hk2, if_true]
  rw [sumN_eq, sumN_eq, sumN_eq, Finset.mul_sum, Finset.mul_sum, ← Finset.sum_add_distrib]
  apply Finset.sum_congr rfl; intro j _
  have := getN_lincomb a b x y hxy (s * k + d * j)
  unfold lincomb at this
  rw [this]; ring

/-- gathering through an index vector (symmetric / reflect / periodic padding) is linear -/
theorem padIdx_linear (idx : Int → Int → Int) (x y : List R) (a b : R) (l r : Nat) (hxy : x.length = y.length) :
    padIdx idx (lincomb a b x y) l r = lincomb a b (padIdx idx x l r) (padIdx idx y l r) := by
  unfold padIdx
  simp only [lincomb_length]
  unfold lincomb
  simp only [length_tab]
  apply tab_ext rfl
  intro i hi
  rw [getN_tab, getN_tab]
  have hi2 : i < l + y.length + r := by rw [← hxy]; exact hi
  simp only [hi, hi2, if_true]
  -- getZ of a lincomb
  have key : ∀ t : Int, getZ (tab x.length fun i => a * getN x i + b * getN y i) t = a * getZ x t + b * getZ y t := by
    intro t
    rw [getZ_tab]
    split
    · rename_i h
      rw [getN_eq_getZ, getN_eq_getZ]
      have : ((t.toNat : Nat) : Int) = t := by omega
      rw [this]
    · rename_i h
      have hx : getZ x t = 0 := by
        by_cases h0 : 0 ≤ t
        · exact getZ_of_ge x t (by omega)
        · exact getZ_neg x t (by omega)
      have hy : getZ y t = 0 := by
        by_cases h0 : 0 ≤ t
        · exact getZ_of_ge y t (by omega)
        · exact getZ_neg y t (by omega)
      rw [hx, hy]; ring
  rw [key, hxy]

theorem zeroPad_linear (x y : List R) (a b : R) (l r : Nat) (hxy : x.length = y.length) :
    zeroPad (lincomb a b x y) l r = lincomb a b (zeroPad x l r) (zeroPad y l r) :=
  padIdx_linear (fun _ i => i) x y a b l r hxy

/-- the value `afb1d` computes in mode `symmetric` for one filter -/
def afbSymVal (w x : List R) : List R :=
  let p := 2 * (dwtCoeffLen x.length w.length - 1) + w.length - x.length
  corr w (padIdx symIdx x (p/2) ((p+1)/2)) 2 1

theorem afb1dOne_symmetric_val (w x : List R) (hL : 2 ≤ w.length) (hN : 1 ≤ x.length) :
    afb1dOne .symmetric w x = some (afbSymVal w x) := by
  have g1 : ¬ (w.length < 2 ∨ x.length < 1) := by omega
  simp only [afb1dOne, afbSymVal, g1, if_false]

/-- hence `afb1d` in the index-vector modes is linear: e.g. symmetric, for every size and filter:
`T(a·x + b·y) = a·T(x) + b·T(y)` (and it never raises) -/
theorem afb1dOne_symmetric_linear (w x y : List R) (a b : R) (hL : 2 ≤ w.length) (hN : 1 ≤ x.length)
    (hxy : x.length = y.length) :
    afb1dOne .symmetric w (lincomb a b x y) = some (lincomb a b (afbSymVal w x) (afbSymVal w y)) := by
  rw [afb1dOne_symmetric_val w _ hL (by simpa using hN)]
  congr 1
  unfold afbSymVal
  simp only [lincomb_length]
  rw [padIdx_linear _ _ _ _ _ _ _ hxy, corr_linear _ _ _ _ _ _ _ (by simp [hxy]), hxy]

/-! ### per (batch, channel) slice -/

omit [CommRing R] in
theorem mapM_id_some {β : Type} : ∀ (l : List (Option β)) (y : List β), l.mapM id = some y → l = y.map some
  | [], y, h => by simp at h; subst h; rfl
  | a :: l, y, h => by
    cases a with
    | none => simp at h
    | some b =>
      cases hm : l.mapM id with
      | none => simp [hm] at h
      | some bs =>
        simp [hm] at h
        subst h
        rw [mapM_id_some l bs hm]
        rfl

/-- weight `ws[o]` of `cat([w0, w1] * C)` -/
theorem weights_get (w0 w1 : List R) (C o : Nat) (ho : o < 2 * C) :
    ((List.replicate C [w0, w1]).flatten).getD o [] = if o % 2 = 0 then w0 else w1 := by
  induction C generalizing o with
  | zero => omega
  | succ C ih =>
    rw [List.replicate_succ, List.flatten_cons]
    match o with
    | 0 => simp
    | 1 => simp
    | o + 2 =>
      have : ([w0, w1] ++ (List.replicate C [w0, w1]).flatten).getD (o + 2) [] = ((List.replicate C [w0, w1]).flatten).getD o [] := by
        simp [List.getD]
      rw [this, ih o (by omega)]
      have : (o + 2) % 2 = o % 2 := by omega
      rw [this]

theorem weights_length (w0 w1 : List R) (C : Nat) : ((List.replicate C [w0, w1]).flatten).length = 2 * C := by
  induction C with
  | zero => simp
  | succ C ih => rw [List.replicate_succ, List.flatten_cons, List.length_append, ih]; simp; omega

/-- `afb1d` on a stack of `C` channels: the result has `2C` channels, channel `2c` is the low-pass
filter applied to input channel `c` alone, channel `2c+1` the high-pass filter applied to input
channel `c` alone — the same two one-channel operators for every `c` and every `C`. -/
theorem afb1dT_per_channel (ax : Axis) (mode : Mode) (w0 w1 : List R) (x y : List (Img R))
    (h : afb1dT ax mode w0 w1 x = some y) :
    y.length = 2 * x.length ∧ ∀ c < x.length,
      alongO ax (afb1dOne mode w0) (x.getD c []) = some (y.getD (2*c) []) ∧
      alongO ax (afb1dOne mode w1) (x.getD c []) = some (y.getD (2*c+1) []) := by
  unfold afb1dT at h
  have hm := mapM_id_some _ _ h
  unfold grouped at hm
  rw [weights_length] at hm
  have hlen : y.length = 2 * x.length := by
    have := congrArg List.length hm
    simp at this; omega
  refine ⟨hlen, ?_⟩
  intro c hc
  have hpos : 0 < x.length := by omega
  have hdiv : 2 * x.length / x.length = 2 := Nat.mul_div_cancel _ hpos
  have elem : ∀ o < 2 * x.length,
      alongO ax (afb1dOne mode (if o % 2 = 0 then w0 else w1)) (x.getD (o / 2) []) = some (y.getD o []) := by
    intro o ho
    have e1 := congrArg (fun l => l.getD o none) hm
    simp only [getD_tab, ho, if_true] at e1
    change alongO ax (afb1dOne mode (((List.replicate x.length [w0, w1]).flatten).getD o []))
        (x.getD (o / (2 * x.length / x.length)) []) = _ at e1
    rw [weights_get w0 w1 x.length o ho, hdiv] at e1
    have e2 : (y.map some).getD o none = some (y.getD o []) := by
      rw [List.getD_eq_getElem?_getD, List.getD_eq_getElem?_getD, List.getElem?_map]
      have : o < y.length := by omega
      simp [List.getElem?_eq_getElem this]
    rw [e2] at e1
    exact e1
  constructor
  · have := elem (2*c) (by omega)
    simpa using this
  · have := elem (2*c+1) (by omega)
    have h1 : (2*c+1) % 2 = 1 := by omega
    have h2 : (2*c+1) / 2 = c := by omega
    simpa [h1, h2] using this

omit [CommRing R] in
theorem mapM_id_map_some {β : Type} : ∀ (l : List β), (l.map some).mapM id = some l
  | [] => by simp
  | a :: l => by simp [mapM_id_map_some l]

omit [CommRing R] in
theorem map_tab {α β : Type} (n : Nat) (f : Nat → α) (g : α → β) : (tab n f).map g = tab n (fun i => g (f i)) := by
  simp [tab, List.map_map, Function.comp_def]

/-- constructive form of the per-channel statement, for EVERY channel count `C`: if the two one-channel
operators return on every channel, `afb1d` on the stack returns exactly their results interleaved
(`[lo₀, hi₀, lo₁, hi₁, …]`) — nothing else enters an output channel. -/
theorem afb1dT_total (ax : Axis) (mode : Mode) (w0 w1 : List R) (x : List (Img R)) (g0 g1 : Img R → Img R)
    (h : ∀ c < x.length, alongO ax (afb1dOne mode w0) (x.getD c []) = some (g0 (x.getD c [])) ∧
                         alongO ax (afb1dOne mode w1) (x.getD c []) = some (g1 (x.getD c []))) :
    afb1dT ax mode w0 w1 x
      = some (tab (2 * x.length) fun o => if o % 2 = 0 then g0 (x.getD (o/2) []) else g1 (x.getD (o/2) [])) := by
  unfold afb1dT grouped
  simp only []
  rw [weights_length]
  have e : (tab (2 * x.length) fun o =>
        (fun w ch => alongO ax (afb1dOne mode w) ch) (((List.replicate x.length [w0, w1]).flatten).getD o default)
          (x.getD (o / (2 * x.length / x.length)) default))
      = (tab (2 * x.length) fun o => if o % 2 = 0 then g0 (x.getD (o/2) []) else g1 (x.getD (o/2) [])).map some := by
    rw [map_tab]
    apply tab_ext rfl
    intro o ho
    have hpos : 0 < x.length := by omega
    have hdiv : 2 * x.length / x.length = 2 := Nat.mul_div_cancel _ hpos
    show alongO ax (afb1dOne mode (((List.replicate x.length [w0, w1]).flatten).getD o []))
        (x.getD (o / (2 * x.length / x.length)) []) = _
    rw [weights_get w0 w1 x.length o ho, hdiv]
    have hc := h (o/2) (by omega)
    split
    · exact hc.1
    · exact hc.2
  rw [e]
  exact mapM_id_map_some _

end WV.C07
