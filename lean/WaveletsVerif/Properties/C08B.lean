/-
  C08 — the BAND-PASS filter families (`near_sym_b_bp` / `qshift_b_bp`: a third, band-pass filter `h2` for the diagonal pair) of the
  DTCWT levels and of both scattering layers.

  The library's `fwd_j1_rot` / `fwd_j2plus_rot` filter rows first and columns second; the reference (`dtcwt.numpy.Transform2d` with a
  six-filter `biort` / twelve-filter `qshift` set, written out as `Spec.refLevel1Rot` / `Spec.refLevel2Rot` and validated against the
  package on every run) filters columns first.  Both orders agree because every stage is gather-linear (`C03P.alongH_alongW_comm`):
  `fwdJ1Rot_eq_ref`, `fwdJ2Rot_eq_ref`.  Hence the first-order layer and the second-order layer (with and without colour
  combination) built on the band-pass families equal the reference levels composed with the scattering formulas
  (`ScatLayer_rot_eq_spec`, `scatJ2_rot_eq_spec`), for ANY square-root operation.
-/
import WaveletsVerif.Properties.C08R
namespace WV
namespace Spec
variable {α : Type}

/-- reference first-order scattering with a band-pass family -/
def scat1Rot [Add α] [Sub α] [Mul α] [OfNat α 0] (m : MagOps α) (h0o h1o h2o : List α) (colour : Bool) (x : List (Img α)) :
    List (Img α) :=
  let r := x.map fun im => refLevel1Rot m.s h0o h1o h2o (extendEven im)
  let lls := r.map fun p => avgPool2 m.q p.1
  if colour then
    let g := fun c o => ((r.getD c ([], [])).2).getD o ([], [])
    lls ++ (List.range 6).map fun o => subBias m (magR3 m (g 0 o) (g 1 o) (g 2 o))
  else
    lls ++ ((List.range 6).map fun o => r.map fun p => subBias m (magR m (p.2.getD o ([], [])))).flatten

/-- reference second-order scattering with band-pass families (no colour combination; sides multiples of 8) -/
def scat2Rot [Add α] [Sub α] [Mul α] [OfNat α 0] (m : MagOps α) (h0o h1o h2o h0a h0b h1a h1b h2a h2b : List α) (x : List (Img α)) :
    List (Img α) :=
  let r1 := x.map fun im => refLevel1Rot m.s h0o h1o h2o im
  let s1j1 := ((List.range 6).map fun o => r1.map fun p => subBias m (magR m (p.2.getD o ([], [])))).flatten
  let r2 := r1.map fun p => refLevel2Rot m.s h0a h0b h1a h1b h2a h2b p.1
  let s1j2 := ((List.range 6).map fun o => r2.map fun p => subBias m (magR m (p.2.getD o ([], [])))).flatten
  let s0 := r2.map fun p => avgPool2 m.q p.1
  let r3 := s1j1.map fun im => refLevel1Rot m.s h0o h1o h2o im
  let s2 := ((List.range 6).map fun o2 => r3.map fun p => subBias m (magR m (p.2.getD o2 ([], [])))).flatten
  let s1p := r3.map fun p => avgPool2 m.q p.1
  s0 ++ s1p ++ s1j2 ++ s2

/-- reference second-order scattering of one RGB item with colour combination on band-pass families -/
def scat2cRot [Add α] [Sub α] [Mul α] [OfNat α 0] (m : MagOps α) (h0o h1o h2o h0a h0b h1a h1b h2a h2b : List α) (x : List (Img α)) :
    List (Img α) :=
  let r1 := x.map fun im => refLevel1Rot m.s h0o h1o h2o im
  let g1 := fun c o => ((r1.getD c ([], [])).2).getD o ([], [])
  let s1j1 := (List.range 6).map fun o => subBias m (magR3 m (g1 0 o) (g1 1 o) (g1 2 o))
  let r2 := r1.map fun p => refLevel2Rot m.s h0a h0b h1a h1b h2a h2b p.1
  let g2 := fun c o => ((r2.getD c ([], [])).2).getD o ([], [])
  let s1j2 := (List.range 6).map fun o => subBias m (magR3 m (g2 0 o) (g2 1 o) (g2 2 o))
  let s0 := r2.map fun p => avgPool2 m.q p.1
  let r3 := s1j1.map fun im => refLevel1Rot m.s h0o h1o h2o im
  let s2 := ((List.range 6).map fun o2 => r3.map fun p => subBias m (magR m (p.2.getD o2 ([], [])))).flatten
  let s1p := r3.map fun p => avgPool2 m.q p.1
  s0 ++ s1p ++ s1j2 ++ s2

end Spec

namespace C08B
open WV.C04 WV.C04Q WV.C04P WV.C03P WV.C11P WV.C08Q WV.C08R
variable {R : Type} [CommRing R]

/-- **level 1 with a band-pass diagonal filter: the model is the reference** (rows-then-columns = columns-then-rows) -/
theorem fwdJ1Rot_eq_ref (s : R) (h0 h1 h2 : List R) (hh0 : h0.length % 2 = 1) (hh1 : h1.length % 2 = 1) (hh2 : h2.length % 2 = 1)
    (x : Img R) (a b : Nat) (ha : 1 ≤ a) (hb : 1 ≤ b) (hx : Rect x (2*a) (2*b)) :
    fwdJ1Rot s true (prepFilt h0) (prepFilt h1) (prepFilt h2) false x
      = ((Spec.refLevel1Rot s h0 h1 h2 x).1, some (Spec.refLevel1Rot s h0 h1 h2 x).2) := by
  have L0 : 1 ≤ h0.length := by omega
  have L1 : 1 ≤ h1.length := by omega
  have L2 : 1 ≤ h2.length := by omega
  have h2a : 1 ≤ 2*a := by omega
  have h2b : 1 ≤ 2*b := by omega
  have eLo : rowfilter true (prepFilt h0) x = alongW (Cf h0) x := rowfilter_model h0 L0 x (2*b) h2b hx.2
  have eHi : rowfilter true (prepFilt h1) x = alongW (Cf h1) x := rowfilter_model h1 L1 x (2*b) h2b hx.2
  have eBa : rowfilter true (prepFilt h2) x = alongW (Cf h2) x := rowfilter_model h2 L2 x (2*b) h2b hx.2
  have cm : ∀ (f g : List R), f.length % 2 = 1 → g.length % 2 = 1 →
      colfilter true (prepFilt f) (alongW (Cf g) x) = alongW (Cf g) (alongH (Cf f) x) := by
    intro f g hf hg
    have rg := alongW_rect g hg x _ _ hx
    rw [colfilter_model f (by omega) _ (by rw [rg.1]; exact h2a)]
    exact alongH_alongW_comm (Cf f) (Cf g) (2*a) (2*a) (2*b) (2*b) (GL_colfilter f hf _ h2a) (GL_colfilter g hg _ h2b)
      x hx h2a h2b h2a h2b
  unfold fwdJ1Rot Spec.refLevel1Rot
  simp only [Bool.false_eq_true, if_false, eLo, eHi, eBa]
  rw [cm h0 h0 hh0 hh0, cm h1 h0 hh1 hh0, cm h0 h1 hh0 hh1, cm h2 h2 hh2 hh2]

/-- **a level ≥ 2 with band-pass diagonal filters: the model is the reference**, sides positive multiples of 4 -/
theorem fwdJ2Rot_eq_ref (s : R) (h0a h0b h1a h1b h2a h2b : List R) (hl0 : 1 ≤ h0b.length) (hab0 : h0a.length = h0b.length)
    (hl1 : 1 ≤ h1b.length) (hab1 : h1a.length = h1b.length) (hl2 : 1 ≤ h2b.length) (hab2 : h2a.length = h2b.length)
    (x : Img R) (a b : Nat) (ha : 1 ≤ a) (hb : 1 ≤ b) (hx : Rect x (4*a) (4*b)) :
    fwdJ2Rot s (prepFilt h0a) (prepFilt h1a) (prepFilt h0b) (prepFilt h1b) (prepFilt h2a) (prepFilt h2b) false x
      = some ((Spec.refLevel2Rot s h0a h0b h1a h1b h2a h2b x).1, some (Spec.refLevel2Rot s h0a h0b h1a h1b h2a h2b x).2) := by
  have eLo := rowdfilt_modelG h0b h0a false hl0 hab0 x b hb hx.2
  have eHi := rowdfilt_modelG h1b h1a true hl1 hab1 x b hb hx.2
  have eBa := rowdfilt_modelG h2b h2a true hl2 hab2 x b hb hx.2
  have hx' : Rect x (4*a) (2*(2*b)) := by rw [show 2*(2*b) = 4*b by ring]; exact hx
  have h4a : 1 ≤ 4*a := by omega
  have h4b : 1 ≤ 4*b := by omega
  have e4a : 4*a / 2 = 2*a := by omega
  have e4b : 4*b / 2 = 2*b := by omega
  have cm : ∀ (fa fb : List R) (fp : Bool) (ga gb : List R) (gp : Bool), 1 ≤ fa.length → fb.length = fa.length →
      coldfilt (prepFilt fa) (prepFilt fb) fp (alongW (Dg ga gb gp) x)
        = some (alongW (Dg ga gb gp) (alongH (Dg fa fb fp) x)) := by
    intro fa fb fp ga gb gp hfl hfab
    have rg : Rect (alongW (Dg ga gb gp) x) (4*a) (2*b) := Dg_alongW_rect _ _ _ x _ _ hx'
    rw [coldfilt_modelG fa fb fp hfl hfab _ a ha rg.1]
    congr 1
    have gF := GL_coldfilt fa fb fp (4*a) (by omega) h4a
    have gG := GL_coldfilt ga gb gp (4*b) (by omega) h4b
    rw [e4a] at gF; rw [e4b] at gG
    exact alongH_alongW_comm (Dg fa fb fp) (Dg ga gb gp) (4*a) (2*a) (4*b) (2*b) gF gG x hx h4a h4b (by omega) (by omega)
  unfold fwdJ2Rot Spec.refLevel2Rot
  simp only [eLo, eHi, eBa, Option.bind_eq_bind, Option.bind_some, Bool.false_eq_true, if_false]
  rw [cm h0b h0a false h0b h0a false hl0 hab0, cm h1b h1a true h0b h0a false hl1 hab1,
    cm h0b h0a false h1b h1a true hl0 hab0, cm h2b h2a true h2b h2a true hl2 hab2]
  simp only [Option.bind_some]

/-- **the first-order scattering layer on a band-pass family is the reference level composed with the scattering formulas** -/
theorem ScatLayer_rot_eq_spec (m : MagOps R) (h0o h1o h2o : List R) (hh0 : h0o.length % 2 = 1) (hh1 : h1o.length % 2 = 1)
    (hh2 : h2o.length % 2 = 1) (colour : Bool) (x : List (Img R)) (H W : Nat) (hH : 1 ≤ H) (hW : 1 ≤ W) (hx : ∀ im ∈ x, Rect im H W)
    (hc : colour = true → x.length = 3) :
    ScatLayer m true (prepFilt h0o) (prepFilt h1o) (some (prepFilt h2o)) colour x = some (Spec.scat1Rot m h0o h1o h2o colour x) := by
  have ea : H + H % 2 = 2 * ((H+1)/2) := by omega
  have eb : W + W % 2 = 2 * ((W+1)/2) := by omega
  have hrect : ∀ im ∈ x, Rect (extendEven im) (2 * ((H+1)/2)) (2 * ((W+1)/2)) := by
    intro im him
    have := extendEven_rect im H W (hx im him) hH hW
    rw [ea, eb] at this; exact this
  have hguard : ¬ ((x.map extendEven).any (fun im => im.length % 2 ≠ 0 ∨ Img.width im % 2 ≠ 0) = true) := by
    rw [List.any_eq_true]
    rintro ⟨im, him, hodd⟩
    obtain ⟨im0, him0, rfl⟩ := List.mem_map.mp him
    have r := hrect im0 him0
    have hw := rect_width _ _ _ r (by omega)
    simp only [r.1, hw, decide_eq_true_eq] at hodd
    omega
  have hmap : (x.map extendEven).map (fwd1 m true (prepFilt h0o) (prepFilt h1o) (some (prepFilt h2o)))
      = x.map fun im => Spec.refLevel1Rot m.s h0o h1o h2o (extendEven im) := by
    rw [List.map_map]
    apply List.map_congr_left
    intro im him
    simp only [Function.comp, fwd1]
    rw [fwdJ1Rot_eq_ref m.s h0o h1o h2o hh0 hh1 hh2 (extendEven im) _ _ (by omega) (by omega) (hrect im him)]
    rfl
  unfold ScatLayer scatJ1
  rw [if_neg hguard]
  simp only [hmap, List.length_map]
  cases colour
  · simp only [Bool.false_eq_true, if_false, Spec.scat1Rot]
  · have h3 := hc rfl
    simp only [if_true, Spec.scat1Rot]
    rw [if_neg (by omega)]

/-! ### the second-order layer on band-pass families -/

theorem fwd1Rot_eq (m : MagOps R) (h0o h1o h2o : List R) (hh0 : h0o.length % 2 = 1) (hh1 : h1o.length % 2 = 1)
    (hh2 : h2o.length % 2 = 1) (im : Img R) (a b : Nat) (ha : 1 ≤ a) (hb : 1 ≤ b) (hx : Rect im (2*a) (2*b)) :
    fwd1 m true (prepFilt h0o) (prepFilt h1o) (some (prepFilt h2o)) im = Spec.refLevel1Rot m.s h0o h1o h2o im := by
  simp only [fwd1]
  rw [fwdJ1Rot_eq_ref m.s h0o h1o h2o hh0 hh1 hh2 im a b ha hb hx]
  rfl

theorem fwd2Rot_eq (m : MagOps R) (h0a h0b h1a h1b h2a h2b : List R) (hl0 : 1 ≤ h0b.length) (hab0 : h0a.length = h0b.length)
    (hl1 : 1 ≤ h1b.length) (hab1 : h1a.length = h1b.length) (hl2 : 1 ≤ h2b.length) (hab2 : h2a.length = h2b.length)
    (im : Img R) (a b : Nat) (ha : 1 ≤ a) (hb : 1 ≤ b) (hx : Rect im (4*a) (4*b)) :
    fwd2 m (prepFilt h0a) (prepFilt h1a) (prepFilt h0b) (prepFilt h1b) (some (prepFilt h2a, prepFilt h2b)) im
      = some (Spec.refLevel2Rot m.s h0a h0b h1a h1b h2a h2b im) := by
  simp only [fwd2]
  rw [fwdJ2Rot_eq_ref m.s h0a h0b h1a h1b h2a h2b hl0 hab0 hl1 hab1 hl2 hab2 im a b ha hb hx]
  rfl

theorem refLevel1Rot_rect (s : R) (h0 h1 h2 : List R) (hh0 : h0.length % 2 = 1) (x : Img R) (a b : Nat) (ha : 1 ≤ a) (hb : 1 ≤ b)
    (hx : Rect x (2*a) (2*b)) : Rect (Spec.refLevel1Rot s h0 h1 h2 x).1 (2*a) (2*b) := by
  unfold Spec.refLevel1Rot
  simp only
  exact alongW_rect h0 hh0 _ _ _ (alongH_rect h0 hh0 x _ _ hx (by omega) (by omega))

/-- the six bands of the band-pass reference level 1 of a `2a × 2b` image are `a × b` -/
theorem refLevel1Rot_bands (s : R) (h0 h1 h2 : List R) (hh0 : h0.length % 2 = 1) (hh1 : h1.length % 2 = 1) (hh2 : h2.length % 2 = 1)
    (x : Img R) (a b : Nat) (ha : 1 ≤ a) (hb : 1 ≤ b) (hx : Rect x (2*a) (2*b)) : BandOK (Spec.refLevel1Rot s h0 h1 h2 x).2 a b := by
  have h2a : 1 ≤ 2 * a := by omega
  have h2b : 1 ≤ 2 * b := by omega
  have rLo := alongH_rect h0 hh0 x _ _ hx h2a h2b
  have rHi := alongH_rect h1 hh1 x _ _ hx h2a h2b
  have rBa := alongH_rect h2 hh2 x _ _ hx h2a h2b
  have r1 := alongW_rect h0 hh0 _ _ _ rHi
  have r2 := alongW_rect h1 hh1 _ _ _ rLo
  have r3 := alongW_rect h2 hh2 _ _ _ rBa
  have q : ∀ (y : Img R), Rect y (2*a) (2*b) →
      ((q2c s y).1.1.length = a ∧ Img.width (q2c s y).1.1 = b) ∧ ((q2c s y).2.1.length = a ∧ Img.width (q2c s y).2.1 = b) := by
    intro y hy
    have hw := rect_width y _ _ hy h2a
    unfold q2c
    simp only [hy.1, hw]
    have e1 : 2 * a / 2 = a := by omega
    have e2 : 2 * b / 2 = b := by omega
    rw [e1, e2]
    refine ⟨⟨by simp [tab2], C19.width_tab2 a b _ (by omega)⟩, ⟨by simp [tab2], C19.width_tab2 a b _ (by omega)⟩⟩
  unfold Spec.refLevel1Rot highsToOrientations
  simp only
  intro k hk
  have hk6 : k = 0 ∨ k = 1 ∨ k = 2 ∨ k = 3 ∨ k = 4 ∨ k = 5 := by omega
  rcases hk6 with rfl | rfl | rfl | rfl | rfl | rfl
  · exact (q _ r1).1
  · exact (q _ r3).1
  · exact (q _ r2).1
  · exact (q _ r2).2
  · exact (q _ r3).2
  · exact (q _ r1).2

/-- the module's filter record for the band-pass families -/
def mkS2Rot (h0o h1o h2o h0a h0b h1a h1b h2a h2b : List R) : Scat2Filters R :=
  { h0o := prepFilt h0o, h1o := prepFilt h1o, h2o := some (prepFilt h2o), h0a := prepFilt h0a, h0b := prepFilt h0b,
    h1a := prepFilt h1a, h1b := prepFilt h1b, h2ab := some (prepFilt h2a, prepFilt h2b) }

/-- **the second-order scattering layer on band-pass families is the band-pass reference DTCWT (levels 1 and 2) composed with the
scattering formulas**, every channel count, every image size with sides multiples of 8, any square-root operation -/
theorem scatJ2_rot_eq_spec (m : MagOps R) (h0o h1o h2o h0a h0b h1a h1b h2a h2b : List R) (hh0 : h0o.length % 2 = 1)
    (hh1 : h1o.length % 2 = 1) (hh2 : h2o.length % 2 = 1)
    (hl0 : 1 ≤ h0b.length) (hab0 : h0a.length = h0b.length) (hl1 : 1 ≤ h1b.length) (hab1 : h1a.length = h1b.length)
    (hl2 : 1 ≤ h2b.length) (hab2 : h2a.length = h2b.length)
    (x : List (Img R)) (a b : Nat) (ha : 1 ≤ a) (hb : 1 ≤ b) (hx : ∀ im ∈ x, Rect im (8*a) (8*b)) :
    scatJ2 m true (mkS2Rot h0o h1o h2o h0a h0b h1a h1b h2a h2b) false x
      = some (Spec.scat2Rot m h0o h1o h2o h0a h0b h1a h1b h2a h2b x) := by
  have hguard : ¬ (x.any (fun im => im.length % 8 ≠ 0 ∨ Img.width im % 8 ≠ 0) = true) := by
    rw [List.any_eq_true]
    rintro ⟨im, him, hodd⟩
    have r := hx im him
    have hw := rect_width _ _ _ r (by omega)
    simp only [r.1, hw, decide_eq_true_eq] at hodd
    omega
  have hx2 : ∀ im ∈ x, Rect im (2*(4*a)) (2*(4*b)) := by
    intro im him; have := hx im him
    rw [show 2*(4*a) = 8*a by ring, show 2*(4*b) = 8*b by ring]; exact this
  have hmap1 : x.map (fwd1 m true (prepFilt h0o) (prepFilt h1o) (some (prepFilt h2o)))
      = x.map fun im => Spec.refLevel1Rot m.s h0o h1o h2o im := by
    apply List.map_congr_left
    intro im him
    exact fwd1Rot_eq m h0o h1o h2o hh0 hh1 hh2 im (4*a) (4*b) (by omega) (by omega) (hx2 im him)
  have hlow : ∀ p ∈ (x.map fun im => Spec.refLevel1Rot m.s h0o h1o h2o im), Rect p.1 (4*(2*a)) (4*(2*b)) := by
    intro p hp
    obtain ⟨im, him, rfl⟩ := List.mem_map.mp hp
    have := refLevel1Rot_rect m.s h0o h1o h2o hh0 im (4*a) (4*b) (by omega) (by omega) (hx2 im him)
    rw [show 4*(2*a) = 2*(4*a) by ring, show 4*(2*b) = 2*(4*b) by ring]; exact this
  have hmap2 : (x.map fun im => Spec.refLevel1Rot m.s h0o h1o h2o im).mapM
        (fun p => fwd2 m (prepFilt h0a) (prepFilt h1a) (prepFilt h0b) (prepFilt h1b) (some (prepFilt h2a, prepFilt h2b)) p.1)
      = some ((x.map fun im => Spec.refLevel1Rot m.s h0o h1o h2o im).map
          fun p => Spec.refLevel2Rot m.s h0a h0b h1a h1b h2a h2b p.1) := by
    apply mapM_total
    intro p hp
    exact fwd2Rot_eq m h0a h0b h1a h1b h2a h2b hl0 hab0 hl1 hab1 hl2 hab2 p.1 (2*a) (2*b) (by omega) (by omega) (hlow p hp)
  have hs1 : ∀ im ∈ ((List.range 6).map fun o => (x.map fun im => Spec.refLevel1Rot m.s h0o h1o h2o im).map
        fun p => subBias m (magR m (p.2.getD o ([], [])))).flatten, Rect im (2*(2*a)) (2*(2*b)) := by
    intro im him
    rw [List.mem_flatten] at him
    obtain ⟨l, hl, himl⟩ := him
    obtain ⟨o, ho, rfl⟩ := List.mem_map.mp hl
    obtain ⟨p, hp, rfl⟩ := List.mem_map.mp himl
    obtain ⟨im0, him0, rfl⟩ := List.mem_map.mp hp
    have hbands := refLevel1Rot_bands m.s h0o h1o h2o hh0 hh1 hh2 im0 (4*a) (4*b) (by omega) (by omega) (hx2 im0 him0) o
      (by simpa using ho)
    have := subBias_magR_rect m ((Spec.refLevel1Rot m.s h0o h1o h2o im0).2.getD o ([], [])) (4*a) (4*b) (by omega)
      hbands.1 hbands.2
    rw [show 2*(2*a) = 4*a by ring, show 2*(2*b) = 4*b by ring]; exact this
  have hmap3 : (((List.range 6).map fun o => (x.map fun im => Spec.refLevel1Rot m.s h0o h1o h2o im).map
        fun p => subBias m (magR m (p.2.getD o ([], [])))).flatten).map
          (fwd1 m true (prepFilt h0o) (prepFilt h1o) (some (prepFilt h2o)))
      = (((List.range 6).map fun o => (x.map fun im => Spec.refLevel1Rot m.s h0o h1o h2o im).map
        fun p => subBias m (magR m (p.2.getD o ([], [])))).flatten).map fun im => Spec.refLevel1Rot m.s h0o h1o h2o im := by
    apply List.map_congr_left
    intro im him
    exact fwd1Rot_eq m h0o h1o h2o hh0 hh1 hh2 im (2*a) (2*b) (by omega) (by omega) (hs1 im him)
  unfold scatJ2
  rw [if_neg hguard]
  simp only [mkS2Rot, Bool.not_true, Bool.false_eq_true, if_false, hmap1, hmap2, hmap3, Option.bind_eq_bind, Option.bind_some,
    Spec.scat2Rot]

/-- **`ScatLayerj2` on band-pass families (module: extension to multiples of 8, then the Function) = reference + formulas** -/
theorem ScatLayerj2_rot_eq_spec (m : MagOps R) (h0o h1o h2o h0a h0b h1a h1b h2a h2b : List R) (hh0 : h0o.length % 2 = 1)
    (hh1 : h1o.length % 2 = 1) (hh2 : h2o.length % 2 = 1)
    (hl0 : 1 ≤ h0b.length) (hab0 : h0a.length = h0b.length) (hl1 : 1 ≤ h1b.length) (hab1 : h1a.length = h1b.length)
    (hl2 : 1 ≤ h2b.length) (hab2 : h2a.length = h2b.length)
    (x : List (Img R)) (H W : Nat) (hH : 4 ≤ H) (hW : 4 ≤ W) (hx : ∀ im ∈ x, Rect im H W) :
    ScatLayerj2 m true (mkS2Rot h0o h1o h2o h0a h0b h1a h1b h2a h2b) false x
      = some (Spec.scat2Rot m h0o h1o h2o h0a h0b h1a h1b h2a h2b (x.map pad8Img)) := by
  unfold ScatLayerj2
  apply scatJ2_rot_eq_spec m h0o h1o h2o h0a h0b h1a h1b h2a h2b hh0 hh1 hh2 hl0 hab0 hl1 hab1 hl2 hab2 _
    ((H + 7) / 8) ((W + 7) / 8) (by omega) (by omega)
  intro im him
  obtain ⟨im0, h0, rfl⟩ := List.mem_map.mp him
  exact pad8Img_rect im0 H W (hx im0 h0) hH hW

/-- **the second-order layer with colour combination on band-pass families = band-pass reference levels + joint-magnitude formulas**,
every RGB image with sides multiples of 8, any square-root operation -/
theorem scatJ2_rot_colour_eq_spec (m : MagOps R) (h0o h1o h2o h0a h0b h1a h1b h2a h2b : List R) (hh0 : h0o.length % 2 = 1)
    (hh1 : h1o.length % 2 = 1) (hh2 : h2o.length % 2 = 1)
    (hl0 : 1 ≤ h0b.length) (hab0 : h0a.length = h0b.length) (hl1 : 1 ≤ h1b.length) (hab1 : h1a.length = h1b.length)
    (hl2 : 1 ≤ h2b.length) (hab2 : h2a.length = h2b.length)
    (x : List (Img R)) (hx3 : x.length = 3) (a b : Nat) (ha : 1 ≤ a) (hb : 1 ≤ b) (hx : ∀ im ∈ x, Rect im (8*a) (8*b)) :
    scatJ2 m true (mkS2Rot h0o h1o h2o h0a h0b h1a h1b h2a h2b) true x
      = some (Spec.scat2cRot m h0o h1o h2o h0a h0b h1a h1b h2a h2b x) := by
  have hguard : ¬ (x.any (fun im => im.length % 8 ≠ 0 ∨ Img.width im % 8 ≠ 0) = true) := by
    rw [List.any_eq_true]
    rintro ⟨im, him, hodd⟩
    have r := hx im him
    have hw := rect_width _ _ _ r (by omega)
    simp only [r.1, hw, decide_eq_true_eq] at hodd
    omega
  have hx2 : ∀ im ∈ x, Rect im (2*(4*a)) (2*(4*b)) := by
    intro im him; have := hx im him
    rw [show 2*(4*a) = 8*a by ring, show 2*(4*b) = 8*b by ring]; exact this
  have hmap1 : x.map (fwd1 m true (prepFilt h0o) (prepFilt h1o) (some (prepFilt h2o)))
      = x.map fun im => Spec.refLevel1Rot m.s h0o h1o h2o im := by
    apply List.map_congr_left
    intro im him
    exact fwd1Rot_eq m h0o h1o h2o hh0 hh1 hh2 im (4*a) (4*b) (by omega) (by omega) (hx2 im him)
  have hlow : ∀ p ∈ (x.map fun im => Spec.refLevel1Rot m.s h0o h1o h2o im), Rect p.1 (4*(2*a)) (4*(2*b)) := by
    intro p hp
    obtain ⟨im, him, rfl⟩ := List.mem_map.mp hp
    have := refLevel1Rot_rect m.s h0o h1o h2o hh0 im (4*a) (4*b) (by omega) (by omega) (hx2 im him)
    rw [show 4*(2*a) = 2*(4*a) by ring, show 4*(2*b) = 2*(4*b) by ring]; exact this
  have hmap2 : (x.map fun im => Spec.refLevel1Rot m.s h0o h1o h2o im).mapM
        (fun p => fwd2 m (prepFilt h0a) (prepFilt h1a) (prepFilt h0b) (prepFilt h1b) (some (prepFilt h2a, prepFilt h2b)) p.1)
      = some ((x.map fun im => Spec.refLevel1Rot m.s h0o h1o h2o im).map
          fun p => Spec.refLevel2Rot m.s h0a h0b h1a h1b h2a h2b p.1) := by
    apply mapM_total
    intro p hp
    exact fwd2Rot_eq m h0a h0b h1a h1b h2a h2b hl0 hab0 hl1 hab1 hl2 hab2 p.1 (2*a) (2*b) (by omega) (by omega) (hlow p hp)
  obtain ⟨x0, rest, hxe⟩ : ∃ x0 rest, x = x0 :: rest := by
    cases x with
    | nil => simp at hx3
    | cons a b => exact ⟨a, b, rfl⟩
  have hx0 : Rect x0 (2*(4*a)) (2*(4*b)) := hx2 x0 (by rw [hxe]; simp)
  have hg0 : ((x.map fun im => Spec.refLevel1Rot m.s h0o h1o h2o im).getD 0 ([], [])) = Spec.refLevel1Rot m.s h0o h1o h2o x0 := by
    rw [hxe]; rfl
  have hs1 : ∀ im ∈ ((List.range 6).map fun o => subBias m (magR3 m
        (((x.map fun im => Spec.refLevel1Rot m.s h0o h1o h2o im).getD 0 ([], [])).2.getD o ([], []))
        (((x.map fun im => Spec.refLevel1Rot m.s h0o h1o h2o im).getD 1 ([], [])).2.getD o ([], []))
        (((x.map fun im => Spec.refLevel1Rot m.s h0o h1o h2o im).getD 2 ([], [])).2.getD o ([], [])))), Rect im (2*(2*a)) (2*(2*b)) := by
    intro im him
    obtain ⟨o, ho, rfl⟩ := List.mem_map.mp him
    rw [hg0]
    have hbands := refLevel1Rot_bands m.s h0o h1o h2o hh0 hh1 hh2 x0 (4*a) (4*b) (by omega) (by omega) hx0 o (by simpa using ho)
    rw [show 2*(2*a) = 4*a by ring, show 2*(2*b) = 4*b by ring]
    exact subBias_magR3_rect m _ _ _ (4*a) (4*b) (by omega) hbands.1 hbands.2
  have hmap3 := List.map_congr_left (f := fwd1 m true (prepFilt h0o) (prepFilt h1o) (some (prepFilt h2o)))
    (g := fun im => Spec.refLevel1Rot m.s h0o h1o h2o im)
    (fun im him => fwd1Rot_eq m h0o h1o h2o hh0 hh1 hh2 im (2*a) (2*b) (by omega) (by omega) (hs1 im him))
  unfold scatJ2
  rw [if_neg hguard]
  have h3 : ¬ (x.length ≠ 3) := by rw [hx3]; simp
  simp only [mkS2Rot, Bool.not_true, Bool.false_eq_true, if_false, if_true, h3, hmap1, hmap2, hmap3, Option.bind_eq_bind, Option.bind_some,
    Spec.scat2cRot, Option.pure_def]

/-- **`ScatLayerj2(combine_colour=True)` on band-pass families (extension to multiples of 8, then the Function) = reference + joint
formulas**, every RGB image with at least 4 rows and columns -/
theorem ScatLayerj2_rot_colour_eq_spec (m : MagOps R) (h0o h1o h2o h0a h0b h1a h1b h2a h2b : List R) (hh0 : h0o.length % 2 = 1)
    (hh1 : h1o.length % 2 = 1) (hh2 : h2o.length % 2 = 1)
    (hl0 : 1 ≤ h0b.length) (hab0 : h0a.length = h0b.length) (hl1 : 1 ≤ h1b.length) (hab1 : h1a.length = h1b.length)
    (hl2 : 1 ≤ h2b.length) (hab2 : h2a.length = h2b.length)
    (x : List (Img R)) (hx3 : x.length = 3) (H W : Nat) (hH : 4 ≤ H) (hW : 4 ≤ W) (hx : ∀ im ∈ x, Rect im H W) :
    ScatLayerj2 m true (mkS2Rot h0o h1o h2o h0a h0b h1a h1b h2a h2b) true x
      = some (Spec.scat2cRot m h0o h1o h2o h0a h0b h1a h1b h2a h2b (x.map pad8Img)) := by
  unfold ScatLayerj2
  apply scatJ2_rot_colour_eq_spec m h0o h1o h2o h0a h0b h1a h1b h2a h2b hh0 hh1 hh2 hl0 hab0 hl1 hab1 hl2 hab2 _ (by simp [hx3])
    ((H + 7) / 8) ((W + 7) / 8) (by omega) (by omega)
  intro im him
  obtain ⟨im0, h0, rfl⟩ := List.mem_map.mp him
  exact pad8Img_rect im0 H W (hx im0 h0) hH hW

/-- the hypotheses are satisfiable by the shipped shapes: `near_sym_b_bp` has 13/19/19 taps, `qshift_b_bp` 14 taps in every filter -/
example : 13 % 2 = 1 ∧ 19 % 2 = 1 ∧ 1 ≤ 14 ∧ (14 : Nat) = 14 := by decide

end C08B
end WV
