/-
  C07 / C01 — the DEPENDENCE CONE of the decimated transform (mode zero), as a theorem about the reference the library refines to.

  A coefficient of `pywt.dwt` reads the `L` samples `x[2k+1-(L-1) … 2k+1]` (zero outside the signal) and nothing else
  (`dwt_zero_local`); through `J` levels the low-pass coefficient `k` reads the samples
  `2^J k − (2^J − 1)(L − 1) … 2^J k + 2^J − 1` (`wavedec_low_cone`), and so does every band-pass coefficient of level `J`
  (`wavedec_band_cone`).  Two signals of the same length that agree on that window - whatever they hold elsewhere: other finite
  values, or, over `ℝ` read as "the floats", a non-finite sample - have the same coefficient.  The special-values oracle
  (`harness/locality.py`) uses the radius `2^j (L + 2)`, which contains this window; `DWT1DForward` is `wavedec` (C01).
-/
import WaveletsVerif.Properties.C01
import Mathlib.Data.List.GetD
namespace WV.C07W
open WV
variable {R : Type} [CommRing R]

/-- **one level reads a window of `L` samples** -/
theorem dwt_zero_local (h x x' : List R) (hlen : x.length = x'.length) (k : Nat)
    (hw : ∀ t : Int, 2 * (k : Int) + 1 - ((h.length : Int) - 1) ≤ t → t ≤ 2 * (k : Int) + 1 → getZ x t = getZ x' t) :
    getN (Spec.dwt .zero h x) k = getN (Spec.dwt .zero h x') k := by
  unfold Spec.dwt
  simp only [Spec.ext]
  rw [getN_tab, getN_tab, hlen]
  split
  · rw [sumN_eq, sumN_eq]
    apply Finset.sum_congr rfl
    intro j hj
    have hj' := Finset.mem_range.mp hj
    rw [hw (2 * (k : Int) + 1 - j) (by omega) (by omega)]
  · rfl

/-- two signals agree on a window (as zero-extended sequences) -/
def AgreeOn (x x' : List R) (lo hi : Int) : Prop := ∀ t : Int, lo ≤ t → t ≤ hi → getZ x t = getZ x' t

theorem dwt_zero_agree (h x x' : List R) (hlen : x.length = x'.length) (lo hi : Int)
    (hw : AgreeOn x x' (2 * lo + 1 - ((h.length : Int) - 1)) (2 * hi + 1)) :
    AgreeOn (Spec.dwt .zero h x) (Spec.dwt .zero h x') lo hi := by
  intro t h1 h2
  by_cases ht : 0 ≤ t
  · have e : ∀ y : List R, getZ y t = getN y t.toNat := by
      intro y; unfold getZ getN; rw [if_pos ht]
    rw [e, e]
    apply dwt_zero_local h x x' hlen t.toNat
    intro u hu1 hu2
    have : (t.toNat : Int) = t := Int.toNat_of_nonneg ht
    exact hw u (by omega) (by omega)
  · unfold getZ; rw [if_neg ht, if_neg ht]

theorem dwt_zero_length (h x x' : List R) (hlen : x.length = x'.length) :
    (Spec.dwt .zero h x).length = (Spec.dwt .zero h x').length := by
  simp [Spec.dwt, hlen]

/-- **`J` levels: the low-pass coefficients with indices in `[lo, hi]` read the window `[2^J lo − (2^J − 1)(L − 1), 2^J hi + 2^J − 1]`** -/
theorem wavedec_low_agree (h0 h1 : List R) : ∀ (J : Nat) (x x' : List R) (lo hi : Int), x.length = x'.length →
    AgreeOn x x' ((2:Int) ^ J * lo - ((2:Int) ^ J - 1) * ((h0.length : Int) - 1)) ((2:Int) ^ J * hi + (2:Int) ^ J - 1) →
    AgreeOn (Spec.wavedec .zero h0 h1 J x).1 (Spec.wavedec .zero h0 h1 J x').1 lo hi ∧
      (Spec.wavedec .zero h0 h1 J x).1.length = (Spec.wavedec .zero h0 h1 J x').1.length
  | 0, x, x', lo, hi, hlen, hw => by
    simp only [Spec.wavedec]
    refine ⟨?_, hlen⟩
    intro t h1' h2'
    exact hw t (by simp; omega) (by simp; omega)
  | J+1, x, x', lo, hi, hlen, hw => by
    simp only [Spec.wavedec]
    have e2 : (2:Int) ^ (J + 1) = 2 * (2:Int) ^ J := by rw [pow_succ]; ring
    rw [e2] at hw
    apply wavedec_low_agree h0 h1 J _ _ lo hi (dwt_zero_length h0 x x' hlen)
    apply dwt_zero_agree h0 x x' hlen
    intro t ht1 ht2
    apply hw t
    · linarith
    · linarith

/-- **the dependence cone of a low-pass coefficient of level `J`** -/
theorem wavedec_low_cone (h0 h1 : List R) (J : Nat) (x x' : List R) (k : Nat) (hlen : x.length = x'.length)
    (hw : AgreeOn x x' ((2:Int) ^ J * k - ((2:Int) ^ J - 1) * ((h0.length : Int) - 1)) ((2:Int) ^ J * k + (2:Int) ^ J - 1)) :
    getN (Spec.wavedec .zero h0 h1 J x).1 k = getN (Spec.wavedec .zero h0 h1 J x').1 k := by
  have := (wavedec_low_agree h0 h1 J x x' k k hlen hw).1 k (le_refl _) (le_refl _)
  unfold getZ at this
  simpa [getN] using this

/-- the finest band-pass level of a `(J+1)`-level pyramid: its coefficient `k` reads, through `J` low-pass levels and one high-pass
level, a window of the same shape (both filters of length `L`) -/
theorem wavedec_band_first (h0 h1 : List R) (J : Nat) (x x' : List R) (k : Nat) (hlen : x.length = x'.length)
    (hw : AgreeOn x x' (2 * (k : Int) + 1 - ((h1.length : Int) - 1)) (2 * (k : Int) + 1)) :
    getN ((Spec.wavedec .zero h0 h1 (J + 1) x).2.getD 0 []) k = getN ((Spec.wavedec .zero h0 h1 (J + 1) x').2.getD 0 []) k := by
  simp only [Spec.wavedec, List.getD_cons_zero]
  exact dwt_zero_local h1 x x' hlen k hw

/-- **every band-pass level**: coefficient indices `[lo, hi]` of level `i + 1` (0-based `i`) of a `J`-level pyramid read the window
`[2^(i+1) lo − (2^(i+1) − 1)(L − 1), 2^(i+1) hi + 2^(i+1) − 1]` (both filters `L` long) -/
theorem wavedec_band_agree (h0 h1 : List R) (hL : h1.length = h0.length) : ∀ (i J : Nat) (x x' : List R) (lo hi : Int), i < J →
    x.length = x'.length →
    AgreeOn x x' ((2:Int) ^ (i + 1) * lo - ((2:Int) ^ (i + 1) - 1) * ((h0.length : Int) - 1)) ((2:Int) ^ (i + 1) * hi + (2:Int) ^ (i + 1) - 1) →
    AgreeOn ((Spec.wavedec .zero h0 h1 J x).2.getD i []) ((Spec.wavedec .zero h0 h1 J x').2.getD i []) lo hi
  | 0, J+1, x, x', lo, hi, _, hlen, hw => by
    simp only [Spec.wavedec, List.getD_cons_zero]
    apply dwt_zero_agree h1 x x' hlen
    intro t ht1 ht2
    rw [hL] at ht1
    apply hw t
    · simp only [zero_add, pow_one]; linarith
    · simp only [zero_add, pow_one]; linarith
  | i+1, J+1, x, x', lo, hi, hi', hlen, hw => by
    simp only [Spec.wavedec, List.getD_cons_succ]
    apply wavedec_band_agree h0 h1 hL i J _ _ lo hi (by omega) (dwt_zero_length h0 x x' hlen)
    apply dwt_zero_agree h0 x x' hlen
    intro t ht1 ht2
    have e2 : (2:Int) ^ (i + 1 + 1) = 2 * (2:Int) ^ (i + 1) := by rw [pow_succ]; ring
    rw [e2] at hw
    apply hw t
    · linarith
    · linarith
  | _, 0, _, _, _, _, h, _, _ => absurd h (by omega)

theorem getZ_oob (g : List R) (i : Int) (h : i < 0 ∨ (g.length : Int) ≤ i) : getZ g i = 0 := by
  unfold getZ
  by_cases h0 : 0 ≤ i
  · rw [if_pos h0, List.getD_eq_default g 0 (by omega)]
  · rw [if_neg h0]

/-- **the synthesis reads a window too**: sample `t` of `pywt.idwt` (mode zero) reads the coefficients `k` with
`0 ≤ t + L − 2 − 2k < L` of both bands and nothing else -/
theorem idwt_zero_local (g0 g1 lo lo' hi hi' : List R) (hg : g1.length = g0.length) (hlen : lo.length = lo'.length) (t : Nat)
    (hw : ∀ k : Nat, 0 ≤ (t : Int) + g0.length - 2 - 2 * k → (t : Int) + g0.length - 2 - 2 * k < g0.length →
      getN lo k = getN lo' k ∧ getN hi k = getN hi' k) :
    getN (Spec.idwt .zero g0 g1 lo hi) t = getN (Spec.idwt .zero g0 g1 lo' hi') t := by
  unfold Spec.idwt
  simp only
  rw [getN_tab, getN_tab, hlen]
  split
  · rw [sumN_eq, sumN_eq]
    apply Finset.sum_congr rfl
    intro k _
    by_cases hin : 0 ≤ (t : Int) + g0.length - 2 - 2 * k ∧ (t : Int) + g0.length - 2 - 2 * k < g0.length
    · obtain ⟨e1, e2⟩ := hw k hin.1 hin.2
      rw [e1, e2]
    · have z0 : getZ g0 ((t : Int) + g0.length - 2 - 2 * k) = 0 := getZ_oob g0 _ (by omega)
      have z1 : getZ g1 ((t : Int) + g0.length - 2 - 2 * k) = 0 := getZ_oob g1 _ (by rw [hg]; omega)
      rw [z0, z1]; ring
  · rfl

/-- **the stationary transform reads a circular window**: coefficient `k` of `pywt.swt` at dilation `d` reads the `L` samples
`x[(k + d (L/2 − i)) mod N]`, `i < L`, and nothing else -/
theorem swt_local (h x x' : List R) (d : Nat) (hlen : x.length = x'.length) (k : Nat)
    (hw : ∀ i : Nat, i < h.length → getZ x (((k:Int) + (d:Int) * (((h.length / 2 : Nat):Int) - i)) % (x.length : Int))
      = getZ x' (((k:Int) + (d:Int) * (((h.length / 2 : Nat):Int) - i)) % (x.length : Int))) :
    getN (Spec.swt h x d) k = getN (Spec.swt h x' d) k := by
  unfold Spec.swt
  rw [getN_tab, getN_tab, ← hlen]
  split
  · rw [sumN_eq, sumN_eq]
    apply Finset.sum_congr rfl
    intro i hi
    rw [hw i (Finset.mem_range.mp hi)]
  · rfl

/-- non-vacuity and what the window is for `db2` (`L = 4`), two levels, coefficient 5: the samples 11 … 23 -/
example : ((2:Int) ^ 2 * 5 - ((2:Int) ^ 2 - 1) * ((4:Int) - 1), (2:Int) ^ 2 * 5 + (2:Int) ^ 2 - 1) = (11, 23) := by decide

end WV.C07W
