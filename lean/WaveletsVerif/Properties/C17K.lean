/-
  C17 — two dimensions: one level of the 2-D DWT with orthonormal banks in periodization mode preserves energy.

  The one-dimensional isometry (`C17.isometry`: `‖A₀c‖² + ‖A₁c‖² = ‖c‖²` for every even length, every orthonormal bank)
  is lifted along the rows and along the columns of an image (`iso_W`, `iso_H`) and composed for the row pass followed by
  the column pass of the implementation model of `AFB2D.forward` (C05P.AFB2D_forward_val):
  `‖ll‖² + ‖lh‖² + ‖hl‖² + ‖hh‖² = ‖x‖²` for every image with even sides and every pair of orthonormal banks
  (column bank, row bank) no longer than the sides.
-/
import WaveletsVerif.Properties.C05P
import WaveletsVerif.Properties.C17
namespace WV.C17K
open Finset WV WV.C04 WV.C04Q WV.C06 WV.C05D WV.C05P WV.C17
variable {R : Type} [CommRing R]

/-- lifting a one-dimensional two-band isometry along the rows -/
theorem iso_W (A0 A1 : List R → List R) (H W K : Nat)
    (h1d : ∀ c : List R, c.length = W → energy (A0 c) + energy (A1 c) = energy c)
    (l0 : ∀ c : List R, c.length = W → (A0 c).length = K) (l1 : ∀ c : List R, c.length = W → (A1 c).length = K)
    (x : Img R) (hx : Rect x H W) :
    dot2 H K (alongW A0 x) (alongW A0 x) + dot2 H K (alongW A1 x) (alongW A1 x) = dot2 H W x x := by
  rw [alongW_get' A0 x H W K hx l0, alongW_get' A1 x H W K hx l1]
  unfold dot2
  rw [← Finset.sum_add_distrib]
  apply Finset.sum_congr rfl; intro i hi
  have hi' : i < H := by simpa using hi
  have hr := getD_row_length x H W hx i hi'
  have := h1d (x.getD i []) hr
  unfold energy at this
  rw [l0 _ hr, l1 _ hr, hr] at this
  calc (∑ j ∈ range K, get2 (tab2 H K fun i j => getN (A0 (x.getD i [])) j) i j * get2 (tab2 H K fun i j => getN (A0 (x.getD i [])) j) i j)
        + ∑ j ∈ range K, get2 (tab2 H K fun i j => getN (A1 (x.getD i [])) j) i j * get2 (tab2 H K fun i j => getN (A1 (x.getD i [])) j) i j
      = (∑ j ∈ range K, getN (A0 (x.getD i [])) j * getN (A0 (x.getD i [])) j) + ∑ j ∈ range K, getN (A1 (x.getD i [])) j * getN (A1 (x.getD i [])) j := by
        congr 1 <;> (apply Finset.sum_congr rfl; intro j hj; have hj' : j < K := by simpa using hj
                     rw [C19.get2_tab2 _ _ _ _ _ hi' hj'])
    _ = ∑ j ∈ range W, getN (x.getD i []) j * getN (x.getD i []) j := this
    _ = ∑ j ∈ range W, get2 x i j * get2 x i j := by
        apply Finset.sum_congr rfl; intro j _; rfl

/-- lifting a one-dimensional two-band isometry along the columns -/
theorem iso_H (A0 A1 : List R → List R) (H W K : Nat)
    (h1d : ∀ c : List R, c.length = H → energy (A0 c) + energy (A1 c) = energy c)
    (l0 : ∀ c : List R, c.length = H → (A0 c).length = K) (l1 : ∀ c : List R, c.length = H → (A1 c).length = K)
    (x : Img R) (hx : Rect x H W) (hH : 1 ≤ H) (hW : 1 ≤ W) :
    dot2 K W (alongH A0 x) (alongH A0 x) + dot2 K W (alongH A1 x) (alongH A1 x) = dot2 H W x x := by
  rw [alongH_get' A0 x H K W hx hH hW l0, alongH_get' A1 x H K W hx hH hW l1]
  unfold dot2
  rw [Finset.sum_comm, Finset.sum_comm (s := range K) (t := range W), Finset.sum_comm (s := range H) (t := range W),
    ← Finset.sum_add_distrib]
  apply Finset.sum_congr rfl; intro j hj
  have hj' : j < W := by simpa using hj
  have hc : (col x j).length = H := by simp [col, hx.1]
  have := h1d (col x j) hc
  unfold energy at this
  rw [l0 _ hc, l1 _ hc, hc] at this
  calc (∑ i ∈ range K, get2 (tab2 K W fun i j => getN (A0 (col x j)) i) i j * get2 (tab2 K W fun i j => getN (A0 (col x j)) i) i j)
        + ∑ i ∈ range K, get2 (tab2 K W fun i j => getN (A1 (col x j)) i) i j * get2 (tab2 K W fun i j => getN (A1 (col x j)) i) i j
      = (∑ i ∈ range K, getN (A0 (col x j)) i * getN (A0 (col x j)) i) + ∑ i ∈ range K, getN (A1 (col x j)) i * getN (A1 (col x j)) i := by
        congr 1 <;> (apply Finset.sum_congr rfl; intro i hi; have hi' : i < K := by simpa using hi
                     rw [C19.get2_tab2 _ _ _ _ _ hi' hj'])
    _ = ∑ i ∈ range H, getN (col x j) i * getN (col x j) i := this
    _ = ∑ i ∈ range H, get2 x i j * get2 x i j := by
        apply Finset.sum_congr rfl; intro i hi
        rw [get2_eq_getN_col x H W hx i j (by simpa using hi)]

/-- **one level of the 2-D DWT is an isometry** (implementation model of `AFB2D.forward`, periodization, orthonormal
column bank `(hc0, hc1)` and row bank `(hr0, hr1)`, even sides not shorter than the filters) -/
theorem AFB2D_isometry (hr0 hr1 hc0 hc1 : List R) (hLr : 2 ≤ hr0.length) (hLre : hr0.length % 2 = 0) (hwr : hr1.length = hr0.length)
    (hLc : 2 ≤ hc0.length) (hLce : hc0.length % 2 = 0) (hwc : hc1.length = hc0.length)
    (horr : PRBank hr0 hr1 hr0.reverse hr1.reverse) (horc : PRBank hc0 hc1 hc0.reverse hc1.reverse)
    (x : Img R) (H W : Nat) (hx : Rect x H W) (hHe : H % 2 = 0) (hWe : W % 2 = 0) (hfH : hc0.length ≤ H) (hfW : hr0.length ≤ W) :
    ∃ ll lh hl hh, AFB2D_forward .periodization hr0.reverse hr1.reverse hc0.reverse hc1.reverse [x] = some ([ll], [[lh, hl, hh]]) ∧
      dot2 (H / 2) (W / 2) ll ll + dot2 (H / 2) (W / 2) lh lh + dot2 (H / 2) (W / 2) hl hl + dot2 (H / 2) (W / 2) hh hh = dot2 H W x x := by
  have hH : 1 ≤ H := by omega
  have hW : 1 ≤ W := by omega
  have eH : (H + H % 2) / 2 = H / 2 := by omega
  have eW : (W + W % 2) / 2 = W / 2 := by omega
  refine ⟨_, _, _, _, C05P.AFB2D_forward_val hr0 hr1 hc0 hc1 hLr hLre hwr hLc hLce hwc H W hH hW (by omega) (by omega) x hx, ?_⟩
  have lW : ∀ (w c : List R), c.length = W → (Ap w c).length = W / 2 := fun w c hc => by rw [Ap_length, hc, eW]
  have lH : ∀ (w c : List R), c.length = H → (Ap w c).length = H / 2 := fun w c hc => by rw [Ap_length, hc, eH]
  have rA : ∀ w : List R, Rect (alongW (Ap w) x) H (W / 2) := by
    intro w
    rw [alongW_get' (Ap w) x H W _ hx (lW w)]
    exact tab2_rect _ _ _
  have iW := iso_W (Ap hr0) (Ap hr1) H W (W / 2)
    (fun c hc => isometry hr0 hr1 c hLr hLre hwr horr (by rw [hc]; exact hWe) (by rw [hc]; omega)) (lW hr0) (lW hr1) x hx
  have iH0 := iso_H (Ap hc0) (Ap hc1) H (W / 2) (H / 2)
    (fun c hc => isometry hc0 hc1 c hLc hLce hwc horc (by rw [hc]; exact hHe) (by rw [hc]; omega)) (lH hc0) (lH hc1) _ (rA hr0) hH (by omega)
  have iH1 := iso_H (Ap hc0) (Ap hc1) H (W / 2) (H / 2)
    (fun c hc => isometry hc0 hc1 c hLc hLce hwc horc (by rw [hc]; exact hHe) (by rw [hc]; omega)) (lH hc0) (lH hc1) _ (rA hr1) hH (by omega)
  rw [← iW, ← iH0, ← iH1]; ring


/-! ### the whole 2-D pyramid -/

/-- every level's input has even sides not shorter than the filters -/
def LevelsOK2 (Lc Lr : Nat) : Nat → Nat → Nat → Prop
  | 0, _, _ => True
  | J+1, H, W => H % 2 = 0 ∧ W % 2 = 0 ∧ Lc ≤ H ∧ Lr ≤ W ∧ LevelsOK2 Lc Lr J (H / 2) (W / 2)

/-- energy of an image (of any shape): the sum of the squares of its samples -/
def energy2 (x : Img R) : R := dot2 x.length x.width x x

theorem energy2_rect (x : Img R) (H W : Nat) (hx : Rect x H W) (hH : 1 ≤ H) : energy2 x = dot2 H W x x := by
  unfold energy2; rw [hx.1, rect_width x H W hx hH]

/-- **the J-level 2-D DWT is an isometry** (implementation model of `DWTForward`, periodization, orthonormal column and row
banks): `‖yl‖² + Σ_j (‖lh_j‖² + ‖hl_j‖² + ‖hh_j‖²) = ‖x‖²` whenever every level has even sides not shorter than the filters -/
theorem DWT2D_isometry (hr0 hr1 hc0 hc1 : List R) (hLr : 2 ≤ hr0.length) (hLre : hr0.length % 2 = 0) (hwr : hr1.length = hr0.length)
    (hLc : 2 ≤ hc0.length) (hLce : hc0.length % 2 = 0) (hwc : hc1.length = hc0.length)
    (horr : PRBank hr0 hr1 hr0.reverse hr1.reverse) (horc : PRBank hc0 hc1 hc0.reverse hc1.reverse) :
    ∀ (J : Nat) (x : Img R) (H W : Nat), Rect x H W → 1 ≤ H → 1 ≤ W → LevelsOK2 hc0.length hr0.length J H W →
      ∃ yl yh, DWTForward .periodization hc0.reverse hc1.reverse hr0.reverse hr1.reverse J [x] = some ([yl], yh) ∧
        energy2 yl + (yh.map fun lvl => ((lvl.getD 0 []).map energy2).sum).sum = energy2 x
  | 0, x, H, W, _, _, _, _ => ⟨x, [], by simp [DWTForward], by simp⟩
  | J+1, x, H, W, hx, hH, hW, hok => by
    obtain ⟨hHe, hWe, hfH, hfW, hrest⟩ := hok
    obtain ⟨ll, lh, hl, hh, hf, hid⟩ := AFB2D_isometry hr0 hr1 hc0 hc1 hLr hLre hwr hLc hLce hwc horr horc x H W hx hHe hWe hfH hfW
    -- the shape of the next level's input
    have hfv := C05P.AFB2D_forward_val hr0 hr1 hc0 hc1 hLr hLre hwr hLc hLce hwc H W hH hW (by omega) (by omega) x hx
    rw [hfv] at hf
    simp only [Option.some.injEq, Prod.mk.injEq, List.cons.injEq, and_true] at hf
    obtain ⟨e1, e2, e3, e4⟩ := hf
    have eH : (H + H % 2) / 2 = H / 2 := by omega
    have eW : (W + W % 2) / 2 = W / 2 := by omega
    have rW : ∀ w : List R, Rect (alongW (Ap w) x) H (W / 2) := by
      intro w
      rw [alongW_get' (Ap w) x H W _ hx (fun c hc => by rw [Ap_length, hc, eW])]
      exact tab2_rect _ _ _
    have rB : ∀ (wc wr : List R), Rect (alongH (Ap wc) (alongW (Ap wr) x)) (H / 2) (W / 2) := by
      intro wc wr
      rw [alongH_get' (Ap wc) _ H (H / 2) (W / 2) (rW wr) hH (by omega) (fun c hc => by rw [Ap_length, hc, eH])]
      exact tab2_rect _ _ _
    have rll : Rect ll (H / 2) (W / 2) := by rw [← e1]; exact rB hc0 hr0
    have hH2 : 1 ≤ H / 2 := by omega
    have hW2 : 1 ≤ W / 2 := by omega
    obtain ⟨yl, yh, hrec, hen⟩ := DWT2D_isometry hr0 hr1 hc0 hc1 hLr hLre hwr hLc hLce hwc horr horc J ll (H / 2) (W / 2) rll hH2 hW2 hrest
    refine ⟨yl, [[lh, hl, hh]] :: yh, ?_, ?_⟩
    · simp only [DWTForward]
      rw [hfv]
      simp only [Option.bind_eq_bind, Option.bind_some]
      rw [e1, hrec]
      simp only [Option.bind_some]
      rw [e2, e3, e4]
    · simp only [List.map_cons, List.sum_cons, List.getD_cons_zero, List.map_nil, List.sum_nil, add_zero]
      have rlh : Rect lh (H / 2) (W / 2) := by rw [← e2]; exact rB hc1 hr0
      have rhl : Rect hl (H / 2) (W / 2) := by rw [← e3]; exact rB hc0 hr1
      have rhh : Rect hh (H / 2) (W / 2) := by rw [← e4]; exact rB hc1 hr1
      rw [energy2_rect lh _ _ rlh hH2, energy2_rect hl _ _ rhl hH2, energy2_rect hh _ _ rhh hH2, energy2_rect x H W hx hH, ← hid,
        ← energy2_rect ll _ _ rll hH2, ← hen]
      ring

/-- the level condition is satisfiable: a 16 × 8 image, two levels, 4-tap filters -/
example : LevelsOK2 4 4 2 16 8 := by simp [LevelsOK2]

end WV.C17K
namespace WV.C17K
open WV WV.C04
/-- the size hypotheses are satisfiable (with the orthonormal integer bank of C17's example, length 4): a 4 × 4 image -/
example : Rect ([[1, 2, 3, 4], [5, 6, 7, 8], [1, 0, 1, 0], [2, 2, 2, 2]] : Img Int) 4 4 ∧ 4 % 2 = 0 ∧ ([0, 1, 0, 0] : List Int).length ≤ 4 := by
  simp [Rect]
end WV.C17K
