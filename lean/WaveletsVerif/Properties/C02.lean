/-
  C02 — DWT perfect reconstruction: what is proved so far.

  * Both directions of the transform are the PyWavelets formulas (C01: analysis in zero /
    symmetric / periodic / periodization-even; C10: synthesis in the four non-periodization
    modes), so PR of the code follows from PR of the PyWavelets formulas wherever both hold.
  * For every two-tap bank satisfying the 2×2 biorthogonality equations (Haar, db1 and all
    their scalings) and every signal, `idwt(dwt(x))` restricted to the original extent is `x`,
    and the result has length `N` (even) or `N+1` (odd) — mode zero, all lengths.
  * The general length-L statement is covered by the oracle on all 106 wavelets (error no
    larger than PyWavelets' own); its proof is staged (DESIGN.md).
-/
import WaveletsVerif.Properties.C01
import WaveletsVerif.Properties.C10
import WaveletsVerif.Lemmas.PR
import Mathlib.Tactic.IntervalCases
import Mathlib.Algebra.BigOperators.Group.Finset.Sigma
namespace WV.C02
open Finset WV
variable {R : Type} [CommRing R]

/-- the un-pad rule of `DWT1DInverse` / `pywt.waverec`: the synthesis of `n` coefficient pairs has
`2n + 2 − L` samples, which is `N` or `N+1` when `n = ⌊(N+L−1)/2⌋` -/
theorem unpad_length (N L : Nat) (hL : 2 ≤ L) (hN : 1 ≤ N) :
    2 * dwtCoeffLen N L + 2 - L = N ∨ 2 * dwtCoeffLen N L + 2 - L = N + 1 := by
  unfold dwtCoeffLen; omega

theorem idwt_length_zero (g0 g1 lo hi : List R) :
    (Spec.idwt .zero g0 g1 lo hi).length = 2 * lo.length + 2 - g0.length := by
  simp [Spec.idwt]

/-- two-tap perfect reconstruction (mode zero): if
`a1·c0 + b1·d0 = 1, a0·c0 + b0·d0 = 0, a0·c1 + b0·d1 = 1, a1·c1 + b1·d1 = 0`
then every sample of the original extent is recovered, for every signal. -/
theorem pr_two_tap_zero (a0 a1 b0 b1 c0 c1 d0 d1 : R)
    (e1 : a1*c0 + b1*d0 = 1) (e2 : a0*c0 + b0*d0 = 0) (e3 : a0*c1 + b0*d1 = 1) (e4 : a1*c1 + b1*d1 = 0)
    (x : List R) (t : Nat) (ht : t < x.length) :
    getN (Spec.idwt .zero [c0, c1] [d0, d1] (Spec.dwt .zero [a0, a1] x) (Spec.dwt .zero [b0, b1] x)) t = getN x t := by
  have hK : (Spec.dwt .zero [a0, a1] x).length = (x.length + 1) / 2 := by simp [Spec.dwt, dwtCoeffLen]
  have hdwt : ∀ (p q : R) (k : Nat), k < (x.length + 1)/2 →
      getN (Spec.dwt .zero [p, q] x) k = p * getZ x (2*(k:Int)+1) + q * getZ x (2*(k:Int)) := by
    intro p q k hk
    unfold Spec.dwt
    simp only [List.length_cons, List.length_nil, dwtCoeffLen]
    rw [getN_tab]
    have : k < (x.length + (0+1+1) - 1) / 2 := by omega
    simp only [this, if_true, sumN, Spec.ext]
    have i1 : (2*(k:Int) + 1 - ((0:Nat):Int)) = 2*(k:Int) + 1 := by simp
    have i2 : (2*(k:Int) + 1 - ((0+1:Nat):Int)) = 2*(k:Int) := by push_cast; ring
    rw [i1, i2]
    simp [getN]
  unfold Spec.idwt
  simp only [hK, List.length_cons, List.length_nil]
  rw [getN_tab]
  have hlt : t < 2 * ((x.length + 1)/2) + 2 - (0+1+1) := by omega
  simp only [hlt, if_true]
  rw [sumN_eq, Finset.sum_eq_single_of_mem (t/2) (by simp; omega)]
  · have hk : t/2 < (x.length+1)/2 := by omega
    rw [hdwt a0 a1 _ hk, hdwt b0 b1 _ hk]
    rcases Nat.mod_two_eq_zero_or_one t with hpar | hpar
    · have i0 : ((t:Int) + ((0+1+1 : Nat):Int) - 2 - 2*((t/2 : Nat):Int)) = 0 := by push_cast; omega
      have i1 : 2*((t/2 : Nat):Int) = (t:Int) := by push_cast; omega
      rw [i0, i1]
      have z0 : ∀ (p q : R), getZ [p, q] 0 = p := by intro p q; simp [getZ]
      rw [z0, z0, ← getN_eq_getZ]
      calc (a0 * getZ x ((t:Int)+1) + a1 * getN x t) * c0 + (b0 * getZ x ((t:Int)+1) + b1 * getN x t) * d0
          = (a1*c0 + b1*d0) * getN x t + (a0*c0 + b0*d0) * getZ x ((t:Int)+1) := by ring
        _ = getN x t := by rw [e1, e2]; ring
    · have i0 : ((t:Int) + ((0+1+1 : Nat):Int) - 2 - 2*((t/2 : Nat):Int)) = 1 := by push_cast; omega
      have i1 : 2*((t/2 : Nat):Int) + 1 = (t:Int) := by push_cast; omega
      have i2 : 2*((t/2 : Nat):Int) = (t:Int) - 1 := by omega
      rw [i0, i1, i2]
      have z1 : ∀ (p q : R), getZ [p, q] 1 = q := by intro p q; simp [getZ]
      rw [z1, z1, ← getN_eq_getZ]
      calc (a0 * getN x t + a1 * getZ x ((t:Int)-1)) * c1 + (b0 * getN x t + b1 * getZ x ((t:Int)-1)) * d1
          = (a0*c1 + b0*d1) * getN x t + (a1*c1 + b1*d1) * getZ x ((t:Int)-1) := by ring
        _ = getN x t := by rw [e3, e4]; ring
  · intro k hk hne
    have hk' : k < (x.length+1)/2 := by simpa using hk
    have hz : ∀ (p q : R), getZ [p, q] ((t:Int) + ((0+1+1 : Nat):Int) - 2 - 2*(k:Int)) = 0 := by
      intro p q
      by_cases hlt2 : (t:Int) - 2*(k:Int) < 0
      · exact getZ_neg _ _ (by push_cast; omega)
      · exact getZ_of_ge _ _ (by simp; push_cast; omega)
    rw [hz, hz]; ring

/-- **General perfect reconstruction, mode zero**: for every analysis/synthesis bank of any length `L ≥ 2`
satisfying the polyphase biorthogonality conditions `PRBank` (finite, decidable for a concrete bank), and
every signal, `idwt(dwt(x))` returns every sample of the original extent — PyWavelets' formulas, which the
code is proved to compute (C01.afb1dOne_zero_eq_dwt, C10.sfb1dCh_eq_idwt). -/
theorem pr_zero (h0 h1 g0 g1 x : List R) (hL : 2 ≤ h0.length) (hh1 : h1.length = h0.length)
    (hg0 : g0.length = h0.length) (hg1 : g1.length = h0.length) (hpr : PRBank h0 h1 g0 g1)
    (t : Nat) (ht : t < x.length) :
    getN (Spec.idwt .zero g0 g1 (Spec.dwt .zero h0 x) (Spec.dwt .zero h1 x)) t = getN x t := by
  have hN : 1 ≤ x.length := by omega
  set K := dwtCoeffLen x.length h0.length with hK
  have hKdef : K = (x.length + h0.length - 1) / 2 := rfl
  have hlo : (Spec.dwt .zero h0 x).length = K := by simp [Spec.dwt, hK]
  have hlo_get : ∀ (h : List R), h.length = h0.length → ∀ k < K,
      getN (Spec.dwt .zero h x) k = ∑ i ∈ range x.length, getN x i * getZ h (2*(k:Int) + 1 - i) := by
    intro h hh k hk
    unfold Spec.dwt
    simp only [hh]
    rw [getN_tab]
    simp only [← hK, hk, if_true]
    rw [sumN_eq, ← hh]
    simp only [Spec.ext]
    exact reindex_neg h x (2*(k:Int) + 1)
  unfold Spec.idwt
  simp only [hlo, hg0]
  rw [getN_tab]
  have ht2 : t < 2 * K + 2 - h0.length := by omega
  simp only [ht2, if_true]
  rw [sumN_eq]
  have step1 : ∀ k ∈ range K,
      getN (Spec.dwt .zero h0 x) k * getZ g0 ((t:Int) + h0.length - 2 - 2*(k:Int))
        + getN (Spec.dwt .zero h1 x) k * getZ g1 ((t:Int) + h0.length - 2 - 2*(k:Int))
      = ∑ i ∈ range x.length, getN x i *
          (getZ h0 (2*(k:Int) + 1 - i) * getZ g0 ((t:Int) + h0.length - 2 - 2*(k:Int))
           + getZ h1 (2*(k:Int) + 1 - i) * getZ g1 ((t:Int) + h0.length - 2 - 2*(k:Int))) := by
    intro k hk
    have hk' : k < K := by simpa using hk
    rw [hlo_get h0 rfl k hk', hlo_get h1 hh1 k hk', Finset.sum_mul, Finset.sum_mul, ← Finset.sum_add_distrib]
    apply Finset.sum_congr rfl; intro i _; ring
  rw [Finset.sum_congr rfl step1, Finset.sum_comm]
  have step2 : ∀ i ∈ range x.length,
      ∑ k ∈ range K, getN x i *
          (getZ h0 (2*(k:Int) + 1 - i) * getZ g0 ((t:Int) + h0.length - 2 - 2*(k:Int))
           + getZ h1 (2*(k:Int) + 1 - i) * getZ g1 ((t:Int) + h0.length - 2 - 2*(k:Int)))
      = getN x i * (if ((t:Int) - i) = 0 then 1 else 0) := by
    intro i hi
    have hi' : i < x.length := by simpa using hi
    rw [← Finset.mul_sum, Finset.sum_add_distrib]
    have k0 := kernel_reindex h0 g0 x.length K i (t:Int) hi' hKdef (by omega)
    have k1 := kernel_reindex h1 g1 x.length K i (t:Int) hi' (by rw [hh1]; exact hKdef) (by omega)
    rw [hh1] at k1
    rw [k0, k1, ← Finset.sum_add_distrib]
    congr 1
    have := prbank_all_lags h0 h1 g0 g1 (by omega) hg0 hg1 hpr ((i+1) % 2) (by omega) ((t:Int) - i)
    rw [← this]
    apply Finset.sum_congr rfl; intro a _
    split <;> simp
  rw [Finset.sum_congr rfl step2]
  rw [Finset.sum_eq_single_of_mem t (by simpa using ht)]
  · simp
  · intro i _ hne
    have : ¬ ((t:Int) - i = 0) := by omega
    rw [if_neg this]; ring


/-- **Perfect reconstruction for an arbitrary signal extension.**  Let `e : ℤ → R` be *any* extension of a
signal of `N` samples (zero, half-sample symmetric, whole-sample symmetric, periodic, constant, … — nothing
is assumed about `e` outside `[0, N)`), analysed by `lo_k = Σ_j h0_j·e(2k+1−j)`, `hi_k = Σ_j h1_j·e(2k+1−j)`
for `k < K = ⌊(N+L−1)/2⌋`.  Then PyWavelets' synthesis formula returns `e(t)` at every `t < N`, for every
bank satisfying `PRBank`.  The boundary handling of the analysis therefore never affects reconstruction
inside the original extent. -/
theorem pr_any_extension (h0 h1 g0 g1 : List R) (e : Int → R) (N : Nat) (hL : 2 ≤ h0.length)
    (hh1 : h1.length = h0.length) (hg0 : g0.length = h0.length) (hg1 : g1.length = h0.length)
    (hpr : PRBank h0 h1 g0 g1) (t : Nat) (ht : t < N) :
    ∑ k ∈ range ((N + h0.length - 1) / 2),
      ((∑ j ∈ range h0.length, getN h0 j * e (2*(k:Int) + 1 - (j:Int))) * getZ g0 ((t:Int) + h0.length - 2 - 2*(k:Int))
       + (∑ j ∈ range h0.length, getN h1 j * e (2*(k:Int) + 1 - (j:Int))) * getZ g1 ((t:Int) + h0.length - 2 - 2*(k:Int)))
      = e t := by
  set K := (N + h0.length - 1) / 2 with hK
  set W : Finset Int := Finset.Ico (2 - (h0.length:Int)) (2*(K:Int)) with hWdef
  have hwin : ∀ (h : List R), h.length = h0.length → ∀ k ∈ range K,
      ∑ j ∈ range h0.length, getN h j * e (2*(k:Int) + 1 - (j:Int))
        = ∑ u ∈ W, e u * getZ h (2*(k:Int) + 1 - u) := by
    intro h hh k hk
    have hk' : k < K := by simpa using hk
    rw [← hh]
    apply sum_taps_window
    intro j hj
    rw [hWdef, Finset.mem_Ico]; omega
  have step1 : ∀ k ∈ range K,
      ((∑ j ∈ range h0.length, getN h0 j * e (2*(k:Int) + 1 - (j:Int))) * getZ g0 ((t:Int) + h0.length - 2 - 2*(k:Int))
       + (∑ j ∈ range h0.length, getN h1 j * e (2*(k:Int) + 1 - (j:Int))) * getZ g1 ((t:Int) + h0.length - 2 - 2*(k:Int)))
      = ∑ u ∈ W, e u *
          (getZ h0 (2*(k:Int) + 1 - u) * getZ g0 ((t:Int) + h0.length - 2 - 2*(k:Int))
           + getZ h1 (2*(k:Int) + 1 - u) * getZ g1 ((t:Int) + h0.length - 2 - 2*(k:Int))) := by
    intro k hk
    rw [hwin h0 rfl k hk, hwin h1 hh1 k hk, Finset.sum_mul, Finset.sum_mul, ← Finset.sum_add_distrib]
    apply Finset.sum_congr rfl; intro u _; ring
  rw [Finset.sum_congr rfl step1, Finset.sum_comm]
  have step2 : ∀ u ∈ W,
      ∑ k ∈ range K, e u *
          (getZ h0 (2*(k:Int) + 1 - u) * getZ g0 ((t:Int) + h0.length - 2 - 2*(k:Int))
           + getZ h1 (2*(k:Int) + 1 - u) * getZ g1 ((t:Int) + h0.length - 2 - 2*(k:Int)))
      = e u * (if ((t:Int) - u) = 0 then 1 else 0) := by
    intro u _
    rw [← Finset.mul_sum, Finset.sum_add_distrib]
    have k0 := kernel_reindex_int h0 g0 N K u t ht hK hL hg0
    have k1 := kernel_reindex_int h1 g1 N K u t ht (by rw [hh1]) (by omega) (by omega)
    rw [hh1] at k1
    rw [k0, k1, ← Finset.sum_add_distrib]
    congr 1
    have := prbank_all_lags h0 h1 g0 g1 (by omega) hg0 hg1 hpr (((u+1) % 2).toNat) (by omega) ((t:Int) - u)
    rw [← this]
    apply Finset.sum_congr rfl; intro a _
    have hiff : ((a:Int) % 2 = (u + 1) % 2) ↔ (a % 2 = ((u+1) % 2).toNat) := by omega
    by_cases hc : (a:Int) % 2 = (u + 1) % 2
    · rw [if_pos hc, if_pos hc, if_pos (hiff.mp hc)]
    · rw [if_neg hc, if_neg hc, if_neg (fun h => hc (hiff.mpr h))]; simp
  rw [Finset.sum_congr rfl step2]
  have htW : (t:Int) ∈ W := by rw [hWdef, Finset.mem_Ico]; omega
  rw [Finset.sum_eq_single_of_mem (t:Int) htW]
  · simp
  · intro u _ hne
    have : ¬ ((t:Int) - u = 0) := by omega
    rw [if_neg this]; ring

/-- every non-periodization extension is the identity inside the signal -/
theorem ext_inside (m : Mode) (x : List R) (t : Nat) (ht : t < x.length) : Spec.ext m x (t:Int) = getN x t := by
  have h1 : (0:Int) ≤ t := by omega
  have h2 : (t:Int) < (x.length:Int) := by omega
  cases m <;> simp only [Spec.ext] <;> rw [getN_eq_getZ]
  · rw [symIdx_id _ _ h1 h2]
  · congr 1
    unfold reflIdxP
    have : ¬ ((x.length:Int) ≤ 1) ∨ (x.length:Int) ≤ 1 := by omega
    rcases this with hc | hc
    · rw [if_neg hc]
      have hmod : (t:Int) % (2*(x.length:Int) - 2) = t := Int.emod_eq_of_lt h1 (by omega)
      show (if (t:Int) % (2*(x.length:Int) - 2) < (x.length:Int) then (t:Int) % (2*(x.length:Int) - 2) else (2*(x.length:Int) - 2) - (t:Int) % (2*(x.length:Int) - 2)) = t
      rw [hmod, if_pos h2]
    · rw [if_pos hc]; omega
  · congr 1
    unfold perIdx
    exact Int.emod_eq_of_lt h1 h2

/-- **Perfect reconstruction in every padded mode** (`zero`, `symmetric`, `reflect`, `periodic`): for every
bank with `PRBank`, every signal and every such mode, `idwt(dwt(x))` returns every sample of the original
extent — stated on PyWavelets' formulas, which the code is proved to compute in these modes (C01, C10). -/
theorem pr_padded (m : Mode) (hm : m ≠ .periodization) (h0 h1 g0 g1 x : List R) (hL : 2 ≤ h0.length)
    (hh1 : h1.length = h0.length) (hg0 : g0.length = h0.length) (hg1 : g1.length = h0.length)
    (hpr : PRBank h0 h1 g0 g1) (t : Nat) (ht : t < x.length) :
    getN (Spec.idwt m g0 g1 (Spec.dwt m h0 x) (Spec.dwt m h1 x)) t = getN x t := by
  set K := dwtCoeffLen x.length h0.length with hK
  have hKdef : K = (x.length + h0.length - 1) / 2 := rfl
  have hdwt : ∀ (h : List R), h.length = h0.length →
      Spec.dwt m h x = tab K fun k => sumN h0.length fun j => getN h j * Spec.ext m x (2*(k:Int) + 1 - j) := by
    intro h hh
    cases m <;> first | exact absurd rfl hm | (simp only [Spec.dwt, hh, hK])
  have hidwt : ∀ (lo hi : List R), Spec.idwt m g0 g1 lo hi =
      tab (2*lo.length + 2 - g0.length) fun t => sumN lo.length fun k =>
        getN lo k * getZ g0 ((t:Int) + g0.length - 2 - 2*k) + getN hi k * getZ g1 ((t:Int) + g0.length - 2 - 2*k) := by
    intro lo hi
    cases m <;> first | exact absurd rfl hm | rfl
  rw [hidwt, hdwt h0 rfl, hdwt h1 hh1]
  simp only [length_tab, hg0]
  rw [getN_tab]
  have ht2 : t < 2 * K + 2 - h0.length := by omega
  simp only [ht2, if_true]
  rw [sumN_eq]
  rw [← ext_inside m x t ht, ← pr_any_extension h0 h1 g0 g1 (Spec.ext m x) x.length hL hh1 hg0 hg1 hpr t ht]
  rw [← hKdef]
  apply Finset.sum_congr rfl; intro k hk
  have hk' : k < K := by simpa using hk
  rw [getN_tab, getN_tab]
  simp only [hk', if_true, sumN_eq]

/-- **Implementation-level perfect reconstruction** (`zero`, `symmetric`, `periodic`): the model of
`lowlevel.afb1d` followed by the model of `lowlevel.sfb1d` — the two functions tied to the code by the
correspondence — never raises and returns every sample of `x`, for every bank with `PRBank` (filters are
handed to `afb1d` reversed, as `prep_filt_afb1d` does) and every non-empty signal. -/
theorem impl_pr_padded (m : Mode) (hm : m = .zero ∨ m = .symmetric ∨ m = .periodic) (h0 h1 g0 g1 x : List R)
    (hL : 2 ≤ h0.length) (hh1 : h1.length = h0.length) (hg0 : g0.length = h0.length)
    (hg1 : g1.length = h0.length) (hpr : PRBank h0 h1 g0 g1) (hN : 1 ≤ x.length) :
    ∃ lo hi y, afb1dOne m h0.reverse x = some lo ∧ afb1dOne m h1.reverse x = some hi ∧
      sfb1dCh m g0 g1 lo hi = some y ∧ ∀ t < x.length, getN y t = getN x t := by
  have hA : ∀ (h : List R), 2 ≤ h.length → afb1dOne m h.reverse x = some (Spec.dwt m h x) := by
    intro h hh
    rcases hm with rfl | rfl | rfl
    · exact C01.afb1dOne_zero_eq_dwt h x hh hN
    · exact C01.afb1dOne_symmetric_eq_dwt h x hh hN
    · exact C01.afb1dOne_periodic_eq_dwt h x hh hN
  have hmp : m ≠ .periodization := by rcases hm with rfl | rfl | rfl <;> decide
  have hlen : ∀ (h : List R), h.length = h0.length → (Spec.dwt m h x).length = dwtCoeffLen x.length h0.length := by
    intro h hh
    rcases hm with rfl | rfl | rfl <;> simp [Spec.dwt, hh]
  have hK : dwtCoeffLen x.length h0.length = (x.length + h0.length - 1) / 2 := rfl
  refine ⟨Spec.dwt m h0 x, Spec.dwt m h1 x, Spec.idwt m g0 g1 (Spec.dwt m h0 x) (Spec.dwt m h1 x),
    hA h0 hL, hA h1 (by omega), ?_, ?_⟩
  · apply C10.sfb1dCh_eq_idwt m (by rcases hm with rfl | rfl | rfl <;> simp) g0 g1 _ _ (by omega) (by omega)
    · rw [hlen h0 rfl, hK]; omega
    · rw [hlen h0 rfl, hlen h1 hh1]
    · rw [hlen h0 rfl, hK, hg0]; omega
  · intro t ht
    exact pr_padded m hmp h0 h1 g0 g1 x hL hh1 hg0 hg1 hpr t ht


theorem sum_fold_image (Rr n : Nat) (hn : 0 < n) (F : Int → R) :
    ∑ r ∈ range Rr, ∑ k ∈ range n, F ((k:Int) - (r:Int) * n)
      = ∑ s ∈ (range Rr ×ˢ range n).image (fun p : Nat × Nat => (p.2:Int) - (p.1:Int) * n), F s := by
  rw [Finset.sum_image]
  · exact (Finset.sum_product' (range Rr) (range n) (fun r k => F ((k:Int) - (r:Int) * n))).symm
  · intro p hp q hq heq
    simp only [Finset.mem_coe, Finset.mem_product, Finset.mem_range] at hp hq
    simp only at heq
    have h1 : ((p.2:Int) - (p.1:Int) * n) % n = p.2 := by
      rw [Int.sub_mul_emod_self_right]; exact Int.emod_eq_of_lt (by omega) (by omega)
    have h2 : ((q.2:Int) - (q.1:Int) * n) % n = q.2 := by
      rw [Int.sub_mul_emod_self_right]; exact Int.emod_eq_of_lt (by omega) (by omega)
    have e2 : (p.2:Int) = q.2 := by rw [← h1, ← h2, heq]
    have e1 : (p.1:Int) * n = (q.1:Int) * n := by omega
    have e1' : (p.1:Int) = q.1 := by
      have hn' : (n:Int) ≠ 0 := by omega
      exact mul_right_cancel₀ hn' e1
    ext <;> omega

/-- **Perfect reconstruction in periodization mode** (PyWavelets' formulas), even length -/
theorem pr_periodization_even (h0 h1 g0 g1 x : List R) (hL : 2 ≤ h0.length) (hLe : h0.length % 2 = 0)
    (hh1 : h1.length = h0.length) (hg0 : g0.length = h0.length) (hg1 : g1.length = h0.length)
    (hpr : PRBank h0 h1 g0 g1) (hNe : x.length % 2 = 0) (hN : 2 ≤ x.length) (u : Nat) (hu : u < x.length) :
    getN (Spec.idwt .periodization g0 g1 (Spec.dwt .periodization h0 x) (Spec.dwt .periodization h1 x)) u
      = getN x u := by
  set N := x.length with hNdef
  set L := h0.length with hLdef
  set n := N / 2 with hn
  have hN2 : N = 2 * n := by omega
  have hodd : ¬ (N % 2 = 1) := by omega
  -- the periodic extension, shifted so that the analysis reads `e (2k+1-j)`
  set e : Int → R := fun i => getZ x ((i + ((L/2 : Nat) : Int) - 1) % (N:Int)) with he
  have e_per : ∀ i : Int, ∀ r : Int, e (i + r * N) = e i := by
    intro i r
    simp only [he]
    congr 1
    have : i + r * (N:Int) + ((L/2 : Nat) : Int) - 1 = (i + ((L/2 : Nat) : Int) - 1) + r * N := by ring
    rw [this, Int.add_mul_emod_self_right]
  -- analysis coefficients
  have hdwt : ∀ (h : List R), h.length = L →
      Spec.dwt .periodization h x = tab n fun k => ∑ j ∈ range L, getN h j * e (2*(k:Int) + 1 - (j:Int)) := by
    intro h hh
    simp only [Spec.dwt, ← hNdef, hodd, if_false, hh, ← hn]
    apply tab_ext rfl; intro k hk
    rw [sumN_eq]
    apply Finset.sum_congr rfl; intro j _
    simp only [he]
    congr 3; omega
  -- the `n`-periodic coefficient sequences on the integer line
  set lt : List R → Int → R := fun h k => ∑ j ∈ range L, getN h j * e (2*k + 1 - (j:Int)) with hlt
  have lt_per : ∀ (h : List R) (k r : Int), lt h (k - r * n) = lt h k := by
    intro h k r
    simp only [hlt]
    apply Finset.sum_congr rfl; intro j _
    congr 1
    have : 2 * (k - r * (n:Int)) + 1 - (j:Int) = (2*k + 1 - (j:Int)) + (-r) * (N:Int) := by
      rw [hN2]; push_cast; ring
    rw [this, e_per]
  have hget : ∀ (h : List R), h.length = L → ∀ k < n, getN (Spec.dwt .periodization h x) k = lt h (k:Int) := by
    intro h hh k hk
    rw [hdwt h hh, getN_tab, if_pos hk]
  have hlen : ∀ (h : List R), h.length = L → (Spec.dwt .periodization h x).length = n := by
    intro h hh; rw [hdwt h hh, length_tab]
  simp only [Spec.idwt, hlen h0 hLdef.symm, hg0]
  rw [getN_tab, ← hN2, if_pos hu]
  set u' : Int := ((u:Int) + ((L/2 : Nat) : Int) - 1) % (N:Int) with hu'
  have hu0 : 0 ≤ u' := Int.emod_nonneg _ (by omega)
  have hu1 : u' < N := Int.emod_lt_of_pos _ (by omega)
  set F : Int → R := fun s => lt h0 s * getZ g0 (u' - 2*s) + lt h1 s * getZ g1 (u' - 2*s) with hF
  rw [sumN_eq]
  have hterm : ∀ r ∈ range ((N + L - 2) / N + 1),
      (if u' + (r:Int) * (N:Int) < 0 ∨ ((N + L - 2 : Nat) : Int) ≤ u' + (r:Int) * (N:Int) then (0:R)
      else
        sumN n fun k =>
          getN (Spec.dwt Mode.periodization h0 x) k * getZ g0 (u' + (r:Int) * (N:Int) - 2 * (k:Int)) +
            getN (Spec.dwt Mode.periodization h1 x) k * getZ g1 (u' + (r:Int) * (N:Int) - 2 * (k:Int)))
      = ∑ k ∈ range n, F ((k:Int) - (r:Int) * n) := by
    intro r _
    have hrN : (0:Int) ≤ (r:Int) * (N:Int) := by positivity
    have hcongr : ∀ k ∈ range n, F ((k:Int) - (r:Int) * n)
        = getN (Spec.dwt Mode.periodization h0 x) k * getZ g0 (u' + (r:Int) * (N:Int) - 2 * (k:Int)) +
            getN (Spec.dwt Mode.periodization h1 x) k * getZ g1 (u' + (r:Int) * (N:Int) - 2 * (k:Int)) := by
      intro k hk
      have hk' : k < n := by simpa using hk
      simp only [hF]
      rw [lt_per, lt_per, hget h0 hLdef.symm k hk', hget h1 hh1 k hk']
      have : u' - 2 * ((k:Int) - (r:Int) * (n:Int)) = u' + (r:Int) * (N:Int) - 2 * (k:Int) := by
        rw [hN2]; push_cast; ring
      rw [this]
    by_cases hc : u' + (r:Int) * (N:Int) < 0 ∨ ((N + L - 2 : Nat) : Int) ≤ u' + (r:Int) * (N:Int)
    · rw [if_pos hc]
      symm
      apply Finset.sum_eq_zero
      intro k hk
      have hk' : k < n := by simpa using hk
      rw [hcongr k hk]
      have hge : (L:Int) ≤ u' + (r:Int) * (N:Int) - 2 * (k:Int) := by
        rcases hc with hc | hc
        · omega
        · omega
      rw [getZ_of_ge g0 _ (by rw [hg0]; exact hge), getZ_of_ge g1 _ (by rw [hg1]; exact hge)]
      ring
    · rw [if_neg hc, sumN_eq]
      apply Finset.sum_congr rfl; intro k hk
      rw [hcongr k hk]
  rw [Finset.sum_congr rfl hterm, sum_fold_image _ n (by omega) F]
  have hT : u' = (u' - (L:Int) + 2) + (L:Int) - 2 := by ring
  have hFeq : ∀ s : Int, F s =
      (∑ j ∈ range h0.length, getN h0 j * e (2*s + 1 - (j:Int))) * getZ g0 ((u' - (L:Int) + 2) + h0.length - 2 - 2*s)
       + (∑ j ∈ range h0.length, getN h1 j * e (2*s + 1 - (j:Int))) * getZ g1 ((u' - (L:Int) + 2) + h0.length - 2 - 2*s) := by
    intro s
    simp only [hF, hlt, ← hLdef]
    have : u' - (L:Int) + 2 + (L:Int) - 2 - 2*s = u' - 2*s := by ring
    rw [this]
  rw [Finset.sum_congr rfl (fun s _ => hFeq s)]
  rw [pr_line h0 h1 g0 g1 e _ (u' - (L:Int) + 2) hL hh1 hg0 hg1 hpr]
  · -- e (u' - L + 2) = x_u
    simp only [he]
    rw [getN_eq_getZ]
    congr 1
    have h2 : u' - (L:Int) + 2 + ((L/2 : Nat) : Int) - 1 = u' - ((L/2 : Nat):Int) + 1 := by push_cast; omega
    rw [h2, hu']
    have h3 : (((u:Int) + ((L/2 : Nat) : Int) - 1) % (N:Int) - ((L/2 : Nat):Int) + 1) % (N:Int) = (u:Int) % N := by
      rw [show ((u:Int) + ((L/2 : Nat) : Int) - 1) % (N:Int) - ((L/2 : Nat):Int) + 1
            = ((u:Int) + ((L/2 : Nat) : Int) - 1) % (N:Int) - (((L/2 : Nat):Int) - 1) by ring]
      rw [Int.sub_emod, Int.emod_emod_of_dvd _ (dvd_refl _), ← Int.sub_emod]
      congr 1; ring
    rw [h3]
    exact Int.emod_eq_of_lt (by omega) (by omega)
  · -- the image set covers the support
    intro k hk0 hk1
    rw [← hLdef] at hk0 hk1
    rw [Finset.mem_image]
    have hnpos : (0:Int) < n := by omega
    have hdm := Int.emod_add_mul_ediv k n
    have hm0 := Int.emod_nonneg k (show (n:Int) ≠ 0 by omega)
    have hm1 := Int.emod_lt_of_pos k hnpos
    have hNm := Nat.div_add_mod (N + L - 2) N
    have hNm2 := Nat.mod_lt (N + L - 2) (show 0 < N by omega)
    set m := (N + L - 2) / N with hm
    set q := k / (n:Int) with hq
    have hq0 : q ≤ 0 := by
      by_contra hc
      have : (n:Int) * 1 ≤ n * q := mul_le_mul_of_nonneg_left (by omega) (by omega)
      omega
    have hqm : -(m:Int) ≤ q := by
      by_contra hc
      have h1 : (n:Int) * q ≤ n * (-(m:Int) - 1) := mul_le_mul_of_nonneg_left (by omega) (by omega)
      have h2 : (N:Int) * m + ((N + L - 2) % N : Nat) = (N:Int) + L - 2 := by
        have := congrArg (fun z : Nat => (z:Int)) hNm
        push_cast at this
        omega
      have h3 : (N:Int) * m = 2 * ((n:Int) * m) := by rw [hN2]; push_cast; ring
      have h4 : (n:Int) * (-(m:Int) - 1) = -((n:Int) * m) - n := by ring
      omega
    refine ⟨((-q).toNat, (k % (n:Int)).toNat), ?_, ?_⟩
    · rw [Finset.mem_product, Finset.mem_range, Finset.mem_range]
      constructor <;> simp only <;> omega
    · simp only
      have e1 : (((-q).toNat : Nat) : Int) = -q := by omega
      have e2 : (((k % (n:Int)).toNat : Nat) : Int) = k % n := by omega
      rw [e1, e2]
      have : -q * (n:Int) = -((n:Int) * q) := by ring
      rw [this]; omega

/-- odd lengths: PyWavelets (and the code) first repeat the last sample, so the statement follows from the
even case on `x ++ [x_{N-1}]` -/
theorem pr_periodization (h0 h1 g0 g1 x : List R) (hL : 2 ≤ h0.length) (hLe : h0.length % 2 = 0)
    (hh1 : h1.length = h0.length) (hg0 : g0.length = h0.length) (hg1 : g1.length = h0.length)
    (hpr : PRBank h0 h1 g0 g1) (hN : 1 ≤ x.length) (u : Nat) (hu : u < x.length) :
    getN (Spec.idwt .periodization g0 g1 (Spec.dwt .periodization h0 x) (Spec.dwt .periodization h1 x)) u
      = getN x u := by
  by_cases hpar : x.length % 2 = 0
  · exact pr_periodization_even h0 h1 g0 g1 x hL hLe hh1 hg0 hg1 hpr hpar (by omega) u hu
  · have hodd : x.length % 2 = 1 := by omega
    set x' := x ++ [getN x (x.length - 1)] with hx'
    have hlen' : x'.length = x.length + 1 := by simp [hx']
    have hd : ∀ h : List R, Spec.dwt .periodization h x = Spec.dwt .periodization h x' := by
      intro h
      have hodd' : ¬ (x'.length % 2 = 1) := by omega
      simp only [Spec.dwt, hodd, hodd', if_true, if_false, ← hx']
    rw [hd h0, hd h1, pr_periodization_even h0 h1 g0 g1 x' hL hLe hh1 hg0 hg1 hpr (by omega) (by omega) u (by omega)]
    unfold getN
    rw [hx']
    simp [List.getD_eq_getElem?_getD, List.getElem?_append_left hu]

/-- **Implementation-level perfect reconstruction, periodization**: for every even-length bank with `PRBank`
and every signal at least as long as the filter (`L ≤ N + N % 2`, the complement being the recorded finding
`C02-periodization-short`), the models of `afb1d` and `sfb1d` (roll, single fold) return every sample of `x`. -/
theorem impl_pr_periodization (h0 h1 g0 g1 x : List R) (hL : 2 ≤ h0.length) (hLe : h0.length % 2 = 0)
    (hh1 : h1.length = h0.length) (hg0 : g0.length = h0.length) (hg1 : g1.length = h0.length)
    (hpr : PRBank h0 h1 g0 g1) (hN : 1 ≤ x.length) (hLN : h0.length ≤ x.length + x.length % 2) :
    ∃ lo hi y, afb1dOne .periodization h0.reverse x = some lo ∧ afb1dOne .periodization h1.reverse x = some hi ∧
      sfb1dCh .periodization g0 g1 lo hi = some y ∧ ∀ t < x.length, getN y t = getN x t := by
  have hlen : ∀ (h : List R), h.length = h0.length →
      (Spec.dwt .periodization h x).length = (x.length + x.length % 2) / 2 := by
    intro h hh
    by_cases hpar : x.length % 2 = 1
    · simp [Spec.dwt, hpar]
    · have : x.length % 2 = 0 := by omega
      simp [Spec.dwt, this]
  refine ⟨Spec.dwt .periodization h0 x, Spec.dwt .periodization h1 x,
    Spec.idwt .periodization g0 g1 (Spec.dwt .periodization h0 x) (Spec.dwt .periodization h1 x),
    C01.afb1dOne_per_eq_dwt_partial_all h0 x hLe hL hN hLN,
    C01.afb1dOne_per_eq_dwt_partial_all h1 x (by omega) (by omega) hN (by omega), ?_, ?_⟩
  · apply C10.sfb1dCh_per_eq_idwt_partial g0 g1 _ _ (by omega) (by omega)
    · rw [hlen h0 rfl]; omega
    · rw [hlen h0 rfl, hlen h1 hh1]
    · rw [hlen h0 rfl, hg0]; omega
  · intro t ht
    exact pr_periodization h0 h1 g0 g1 x hL hLe hh1 hg0 hg1 hpr hN t ht

/-- with the un-pad rule this is perfect reconstruction on the original extent, with `N` or `N+1` samples -/
theorem pr_zero_length (h0 g0 g1 x : List R) (h1 : List R) (hL : 2 ≤ h0.length) (hg0 : g0.length = h0.length)
    (hN : 1 ≤ x.length) :
    (Spec.idwt .zero g0 g1 (Spec.dwt .zero h0 x) (Spec.dwt .zero h1 x)).length = x.length ∨
    (Spec.idwt .zero g0 g1 (Spec.dwt .zero h0 x) (Spec.dwt .zero h1 x)).length = x.length + 1 := by
  rw [idwt_length_zero, hg0]
  have : (Spec.dwt .zero h0 x).length = dwtCoeffLen x.length h0.length := by simp [Spec.dwt]
  rw [this]
  exact unpad_length x.length h0.length hL hN

/-- non-vacuity: the integer "lazy" bank h0=(0,1), h1=(1,0), g0=(1,0), g1=(0,1) meets the equations
(and Haar does over any ring containing 1/2) -/
example : ((1:Int)*1 + 0*0 = 1) ∧ ((0:Int)*1 + 1*0 = 0) ∧ ((0:Int)*0 + 1*1 = 1) ∧ ((1:Int)*0 + 0*1 = 0) := by decide

/-- non-vacuity of `PRBank`: two concrete integer banks (lengths 2 and 4) satisfy the conditions -/
example : PRBank ([0, 1] : List Int) [1, 0] [1, 0] [0, 1] := by
  intro p hp dd hdd
  simp only [List.length_cons, List.length_nil] at hdd ⊢
  interval_cases p <;> interval_cases dd <;> simp [Finset.sum_range_succ, getN, getZ]

example : PRBank ([0, 1, 0, 0] : List Int) [0, 0, 1, 0] [0, 0, 1, 0] [0, 1, 0, 0] := by
  intro p hp dd hdd
  simp only [List.length_cons, List.length_nil] at hdd ⊢
  interval_cases p <;> interval_cases dd <;> simp [Finset.sum_range_succ, getN, getZ]

end WV.C02
