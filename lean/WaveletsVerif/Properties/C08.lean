/-
  C08 — scattering layers compute the defined DTCWT scattering coefficients.

  * every magnitude channel is non-negative: `0 ≤ √(re² + im² + b²) − b` for `b ≥ 0` (over ℝ);
  * channel bookkeeping of the first-order layer: the model of `ScatLayerj1_f.forward` + the
    module's `view(b, 7c, h, w)` returns `7·C` channels, the first `C` being the pooled
    low-passes (band-major packing), and it raises exactly for odd sizes — which the module
    removes by edge extension;
  * the second-order layer raises unless both sizes are multiples of 8 (the module pads).
  The values (DTCWT + modulus + pooling against the reference) are decided by the Float-tier
  correspondence and by the numpy-dtcwt oracle.
-/
import WaveletsVerif.Model.Scat
import Mathlib.Analysis.SpecialFunctions.Sqrt
namespace WV.C08
open WV

/-- non-negativity of the smoothed magnitude -/
theorem mag_nonneg (re im b : ℝ) (_hb : 0 ≤ b) : 0 ≤ Real.sqrt (re*re + im*im + b*b) - b := by
  have h : b ≤ Real.sqrt (re*re + im*im + b*b) := by
    apply Real.le_sqrt_of_sq_le
    nlinarith [mul_self_nonneg re, mul_self_nonneg im]
  linarith

/-- joint magnitude over three colour channels is non-negative as well -/
theorem mag3_nonneg (a1 a2 a3 a4 a5 a6 b : ℝ) (_hb : 0 ≤ b) :
    0 ≤ Real.sqrt (a1*a1 + a2*a2 + a3*a3 + a4*a4 + a5*a5 + a6*a6 + b*b) - b := by
  have h : b ≤ Real.sqrt (a1*a1 + a2*a2 + a3*a3 + a4*a4 + a5*a5 + a6*a6 + b*b) := by
    apply Real.le_sqrt_of_sq_le
    nlinarith [mul_self_nonneg a1, mul_self_nonneg a2, mul_self_nonneg a3, mul_self_nonneg a4,
      mul_self_nonneg a5, mul_self_nonneg a6]
  linarith

variable {R : Type} [Add R] [Sub R] [Mul R] [OfNat R 0]

/-- first order, one batch item of `C` channels: `7·C` output channels (band-major) -/
theorem scatJ1_channels (m : MagOps R) (sym : Bool) (h0 h1 : List R) (h2 : Option (List R))
    (x y : List (Img R)) (h : scatJ1 m sym h0 h1 h2 false x = some y) : y.length = 7 * x.length := by
  unfold scatJ1 at h
  split at h
  · simp at h
  · simp only [Bool.false_eq_true, if_false, Option.some.injEq] at h
    subst h
    simp [List.length_flatten, List.map_map, Function.comp_def, List.range_succ]
    omega

/-- the Function raises for odd sizes (the module extends first) -/
theorem scatJ1_raises_odd (m : MagOps R) (sym : Bool) (h0 h1 : List R) (h2 : Option (List R)) (colour : Bool)
    (x : List (Img R)) (hx : x.any (fun im => im.length % 2 ≠ 0 ∨ im.width % 2 ≠ 0) = true) :
    scatJ1 m sym h0 h1 h2 colour x = none := by
  unfold scatJ1; rw [if_pos hx]

/-- the second-order Function raises unless every size is a multiple of 8 -/
theorem scatJ2_raises_unless_mult8 (m : MagOps R) (sym : Bool) (f : Scat2Filters R) (colour : Bool)
    (x : List (Img R)) (hx : x.any (fun im => im.length % 8 ≠ 0 ∨ im.width % 8 ≠ 0) = true) :
    scatJ2 m sym f colour x = none := by
  unfold scatJ2; rw [if_pos hx]

end WV.C08
