/-
  C04 — perfect reconstruction of the WHOLE pyramid, for every number of levels and every image size.

  `DTCWTForward` extends odd-sized images by a repeated row / column, filters level 1 without decimation, and at
  each level ≥ 2 first pads the low-pass to a multiple of 4 with a repeated border (`extendMult4`); `DTCWTInverse`
  crops `[1:-1]` whenever the low-pass it receives is larger than twice the band of the level it is about to
  synthesise (`cropToHighs`).  Here the level theorems (`C04.level1_pr`, `C04Q.level2_pr_full`) are composed
  through those loops:

      DTCWTInverse(DTCWTForward(x)) = extendEven x      (`dtcwt_pr`)

  for every `J ≥ 1` and every image with at least one row and column — odd sizes, sizes that are not multiples
  of 4 at any level, images far smaller than the filters — given the level-1 hypotheses (symmetric odd filters,
  `PR1`), the q-shift hypotheses (`PRq`, tree a = reverse of tree b) and `2s² = 1`.
-/
import WaveletsVerif.Properties.C04Q
namespace WV.C04P
open Finset WV WV.C04 WV.C04Q
variable {R : Type} [CommRing R]

/-! ### shapes of the two extensions -/

omit [CommRing R] in
theorem sliceFrom_neg_one_mem {α : Type} (x : List α) (r : α) (h : r ∈ sliceFrom x (-1)) : r ∈ x := by
  unfold sliceFrom at h
  exact List.mem_of_mem_drop h

theorem extendEven_rect (x : Img R) (H W : Nat) (hx : Rect x H W) (hH : 1 ≤ H) (hW : 1 ≤ W) :
    Rect (extendEven x) (H + H % 2) (W + W % 2) := by
  obtain ⟨h1, h2⟩ := hx
  set x1 : Img R := if x.length % 2 ≠ 0 then x ++ sliceFrom x (-1) else x with hx1
  have r1 : Rect x1 (H + H % 2) W := by
    rw [hx1]
    by_cases hc : x.length % 2 ≠ 0
    · rw [if_pos hc]
      refine ⟨?_, ?_⟩
      · rw [List.length_append, sliceFrom_neg_one_length x (by omega)]; omega
      · intro r hr
        rcases List.mem_append.mp hr with h | h
        · exact h2 r h
        · exact h2 r (sliceFrom_neg_one_mem x r h)
    · rw [if_neg hc]
      exact ⟨by omega, h2⟩
  have hw1 : x1.width = W := rect_width x1 _ W r1 (by omega)
  unfold extendEven
  simp only [← hx1, hw1]
  by_cases hc : W % 2 ≠ 0
  · rw [if_pos hc]
    refine ⟨by rw [List.length_map]; exact r1.1, ?_⟩
    intro r hr
    obtain ⟨r0, hr0, rfl⟩ := List.mem_map.mp hr
    rw [List.length_append, sliceFrom_neg_one_length r0 (by rw [r1.2 r0 hr0]; omega), r1.2 r0 hr0]; omega
  · rw [if_neg hc]
    have : W % 2 = 0 := by omega
    rw [this]; exact r1

omit [CommRing R] in
theorem slice_zero_one {α : Type} (x : List α) (h : 1 ≤ x.length) : slice x 0 1 = x.take 1 := by
  unfold slice pyBound
  have h1 : ¬ ((x.length:Int) < 1) := by omega
  have h0 : ¬ ((x.length:Int) < 0) := by omega
  simp [h1, h0]

/-- the border-repeating extension: `head ++ x ++ last` -/
def ext1 {α : Type} (x : List α) : List α := slice x 0 1 ++ x ++ sliceFrom x (-1)

omit [CommRing R] in
theorem ext1_length {α : Type} (x : List α) (h : 1 ≤ x.length) : (ext1 x).length = x.length + 2 := by
  unfold ext1
  rw [List.length_append, List.length_append, slice_zero_one x h, sliceFrom_neg_one_length x (by omega), List.length_take]
  omega

omit [CommRing R] in
theorem ext1_mem {α : Type} (x : List α) (h : 1 ≤ x.length) (r : α) (hr : r ∈ ext1 x) : r ∈ x := by
  unfold ext1 at hr
  rw [slice_zero_one x h] at hr
  rcases List.mem_append.mp hr with h1 | h1
  · rcases List.mem_append.mp h1 with h2 | h2
    · exact List.mem_of_mem_take h2
    · exact h2
  · exact sliceFrom_neg_one_mem x r h1

omit [CommRing R] in
/-- cropping `[1:-1]` undoes the border-repeating extension -/
theorem slice_ext1 {α : Type} (x : List α) (h : 1 ≤ x.length) : slice (ext1 x) 1 (-1) = x := by
  have hl := ext1_length x h
  unfold slice pyBound
  rw [hl]
  have e1 : (if (-1:Int) < 0 then (-1:Int) + ((x.length + 2 : Nat):Int) else -1) = (x.length:Int) + 1 := by
    simp; push_cast; ring
  have e2 : (if (1:Int) < 0 then (1:Int) + ((x.length + 2 : Nat):Int) else 1) = 1 := by simp
  rw [e1, e2]
  have c1 : ¬ ((x.length:Int) + 1 < 0) := by omega
  have c2 : ¬ (((x.length + 2 : Nat):Int) < (x.length:Int) + 1) := by push_cast; omega
  have c3 : ¬ ((1:Int) < 0) := by omega
  have c4 : ¬ (((x.length + 2 : Nat):Int) < 1) := by push_cast; omega
  simp only [c1, c2, c3, c4, if_false]
  have t1 : ((x.length:Int) + 1).toNat = x.length + 1 := by omega
  have t2 : (1:Int).toNat = 1 := rfl
  rw [t1, t2]
  unfold ext1
  rw [slice_zero_one x h]
  have hk : (x.take 1).length = 1 := by rw [List.length_take]; omega
  rw [List.take_left' (l₁ := x.take 1 ++ x) (by rw [List.length_append, hk]; omega), List.drop_left' hk]

omit [CommRing R] in
theorem slice_map {α β : Type} (l : List α) (f : α → β) (p q : Int) : slice (l.map f) p q = (slice l p q).map f := by
  unfold slice
  rw [List.length_map, List.map_drop, List.map_take]

theorem extendMult4_cases (x : Img R) :
    extendMult4 x = if x.length % 4 ≠ 0 then (if Img.width (ext1 x) % 4 ≠ 0 then (ext1 x).map ext1 else ext1 x)
                    else (if Img.width x % 4 ≠ 0 then x.map ext1 else x) := by
  unfold extendMult4
  by_cases h : x.length % 4 ≠ 0
  · simp only [if_pos h]; rfl
  · simp only [if_neg h]; rfl

theorem ext1_rows_rect (x : Img R) (H W : Nat) (hx : Rect x H W) (hH : 1 ≤ H) : Rect (ext1 x) (H + 2) W := by
  refine ⟨by rw [ext1_length x (by rw [hx.1]; exact hH), hx.1], ?_⟩
  intro r hr
  exact hx.2 r (ext1_mem x (by rw [hx.1]; exact hH) r hr)

theorem ext1_cols_rect (x : Img R) (H W : Nat) (hx : Rect x H W) (hW : 1 ≤ W) : Rect (x.map ext1) H (W + 2) := by
  refine ⟨by rw [List.length_map]; exact hx.1, ?_⟩
  intro r hr
  obtain ⟨r0, hr0, rfl⟩ := List.mem_map.mp hr
  rw [ext1_length r0 (by rw [hx.2 r0 hr0]; exact hW), hx.2 r0 hr0]

/-- padding the low-pass to a multiple of 4: the new shape -/
theorem extendMult4_rect (x : Img R) (H W : Nat) (hx : Rect x H W) (hH : 1 ≤ H) (hW : 1 ≤ W) :
    Rect (extendMult4 x) (H + (if H % 4 ≠ 0 then 2 else 0)) (W + (if W % 4 ≠ 0 then 2 else 0)) := by
  rw [extendMult4_cases, hx.1]
  by_cases hc : H % 4 ≠ 0
  · have r1 := ext1_rows_rect x H W hx hH
    have hw1 : Img.width (ext1 x) = W := rect_width _ _ _ r1 (by omega)
    rw [if_pos hc, if_pos hc, hw1]
    by_cases hd : W % 4 ≠ 0
    · rw [if_pos hd, if_pos hd]; exact ext1_cols_rect _ _ _ r1 hW
    · rw [if_neg hd, if_neg hd]; exact r1
  · have hw1 : Img.width x = W := rect_width _ _ _ hx hH
    rw [if_neg hc, if_neg hc, hw1]
    by_cases hd : W % 4 ≠ 0
    · rw [if_pos hd, if_pos hd]; exact ext1_cols_rect _ _ _ hx hW
    · rw [if_neg hd, if_neg hd]; exact hx

theorem map_slice_ext1 (x : Img R) (H W : Nat) (hx : Rect x H W) (hW : 1 ≤ W) :
    (x.map ext1).map (fun r => slice r 1 (-1)) = x := by
  rw [List.map_map]
  conv_rhs => rw [← List.map_id x]
  apply List.map_congr_left
  intro r hr
  simp only [Function.comp, id]
  exact slice_ext1 r (by rw [hx.2 r hr]; exact hW)

/-- **the crop of the inverse undoes the padding of the forward pass**: for an even-sized low-pass `x`
(`2a × 2b`), `cropToHighs (extendMult4 x) a b = x` -/
theorem crop_extend (x : Img R) (a b : Nat) (ha : 1 ≤ a) (hb : 1 ≤ b) (hx : Rect x (2*a) (2*b)) :
    cropToHighs (extendMult4 x) a b = x := by
  rw [extendMult4_cases, hx.1]
  unfold cropToHighs
  have h2a : 1 ≤ 2*a := by omega
  have h2b : 1 ≤ 2*b := by omega
  by_cases hc : (2*a) % 4 ≠ 0
  · have r1 := ext1_rows_rect x (2*a) (2*b) hx h2a
    have hw1 : Img.width (ext1 x) = 2*b := rect_width _ _ _ r1 (by omega)
    rw [if_pos hc, hw1]
    by_cases hd : (2*b) % 4 ≠ 0
    · rw [if_pos hd]
      have r2 := ext1_cols_rect _ _ _ r1 h2b
      have hl : ((ext1 x).map ext1).length ≠ 2*a := by rw [r2.1]; omega
      simp only [hl, ne_eq, not_false_eq_true, if_true]
      rw [slice_map, slice_ext1 x (by rw [hx.1]; exact h2a)]
      have r3 := ext1_cols_rect x _ _ hx h2b
      have hw3 : Img.width (x.map ext1) ≠ 2*b := by rw [rect_width _ _ _ r3 h2a]; omega
      rw [if_pos hw3]
      exact map_slice_ext1 x _ _ hx h2b
    · rw [if_neg hd]
      have hl : (ext1 x).length ≠ 2*a := by rw [r1.1]; omega
      simp only [hl, ne_eq, not_false_eq_true, if_true]
      rw [slice_ext1 x (by rw [hx.1]; exact h2a)]
      have hw3 : ¬ (Img.width x ≠ 2*b) := by rw [rect_width _ _ _ hx h2a]; simp
      rw [if_neg hw3]
  · have hw1 : Img.width x = 2*b := rect_width _ _ _ hx h2a
    rw [if_neg hc, hw1]
    by_cases hd : (2*b) % 4 ≠ 0
    · rw [if_pos hd]
      have r3 := ext1_cols_rect x _ _ hx h2b
      have hl : ¬ ((x.map ext1).length ≠ 2*a) := by rw [r3.1]; simp
      simp only [hl, if_false]
      have hw3 : Img.width (x.map ext1) ≠ 2*b := by rw [rect_width _ _ _ r3 h2a]; omega
      rw [if_pos hw3]
      exact map_slice_ext1 x _ _ hx h2b
    · rw [if_neg hd]
      have hl : ¬ (x.length ≠ 2*a) := by rw [hx.1]; simp
      simp only [hl, if_false]
      have hw3 : ¬ (Img.width x ≠ 2*b) := by rw [hw1]; simp
      rw [if_neg hw3]

/-! ### the level loops -/

/-- the module's filter buffers from the table filters: level 1 `h0o, h1o`; q-shift tree b `h0, h1`, tree a the reverse -/
def mkF (h0o h1o h0 h1 : List R) : FwdFilters R :=
  { h0o := prepFilt h0o, h1o := prepFilt h1o, h0a := prepFilt h0.reverse, h0b := prepFilt h0,
    h1a := prepFilt h1.reverse, h1b := prepFilt h1 }
def mkG (g0o g1o g0 g1 : List R) : InvFilters R :=
  { g0o := prepFilt g0o, g1o := prepFilt g1o, g0a := prepFilt g0.reverse, g0b := prepFilt g0,
    g1a := prepFilt g1.reverse, g1b := prepFilt g1 }

/-- what the inverse reads as `(highr.shape[h_dim], highr.shape[w_dim])` of a level -/
def bsz (o : Option (List (Cplx R))) : Nat × Nat := bandSize (o.getD [])

theorem DTCWTInverse_cons (s : R) (sym : Bool) (f : InvFilters R) (sz0 : Nat × Nat) (szs : List (Nat × Nat)) (size5 : Nat × Nat)
    (l : Img R) (o : List (Cplx R)) (rest : List (Option (List (Cplx R)))) :
    DTCWTInverse s sym f (sz0 :: szs) size5 (some l) (some o :: rest)
      = (do
          let lowJ ← (rest.zip szs).reverse.foldlM (dtcwtInvStep s f) (some l)
          match lowJ with
          | some l2 => invJ1 s sym f.g0o f.g1o size5 (some (cropToHighs l2 sz0.1 sz0.2)) (some o)
          | none => invJ1 s sym f.g0o f.g1o size5 none (some o)) := by
  unfold DTCWTInverse
  simp only [Option.isNone_some, Bool.false_eq_true, false_and, if_false]
  cases (rest.zip szs).reverse.foldlM (dtcwtInvStep s f) (some l) with
  | none => rfl
  | some lowJ => cases lowJ <;> rfl

section loops
variable (s : R) (hs : 2 * s * s = 1) (h0 h1 g0 g1 : List R) (hh0 : 1 ≤ h0.length) (hh1 : 1 ≤ h1.length)
  (hg0 : g0.length % 2 = 0) (hg0' : 2 ≤ g0.length) (hg1 : g1.length % 2 = 0) (hg1' : 2 ≤ g1.length)
  (hpr : PRq h0 h1 g0 g1) (h0o h1o g0o g1o : List R)

include hs hh0 hh1 hg0 hg0' hg1 hg1' hpr in
/-- levels 2…J: the inverse loop applied to the output of the forward loop returns the (possibly padded) input of
the forward loop, whose crop is the input itself — for every number of levels and every even-sized low-pass -/
theorem loop_pr : ∀ (n : Nat) (incl : List Bool) (low : Img R) (a b : Nat), 1 ≤ a → 1 ≤ b → Rect low (2*a) (2*b) →
    ∃ lowF hsl scs, dtcwtFwdLoop s (mkF h0o h1o h0 h1) (List.replicate n false) incl low = some (lowF, hsl, scs) ∧
      ∃ Z, (hsl.zip (hsl.map bsz)).reverse.foldlM (dtcwtInvStep s (mkG g0o g1o g0 g1)) (some lowF) = some (some Z) ∧
        cropToHighs Z a b = low := by
  intro n
  induction n with
  | zero =>
    intro incl low a b ha hb hx
    refine ⟨low, [], [], by simp [dtcwtFwdLoop], low, by simp, ?_⟩
    exact cropToHighs_id low a b hx.1 (rect_width _ _ _ hx (by omega))
  | succ n ih =>
    intro incl low a b ha hb hx
    have re := extendMult4_rect low (2*a) (2*b) hx (by omega) (by omega)
    have ea : 2*a + (if (2*a) % 4 ≠ 0 then 2 else 0) = 4 * ((a+1)/2) := by split <;> omega
    have eb : 2*b + (if (2*b) % 4 ≠ 0 then 2 else 0) = 4 * ((b+1)/2) := by split <;> omega
    rw [ea, eb] at re
    obtain ⟨ll, o, hf, hi, rll, hbs⟩ := level2_pr_full s hs h0 h1 g0 g1 hh0 hh1 hg0 hg0' hg1 hg1' hpr (extendMult4 low)
      ((a+1)/2) ((b+1)/2) (by omega) (by omega) re
    obtain ⟨lowF, hsl, scs, hloop, Z', hfold, hcrop⟩ := ih (incl.drop 1) ll ((a+1)/2) ((b+1)/2) (by omega) (by omega) rll
    have hf' : fwdJ2 s (mkF h0o h1o h0 h1).h0a (mkF h0o h1o h0 h1).h1a (mkF h0o h1o h0 h1).h0b (mkF h0o h1o h0 h1).h1b false
        (extendMult4 low) = some (ll, some o) := hf
    refine ⟨lowF, some o :: hsl, (if incl.headD false then some ll else none) :: scs, ?_, extendMult4 low, ?_, ?_⟩
    · rw [List.replicate_succ]
      unfold dtcwtFwdLoop
      rw [hf']
      simp only [Option.bind_eq_bind, Option.bind_some]
      rw [hloop]
      simp only [Option.bind_some]
    · rw [List.map_cons, List.zip_cons_cons, List.reverse_cons, List.foldlM_append, hfold]
      simp only [Option.bind_eq_bind, Option.bind_some, List.foldlM_cons, List.foldlM_nil]
      have hb2 : bsz (some o) = ((a+1)/2, (b+1)/2) := hbs
      rw [hb2]
      unfold dtcwtInvStep
      simp only [hcrop]
      have hi' : invJ2 s (mkG g0o g1o g0 g1).g0a (mkG g0o g1o g0 g1).g1a (mkG g0o g1o g0 g1).g0b (mkG g0o g1o g0 g1).g1b
          (some ll) (some o) = some (extendMult4 low) := hi
      rw [hi']
      rfl
    · exact crop_extend low a b ha hb hx

end loops

/-! ### level 1 shapes, and the whole transform -/

theorem fwdJ1_shape (s : R) (h0 h1 : List R) (hh0 : h0.length % 2 = 1) (hh1 : h1.length % 2 = 1) (x : Img R) (H W : Nat)
    (hH : 1 ≤ H) (hW : 1 ≤ W) (hx : Rect x (2*H) (2*W)) :
    Rect (fwdJ1 s true (prepFilt h0) (prepFilt h1) false x).1 (2*H) (2*W) ∧
      ∃ o, (fwdJ1 s true (prepFilt h0) (prepFilt h1) false x).2 = some o ∧ bandSize o = (H, W) := by
  have L0 : 1 ≤ h0.length := by omega
  have L1 : 1 ≤ h1.length := by omega
  have h2H : 1 ≤ 2 * H := by omega
  have h2W : 1 ≤ 2 * W := by omega
  have eLo : rowfilter true (prepFilt h0) x = alongW (Cf h0) x := rowfilter_model h0 L0 x (2*W) h2W hx.2
  have eHi : rowfilter true (prepFilt h1) x = alongW (Cf h1) x := rowfilter_model h1 L1 x (2*W) h2W hx.2
  have rLo := alongW_rect h0 hh0 x _ _ hx
  have rHi := alongW_rect h1 hh1 x _ _ hx
  have ell : colfilter true (prepFilt h0) (alongW (Cf h0) x) = alongH (Cf h0) (alongW (Cf h0) x) :=
    colfilter_model h0 L0 _ (by rw [rLo.1]; exact h2H)
  have elh : colfilter true (prepFilt h1) (alongW (Cf h0) x) = alongH (Cf h1) (alongW (Cf h0) x) :=
    colfilter_model h1 L1 _ (by rw [rLo.1]; exact h2H)
  have rll := alongH_rect h0 hh0 _ _ _ rLo h2H h2W
  have rlh := alongH_rect h1 hh1 _ _ _ rLo h2H h2W
  unfold fwdJ1
  simp only [Bool.false_eq_true, if_false, eLo, eHi, ell, elh]
  refine ⟨rll, _, rfl, ?_⟩
  unfold bandSize highsToOrientations q2c
  simp only [List.headD_cons]
  rw [rlh.1, rect_width _ _ _ rlh h2H]
  have e1 : 2 * H / 2 = H := by omega
  have e2 : 2 * W / 2 = W := by omega
  rw [e1, e2]
  simp only [length_tab, tab2]
  congr 1
  exact C19.width_tab2 H W _ (by omega)

/-- **DTCWT perfect reconstruction, whole pyramid, implementation model**: for every number of levels `J = n+1 ≥ 1`
and every image with at least one row and one column,
`DTCWTInverse(DTCWTForward(x)) = extendEven x` (the input, extended to even size with the original in the top-left
corner) — through the odd-size replication, the undecimated level 1, the multiple-of-4 padding of every level ≥ 2,
`q2c`/`c2q`, and the `[1:-1]` crops of the inverse.  Hypotheses on the filters only: level-1 filters symmetric of
odd length with `PR1`; q-shift bank `PRq` with tree a the time reverse of tree b; `2s² = 1`.  The band sizes handed to
the inverse are the ones it reads from the tensors the forward pass returned. -/
theorem dtcwt_pr (s : R) (hs : 2 * s * s = 1)
    (h0o h1o g0o g1o : List R) (hh0o : h0o.length % 2 = 1) (hh1o : h1o.length % 2 = 1) (hg0o : g0o.length % 2 = 1)
    (hg1o : g1o.length % 2 = 1) (hs0 : Symm h0o) (hs1 : Symm h1o) (hpr1 : PR1 h0o h1o g0o g1o)
    (h0 h1 g0 g1 : List R) (hh0 : 1 ≤ h0.length) (hh1 : 1 ≤ h1.length)
    (hg0 : g0.length % 2 = 0) (hg0' : 2 ≤ g0.length) (hg1 : g1.length % 2 = 0) (hg1' : 2 ≤ g1.length)
    (hpr : PRq h0 h1 g0 g1)
    (n : Nat) (incl : List Bool) (x : Img R) (H W : Nat) (hH : 1 ≤ H) (hW : 1 ≤ W) (hx : Rect x H W) :
    ∃ lowF hsl scs,
      DTCWTForward s true (mkF h0o h1o h0 h1) (List.replicate (n+1) false) incl x = some (lowF, hsl, scs) ∧
      DTCWTInverse s true (mkG g0o g1o g0 g1) (hsl.map bsz) (bsz (hsl.headD none)) (some lowF) hsl = some (extendEven x) := by
  have rxe := extendEven_rect x H W hx hH hW
  have ea : H + H % 2 = 2 * ((H+1)/2) := by omega
  have eb : W + W % 2 = 2 * ((W+1)/2) := by omega
  rw [ea, eb] at rxe
  set a := (H+1)/2 with ha
  set b := (W+1)/2 with hb
  have ha1 : 1 ≤ a := by omega
  have hb1 : 1 ≤ b := by omega
  obtain ⟨rlow, o1, ho1, hbs1⟩ := fwdJ1_shape s h0o h1o hh0o hh1o (extendEven x) a b ha1 hb1 rxe
  have hl1 := level1_pr s hs h0o h1o g0o g1o hh0o hh1o hg0o hg1o hs0 hs1 hpr1 (extendEven x) a b ha1 hb1 rxe
  obtain ⟨lowF, hsl, scs, hloop, Z, hfold, hcrop⟩ :=
    loop_pr s hs h0 h1 g0 g1 hh0 hh1 hg0 hg0' hg1 hg1' hpr h0o h1o g0o g1o n (incl.drop 1)
      (fwdJ1 s true (prepFilt h0o) (prepFilt h1o) false (extendEven x)).1 a b ha1 hb1 rlow
  refine ⟨lowF, some o1 :: hsl, (if incl.headD false then some (fwdJ1 s true (prepFilt h0o) (prepFilt h1o) false (extendEven x)).1 else none) :: scs, ?_, ?_⟩
  · rw [List.replicate_succ]
    unfold DTCWTForward
    simp only []
    have e : fwdJ1 s true (mkF h0o h1o h0 h1).h0o (mkF h0o h1o h0 h1).h1o false (extendEven x)
        = ((fwdJ1 s true (prepFilt h0o) (prepFilt h1o) false (extendEven x)).1, some o1) := by
      show fwdJ1 s true (prepFilt h0o) (prepFilt h1o) false (extendEven x) = _
      rw [← ho1]
    rw [e]
    simp only [hloop, Option.bind_eq_bind, Option.bind_some]
  · rw [List.map_cons, List.headD_cons, DTCWTInverse_cons, hfold]
    simp only [Option.bind_eq_bind, Option.bind_some]
    have hb2 : bsz (some o1) = (a, b) := hbs1
    rw [hb2]
    simp only [hcrop]
    have := hl1
    rw [ho1] at this
    exact this

end WV.C04P
