/-
  C08 — value refinement of the SECOND-order scattering layer (no colour combination, non-band-pass families), for ANY
  square-root operation.

  On a stack of images whose sides are multiples of 8 the implementation model of `ScatLayerj2_f.forward` — level-1 DTCWT
  of every channel, smoothed magnitudes, level-2 (q-shift) DTCWT of the level-1 low-passes, a second level-1 DTCWT of the
  6C first-order magnitude images, 2×2 average pooling, the `49C` channel packing `[S0 | pooled S1 | S1 (scale 2) | S2]` —
  equals the composition of the REFERENCE transforms `Spec.refLevel1` / `Spec.refLevel2` (what `dtcwt.numpy` computes,
  C03P) with those formulas (`Spec.scat2`).
-/
import WaveletsVerif.Properties.C08P
import WaveletsVerif.Properties.C11P
namespace WV
namespace Spec
variable {α : Type}

/-- reference second-order scattering of one batch item (sides multiples of 8, no colour combination) -/
def scat2 [Add α] [Sub α] [Mul α] [OfNat α 0] (m : MagOps α) (h0o h1o h0a h0b h1a h1b : List α) (x : List (Img α)) :
    List (Img α) :=
  let r1 := x.map fun im => refLevel1 m.s h0o h1o im
  let s1j1 := ((List.range 6).map fun o => r1.map fun p => subBias m (magR m (p.2.getD o ([], [])))).flatten
  let r2 := r1.map fun p => refLevel2 m.s h0a h0b h1a h1b p.1
  let s1j2 := ((List.range 6).map fun o => r2.map fun p => subBias m (magR m (p.2.getD o ([], [])))).flatten
  let s0 := r2.map fun p => avgPool2 m.q p.1
  let r3 := s1j1.map fun im => refLevel1 m.s h0o h1o im
  let s2 := ((List.range 6).map fun o2 => r3.map fun p => subBias m (magR m (p.2.getD o2 ([], [])))).flatten
  let s1p := r3.map fun p => avgPool2 m.q p.1
  s0 ++ s1p ++ s1j2 ++ s2

end Spec

namespace C08Q
open WV.C04 WV.C04P WV.C03P WV.C11P
variable {R : Type} [CommRing R]

theorem fwd1_eq (m : MagOps R) (h0o h1o : List R) (hh0 : h0o.length % 2 = 1) (hh1 : h1o.length % 2 = 1) (im : Img R) (a b : Nat)
    (ha : 1 ≤ a) (hb : 1 ≤ b) (hx : Rect im (2*a) (2*b)) :
    fwd1 m true (prepFilt h0o) (prepFilt h1o) none im = Spec.refLevel1 m.s h0o h1o im := by
  simp only [fwd1]
  rw [fwdJ1_eq_ref m.s h0o h1o hh0 hh1 im a b ha hb hx]
  rfl

theorem fwd2_eq (m : MagOps R) (h0a h0b h1a h1b : List R) (hl0 : 1 ≤ h0b.length) (hab0 : h0a.length = h0b.length)
    (hl1 : 1 ≤ h1b.length) (hab1 : h1a.length = h1b.length) (im : Img R) (a b : Nat) (ha : 1 ≤ a) (hb : 1 ≤ b) (hx : Rect im (4*a) (4*b)) :
    fwd2 m (prepFilt h0a) (prepFilt h1a) (prepFilt h0b) (prepFilt h1b) none im = some (Spec.refLevel2 m.s h0a h0b h1a h1b im) := by
  simp only [fwd2]
  rw [fwdJ2_eq_ref m.s h0a h0b h1a h1b hl0 hab0 hl1 hab1 im a b ha hb hx]
  rfl

/-- the six bands of the reference level 1 of a `2a × 2b` image are `a × b` -/
theorem refLevel1_bands (s : R) (h0 h1 : List R) (hh0 : h0.length % 2 = 1) (hh1 : h1.length % 2 = 1) (x : Img R) (a b : Nat)
    (ha : 1 ≤ a) (hb : 1 ≤ b) (hx : Rect x (2*a) (2*b)) : BandOK (Spec.refLevel1 s h0 h1 x).2 a b := by
  have h2a : 1 ≤ 2 * a := by omega
  have h2b : 1 ≤ 2 * b := by omega
  have rLo := alongH_rect h0 hh0 x _ _ hx h2a h2b
  have rHi := alongH_rect h1 hh1 x _ _ hx h2a h2b
  have r1 := alongW_rect h0 hh0 _ _ _ rHi
  have r2 := alongW_rect h1 hh1 _ _ _ rLo
  have r3 := alongW_rect h1 hh1 _ _ _ rHi
  have q : ∀ (y : Img R), Rect y (2*a) (2*b) →
      ((q2c s y).1.1.length = a ∧ Img.width (q2c s y).1.1 = b) ∧ ((q2c s y).2.1.length = a ∧ Img.width (q2c s y).2.1 = b) := by
    intro y hy
    have hw := rect_width y _ _ hy h2a
    unfold q2c
    simp only [hy.1, hw]
    have e1 : 2 * a / 2 = a := by omega
    have e2 : 2 * b / 2 = b := by omega
    rw [e1, e2]
    refine ⟨⟨by simp [tab2], C19.width_tab2 a b _ (by omega)⟩, ⟨by simp [tab2], C19.width_tab2 a b _ (by omega)⟩⟩
  unfold Spec.refLevel1 highsToOrientations
  simp only
  intro k hk
  have hk6 : k = 0 ∨ k = 1 ∨ k = 2 ∨ k = 3 ∨ k = 4 ∨ k = 5 := by omega
  rcases hk6 with rfl | rfl | rfl | rfl | rfl | rfl
  · exact (q _ r1).1
  · exact (q _ r3).1
  · exact (q _ r2).1
  · exact (q _ r2).2
  · exact (q _ r3).2
  · exact (q _ r1).2

theorem subBias_magR_rect (m : MagOps R) (c : Cplx R) (r w : Nat) (hr : 1 ≤ r) (hl : c.1.length = r) (hw : Img.width c.1 = w) :
    Rect (subBias m (magR m c)) r w := by
  unfold subBias magR imap2
  rw [hl, hw]
  constructor
  · simp [tab2]
  · intro row hrow
    simp only [List.mem_map] at hrow
    obtain ⟨row0, h0, rfl⟩ := hrow
    have := (tab2_rect r w (fun i j => m.sq (get2 c.1 i j * get2 c.1 i j + get2 c.2 i j * get2 c.2 i j + m.b * m.b))).2 row0 h0
    simp [this]

/-- the module's filter record for the non-band-pass families -/
def mkS2 (h0o h1o h0a h0b h1a h1b : List R) : Scat2Filters R :=
  { h0o := prepFilt h0o, h1o := prepFilt h1o, h2o := none, h0a := prepFilt h0a, h0b := prepFilt h0b,
    h1a := prepFilt h1a, h1b := prepFilt h1b, h2ab := none }

/-- **the second-order scattering layer is the reference DTCWT (levels 1 and 2) composed with the scattering formulas**,
every channel count, every image size with sides multiples of 8, any square-root operation -/
theorem scatJ2_eq_spec (m : MagOps R) (h0o h1o h0a h0b h1a h1b : List R) (hh0 : h0o.length % 2 = 1) (hh1 : h1o.length % 2 = 1)
    (hl0 : 1 ≤ h0b.length) (hab0 : h0a.length = h0b.length) (hl1 : 1 ≤ h1b.length) (hab1 : h1a.length = h1b.length)
    (x : List (Img R)) (a b : Nat) (ha : 1 ≤ a) (hb : 1 ≤ b) (hx : ∀ im ∈ x, Rect im (8*a) (8*b)) :
    scatJ2 m true (mkS2 h0o h1o h0a h0b h1a h1b) false x = some (Spec.scat2 m h0o h1o h0a h0b h1a h1b x) := by
  have hguard : ¬ (x.any (fun im => im.length % 8 ≠ 0 ∨ Img.width im % 8 ≠ 0) = true) := by
    rw [List.any_eq_true]
    rintro ⟨im, him, hodd⟩
    have r := hx im him
    have hw := rect_width _ _ _ r (by omega)
    simp only [r.1, hw, decide_eq_true_eq] at hodd
    omega
  have hx2 : ∀ im ∈ x, Rect im (2*(4*a)) (2*(4*b)) := by
    intro im him; have := hx im him
    rw [show 2*(4*a) = 8*a by ring, show 2*(4*b) = 8*b by ring]; exact this
  -- first level on every channel
  have hmap1 : x.map (fwd1 m true (prepFilt h0o) (prepFilt h1o) none) = x.map fun im => Spec.refLevel1 m.s h0o h1o im := by
    apply List.map_congr_left
    intro im him
    exact fwd1_eq m h0o h1o hh0 hh1 im (4*a) (4*b) (by omega) (by omega) (hx2 im him)
  -- second level of the level-1 low-passes
  have hlow : ∀ p ∈ (x.map fun im => Spec.refLevel1 m.s h0o h1o im), Rect p.1 (4*(2*a)) (4*(2*b)) := by
    intro p hp
    obtain ⟨im, him, rfl⟩ := List.mem_map.mp hp
    have := refLevel1_rect m.s h0o h1o hh0 im (4*a) (4*b) (by omega) (by omega) (hx2 im him)
    rw [show 4*(2*a) = 2*(4*a) by ring, show 4*(2*b) = 2*(4*b) by ring]; exact this
  have hmap2 : (x.map fun im => Spec.refLevel1 m.s h0o h1o im).mapM
        (fun p => fwd2 m (prepFilt h0a) (prepFilt h1a) (prepFilt h0b) (prepFilt h1b) none p.1)
      = some ((x.map fun im => Spec.refLevel1 m.s h0o h1o im).map fun p => Spec.refLevel2 m.s h0a h0b h1a h1b p.1) := by
    apply mapM_total
    intro p hp
    exact fwd2_eq m h0a h0b h1a h1b hl0 hab0 hl1 hab1 p.1 (2*a) (2*b) (by omega) (by omega) (hlow p hp)
  -- the first-order magnitude images are `4a × 4b`
  have hs1 : ∀ im ∈ ((List.range 6).map fun o => (x.map fun im => Spec.refLevel1 m.s h0o h1o im).map
        fun p => subBias m (magR m (p.2.getD o ([], [])))).flatten, Rect im (2*(2*a)) (2*(2*b)) := by
    intro im him
    rw [List.mem_flatten] at him
    obtain ⟨l, hl, himl⟩ := him
    obtain ⟨o, ho, rfl⟩ := List.mem_map.mp hl
    obtain ⟨p, hp, rfl⟩ := List.mem_map.mp himl
    obtain ⟨im0, him0, rfl⟩ := List.mem_map.mp hp
    have hbands := refLevel1_bands m.s h0o h1o hh0 hh1 im0 (4*a) (4*b) (by omega) (by omega) (hx2 im0 him0) o (by simpa using ho)
    have := subBias_magR_rect m ((Spec.refLevel1 m.s h0o h1o im0).2.getD o ([], [])) (4*a) (4*b) (by omega) hbands.1 hbands.2
    rw [show 2*(2*a) = 4*a by ring, show 2*(2*b) = 4*b by ring]; exact this
  have hmap3 : (((List.range 6).map fun o => (x.map fun im => Spec.refLevel1 m.s h0o h1o im).map
        fun p => subBias m (magR m (p.2.getD o ([], [])))).flatten).map (fwd1 m true (prepFilt h0o) (prepFilt h1o) none)
      = (((List.range 6).map fun o => (x.map fun im => Spec.refLevel1 m.s h0o h1o im).map
        fun p => subBias m (magR m (p.2.getD o ([], [])))).flatten).map fun im => Spec.refLevel1 m.s h0o h1o im := by
    apply List.map_congr_left
    intro im him
    exact fwd1_eq m h0o h1o hh0 hh1 im (2*a) (2*b) (by omega) (by omega) (hs1 im him)
  unfold scatJ2
  rw [if_neg hguard]
  simp only [mkS2, Bool.not_true, Bool.false_eq_true, if_false, hmap1, hmap2, hmap3, Option.bind_eq_bind, Option.bind_some, Spec.scat2]

/-! ### the module's extension to multiples of 8 -/

theorem pad8_length {α : Type} (x : List α) (h : 4 ≤ x.length) : (pad8 x).length = 8 * ((x.length + 7) / 8) := by
  unfold pad8
  by_cases hr : x.length % 8 = 0
  · simp only [hr, if_true]; omega
  · simp only [hr, if_false]
    have hb : pyBound x.length (((8 - x.length % 8) / 2 : Nat) : Int) = (8 - x.length % 8) / 2 := by
      unfold pyBound
      have h1 : ¬ ((((8 - x.length % 8) / 2 : Nat) : Int) < 0) := by omega
      simp only [h1, if_false]
      have h2 : ¬ ((x.length : Int) < (((8 - x.length % 8) / 2 : Nat) : Int)) := by omega
      simp only [h2, if_false]
      omega
    have ha : pyBound x.length (-(((9 - x.length % 8) / 2 : Nat) : Int)) = x.length - (9 - x.length % 8) / 2 := by
      unfold pyBound
      have h1 : (-(((9 - x.length % 8) / 2 : Nat) : Int)) < 0 := by omega
      simp only [h1, if_true]
      have h2 : ¬ (-(((9 - x.length % 8) / 2 : Nat) : Int) + (x.length : Int) < 0) := by omega
      have h3 : ¬ ((x.length : Int) < -(((9 - x.length % 8) / 2 : Nat) : Int) + (x.length : Int)) := by omega
      simp only [h2, h3, if_false]
      omega
    simp only [sliceTo, sliceFrom, hb, ha, List.length_append, List.length_take, List.length_drop]
    omega

theorem pad8_mem {α : Type} (x : List α) (r : α) (h : r ∈ pad8 x) : r ∈ x := by
  unfold pad8 at h
  simp only [] at h
  by_cases hr : x.length % 8 = 0
  · rw [if_pos hr] at h; exact h
  · rw [if_neg hr] at h
    simp only [List.mem_append, sliceTo, sliceFrom] at h
    rcases h with (h | h) | h
    · exact List.mem_of_mem_take h
    · exact h
    · exact List.mem_of_mem_drop h

omit [CommRing R] in
theorem pad8Img_rect (im : Img R) (H W : Nat) (hx : Rect im H W) (hH : 4 ≤ H) (hW : 4 ≤ W) :
    Rect (pad8Img im) (8 * ((H + 7) / 8)) (8 * ((W + 7) / 8)) := by
  unfold pad8Img
  constructor
  · rw [List.length_map, pad8_length im (by rw [hx.1]; exact hH), hx.1]
  · intro row hrow
    obtain ⟨r0, h0, rfl⟩ := List.mem_map.mp hrow
    have hr0 : r0.length = W := hx.2 r0 (pad8_mem im r0 h0)
    rw [pad8_length r0 (by rw [hr0]; exact hW), hr0]

/-- **`ScatLayerj2` (module: extension to multiples of 8, then the Function) = reference + formulas**, every image with at
least 4 rows and columns (below that the extension itself is the recorded finding), every channel count -/
theorem ScatLayerj2_eq_spec (m : MagOps R) (h0o h1o h0a h0b h1a h1b : List R) (hh0 : h0o.length % 2 = 1) (hh1 : h1o.length % 2 = 1)
    (hl0 : 1 ≤ h0b.length) (hab0 : h0a.length = h0b.length) (hl1 : 1 ≤ h1b.length) (hab1 : h1a.length = h1b.length)
    (x : List (Img R)) (H W : Nat) (hH : 4 ≤ H) (hW : 4 ≤ W) (hx : ∀ im ∈ x, Rect im H W) :
    ScatLayerj2 m true (mkS2 h0o h1o h0a h0b h1a h1b) false x
      = some (Spec.scat2 m h0o h1o h0a h0b h1a h1b (x.map pad8Img)) := by
  unfold ScatLayerj2
  apply scatJ2_eq_spec m h0o h1o h0a h0b h1a h1b hh0 hh1 hl0 hab0 hl1 hab1 _ ((H + 7) / 8) ((W + 7) / 8) (by omega) (by omega)
  intro im him
  obtain ⟨im0, h0, rfl⟩ := List.mem_map.mp him
  exact pad8Img_rect im0 H W (hx im0 h0) hH hW

/-- the size hypotheses are satisfiable: a 5 × 6 image is extended to 8 × 8 -/
example : 8 * ((5 + 7) / 8) = 8 ∧ 8 * ((6 + 7) / 8) = 8 ∧ (pad8 [1, 2, 3, 4, 5]).length = 8 := by decide

end C08Q
end WV
