/-
  C05 — the one-dimensional autograd Functions on EVERY number of channels: `AFB1D.forward` / `AFB1D.backward` act channel by
  channel on `(C, L)` stacks (grouped convolution with the filter pair repeated `C` times, `lohi[:, ::2]` / `lohi[:, 1::2]` split),
  hence `AFB1D.backward` is the adjoint of `AFB1D.forward` on every channel of a stack of any size — in mode zero for every length
  and filter lengths, in periodization for every length (odd included) and even `L ≤ N + N % 2`.
  (The 2-D counterparts are `C07M.AFB2D_*_channels`.)
-/
import WaveletsVerif.Properties.C05U
import WaveletsVerif.Properties.C07M
import WaveletsVerif.Properties.C05V
namespace WV.C05W
open Finset WV WV.C05D WV.C05P WV.C05U WV.C07M WV.C05V
variable {R : Type} [CommRing R]

omit [CommRing R] in
theorem getD_map_single (xs : List (List R)) (c : Nat) (hc : c < xs.length) :
    ((xs.map fun ch => [ch]) : List (Img R)).getD c [] = [xs.getD c []] := by
  simp [List.getD_eq_getElem?_getD, List.getElem?_eq_getElem hc]

/-- **`AFB1D.forward` acts channel by channel**: if both one-filter analyses return on every channel (`lo`, `hi` their values),
the stack result is exactly the per-channel results -/
theorem AFB1D_forward_channels (m : Mode) (w0 w1 : List R) (xs : List (List R)) (lo hi : List R → List R)
    (h : ∀ c < xs.length, afb1dOne m w0 (xs.getD c []) = some (lo (xs.getD c [])) ∧
                           afb1dOne m w1 (xs.getD c []) = some (hi (xs.getD c []))) :
    AFB1D_forward m w0 w1 xs = some (tab xs.length fun c => lo (xs.getD c []), tab xs.length fun c => hi (xs.getD c [])) := by
  unfold AFB1D_forward
  rw [C07.afb1dT_total .W m w0 w1 (xs.map fun ch => [ch])
    (fun im => [lo (im.getD 0 [])]) (fun im => [hi (im.getD 0 [])])
    (by
      intro c hc
      have hc' : c < xs.length := by simpa using hc
      rw [getD_map_single xs c hc']
      obtain ⟨e0, e1⟩ := h c hc'
      constructor
      · simp only [alongO, alongWO, List.mapM_cons, List.mapM_nil, e0]; rfl
      · simp only [alongO, alongWO, List.mapM_cons, List.mapM_nil, e1]; rfl)]
  simp only [Option.bind_eq_bind, Option.bind_some, List.length_map]
  have hlen : (2 * xs.length) / 2 = xs.length := by omega
  rw [C07.map_tab, length_tab, hlen]
  congr 2
  · apply tab_ext rfl
    intro c hc
    rw [getD_tab]
    have h1 : 2 * c < 2 * xs.length := by omega
    have h2 : (2*c) % 2 = 0 := by omega
    have h3 : (2*c) / 2 = c := by omega
    simp only [h1, if_true, h2, h3, getD_map_single xs c hc]
    rfl
  · apply tab_ext rfl
    intro c hc
    rw [getD_tab]
    have h1 : 2 * c + 1 < 2 * xs.length := by omega
    have h2 : (2*c+1) % 2 = 1 := by omega
    have h3 : (2*c+1) / 2 = c := by omega
    simp only [h1, if_true, h2, h3, getD_map_single xs c hc, Nat.one_ne_zero, if_false]
    rfl

/-- **`AFB1D.backward` acts channel by channel**: per-channel synthesis with the analysis buffers, then the fold / crop -/
theorem AFB1D_backward_channels (m : Mode) (w0 w1 : List R) (N : Nat) (g0s g1s : List (List R)) (S : List R → List R → List R)
    (hlen : g1s.length = g0s.length)
    (h : ∀ c < g0s.length, sfb1dCh m w0 w1 (g0s.getD c []) (g1s.getD c []) = some (S (g0s.getD c []) (g1s.getD c []))) :
    AFB1D_backward m w0 w1 N g0s g1s = some (tab g0s.length fun c => foldCrop m N (S (g0s.getD c []) (g1s.getD c []))) := by
  unfold AFB1D_backward
  rw [sfb1dT_total .W m w0 w1 (g0s.map fun ch => [ch]) (g1s.map fun ch => [ch]) (fun a b => [S (a.getD 0 []) (b.getD 0 [])])
    (by simp [hlen])
    (by
      intro c hc
      have hc' : c < g0s.length := by simpa using hc
      rw [getD_map_single g0s c hc', getD_map_single g1s c (by omega)]
      have e := h c hc'
      simp only [List.getD_eq_getElem?_getD] at e
      simp [sfb1dImg, List.range, List.range.loop, e])]
  simp only [Option.bind_eq_bind, Option.bind_some, List.length_map]
  rw [C07.map_tab]
  congr 1
  apply tab_ext rfl
  intro c hc
  rw [getD_map_single g0s c hc, getD_map_single g1s c (by omega)]
  rfl

/-- **`AFB1D.backward` is the adjoint of `AFB1D.forward` on every number of channels** whenever one level is adjoint on one
channel (`C05U.LevelAdj`): channel `c` of the gradient pairs with channel `c` of the signal exactly as the bands of channel `c` pair
with their cotangents -/
theorem AFB1D_adjoint_channels (m : Mode) (w0 w1 : List R) (Lvl : Nat → Prop) (K : Nat → Nat) (hA : LevelAdj m w0 w1 Lvl K)
    (N : Nat) (hN : Lvl N) (xs g0s g1s : List (List R)) (hl0 : g0s.length = xs.length) (hl1 : g1s.length = xs.length)
    (hx : ∀ c < xs.length, (xs.getD c []).length = N)
    (hg : ∀ c < xs.length, (g0s.getD c []).length = K N ∧ (g1s.getD c []).length = K N) :
    ∃ los his dxs, AFB1D_forward m w0 w1 xs = some (los, his) ∧ AFB1D_backward m w0 w1 N g0s g1s = some dxs ∧
      ∀ c < xs.length, dotN (K N) (los.getD c []) (g0s.getD c []) + dotN (K N) (his.getD c []) (g1s.getD c [])
        = dotN N (xs.getD c []) (dxs.getD c []) := by
  classical
  -- per-channel values (by choice from the one-channel statement)
  have hv : ∀ x : List R, x.length = N → ∃ lo hi, afb1dOne m w0 x = some lo ∧ afb1dOne m w1 x = some hi := by
    intro x hx'
    obtain ⟨lo, hi, e0, e1, _⟩ := hA x (by rw [hx']; exact hN)
    exact ⟨lo, hi, e0, e1⟩
  let lo : List R → List R := fun x => (afb1dOne m w0 x).getD []
  let hi : List R → List R := fun x => (afb1dOne m w1 x).getD []
  let S : List R → List R → List R := fun a b => (sfb1dCh m w0 w1 a b).getD []
  have hlo : ∀ c < xs.length, afb1dOne m w0 (xs.getD c []) = some (lo (xs.getD c [])) ∧
      afb1dOne m w1 (xs.getD c []) = some (hi (xs.getD c [])) := by
    intro c hc
    obtain ⟨a, b, e0, e1⟩ := hv _ (hx c hc)
    exact ⟨by simp only [lo, e0, Option.getD_some], by simp only [hi, e1, Option.getD_some]⟩
  have hS : ∀ c < g0s.length, sfb1dCh m w0 w1 (g0s.getD c []) (g1s.getD c []) = some (S (g0s.getD c []) (g1s.getD c [])) := by
    intro c hc
    have hc' : c < xs.length := by omega
    obtain ⟨_, _, _, _, _, _, hadj⟩ := hA (xs.getD c []) (by rw [hx c hc']; exact hN)
    obtain ⟨d, es, _⟩ := hadj (g0s.getD c []) (g1s.getD c []) (by rw [hx c hc']; exact (hg c hc').1) (by rw [hx c hc']; exact (hg c hc').2)
    simp only [S, es, Option.getD_some]
  refine ⟨_, _, _, AFB1D_forward_channels m w0 w1 xs lo hi hlo,
    AFB1D_backward_channels m w0 w1 N g0s g1s S (by omega) hS, ?_⟩
  intro c hc
  rw [getD_tab, getD_tab, getD_tab, if_pos hc, if_pos hc, if_pos (by omega)]
  obtain ⟨a, b, e0, e1, _, _, hadj⟩ := hA (xs.getD c []) (by rw [hx c hc]; exact hN)
  obtain ⟨d, es, _, hid⟩ := hadj (g0s.getD c []) (g1s.getD c []) (by rw [hx c hc]; exact (hg c hc).1) (by rw [hx c hc]; exact (hg c hc).2)
  have ea : lo (xs.getD c []) = a := by simp only [lo, e0, Option.getD_some]
  have eb : hi (xs.getD c []) = b := by simp only [hi, e1, Option.getD_some]
  have ed : S (g0s.getD c []) (g1s.getD c []) = d := by simp only [S, es, Option.getD_some]
  rw [ea, eb, ed]
  rw [hx c hc] at hid
  exact hid

/-- mode zero, every channel count, every length and filter lengths -/
theorem AFB1D_zero_adjoint_channels (w0 w1 : List R) (hL : 2 ≤ w0.length) (hw : w1.length = w0.length) (N : Nat) (hN : 1 ≤ N)
    (xs g0s g1s : List (List R)) (hl0 : g0s.length = xs.length) (hl1 : g1s.length = xs.length)
    (hx : ∀ c < xs.length, (xs.getD c []).length = N)
    (hg : ∀ c < xs.length, (g0s.getD c []).length = dwtCoeffLen N w0.length ∧ (g1s.getD c []).length = dwtCoeffLen N w0.length) :
    ∃ los his dxs, AFB1D_forward .zero w0 w1 xs = some (los, his) ∧ AFB1D_backward .zero w0 w1 N g0s g1s = some dxs ∧
      ∀ c < xs.length, dotN (dwtCoeffLen N w0.length) (los.getD c []) (g0s.getD c [])
          + dotN (dwtCoeffLen N w0.length) (his.getD c []) (g1s.getD c [])
        = dotN N (xs.getD c []) (dxs.getD c []) :=
  AFB1D_adjoint_channels .zero w0 w1 _ _ (levelAdj_zero w0 w1 hL hw) N hN xs g0s g1s hl0 hl1 hx hg

/-- periodization, every channel count, every length (odd included), even filters that fit the even-extended signal -/
theorem AFB1D_per_adjoint_channels (h0 h1 : List R) (hL : 2 ≤ h0.length) (hLe : h0.length % 2 = 0) (hh1 : h1.length = h0.length)
    (N : Nat) (hN : 1 ≤ N) (hfit : h0.length ≤ N + N % 2)
    (xs g0s g1s : List (List R)) (hl0 : g0s.length = xs.length) (hl1 : g1s.length = xs.length)
    (hx : ∀ c < xs.length, (xs.getD c []).length = N)
    (hg : ∀ c < xs.length, (g0s.getD c []).length = (N + N % 2) / 2 ∧ (g1s.getD c []).length = (N + N % 2) / 2) :
    ∃ los his dxs, AFB1D_forward .periodization h0.reverse h1.reverse xs = some (los, his) ∧
      AFB1D_backward .periodization h0.reverse h1.reverse N g0s g1s = some dxs ∧
      ∀ c < xs.length, dotN ((N + N % 2) / 2) (los.getD c []) (g0s.getD c []) + dotN ((N + N % 2) / 2) (his.getD c []) (g1s.getD c [])
        = dotN N (xs.getD c []) (dxs.getD c []) :=
  AFB1D_adjoint_channels .periodization h0.reverse h1.reverse _ _ (levelAdj_per h0 h1 hL hLe hh1) N ⟨hN, hfit⟩ xs g0s g1s hl0 hl1 hx hg


/-! ### the synthesis Function on `C` channels -/

/-- **`SFB1D.forward` acts channel by channel** -/
theorem SFB1D_forward_channels (m : Mode) (g0 g1 : List R) (los his : List (List R)) (S : List R → List R → List R)
    (hlen : his.length = los.length)
    (h : ∀ c < los.length, sfb1dCh m g0 g1 (los.getD c []) (his.getD c []) = some (S (los.getD c []) (his.getD c []))) :
    SFB1D_forward m g0 g1 los his = some (tab los.length fun c => S (los.getD c []) (his.getD c [])) := by
  unfold SFB1D_forward
  rw [sfb1dT_total .W m g0 g1 (los.map fun ch => [ch]) (his.map fun ch => [ch]) (fun a b => [S (a.getD 0 []) (b.getD 0 [])])
    (by simp [hlen])
    (by
      intro c hc
      have hc' : c < los.length := by simpa using hc
      rw [getD_map_single los c hc', getD_map_single his c (by omega)]
      have e := h c hc'
      simp only [List.getD_eq_getElem?_getD] at e
      simp [sfb1dImg, List.range, List.range.loop, e])]
  simp only [Option.bind_eq_bind, Option.bind_some, List.length_map]
  rw [C07.map_tab]
  congr 1
  apply tab_ext rfl
  intro c hc
  rw [getD_map_single los c hc, getD_map_single his c (by omega)]
  rfl

/-- **`SFB1D.backward` is the adjoint of `SFB1D.forward` on every number of channels** whenever one level is adjoint on one
channel (`C05V.LevelAdjS`) -/
theorem SFB1D_adjoint_channels (m : Mode) (g0 g1 : List R) (Fit : Nat → Prop) (Out : Nat → Nat) (hA : LevelAdjS m g0 g1 Fit Out)
    (K : Nat) (hK : Fit K) (los his dys : List (List R)) (hl0 : his.length = los.length) (hl1 : dys.length = los.length)
    (hb : ∀ c < los.length, (los.getD c []).length = K ∧ (his.getD c []).length = K)
    (hd : ∀ c < los.length, (dys.getD c []).length = Out K) :
    ∃ ys dlos dhis, SFB1D_forward m g0 g1 los his = some ys ∧ SFB1D_backward m g0 g1 dys = some (dlos, dhis) ∧
      ∀ c < los.length, dotN (Out K) (dys.getD c []) (ys.getD c [])
        = dotN K (dlos.getD c []) (los.getD c []) + dotN K (dhis.getD c []) (his.getD c []) := by
  classical
  let S : List R → List R → List R := fun a b => (sfb1dCh m g0 g1 a b).getD []
  let lo : List R → List R := fun x => (afb1dOne m g0 x).getD []
  let hi : List R → List R := fun x => (afb1dOne m g1 x).getD []
  have hall : ∀ c < los.length, ∃ y dlo dhi, sfb1dCh m g0 g1 (los.getD c []) (his.getD c []) = some y ∧
      afb1dOne m g0 (dys.getD c []) = some dlo ∧ afb1dOne m g1 (dys.getD c []) = some dhi ∧
      dotN (Out K) (dys.getD c []) y = dotN K dlo (los.getD c []) + dotN K dhi (his.getD c []) := by
    intro c hc
    obtain ⟨y, dlo, dhi, e1, e2, e3, _, _, _, hid⟩ := hA (los.getD c []) (his.getD c []) (dys.getD c []) (by rw [(hb c hc).1]; exact hK)
      (by rw [(hb c hc).1, (hb c hc).2]) (by rw [(hb c hc).1]; exact hd c hc)
    rw [(hb c hc).1] at hid
    exact ⟨y, dlo, dhi, e1, e2, e3, hid⟩
  have hS : ∀ c < los.length, sfb1dCh m g0 g1 (los.getD c []) (his.getD c []) = some (S (los.getD c []) (his.getD c [])) := by
    intro c hc
    obtain ⟨y, _, _, e1, _⟩ := hall c hc
    simp only [S, e1, Option.getD_some]
  have hB : ∀ c < dys.length, afb1dOne m g0 (dys.getD c []) = some (lo (dys.getD c [])) ∧
      afb1dOne m g1 (dys.getD c []) = some (hi (dys.getD c [])) := by
    intro c hc
    obtain ⟨_, dlo, dhi, _, e2, e3, _⟩ := hall c (by omega)
    exact ⟨by simp only [lo, e2, Option.getD_some], by simp only [hi, e3, Option.getD_some]⟩
  refine ⟨_, _, _, SFB1D_forward_channels m g0 g1 los his S hl0 hS,
    by rw [SFB1D_backward_eq]; exact AFB1D_forward_channels m g0 g1 dys lo hi hB, ?_⟩
  intro c hc
  rw [getD_tab, getD_tab, getD_tab, if_pos hc, if_pos (by omega), if_pos (by omega)]
  obtain ⟨y, dlo, dhi, e1, e2, e3, hid⟩ := hall c hc
  have ey : S (los.getD c []) (his.getD c []) = y := by simp only [S, e1, Option.getD_some]
  have ea : lo (dys.getD c []) = dlo := by simp only [lo, e2, Option.getD_some]
  have eb : hi (dys.getD c []) = dhi := by simp only [hi, e3, Option.getD_some]
  rw [ey, ea, eb]
  exact hid

/-- mode zero, every channel count -/
theorem SFB1D_zero_adjoint_channels (g0 g1 : List R) (hL : 2 ≤ g0.length) (hg : g1.length = g0.length) (K : Nat) (hK : 1 ≤ K)
    (hfit : g0.length ≤ 2 * K + 1) (los his dys : List (List R)) (hl0 : his.length = los.length) (hl1 : dys.length = los.length)
    (hb : ∀ c < los.length, (los.getD c []).length = K ∧ (his.getD c []).length = K)
    (hd : ∀ c < los.length, (dys.getD c []).length = 2 * K + 2 - g0.length) :
    ∃ ys dlos dhis, SFB1D_forward .zero g0 g1 los his = some ys ∧ SFB1D_backward .zero g0 g1 dys = some (dlos, dhis) ∧
      ∀ c < los.length, dotN (2 * K + 2 - g0.length) (dys.getD c []) (ys.getD c [])
        = dotN K (dlos.getD c []) (los.getD c []) + dotN K (dhis.getD c []) (his.getD c []) :=
  SFB1D_adjoint_channels .zero g0 g1 _ _ (levelAdjS_zero g0 g1 hL hg) K ⟨hK, hfit⟩ los his dys hl0 hl1 hb hd

/-- periodization, every channel count, any even-length synthesis filters with `L ≤ 2K` -/
theorem SFB1D_per_adjoint_channels (g0 g1 : List R) (hL : 2 ≤ g0.length) (hLe : g0.length % 2 = 0) (hg : g1.length = g0.length)
    (K : Nat) (hfit : g0.length ≤ 2 * K) (los his dys : List (List R)) (hl0 : his.length = los.length) (hl1 : dys.length = los.length)
    (hb : ∀ c < los.length, (los.getD c []).length = K ∧ (his.getD c []).length = K)
    (hd : ∀ c < los.length, (dys.getD c []).length = 2 * K) :
    ∃ ys dlos dhis, SFB1D_forward .periodization g0 g1 los his = some ys ∧ SFB1D_backward .periodization g0 g1 dys = some (dlos, dhis) ∧
      ∀ c < los.length, dotN (2 * K) (dys.getD c []) (ys.getD c [])
        = dotN K (dlos.getD c []) (los.getD c []) + dotN K (dhis.getD c []) (his.getD c []) :=
  SFB1D_adjoint_channels .periodization g0 g1 _ _ (levelAdjS_per g0 g1 hL hLe hg) K hfit los his dys hl0 hl1 hb hd


/-! ### the J-level 1-D module on `C` channels -/

/-- `AFB1D_adjoint_channels` together with the shapes of everything it returns -/
theorem AFB1D_adjoint_channels_shapes (m : Mode) (w0 w1 : List R) (Lvl : Nat → Prop) (K : Nat → Nat) (hA : LevelAdj m w0 w1 Lvl K)
    (N : Nat) (hN : Lvl N) (xs g0s g1s : List (List R)) (hl0 : g0s.length = xs.length) (hl1 : g1s.length = xs.length)
    (hx : ∀ c < xs.length, (xs.getD c []).length = N)
    (hg : ∀ c < xs.length, (g0s.getD c []).length = K N ∧ (g1s.getD c []).length = K N) :
    ∃ los his dxs, AFB1D_forward m w0 w1 xs = some (los, his) ∧ AFB1D_backward m w0 w1 N g0s g1s = some dxs ∧
      los.length = xs.length ∧ his.length = xs.length ∧ dxs.length = xs.length ∧
      (∀ c < xs.length, (los.getD c []).length = K N ∧ (his.getD c []).length = K N ∧ (dxs.getD c []).length = N) ∧
      ∀ c < xs.length, dotN (K N) (los.getD c []) (g0s.getD c []) + dotN (K N) (his.getD c []) (g1s.getD c [])
        = dotN N (xs.getD c []) (dxs.getD c []) := by
  classical
  let lo : List R → List R := fun x => (afb1dOne m w0 x).getD []
  let hi : List R → List R := fun x => (afb1dOne m w1 x).getD []
  let S : List R → List R → List R := fun a b => (sfb1dCh m w0 w1 a b).getD []
  have hall : ∀ c < xs.length, ∃ a b d, afb1dOne m w0 (xs.getD c []) = some a ∧ afb1dOne m w1 (xs.getD c []) = some b ∧
      sfb1dCh m w0 w1 (g0s.getD c []) (g1s.getD c []) = some d ∧ a.length = K N ∧ b.length = K N ∧ (foldCrop m N d).length = N ∧
      dotN (K N) a (g0s.getD c []) + dotN (K N) b (g1s.getD c []) = dotN N (xs.getD c []) (foldCrop m N d) := by
    intro c hc
    obtain ⟨a, b, e0, e1, la, lb, hadj⟩ := hA (xs.getD c []) (by rw [hx c hc]; exact hN)
    obtain ⟨d, es, ld, hid⟩ := hadj (g0s.getD c []) (g1s.getD c []) (by rw [hx c hc]; exact (hg c hc).1) (by rw [hx c hc]; exact (hg c hc).2)
    rw [hx c hc] at la lb ld hid
    exact ⟨a, b, d, e0, e1, es, la, lb, ld, hid⟩
  have hlo : ∀ c < xs.length, afb1dOne m w0 (xs.getD c []) = some (lo (xs.getD c [])) ∧
      afb1dOne m w1 (xs.getD c []) = some (hi (xs.getD c [])) := by
    intro c hc
    obtain ⟨a, b, _, e0, e1, _⟩ := hall c hc
    exact ⟨by simp only [lo, e0, Option.getD_some], by simp only [hi, e1, Option.getD_some]⟩
  have hS : ∀ c < g0s.length, sfb1dCh m w0 w1 (g0s.getD c []) (g1s.getD c []) = some (S (g0s.getD c []) (g1s.getD c [])) := by
    intro c hc
    obtain ⟨_, _, d, _, _, es, _⟩ := hall c (by omega)
    simp only [S, es, Option.getD_some]
  refine ⟨_, _, _, AFB1D_forward_channels m w0 w1 xs lo hi hlo,
    AFB1D_backward_channels m w0 w1 N g0s g1s S (by omega) hS, by simp, by simp, by simp [hl0], ?_, ?_⟩
  · intro c hc
    rw [getD_tab, getD_tab, getD_tab, if_pos hc, if_pos hc, if_pos (by omega)]
    obtain ⟨a, b, d, e0, e1, es, la, lb, ld, _⟩ := hall c hc
    have ea : lo (xs.getD c []) = a := by simp only [lo, e0, Option.getD_some]
    have eb : hi (xs.getD c []) = b := by simp only [hi, e1, Option.getD_some]
    have ed : S (g0s.getD c []) (g1s.getD c []) = d := by simp only [S, es, Option.getD_some]
    rw [ea, eb, ed]
    exact ⟨la, lb, ld⟩
  · intro c hc
    rw [getD_tab, getD_tab, getD_tab, if_pos hc, if_pos hc, if_pos (by omega)]
    obtain ⟨a, b, d, e0, e1, es, _, _, _, hid⟩ := hall c hc
    have ea : lo (xs.getD c []) = a := by simp only [lo, e0, Option.getD_some]
    have eb : hi (xs.getD c []) = b := by simp only [hi, e1, Option.getD_some]
    have ed : S (g0s.getD c []) (g1s.getD c []) = d := by simp only [S, es, Option.getD_some]
    rw [ea, eb, ed]
    exact hid

/-- the chain of `AFB1D.backward` passes on a stack of channels -/
def DWT1DForwardBackwardC (m : Mode) (w0 w1 : List R) : List Nat → List (List R) → List (List (List R)) → Option (List (List R))
  | [], gls, _ => some gls
  | N :: ns, gls, ghs => do
    let g0s ← DWT1DForwardBackwardC m w0 w1 ns gls ghs.tail
    AFB1D_backward m w0 w1 N g0s (ghs.headD [])

/-- a cotangent pyramid on `C` channels of the shapes a `J`-level transform of length-`N` signals produces -/
def PyrOKC (K : Nat → Nat) (C : Nat) : Nat → Nat → List (List R) → List (List (List R)) → Prop
  | 0, N, gls, [] => gls.length = C ∧ ∀ c < C, (gls.getD c []).length = N
  | J+1, N, gls, g1s :: rest => g1s.length = C ∧ (∀ c < C, (g1s.getD c []).length = K N) ∧ PyrOKC K C J (K N) gls rest
  | _, _, _, _ => False

/-- channel `c` of the output pyramid paired with channel `c` of the cotangent pyramid -/
def pdotC (c : Nat) (yls : List (List R)) (yhs : List (List (List R))) (gls : List (List R)) (ghs : List (List (List R))) : R :=
  dotN (yls.getD c []).length (yls.getD c []) (gls.getD c [])
    + (List.zipWith (fun d g => dotN (d.getD c []).length (d.getD c []) (g.getD c [])) yhs ghs).sum

/-- **back-propagation through the J-level `DWT1DForward` on every number of channels is the adjoint, channel by channel**,
whenever one level is adjoint on one channel -/
theorem loop_adjoint_channels (m : Mode) (w0 w1 : List R) (Lvl : Nat → Prop) (K : Nat → Nat) (hA : LevelAdj m w0 w1 Lvl K) (C : Nat) :
    ∀ (J N : Nat) (xs gls : List (List R)) (ghs : List (List (List R))), xs.length = C → (∀ c < C, (xs.getD c []).length = N) →
    LvlsOK Lvl K J N → PyrOKC K C J N gls ghs →
    ∃ yls yhs dxs, DWT1DForward m w0 w1 J xs = some (yls, yhs) ∧
      DWT1DForwardBackwardC m w0 w1 (shapes K J N) gls ghs = some dxs ∧ dxs.length = C ∧ (∀ c < C, (dxs.getD c []).length = N) ∧
      ∀ c < C, pdotC c yls yhs gls ghs = dotN N (xs.getD c []) (dxs.getD c [])
  | 0, N, xs, gls, ghs, hC, hx, _, hp => by
    cases ghs with
    | cons b rest => exact absurd hp (by simp [PyrOKC])
    | nil =>
      obtain ⟨hl, hg⟩ := hp
      refine ⟨xs, [], gls, by simp [DWT1DForward], by simp [shapes, DWT1DForwardBackwardC], hl, hg, ?_⟩
      intro c hc
      simp only [pdotC, List.zipWith_nil_left, List.sum_nil, add_zero]
      rw [hx c hc]
  | J+1, N, xs, gls, ghs, hC, hx, hok, hp => by
    cases ghs with
    | nil => exact absurd hp (by simp [PyrOKC])
    | cons g1s rest =>
      obtain ⟨hg1l, hg1, hrest⟩ := hp
      obtain ⟨hl, hokr⟩ := hok
      subst hC
      -- the forward level (any cotangents of the right shapes name its results)
      obtain ⟨los, his, _, hf, _, llos, lhis, _, hsh, _⟩ := AFB1D_adjoint_channels_shapes m w0 w1 Lvl K hA N hl xs g1s g1s hg1l hg1l hx
        (fun c hc => ⟨hg1 c hc, hg1 c hc⟩)
      -- the coarser levels
      obtain ⟨yls, yhs, g0s, hfr, hbr, lg0s, hg0, hdr⟩ := loop_adjoint_channels m w0 w1 Lvl K hA los.length J (K N) los gls rest rfl
        (fun c hc => (hsh c (by omega)).1) hokr (by rw [llos]; exact hrest)
      rw [llos] at lg0s hg0 hdr
      -- this level with the gradients handed up
      obtain ⟨los', his', dxs, hf', hb, _, _, ldxs, hsh', hid⟩ := AFB1D_adjoint_channels_shapes m w0 w1 Lvl K hA N hl xs g0s g1s lg0s hg1l hx
        (fun c hc => ⟨hg0 c hc, hg1 c hc⟩)
      rw [hf] at hf'
      simp only [Option.some.injEq, Prod.mk.injEq] at hf'
      obtain ⟨e1, e2⟩ := hf'
      subst e1 e2
      refine ⟨yls, his :: yhs, dxs, ?_, ?_, ldxs, fun c hc => (hsh' c hc).2.2, ?_⟩
      · simp only [DWT1DForward]
        rw [hf]
        simp only [Option.bind_eq_bind, Option.bind_some]
        rw [hfr]
        simp
      · simp only [shapes, DWT1DForwardBackwardC, List.tail_cons, List.headD_cons]
        rw [hbr]
        simp only [Option.bind_eq_bind, Option.bind_some]
        exact hb
      · intro c hc
        rw [← hid c hc]
        have := hdr c hc
        simp only [pdotC, List.zipWith_cons_cons, List.sum_cons] at this ⊢
        rw [(hsh c hc).2.1, ← this]
        ring

/-- mode zero: every J, every channel count, every length and filter lengths -/
theorem DWT1D_zero_adjoint_channels (w0 w1 : List R) (hL : 2 ≤ w0.length) (hw : w1.length = w0.length) (C J N : Nat) (hN : 1 ≤ N)
    (xs gls : List (List R)) (ghs : List (List (List R))) (hC : xs.length = C) (hx : ∀ c < C, (xs.getD c []).length = N)
    (hp : PyrOKC (fun N => dwtCoeffLen N w0.length) C J N gls ghs) :
    ∃ yls yhs dxs, DWT1DForward .zero w0 w1 J xs = some (yls, yhs) ∧
      DWT1DForwardBackwardC .zero w0 w1 (shapes (fun N => dwtCoeffLen N w0.length) J N) gls ghs = some dxs ∧ dxs.length = C ∧
      (∀ c < C, (dxs.getD c []).length = N) ∧ ∀ c < C, pdotC c yls yhs gls ghs = dotN N (xs.getD c []) (dxs.getD c []) := by
  have hok : ∀ (J N : Nat), 1 ≤ N → LvlsOK (fun N => 1 ≤ N) (fun N => dwtCoeffLen N w0.length) J N := by
    intro J
    induction J with
    | zero => intro N _; trivial
    | succ J ih => intro N hN; exact ⟨hN, ih _ (by show 1 ≤ dwtCoeffLen N w0.length; unfold dwtCoeffLen; omega)⟩
  exact loop_adjoint_channels .zero w0 w1 _ _ (levelAdj_zero w0 w1 hL hw) C J N xs gls ghs hC hx (hok J N hN) hp

/-- periodization: every J, every channel count, every length (odd included), even filters that fit every even-extended level -/
theorem DWT1D_per_adjoint_channels (h0 h1 : List R) (hL : 2 ≤ h0.length) (hLe : h0.length % 2 = 0) (hh1 : h1.length = h0.length)
    (C J N : Nat) (xs gls : List (List R)) (ghs : List (List (List R))) (hC : xs.length = C) (hx : ∀ c < C, (xs.getD c []).length = N)
    (hok : LvlsOK (fun N => 1 ≤ N ∧ h0.length ≤ N + N % 2) (fun N => (N + N % 2) / 2) J N)
    (hp : PyrOKC (fun N => (N + N % 2) / 2) C J N gls ghs) :
    ∃ yls yhs dxs, DWT1DForward .periodization h0.reverse h1.reverse J xs = some (yls, yhs) ∧
      DWT1DForwardBackwardC .periodization h0.reverse h1.reverse (shapes (fun N => (N + N % 2) / 2) J N) gls ghs = some dxs ∧
      dxs.length = C ∧ (∀ c < C, (dxs.getD c []).length = N) ∧
      ∀ c < C, pdotC c yls yhs gls ghs = dotN N (xs.getD c []) (dxs.getD c []) :=
  loop_adjoint_channels .periodization h0.reverse h1.reverse _ _ (levelAdj_per h0 h1 hL hLe hh1) C J N xs gls ghs hC hx hok hp

/-- non-vacuity: two channels, two levels, length 5, 4-tap filters in mode zero: bands of length 4 and 3 -/
example : PyrOKC (fun N => dwtCoeffLen N 4) 2 2 5 ([[1, 2, 3], [4, 5, 6]] : List (List Int))
    [[[1, 2, 3, 4], [5, 6, 7, 8]], [[1, 2, 3], [4, 5, 6]]] := by
  refine ⟨rfl, ?_, rfl, ?_, rfl, ?_⟩ <;> (intro c hc; interval_cases c <;> simp [dwtCoeffLen])

/-- the per-channel hypotheses are satisfiable: a three-channel stack of length-5 signals -/
example : ∀ c < ([[1, 2, 3, 4, 5], [0, 0, 1, 0, 0], [5, 4, 3, 2, 1]] : List (List Int)).length,
    (([[1, 2, 3, 4, 5], [0, 0, 1, 0, 0], [5, 4, 3, 2, 1]] : List (List Int)).getD c []).length = 5 := by
  intro c hc
  simp only [List.length_cons, List.length_nil] at hc
  interval_cases c <;> simp

end WV.C05W
