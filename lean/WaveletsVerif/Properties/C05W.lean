/-
  C05 — the one-dimensional autograd Functions on EVERY number of channels: `AFB1D.forward` / `AFB1D.backward` act channel by
  channel on `(C, L)` stacks (grouped convolution with the filter pair repeated `C` times, `lohi[:, ::2]` / `lohi[:, 1::2]` split),
  hence `AFB1D.backward` is the adjoint of `AFB1D.forward` on every channel of a stack of any size — in mode zero for every length
  and filter lengths, in periodization for every length (odd included) and even `L ≤ N + N % 2`.
  (The 2-D counterparts are `C07M.AFB2D_*_channels`.)
-/
import WaveletsVerif.Properties.C05U
import WaveletsVerif.Properties.C07M
import WaveletsVerif.Properties.C05V
namespace WV.C05W
open Finset WV WV.C05D WV.C05P WV.C05U WV.C07M WV.C05V
variable {R : Type} [CommRing R]

omit [CommRing R] in
theorem getD_map_single (xs : List (List R)) (c : Nat) (hc : c < xs.length) :
    ((xs.map fun ch => [ch]) : List (Img R)).getD c [] = [xs.getD c []] := by
  simp [List.getD_eq_getElem?_getD, List.getElem?_eq_getElem hc]

/-- **`AFB1D.forward` acts channel by channel**: if both one-filter analyses return on every channel (`lo`, `hi` their values),
the stack result is exactly the per-channel results -/
theorem AFB1D_forward_channels (m : Mode) (w0 w1 : List R) (xs : List (List R)) (lo hi : List R → List R)
    (h : ∀ c < xs.length, afb1dOne m w0 (xs.getD c []) = some (lo (xs.getD c [])) ∧
                           afb1dOne m w1 (xs.getD c []) = some (hi (xs.getD c []))) :
    AFB1D_forward m w0 w1 xs = some (tab xs.length fun c => lo (xs.getD c []), tab xs.length fun c => hi (xs.getD c [])) := by
  unfold AFB1D_forward
  rw [C07.afb1dT_total .W m w0 w1 (xs.map fun ch => [ch])
    (fun im => [lo (im.getD 0 [])]) (fun im => [hi (im.getD 0 [])])
    (by
      intro c hc
      have hc' : c < xs.length := by simpa using hc
      rw [getD_map_single xs c hc']
      obtain ⟨e0, e1⟩ := h c hc'
      constructor
      · simp only [alongO, alongWO, List.mapM_cons, List.mapM_nil, e0]; rfl
      · simp only [alongO, alongWO, List.mapM_cons, List.mapM_nil, e1]; rfl)]
  simp only [Option.bind_eq_bind, Option.bind_some, List.length_map]
  have hlen : (2 * xs.length) / 2 = xs.length := by omega
  rw [C07.map_tab, length_tab, hlen]
  congr 2
  · apply tab_ext rfl
    intro c hc
    rw [getD_tab]
    have h1 : 2 * c < 2 * xs.length := by omega
    have h2 : (2*c) % 2 = 0 := by omega
    have h3 : (2*c) / 2 = c := by omega
    simp only [h1, if_true, h2, h3, getD_map_single xs c hc]
    rfl
  · apply tab_ext rfl
    intro c hc
    rw [getD_tab]
    have h1 : 2 * c + 1 < 2 * xs.length := by omega
    have h2 : (2*c+1) % 2 = 1 := by omega
    have h3 : (2*c+1) / 2 = c := by omega
    simp only [h1, if_true, h2, h3, getD_map_single xs c hc, Nat.one_ne_zero, if_false]
    rfl

/-- **`AFB1D.backward` acts channel by channel**: per-channel synthesis with the analysis buffers, then the fold / crop -/
theorem AFB1D_backward_channels (m : Mode) (w0 w1 : List R) (N : Nat) (g0s g1s : List (List R)) (S : List R → List R → List R)
    (hlen : g1s.length = g0s.length)
    (h : ∀ c < g0s.length, sfb1dCh m w0 w1 (g0s.getD c []) (g1s.getD c []) = some (S (g0s.getD c []) (g1s.getD c []))) :
    AFB1D_backward m w0 w1 N g0s g1s = some (tab g0s.length fun c => foldCrop m N (S (g0s.getD c []) (g1s.getD c []))) := by
  unfold AFB1D_backward
  rw [sfb1dT_total .W m w0 w1 (g0s.map fun ch => [ch]) (g1s.map fun ch => [ch]) (fun a b => [S (a.getD 0 []) (b.getD 0 [])])
    (by simp [hlen])
    (by
      intro c hc
      have hc' : c < g0s.length := by simpa using hc
      rw [getD_map_single g0s c hc', getD_map_single g1s c (by omega)]
      have e := h c hc'
      simp only [List.getD_eq_getElem?_getD] at e
      simp [sfb1dImg, List.range, List.range.loop, e])]
  simp only [Option.bind_eq_bind, Option.bind_some, List.length_map]
  rw [C07.map_tab]
  congr 1
  apply tab_ext rfl
  intro c hc
  rw [getD_map_single g0s c hc, getD_map_single g1s c (by omega)]
  rfl

/-- **`AFB1D.backward` is the adjoint of `AFB1D.forward` on every number of channels** whenever one level is adjoint on one
channel (`C05U.LevelAdj`): channel `c` of the gradient pairs with channel `c` of the signal exactly as the bands of channel `c` pair
with their cotangents -/
theorem AFB1D_adjoint_channels (m : Mode) (w0 w1 : List R) (Lvl : Nat → Prop) (K : Nat → Nat) (hA : LevelAdj m w0 w1 Lvl K)
    (N : Nat) (hN : Lvl N) (xs g0s g1s : List (List R)) (hl0 : g0s.length = xs.length) (hl1 : g1s.length = xs.length)
    (hx : ∀ c < xs.length, (xs.getD c []).length = N)
    (hg : ∀ c < xs.length, (g0s.getD c []).length = K N ∧ (g1s.getD c []).length = K N) :
    ∃ los his dxs, AFB1D_forward m w0 w1 xs = some (los, his) ∧ AFB1D_backward m w0 w1 N g0s g1s = some dxs ∧
      ∀ c < xs.length, dotN (K N) (los.getD c []) (g0s.getD c []) + dotN (K N) (his.getD c []) (g1s.getD c [])
        = dotN N (xs.getD c []) (dxs.getD c []) := by
  classical
  -- per-channel values (by choice from the one-channel statement)
  have hv : ∀ x : List R, x.length = N → ∃ lo hi, afb1dOne m w0 x = some lo ∧ afb1dOne m w1 x = some hi := by
    intro x hx'
    obtain ⟨lo, hi, e0, e1, _⟩ := hA x (by rw [hx']; exact hN)
    exact ⟨lo, hi, e0, e1⟩
  let lo : List R → List R := fun x => (afb1dOne m w0 x).getD []
  let hi : List R → List R := fun x => (afb1dOne m w1 x).getD []
  let S : List R → List R → List R := fun a b => (sfb1dCh m w0 w1 a b).getD []
  have hlo : ∀ c < xs.length, afb1dOne m w0 (xs.getD c []) = some (lo (xs.getD c [])) ∧
      afb1dOne m w1 (xs.getD c []) = some (hi (xs.getD c [])) := by
    intro c hc
    obtain ⟨a, b, e0, e1⟩ := hv _ (hx c hc)
    exact ⟨by simp only [lo, e0, Option.getD_some], by simp only [hi, e1, Option.getD_some]⟩
  have hS : ∀ c < g0s.length, sfb1dCh m w0 w1 (g0s.getD c []) (g1s.getD c []) = some (S (g0s.getD c []) (g1s.getD c [])) := by
    intro c hc
    have hc' : c < xs.length := by omega
    obtain ⟨_, _, _, _, _, _, hadj⟩ := hA (xs.getD c []) (by rw [hx c hc']; exact hN)
    obtain ⟨d, es, _⟩ := hadj (g0s.getD c []) (g1s.getD c []) (by rw [hx c hc']; exact (hg c hc').1) (by rw [hx c hc']; exact (hg c hc').2)
    simp only [S, es, Option.getD_some]
  refine ⟨_, _, _, AFB1D_forward_channels m w0 w1 xs lo hi hlo,
    AFB1D_backward_channels m w0 w1 N g0s g1s S (by omega) hS, ?_⟩
  intro c hc
  rw [getD_tab, getD_tab, getD_tab, if_pos hc, if_pos hc, if_pos (by omega)]
  obtain ⟨a, b, e0, e1, _, _, hadj⟩ := hA (xs.getD c []) (by rw [hx c hc]; exact hN)
  obtain ⟨d, es, _, hid⟩ := hadj (g0s.getD c []) (g1s.getD c []) (by rw [hx c hc]; exact (hg c hc).1) (by rw [hx c hc]; exact (hg c hc).2)
  have ea : lo (xs.getD c []) = a := by simp only [lo, e0, Option.getD_some]
  have eb : hi (xs.getD c []) = b := by simp only [hi, e1, Option.getD_some]
  have ed : S (g0s.getD c []) (g1s.getD c []) = d := by simp only [S, es, Option.getD_some]
  rw [ea, eb, ed]
  rw [hx c hc] at hid
  exact hid

/-- mode zero, every channel count, every length and filter lengths -/
theorem AFB1D_zero_adjoint_channels (w0 w1 : List R) (hL : 2 ≤ w0.length) (hw : w1.length = w0.length) (N : Nat) (hN : 1 ≤ N)
    (xs g0s g1s : List (List R)) (hl0 : g0s.length = xs.length) (hl1 : g1s.length = xs.length)
    (hx : ∀ c < xs.length, (xs.getD c []).length = N)
    (hg : ∀ c < xs.length, (g0s.getD c []).length = dwtCoeffLen N w0.length ∧ (g1s.getD c []).length = dwtCoeffLen N w0.length) :
    ∃ los his dxs, AFB1D_forward .zero w0 w1 xs = some (los, his) ∧ AFB1D_backward .zero w0 w1 N g0s g1s = some dxs ∧
      ∀ c < xs.length, dotN (dwtCoeffLen N w0.length) (los.getD c []) (g0s.getD c [])
          + dotN (dwtCoeffLen N w0.length) (his.getD c []) (g1s.getD c [])
        = dotN N (xs.getD c []) (dxs.getD c []) :=
  AFB1D_adjoint_channels .zero w0 w1 _ _ (levelAdj_zero w0 w1 hL hw) N hN xs g0s g1s hl0 hl1 hx hg

/-- periodization, every channel count, every length (odd included), even filters that fit the even-extended signal -/
theorem AFB1D_per_adjoint_channels (h0 h1 : List R) (hL : 2 ≤ h0.length) (hLe : h0.length % 2 = 0) (hh1 : h1.length = h0.length)
    (N : Nat) (hN : 1 ≤ N) (hfit : h0.length ≤ N + N % 2)
    (xs g0s g1s : List (List R)) (hl0 : g0s.length = xs.length) (hl1 : g1s.length = xs.length)
    (hx : ∀ c < xs.length, (xs.getD c []).length = N)
    (hg : ∀ c < xs.length, (g0s.getD c []).length = (N + N % 2) / 2 ∧ (g1s.getD c []).length = (N + N % 2) / 2) :
    ∃ los his dxs, AFB1D_forward .periodization h0.reverse h1.reverse xs = some (los, his) ∧
      AFB1D_backward .periodization h0.reverse h1.reverse N g0s g1s = some dxs ∧
      ∀ c < xs.length, dotN ((N + N % 2) / 2) (los.getD c []) (g0s.getD c []) + dotN ((N + N % 2) / 2) (his.getD c []) (g1s.getD c [])
        = dotN N (xs.getD c []) (dxs.getD c []) :=
  AFB1D_adjoint_channels .periodization h0.reverse h1.reverse _ _ (levelAdj_per h0 h1 hL hLe hh1) N ⟨hN, hfit⟩ xs g0s g1s hl0 hl1 hx hg


/-! ### the synthesis Function on `C` channels -/

/-- **`SFB1D.forward` acts channel by channel** -/
theorem SFB1D_forward_channels (m : Mode) (g0 g1 : List R) (los his : List (List R)) (S : List R → List R → List R)
    (hlen : his.length = los.length)
    (h : ∀ c < los.length, sfb1dCh m g0 g1 (los.getD c []) (his.getD c []) = some (S (los.getD c []) (his.getD c []))) :
    SFB1D_forward m g0 g1 los his = some (tab los.length fun c => S (los.getD c []) (his.getD c [])) := by
  unfold SFB1D_forward
  rw [sfb1dT_total .W m g0 g1 (los.map fun ch => [ch]) (his.map fun ch => [ch]) (fun a b => [S (a.getD 0 []) (b.getD 0 [])])
    (by simp [hlen])
    (by
      intro c hc
      have hc' : c < los.length := by simpa using hc
      rw [getD_map_single los c hc', getD_map_single his c (by omega)]
      have e := h c hc'
      simp only [List.getD_eq_getElem?_getD] at e
      simp [sfb1dImg, List.range, List.range.loop, e])]
  simp only [Option.bind_eq_bind, Option.bind_some, List.length_map]
  rw [C07.map_tab]
  congr 1
  apply tab_ext rfl
  intro c hc
  rw [getD_map_single los c hc, getD_map_single his c (by omega)]
  rfl

/-- **`SFB1D.backward` is the adjoint of `SFB1D.forward` on every number of channels** whenever one level is adjoint on one
channel (`C05V.LevelAdjS`) -/
theorem SFB1D_adjoint_channels (m : Mode) (g0 g1 : List R) (Fit : Nat → Prop) (Out : Nat → Nat) (hA : LevelAdjS m g0 g1 Fit Out)
    (K : Nat) (hK : Fit K) (los his dys : List (List R)) (hl0 : his.length = los.length) (hl1 : dys.length = los.length)
    (hb : ∀ c < los.length, (los.getD c []).length = K ∧ (his.getD c []).length = K)
    (hd : ∀ c < los.length, (dys.getD c []).length = Out K) :
    ∃ ys dlos dhis, SFB1D_forward m g0 g1 los his = some ys ∧ SFB1D_backward m g0 g1 dys = some (dlos, dhis) ∧
      ∀ c < los.length, dotN (Out K) (dys.getD c []) (ys.getD c [])
        = dotN K (dlos.getD c []) (los.getD c []) + dotN K (dhis.getD c []) (his.getD c []) := by
  classical
  let S : List R → List R → List R := fun a b => (sfb1dCh m g0 g1 a b).getD []
  let lo : List R → List R := fun x => (afb1dOne m g0 x).getD []
  let hi : List R → List R := fun x => (afb1dOne m g1 x).getD []
  have hall : ∀ c < los.length, ∃ y dlo dhi, sfb1dCh m g0 g1 (los.getD c []) (his.getD c []) = some y ∧
      afb1dOne m g0 (dys.getD c []) = some dlo ∧ afb1dOne m g1 (dys.getD c []) = some dhi ∧
      dotN (Out K) (dys.getD c []) y = dotN K dlo (los.getD c []) + dotN K dhi (his.getD c []) := by
    intro c hc
    obtain ⟨y, dlo, dhi, e1, e2, e3, _, _, _, hid⟩ := hA (los.getD c []) (his.getD c []) (dys.getD c []) (by rw [(hb c hc).1]; exact hK)
      (by rw [(hb c hc).1, (hb c hc).2]) (by rw [(hb c hc).1]; exact hd c hc)
    rw [(hb c hc).1] at hid
    exact ⟨y, dlo, dhi, e1, e2, e3, hid⟩
  have hS : ∀ c < los.length, sfb1dCh m g0 g1 (los.getD c []) (his.getD c []) = some (S (los.getD c []) (his.getD c [])) := by
    intro c hc
    obtain ⟨y, _, _, e1, _⟩ := hall c hc
    simp only [S, e1, Option.getD_some]
  have hB : ∀ c < dys.length, afb1dOne m g0 (dys.getD c []) = some (lo (dys.getD c [])) ∧
      afb1dOne m g1 (dys.getD c []) = some (hi (dys.getD c [])) := by
    intro c hc
    obtain ⟨_, dlo, dhi, _, e2, e3, _⟩ := hall c (by omega)
    exact ⟨by simp only [lo, e2, Option.getD_some], by simp only [hi, e3, Option.getD_some]⟩
  refine ⟨_, _, _, SFB1D_forward_channels m g0 g1 los his S hl0 hS,
    by rw [SFB1D_backward_eq]; exact AFB1D_forward_channels m g0 g1 dys lo hi hB, ?_⟩
  intro c hc
  rw [getD_tab, getD_tab, getD_tab, if_pos hc, if_pos (by omega), if_pos (by omega)]
  obtain ⟨y, dlo, dhi, e1, e2, e3, hid⟩ := hall c hc
  have ey : S (los.getD c []) (his.getD c []) = y := by simp only [S, e1, Option.getD_some]
  have ea : lo (dys.getD c []) = dlo := by simp only [lo, e2, Option.getD_some]
  have eb : hi (dys.getD c []) = dhi := by simp only [hi, e3, Option.getD_some]
  rw [ey, ea, eb]
  exact hid

/-- mode zero, every channel count -/
theorem SFB1D_zero_adjoint_channels (g0 g1 : List R) (hL : 2 ≤ g0.length) (hg : g1.length = g0.length) (K : Nat) (hK : 1 ≤ K)
    (hfit : g0.length ≤ 2 * K + 1) (los his dys : List (List R)) (hl0 : his.length = los.length) (hl1 : dys.length = los.length)
    (hb : ∀ c < los.length, (los.getD c []).length = K ∧ (his.getD c []).length = K)
    (hd : ∀ c < los.length, (dys.getD c []).length = 2 * K + 2 - g0.length) :
    ∃ ys dlos dhis, SFB1D_forward .zero g0 g1 los his = some ys ∧ SFB1D_backward .zero g0 g1 dys = some (dlos, dhis) ∧
      ∀ c < los.length, dotN (2 * K + 2 - g0.length) (dys.getD c []) (ys.getD c [])
        = dotN K (dlos.getD c []) (los.getD c []) + dotN K (dhis.getD c []) (his.getD c []) :=
  SFB1D_adjoint_channels .zero g0 g1 _ _ (levelAdjS_zero g0 g1 hL hg) K ⟨hK, hfit⟩ los his dys hl0 hl1 hb hd

/-- periodization, every channel count, any even-length synthesis filters with `L ≤ 2K` -/
theorem SFB1D_per_adjoint_channels (g0 g1 : List R) (hL : 2 ≤ g0.length) (hLe : g0.length % 2 = 0) (hg : g1.length = g0.length)
    (K : Nat) (hfit : g0.length ≤ 2 * K) (los his dys : List (List R)) (hl0 : his.length = los.length) (hl1 : dys.length = los.length)
    (hb : ∀ c < los.length, (los.getD c []).length = K ∧ (his.getD c []).length = K)
    (hd : ∀ c < los.length, (dys.getD c []).length = 2 * K) :
    ∃ ys dlos dhis, SFB1D_forward .periodization g0 g1 los his = some ys ∧ SFB1D_backward .periodization g0 g1 dys = some (dlos, dhis) ∧
      ∀ c < los.length, dotN (2 * K) (dys.getD c []) (ys.getD c [])
        = dotN K (dlos.getD c []) (los.getD c []) + dotN K (dhis.getD c []) (his.getD c []) :=
  SFB1D_adjoint_channels .periodization g0 g1 _ _ (levelAdjS_per g0 g1 hL hLe hg) K hfit los his dys hl0 hl1 hb hd

/-- the per-channel hypotheses are satisfiable: a three-channel stack of length-5 signals -/
example : ∀ c < ([[1, 2, 3, 4, 5], [0, 0, 1, 0, 0], [5, 4, 3, 2, 1]] : List (List Int)).length,
    (([[1, 2, 3, 4, 5], [0, 0, 1, 0, 0], [5, 4, 3, 2, 1]] : List (List Int)).getD c []).length = 5 := by
  intro c hc
  simp only [List.length_cons, List.length_nil] at hc
  interval_cases c <;> simp

end WV.C05W
