/-
  C16 — the float32-accuracy bound as a theorem under the standard model of floating-point arithmetic.

  Standard model: every multiplication and every addition returns the exact result times `(1 + δ)` with `|δ| ≤ u`
  (`u = eps/2`; no overflow / underflow).  Then
  * a dot product of `n` terms evaluated in sequence differs from the exact one by at most
    `((1+u)^(n+1) − 1) · Σ|a_k||x_k|` (`flDot_err`);
  * every output sample of the strided correlation of `afb1d` computed that way — whatever the individual rounding errors —
    differs from the exact sample by at most `γ·‖w‖₁·max|x|`, `γ = (1+u)^(L+1) − 1` (`flCorr_err`, `afb1dOneFl_err`);
    padding moves samples and rounds nothing;
  * perturbing the input by `E` perturbs the exact output by at most `‖w‖₁·E` (`afb1dOne_close`);
  * through `J` levels of the pyramid every coefficient of every band computed with ANY one-level maps that meet the
    one-level bound differs from the exact `wavedec` coefficient (= the module `DWT1DForward`, C01) by at most
    `((1+γ)^J − 1)·g^J·max|x|`, `g = max(‖h0‖₁, ‖h1‖₁, 1)` (`wavedec_fl_err`) — "a small multiple of eps times the gain times
    the largest input magnitude", the bound the float32-vs-float64 oracle measures against.
-/
import WaveletsVerif.Properties.C16G
namespace WV.C16R
open WV WV.C16 WV.C16G Finset

/-! ### a dot product in floating point -/

/-- sequential evaluation of `Σ a_k x_k` with one rounding per product (`δ`) and one per addition (`ε`) -/
noncomputable def flDot (a x δ ε : Nat → ℝ) : Nat → ℝ
  | 0 => 0
  | k+1 => (flDot a x δ ε k + a k * x k * (1 + δ k)) * (1 + ε k)

theorem pow_mono_u (u : ℝ) (hu : 0 ≤ u) {m n : Nat} (h : m ≤ n) : (1 + u) ^ m ≤ (1 + u) ^ n :=
  pow_le_pow_right₀ (by linarith) h

theorem flDot_err (a x δ ε : Nat → ℝ) (u : ℝ) (hu : 0 ≤ u) (hδ : ∀ k, |δ k| ≤ u) (hε : ∀ k, |ε k| ≤ u) (n : Nat) :
    |flDot a x δ ε n - ∑ k ∈ range n, a k * x k| ≤ ((1 + u) ^ (n + 1) - 1) * ∑ k ∈ range n, |a k * x k| := by
  induction n with
  | zero => simp [flDot]
  | succ n ih =>
    rw [Finset.sum_range_succ, Finset.sum_range_succ]
    set f := flDot a x δ ε n with hf
    set S := ∑ k ∈ range n, a k * x k with hS
    set T := ∑ k ∈ range n, |a k * x k| with hT
    set p := a n * x n with hp
    have hT0 : 0 ≤ T := Finset.sum_nonneg (fun _ _ => abs_nonneg _)
    have hST : |S| ≤ T := Finset.abs_sum_le_sum_abs _ _
    have hc0 : 0 ≤ (1 + u) ^ (n + 1) - 1 := by
      have := pow_mono_u u hu (Nat.zero_le (n + 1)); simpa using this
    have e : flDot a x δ ε (n + 1) - (S + p) = (f - S) * (1 + ε n) + S * ε n + p * ((1 + δ n) * (1 + ε n) - 1) := by
      simp only [flDot]; ring
    rw [e]
    have b1 : |(f - S) * (1 + ε n)| ≤ ((1 + u) ^ (n + 1) - 1) * T * (1 + u) := by
      rw [abs_mul]
      have h1 : |1 + ε n| ≤ 1 + u := by
        calc |1 + ε n| ≤ |(1:ℝ)| + |ε n| := abs_add_le _ _
          _ ≤ 1 + u := by rw [abs_one]; linarith [hε n]
      exact mul_le_mul ih h1 (abs_nonneg _) (mul_nonneg hc0 hT0)
    have b2 : |S * ε n| ≤ T * u := by
      rw [abs_mul]; exact mul_le_mul hST (hε n) (abs_nonneg _) hT0
    have b3 : |p * ((1 + δ n) * (1 + ε n) - 1)| ≤ |p| * ((1 + u) ^ 2 - 1) := by
      rw [abs_mul]
      apply mul_le_mul_of_nonneg_left _ (abs_nonneg _)
      have : (1 + δ n) * (1 + ε n) - 1 = δ n + ε n + δ n * ε n := by ring
      rw [this]
      calc |δ n + ε n + δ n * ε n| ≤ |δ n + ε n| + |δ n * ε n| := abs_add_le _ _
        _ ≤ (|δ n| + |ε n|) + |δ n| * |ε n| := by rw [abs_mul]; linarith [abs_add_le (δ n) (ε n)]
        _ ≤ (u + u) + u * u := by
            have := mul_le_mul (hδ n) (hε n) (abs_nonneg _) hu
            linarith [hδ n, hε n]
        _ = (1 + u) ^ 2 - 1 := by ring
    have h2 : (1 + u) ^ 2 - 1 ≤ (1 + u) ^ (n + 1 + 1) - 1 := by
      have := pow_mono_u u hu (show 2 ≤ n + 1 + 1 by omega); linarith
    calc |(f - S) * (1 + ε n) + S * ε n + p * ((1 + δ n) * (1 + ε n) - 1)|
        ≤ |(f - S) * (1 + ε n)| + |S * ε n| + |p * ((1 + δ n) * (1 + ε n) - 1)| := abs_add_three _ _ _
      _ ≤ ((1 + u) ^ (n + 1) - 1) * T * (1 + u) + T * u + |p| * ((1 + u) ^ 2 - 1) := by linarith
      _ ≤ ((1 + u) ^ (n + 1) - 1) * T * (1 + u) + T * u + |p| * ((1 + u) ^ (n + 1 + 1) - 1) := by
          have := mul_le_mul_of_nonneg_left h2 (abs_nonneg p); linarith
      _ = ((1 + u) ^ (n + 1 + 1) - 1) * (T + |p|) := by ring


/-! ### closeness of signals; padding rounds nothing -/

/-- same length and sample-wise within `E` -/
def Close (E : ℝ) (x y : List ℝ) : Prop := x.length = y.length ∧ ∀ i, |getN x i - getN y i| ≤ E

theorem Close.nonneg {E : ℝ} {x y : List ℝ} (h : Close E x y) : 0 ≤ E := le_trans (abs_nonneg _) (h.2 0)

theorem close_refl (x : List ℝ) : Close 0 x x := ⟨rfl, fun i => by simp⟩

theorem Close.mono {E E' : ℝ} {x y : List ℝ} (h : Close E x y) (hE : E ≤ E') : Close E' x y :=
  ⟨h.1, fun i => le_trans (h.2 i) hE⟩

theorem getZ_close {E : ℝ} {x y : List ℝ} (h : Close E x y) (t : Int) : |getZ x t - getZ y t| ≤ E := by
  unfold getZ
  split
  · exact h.2 t.toNat
  · simpa using h.nonneg

theorem close_tab {E : ℝ} (hE : 0 ≤ E) (n : Nat) (f g : Nat → ℝ) (hfg : ∀ i < n, |f i - g i| ≤ E) : Close E (tab n f) (tab n g) := by
  refine ⟨by simp, fun i => ?_⟩
  rw [getN_tab, getN_tab]
  split
  · exact hfg i (by assumption)
  · simpa using hE

theorem close_zeroPad {E : ℝ} {x y : List ℝ} (h : Close E x y) (l r : Nat) : Close E (zeroPad x l r) (zeroPad y l r) := by
  unfold zeroPad; rw [h.1]
  exact close_tab h.nonneg _ _ _ (fun i _ => getZ_close h _)

theorem close_padIdx {E : ℝ} {x y : List ℝ} (h : Close E x y) (idx : Int → Int → Int) (l r : Nat) :
    Close E (padIdx idx x l r) (padIdx idx y l r) := by
  unfold padIdx; rw [h.1]
  exact close_tab h.nonneg _ _ _ (fun i _ => getZ_close h _)

/-- the exact correlation is Lipschitz with constant `‖w‖₁` -/
theorem corr_close {E : ℝ} (w : List ℝ) {x y : List ℝ} (h : Close E x y) (s d : Nat) :
    Close (l1 w * E) (corr w x s d) (corr w y s d) := by
  unfold corr; rw [h.1]
  apply close_tab (mul_nonneg (l1_nonneg w) h.nonneg)
  intro k _
  rw [sumN_eq, sumN_eq, ← Finset.sum_sub_distrib]
  have : ∀ j ∈ range w.length, getN w j * getN x (s * k + d * j) - getN w j * getN y (s * k + d * j)
      = getN w j * (getN x (s * k + d * j) - getN y (s * k + d * j)) := fun j _ => by ring
  rw [Finset.sum_congr rfl this]
  exact abs_dot_le w.length (fun j => getN w j) (fun j => getN x (s * k + d * j) - getN y (s * k + d * j)) E (fun j _ => h.2 _)

/-! ### the strided correlation in floating point -/

/-- `conv1d` evaluated in floating point: output sample `k` is the rounded dot product with its own rounding errors -/
noncomputable def flCorr (w x : List ℝ) (s d : Nat) (δ ε : Nat → Nat → ℝ) : List ℝ :=
  tab (corrLen x.length w.length s d) fun k =>
    flDot (fun j => getN w j) (fun j => getN x (s * k + d * j)) (δ k) (ε k) w.length

/-- the relative error constant of an `L`-term dot product -/
noncomputable def gam (u : ℝ) (L : Nat) : ℝ := (1 + u) ^ (L + 1) - 1

theorem gam_nonneg (u : ℝ) (hu : 0 ≤ u) (L : Nat) : 0 ≤ gam u L := by
  unfold gam; have := pow_mono_u u hu (Nat.zero_le (L + 1)); simpa using this

/-- **one rounded correlation**: every sample is within `γ·‖w‖₁·M` of the exact one, whatever the rounding errors -/
theorem flCorr_err (w x : List ℝ) (s d : Nat) (δ ε : Nat → Nat → ℝ) (u M : ℝ) (hu : 0 ≤ u)
    (hδ : ∀ k j, |δ k j| ≤ u) (hε : ∀ k j, |ε k j| ≤ u) (hx : Bdd M x) :
    Close (gam u w.length * (l1 w * M)) (flCorr w x s d δ ε) (corr w x s d) := by
  unfold flCorr corr
  apply close_tab (mul_nonneg (gam_nonneg u hu _) (mul_nonneg (l1_nonneg w) hx.nonneg))
  intro k _
  rw [sumN_eq]
  refine le_trans (flDot_err _ _ (δ k) (ε k) u hu (hδ k) (hε k) w.length) ?_
  apply mul_le_mul_of_nonneg_left _ (gam_nonneg u hu _)
  unfold l1
  rw [Finset.sum_mul]
  apply Finset.sum_le_sum; intro j _
  rw [abs_mul]
  exact mul_le_mul_of_nonneg_left (hx _) (abs_nonneg _)

/-- the padded signal `afb1d` correlates with in the extension modes (`none` = the call raises) -/
def padded (mode : Mode) (L : Nat) (x : List ℝ) : Option (List ℝ) :=
  let N := x.length
  if L < 2 ∨ N < 1 then none else
  let p := 2 * (dwtCoeffLen N L - 1) + L - N
  match mode with
  | .zero => some (zeroPad (if p % 2 = 1 then zeroPad x 0 1 else x) (p/2) (p/2))
  | .symmetric => some (padIdx symIdx x (p/2) ((p+1)/2))
  | .periodic => some (padIdx perIdx x (p/2) ((p+1)/2))
  | .reflect => if p/2 < N ∧ (p+1)/2 < N then some (padIdx reflIdx x (p/2) ((p+1)/2)) else none
  | _ => none

theorem afb1dOne_padded (mode : Mode) (hm : mode = .zero ∨ mode = .symmetric ∨ mode = .periodic ∨ mode = .reflect) (w x : List ℝ) :
    afb1dOne mode w x = (padded mode w.length x).map fun xp => corr w xp 2 1 := by
  by_cases hg : w.length < 2 ∨ x.length < 1
  · simp only [afb1dOne, padded, hg, if_true, Option.map_none]
  · rcases hm with rfl | rfl | rfl | rfl <;> simp only [afb1dOne, padded, hg, if_false, Option.map_some]
    split <;> simp

/-- `afb1d` with its convolution evaluated in floating point -/
noncomputable def afb1dOneFl (mode : Mode) (w x : List ℝ) (δ ε : Nat → Nat → ℝ) : Option (List ℝ) :=
  (padded mode w.length x).map fun xp => flCorr w xp 2 1 δ ε

theorem padded_bdd (mode : Mode) (L : Nat) (x xp : List ℝ) (M : ℝ) (hx : Bdd M x) (h : padded mode L x = some xp) : Bdd M xp := by
  by_cases hg : L < 2 ∨ x.length < 1
  · simp only [padded, hg, if_true, reduceCtorEq] at h
  · cases mode <;> simp only [padded, hg, if_false, Option.some.injEq, reduceCtorEq] at h
    · subst h
      apply bdd_zeroPad
      split
      · exact bdd_zeroPad hx 0 1
      · exact hx
    · subst h; exact bdd_padIdx hx _ _ _
    · split at h
      · simp only [Option.some.injEq] at h; subst h; exact bdd_padIdx hx _ _ _
      · exact absurd h (by simp)
    · subst h; exact bdd_padIdx hx _ _ _

theorem padded_close (mode : Mode) (L : Nat) (x y xp : List ℝ) (E : ℝ) (hxy : Close E x y) (h : padded mode L x = some xp) :
    ∃ yp, padded mode L y = some yp ∧ Close E xp yp := by
  by_cases hg : L < 2 ∨ x.length < 1
  · simp only [padded, hg, if_true, reduceCtorEq] at h
  · cases mode <;> simp only [padded, hg, if_false, Option.some.injEq, reduceCtorEq, ← hxy.1] at h ⊢
    · subst h
      refine ⟨_, rfl, ?_⟩
      apply close_zeroPad
      split
      · exact close_zeroPad hxy 0 1
      · exact hxy
    · subst h; exact ⟨_, rfl, close_padIdx hxy _ _ _⟩
    · split at h
      · next hc =>
        rw [if_pos hc]
        simp only [Option.some.injEq] at h ⊢; subst h; exact ⟨_, rfl, close_padIdx hxy _ _ _⟩
      · exact absurd h (by simp)
    · subst h; exact ⟨_, rfl, close_padIdx hxy _ _ _⟩

/-- **one level in floating point**: whenever the exact model returns `y`, the rounded one returns `ỹ` within
`γ·‖w‖₁·max|x|` of it, for every choice of the rounding errors -/
theorem afb1dOneFl_err (mode : Mode) (hm : mode = .zero ∨ mode = .symmetric ∨ mode = .periodic ∨ mode = .reflect)
    (w x y : List ℝ) (δ ε : Nat → Nat → ℝ) (u M : ℝ) (hu : 0 ≤ u) (hδ : ∀ k j, |δ k j| ≤ u) (hε : ∀ k j, |ε k j| ≤ u)
    (hx : Bdd M x) (hy : afb1dOne mode w x = some y) :
    ∃ y', afb1dOneFl mode w x δ ε = some y' ∧ Close (gam u w.length * (l1 w * M)) y' y := by
  rw [afb1dOne_padded mode hm] at hy
  unfold afb1dOneFl
  cases hp : padded mode w.length x with
  | none => rw [hp] at hy; exact absurd hy (by simp)
  | some xp =>
    rw [hp] at hy
    simp only [Option.map_some, Option.some.injEq] at hy ⊢
    subst hy
    exact ⟨_, rfl, flCorr_err w xp 2 1 δ ε u M hu hδ hε (padded_bdd mode _ x xp M hx hp)⟩

/-- **the exact level is Lipschitz**: inputs within `E` give outputs within `‖w‖₁·E` (and raise together) -/
theorem afb1dOne_close (mode : Mode) (hm : mode = .zero ∨ mode = .symmetric ∨ mode = .periodic ∨ mode = .reflect)
    (w x x' y : List ℝ) (E : ℝ) (hxx : Close E x x') (hy : afb1dOne mode w x = some y) :
    ∃ y', afb1dOne mode w x' = some y' ∧ Close (l1 w * E) y y' := by
  rw [afb1dOne_padded mode hm] at hy ⊢
  cases hp : padded mode w.length x with
  | none => rw [hp] at hy; exact absurd hy (by simp)
  | some xp =>
    rw [hp] at hy
    obtain ⟨yp, hyp, hc⟩ := padded_close mode w.length x x' xp E hxx hp
    rw [hyp]
    simp only [Option.map_some, Option.some.injEq] at hy ⊢
    subst hy
    exact ⟨_, rfl, corr_close w hc 2 1⟩


/-! ### the pyramid in floating point -/

section pyramid
variable (m : Mode) (hm : m = .zero ∨ m = .symmetric ∨ m = .periodic)

include hm in
theorem dwt_close (h x x' : List ℝ) (hL : 2 ≤ h.length) (hN : 1 ≤ x.length) (E : ℝ) (hxx : Close E x x') :
    Close (l1 h * E) (Spec.dwt m h x) (Spec.dwt m h x') := by
  have e1 := C01.modeOK_of (R := ℝ) m hm h x hL hN
  have e2 := C01.modeOK_of (R := ℝ) m hm h x' hL (by rw [← hxx.1]; exact hN)
  obtain ⟨y', hy', hc⟩ := afb1dOne_close m (by rcases hm with h1 | h1 | h1 <;> simp [h1]) h.reverse x x' _ E hxx e1
  rw [e2] at hy'
  simp only [Option.some.injEq] at hy'
  rw [← hy', l1_reverse] at hc
  exact hc

/-- a one-level map that meets the floating-point bound against the exact level `Spec.dwt m h` -/
def ApproxLevel (h : List ℝ) (γ : ℝ) (D : List ℝ → List ℝ) : Prop :=
  ∀ (x : List ℝ) (M : ℝ), 1 ≤ x.length → Bdd M x → Close (γ * (l1 h * M)) (D x) (Spec.dwt m h x)

include hm in
/-- **the model's `afb1d` with a rounded convolution is such a map**, `γ = (1+u)^(L+1) − 1`, whatever the rounding errors -/
theorem flLevel_approx (h : List ℝ) (hL : 2 ≤ h.length) (δ ε : Nat → Nat → ℝ) (u : ℝ) (hu : 0 ≤ u)
    (hδ : ∀ k j, |δ k j| ≤ u) (hε : ∀ k j, |ε k j| ≤ u) :
    ApproxLevel m h (gam u h.length) (fun x => (afb1dOneFl m h.reverse x δ ε).getD []) := by
  intro x M hN hx
  have e1 := C01.modeOK_of (R := ℝ) m hm h x hL hN
  obtain ⟨y', hy', hc⟩ := afb1dOneFl_err m (by rcases hm with h1 | h1 | h1 <;> simp [h1]) h.reverse x _ δ ε u M hu hδ hε hx e1
  show Close _ ((afb1dOneFl m h.reverse x δ ε).getD []) _
  rw [hy']
  simpa [l1_reverse] using hc

/-- `wavedec` computed with level-dependent approximate one-level maps -/
def flWavedec (D0 D1 : Nat → List ℝ → List ℝ) : Nat → Nat → List ℝ → List ℝ × List (List ℝ)
  | 0, _, x => (x, [])
  | J+1, j, x =>
    let r := flWavedec D0 D1 J (j+1) (D0 j x)
    (r.1, D1 j x :: r.2)

/-- the error after `J` levels when the input is already off by `E` -/
noncomputable def errJ (g γ M E : ℝ) (J : Nat) : ℝ := g ^ J * ((1 + γ) ^ J * (M + E) - M)

theorem errJ_step (g γ M E : ℝ) (J : Nat) : errJ g γ (g * M) (g * ((1 + γ) * (M + E) - M)) J = errJ g γ M E (J + 1) := by
  unfold errJ; ring

theorem errJ_mono (g γ M E : ℝ) (hg : 1 ≤ g) (hγ : 0 ≤ γ) (hM : 0 ≤ M) (hE : 0 ≤ E) (J : Nat) :
    errJ g γ M E J ≤ errJ g γ M E (J + 1) ∧ 0 ≤ errJ g γ M E J := by
  unfold errJ
  have h1 : (1:ℝ) ≤ (1 + γ) ^ J := one_le_pow₀ (by linarith)
  have hg0 : (0:ℝ) ≤ g ^ J := pow_nonneg (by linarith) J
  have hA : 0 ≤ (1 + γ) ^ J * (M + E) - M := by nlinarith
  have hB : (1 + γ) ^ J * (M + E) - M ≤ (1 + γ) ^ (J + 1) * (M + E) - M := by
    rw [pow_succ]; nlinarith
  refine ⟨?_, mul_nonneg hg0 hA⟩
  rw [pow_succ g J]
  have hB0 : 0 ≤ (1 + γ) ^ (J + 1) * (M + E) - M := le_trans hA hB
  calc g ^ J * ((1 + γ) ^ J * (M + E) - M) ≤ g ^ J * ((1 + γ) ^ (J + 1) * (M + E) - M) := mul_le_mul_of_nonneg_left hB hg0
    _ ≤ g ^ J * g * ((1 + γ) ^ (J + 1) * (M + E) - M) := by
        have : g ^ J ≤ g ^ J * g := by nlinarith
        exact mul_le_mul_of_nonneg_right this hB0

include hm in
/-- **J levels in floating point**: with one-level maps that meet the one-level bound `γ`, every coefficient of every
band differs from the exact `wavedec` coefficient by at most `g^J·((1+γ)^J·(M+E) − M)` when the input is within `E` of an
exact signal bounded by `M` -/
theorem wavedec_fl_err_gen (h0 h1 : List ℝ) (hL0 : 2 ≤ h0.length) (hL1 : 2 ≤ h1.length) (g γ : ℝ)
    (hg0 : l1 h0 ≤ g) (hg1 : l1 h1 ≤ g) (hg : 1 ≤ g) (hγ : 0 ≤ γ) (D0 D1 : Nat → List ℝ → List ℝ)
    (hD0 : ∀ j, ApproxLevel m h0 γ (D0 j)) (hD1 : ∀ j, ApproxLevel m h1 γ (D1 j)) :
    ∀ (J j : Nat) (x x' : List ℝ) (M E : ℝ), 1 ≤ x.length → Bdd M x → Close E x' x →
      Close (errJ g γ M E J) (flWavedec D0 D1 J j x').1 (Spec.wavedec m h0 h1 J x).1 ∧
      (flWavedec D0 D1 J j x').2.length = (Spec.wavedec m h0 h1 J x).2.length ∧
      ∀ i, Close (errJ g γ M E J) ((flWavedec D0 D1 J j x').2.getD i []) ((Spec.wavedec m h0 h1 J x).2.getD i [])
  | 0, j, x, x', M, E, _, _, hc => by
    have e : errJ g γ M E 0 = E := by unfold errJ; ring
    simp only [flWavedec, Spec.wavedec, e]
    exact ⟨hc, trivial, fun i => by simpa using (close_refl ([] : List ℝ)).mono hc.nonneg⟩
  | J+1, j, x, x', M, E, hN, hx, hc => by
    have hM := hx.nonneg
    have hE := hc.nonneg
    have hg' : 0 ≤ g := by linarith
    -- one level: bounds of the exact bands and the errors of the approximate ones
    have hx' : Bdd (M + E) x' := fun i => by
      have := hc.2 i; have := hx i
      calc |getN x' i| = |(getN x' i - getN x i) + getN x i| := by ring_nf
        _ ≤ |getN x' i - getN x i| + |getN x i| := abs_add_le _ _
        _ ≤ M + E := by linarith
    have hN' : 1 ≤ x'.length := by rw [hc.1]; exact hN
    have one : ∀ (h : List ℝ) (D : List ℝ → List ℝ), 2 ≤ h.length → l1 h ≤ g → ApproxLevel m h γ D →
        Close (g * ((1 + γ) * (M + E) - M)) (D x') (Spec.dwt m h x) := by
      intro h D hL hgl hD
      have a1 := hD x' (M + E) hN' hx'
      have a2 := dwt_close m hm h x' x hL hN' E hc
      refine ⟨a1.1.trans a2.1, fun i => ?_⟩
      have b1 := a1.2 i; have b2 := a2.2 i
      have hl0 := l1_nonneg h
      calc |getN (D x') i - getN (Spec.dwt m h x) i|
          = |(getN (D x') i - getN (Spec.dwt m h x') i) + (getN (Spec.dwt m h x') i - getN (Spec.dwt m h x) i)| := by ring_nf
        _ ≤ γ * (l1 h * (M + E)) + l1 h * E := le_trans (abs_add_le _ _) (by linarith)
        _ ≤ γ * (g * (M + E)) + g * E := by
            have := mul_le_mul_of_nonneg_right hgl (show 0 ≤ M + E by linarith)
            have := mul_le_mul_of_nonneg_right hgl hE
            nlinarith
        _ = g * ((1 + γ) * (M + E) - M) := by ring
    have lo := one h0 (D0 j) hL0 hg0 (hD0 j)
    have hi := one h1 (D1 j) hL1 hg1 (hD1 j)
    have lob : Bdd (g * M) (Spec.dwt m h0 x) := fun i =>
      le_trans (dwt_gain m hm h0 x hL0 hN M hx i) (mul_le_mul_of_nonneg_right hg0 hM)
    have hlen : 1 ≤ (Spec.dwt m h0 x).length := by
      rw [C01.dwt_length m hm]; unfold dwtCoeffLen; omega
    have ih := wavedec_fl_err_gen h0 h1 hL0 hL1 g γ hg0 hg1 hg hγ D0 D1 hD0 hD1 J (j+1) (Spec.dwt m h0 x) (D0 j x')
      (g * M) (g * ((1 + γ) * (M + E) - M)) hlen lob lo
    rw [errJ_step] at ih
    simp only [flWavedec, Spec.wavedec]
    refine ⟨ih.1, by simp [ih.2.1], fun i => ?_⟩
    cases i with
    | zero =>
      simp only [List.getD_cons_zero]
      have e1 : errJ g γ M E 1 = g * ((1 + γ) * (M + E) - M) := by unfold errJ; ring
      have mono : ∀ K, errJ g γ M E 1 ≤ errJ g γ M E (K + 1) := by
        intro K
        induction K with
        | zero => exact le_refl _
        | succ K ihK => exact le_trans ihK (errJ_mono g γ M E hg hγ hM hE (K + 1)).1
      exact (e1 ▸ hi).mono (mono J)
    | succ i => simpa using ih.2.2 i

include hm in
/-- **C16, float32 accuracy of the J-level transform**: computed with one-level maps of relative accuracy `γ` (for the
model's `afb1d` with a rounded convolution `γ = (1+u)^(L+1) − 1`, `flLevel_approx`), every coefficient of every band is
within `((1+γ)^J − 1) · g^J · max|x|` of the exact coefficient — of `pywt.wavedec`, i.e. of the module `DWT1DForward`
(`C01.DWT1DForward_eq_wavedec`) — with `g = max(‖h0‖₁, ‖h1‖₁, 1)` the gain of `C16G.wavedec_gain` -/
theorem wavedec_fl_err (h0 h1 : List ℝ) (hL0 : 2 ≤ h0.length) (hL1 : 2 ≤ h1.length) (g γ : ℝ)
    (hg0 : l1 h0 ≤ g) (hg1 : l1 h1 ≤ g) (hg : 1 ≤ g) (hγ : 0 ≤ γ) (D0 D1 : Nat → List ℝ → List ℝ)
    (hD0 : ∀ j, ApproxLevel m h0 γ (D0 j)) (hD1 : ∀ j, ApproxLevel m h1 γ (D1 j))
    (J : Nat) (x : List ℝ) (M : ℝ) (hN : 1 ≤ x.length) (hx : Bdd M x) :
    Close (((1 + γ) ^ J - 1) * (g ^ J * M)) (flWavedec D0 D1 J 0 x).1 (Spec.wavedec m h0 h1 J x).1 ∧
    ∀ i, Close (((1 + γ) ^ J - 1) * (g ^ J * M)) ((flWavedec D0 D1 J 0 x).2.getD i []) ((Spec.wavedec m h0 h1 J x).2.getD i []) := by
  have := wavedec_fl_err_gen m hm h0 h1 hL0 hL1 g γ hg0 hg1 hg hγ D0 D1 hD0 hD1 J 0 x x M 0 hN hx (close_refl x)
  have e : errJ g γ M 0 J = ((1 + γ) ^ J - 1) * (g ^ J * M) := by unfold errJ; ring
  rw [e] at this
  exact ⟨this.1, this.2.2⟩

end pyramid

/-- non-vacuity: exact arithmetic (`δ = ε = 0`) is a rounded evaluation with `u = 0`, and then the bound says the
results coincide -/
example (a x : Nat → ℝ) (n : Nat) : flDot a x (fun _ => 0) (fun _ => 0) n = ∑ k ∈ range n, a k * x k := by
  have := flDot_err a x (fun _ => 0) (fun _ => 0) 0 (le_refl 0) (fun _ => by simp) (fun _ => by simp) n
  simp at this
  linarith

end WV.C16R
