/-
  C01 — DWT analysis equals PyWavelets.

  Property theorems: the implementation model of `afb1d` (what the code does:
  pad sizes, index vectors, roll + zero-padded strided correlation + fold)
  equals the PyWavelets specification (`Spec.dwt`: closed index formula over the
  un-reversed filter), for every signal length, every filter length and every
  commutative ring of scalars.
-/
import WaveletsVerif.Lemmas.Basic
import WaveletsVerif.Lemmas.Lift
import WaveletsVerif.Lemmas.Per
import WaveletsVerif.Properties.C07
namespace WV.C01
open Finset WV
variable {R : Type} [CommRing R]

/-- `p = 2*(outsize-1) - N + L` of `afb1d` -/
def padTotal (N L : Nat) : Nat := 2 * (dwtCoeffLen N L - 1) + L - N

theorem padTotal_cases (N L : Nat) (hL : 2 ≤ L) (hN : 1 ≤ N) :
    (padTotal N L = 2*L - 3 ∧ (N + L) % 2 = 1) ∨ (padTotal N L = 2*L - 4 ∧ (N + L) % 2 = 0) := by
  unfold padTotal dwtCoeffLen; omega

/-- mode `zero`: pre-pad for odd `p`, symmetric zero padding `p//2`, stride-2 correlation with
the reversed buffer = `Σ_j h[j]·x̃(2k+1−j)` with zero extension. All lengths. -/
theorem afb1dOne_zero_eq_dwt (h x : List R) (hL : 2 ≤ h.length) (hN : 1 ≤ x.length) :
    afb1dOne .zero h.reverse x = some (Spec.dwt .zero h x) := by
  unfold afb1dOne Spec.dwt
  simp only [List.length_reverse]
  have hg : ¬ (h.length < 2 ∨ x.length < 1) := by omega
  simp only [hg, if_false]
  congr 1
  unfold corr
  apply tab_ext
  · simp only [List.length_reverse]
    unfold corrLen dwtCoeffLen
    split <;> simp <;> split <;> omega
  · intro k hk
    rw [sumN_eq, sumN_eq]
    simp only [List.length_reverse]
    rw [← Finset.sum_range_reflect]
    apply Finset.sum_congr rfl
    intro j hj
    have hj' : j < h.length := by simpa using hj
    rw [getN_eq_getZ (zeroPad _ _ _), getZ_zeroPad]
    rw [getN_reverse h j hj']
    congr 1
    unfold Spec.ext
    simp only
    unfold dwtCoeffLen
    split
    · rw [getZ_zeroPad]
      congr 1; push_cast; omega
    · congr 1; push_cast; omega

/-- shared proof for the two index-vector modes that never raise -/
private theorem afb_idx_eq (idx : Int → Int → Int) (h x : List R) (hL : 2 ≤ h.length) (hN : 1 ≤ x.length) :
    corr h.reverse (padIdx idx x (padTotal x.length h.length / 2) ((padTotal x.length h.length + 1) / 2)) 2 1
      = tab (dwtCoeffLen x.length h.length) fun k => sumN h.length fun j =>
          getN h j * getZ x (idx x.length (2*(k:Int) + 1 - j)) := by
  unfold corr
  have hp := padTotal_cases x.length h.length hL hN
  have hlen : corrLen (padTotal x.length h.length / 2 + x.length + (padTotal x.length h.length + 1) / 2)
      h.length 2 1 = dwtCoeffLen x.length h.length := by
    unfold corrLen dwtCoeffLen
    rcases hp with ⟨hp, _⟩ | ⟨hp, _⟩ <;> rw [hp] <;> split <;> omega
  apply tab_ext
  · simp only [List.length_reverse, length_padIdx]
    exact hlen
  · intro k hk
    simp only [List.length_reverse, length_padIdx] at hk
    rw [hlen] at hk
    rw [sumN_eq, sumN_eq]
    simp only [List.length_reverse]
    rw [← Finset.sum_range_reflect]
    apply Finset.sum_congr rfl
    intro j hj
    have hj' : j < h.length := by simpa using hj
    rw [getN_eq_getZ (padIdx _ _ _ _), getN_reverse h j hj']
    unfold dwtCoeffLen at hk
    rw [getZ_padIdx _ _ _ _ _ (by positivity)
      (by rcases hp with ⟨hp, _⟩ | ⟨hp, _⟩ <;> rw [hp] <;> push_cast <;> omega)]
    congr 3
    rcases hp with ⟨hp, _⟩ | ⟨hp, _⟩ <;> rw [hp] <;> push_cast <;> omega

theorem afb1dOne_symmetric_eq_dwt (h x : List R) (hL : 2 ≤ h.length) (hN : 1 ≤ x.length) :
    afb1dOne .symmetric h.reverse x = some (Spec.dwt .symmetric h x) := by
  unfold afb1dOne Spec.dwt
  simp only [List.length_reverse]
  have hg : ¬ (h.length < 2 ∨ x.length < 1) := by omega
  simp only [hg, if_false]
  congr 1
  exact afb_idx_eq symIdx h x hL hN

theorem afb1dOne_periodic_eq_dwt (h x : List R) (hL : 2 ≤ h.length) (hN : 1 ≤ x.length) :
    afb1dOne .periodic h.reverse x = some (Spec.dwt .periodic h x) := by
  unfold afb1dOne Spec.dwt
  simp only [List.length_reverse]
  have hg : ¬ (h.length < 2 ∨ x.length < 1) := by omega
  simp only [hg, if_false]
  congr 1
  exact afb_idx_eq perIdx h x hL hN

/-- periodization, *partial*: roll by `L/2`, zero-padded stride-2 correlation and ONE wrap-around fold
equal PyWavelets' circular formula when the (even) length is at least the (even) filter length.
The hypothesis `L ≤ N` is forced by the proof and is exactly where the code stops agreeing with
PyWavelets (known finding C01-periodization-short; witness below). The full statement — every
`N ≥ 2`, odd `N` through the repeated last sample — is covered by the correspondence and the pywt
oracle, not yet by a theorem. -/
theorem afb1dOne_per_eq_dwt_partial (h x : List R) (hLe : h.length % 2 = 0) (hL : 2 ≤ h.length)
    (hNe : x.length % 2 = 0) (hLN : h.length ≤ x.length) :
    afb1dOne .periodization h.reverse x = some (Spec.dwt .periodization h x) := by
  have hg : ¬ (h.length < 2 ∨ x.length < 1) := by omega
  have hodd : ¬ (x.length % 2 = 1) := by omega
  simp only [afb1dOne, Spec.dwt, hodd, if_false, List.length_reverse]
  rw [if_neg hg]
  congr 1
  exact afbPer_even h x hLe hL hNe hLN

omit [CommRing R] in
theorem sliceFrom_last [OfNat R 0] (x : List R) (h : 0 < x.length) : sliceFrom x (-1) = [getN x (x.length - 1)] := by
  unfold sliceFrom pyBound
  have e : (if (-1:Int) < 0 then (-1:Int) + (x.length:Int) else -1) = (x.length:Int) - 1 := by simp; omega
  rw [e]
  have h1 : ¬ ((x.length:Int) - 1 < 0) := by omega
  have h2 : ¬ ((x.length:Int) < (x.length:Int) - 1) := by omega
  simp only [h1, h2, if_false]
  have h3 : ((x.length:Int) - 1).toNat = x.length - 1 := by omega
  rw [h3]
  apply List.ext_getElem
  · simp; omega
  · intro i h1 h2
    simp at h1
    have : i = 0 := by omega
    subst this
    simp [getN, List.getD_eq_getElem?_getD, List.getElem?_eq_getElem (by omega : x.length - 1 < x.length)]

/-- periodization for **every** length (odd lengths repeat their last sample first), whenever the even-extended
length is at least the (even) filter length: exactly the complement of the known finding. -/
theorem afb1dOne_per_eq_dwt_partial_all (h x : List R) (hLe : h.length % 2 = 0) (hL : 2 ≤ h.length)
    (hN : 1 ≤ x.length) (hLN : h.length ≤ x.length + x.length % 2) :
    afb1dOne .periodization h.reverse x = some (Spec.dwt .periodization h x) := by
  by_cases hpar : x.length % 2 = 0
  · exact afb1dOne_per_eq_dwt_partial h x hLe hL hpar (by omega)
  · have hodd : x.length % 2 = 1 := by omega
    have hg : ¬ (h.length < 2 ∨ x.length < 1) := by omega
    set x' := x ++ [getN x (x.length - 1)] with hx'
    have hlen' : x'.length = x.length + 1 := by simp [hx']
    have key := afbPer_even h x' hLe hL (by omega) (by omega)
    simp only [afb1dOne, Spec.dwt, hodd, if_true, List.length_reverse]
    rw [if_neg hg, sliceFrom_last x (by omega)]
    congr 1

/-- known finding, witnessed on integers: for a length-4 filter on a length-2 signal the code's
single fold differs from PyWavelets' periodization -/
example : afb1dOne .periodization ([1, 2, 3, 4] : List Int).reverse [1, 2]
    ≠ some (Spec.dwt .periodization [1, 2, 3, 4] [1, 2]) := by decide

/-- reflect: torch's single-fold `F.pad(reflect)` index agrees with PyWavelets' periodic whole-sample
reflection on the range it is allowed to address -/
theorem reflIdx_eq_reflIdxP (n i : Int) (hn : 2 ≤ n) (h0 : -n < i) (h1 : i < 2*n - 1) :
    reflIdx n i = reflIdxP n i := by
  unfold reflIdx reflIdxP
  have hn1 : ¬ (n ≤ 1) := by omega
  simp only [hn1, if_false]
  by_cases hneg : i < 0
  · simp only [hneg, if_true]
    have e : i % (2*n - 2) = i + (2*n - 2) := by
      rw [← Int.add_emod_right]; exact Int.emod_eq_of_lt (by omega) (by omega)
    rw [e]; split <;> omega
  · simp only [hneg, if_false]
    by_cases hge : n ≤ i
    · simp only [hge, if_true]
      by_cases hlt : i < 2*n - 2
      · have e : i % (2*n - 2) = i := Int.emod_eq_of_lt (by omega) hlt
        rw [e]; split <;> omega
      · have hi : i = 2*n - 2 := by omega
        have e : i % (2*n - 2) = 0 := by rw [hi]; exact Int.emod_self
        rw [e]; split <;> omega
    · simp only [hge, if_false]
      have e : i % (2*n - 2) = i := Int.emod_eq_of_lt (by omega) (by omega)
      rw [e]; split <;> omega

theorem padIdx_congr (idx1 idx2 : Int → Int → Int) (x : List R) (l r : Nat)
    (h : ∀ i : Int, -(l:Int) ≤ i → i < x.length + r → idx1 x.length i = idx2 x.length i) :
    padIdx idx1 x l r = padIdx idx2 x l r := by
  unfold padIdx
  apply tab_ext rfl
  intro i hi
  rw [h _ (by omega) (by push_cast at hi ⊢; omega)]

/-- reflect mode: whenever `afb1d` returns (the pads are smaller than the signal) it returns PyWavelets'
reflect-mode coefficients; it raises exactly when a pad is not smaller than the signal — "may raise,
never different numbers". -/
theorem afb1dOne_reflect (h x : List R) (hL : 2 ≤ h.length) (hN : 2 ≤ x.length) :
    (padTotal x.length h.length / 2 < x.length ∧ (padTotal x.length h.length + 1) / 2 < x.length →
      afb1dOne .reflect h.reverse x = some (Spec.dwt .reflect h x)) ∧
    (¬ (padTotal x.length h.length / 2 < x.length ∧ (padTotal x.length h.length + 1) / 2 < x.length) →
      afb1dOne .reflect h.reverse x = none) := by
  have hg : ¬ (h.length < 2 ∨ x.length < 1) := by omega
  constructor
  · intro hp
    have hp2 := hp
    unfold padTotal at hp2
    simp only [afb1dOne, Spec.dwt, List.length_reverse]
    rw [if_neg hg, if_pos hp2]
    congr 1
    have key := afb_idx_eq reflIdxP h x hL (by omega)
    unfold padTotal at key
    rw [padIdx_congr reflIdx reflIdxP x _ _ (fun i hi0 hi1 =>
      reflIdx_eq_reflIdxP x.length i (by omega) (by omega) (by omega))]
    exact key
  · intro hp
    have hp2 := hp
    unfold padTotal at hp2
    simp only [afb1dOne, List.length_reverse]
    rw [if_neg hg, if_neg hp2]

/-- a mode in which `afb1d` provably computes the PyWavelets formula for every signal and filter -/
def ModeOK (mode : Mode) : Prop :=
  ∀ (h x : List R), 2 ≤ h.length → 1 ≤ x.length → afb1dOne mode h.reverse x = some (Spec.dwt mode h x)

theorem modeOK_zero : ModeOK (R := R) .zero := fun h x hL hN => afb1dOne_zero_eq_dwt h x hL hN
theorem modeOK_symmetric : ModeOK (R := R) .symmetric := fun h x hL hN => afb1dOne_symmetric_eq_dwt h x hL hN
theorem modeOK_periodic : ModeOK (R := R) .periodic := fun h x hL hN => afb1dOne_periodic_eq_dwt h x hL hN

/-- filtering every row / every column with a total one-dimensional operator -/
theorem alongO_W_total (mode : Mode) (hm : ModeOK (R := R) mode) (h : List R) (hL : 2 ≤ h.length) (x : Img R)
    (hx : ∀ r ∈ x, 1 ≤ r.length) :
    alongO .W (afb1dOne mode h.reverse) x = some (Spec.rowsMap (Spec.dwt mode h) x) := by
  unfold alongO alongWO Spec.rowsMap
  exact mapM_total _ _ x (fun r hr => hm h r hL (hx r hr))

theorem alongO_H_total (mode : Mode) (hm : ModeOK (R := R) mode) (h : List R) (hL : 2 ≤ h.length) (x : Img R)
    (hx : 1 ≤ x.length) :
    alongO .H (afb1dOne mode h.reverse) x = some (Spec.colsMap (Spec.dwt mode h) x) := by
  unfold alongO alongHO Spec.colsMap
  rw [mapM_total _ (Spec.dwt mode h) (tr x) (fun r hr => hm h r hL (by rw [tr_row_length x r hr]; exact hx))]
  rfl

/-- One level of the 2-D transform on one channel: `AFB2D.forward` (row pass along W with the row
filters, column pass along H with the column filters, `reshape(N,-1,4,H,W)`) returns PyWavelets'
`dwt2` called with (column wavelet, row wavelet): low = cA and the three stacked bands are
(cH, cV, cD) = (LH, HL, HH), in that order.  Every image size, every filter length, every mode
in which the 1-D refinement holds (zero, symmetric, periodic are proved above). -/
theorem AFB2D_forward_eq_dwt2 (mode : Mode) (hm : ModeOK (R := R) mode) (c0 c1 r0 r1 : List R)
    (hc0 : 2 ≤ c0.length) (hc1 : 2 ≤ c1.length) (hr0 : 2 ≤ r0.length) (hr1 : 2 ≤ r1.length)
    (x : Img R) (hH : 1 ≤ x.length) (hW : ∀ r ∈ x, 1 ≤ r.length) :
    AFB2D_forward mode r0.reverse r1.reverse c0.reverse c1.reverse [x]
      = some ([(Spec.dwt2 mode c0 c1 r0 r1 x).1],
              [[(Spec.dwt2 mode c0 c1 r0 r1 x).2.1, (Spec.dwt2 mode c0 c1 r0 r1 x).2.2.1,
                (Spec.dwt2 mode c0 c1 r0 r1 x).2.2.2]]) := by
  unfold AFB2D_forward
  rw [afb1dT_one, alongO_W_total mode hm r0 hr0 x hW, alongO_W_total mode hm r1 hr1 x hW]
  have hlo : 1 ≤ (Spec.rowsMap (Spec.dwt mode r0) x).length := by simp [Spec.rowsMap]; exact hH
  have hhi : 1 ≤ (Spec.rowsMap (Spec.dwt mode r1) x).length := by simp [Spec.rowsMap]; exact hH
  simp only [Option.bind_eq_bind, Option.bind_some]
  rw [afb1dT_two, alongO_H_total mode hm c0 hc0 _ hlo, alongO_H_total mode hm c1 hc1 _ hlo,
    alongO_H_total mode hm c0 hc0 _ hhi, alongO_H_total mode hm c1 hc1 _ hhi]
  simp [Spec.dwt2, tab, List.range, List.range.loop]

theorem modeOK_of (mode : Mode) (hm : mode = .zero ∨ mode = .symmetric ∨ mode = .periodic) : ModeOK (R := R) mode := by
  rcases hm with rfl | rfl | rfl
  · exact modeOK_zero
  · exact modeOK_symmetric
  · exact modeOK_periodic

theorem dwt_length (mode : Mode) (hm : mode = .zero ∨ mode = .symmetric ∨ mode = .periodic) (h x : List R) :
    (Spec.dwt mode h x).length = dwtCoeffLen x.length h.length := by
  rcases hm with rfl | rfl | rfl <;> simp [Spec.dwt]

/-- `AFB1D.forward` on one channel: `(x0, x1) = (dwt h0 x, dwt h1 x)` — the `lohi[:, ::2]`, `lohi[:, 1::2]`
split of the grouped convolution's output -/
theorem AFB1D_forward_single (mode : Mode) (hm : ModeOK (R := R) mode) (h0 h1 x : List R)
    (hL0 : 2 ≤ h0.length) (hL1 : 2 ≤ h1.length) (hN : 1 ≤ x.length) :
    AFB1D_forward mode h0.reverse h1.reverse [x] = some ([Spec.dwt mode h0 x], [Spec.dwt mode h1 x]) := by
  unfold AFB1D_forward
  simp only [List.map_cons, List.map_nil]
  rw [afb1dT_one]
  have e0 : alongO .W (afb1dOne mode h0.reverse) [x] = some [Spec.dwt mode h0 x] := by
    simp [alongO, alongWO, hm h0 x hL0 hN]
  have e1 : alongO .W (afb1dOne mode h1.reverse) [x] = some [Spec.dwt mode h1 x] := by
    simp [alongO, alongWO, hm h1 x hL1 hN]
  rw [e0, e1]
  simp [tab, List.range, List.range.loop]

/-- the J-level 1-D transform of one channel is PyWavelets' `wavedec` in the library's order
(finest detail first), **for every J**, every signal length ≥ 1 and every filter length ≥ 2,
in the modes zero / symmetric / periodic — by induction on J. -/
theorem DWT1DForward_eq_wavedec (mode : Mode) (hm : mode = .zero ∨ mode = .symmetric ∨ mode = .periodic)
    (h0 h1 : List R) (hL0 : 2 ≤ h0.length) (hL1 : 2 ≤ h1.length) (J : Nat) (x : List R) (hN : 1 ≤ x.length) :
    DWT1DForwardM mode J h0 h1 [x]
      = some ([(Spec.wavedec mode h0 h1 J x).1], (Spec.wavedec mode h0 h1 J x).2.map fun d => [d]) := by
  unfold DWT1DForwardM
  induction J generalizing x with
  | zero => simp [DWT1DForward, Spec.wavedec]
  | succ J ih =>
    have hlen : 1 ≤ (Spec.dwt mode h0 x).length := by
      rw [dwt_length mode hm]; unfold dwtCoeffLen; omega
    simp only [DWT1DForward, Spec.wavedec]
    rw [AFB1D_forward_single mode (modeOK_of mode hm) h0 h1 x hL0 hL1 hN]
    simp only [Option.bind_eq_bind, Option.bind_some]
    rw [ih (Spec.dwt mode h0 x) hlen]
    simp

/-- a non-empty image all of whose rows are non-empty -/
def NonEmptyImg (x : Img R) : Prop := 1 ≤ x.length ∧ ∀ r ∈ x, 1 ≤ r.length

omit [CommRing R] in
theorem tr_nonempty [OfNat R 0] (y : Img R) (hy : 1 ≤ y.length) (hw : 1 ≤ y.width) : NonEmptyImg (tr y) := by
  constructor
  · simp [tr, tab2]; exact hw
  · intro r hr
    unfold tr tab2 tab at hr
    simp at hr
    obtain ⟨i, _, rfl⟩ := hr
    simp; exact hy

theorem width_of_nonempty (x : Img R) (hx : NonEmptyImg x) : 1 ≤ x.width := by
  obtain ⟨h1, h2⟩ := hx
  unfold Img.width
  cases x with
  | nil => simp at h1
  | cons r rs => simpa using h2 r (by simp)

/-- the approximation band of `dwt2` is again a non-empty image (so the level loop can continue) -/
theorem dwt2_cA_nonempty (mode : Mode) (hm : mode = .zero ∨ mode = .symmetric ∨ mode = .periodic)
    (c0 r0 : List R) (hc0 : 2 ≤ c0.length) (hr0 : 2 ≤ r0.length) (x : Img R) (hx : NonEmptyImg x) :
    NonEmptyImg (Spec.colsMap (Spec.dwt mode c0) (Spec.rowsMap (Spec.dwt mode r0) x)) := by
  obtain ⟨hH, hW⟩ := hx
  set lo := Spec.rowsMap (Spec.dwt mode r0) x with hlo
  have hlo_len : lo.length = x.length := by simp [hlo, Spec.rowsMap]
  have hlo_rows : ∀ r ∈ lo, 1 ≤ r.length := by
    intro r hr
    simp only [hlo, Spec.rowsMap, List.mem_map] at hr
    obtain ⟨a, ha, rfl⟩ := hr
    rw [dwt_length mode hm]; unfold dwtCoeffLen; have := hW a ha; omega
  have hlo_ne : NonEmptyImg lo := ⟨by omega, hlo_rows⟩
  have htr : NonEmptyImg (tr lo) := tr_nonempty lo (by omega) (width_of_nonempty lo hlo_ne)
  unfold Spec.colsMap
  apply tr_nonempty
  · simp; exact htr.1
  · apply width_of_nonempty
    constructor
    · simp; exact htr.1
    · intro r hr
      simp only [List.mem_map] at hr
      obtain ⟨a, ha, rfl⟩ := hr
      rw [dwt_length mode hm]; unfold dwtCoeffLen; have := htr.2 a ha; omega

/-- the J-level 2-D transform of one channel is PyWavelets' `wavedec2` with (column wavelet, row wavelet),
levels finest first, bands (cH, cV, cD) — **for every J**, every non-empty image and all filter lengths
≥ 2, in the modes zero / symmetric / periodic. -/
theorem DWTForward_eq_wavedec2 (mode : Mode) (hm : mode = .zero ∨ mode = .symmetric ∨ mode = .periodic)
    (c0 c1 r0 r1 : List R) (hc0 : 2 ≤ c0.length) (hc1 : 2 ≤ c1.length) (hr0 : 2 ≤ r0.length) (hr1 : 2 ≤ r1.length)
    (J : Nat) (x : Img R) (hx : NonEmptyImg x) :
    DWTForwardM mode J [c0, c1, r0, r1] [x]
      = some ([(Spec.wavedec2 mode c0 c1 r0 r1 J x).1], (Spec.wavedec2 mode c0 c1 r0 r1 J x).2.map fun d => [d]) := by
  simp only [DWTForwardM, wave4, Option.bind_eq_bind, Option.bind_some]
  induction J generalizing x with
  | zero => simp [DWTForward, Spec.wavedec2]
  | succ J ih =>
    simp only [DWTForward, Spec.wavedec2]
    rw [AFB2D_forward_eq_dwt2 mode (modeOK_of mode hm) c0 c1 r0 r1 hc0 hc1 hr0 hr1 x hx.1 hx.2]
    simp only [Option.bind_eq_bind, Option.bind_some]
    have hnext : NonEmptyImg (Spec.dwt2 mode c0 c1 r0 r1 x).1 := by
      simp only [Spec.dwt2]
      exact dwt2_cA_nonempty mode hm c0 r0 hc0 hr0 x hx
    rw [ih _ hnext]
    simp [Spec.dwt2]

omit [CommRing R] in
theorem map_eq_tab {β : Type} (xs : List (List R)) (g : List R → β) :
    xs.map g = tab xs.length fun c => g (xs.getD c []) := by
  apply List.ext_getElem
  · simp
  · intro i h1 h2
    simp [tab, List.getD_eq_getElem?_getD, List.getElem?_eq_getElem (by simpa using h1 : i < xs.length)]

/-- `AFB1D.forward` on ANY number of channels: every channel gets its own `(dwt h0, dwt h1)` -/
theorem AFB1D_forward_multi (mode : Mode) (hm : ModeOK (R := R) mode) (h0 h1 : List R)
    (hL0 : 2 ≤ h0.length) (hL1 : 2 ≤ h1.length) (xs : List (List R)) (hx : ∀ x ∈ xs, 1 ≤ x.length) :
    AFB1D_forward mode h0.reverse h1.reverse xs
      = some (xs.map (Spec.dwt mode h0), xs.map (Spec.dwt mode h1)) := by
  unfold AFB1D_forward
  have hget : ∀ c < xs.length, ((xs.map fun ch => [ch]) : List (Img R)).getD c [] = [xs.getD c []] := by
    intro c hc
    simp [List.getD_eq_getElem?_getD, List.getElem?_eq_getElem hc]
  rw [C07.afb1dT_total .W mode h0.reverse h1.reverse (xs.map fun ch => [ch])
    (fun im => [Spec.dwt mode h0 (im.getD 0 [])]) (fun im => [Spec.dwt mode h1 (im.getD 0 [])])
    (by
      intro c hc
      have hc' : c < xs.length := by simpa using hc
      rw [hget c hc']
      have hxc : 1 ≤ (xs.getD c []).length := by
        have : xs.getD c [] ∈ xs := by
          simp [List.getD_eq_getElem?_getD, List.getElem?_eq_getElem hc']
        exact hx _ this
      have e0 := hm h0 (xs.getD c []) hL0 hxc
      have e1 := hm h1 (xs.getD c []) hL1 hxc
      constructor
      · simp only [alongO, alongWO, List.mapM_cons, List.mapM_nil, e0]; rfl
      · simp only [alongO, alongWO, List.mapM_cons, List.mapM_nil, e1]; rfl)]
  simp only [Option.bind_eq_bind, Option.bind_some, List.length_map]
  have hlen : (2 * xs.length) / 2 = xs.length := by omega
  rw [C07.map_tab, length_tab, hlen, map_eq_tab xs (Spec.dwt mode h0), map_eq_tab xs (Spec.dwt mode h1)]
  congr 2
  · apply tab_ext rfl
    intro c hc
    rw [getD_tab]
    have h1 : 2 * c < 2 * xs.length := by omega
    have h2 : (2*c) % 2 = 0 := by omega
    have h3 : (2*c) / 2 = c := by omega
    simp only [h1, if_true, h2, h3, hget c hc]
    rfl
  · apply tab_ext rfl
    intro c hc
    rw [getD_tab]
    have h1 : 2 * c + 1 < 2 * xs.length := by omega
    have h2 : (2*c+1) % 2 = 1 := by omega
    have h3 : (2*c+1) / 2 = c := by omega
    simp only [h1, if_true, h2, h3, hget c hc, Nat.one_ne_zero, if_false]
    rfl

/-- the J-level 1-D transform on ANY number of channels acts channel by channel: every channel of every
band is `wavedec` of that channel alone (C07's per-slice statement for the whole multi-level transform),
for every J, in the modes zero / symmetric / periodic. -/
theorem DWT1DForward_multi (mode : Mode) (hm : mode = .zero ∨ mode = .symmetric ∨ mode = .periodic)
    (h0 h1 : List R) (hL0 : 2 ≤ h0.length) (hL1 : 2 ≤ h1.length) (J : Nat) (xs : List (List R))
    (hx : ∀ x ∈ xs, 1 ≤ x.length) :
    DWT1DForwardM mode J h0 h1 xs
      = some (xs.map (fun x => (Spec.wavedec mode h0 h1 J x).1),
              (List.range J).map fun j => xs.map fun x => (Spec.wavedec mode h0 h1 J x).2.getD j []) := by
  unfold DWT1DForwardM
  induction J generalizing xs with
  | zero => simp [DWT1DForward, Spec.wavedec]
  | succ J ih =>
    simp only [DWT1DForward]
    rw [AFB1D_forward_multi mode (modeOK_of mode hm) h0 h1 hL0 hL1 xs hx]
    simp only [Option.bind_eq_bind, Option.bind_some]
    have hx' : ∀ y ∈ xs.map (Spec.dwt mode h0), 1 ≤ y.length := by
      intro y hy
      simp only [List.mem_map] at hy
      obtain ⟨a, ha, rfl⟩ := hy
      rw [dwt_length mode hm]; unfold dwtCoeffLen; have := hx a ha; omega
    rw [ih _ hx']
    simp only [Option.bind_some, Spec.wavedec, List.map_map, Function.comp_def]
    congr 2
    rw [List.range_succ_eq_map]
    simp [List.map_map, Function.comp_def]

/-- non-vacuity: a 2×3 integer image and Haar-like integer filters meet every hypothesis -/
example : (1 ≤ ([[1,2,3],[4,5,6]] : Img Int).length) ∧ (∀ r ∈ ([[1,2,3],[4,5,6]] : Img Int), 1 ≤ r.length) := by
  decide

end WV.C01
