/-
  C01 — DWT analysis equals PyWavelets.

  Property theorems: the implementation model of `afb1d` (what the code does:
  pad sizes, index vectors, roll + zero-padded strided correlation + fold)
  equals the PyWavelets specification (`Spec.dwt`: closed index formula over the
  un-reversed filter), for every signal length, every filter length and every
  commutative ring of scalars.
-/
import WaveletsVerif.Lemmas.Basic
namespace WV.C01
open Finset WV
variable {R : Type} [CommRing R]

/-- `p = 2*(outsize-1) - N + L` of `afb1d` -/
def padTotal (N L : Nat) : Nat := 2 * (dwtCoeffLen N L - 1) + L - N

theorem padTotal_cases (N L : Nat) (hL : 2 ≤ L) (hN : 1 ≤ N) :
    (padTotal N L = 2*L - 3 ∧ (N + L) % 2 = 1) ∨ (padTotal N L = 2*L - 4 ∧ (N + L) % 2 = 0) := by
  unfold padTotal dwtCoeffLen; omega

/-- mode `zero`: pre-pad for odd `p`, symmetric zero padding `p//2`, stride-2 correlation with
the reversed buffer = `Σ_j h[j]·x̃(2k+1−j)` with zero extension. All lengths. -/
theorem afb1dOne_zero_eq_dwt (h x : List R) (hL : 2 ≤ h.length) (hN : 1 ≤ x.length) :
    afb1dOne .zero h.reverse x = some (Spec.dwt .zero h x) := by
  unfold afb1dOne Spec.dwt
  simp only [List.length_reverse]
  have hg : ¬ (h.length < 2 ∨ x.length < 1) := by omega
  simp only [hg, if_false]
  congr 1
  unfold corr
  apply tab_ext
  · simp only [List.length_reverse]
    unfold corrLen dwtCoeffLen
    split <;> simp <;> split <;> omega
  · intro k hk
    rw [sumN_eq, sumN_eq]
    simp only [List.length_reverse]
    rw [← Finset.sum_range_reflect]
    apply Finset.sum_congr rfl
    intro j hj
    have hj' : j < h.length := by simpa using hj
    rw [getN_eq_getZ (zeroPad _ _ _), getZ_zeroPad]
    rw [getN_reverse h j hj']
    congr 1
    unfold Spec.ext
    simp only
    unfold dwtCoeffLen
    split
    · rw [getZ_zeroPad]
      congr 1; push_cast; omega
    · congr 1; push_cast; omega

/-- shared proof for the two index-vector modes that never raise -/
private theorem afb_idx_eq (idx : Int → Int → Int) (h x : List R) (hL : 2 ≤ h.length) (hN : 1 ≤ x.length) :
    corr h.reverse (padIdx idx x (padTotal x.length h.length / 2) ((padTotal x.length h.length + 1) / 2)) 2 1
      = tab (dwtCoeffLen x.length h.length) fun k => sumN h.length fun j =>
          getN h j * getZ x (idx x.length (2*(k:Int) + 1 - j)) := by
  unfold corr
  have hp := padTotal_cases x.length h.length hL hN
  have hlen : corrLen (padTotal x.length h.length / 2 + x.length + (padTotal x.length h.length + 1) / 2)
      h.length 2 1 = dwtCoeffLen x.length h.length := by
    unfold corrLen dwtCoeffLen
    rcases hp with ⟨hp, _⟩ | ⟨hp, _⟩ <;> rw [hp] <;> split <;> omega
  apply tab_ext
  · simp only [List.length_reverse, length_padIdx]
    exact hlen
  · intro k hk
    simp only [List.length_reverse, length_padIdx] at hk
    rw [hlen] at hk
    rw [sumN_eq, sumN_eq]
    simp only [List.length_reverse]
    rw [← Finset.sum_range_reflect]
    apply Finset.sum_congr rfl
    intro j hj
    have hj' : j < h.length := by simpa using hj
    rw [getN_eq_getZ (padIdx _ _ _ _), getN_reverse h j hj']
    unfold dwtCoeffLen at hk
    rw [getZ_padIdx _ _ _ _ _ (by positivity)
      (by rcases hp with ⟨hp, _⟩ | ⟨hp, _⟩ <;> rw [hp] <;> push_cast <;> omega)]
    congr 3
    rcases hp with ⟨hp, _⟩ | ⟨hp, _⟩ <;> rw [hp] <;> push_cast <;> omega

theorem afb1dOne_symmetric_eq_dwt (h x : List R) (hL : 2 ≤ h.length) (hN : 1 ≤ x.length) :
    afb1dOne .symmetric h.reverse x = some (Spec.dwt .symmetric h x) := by
  unfold afb1dOne Spec.dwt
  simp only [List.length_reverse]
  have hg : ¬ (h.length < 2 ∨ x.length < 1) := by omega
  simp only [hg, if_false]
  congr 1
  exact afb_idx_eq symIdx h x hL hN

theorem afb1dOne_periodic_eq_dwt (h x : List R) (hL : 2 ≤ h.length) (hN : 1 ≤ x.length) :
    afb1dOne .periodic h.reverse x = some (Spec.dwt .periodic h x) := by
  unfold afb1dOne Spec.dwt
  simp only [List.length_reverse]
  have hg : ¬ (h.length < 2 ∨ x.length < 1) := by omega
  simp only [hg, if_false]
  congr 1
  exact afb_idx_eq perIdx h x hL hN

end WV.C01
