/-
  C10 — DWT synthesis equals PyWavelets on arbitrary coefficient pyramids.

  `sfb1dCh` (what `sfb1d` does: two transposed stride-2 convolutions cropped by
  `L-2` on both sides and added) equals PyWavelets' `idwt` formula for arbitrary
  band contents — not only for bands that are the transform of a signal.
-/
import WaveletsVerif.Lemmas.Basic
namespace WV.C10
open Finset WV
variable {R : Type} [CommRing R]

/-- the non-periodization modes of `sfb1d` (zero, symmetric, reflect, periodic all share one
branch): for every pair of bands of equal length `n ≥ 1` and every filter pair of length `L ≥ 2`
with `2n+2 > L`, the code's result is PyWavelets' `idwt`. -/
theorem sfb1dCh_eq_idwt (m : Mode) (hm : m = .zero ∨ m = .symmetric ∨ m = .reflect ∨ m = .periodic)
    (g0 g1 lo hi : List R) (hL : 2 ≤ g0.length) (hg : g1.length = g0.length) (hn : 1 ≤ lo.length)
    (hh : hi.length = lo.length) (hfit : 2 * (g0.length - 2) + 1 ≤ 2 * (lo.length - 1) + g0.length) :
    sfb1dCh m g0 g1 lo hi = some (Spec.idwt m g0 g1 lo hi) := by
  have hguard : ¬ (g0.length < 2 ∨ g1.length ≠ g0.length ∨ lo.length < 1 ∨ hi.length ≠ lo.length) := by
    omega
  have hfit' : ¬ (2 * (lo.length - 1) + g0.length < 2 * (g0.length - 2) + 1) := by omega
  have key : vadd (convT g0 lo (g0.length - 2)) (convT g1 hi (g0.length - 2)) =
      tab (2 * lo.length + 2 - g0.length) fun t => sumN lo.length fun k =>
        getN lo k * getZ g0 ((t:Int) + g0.length - 2 - 2*k) + getN hi k * getZ g1 ((t:Int) + g0.length - 2 - 2*k) := by
    unfold vadd
    apply tab_ext
    · simp [convT, convTFull]; omega
    · intro i hi'
      simp only [convT, convTFull, length_tab] at hi'
      rw [getN_convT _ _ _ _ (by omega), getN_convT _ _ _ _ (by rw [hh, hg]; omega), sumN_eq, hh,
        ← Finset.sum_add_distrib]
      apply Finset.sum_congr rfl; intro k _
      have e : ((i:Int) + ((g0.length - 2 : Nat) : Int) - 2 * (k:Int)) = (i:Int) + g0.length - 2 - 2*k := by
        push_cast [Nat.cast_sub hL]; ring
      rw [e]
  rcases hm with rfl | rfl | rfl | rfl <;>
    simp only [sfb1dCh, Spec.idwt, hguard, hfit', if_false] <;> rw [key]

end WV.C10
