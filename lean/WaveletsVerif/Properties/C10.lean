/-
  C10 — DWT synthesis equals PyWavelets on arbitrary coefficient pyramids.

  `sfb1dCh` (what `sfb1d` does: two transposed stride-2 convolutions cropped by
  `L-2` on both sides and added) equals PyWavelets' `idwt` formula for arbitrary
  band contents — not only for bands that are the transform of a signal.
-/
import WaveletsVerif.Lemmas.Basic
import WaveletsVerif.Lemmas.Per
namespace WV.C10
open Finset WV
variable {R : Type} [CommRing R]

/-- the non-periodization modes of `sfb1d` (zero, symmetric, reflect, periodic all share one
branch): for every pair of bands of equal length `n ≥ 1` and every filter pair of length `L ≥ 2`
with `2n+2 > L`, the code's result is PyWavelets' `idwt`. -/
theorem sfb1dCh_eq_idwt (m : Mode) (hm : m = .zero ∨ m = .symmetric ∨ m = .reflect ∨ m = .periodic)
    (g0 g1 lo hi : List R) (hL : 2 ≤ g0.length) (hg : g1.length = g0.length) (hn : 1 ≤ lo.length)
    (hh : hi.length = lo.length) (hfit : 2 * (g0.length - 2) + 1 ≤ 2 * (lo.length - 1) + g0.length) :
    sfb1dCh m g0 g1 lo hi = some (Spec.idwt m g0 g1 lo hi) := by
  have hguard : ¬ (g0.length < 2 ∨ g1.length ≠ g0.length ∨ lo.length < 1 ∨ hi.length ≠ lo.length) := by
    omega
  have hfit' : ¬ (2 * (lo.length - 1) + g0.length < 2 * (g0.length - 2) + 1) := by omega
  have key : vadd (convT g0 lo (g0.length - 2)) (convT g1 hi (g0.length - 2)) =
      tab (2 * lo.length + 2 - g0.length) fun t => sumN lo.length fun k =>
        getN lo k * getZ g0 ((t:Int) + g0.length - 2 - 2*k) + getN hi k * getZ g1 ((t:Int) + g0.length - 2 - 2*k) := by
    unfold vadd
    apply tab_ext
    · simp [convT, convTFull]; omega
    · intro i hi'
      simp only [convT, convTFull, length_tab] at hi'
      rw [getN_convT _ _ _ _ (by omega), getN_convT _ _ _ _ (by rw [hh, hg]; omega), sumN_eq, hh,
        ← Finset.sum_add_distrib]
      apply Finset.sum_congr rfl; intro k _
      have e : ((i:Int) + ((g0.length - 2 : Nat) : Int) - 2 * (k:Int)) = (i:Int) + g0.length - 2 - 2*k := by
        push_cast [Nat.cast_sub hL]; ring
      rw [e]
  rcases hm with rfl | rfl | rfl | rfl <;>
    simp only [sfb1dCh, Spec.idwt, hguard, hfit', if_false] <;> rw [key]

/-! ### periodization synthesis (complement of the known finding: `L − 2 ≤ 2n`) -/

theorem getN_convTFull (w g : List R) (t : Nat) (ht : t < 2 * (g.length - 1) + w.length) :
    getN (convTFull w g) t = ∑ k ∈ range g.length, getN g k * getZ w ((t:Int) - 2*k) := by
  unfold convTFull
  rw [getN_tab]; simp only [ht, if_true]
  rw [sumN_eq]

theorem sumN_two (n : Nat) (f : Nat → R) (hn : 2 ≤ n) (hz : ∀ r, 2 ≤ r → f r = 0) : sumN n f = f 0 + f 1 := by
  rw [sumN_eq]
  have : range n = range 2 ∪ (Finset.Ico 2 n) := by
    ext a; simp; omega
  rw [this, Finset.sum_union (by
    rw [Finset.disjoint_left]; intro a ha hb; simp at ha hb; omega)]
  have z : ∑ r ∈ Finset.Ico 2 n, f r = 0 := Finset.sum_eq_zero (fun r hr => hz r (by simp at hr; omega))
  rw [z, Finset.sum_range_succ, Finset.sum_range_one]; ring

/-- `sfb1d` in periodization mode (transposed convolutions, ONE fold of the `L−2` tail, roll back by `L/2−1`)
equals PyWavelets' periodized `idwt` for arbitrary bands whenever `L − 2 ≤ 2n` — exactly the complement of the
known finding C10-periodization-short. -/
theorem sfb1dCh_per_eq_idwt_partial (g0 g1 lo hi : List R) (hL : 2 ≤ g0.length) (hg : g1.length = g0.length)
    (hn : 1 ≤ lo.length) (hh : hi.length = lo.length) (hfit : g0.length - 2 ≤ 2 * lo.length) :
    sfb1dCh .periodization g0 g1 lo hi = some (Spec.idwt .periodization g0 g1 lo hi) := by
  have hguard : ¬ (g0.length < 2 ∨ g1.length ≠ g0.length ∨ lo.length < 1 ∨ hi.length ≠ lo.length) := by omega
  simp only [sfb1dCh, Spec.idwt, hguard, if_false]
  congr 1
  set N := 2 * lo.length with hN
  set L := g0.length with hLdef
  set y := vadd (convTFull g0 lo) (convTFull g1 hi) with hy
  have hylen : y.length = N + L - 2 := by simp [hy, vadd, convTFull]; omega
  -- elements of y
  have hyget : ∀ t : Nat, t < N + L - 2 →
      getN y t = ∑ k ∈ range lo.length, (getN lo k * getZ g0 ((t:Int) - 2*k) + getN hi k * getZ g1 ((t:Int) - 2*k)) := by
    intro t ht
    rw [hy, getN_vadd _ _ _ (by simp [convTFull]; omega), getN_convTFull _ _ _ (by omega),
      getN_convTFull _ _ _ (by rw [hh, hg]; omega), hh, ← Finset.sum_add_distrib]
  have hyz : ∀ t : Nat, N + L - 2 ≤ t → getN y t = 0 := by
    intro t ht
    rw [getN_eq_getZ]; exact getZ_of_ge _ _ (by rw [hylen]; omega)
  -- the spec's `full`
  have hfull : ∀ t : Nat, (if ((t:Nat):Int) < 0 ∨ ((N + L - 2 : Nat):Int) ≤ (t:Int) then (0:R) else
        sumN lo.length fun k => getN lo k * getZ g0 ((t:Int) - 2*k) + getN hi k * getZ g1 ((t:Int) - 2*k))
      = getN y t := by
    intro t
    by_cases ht : t < N + L - 2
    · have : ¬ (((t:Nat):Int) < 0 ∨ ((N + L - 2 : Nat):Int) ≤ (t:Int)) := by omega
      rw [if_neg this, sumN_eq, hyget t ht]
    · have : (((t:Nat):Int) < 0 ∨ ((N + L - 2 : Nat):Int) ≤ (t:Int)) := by omega
      rw [if_pos this, hyz t (by omega)]
  have ha : L / 2 - 1 ≤ N := by omega
  have hroll : rollPy ((foldAdd y (L - 2) N).take N) (1 - ((L / 2 : Nat) : Int))
      = ((foldAdd y (L - 2) N).take N).drop (L/2 - 1) ++ ((foldAdd y (L - 2) N).take N).take (L/2 - 1) := by
    have e : (1 - ((L / 2 : Nat) : Int)) = -((L/2 - 1 : Nat) : Int) := by push_cast [Nat.cast_sub (by omega : 1 ≤ L/2)]; ring
    rw [e]
    exact rollPy_neg _ _ (by simp [foldAdd, hylen]; omega)
  rw [hroll]
  have hy1len : ((foldAdd y (L - 2) N).take N).length = N := by simp [foldAdd, hylen]; omega
  apply List.ext_getElem
  · simp [hy1len]; omega
  · intro u hu1 hu2
    have hu : u < N := by simpa using hu2
    simp only [tab, List.getElem_map, List.getElem_range]
    -- left: element of the rolled list, as getZ
    have hl : ((((foldAdd y (L - 2) N).take N).drop (L/2 - 1) ++ ((foldAdd y (L - 2) N).take N).take (L/2 - 1)))[u]'hu1
        = getZ ((foldAdd y (L - 2) N).take N) ((((u:Nat):Int) + ((L/2 - 1 : Nat):Int)) % ((((foldAdd y (L - 2) N).take N).length : Nat) : Int)) := by
      have := getZ_roll ((foldAdd y (L - 2) N).take N) (L/2 - 1) (by rw [hy1len]; omega) (u:Int) (by positivity) (by rw [hy1len]; exact_mod_cast hu)
      rw [← this]
      simp [getZ, List.getD_eq_getElem?_getD, List.getElem?_eq_getElem hu1]
    rw [hl, hy1len]
    have hNpos : (0:Int) < (N:Int) := by omega
    have em0 := Int.emod_nonneg ((u:Int) + ((L/2 - 1 : Nat):Int)) (by omega : (N:Int) ≠ 0)
    have em1 := Int.emod_lt_of_pos ((u:Int) + ((L/2 - 1 : Nat):Int)) hNpos
    have eidx : ((u:Int) + ((L/2 : Nat):Int) - 1) % (N:Int) = ((u:Int) + ((L/2 - 1 : Nat):Int)) % (N:Int) := by
      congr 1; push_cast [Nat.cast_sub (by omega : 1 ≤ L/2)]; ring
    rw [eidx]
    generalize hv : ((u:Int) + ((L/2 - 1 : Nat):Int)) % (N:Int) = v at *
    obtain ⟨w, rfl⟩ : ∃ w : Nat, v = (w:Int) := ⟨v.toNat, by omega⟩
    have hw : w < N := by exact_mod_cast em1
    -- left side at w
    have hleft : getZ ((foldAdd y (L - 2) N).take N) ((w:Nat):Int) = getN y w + (if w < L - 2 then getN y (N + w) else 0) := by
      rw [← getN_eq_getZ, getN_take _ _ _ hw]
      unfold foldAdd
      rw [getN_tab]
      have : w < y.length := by rw [hylen]; omega
      simp only [this, if_true]
      split <;> simp
    rw [hleft]
    -- right side: fold with two non-zero terms
    rw [sumN_two _ _ (by
        have : 1 ≤ (N + L - 2) / N := by
          apply Nat.div_pos <;> omega
        omega) (by
        intro r hr
        have hbig : ((N + L - 2 : Nat):Int) ≤ (w:Int) + (r:Int) * (N:Int) := by
          have : (2:Int) * N ≤ (r:Int) * N := by
            have : (2:Int) ≤ r := by exact_mod_cast hr
            nlinarith
          push_cast; omega
        rw [if_pos (Or.inr hbig)])]
    have e0 : (w:Int) + ((0:Nat):Int) * (N:Int) = ((w:Nat):Int) := by simp
    have e1 : (w:Int) + ((1:Nat):Int) * (N:Int) = ((N + w : Nat):Int) := by push_cast; ring
    rw [e0, e1, hfull w, hfull (N + w)]
    congr 1
    split
    · rfl
    · rename_i hge
      exact (hyz (N + w) (by omega)).symm

/-- one step of the level loop on the specification side (what `pywt.waverec` does per level) -/
def stepS (m : Mode) (g0 g1 a : List R) (d : Option (List R)) : List R :=
  let dv := match d with
    | some v => v
    | none => a.map fun _ => (0:R)
  let a' := if a.length = dv.length + 1 then a.take (a.length - 1) else a
  Spec.idwt m g0 g1 a' dv

theorem waverec_eq_foldl (m : Mode) (g0 g1 a : List R) (ds : List (Option (List R))) :
    Spec.waverec m g0 g1 a ds = ds.reverse.foldl (stepS m g0 g1) a := rfl

/-- shapes a forward transform produces: at every level the approximation is as long as the detail
band or one sample longer (the un-pad case), the band is non-empty and long enough for the filter -/
def StepOK (g0 : List R) (a : List R) (d : Option (List R)) : Prop :=
  let n := match d with
    | some v => v.length
    | none => a.length
  (a.length = n ∨ a.length = n + 1) ∧ 1 ≤ n ∧ 2 * (g0.length - 2) + 1 ≤ 2 * (n - 1) + g0.length

def Compat (m : Mode) (g0 g1 : List R) : List R → List (Option (List R)) → Prop
  | _, [] => True
  | a, d :: rest => StepOK g0 a d ∧ Compat m g0 g1 (stepS m g0 g1 a d) rest

/-- one level: `DWT1DInverse`'s loop body (None → zeros, un-pad, `SFB1D`) on one channel is the
specification's step -/
theorem step_eq (m : Mode) (hm : m = .zero ∨ m = .symmetric ∨ m = .reflect ∨ m = .periodic)
    (g0 g1 : List R) (hL : 2 ≤ g0.length) (hg : g1.length = g0.length) (a : List R) (d : Option (List R))
    (hok : StepOK g0 a d) :
    DWT1DInverse_step m g0 g1 [a] (d.map fun v => [v]) = some [stepS m g0 g1 a d] := by
  unfold DWT1DInverse_step stepS
  cases d with
  | some v =>
    obtain ⟨hlen, hn, hfit⟩ := hok
    simp only [Option.map_some, List.headD_cons, List.map_cons, List.map_nil] at *
    by_cases hgt : a.length > v.length
    · have h1 : a.length = v.length + 1 := by omega
      simp only [hgt, if_true, h1]
      unfold SFB1D_forward sfb1dT sfb1dImg
      simp [List.range, List.range.loop]
      rw [sfb1dCh_eq_idwt m hm g0 g1 _ v hL hg (by simp; omega) (by simp; omega) (by simp; omega)]
      simp
    · have h1 : a.length = v.length := by omega
      have h2 : ¬ (a.length = v.length + 1) := by omega
      simp only [hgt, if_false, h2]
      unfold SFB1D_forward sfb1dT sfb1dImg
      simp [List.range, List.range.loop]
      rw [sfb1dCh_eq_idwt m hm g0 g1 a v hL hg (by omega) (by omega) (by rw [h1]; exact hfit)]
      simp
  | none =>
    obtain ⟨_, hn, hfit⟩ := hok
    simp only [Option.map_none, List.headD_cons, List.map_cons, List.map_nil, List.length_map] at *
    have h2 : ¬ (a.length = a.length + 1) := by omega
    simp only [gt_iff_lt, lt_self_iff_false, if_false, h2]
    unfold SFB1D_forward sfb1dT sfb1dImg
    simp [List.range, List.range.loop]
    rw [sfb1dCh_eq_idwt m hm g0 g1 a (List.replicate a.length 0) hL hg hn (by simp) hfit]
    simp

/-- the J-level 1-D synthesis of one channel is PyWavelets' `waverec` on **every** pyramid of
forward-compatible shape — whether or not it is the transform of a signal — including `None`
levels (zeros) and the un-pad rule, for every number of levels; modes zero / symmetric / reflect /
periodic. By induction over the levels. -/
theorem DWT1DInverse_eq_waverec (m : Mode) (hm : m = .zero ∨ m = .symmetric ∨ m = .reflect ∨ m = .periodic)
    (g0 g1 : List R) (hL : 2 ≤ g0.length) (hg : g1.length = g0.length) (a : List R) (ds : List (Option (List R)))
    (hc : Compat m g0 g1 a ds.reverse) :
    DWT1DInverse m g0 g1 [a] (ds.map fun d => d.map fun v => [v]) = some [Spec.waverec m g0 g1 a ds] := by
  rw [waverec_eq_foldl]
  unfold DWT1DInverse
  rw [← List.map_reverse]
  generalize ds.reverse = rs at hc
  induction rs generalizing a with
  | nil => simp
  | cons d rest ih =>
    obtain ⟨hok, hrest⟩ := hc
    simp only [List.map_cons, List.foldlM_cons, List.foldl_cons]
    rw [step_eq m hm g0 g1 hL hg a d hok]
    simp only [Option.bind_eq_bind, Option.bind_some]
    exact ih _ hrest

/-- non-vacuity: a concrete two-level integer pyramid with a None level is compatible -/
example : Compat (R := Int) .zero [1, 2, 1, 1] [1, -1, 2, 1] [1, 2, 3] [none, some [4, 5, 6, 7]] := by
  simp [Compat, StepOK, stepS, Spec.idwt]

end WV.C10
