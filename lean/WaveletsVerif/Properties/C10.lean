/-
  C10 — DWT synthesis equals PyWavelets on arbitrary coefficient pyramids.

  `sfb1dCh` (what `sfb1d` does: two transposed stride-2 convolutions cropped by
  `L-2` on both sides and added) equals PyWavelets' `idwt` formula for arbitrary
  band contents — not only for bands that are the transform of a signal.
-/
import WaveletsVerif.Lemmas.Basic
import WaveletsVerif.Lemmas.Per
import WaveletsVerif.Lemmas.Lift
namespace WV.C10
open Finset WV
variable {R : Type} [CommRing R]

/-- the non-periodization modes of `sfb1d` (zero, symmetric, reflect, periodic all share one
branch): for every pair of bands of equal length `n ≥ 1` and every filter pair of length `L ≥ 2`
with `2n+2 > L`, the code's result is PyWavelets' `idwt`. -/
theorem sfb1dCh_eq_idwt (m : Mode) (hm : m = .zero ∨ m = .symmetric ∨ m = .reflect ∨ m = .periodic)
    (g0 g1 lo hi : List R) (hL : 2 ≤ g0.length) (hg : g1.length = g0.length) (hn : 1 ≤ lo.length)
    (hh : hi.length = lo.length) (hfit : 2 * (g0.length - 2) + 1 ≤ 2 * (lo.length - 1) + g0.length) :
    sfb1dCh m g0 g1 lo hi = some (Spec.idwt m g0 g1 lo hi) := by
  have hguard : ¬ (g0.length < 2 ∨ g1.length ≠ g0.length ∨ lo.length < 1 ∨ hi.length ≠ lo.length) := by
    omega
  have hfit' : ¬ (2 * (lo.length - 1) + g0.length < 2 * (g0.length - 2) + 1) := by omega
  have key : vadd (convT g0 lo (g0.length - 2)) (convT g1 hi (g0.length - 2)) =
      tab (2 * lo.length + 2 - g0.length) fun t => sumN lo.length fun k =>
        getN lo k * getZ g0 ((t:Int) + g0.length - 2 - 2*k) + getN hi k * getZ g1 ((t:Int) + g0.length - 2 - 2*k) := by
    unfold vadd
    apply tab_ext
    · simp [convT, convTFull]; omega
    · intro i hi'
      simp only [convT, convTFull, length_tab] at hi'
      rw [getN_convT _ _ _ _ (by omega), getN_convT _ _ _ _ (by rw [hh, hg]; omega), sumN_eq, hh,
        ← Finset.sum_add_distrib]
      apply Finset.sum_congr rfl; intro k _
      have e : ((i:Int) + ((g0.length - 2 : Nat) : Int) - 2 * (k:Int)) = (i:Int) + g0.length - 2 - 2*k := by
        push_cast [Nat.cast_sub hL]; ring
      rw [e]
  rcases hm with rfl | rfl | rfl | rfl <;>
    simp only [sfb1dCh, Spec.idwt, hguard, hfit', if_false] <;> rw [key]

/-! ### periodization synthesis (complement of the known finding: `L − 2 ≤ 2n`) -/

theorem getN_convTFull (w g : List R) (t : Nat) (ht : t < 2 * (g.length - 1) + w.length) :
    getN (convTFull w g) t = ∑ k ∈ range g.length, getN g k * getZ w ((t:Int) - 2*k) := by
  unfold convTFull
  rw [getN_tab]; simp only [ht, if_true]
  rw [sumN_eq]

theorem sumN_two (n : Nat) (f : Nat → R) (hn : 2 ≤ n) (hz : ∀ r, 2 ≤ r → f r = 0) : sumN n f = f 0 + f 1 := by
  rw [sumN_eq]
  have : range n = range 2 ∪ (Finset.Ico 2 n) := by
    ext a; simp; omega
  rw [this, Finset.sum_union (by
    rw [Finset.disjoint_left]; intro a ha hb; simp at ha hb; omega)]
  have z : ∑ r ∈ Finset.Ico 2 n, f r = 0 := Finset.sum_eq_zero (fun r hr => hz r (by simp at hr; omega))
  rw [z, Finset.sum_range_succ, Finset.sum_range_one]; ring

/-- `sfb1d` in periodization mode (transposed convolutions, ONE fold of the `L−2` tail, roll back by `L/2−1`)
equals PyWavelets' periodized `idwt` for arbitrary bands whenever `L − 2 ≤ 2n` — exactly the complement of the
known finding C10-periodization-short. -/
theorem sfb1dCh_per_eq_idwt_partial (g0 g1 lo hi : List R) (hL : 2 ≤ g0.length) (hg : g1.length = g0.length)
    (hn : 1 ≤ lo.length) (hh : hi.length = lo.length) (hfit : g0.length - 2 ≤ 2 * lo.length) :
    sfb1dCh .periodization g0 g1 lo hi = some (Spec.idwt .periodization g0 g1 lo hi) := by
  have hguard : ¬ (g0.length < 2 ∨ g1.length ≠ g0.length ∨ lo.length < 1 ∨ hi.length ≠ lo.length) := by omega
  simp only [sfb1dCh, Spec.idwt, hguard, if_false]
  congr 1
  set N := 2 * lo.length with hN
  set L := g0.length with hLdef
  set y := vadd (convTFull g0 lo) (convTFull g1 hi) with hy
  have hylen : y.length = N + L - 2 := by simp [hy, vadd, convTFull]; omega
  -- elements of y
  have hyget : ∀ t : Nat, t < N + L - 2 →
      getN y t = ∑ k ∈ range lo.length, (getN lo k * getZ g0 ((t:Int) - 2*k) + getN hi k * getZ g1 ((t:Int) - 2*k)) := by
    intro t ht
    rw [hy, getN_vadd _ _ _ (by simp [convTFull]; omega), getN_convTFull _ _ _ (by omega),
      getN_convTFull _ _ _ (by rw [hh, hg]; omega), hh, ← Finset.sum_add_distrib]
  have hyz : ∀ t : Nat, N + L - 2 ≤ t → getN y t = 0 := by
    intro t ht
    rw [getN_eq_getZ]; exact getZ_of_ge _ _ (by rw [hylen]; omega)
  -- the spec's `full`
  have hfull : ∀ t : Nat, (if ((t:Nat):Int) < 0 ∨ ((N + L - 2 : Nat):Int) ≤ (t:Int) then (0:R) else
        sumN lo.length fun k => getN lo k * getZ g0 ((t:Int) - 2*k) + getN hi k * getZ g1 ((t:Int) - 2*k))
      = getN y t := by
    intro t
    by_cases ht : t < N + L - 2
    · have : ¬ (((t:Nat):Int) < 0 ∨ ((N + L - 2 : Nat):Int) ≤ (t:Int)) := by omega
      rw [if_neg this, sumN_eq, hyget t ht]
    · have : (((t:Nat):Int) < 0 ∨ ((N + L - 2 : Nat):Int) ≤ (t:Int)) := by omega
      rw [if_pos this, hyz t (by omega)]
  have ha : L / 2 - 1 ≤ N := by omega
  have hroll : rollPy ((foldAdd y (L - 2) N).take N) (1 - ((L / 2 : Nat) : Int))
      = ((foldAdd y (L - 2) N).take N).drop (L/2 - 1) ++ ((foldAdd y (L - 2) N).take N).take (L/2 - 1) := by
    have e : (1 - ((L / 2 : Nat) : Int)) = -((L/2 - 1 : Nat) : Int) := by push_cast [Nat.cast_sub (by omega : 1 ≤ L/2)]; ring
    rw [e]
    exact rollPy_neg _ _ (by simp [foldAdd, hylen]; omega)
  rw [hroll]
  have hy1len : ((foldAdd y (L - 2) N).take N).length = N := by simp [foldAdd, hylen]; omega
  apply List.ext_getElem
  · simp [hy1len]; omega
  · intro u hu1 hu2
    have hu : u < N := by simpa using hu2
    simp only [tab, List.getElem_map, List.getElem_range]
    -- left: element of the rolled list, as getZ
    have hl : ((((foldAdd y (L - 2) N).take N).drop (L/2 - 1) ++ ((foldAdd y (L - 2) N).take N).take (L/2 - 1)))[u]'hu1
        = getZ ((foldAdd y (L - 2) N).take N) ((((u:Nat):Int) + ((L/2 - 1 : Nat):Int)) % ((((foldAdd y (L - 2) N).take N).length : Nat) : Int)) := by
      have := getZ_roll ((foldAdd y (L - 2) N).take N) (L/2 - 1) (by rw [hy1len]; omega) (u:Int) (by positivity) (by rw [hy1len]; exact_mod_cast hu)
      rw [← this]
      simp [getZ, List.getD_eq_getElem?_getD, List.getElem?_eq_getElem hu1]
    rw [hl, hy1len]
    have hNpos : (0:Int) < (N:Int) := by omega
    have em0 := Int.emod_nonneg ((u:Int) + ((L/2 - 1 : Nat):Int)) (by omega : (N:Int) ≠ 0)
    have em1 := Int.emod_lt_of_pos ((u:Int) + ((L/2 - 1 : Nat):Int)) hNpos
    have eidx : ((u:Int) + ((L/2 : Nat):Int) - 1) % (N:Int) = ((u:Int) + ((L/2 - 1 : Nat):Int)) % (N:Int) := by
      congr 1; push_cast [Nat.cast_sub (by omega : 1 ≤ L/2)]; ring
    rw [eidx]
    generalize hv : ((u:Int) + ((L/2 - 1 : Nat):Int)) % (N:Int) = v at *
    obtain ⟨w, rfl⟩ : ∃ w : Nat, v = (w:Int) := ⟨v.toNat, by omega⟩
    have hw : w < N := by exact_mod_cast em1
    -- left side at w
    have hleft : getZ ((foldAdd y (L - 2) N).take N) ((w:Nat):Int) = getN y w + (if w < L - 2 then getN y (N + w) else 0) := by
      rw [← getN_eq_getZ, getN_take _ _ _ hw]
      unfold foldAdd
      rw [getN_tab]
      have : w < y.length := by rw [hylen]; omega
      simp only [this, if_true]
      split <;> simp
    rw [hleft]
    -- right side: fold with two non-zero terms
    rw [sumN_two _ _ (by
        have : 1 ≤ (N + L - 2) / N := by
          apply Nat.div_pos <;> omega
        omega) (by
        intro r hr
        have hbig : ((N + L - 2 : Nat):Int) ≤ (w:Int) + (r:Int) * (N:Int) := by
          have : (2:Int) * N ≤ (r:Int) * N := by
            have : (2:Int) ≤ r := by exact_mod_cast hr
            nlinarith
          push_cast; omega
        rw [if_pos (Or.inr hbig)])]
    have e0 : (w:Int) + ((0:Nat):Int) * (N:Int) = ((w:Nat):Int) := by simp
    have e1 : (w:Int) + ((1:Nat):Int) * (N:Int) = ((N + w : Nat):Int) := by push_cast; ring
    rw [e0, e1, hfull w, hfull (N + w)]
    congr 1
    split
    · rfl
    · rename_i hge
      exact (hyz (N + w) (by omega)).symm

/-- one step of the level loop on the specification side (what `pywt.waverec` does per level) -/
def stepS (m : Mode) (g0 g1 a : List R) (d : Option (List R)) : List R :=
  let dv := match d with
    | some v => v
    | none => a.map fun _ => (0:R)
  let a' := if a.length = dv.length + 1 then a.take (a.length - 1) else a
  Spec.idwt m g0 g1 a' dv

theorem waverec_eq_foldl (m : Mode) (g0 g1 a : List R) (ds : List (Option (List R))) :
    Spec.waverec m g0 g1 a ds = ds.reverse.foldl (stepS m g0 g1) a := rfl

/-- shapes a forward transform produces: at every level the approximation is as long as the detail
band or one sample longer (the un-pad case), the band is non-empty and long enough for the filter -/
def StepOK (g0 : List R) (a : List R) (d : Option (List R)) : Prop :=
  let n := match d with
    | some v => v.length
    | none => a.length
  (a.length = n ∨ a.length = n + 1) ∧ 1 ≤ n ∧ 2 * (g0.length - 2) + 1 ≤ 2 * (n - 1) + g0.length

def Compat (m : Mode) (g0 g1 : List R) : List R → List (Option (List R)) → Prop
  | _, [] => True
  | a, d :: rest => StepOK g0 a d ∧ Compat m g0 g1 (stepS m g0 g1 a d) rest

/-- one level: `DWT1DInverse`'s loop body (None → zeros, un-pad, `SFB1D`) on one channel is the
specification's step -/
theorem step_eq (m : Mode) (hm : m = .zero ∨ m = .symmetric ∨ m = .reflect ∨ m = .periodic)
    (g0 g1 : List R) (hL : 2 ≤ g0.length) (hg : g1.length = g0.length) (a : List R) (d : Option (List R))
    (hok : StepOK g0 a d) :
    DWT1DInverse_step m g0 g1 [a] (d.map fun v => [v]) = some [stepS m g0 g1 a d] := by
  unfold DWT1DInverse_step stepS
  cases d with
  | some v =>
    obtain ⟨hlen, hn, hfit⟩ := hok
    simp only [Option.map_some, List.headD_cons, List.map_cons, List.map_nil] at *
    by_cases hgt : a.length > v.length
    · have h1 : a.length = v.length + 1 := by omega
      simp only [hgt, if_true, h1]
      unfold SFB1D_forward sfb1dT sfb1dImg
      simp [List.range, List.range.loop]
      rw [sfb1dCh_eq_idwt m hm g0 g1 _ v hL hg (by simp; omega) (by simp; omega) (by simp; omega)]
      simp
    · have h1 : a.length = v.length := by omega
      have h2 : ¬ (a.length = v.length + 1) := by omega
      simp only [hgt, if_false, h2]
      unfold SFB1D_forward sfb1dT sfb1dImg
      simp [List.range, List.range.loop]
      rw [sfb1dCh_eq_idwt m hm g0 g1 a v hL hg (by omega) (by omega) (by rw [h1]; exact hfit)]
      simp
  | none =>
    obtain ⟨_, hn, hfit⟩ := hok
    simp only [Option.map_none, List.headD_cons, List.map_cons, List.map_nil, List.length_map] at *
    have h2 : ¬ (a.length = a.length + 1) := by omega
    simp only [gt_iff_lt, lt_self_iff_false, if_false, h2]
    unfold SFB1D_forward sfb1dT sfb1dImg
    simp [List.range, List.range.loop]
    rw [sfb1dCh_eq_idwt m hm g0 g1 a (List.replicate a.length 0) hL hg hn (by simp) hfit]
    simp

/-- the J-level 1-D synthesis of one channel is PyWavelets' `waverec` on **every** pyramid of
forward-compatible shape — whether or not it is the transform of a signal — including `None`
levels (zeros) and the un-pad rule, for every number of levels; modes zero / symmetric / reflect /
periodic. By induction over the levels. -/
theorem DWT1DInverse_eq_waverec (m : Mode) (hm : m = .zero ∨ m = .symmetric ∨ m = .reflect ∨ m = .periodic)
    (g0 g1 : List R) (hL : 2 ≤ g0.length) (hg : g1.length = g0.length) (a : List R) (ds : List (Option (List R)))
    (hc : Compat m g0 g1 a ds.reverse) :
    DWT1DInverse m g0 g1 [a] (ds.map fun d => d.map fun v => [v]) = some [Spec.waverec m g0 g1 a ds] := by
  rw [waverec_eq_foldl]
  unfold DWT1DInverse
  rw [← List.map_reverse]
  generalize ds.reverse = rs at hc
  induction rs generalizing a with
  | nil => simp
  | cons d rest ih =>
    obtain ⟨hok, hrest⟩ := hc
    simp only [List.map_cons, List.foldlM_cons, List.foldl_cons]
    rw [step_eq m hm g0 g1 hL hg a d hok]
    simp only [Option.bind_eq_bind, Option.bind_some]
    exact ih _ hrest

/-- non-vacuity: a concrete two-level integer pyramid with a None level is compatible -/
example : Compat (R := Int) .zero [1, 2, 1, 1] [1, -1, 2, 1] [1, 2, 3] [none, some [4, 5, 6, 7]] := by
  simp [Compat, StepOK, stepS, Spec.idwt]


/-! ## two dimensions, every number of levels -/

def ModeS (m : Mode) : Prop := m = .zero ∨ m = .symmetric ∨ m = .reflect ∨ m = .periodic

theorem tr_length (x : Img R) : (tr x).length = x.width := by simp [tr, tab2, tab]

theorem getD_tr_length (x : Img R) (j : Nat) (hj : j < x.width) : ((tr x).getD j []).length = x.length := by
  apply tr_row_length x
  rw [List.getD_eq_getElem?_getD, List.getElem?_eq_getElem (by rw [tr_length]; exact hj)]
  simp

/-- synthesis along the columns of one channel = `tr ∘ zip2 idwt ∘ tr` -/
theorem sfb1dImg_H (m : Mode) (hm : ModeS m) (g0 g1 : List R) (hL : 2 ≤ g0.length) (hg : g1.length = g0.length)
    (lo hi : Img R) (hw : hi.width = lo.width) (hh : hi.length = lo.length) (hn : 1 ≤ lo.length)
    (hfit : 2 * (g0.length - 2) + 1 ≤ 2 * (lo.length - 1) + g0.length) :
    sfb1dImg .H m g0 g1 lo hi = some (tr (Spec.zip2 (Spec.idwt m g0 g1) (tr lo) (tr hi))) := by
  have hne : ¬ (lo.width ≠ hi.width) := by simp [hw]
  simp only [sfb1dImg, hne, if_false]
  rw [mapM_total _ (fun j => Spec.idwt m g0 g1 ((tr lo).getD j []) ((tr hi).getD j []))]
  · simp only [Option.map_some, Spec.zip2, tr_length, tab]
  · intro j hj
    have hj' : j < lo.width := by simpa using hj
    apply sfb1dCh_eq_idwt m hm g0 g1 _ _ hL hg
    · rw [getD_tr_length lo j hj']; exact hn
    · rw [getD_tr_length lo j hj', getD_tr_length hi j (by omega)]; exact hh
    · rw [getD_tr_length lo j hj']; exact hfit

/-- synthesis along the rows of one channel = `zip2 idwt` -/
theorem sfb1dImg_W (m : Mode) (hm : ModeS m) (g0 g1 : List R) (hL : 2 ≤ g0.length) (hg : g1.length = g0.length)
    (lo hi : Img R) (hh : hi.length = lo.length) (w : Nat) (hlo : ∀ r ∈ lo, r.length = w) (hhi : ∀ r ∈ hi, r.length = w)
    (hn : 1 ≤ w) (hfit : 2 * (g0.length - 2) + 1 ≤ 2 * (w - 1) + g0.length) :
    sfb1dImg .W m g0 g1 lo hi = some (Spec.zip2 (Spec.idwt m g0 g1) lo hi) := by
  have hne : ¬ (lo.length ≠ hi.length) := by simp [hh]
  simp only [sfb1dImg, hne, if_false]
  rw [mapM_total _ (fun i => Spec.idwt m g0 g1 (lo.getD i []) (hi.getD i []))]
  · simp only [Spec.zip2, tab]
  · intro i hi'
    have hi'' : i < lo.length := by simpa using hi'
    have e1 : (lo.getD i []).length = w := by
      apply hlo; rw [List.getD_eq_getElem?_getD, List.getElem?_eq_getElem hi'']; simp
    have e2 : (hi.getD i []).length = w := by
      apply hhi; rw [List.getD_eq_getElem?_getD, List.getElem?_eq_getElem (by omega)]; simp
    apply sfb1dCh_eq_idwt m hm g0 g1 _ _ hL hg
    · rw [e1]; exact hn
    · rw [e1, e2]
    · rw [e1]; exact hfit

theorem idwt_length (m : Mode) (hm : ModeS m) (g0 g1 lo hi : List R) :
    (Spec.idwt m g0 g1 lo hi).length = 2 * lo.length + 2 - g0.length := by
  rcases hm with rfl | rfl | rfl | rfl <;> simp [Spec.idwt]

theorem width_tr (x : Img R) (hw : 1 ≤ x.width) : (tr x).width = x.length := by
  have h0 : 0 < (tr x).length := by rw [tr_length]; exact hw
  have : (tr x).headD [] = (tr x).getD 0 [] := by
    cases htx : tr x with
    | nil => rw [htx] at h0; simp at h0
    | cons a l => simp
  unfold Img.width
  rw [this]
  exact getD_tr_length x 0 hw


theorem zip2_length (f : List R → List R → List R) (a b : Img R) : (Spec.zip2 f a b).length = a.length := by
  simp [Spec.zip2, tab]

theorem zip2_width (f : List R → List R → List R) (a b : Img R) (ha : 1 ≤ a.length) :
    (Spec.zip2 f a b).width = (f (a.getD 0 []) (b.getD 0 [])).length := by
  unfold Img.width Spec.zip2 tab
  cases hn : a.length with
  | zero => omega
  | succ k => simp [List.range_succ_eq_map]

theorem sfb1dT_single (ax : Axis) (m : Mode) (g0 g1 : List R) (a b : Img R) :
    sfb1dT ax m g0 g1 [a] [b] = (sfb1dImg ax m g0 g1 a b).map fun y => [y] := by
  simp [sfb1dT, List.range, List.range.loop]
  cases sfb1dImg ax m g0 g1 a b <;> simp

/-- **one level of the 2-D synthesis on one channel is `pywt.idwt2`** with (column wavelet, row wavelet) -/
theorem SFB2D_forward_eq_idwt2 (m : Mode) (hm : ModeS m) (gc0 gc1 gr0 gr1 : List R)
    (hLc : 2 ≤ gc0.length) (hgc : gc1.length = gc0.length) (hLr : 2 ≤ gr0.length) (hgr : gr1.length = gr0.length)
    (cA cH cV cD : Img R) (h w : Nat) (hh : 1 ≤ h) (hw : 1 ≤ w)
    (sA : cA.length = h ∧ cA.width = w) (sH : cH.length = h ∧ cH.width = w)
    (sV : cV.length = h ∧ cV.width = w) (sD : cD.length = h ∧ cD.width = w)
    (hfitc : 2 * (gc0.length - 2) + 1 ≤ 2 * (h - 1) + gc0.length)
    (hfitr : 2 * (gr0.length - 2) + 1 ≤ 2 * (w - 1) + gr0.length) :
    SFB2D_forward m gr0 gr1 gc0 gc1 [cA] [[cH, cV, cD]] = some [Spec.idwt2 m gc0 gc1 gr0 gr1 cA cH cV cD] := by
  obtain ⟨a1, a2⟩ := sA; obtain ⟨b1, b2⟩ := sH; obtain ⟨c1, c2⟩ := sV; obtain ⟨d1, d2⟩ := sD
  simp only [SFB2D_forward, List.map_cons, List.map_nil, List.getD_cons_zero, List.getD_cons_succ]
  rw [sfb1dT_single, sfb1dT_single,
    sfb1dImg_H m hm gc0 gc1 hLc hgc cA cH (by omega) (by omega) (by omega) (by rw [a1]; exact hfitc),
    sfb1dImg_H m hm gc0 gc1 hLc hgc cV cD (by omega) (by omega) (by omega) (by rw [c1]; exact hfitc)]
  simp only [Option.map_some, Option.bind_eq_bind, Option.bind_some]
  rw [sfb1dT_single]
  set Z1 := Spec.zip2 (Spec.idwt m gc0 gc1) (tr cA) (tr cH) with hZ1
  set Z2 := Spec.zip2 (Spec.idwt m gc0 gc1) (tr cV) (tr cD) with hZ2
  have hZ1l : Z1.length = w := by rw [hZ1, zip2_length, tr_length, a2]
  have hZ2l : Z2.length = w := by rw [hZ2, zip2_length, tr_length, c2]
  have hZ1w : Z1.width = 2 * h + 2 - gc0.length := by
    rw [hZ1, zip2_width _ _ _ (by rw [tr_length]; omega), idwt_length m hm, getD_tr_length cA 0 (by omega), a1]
  have hZ2w : Z2.width = 2 * h + 2 - gc0.length := by
    rw [hZ2, zip2_width _ _ _ (by rw [tr_length]; omega), idwt_length m hm, getD_tr_length cV 0 (by omega), c1]
  rw [sfb1dImg_W m hm gr0 gr1 hLr hgr (tr Z1) (tr Z2) (by rw [tr_length, tr_length, hZ1w, hZ2w]) w
    (fun r hr => by rw [tr_row_length Z1 r hr, hZ1l]) (fun r hr => by rw [tr_row_length Z2 r hr, hZ2l]) hw hfitr]
  rfl


/-- the specification's level step (body of the fold in `Spec.waverec2`) -/
def stepS2 (m : Mode) (gc0 gc1 gr0 gr1 : List R) (a : Img R) (d : Option (List (Img R))) : Img R :=
  let dv : List (Img R) := match d with
    | some v => v
    | none => [izero a.length a.width, izero a.length a.width, izero a.length a.width]
  let d0 := dv.getD 0 []
  let a1 : Img R := if a.length = d0.length + 1 then a.take (a.length - 1) else a
  let a2 := if a1.width = d0.width + 1 then a1.map (fun r => r.take (r.length - 1)) else a1
  Spec.idwt2 m gc0 gc1 gr0 gr1 a2 d0 (dv.getD 1 []) (dv.getD 2 [])

theorem waverec2_eq_foldl (m : Mode) (gc0 gc1 gr0 gr1 : List R) (a : Img R) (ds : List (Option (List (Img R)))) :
    Spec.waverec2 m gc0 gc1 gr0 gr1 a ds = ds.reverse.foldl (stepS2 m gc0 gc1 gr0 gr1) a := rfl

def Shape (x : Img R) (h w : Nat) : Prop := x.length = h ∧ x.width = w

/-- shapes a forward transform produces: per axis the approximation has the band's size or one more (un-pad),
the three bands of a level share one non-empty shape and are long enough for the filters -/
def StepOK2 (gc0 gr0 : List R) (a : Img R) (d : Option (List (Img R))) : Prop :=
  ∃ h w : Nat, 1 ≤ h ∧ 1 ≤ w ∧ (a.length = h ∨ a.length = h + 1) ∧ (a.width = w ∨ a.width = w + 1) ∧
    2 * (gc0.length - 2) + 1 ≤ 2 * (h - 1) + gc0.length ∧ 2 * (gr0.length - 2) + 1 ≤ 2 * (w - 1) + gr0.length ∧
    match d with
    | some v => ∃ cH cV cD, v = [cH, cV, cD] ∧ Shape cH h w ∧ Shape cV h w ∧ Shape cD h w
    | none => a.length = h ∧ a.width = w

theorem izero_shape (h w : Nat) (hh : 1 ≤ h) : Shape (izero h w : Img R) h w := by
  constructor
  · simp [izero, tab2, tab]
  · unfold Img.width izero tab2 tab
    cases h with
    | zero => omega
    | succ k => simp [List.range_succ_eq_map]

theorem take_width (a : Img R) (k : Nat) (hk : 1 ≤ k) : Img.width (a.take k : Img R) = a.width := by
  unfold Img.width
  cases a with
  | nil => simp
  | cons r rest =>
    cases k with
    | zero => omega
    | succ j => simp

theorem map_take_shape (a : Img R) (ha : 1 ≤ a.length) :
    (a.map fun r => r.take (r.length - 1)).length = a.length ∧ Img.width (a.map (fun r => r.take (r.length - 1)) : Img R) = a.width - 1 := by
  constructor
  · simp
  · unfold Img.width
    cases a with
    | nil => simp at ha
    | cons r rest => simp


/-- un-padded approximation used by both sides -/
def unpad (a : Img R) (h w : Nat) : Img R :=
  let a1 : Img R := if a.length = h + 1 then a.take (a.length - 1) else a
  if a1.width = w + 1 then a1.map (fun r => r.take (r.length - 1)) else a1

theorem unpad_shape (a : Img R) (h w : Nat) (hh : 1 ≤ h) (hl : a.length = h ∨ a.length = h + 1)
    (hwd : a.width = w ∨ a.width = w + 1) : Shape (unpad a h w) h w := by
  unfold unpad
  set a1 : Img R := if a.length = h + 1 then a.take (a.length - 1) else a with ha1
  have h1l : a1.length = h := by
    by_cases hc : a.length = h + 1
    · rw [ha1, if_pos hc]; simp; omega
    · rw [ha1, if_neg hc]; omega
  have h1w : a1.width = a.width := by
    by_cases hc : a.length = h + 1
    · rw [ha1, if_pos hc]; exact take_width a _ (by omega)
    · rw [ha1, if_neg hc]
  by_cases hc2 : a1.width = w + 1
  · simp only [hc2, if_true]
    have := map_take_shape a1 (by omega)
    exact ⟨by rw [this.1, h1l], by rw [this.2, hc2]; omega⟩
  · simp only [hc2, if_false]
    exact ⟨h1l, by omega⟩

theorem step_eq2 (m : Mode) (hm : ModeS m) (gc0 gc1 gr0 gr1 : List R)
    (hLc : 2 ≤ gc0.length) (hgc : gc1.length = gc0.length) (hLr : 2 ≤ gr0.length) (hgr : gr1.length = gr0.length)
    (a : Img R) (d : Option (List (Img R))) (hok : StepOK2 gc0 gr0 a d) :
    DWTInverse_step m gc0 gc1 gr0 gr1 [a] (d.map fun v => [v]) = some [stepS2 m gc0 gc1 gr0 gr1 a d] := by
  obtain ⟨h, w, hh, hw, hl, hwd, hfc, hfr, hd⟩ := hok
  cases d with
  | some v =>
    obtain ⟨cH, cV, cD, rfl, sH, sV, sD⟩ := hd
    have hmodel : DWTInverse_step m gc0 gc1 gr0 gr1 [a] (some [[cH, cV, cD]])
        = SFB2D_forward m gr0 gr1 gc0 gc1 [unpad a h w] [[cH, cV, cD]] := by
      unfold DWTInverse_step unpad
      simp only [List.headD_cons, List.map_cons, List.map_nil, sH.1, sH.2]
      have e1 : (a.length > h) ↔ (a.length = h + 1) := by omega
      have e2 : (a.width > w) ↔ (a.width = w + 1) := by omega
      by_cases c1 : a.length = h + 1
      · have c1' : a.length > h := by omega
        have hwt : Img.width (a.take (a.length - 1) : Img R) = a.width := take_width a _ (by omega)
        rw [if_pos c1', if_pos c1]
        by_cases c2 : a.width = w + 1
        · have c2' : a.width > w := by omega
          rw [if_pos c2', if_pos (by rw [hwt, c2])]
          rfl
        · have c2' : ¬ (a.width > w) := by omega
          rw [if_neg c2', if_neg (by rw [hwt]; exact c2)]
      · have c1' : ¬ (a.length > h) := by omega
        rw [if_neg c1', if_neg c1]
        by_cases c2 : a.width = w + 1
        · have c2' : a.width > w := by omega
          rw [if_pos c2', if_pos c2]
          rfl
        · have c2' : ¬ (a.width > w) := by omega
          rw [if_neg c2', if_neg c2]
    have hspec : stepS2 m gc0 gc1 gr0 gr1 a (some [cH, cV, cD]) = Spec.idwt2 m gc0 gc1 gr0 gr1 (unpad a h w) cH cV cD := by
      simp only [stepS2, unpad, List.getD_cons_zero, List.getD_cons_succ, sH.1, sH.2]
    simp only [Option.map_some]
    rw [hmodel, hspec]
    exact SFB2D_forward_eq_idwt2 m hm gc0 gc1 gr0 gr1 hLc hgc hLr hgr _ cH cV cD h w hh hw
      (unpad_shape a h w hh hl hwd) sH sV sD hfc hfr
  | none =>
    obtain ⟨hal, haw⟩ := hd
    have sz := izero_shape (R := R) h w hh
    have hun : unpad a h w = a := by
      unfold unpad
      have c1 : ¬ (a.length = h + 1) := by omega
      have c2 : ¬ (a.width = w + 1) := by omega
      simp only [c1, if_false, c2]
    have hmodel : DWTInverse_step m gc0 gc1 gr0 gr1 [a] none
        = SFB2D_forward m gr0 gr1 gc0 gc1 [a] [[izero h w, izero h w, izero h w]] := by
      unfold DWTInverse_step
      simp only [List.headD_cons, List.map_cons, List.map_nil, hal, haw, sz.1, sz.2]
      simp
    have hspec : stepS2 m gc0 gc1 gr0 gr1 a none = Spec.idwt2 m gc0 gc1 gr0 gr1 a (izero h w) (izero h w) (izero h w) := by
      simp only [stepS2, List.getD_cons_zero, List.getD_cons_succ, hal, haw, sz.1, sz.2]
      have c1 : ¬ (h = h + 1) := by omega
      have c2 : ¬ (w = w + 1) := by omega
      simp only [c1, if_false, haw, c2]
    simp only [Option.map_none]
    rw [hmodel, hspec]
    exact SFB2D_forward_eq_idwt2 m hm gc0 gc1 gr0 gr1 hLc hgc hLr hgr a _ _ _ h w hh hw ⟨hal, haw⟩ sz sz sz hfc hfr

def Compat2 (m : Mode) (gc0 gc1 gr0 gr1 : List R) : Img R → List (Option (List (Img R))) → Prop
  | _, [] => True
  | a, d :: rest => StepOK2 gc0 gr0 a d ∧ Compat2 m gc0 gc1 gr0 gr1 (stepS2 m gc0 gc1 gr0 gr1 a d) rest

/-- **the J-level 2-D synthesis of one channel is PyWavelets' `waverec2`** (column wavelet, row wavelet) on every
pyramid of forward-compatible shape, including `None` levels and the un-pad rule on both axes, for every number of
levels; modes zero / symmetric / reflect / periodic.  By induction over the levels. -/
theorem DWTInverse_eq_waverec2 (m : Mode) (hm : ModeS m) (gc0 gc1 gr0 gr1 : List R)
    (hLc : 2 ≤ gc0.length) (hgc : gc1.length = gc0.length) (hLr : 2 ≤ gr0.length) (hgr : gr1.length = gr0.length)
    (a : Img R) (ds : List (Option (List (Img R)))) (hc : Compat2 m gc0 gc1 gr0 gr1 a ds.reverse) :
    DWTInverse m gc0 gc1 gr0 gr1 [a] (ds.map fun d => d.map fun v => [v])
      = some [Spec.waverec2 m gc0 gc1 gr0 gr1 a ds] := by
  rw [waverec2_eq_foldl]
  unfold DWTInverse
  rw [← List.map_reverse]
  generalize ds.reverse = rs at hc
  induction rs generalizing a with
  | nil => simp
  | cons d rest ih =>
    obtain ⟨hok, hrest⟩ := hc
    simp only [List.map_cons, List.foldlM_cons, List.foldl_cons]
    rw [step_eq2 m hm gc0 gc1 gr0 gr1 hLc hgc hLr hgr a d hok]
    simp only [Option.bind_eq_bind, Option.bind_some]
    exact ih _ hrest



/-- non-vacuity: a concrete one-level integer pyramid (2×2 bands, Haar-like integer filters) is compatible -/
example : Compat2 (R := Int) .zero [1, 1] [1, -1] [1, 1] [1, -1] [[1, 2], [3, 4]]
    [some [[[1, 0], [0, 1]], [[2, 0], [0, 2]], [[0, 1], [1, 0]]]] := by
  refine ⟨⟨2, 2, by decide, by decide, Or.inl rfl, Or.inl rfl, by decide, by decide, ?_⟩, trivial⟩
  exact ⟨_, _, _, rfl, ⟨rfl, rfl⟩, ⟨rfl, rfl⟩, ⟨rfl, rfl⟩⟩

end WV.C10
