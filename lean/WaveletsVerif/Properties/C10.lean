/-
  C10 — DWT synthesis equals PyWavelets on arbitrary coefficient pyramids.

  `sfb1dCh` (what `sfb1d` does: two transposed stride-2 convolutions cropped by
  `L-2` on both sides and added) equals PyWavelets' `idwt` formula for arbitrary
  band contents — not only for bands that are the transform of a signal.
-/
import WaveletsVerif.Lemmas.Basic
namespace WV.C10
open Finset WV
variable {R : Type} [CommRing R]

/-- the non-periodization modes of `sfb1d` (zero, symmetric, reflect, periodic all share one
branch): for every pair of bands of equal length `n ≥ 1` and every filter pair of length `L ≥ 2`
with `2n+2 > L`, the code's result is PyWavelets' `idwt`. -/
theorem sfb1dCh_eq_idwt (m : Mode) (hm : m = .zero ∨ m = .symmetric ∨ m = .reflect ∨ m = .periodic)
    (g0 g1 lo hi : List R) (hL : 2 ≤ g0.length) (hg : g1.length = g0.length) (hn : 1 ≤ lo.length)
    (hh : hi.length = lo.length) (hfit : 2 * (g0.length - 2) + 1 ≤ 2 * (lo.length - 1) + g0.length) :
    sfb1dCh m g0 g1 lo hi = some (Spec.idwt m g0 g1 lo hi) := by
  have hguard : ¬ (g0.length < 2 ∨ g1.length ≠ g0.length ∨ lo.length < 1 ∨ hi.length ≠ lo.length) := by
    omega
  have hfit' : ¬ (2 * (lo.length - 1) + g0.length < 2 * (g0.length - 2) + 1) := by omega
  have key : vadd (convT g0 lo (g0.length - 2)) (convT g1 hi (g0.length - 2)) =
      tab (2 * lo.length + 2 - g0.length) fun t => sumN lo.length fun k =>
        getN lo k * getZ g0 ((t:Int) + g0.length - 2 - 2*k) + getN hi k * getZ g1 ((t:Int) + g0.length - 2 - 2*k) := by
    unfold vadd
    apply tab_ext
    · simp [convT, convTFull]; omega
    · intro i hi'
      simp only [convT, convTFull, length_tab] at hi'
      rw [getN_convT _ _ _ _ (by omega), getN_convT _ _ _ _ (by rw [hh, hg]; omega), sumN_eq, hh,
        ← Finset.sum_add_distrib]
      apply Finset.sum_congr rfl; intro k _
      have e : ((i:Int) + ((g0.length - 2 : Nat) : Int) - 2 * (k:Int)) = (i:Int) + g0.length - 2 - 2*k := by
        push_cast [Nat.cast_sub hL]; ring
      rw [e]
  rcases hm with rfl | rfl | rfl | rfl <;>
    simp only [sfb1dCh, Spec.idwt, hguard, hfit', if_false] <;> rw [key]

/-- one step of the level loop on the specification side (what `pywt.waverec` does per level) -/
def stepS (m : Mode) (g0 g1 a : List R) (d : Option (List R)) : List R :=
  let dv := match d with
    | some v => v
    | none => a.map fun _ => (0:R)
  let a' := if a.length = dv.length + 1 then a.take (a.length - 1) else a
  Spec.idwt m g0 g1 a' dv

theorem waverec_eq_foldl (m : Mode) (g0 g1 a : List R) (ds : List (Option (List R))) :
    Spec.waverec m g0 g1 a ds = ds.reverse.foldl (stepS m g0 g1) a := rfl

/-- shapes a forward transform produces: at every level the approximation is as long as the detail
band or one sample longer (the un-pad case), the band is non-empty and long enough for the filter -/
def StepOK (g0 : List R) (a : List R) (d : Option (List R)) : Prop :=
  let n := match d with
    | some v => v.length
    | none => a.length
  (a.length = n ∨ a.length = n + 1) ∧ 1 ≤ n ∧ 2 * (g0.length - 2) + 1 ≤ 2 * (n - 1) + g0.length

def Compat (m : Mode) (g0 g1 : List R) : List R → List (Option (List R)) → Prop
  | _, [] => True
  | a, d :: rest => StepOK g0 a d ∧ Compat m g0 g1 (stepS m g0 g1 a d) rest

/-- one level: `DWT1DInverse`'s loop body (None → zeros, un-pad, `SFB1D`) on one channel is the
specification's step -/
theorem step_eq (m : Mode) (hm : m = .zero ∨ m = .symmetric ∨ m = .reflect ∨ m = .periodic)
    (g0 g1 : List R) (hL : 2 ≤ g0.length) (hg : g1.length = g0.length) (a : List R) (d : Option (List R))
    (hok : StepOK g0 a d) :
    DWT1DInverse_step m g0 g1 [a] (d.map fun v => [v]) = some [stepS m g0 g1 a d] := by
  unfold DWT1DInverse_step stepS
  cases d with
  | some v =>
    obtain ⟨hlen, hn, hfit⟩ := hok
    simp only [Option.map_some, List.headD_cons, List.map_cons, List.map_nil] at *
    by_cases hgt : a.length > v.length
    · have h1 : a.length = v.length + 1 := by omega
      simp only [hgt, if_true, h1]
      unfold SFB1D_forward sfb1dT sfb1dImg
      simp [List.range, List.range.loop]
      rw [sfb1dCh_eq_idwt m hm g0 g1 _ v hL hg (by simp; omega) (by simp; omega) (by simp; omega)]
      simp
    · have h1 : a.length = v.length := by omega
      have h2 : ¬ (a.length = v.length + 1) := by omega
      simp only [hgt, if_false, h2]
      unfold SFB1D_forward sfb1dT sfb1dImg
      simp [List.range, List.range.loop]
      rw [sfb1dCh_eq_idwt m hm g0 g1 a v hL hg (by omega) (by omega) (by rw [h1]; exact hfit)]
      simp
  | none =>
    obtain ⟨_, hn, hfit⟩ := hok
    simp only [Option.map_none, List.headD_cons, List.map_cons, List.map_nil, List.length_map] at *
    have h2 : ¬ (a.length = a.length + 1) := by omega
    simp only [gt_iff_lt, lt_self_iff_false, if_false, h2]
    unfold SFB1D_forward sfb1dT sfb1dImg
    simp [List.range, List.range.loop]
    rw [sfb1dCh_eq_idwt m hm g0 g1 a (List.replicate a.length 0) hL hg hn (by simp) hfit]
    simp

/-- the J-level 1-D synthesis of one channel is PyWavelets' `waverec` on **every** pyramid of
forward-compatible shape — whether or not it is the transform of a signal — including `None`
levels (zeros) and the un-pad rule, for every number of levels; modes zero / symmetric / reflect /
periodic. By induction over the levels. -/
theorem DWT1DInverse_eq_waverec (m : Mode) (hm : m = .zero ∨ m = .symmetric ∨ m = .reflect ∨ m = .periodic)
    (g0 g1 : List R) (hL : 2 ≤ g0.length) (hg : g1.length = g0.length) (a : List R) (ds : List (Option (List R)))
    (hc : Compat m g0 g1 a ds.reverse) :
    DWT1DInverse m g0 g1 [a] (ds.map fun d => d.map fun v => [v]) = some [Spec.waverec m g0 g1 a ds] := by
  rw [waverec_eq_foldl]
  unfold DWT1DInverse
  rw [← List.map_reverse]
  generalize ds.reverse = rs at hc
  induction rs generalizing a with
  | nil => simp
  | cons d rest ih =>
    obtain ⟨hok, hrest⟩ := hc
    simp only [List.map_cons, List.foldlM_cons, List.foldl_cons]
    rw [step_eq m hm g0 g1 hL hg a d hok]
    simp only [Option.bind_eq_bind, Option.bind_some]
    exact ih _ hrest

/-- non-vacuity: a concrete two-level integer pyramid with a None level is compatible -/
example : Compat (R := Int) .zero [1, 2, 1, 1] [1, -1, 2, 1] [1, 2, 3] [none, some [4, 5, 6, 7]] := by
  simp [Compat, StepOK, stepS, Spec.idwt]

end WV.C10
