/-
  The size arithmetic of the filter banks, tied to the source by translation.

  `Gen/Sizes.lean` is regenerated on every run from the integer expressions of `dwt/lowlevel.py` (`afb1d`, `sfb1d`),
  `scatternet/layers.py` (`ScatLayerj2.forward`) and `dtcwt/transform2d.py` (`DTCWTForward.forward`): pad sizes, the odd-size
  tests, the roll shifts, the bounds of the in-place wrap-around folds and of the crops.  The theorems below restate the
  hand-written model with those generated expressions substituted — for all sizes and filter lengths — so an edit of one of
  the expressions in the source breaks a theorem here even if no sampled input shows it.
-/
import WaveletsVerif.Gen.Sizes
import WaveletsVerif.Lemmas.Basic
import WaveletsVerif.Model.Scat
namespace WV.C01Z
open WV WV.Gen.Sizes
variable {R : Type} [CommRing R]

/-! ### `afb1d` -/

/-- mode zero with the generated pad arithmetic (`p`, the odd-`p` extra sample, `p//2`) -/
theorem afb1dOne_zero_gen (w x : List R) (hL : 2 ≤ w.length) (hN : 1 ≤ x.length) :
    afb1dOne .zero w x = some (corr w (zeroPad
      (if (afb1d_p (dwtCoeffLen x.length w.length) x.length w.length) % 2 = 1 then zeroPad x 0 1 else x)
      (afb1d_zero_pad_W (afb1d_p (dwtCoeffLen x.length w.length) x.length w.length)).toNat
      (afb1d_zero_pad_H (afb1d_p (dwtCoeffLen x.length w.length) x.length w.length)).toNat) 2 1) ∧
    (afb1d_zero_extra (afb1d_p (dwtCoeffLen x.length w.length) x.length w.length)
      ↔ (afb1d_p (dwtCoeffLen x.length w.length) x.length w.length) % 2 = 1) := by
  have hguard : ¬ (w.length < 2 ∨ x.length < 1) := by omega
  have hp : afb1d_p (dwtCoeffLen x.length w.length) x.length w.length
      = ((2 * (dwtCoeffLen x.length w.length - 1) + w.length - x.length : Nat) : Int) := by
    unfold afb1d_p dwtCoeffLen; omega
  refine ⟨?_, Iff.rfl⟩
  simp only [afb1dOne, hguard, if_false, hp, afb1d_zero_pad_W, afb1d_zero_pad_H]
  have e1 : ((2 * (dwtCoeffLen x.length w.length - 1) + w.length - x.length : Nat) : Int) % 2 = 1
      ↔ (2 * (dwtCoeffLen x.length w.length - 1) + w.length - x.length) % 2 = 1 := by omega
  have e2 : (((2 * (dwtCoeffLen x.length w.length - 1) + w.length - x.length : Nat) : Int) / (2 : Int)).toNat
      = (2 * (dwtCoeffLen x.length w.length - 1) + w.length - x.length) / 2 := by omega
  rw [e2]
  by_cases h : (2 * (dwtCoeffLen x.length w.length - 1) + w.length - x.length) % 2 = 1
  · rw [if_pos h, if_pos (e1.mpr h)]
  · rw [if_neg h, if_neg (fun h' => h (e1.mp h'))]

/-- the extension modes with the generated pad split `(p//2, (p+1)//2)` -/
theorem afb1dOne_symmetric_gen (w x : List R) (hL : 2 ≤ w.length) (hN : 1 ≤ x.length) :
    afb1dOne .symmetric w x = some (corr w (padIdx symIdx x
      (afb1d_ext_before_W (afb1d_p (dwtCoeffLen x.length w.length) x.length w.length)).toNat
      (afb1d_ext_after_W (afb1d_p (dwtCoeffLen x.length w.length) x.length w.length)).toNat) 2 1) ∧
    afb1d_ext_before_H (afb1d_p (dwtCoeffLen x.length w.length) x.length w.length)
      = afb1d_ext_before_W (afb1d_p (dwtCoeffLen x.length w.length) x.length w.length) ∧
    afb1d_ext_after_H (afb1d_p (dwtCoeffLen x.length w.length) x.length w.length)
      = afb1d_ext_after_W (afb1d_p (dwtCoeffLen x.length w.length) x.length w.length) := by
  have hguard : ¬ (w.length < 2 ∨ x.length < 1) := by omega
  have hp : afb1d_p (dwtCoeffLen x.length w.length) x.length w.length
      = ((2 * (dwtCoeffLen x.length w.length - 1) + w.length - x.length : Nat) : Int) := by
    unfold afb1d_p dwtCoeffLen; omega
  refine ⟨?_, rfl, rfl⟩
  simp only [afb1dOne, hguard, if_false, hp, afb1d_ext_before_W, afb1d_ext_after_W]
  have e2 : (((2 * (dwtCoeffLen x.length w.length - 1) + w.length - x.length : Nat) : Int) / (2 : Int)).toNat
      = (2 * (dwtCoeffLen x.length w.length - 1) + w.length - x.length) / 2 := by omega
  have e3 : ((((2 * (dwtCoeffLen x.length w.length - 1) + w.length - x.length : Nat) : Int) + 1) / (2 : Int)).toNat
      = (2 * (dwtCoeffLen x.length w.length - 1) + w.length - x.length + 1) / 2 := by omega
  rw [e2, e3]

/-- periodization with the generated `L2`, odd test, roll shift, pad, `N2`, fold bounds and crop -/
theorem afb1dOne_per_gen (w x : List R) (hL : 2 ≤ w.length) (hN : 1 ≤ x.length) :
    afb1dOne .periodization w x = some (
      let x1 := if ((x.length : Int) % 2 = 1) then x ++ sliceFrom x (-1) else x
      let x2 := rollPy x1 (afb1d_per_shift (afb1d_L2 w.length))
      let lohi := corr w (zeroPad x2 (afb1d_per_pad_W w.length).toNat (afb1d_per_pad_H w.length).toNat) 2 1
      let N2 := afb1d_per_N2 x1.length
      (foldAdd lohi (afb1d_per_fold_width_W (afb1d_L2 w.length) N2).toNat (afb1d_per_fold_from_W (afb1d_L2 w.length) N2).toNat).take
        (afb1d_per_crop_W N2).toNat) ∧
    (afb1d_per_odd x.length ↔ (x.length : Int) % 2 = 1) ∧
    (∀ L2 N2 : Int, afb1d_per_fold_to_W L2 N2 = afb1d_per_fold_from_W L2 N2 + afb1d_per_fold_width_W L2 N2) ∧
    (∀ L2 N2 : Int, afb1d_per_fold_width_H L2 N2 = afb1d_per_fold_width_W L2 N2 ∧ afb1d_per_fold_from_H L2 N2 = afb1d_per_fold_from_W L2 N2 ∧
      afb1d_per_fold_to_H L2 N2 = afb1d_per_fold_to_W L2 N2 ∧ afb1d_per_crop_H N2 = afb1d_per_crop_W N2) := by
  have hguard : ¬ (w.length < 2 ∨ x.length < 1) := by omega
  refine ⟨?_, Iff.rfl, fun _ _ => by unfold afb1d_per_fold_to_W afb1d_per_fold_from_W afb1d_per_fold_width_W; ring,
    fun _ _ => ⟨rfl, rfl, rfl, rfl⟩⟩
  simp only [afb1dOne, hguard, if_false, afb1d_per_shift, afb1d_L2, afb1d_per_pad_W, afb1d_per_pad_H, afb1d_per_N2,
    afb1d_per_fold_width_W, afb1d_per_fold_from_W, afb1d_per_crop_W]
  have e1 : ((x.length : Int) % 2 = 1) ↔ x.length % 2 = 1 := by omega
  have e2 : ((w.length : Int) - 1).toNat = w.length - 1 := by omega
  have e3 : ((w.length : Int) / 2).toNat = w.length / 2 := by omega
  have e4 : (-((w.length : Int) / 2)) = -(((w.length / 2 : Nat)) : Int) := by omega
  have e5 : ∀ n : Nat, ((n : Int) / 2).toNat = n / 2 := fun n => by omega
  rw [e2, e3, e4]
  by_cases h : x.length % 2 = 1
  · rw [if_pos h, if_pos (e1.mpr h), e5]
  · rw [if_neg h, if_neg (fun h' => h (e1.mp h')), e5]

/-- the pad size read from the source yields PyWavelets' coefficient count: a stride-2 correlation of the signal extended by
`p` samples has exactly `dwt_coeff_len(N, L)` outputs, for every N ≥ 1 and L ≥ 2 -/
theorem afb1d_p_gives_coeff_len (N L : Nat) (hL : 2 ≤ L) (hN : 1 ≤ N) :
    corrLen (N + (afb1d_p (dwtCoeffLen N L) N L).toNat) L 2 1 = dwtCoeffLen N L := by
  have hp : afb1d_p (dwtCoeffLen N L) N L = ((2 * (dwtCoeffLen N L - 1) + L - N : Nat) : Int) := by
    unfold afb1d_p dwtCoeffLen; omega
  rw [hp, Int.toNat_natCast]
  unfold corrLen dwtCoeffLen
  split <;> omega

/-- and the synthesis pad read from the source gives back `2n + 2 − L` samples -/
theorem sfb1d_pad_gives_length (n L : Nat) (hL : 2 ≤ L) (hfit : L ≤ 2 * n + 1) :
    ((sfb1d_N n - 2 + L : Int) - 2 * sfb1d_pad_W L).toNat = 2 * n + 2 - L := by
  unfold sfb1d_N sfb1d_pad_W; omega

/-! ### `sfb1d` -/

theorem sfb1dCh_per_gen (g0 g1 lo hi : List R) (hL : 2 ≤ g0.length) (hg : g1.length = g0.length) (hn : 1 ≤ lo.length)
    (hh : hi.length = lo.length) :
    sfb1dCh .periodization g0 g1 lo hi = some (
      let N := sfb1d_N lo.length
      let y := vadd (convTFull g0 lo) (convTFull g1 hi)
      let y1 := (foldAdd y (sfb1d_per_fold_width_W g0.length N).toNat (sfb1d_per_fold_from_W g0.length N).toNat).take (sfb1d_per_crop_W N).toNat
      rollPy y1 (sfb1d_per_shift g0.length)) ∧
    (∀ L N : Int, sfb1d_per_fold_to_W L N = sfb1d_per_fold_from_W L N + sfb1d_per_fold_width_W L N) ∧
    (∀ L N : Int, sfb1d_per_fold_width_H L N = sfb1d_per_fold_width_W L N ∧ sfb1d_per_fold_from_H L N = sfb1d_per_fold_from_W L N ∧
      sfb1d_per_fold_to_H L N = sfb1d_per_fold_to_W L N ∧ sfb1d_per_crop_H N = sfb1d_per_crop_W N) := by
  have hguard : ¬ (g0.length < 2 ∨ g1.length ≠ g0.length ∨ lo.length < 1 ∨ hi.length ≠ lo.length) := by omega
  refine ⟨?_, fun _ _ => by unfold sfb1d_per_fold_to_W sfb1d_per_fold_from_W sfb1d_per_fold_width_W; ring, fun _ _ => ⟨rfl, rfl, rfl, rfl⟩⟩
  simp only [sfb1dCh, hguard, if_false, sfb1d_N, sfb1d_per_fold_width_W, sfb1d_per_fold_from_W, sfb1d_per_crop_W, sfb1d_per_shift]
  have e1 : ((g0.length : Int) - 2).toNat = g0.length - 2 := by omega
  have e2 : ((2 : Int) * (lo.length : Int)).toNat = 2 * lo.length := by omega
  have e3 : (1 : Int) - (g0.length : Int) / 2 = 1 - (((g0.length / 2 : Nat)) : Int) := by omega
  rw [e1, e2, e3]

theorem sfb1dCh_zero_gen (g0 g1 lo hi : List R) (hL : 2 ≤ g0.length) (hg : g1.length = g0.length) (hn : 1 ≤ lo.length)
    (hh : hi.length = lo.length) (hfit : g0.length ≤ 2 * lo.length + 1) :
    sfb1dCh .zero g0 g1 lo hi = some (vadd (convT g0 lo (sfb1d_pad_W g0.length).toNat) (convT g1 hi (sfb1d_pad_H g0.length).toNat)) := by
  have hguard : ¬ (g0.length < 2 ∨ g1.length ≠ g0.length ∨ lo.length < 1 ∨ hi.length ≠ lo.length) := by omega
  have hfit' : ¬ (2 * (lo.length - 1) + g0.length < 2 * (g0.length - 2) + 1) := by omega
  have e1 : ((g0.length : Int) - 2).toNat = g0.length - 2 := by omega
  simp only [sfb1dCh, hguard, hfit', if_false, sfb1d_pad_W, sfb1d_pad_H, e1]

/-! ### `ScatLayerj2.forward`: extension to multiples of 8 -/

omit [CommRing R] in
theorem pad8_gen (x : List R) :
    pad8 x = (if scatj2_rem_rows x.length = 0 then x else
      sliceTo x (scatj2_rows_before (scatj2_rem_rows x.length)) ++ x ++ sliceFrom x (-(scatj2_rows_after (scatj2_rem_rows x.length)))) ∧
    (∀ c : Int, scatj2_rem_cols c = scatj2_rem_rows c) ∧
    (∀ r : Int, scatj2_cols_before r = scatj2_rows_before r ∧ scatj2_cols_after r = scatj2_rows_after r) ∧
    (∀ r : Int, scatj2_extend r ↔ ¬ r = 0) := by
  refine ⟨?_, fun _ => rfl, fun _ => ⟨rfl, rfl⟩, fun _ => Iff.rfl⟩
  unfold pad8 scatj2_rem_rows scatj2_rows_before scatj2_rows_after
  simp only []
  have e0 : ((x.length : Int) % 8 = 0) ↔ x.length % 8 = 0 := by omega
  have e1 : ((8 : Int) - (x.length : Int) % 8) / 2 = (((8 - x.length % 8) / 2 : Nat) : Int) := by omega
  have e2 : ((9 : Int) - (x.length : Int) % 8) / 2 = (((9 - x.length % 8) / 2 : Nat) : Int) := by omega
  by_cases h : x.length % 8 = 0
  · rw [if_pos h, if_pos (e0.mpr h)]
  · rw [if_neg h, if_neg (fun h' => h (e0.mp h')), e1, e2]

/-! ### `DTCWTForward.forward`: the odd-size and multiple-of-4 tests -/

omit [CommRing R] in
theorem extendEven_gen (x : Img R) :
    extendEven x = (let x1 : Img R := if x.length % 2 ≠ 0 then x ++ sliceFrom x (-1) else x
                    if x1.width % 2 ≠ 0 then x1.map (fun r => r ++ sliceFrom r (-1)) else x1) ∧
    (∀ n : Nat, dtcwt_fwd_rows_odd n ↔ n % 2 ≠ 0) ∧ (∀ n : Nat, dtcwt_fwd_cols_odd n ↔ n % 2 ≠ 0) ∧
    (∀ n : Nat, dtcwt_fwd_rows_pad4 n ↔ n % 4 ≠ 0) ∧ (∀ n : Nat, dtcwt_fwd_cols_pad4 n ↔ n % 4 ≠ 0) := by
  refine ⟨rfl, fun n => ?_, fun n => ?_, fun n => ?_, fun n => ?_⟩ <;>
    (first | unfold dtcwt_fwd_rows_odd | unfold dtcwt_fwd_cols_odd | unfold dtcwt_fwd_rows_pad4 | unfold dtcwt_fwd_cols_pad4) <;> omega

end WV.C01Z
