/-
  C05 — synthesis side, PERIODIZATION mode: `SFB1D.backward`, `SFB2D.backward` and the chain of `SFB2D.backward` through the
  whole J-level `DWTInverse` are the exact adjoints of the forward passes, for ANY even-length synthesis filters.

  `SFB1D.backward` / `SFB2D.backward` run the analysis bank `afb1d(dy, g0, g1, mode)` with the synthesis filters as they are
  (no reversal).  In periodization on an even length not shorter than the filter that analysis bank is the transpose of the
  synthesis bank (`C17.impl_transpose`, `C17T.inverse_is_transpose`, both for arbitrary filter VALUES), so
      `⟨SFB(lo, hi), dy⟩ = ⟨lo, dlow⟩ + ⟨hi, dhigh⟩`                                  (1-D, `SFB1D_per_adjoint`)
      `⟨SFB2D(ll, lh, hl, hh), dy⟩ = ⟨ll, dll⟩ + ⟨lh, dlh⟩ + ⟨hl, dhl⟩ + ⟨hh, dhh⟩`  (2-D, `SFB2D_per_adjoint`)
  and, over the module's level loop (no level crops at even sizes, so the chain of backward passes `C05K.DWTInverseBackward`
  runs with no zero extension — `bwd_eq_fwd`: it IS the model of `DWTForward` with the synthesis filters on the cotangent),
      `⟨DWTInverse(yl, yh), dy⟩ = ⟨yl, d yl⟩ + Σ_levels (⟨lh, d lh⟩ + ⟨hl, d hl⟩ + ⟨hh, d hh⟩)`   (`DWTInverse_per_adjoint`)
  for every J whose levels have even sides not shorter than the filters (`C17K.LevelsOK2`).
  Shorter levels are the recorded periodization finding; odd sizes cannot occur on the synthesis side (outputs are even).
-/
import WaveletsVerif.Properties.C17T
import WaveletsVerif.Properties.C05K
namespace WV.C05T
open Finset WV WV.C04 WV.C04Q WV.C06 WV.C05D WV.C05S WV.C05P WV.C17K WV.C17T WV.C05K
variable {R : Type} [CommRing R]

/-- **`SFB1D.backward` is the adjoint of `SFB1D.forward` in periodization mode**: for any synthesis filters `g0, g1` of one even
length `L ≥ 2`, bands of length `n` with `L ≤ 2n` and every cotangent `dy` of the output length `2n`. -/
theorem SFB1D_per_adjoint (g0 g1 lo hi dy : List R) (hL : 2 ≤ g0.length) (hLe : g0.length % 2 = 0)
    (hg : g1.length = g0.length) (hh : hi.length = lo.length) (hdy : dy.length = 2 * lo.length)
    (hfit : g0.length ≤ 2 * lo.length) :
    ∃ y dlow dhigh, sfb1dCh .periodization g0 g1 lo hi = some y ∧
      afb1dOne .periodization g0 dy = some dlow ∧ afb1dOne .periodization g1 dy = some dhigh ∧
      ∑ u ∈ range dy.length, getN dy u * getN y u
        = ∑ k ∈ range lo.length, getN lo k * getN dlow k + ∑ k ∈ range lo.length, getN hi k * getN dhigh k := by
  have hn : dy.length / 2 = lo.length := by omega
  obtain ⟨a0, a1, y, e0, e1, ey, hd⟩ := C17.impl_transpose g0.reverse g1.reverse dy lo hi (by simpa using hL) (by simpa using hLe)
    (by simp [hg]) (by omega) (by simp; omega) (by omega) (by omega)
  simp only [List.reverse_reverse] at e0 e1 ey
  rw [hn] at hd
  exact ⟨y, a0, a1, ey, e0, e1, hd⟩

/-- non-vacuity: a two-tap bank on bands of length 2 and a cotangent of length 4 -/
example : (2 ≤ ([1, 1] : List Int).length) ∧ ([1, 1] : List Int).length % 2 = 0 ∧ ([3, 1, 4, 1] : List Int).length = 2 * ([7, 8] : List Int).length
    ∧ ([1, 1] : List Int).length ≤ 2 * ([7, 8] : List Int).length := by decide

section twod
variable (gr0 gr1 gc0 gc1 : List R) (hLr : 2 ≤ gr0.length) (hLre : gr0.length % 2 = 0) (hgr : gr1.length = gr0.length)
    (hLc : 2 ≤ gc0.length) (hLce : gc0.length % 2 = 0) (hgc : gc1.length = gc0.length)

include hLr hLre hgr hLc hLce hgc in
/-- **`SFB2D.backward` is the adjoint of `SFB2D.forward` in periodization mode**, one channel, any even-length synthesis filters,
every even output size `H × W` not smaller than the filters -/
theorem SFB2D_per_adjoint (H W : Nat) (hHe : H % 2 = 0) (hWe : W % 2 = 0) (hfH : gc0.length ≤ H) (hfW : gr0.length ≤ W)
    (ll lh hl hh dy : Img R) (r1 : Rect ll (H / 2) (W / 2)) (r2 : Rect lh (H / 2) (W / 2)) (r3 : Rect hl (H / 2) (W / 2))
    (r4 : Rect hh (H / 2) (W / 2)) (rdy : Rect dy H W) :
    ∃ y dll dlh dhl dhh, SFB2D_forward .periodization gr0 gr1 gc0 gc1 [ll] [[lh, hl, hh]] = some [y] ∧ Rect y H W ∧
      SFB2D_backward .periodization gr0 gr1 gc0 gc1 [dy] = some ([dll], [[dlh, dhl, dhh]]) ∧
      Rect dll (H / 2) (W / 2) ∧ Rect dlh (H / 2) (W / 2) ∧ Rect dhl (H / 2) (W / 2) ∧ Rect dhh (H / 2) (W / 2) ∧
      dot2 H W dy y = dot2 (H / 2) (W / 2) dll ll + dot2 (H / 2) (W / 2) dlh lh + dot2 (H / 2) (W / 2) dhl hl + dot2 (H / 2) (W / 2) dhh hh := by
  obtain ⟨dll, dlh, dhl, dhh, y, hf, hi, ry, q1, q2, q3, q4, hd⟩ := C17T.inverse_is_transpose gr0.reverse gr1.reverse gc0.reverse gc1.reverse
    (by simpa using hLr) (by simpa using hLre) (by simp [hgr]) (by simpa using hLc) (by simpa using hLce) (by simp [hgc]) H W hHe hWe
    (by simpa using hfH) (by simpa using hfW) dy ll lh hl hh rdy r1 r2 r3 r4
  simp only [List.reverse_reverse] at hf hi
  exact ⟨y, dll, dlh, dhl, dhh, hi, ry, by rw [C05S.SFB2D_backward_eq]; exact hf, q1, q2, q3, q4, hd.symm⟩

include hLr hLre hgr hLc hLce hgc in
/-- with no level crops the chain of `SFB2D.backward` passes through the module's loop is the model of `DWTForward` with the
synthesis filters, applied to the cotangent (one channel) -/
theorem bwd_eq_fwd : ∀ (J : Nat) (dy : Img R) (H W : Nat), Rect dy H W → 1 ≤ H → 1 ≤ W →
    LevelsOK2 gc0.length gr0.length J H W → ∀ (yl : Img R) (yh : List (List (List (Img R)))),
      DWTForward .periodization gc0 gc1 gr0 gr1 J [dy] = some ([yl], yh) →
      DWTInverseBackward .periodization gr0 gr1 gc0 gc1 (List.replicate J (false, false)) dy = some (yl, yh.map fun l => l.getD 0 [])
  | 0, dy, H, W, _, _, _, _, yl, yh, h => by
    simp only [DWTForward, Option.some.injEq, Prod.mk.injEq, List.cons.injEq, and_true] at h
    obtain ⟨rfl, rfl⟩ := h
    simp [DWTInverseBackward]
  | J+1, dy, H, W, hx, hH, hW, hok, yl, yh, h => by
    obtain ⟨hHe, hWe, hfH, hfW, hokr⟩ := hok
    have hfv := C05P.AFB2D_forward_val gr0.reverse gr1.reverse gc0.reverse gc1.reverse (by simpa using hLr) (by simpa using hLre)
      (by simp [hgr]) (by simpa using hLc) (by simpa using hLce) (by simp [hgc]) H W hH hW (by simp; omega) (by simp; omega) dy hx
    simp only [List.reverse_reverse] at hfv
    have eH : (H + H % 2) / 2 = H / 2 := by omega
    have eW : (W + W % 2) / 2 = W / 2 := by omega
    have rW : ∀ w : List R, Rect (alongW (Ap w) dy) H (W / 2) := by
      intro w
      rw [alongW_get' (Ap w) dy H W _ hx (fun c hc => by rw [Ap_length, hc, eW])]
      exact tab2_rect _ _ _
    have rll : Rect (alongH (Ap gc0.reverse) (alongW (Ap gr0.reverse) dy)) (H / 2) (W / 2) := by
      rw [alongH_get' (Ap gc0.reverse) _ H (H / 2) (W / 2) (rW gr0.reverse) hH (by omega) (fun c hc => by rw [Ap_length, hc, eH])]
      exact tab2_rect _ _ _
    simp only [DWTForward] at h
    rw [hfv] at h
    simp only [Option.bind_eq_bind, Option.bind_some] at h
    cases hrec : DWTForward .periodization gc0 gc1 gr0 gr1 J [alongH (Ap gc0.reverse) (alongW (Ap gr0.reverse) dy)] with
    | none => rw [hrec] at h; simp at h
    | some p =>
      obtain ⟨yl', yh'⟩ := p
      rw [hrec] at h
      simp only [Option.bind_some, Option.some.injEq, Prod.mk.injEq] at h
      obtain ⟨e1, e2⟩ := h
      subst e1; subst e2
      have ih := bwd_eq_fwd J _ (H / 2) (W / 2) rll (by omega) (by omega) hokr yl yh' hrec
      simp only [List.replicate_succ, DWTInverseBackward, C05S.SFB2D_backward_eq]
      rw [hfv]
      simp only [Option.bind_eq_bind, Option.bind_some, List.getD_cons_zero, padBack, Bool.false_eq_true, if_false]
      rw [ih]
      simp

include hLr hLre hgr hLc hLce hgc in
/-- **back-propagation through the whole J-level `DWTInverse` in periodization mode is the exact adjoint**: for every J whose
levels have even sides not shorter than the filters, every pyramid `(gl, gh)` of forward shapes and every cotangent `dy` of the
output size, `⟨DWTInverse(gl, gh), dy⟩ = ⟨gl, d gl⟩ + Σ_levels Σ_bands ⟨band, d band⟩` with the gradients returned by the chain
of hand-written backward passes (`pdot` pairs the low-pass and the three bands of every level). -/
theorem DWTInverse_per_adjoint (J : Nat) (dy : Img R) (H W : Nat) (gl : Img R) (gh : List (List (Img R))) (hdy : Rect dy H W)
    (hH : 1 ≤ H) (hW : 1 ≤ W) (hok : LevelsOK2 gc0.length gr0.length J H W) (hp : PyrRect J H W gl gh) :
    ∃ y dl dh, DWTInverse .periodization gc0 gc1 gr0 gr1 [gl] (gh.map fun b => some [b]) = some [y] ∧ Rect y H W ∧
      DWTInverseBackward .periodization gr0 gr1 gc0 gc1 (List.replicate J (false, false)) dy = some (dl, dh.map fun l => l.getD 0 []) ∧
      idot dy y = pdot dl dh gl gh := by
  obtain ⟨yl, yh, y, hf, hi, ry, hd⟩ := C17T.DWT2D_inverse_is_transpose gr0.reverse gr1.reverse gc0.reverse gc1.reverse
    (by simpa using hLr) (by simpa using hLre) (by simp [hgr]) (by simpa using hLc) (by simpa using hLce) (by simp [hgc])
    J dy H W gl gh hdy hH hW (by simpa using hok) hp
  simp only [List.reverse_reverse] at hf hi
  exact ⟨y, yl, yh, hi, ry, bwd_eq_fwd gr0 gr1 gc0 gc1 hLr hLre hgr hLc hLce hgc J dy H W hdy hH hW hok yl yh hf, hd.symm⟩

end twod

/-- non-vacuity: a 4 × 4 cotangent, two levels, two-tap filters meet `LevelsOK2` -/
example : LevelsOK2 2 2 2 4 4 := by simp [LevelsOK2]

end WV.C05T
