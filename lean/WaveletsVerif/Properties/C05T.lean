/-
  C05 — synthesis side, PERIODIZATION mode: `SFB1D.backward`, `SFB2D.backward` and the chain of `SFB2D.backward` through the
  whole J-level `DWTInverse` are the exact adjoints of the forward passes, for ANY even-length synthesis filters.

  `SFB1D.backward` / `SFB2D.backward` run the analysis bank `afb1d(dy, g0, g1, mode)` with the synthesis filters as they are
  (no reversal).  In periodization on an even length not shorter than the filter that analysis bank is the transpose of the
  synthesis bank (`C17.impl_transpose`, `C17T.inverse_is_transpose`, both for arbitrary filter VALUES), so
      `⟨SFB(lo, hi), dy⟩ = ⟨lo, dlow⟩ + ⟨hi, dhigh⟩`                                  (1-D, `SFB1D_per_adjoint`)
      `⟨SFB2D(ll, lh, hl, hh), dy⟩ = ⟨ll, dll⟩ + ⟨lh, dlh⟩ + ⟨hl, dhl⟩ + ⟨hh, dhh⟩`  (2-D, `SFB2D_per_adjoint`)
  and, over the module's level loop (no level crops at even sizes, so the chain of backward passes `C05K.DWTInverseBackward`
  runs with no zero extension — `bwd_eq_fwd`: it IS the model of `DWTForward` with the synthesis filters on the cotangent),
      `⟨DWTInverse(yl, yh), dy⟩ = ⟨yl, d yl⟩ + Σ_levels (⟨lh, d lh⟩ + ⟨hl, d hl⟩ + ⟨hh, d hh⟩)`   (`DWTInverse_per_adjoint`)
  for every J whose levels have even sides not shorter than the filters (`C17K.LevelsOK2`).
  Shorter levels are the recorded periodization finding; odd sizes cannot occur on the synthesis side (outputs are even).
-/
import WaveletsVerif.Properties.C17T
import WaveletsVerif.Properties.C05K
import WaveletsVerif.Properties.C07M
namespace WV.C05T
open Finset WV WV.C04 WV.C04Q WV.C06 WV.C05D WV.C05S WV.C05P WV.C17K WV.C17T WV.C05K WV.C07M
variable {R : Type} [CommRing R]

/-- **`SFB1D.backward` is the adjoint of `SFB1D.forward` in periodization mode**: for any synthesis filters `g0, g1` of one even
length `L ≥ 2`, bands of length `n` with `L ≤ 2n` and every cotangent `dy` of the output length `2n`. -/
theorem SFB1D_per_adjoint (g0 g1 lo hi dy : List R) (hL : 2 ≤ g0.length) (hLe : g0.length % 2 = 0)
    (hg : g1.length = g0.length) (hh : hi.length = lo.length) (hdy : dy.length = 2 * lo.length)
    (hfit : g0.length ≤ 2 * lo.length) :
    ∃ y dlow dhigh, sfb1dCh .periodization g0 g1 lo hi = some y ∧
      afb1dOne .periodization g0 dy = some dlow ∧ afb1dOne .periodization g1 dy = some dhigh ∧
      ∑ u ∈ range dy.length, getN dy u * getN y u
        = ∑ k ∈ range lo.length, getN lo k * getN dlow k + ∑ k ∈ range lo.length, getN hi k * getN dhigh k := by
  have hn : dy.length / 2 = lo.length := by omega
  obtain ⟨a0, a1, y, e0, e1, ey, hd⟩ := C17.impl_transpose g0.reverse g1.reverse dy lo hi (by simpa using hL) (by simpa using hLe)
    (by simp [hg]) (by omega) (by simp; omega) (by omega) (by omega)
  simp only [List.reverse_reverse] at e0 e1 ey
  rw [hn] at hd
  exact ⟨y, a0, a1, ey, e0, e1, hd⟩

/-- non-vacuity: a two-tap bank on bands of length 2 and a cotangent of length 4 -/
example : (2 ≤ ([1, 1] : List Int).length) ∧ ([1, 1] : List Int).length % 2 = 0 ∧ ([3, 1, 4, 1] : List Int).length = 2 * ([7, 8] : List Int).length
    ∧ ([1, 1] : List Int).length ≤ 2 * ([7, 8] : List Int).length := by decide

section twod
variable (gr0 gr1 gc0 gc1 : List R) (hLr : 2 ≤ gr0.length) (hLre : gr0.length % 2 = 0) (hgr : gr1.length = gr0.length)
    (hLc : 2 ≤ gc0.length) (hLce : gc0.length % 2 = 0) (hgc : gc1.length = gc0.length)

include hLr hLre hgr hLc hLce hgc in
/-- **`SFB2D.backward` is the adjoint of `SFB2D.forward` in periodization mode**, one channel, any even-length synthesis filters,
every even output size `H × W` not smaller than the filters -/
theorem SFB2D_per_adjoint (H W : Nat) (hHe : H % 2 = 0) (hWe : W % 2 = 0) (hfH : gc0.length ≤ H) (hfW : gr0.length ≤ W)
    (ll lh hl hh dy : Img R) (r1 : Rect ll (H / 2) (W / 2)) (r2 : Rect lh (H / 2) (W / 2)) (r3 : Rect hl (H / 2) (W / 2))
    (r4 : Rect hh (H / 2) (W / 2)) (rdy : Rect dy H W) :
    ∃ y dll dlh dhl dhh, SFB2D_forward .periodization gr0 gr1 gc0 gc1 [ll] [[lh, hl, hh]] = some [y] ∧ Rect y H W ∧
      SFB2D_backward .periodization gr0 gr1 gc0 gc1 [dy] = some ([dll], [[dlh, dhl, dhh]]) ∧
      Rect dll (H / 2) (W / 2) ∧ Rect dlh (H / 2) (W / 2) ∧ Rect dhl (H / 2) (W / 2) ∧ Rect dhh (H / 2) (W / 2) ∧
      dot2 H W dy y = dot2 (H / 2) (W / 2) dll ll + dot2 (H / 2) (W / 2) dlh lh + dot2 (H / 2) (W / 2) dhl hl + dot2 (H / 2) (W / 2) dhh hh := by
  obtain ⟨dll, dlh, dhl, dhh, y, hf, hi, ry, q1, q2, q3, q4, hd⟩ := C17T.inverse_is_transpose gr0.reverse gr1.reverse gc0.reverse gc1.reverse
    (by simpa using hLr) (by simpa using hLre) (by simp [hgr]) (by simpa using hLc) (by simpa using hLce) (by simp [hgc]) H W hHe hWe
    (by simpa using hfH) (by simpa using hfW) dy ll lh hl hh rdy r1 r2 r3 r4
  simp only [List.reverse_reverse] at hf hi
  exact ⟨y, dll, dlh, dhl, dhh, hi, ry, by rw [C05S.SFB2D_backward_eq]; exact hf, q1, q2, q3, q4, hd.symm⟩

include hLr hLre hgr hLc hLce hgc in
/-- with no level crops the chain of `SFB2D.backward` passes through the module's loop is the model of `DWTForward` with the
synthesis filters, applied to the cotangent (one channel) -/
theorem bwd_eq_fwd : ∀ (J : Nat) (dy : Img R) (H W : Nat), Rect dy H W → 1 ≤ H → 1 ≤ W →
    LevelsOK2 gc0.length gr0.length J H W → ∀ (yl : Img R) (yh : List (List (List (Img R)))),
      DWTForward .periodization gc0 gc1 gr0 gr1 J [dy] = some ([yl], yh) →
      DWTInverseBackward .periodization gr0 gr1 gc0 gc1 (List.replicate J (false, false)) dy = some (yl, yh.map fun l => l.getD 0 [])
  | 0, dy, H, W, _, _, _, _, yl, yh, h => by
    simp only [DWTForward, Option.some.injEq, Prod.mk.injEq, List.cons.injEq, and_true] at h
    obtain ⟨rfl, rfl⟩ := h
    simp [DWTInverseBackward]
  | J+1, dy, H, W, hx, hH, hW, hok, yl, yh, h => by
    obtain ⟨hHe, hWe, hfH, hfW, hokr⟩ := hok
    have hfv := C05P.AFB2D_forward_val gr0.reverse gr1.reverse gc0.reverse gc1.reverse (by simpa using hLr) (by simpa using hLre)
      (by simp [hgr]) (by simpa using hLc) (by simpa using hLce) (by simp [hgc]) H W hH hW (by simp; omega) (by simp; omega) dy hx
    simp only [List.reverse_reverse] at hfv
    have eH : (H + H % 2) / 2 = H / 2 := by omega
    have eW : (W + W % 2) / 2 = W / 2 := by omega
    have rW : ∀ w : List R, Rect (alongW (Ap w) dy) H (W / 2) := by
      intro w
      rw [alongW_get' (Ap w) dy H W _ hx (fun c hc => by rw [Ap_length, hc, eW])]
      exact tab2_rect _ _ _
    have rll : Rect (alongH (Ap gc0.reverse) (alongW (Ap gr0.reverse) dy)) (H / 2) (W / 2) := by
      rw [alongH_get' (Ap gc0.reverse) _ H (H / 2) (W / 2) (rW gr0.reverse) hH (by omega) (fun c hc => by rw [Ap_length, hc, eH])]
      exact tab2_rect _ _ _
    simp only [DWTForward] at h
    rw [hfv] at h
    simp only [Option.bind_eq_bind, Option.bind_some] at h
    cases hrec : DWTForward .periodization gc0 gc1 gr0 gr1 J [alongH (Ap gc0.reverse) (alongW (Ap gr0.reverse) dy)] with
    | none => rw [hrec] at h; simp at h
    | some p =>
      obtain ⟨yl', yh'⟩ := p
      rw [hrec] at h
      simp only [Option.bind_some, Option.some.injEq, Prod.mk.injEq] at h
      obtain ⟨e1, e2⟩ := h
      subst e1; subst e2
      have ih := bwd_eq_fwd J _ (H / 2) (W / 2) rll (by omega) (by omega) hokr yl yh' hrec
      simp only [List.replicate_succ, DWTInverseBackward, C05S.SFB2D_backward_eq]
      rw [hfv]
      simp only [Option.bind_eq_bind, Option.bind_some, List.getD_cons_zero, padBack, Bool.false_eq_true, if_false]
      rw [ih]
      simp

include hLr hLre hgr hLc hLce hgc in
/-- **back-propagation through the whole J-level `DWTInverse` in periodization mode is the exact adjoint**: for every J whose
levels have even sides not shorter than the filters, every pyramid `(gl, gh)` of forward shapes and every cotangent `dy` of the
output size, `⟨DWTInverse(gl, gh), dy⟩ = ⟨gl, d gl⟩ + Σ_levels Σ_bands ⟨band, d band⟩` with the gradients returned by the chain
of hand-written backward passes (`pdot` pairs the low-pass and the three bands of every level). -/
theorem DWTInverse_per_adjoint (J : Nat) (dy : Img R) (H W : Nat) (gl : Img R) (gh : List (List (Img R))) (hdy : Rect dy H W)
    (hH : 1 ≤ H) (hW : 1 ≤ W) (hok : LevelsOK2 gc0.length gr0.length J H W) (hp : PyrRect J H W gl gh) :
    ∃ y dl dh, DWTInverse .periodization gc0 gc1 gr0 gr1 [gl] (gh.map fun b => some [b]) = some [y] ∧ Rect y H W ∧
      DWTInverseBackward .periodization gr0 gr1 gc0 gc1 (List.replicate J (false, false)) dy = some (dl, dh.map fun l => l.getD 0 []) ∧
      idot dy y = pdot dl dh gl gh := by
  obtain ⟨yl, yh, y, hf, hi, ry, hd⟩ := C17T.DWT2D_inverse_is_transpose gr0.reverse gr1.reverse gc0.reverse gc1.reverse
    (by simpa using hLr) (by simpa using hLre) (by simp [hgr]) (by simpa using hLc) (by simpa using hLce) (by simp [hgc])
    J dy H W gl gh hdy hH hW (by simpa using hok) hp
  simp only [List.reverse_reverse] at hf hi
  exact ⟨y, yl, yh, hi, ry, bwd_eq_fwd gr0 gr1 gc0 gc1 hLr hLre hgr hLc hLce hgc J dy H W hdy hH hW hok yl yh hf, hd.symm⟩

end twod


/-! ### every number of channels -/

section channels
variable (wr0 wr1 wc0 wc1 : List R) (hLr : 2 ≤ wr0.length) (hLre : wr0.length % 2 = 0) (hwr : wr1.length = wr0.length)
    (hLc : 2 ≤ wc0.length) (hLce : wc0.length % 2 = 0) (hwc : wc1.length = wc0.length) (H W : Nat)
    (hHe : H % 2 = 0) (hWe : W % 2 = 0) (hfH : wc0.length ≤ H) (hfW : wr0.length ≤ W)

include hLr hLre hwr hLc hLce hwc hHe hWe hfH hfW in
/-- the channel-stack statement with the buffers written as reversed analysis filters and the band sizes as `(H + H % 2) / 2` -/
theorem SFB2D_per_adjoint_channels_aux (lows dys : List (Img R)) (highs : List (List (Img R))) (hl1 : highs.length = lows.length)
    (hl2 : dys.length = lows.length)
    (hr : ∀ c < lows.length, Rect (lows.getD c []) ((H + H % 2) / 2) ((W + W % 2) / 2) ∧
      ∀ k < 3, Rect ((highs.getD c []).getD k []) ((H + H % 2) / 2) ((W + W % 2) / 2))
    (hd : ∀ c < lows.length, Rect (dys.getD c []) H W) :
    ∃ ys dlows dhighs, SFB2D_forward .periodization wr0.reverse wr1.reverse wc0.reverse wc1.reverse lows highs = some ys ∧
      SFB2D_backward .periodization wr0.reverse wr1.reverse wc0.reverse wc1.reverse dys = some (dlows, dhighs) ∧
      ∀ c < lows.length,
        dot2 H W (dys.getD c []) (ys.getD c [])
          = dot2 ((H + H % 2) / 2) ((W + W % 2) / 2) (dlows.getD c []) (lows.getD c [])
            + dot2 ((H + H % 2) / 2) ((W + W % 2) / 2) ((dhighs.getD c []).getD 0 []) ((highs.getD c []).getD 0 [])
            + dot2 ((H + H % 2) / 2) ((W + W % 2) / 2) ((dhighs.getD c []).getD 1 []) ((highs.getD c []).getD 1 [])
            + dot2 ((H + H % 2) / 2) ((W + W % 2) / 2) ((dhighs.getD c []).getD 2 []) ((highs.getD c []).getD 2 []) := by
  have hH : 1 ≤ H := by omega
  have hW : 1 ≤ W := by omega
  have eH2 : (H + H % 2) / 2 = H / 2 := by omega
  have eW2 : (W + W % 2) / 2 = W / 2 := by omega
  have hKh : 1 ≤ (H + H % 2) / 2 := by omega
  have hKw : 1 ≤ (W + W % 2) / 2 := by omega
  -- the analysis bank (= the backward pass) on the stack of cotangents
  have eW : ∀ (w : List R), 2 ≤ w.length → w.length % 2 = 0 → w.length ≤ W + W % 2 → ∀ (x : Img R), Rect x H W →
      alongO .W (afb1dOne .periodization w.reverse) x = some (alongW (Ap w) x) := by
    intro w hw hwe hfit x hx
    show alongWO _ x = _
    apply alongWO_total
    intro c hc
    exact C01.afb1dOne_per_eq_dwt_partial_all w c hwe hw (by rw [hx.2 c hc]; exact hW) (by rw [hx.2 c hc]; exact hfit)
  have eH : ∀ (w : List R), 2 ≤ w.length → w.length % 2 = 0 → w.length ≤ H + H % 2 → ∀ (y : Img R), y.length = H →
      alongO .H (afb1dOne .periodization w.reverse) y = some (alongH (Ap w) y) := by
    intro w hw hwe hfit y hy
    show alongHO _ y = _
    apply alongHO_total
    intro c hc
    exact C01.afb1dOne_per_eq_dwt_partial_all w c hwe hw (by rw [hc, hy]; exact hH) (by rw [hc, hy]; exact hfit)
  have rl : ∀ (w : List R) (x : Img R), Rect x H W → (alongW (Ap w) x).length = H := by
    intro w x hx
    rw [alongW_get' (Ap w) x H W _ hx (fun c hc => by rw [Ap_length, hc])]
    exact (tab2_rect _ _ _).1
  have hd' : ∀ c < dys.length, Rect (dys.getD c []) H W := by rw [hl2]; exact hd
  have hbwd := AFB2D_forward_channels .periodization wr0.reverse wr1.reverse wc0.reverse wc1.reverse dys
    (alongW (Ap wr0)) (alongW (Ap wr1)) (alongH (Ap wc0)) (alongH (Ap wc1))
    (fun c hc => ⟨eW wr0 hLr hLre (by omega) _ (hd' c hc), eW wr1 (by omega) (by omega) (by omega) _ (hd' c hc)⟩)
    (fun c hc y hy => by
      have hyl : y.length = H := by
        rcases hy with rfl | rfl
        · exact rl _ _ (hd' c hc)
        · exact rl _ _ (hd' c hc)
      exact ⟨eH wc0 hLc hLce (by omega) y hyl, eH wc1 (by omega) (by omega) (by omega) y hyl⟩)
  -- the synthesis bank on the stack of coefficients
  have hSc := sfb_per_val wc0 wc1 hLc hwc ((H + H % 2) / 2) hKh (by omega)
  have hSr := sfb_per_val wr0 wr1 hLr hwr ((W + W % 2) / 2) hKw (by omega)
  have lSc : ∀ a b : List R, a.length = (H + H % 2) / 2 → (Ip wc0.reverse wc1.reverse a b).length = 2 * ((H + H % 2) / 2) :=
    fun a b ha => by rw [Ip_length, ha]
  have lSr : ∀ a b : List R, a.length = (W + W % 2) / 2 → (Ip wr0.reverse wr1.reverse a b).length = 2 * ((W + W % 2) / 2) :=
    fun a b ha => by rw [Ip_length, ha]
  have hfwd := SFB2D_forward_channels .periodization wr0.reverse wr1.reverse wc0.reverse wc1.reverse lows highs hl1
    (colzip (Ip wc0.reverse wc1.reverse) (2 * ((H + H % 2) / 2)) ((W + W % 2) / 2))
    (rowzip (Ip wr0.reverse wr1.reverse) (2 * ((H + H % 2) / 2)) (2 * ((W + W % 2) / 2)))
    (fun c hc => sfb1dImg_H_gen .periodization _ _ _ _ _ hSc lSc _ _ _ (hr c hc).1 ((hr c hc).2 0 (by omega)) hKh hKw)
    (fun c hc => sfb1dImg_H_gen .periodization _ _ _ _ _ hSc lSc _ _ _ ((hr c hc).2 1 (by omega)) ((hr c hc).2 2 (by omega)) hKh hKw)
    (fun c hc => sfb1dImg_W_gen .periodization _ _ _ _ _ hSr lSr _ _ _ (colzip_rect _ _ _ _ _) (colzip_rect _ _ _ _ _))
  refine ⟨_, _, _, hfwd, by rw [C05S.SFB2D_backward_eq]; exact hbwd, ?_⟩
  intro c hc
  have q1 := (hr c hc).1
  have q2 := (hr c hc).2 0 (by omega)
  have q3 := (hr c hc).2 1 (by omega)
  have q4 := (hr c hc).2 2 (by omega)
  rw [eH2, eW2] at q1 q2 q3 q4
  obtain ⟨ll, lh, hl, hh, y, hf, hi, _, _, _, _, _, hid⟩ := C17T.inverse_is_transpose wr0 wr1 wc0 wc1 hLr hLre hwr hLc hLce hwc H W hHe hWe
    hfH hfW (dys.getD c []) (lows.getD c []) ((highs.getD c []).getD 0 []) ((highs.getD c []).getD 1 []) ((highs.getD c []).getD 2 [])
    (hd c hc) q1 q2 q3 q4
  rw [C05P.AFB2D_forward_val wr0 wr1 wc0 wc1 hLr hLre hwr hLc hLce hwc H W hH hW (by omega) (by omega) _ (hd c hc)] at hf
  rw [(C17T.SFB2D_forward_per_val wr0 wr1 wc0 wc1 hLr hwr hLc hwc H W hHe hWe hfH hfW _ _ _ _ q1 q2 q3 q4).1] at hi
  simp only [Option.some.injEq, Prod.mk.injEq, List.cons.injEq, and_true] at hf hi
  obtain ⟨hf1, hf2, hf3, hf4⟩ := hf
  subst hf1 hf2 hf3 hf4 hi
  rw [getD_tab, getD_tab, getD_tab, if_pos hc, if_pos (by omega), if_pos (by omega)]
  simp only [List.getD_cons_zero, List.getD_cons_succ]
  unfold dxFullP at hid
  simp only [eH2, eW2] at hid ⊢
  exact hid.symm

end channels

section channels_g
variable (gr0 gr1 gc0 gc1 : List R) (hLr : 2 ≤ gr0.length) (hLre : gr0.length % 2 = 0) (hgr : gr1.length = gr0.length)
    (hLc : 2 ≤ gc0.length) (hLce : gc0.length % 2 = 0) (hgc : gc1.length = gc0.length)

include hLr hLre hgr hLc hLce hgc in
/-- **`SFB2D.backward` is the adjoint of `SFB2D.forward` in periodization mode on every number of channels**, channel by channel,
for any even-length synthesis filters and every even output size `H × W` not smaller than the filters -/
theorem SFB2D_per_adjoint_channels (H W : Nat) (hHe : H % 2 = 0) (hWe : W % 2 = 0) (hfH : gc0.length ≤ H) (hfW : gr0.length ≤ W)
    (lows dys : List (Img R)) (highs : List (List (Img R))) (hl1 : highs.length = lows.length) (hl2 : dys.length = lows.length)
    (hr : ∀ c < lows.length, Rect (lows.getD c []) (H / 2) (W / 2) ∧ ∀ k < 3, Rect ((highs.getD c []).getD k []) (H / 2) (W / 2))
    (hd : ∀ c < lows.length, Rect (dys.getD c []) H W) :
    ∃ ys dlows dhighs, SFB2D_forward .periodization gr0 gr1 gc0 gc1 lows highs = some ys ∧
      SFB2D_backward .periodization gr0 gr1 gc0 gc1 dys = some (dlows, dhighs) ∧
      ∀ c < lows.length,
        dot2 H W (dys.getD c []) (ys.getD c [])
          = dot2 (H / 2) (W / 2) (dlows.getD c []) (lows.getD c [])
            + dot2 (H / 2) (W / 2) ((dhighs.getD c []).getD 0 []) ((highs.getD c []).getD 0 [])
            + dot2 (H / 2) (W / 2) ((dhighs.getD c []).getD 1 []) ((highs.getD c []).getD 1 [])
            + dot2 (H / 2) (W / 2) ((dhighs.getD c []).getD 2 []) ((highs.getD c []).getD 2 []) := by
  have eH2 : (H + H % 2) / 2 = H / 2 := by omega
  have eW2 : (W + W % 2) / 2 = W / 2 := by omega
  have := SFB2D_per_adjoint_channels_aux gr0.reverse gr1.reverse gc0.reverse gc1.reverse (by simpa using hLr) (by simpa using hLre)
    (by simp [hgr]) (by simpa using hLc) (by simpa using hLce) (by simp [hgc]) H W hHe hWe (by simpa using hfH) (by simpa using hfW)
    lows dys highs hl1 hl2 (by rw [eH2, eW2]; exact hr) hd
  simp only [List.reverse_reverse] at this
  rw [eH2, eW2] at this
  exact this

end channels_g

/-- the per-channel hypotheses are satisfiable: a two-channel stack of 1 × 1 coefficient images, 2 × 2 cotangents, two-tap filters -/
example : ∀ c < ([[[1]], [[5]]] : List (Img Int)).length, Rect (([[[1]], [[5]]] : List (Img Int)).getD c []) (2 / 2) (2 / 2) := by
  intro c hc
  simp only [List.length_cons, List.length_nil] at hc
  interval_cases c <;> simp [Rect]

/-- non-vacuity: a 4 × 4 cotangent, two levels, two-tap filters meet `LevelsOK2` -/
example : LevelsOK2 2 2 2 4 4 := by simp [LevelsOK2]

end WV.C05T
