/-
  C10 / C07 / C14 — one level of the 2-D synthesis on ANY number of channels: `SFB2D.forward` on stacks of `C` low-pass
  images and `C` triples of band-pass images returns, channel by channel, PyWavelets' `idwt2` of that channel with
  (column wavelet, row wavelet), in every padded mode (zero / symmetric / reflect / periodic), for every band size and all
  filter lengths that fit.
-/
import WaveletsVerif.Properties.C10
import WaveletsVerif.Properties.C07M
import WaveletsVerif.Properties.C01M
namespace WV.C10M
open WV WV.C10 WV.C07M
variable {R : Type} [CommRing R]

theorem SFB2D_forward_multi (m : Mode) (hm : ModeS m) (gc0 gc1 gr0 gr1 : List R)
    (hLc : 2 ≤ gc0.length) (hgc : gc1.length = gc0.length) (hLr : 2 ≤ gr0.length) (hgr : gr1.length = gr0.length)
    (lows : List (Img R)) (highs : List (List (Img R))) (hlen : highs.length = lows.length) (h w : Nat) (hh : 1 ≤ h) (hw : 1 ≤ w)
    (hs : ∀ c < lows.length, ((lows.getD c []).length = h ∧ (lows.getD c []).width = w) ∧
      ∀ k < 3, (((highs.getD c []).getD k []).length = h ∧ ((highs.getD c []).getD k []).width = w))
    (hfitc : 2 * (gc0.length - 2) + 1 ≤ 2 * (h - 1) + gc0.length)
    (hfitr : 2 * (gr0.length - 2) + 1 ≤ 2 * (w - 1) + gr0.length) :
    SFB2D_forward m gr0 gr1 gc0 gc1 lows highs
      = some (tab lows.length fun c => Spec.idwt2 m gc0 gc1 gr0 gr1 (lows.getD c []) ((highs.getD c []).getD 0 [])
          ((highs.getD c []).getD 1 []) ((highs.getD c []).getD 2 [])) := by
  have key : ∀ (a b : Img R), (a.length = h ∧ a.width = w) → (b.length = h ∧ b.width = w) →
      sfb1dImg .H m gc0 gc1 a b = some (tr (Spec.zip2 (Spec.idwt m gc0 gc1) (tr a) (tr b))) := by
    intro a b sa sb
    exact sfb1dImg_H m hm gc0 gc1 hLc hgc a b (by omega) (by omega) (by omega) (by rw [sa.1]; exact hfitc)
  have keyW : ∀ (a b a' b' : Img R), (a.length = h ∧ a.width = w) → (b.length = h ∧ b.width = w) →
      (a'.length = h ∧ a'.width = w) → (b'.length = h ∧ b'.width = w) →
      sfb1dImg .W m gr0 gr1 (tr (Spec.zip2 (Spec.idwt m gc0 gc1) (tr a) (tr b))) (tr (Spec.zip2 (Spec.idwt m gc0 gc1) (tr a') (tr b')))
        = some (Spec.zip2 (Spec.idwt m gr0 gr1) (tr (Spec.zip2 (Spec.idwt m gc0 gc1) (tr a) (tr b)))
            (tr (Spec.zip2 (Spec.idwt m gc0 gc1) (tr a') (tr b')))) := by
    intro a b a' b' sa sb sa' sb'
    set Z1 := Spec.zip2 (Spec.idwt m gc0 gc1) (tr a) (tr b) with hZ1
    set Z2 := Spec.zip2 (Spec.idwt m gc0 gc1) (tr a') (tr b') with hZ2
    have hZ1l : Z1.length = w := by rw [hZ1, zip2_length, tr_length, sa.2]
    have hZ2l : Z2.length = w := by rw [hZ2, zip2_length, tr_length, sa'.2]
    have hZ1w : Z1.width = 2 * h + 2 - gc0.length := by
      rw [hZ1, zip2_width _ _ _ (by rw [tr_length]; omega), idwt_length m hm, getD_tr_length a 0 (by omega), sa.1]
    have hZ2w : Z2.width = 2 * h + 2 - gc0.length := by
      rw [hZ2, zip2_width _ _ _ (by rw [tr_length]; omega), idwt_length m hm, getD_tr_length a' 0 (by omega), sa'.1]
    exact sfb1dImg_W m hm gr0 gr1 hLr hgr (tr Z1) (tr Z2) (by rw [tr_length, tr_length, hZ1w, hZ2w]) w
      (fun r hr => by rw [tr_row_length Z1 r hr, hZ1l]) (fun r hr => by rw [tr_row_length Z2 r hr, hZ2l]) hw hfitr
  rw [SFB2D_forward_channels m gr0 gr1 gc0 gc1 lows highs hlen
    (fun a b => tr (Spec.zip2 (Spec.idwt m gc0 gc1) (tr a) (tr b))) (fun lo hi => Spec.zip2 (Spec.idwt m gr0 gr1) lo hi)
    (fun c hc => key _ _ (hs c hc).1 ((hs c hc).2 0 (by omega)))
    (fun c hc => key _ _ ((hs c hc).2 1 (by omega)) ((hs c hc).2 2 (by omega)))
    (fun c hc => keyW _ _ _ _ (hs c hc).1 ((hs c hc).2 0 (by omega)) ((hs c hc).2 1 (by omega)) ((hs c hc).2 2 (by omega)))]
  rfl

/-! ### the level step and the whole inverse pyramid on `C` channels -/

/-- shapes of a level on a stack: all channels share one approximation shape `(A, B)` (the band shape `(h, w)` or one more per
axis), and every channel's three bands have shape `(h, w)` -/
def StepOKM (gc0 gr0 : List R) (as : List (Img R)) (d : Option (List (List (Img R)))) : Prop :=
  ∃ h w A B : Nat, 1 ≤ h ∧ 1 ≤ w ∧ (A = h ∨ A = h + 1) ∧ (B = w ∨ B = w + 1) ∧
    2 * (gc0.length - 2) + 1 ≤ 2 * (h - 1) + gc0.length ∧ 2 * (gr0.length - 2) + 1 ≤ 2 * (w - 1) + gr0.length ∧
    1 ≤ as.length ∧ (∀ c < as.length, Shape (as.getD c []) A B) ∧
    match d with
    | some v => v.length = as.length ∧ ∀ c < as.length, ∃ cH cV cD, v.getD c [] = [cH, cV, cD] ∧ Shape cH h w ∧ Shape cV h w ∧ Shape cD h w
    | none => A = h ∧ B = w

/-- the specification's level step on a stack: channel by channel -/
def stepM (m : Mode) (gc0 gc1 gr0 gr1 : List R) (as : List (Img R)) (d : Option (List (List (Img R)))) : List (Img R) :=
  tab as.length fun c => stepS2 m gc0 gc1 gr0 gr1 (as.getD c []) (d.map fun v => v.getD c [])

omit [CommRing R] in
theorem headD_eq_getD0 {β : Type} (l : List β) (d : β) : l.headD d = l.getD 0 d := by cases l <;> rfl

/-- the un-padding the module applies to every channel, decided by the COMMON shape `(A, B)` against the band shape `(h, w)` -/
def unpadM (A B h w : Nat) (a : Img R) : Img R :=
  let a1 : Img R := if A > h then a.take (a.length - 1) else a
  if B > w then a1.map (fun r => r.take (r.length - 1)) else a1

theorem unpadM_eq (A B h w : Nat) (hh : 1 ≤ h) (hA : A = h ∨ A = h + 1) (hB : B = w ∨ B = w + 1) (a : Img R) (sa : Shape a A B) :
    unpadM A B h w a = unpad a h w := by
  unfold unpadM unpad
  have e1 : (a.length = h + 1) ↔ A > h := by rw [sa.1]; omega
  by_cases c1 : A > h
  · have c1' := e1.mpr c1
    have hwt : Img.width (a.take (a.length - 1) : Img R) = a.width := take_width _ _ (by omega)
    rw [if_pos c1, if_pos c1']
    by_cases c2 : B > w
    · rw [if_pos c2, if_pos (by rw [hwt, sa.2]; omega)]
    · rw [if_neg c2, if_neg (by rw [hwt, sa.2]; omega)]
  · have c1' : ¬ (a.length = h + 1) := fun hx => c1 (e1.mp hx)
    rw [if_neg c1, if_neg c1']
    by_cases c2 : B > w
    · rw [if_pos c2, if_pos (by rw [sa.2]; omega)]
    · rw [if_neg c2, if_neg (by rw [sa.2]; omega)]

omit [CommRing R] in
theorem step_unpad (A B h w : Nat) (as : List (Img R)) :
    (let ll1 := if A > h then as.map (fun im => im.take (im.length - 1)) else as
     (if B > w then ll1.map (fun im => im.map fun r => r.take (r.length - 1)) else ll1)) = as.map (unpadM A B h w) := by
  unfold unpadM
  by_cases c1 : A > h <;> by_cases c2 : B > w <;> simp [c1, c2, List.map_map, Function.comp_def]

theorem step_eqM (m : Mode) (hm : ModeS m) (gc0 gc1 gr0 gr1 : List R)
    (hLc : 2 ≤ gc0.length) (hgc : gc1.length = gc0.length) (hLr : 2 ≤ gr0.length) (hgr : gr1.length = gr0.length)
    (as : List (Img R)) (d : Option (List (List (Img R)))) (hok : StepOKM gc0 gr0 as d) :
    DWTInverse_step m gc0 gc1 gr0 gr1 as d = some (stepM m gc0 gc1 gr0 gr1 as d) := by
  obtain ⟨h, w, A, B, hh, hw, hA, hB, hfc, hfr, hC, hsa, hd⟩ := hok
  have h0 := hsa 0 (by omega)
  have hun : as.map (unpadM A B h w) = tab as.length fun c => unpad (as.getD c []) h w := by
    rw [C01M.map_eq_tab' as _]
    apply tab_ext rfl; intro c hc
    exact unpadM_eq A B h w hh hA hB _ (hsa c hc)
  cases d with
  | some v =>
    obtain ⟨hvl, hv⟩ := hd
    obtain ⟨cH0, cV0, cD0, e0, sH0, _, _⟩ := hv 0 (by omega)
    have hmodel : DWTInverse_step m gc0 gc1 gr0 gr1 as (some v)
        = SFB2D_forward m gr0 gr1 gc0 gc1 (tab as.length fun c => unpad (as.getD c []) h w) v := by
      unfold DWTInverse_step
      simp only [headD_eq_getD0, e0, List.getD_cons_zero, h0.1, h0.2, sH0.1, sH0.2]
      rw [step_unpad A B h w as, hun]
    rw [hmodel]
    have hl : (tab as.length fun c => unpad (as.getD c []) h w).length = as.length := by simp
    rw [SFB2D_forward_multi m hm gc0 gc1 gr0 gr1 hLc hgc hLr hgr _ v (by rw [hl]; exact hvl) h w hh hw (by
      intro c hc
      rw [hl] at hc
      rw [getD_tab, if_pos hc]
      obtain ⟨cH, cV, cD, e, sH, sV, sD⟩ := hv c hc
      refine ⟨unpad_shape _ h w hh (by rw [(hsa c hc).1]; exact hA) (by rw [(hsa c hc).2]; exact hB), ?_⟩
      intro k hk
      rw [e]
      have hk3 : k = 0 ∨ k = 1 ∨ k = 2 := by omega
      rcases hk3 with rfl | rfl | rfl
      · exact sH
      · exact sV
      · exact sD) hfc hfr]
    rw [hl]
    refine congrArg some ?_
    unfold stepM
    apply tab_ext rfl; intro c hc
    rw [getD_tab, if_pos hc]
    obtain ⟨cH, cV, cD, e, sH, sV, sD⟩ := hv c hc
    simp only [Option.map_some, stepS2, unpad, e, List.getD_cons_zero, List.getD_cons_succ, sH.1, sH.2]
  | none =>
    obtain ⟨hAh, hBw⟩ := hd
    subst hAh hBw
    have sz := izero_shape (R := R) A B hh
    have hmodel : DWTInverse_step m gc0 gc1 gr0 gr1 as none
        = SFB2D_forward m gr0 gr1 gc0 gc1 as (as.map fun _ => [izero A B, izero A B, izero A B]) := by
      unfold DWTInverse_step
      simp only [headD_eq_getD0, h0.1, h0.2]
      have e1 : ((as.map fun _ => [izero A B, izero A B, izero A B] : List (List (Img R))).getD 0 []).getD 0 [] = (izero A B : Img R) := by
        have : 0 < as.length := by omega
        simp [List.getD_eq_getElem?_getD, List.getElem?_replicate, this]
      rw [e1, sz.1, sz.2]
      simp
    rw [hmodel]
    have hgz : ∀ c < as.length, (as.map fun _ => ([izero A B, izero A B, izero A B] : List (Img R))).getD c [] = [izero A B, izero A B, izero A B] := by
      intro c hc
      simp [List.getD_eq_getElem?_getD, List.getElem?_replicate, hc]
    rw [SFB2D_forward_multi m hm gc0 gc1 gr0 gr1 hLc hgc hLr hgr as _ (by simp) A B hh hw (by
      intro c hc
      refine ⟨hsa c hc, ?_⟩
      intro k hk
      rw [hgz c hc]
      have hk3 : k = 0 ∨ k = 1 ∨ k = 2 := by omega
      rcases hk3 with rfl | rfl | rfl <;> exact sz) hfc hfr]
    refine congrArg some ?_
    unfold stepM
    apply tab_ext rfl; intro c hc
    rw [hgz c hc]
    have sc := hsa c hc
    simp only [Option.map_none, stepS2, List.getD_cons_zero, List.getD_cons_succ, sz.1, sz.2, sc.1, sc.2]
    have c1 : ¬ (A = A + 1) := by omega
    have c2 : ¬ (B = B + 1) := by omega
    simp only [c1, c2, if_false, sc.2]

def CompatM (m : Mode) (gc0 gc1 gr0 gr1 : List R) : List (Img R) → List (Option (List (List (Img R)))) → Prop
  | _, [] => True
  | as, d :: rest => StepOKM gc0 gr0 as d ∧ CompatM m gc0 gc1 gr0 gr1 (stepM m gc0 gc1 gr0 gr1 as d) rest

/-- the model of `DWTInverse` on a stack of `C` channels is the channel-wise level step, folded coarse to fine -/
theorem DWTInverse_multi (m : Mode) (hm : ModeS m) (gc0 gc1 gr0 gr1 : List R)
    (hLc : 2 ≤ gc0.length) (hgc : gc1.length = gc0.length) (hLr : 2 ≤ gr0.length) (hgr : gr1.length = gr0.length)
    (as : List (Img R)) (ds : List (Option (List (List (Img R))))) (hc : CompatM m gc0 gc1 gr0 gr1 as ds.reverse) :
    DWTInverse m gc0 gc1 gr0 gr1 as ds = some (ds.reverse.foldl (stepM m gc0 gc1 gr0 gr1) as) := by
  unfold DWTInverse
  generalize ds.reverse = rs at hc
  induction rs generalizing as with
  | nil => simp
  | cons d rest ih =>
    obtain ⟨hok, hrest⟩ := hc
    simp only [List.foldlM_cons, List.foldl_cons]
    rw [step_eqM m hm gc0 gc1 gr0 gr1 hLc hgc hLr hgr as d hok]
    simp only [Option.bind_eq_bind, Option.bind_some]
    exact ih _ hrest

/-- **every channel of the result is PyWavelets' `waverec2` of that channel alone** -/
theorem foldl_stepM_channel (m : Mode) (gc0 gc1 gr0 gr1 : List R) (rs : List (Option (List (List (Img R))))) :
    ∀ (as : List (Img R)) (c : Nat), c < as.length →
      (rs.foldl (stepM m gc0 gc1 gr0 gr1) as).length = as.length ∧
      (rs.foldl (stepM m gc0 gc1 gr0 gr1) as).getD c []
        = (rs.map fun d => d.map fun v => v.getD c []).foldl (stepS2 m gc0 gc1 gr0 gr1) (as.getD c []) := by
  induction rs with
  | nil => intro as c hc; exact ⟨rfl, rfl⟩
  | cons d rest ih =>
    intro as c hc
    simp only [List.foldl_cons, List.map_cons]
    have hl : (stepM m gc0 gc1 gr0 gr1 as d).length = as.length := by simp [stepM]
    have := ih (stepM m gc0 gc1 gr0 gr1 as d) c (by rw [hl]; exact hc)
    refine ⟨by rw [this.1, hl], ?_⟩
    rw [this.2]
    congr 1
    unfold stepM
    rw [getD_tab, if_pos hc]

theorem DWTInverse_multi_eq_waverec2 (m : Mode) (hm : ModeS m) (gc0 gc1 gr0 gr1 : List R)
    (hLc : 2 ≤ gc0.length) (hgc : gc1.length = gc0.length) (hLr : 2 ≤ gr0.length) (hgr : gr1.length = gr0.length)
    (as : List (Img R)) (ds : List (Option (List (List (Img R))))) (hc : CompatM m gc0 gc1 gr0 gr1 as ds.reverse) :
    ∃ ys, DWTInverse m gc0 gc1 gr0 gr1 as ds = some ys ∧ ys.length = as.length ∧
      ∀ c < as.length, ys.getD c [] = Spec.waverec2 m gc0 gc1 gr0 gr1 (as.getD c []) (ds.map fun d => d.map fun v => v.getD c []) := by
  refine ⟨_, DWTInverse_multi m hm gc0 gc1 gr0 gr1 hLc hgc hLr hgr as ds hc, ?_, ?_⟩
  · cases as with
    | nil =>
      have : ∀ rs : List (Option (List (List (Img R)))), (rs.foldl (stepM m gc0 gc1 gr0 gr1) ([] : List (Img R))) = [] := by
        intro rs; induction rs with
        | nil => rfl
        | cons d rest ih => simp only [List.foldl_cons]; rw [show stepM m gc0 gc1 gr0 gr1 ([] : List (Img R)) d = [] by simp [stepM, tab]]; exact ih
      rw [this]
    | cons a rest => exact (foldl_stepM_channel m gc0 gc1 gr0 gr1 ds.reverse (a :: rest) 0 (by simp)).1
  · intro c hcl
    rw [(foldl_stepM_channel m gc0 gc1 gr0 gr1 ds.reverse as c hcl).2, waverec2_eq_foldl, List.map_reverse]

end WV.C10M

namespace WV.C10M
open WV WV.C10
/-- non-vacuity: a concrete one-level integer pyramid on TWO channels (2×2 bands, Haar-like integer filters) is compatible -/
example : CompatM (R := Int) .zero [1, 1] [1, -1] [1, 1] [1, -1] [[[1, 2], [3, 4]], [[0, 1], [1, 0]]]
    [some [[[[1, 0], [0, 1]], [[2, 0], [0, 2]], [[0, 1], [1, 0]]], [[[1, 1], [0, 1]], [[2, 1], [0, 2]], [[0, 1], [1, 1]]]]] := by
  refine ⟨⟨2, 2, 2, 2, by decide, by decide, Or.inl rfl, Or.inl rfl, by decide, by decide, by decide, ?_, by decide, ?_⟩, trivial⟩
  · intro c hc
    have : c = 0 ∨ c = 1 := by simp at hc; omega
    rcases this with rfl | rfl <;> exact ⟨rfl, rfl⟩
  · intro c hc
    have : c = 0 ∨ c = 1 := by simp at hc; omega
    rcases this with rfl | rfl <;> exact ⟨_, _, _, rfl, ⟨rfl, rfl⟩, ⟨rfl, rfl⟩, ⟨rfl, rfl⟩⟩
end WV.C10M
