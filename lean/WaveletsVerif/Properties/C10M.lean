/-
  C10 / C07 / C14 — one level of the 2-D synthesis on ANY number of channels: `SFB2D.forward` on stacks of `C` low-pass
  images and `C` triples of band-pass images returns, channel by channel, PyWavelets' `idwt2` of that channel with
  (column wavelet, row wavelet), in every padded mode (zero / symmetric / reflect / periodic), for every band size and all
  filter lengths that fit.
-/
import WaveletsVerif.Properties.C10
import WaveletsVerif.Properties.C07M
namespace WV.C10M
open WV WV.C10 WV.C07M
variable {R : Type} [CommRing R]

theorem SFB2D_forward_multi (m : Mode) (hm : ModeS m) (gc0 gc1 gr0 gr1 : List R)
    (hLc : 2 ≤ gc0.length) (hgc : gc1.length = gc0.length) (hLr : 2 ≤ gr0.length) (hgr : gr1.length = gr0.length)
    (lows : List (Img R)) (highs : List (List (Img R))) (hlen : highs.length = lows.length) (h w : Nat) (hh : 1 ≤ h) (hw : 1 ≤ w)
    (hs : ∀ c < lows.length, ((lows.getD c []).length = h ∧ (lows.getD c []).width = w) ∧
      ∀ k < 3, (((highs.getD c []).getD k []).length = h ∧ ((highs.getD c []).getD k []).width = w))
    (hfitc : 2 * (gc0.length - 2) + 1 ≤ 2 * (h - 1) + gc0.length)
    (hfitr : 2 * (gr0.length - 2) + 1 ≤ 2 * (w - 1) + gr0.length) :
    SFB2D_forward m gr0 gr1 gc0 gc1 lows highs
      = some (tab lows.length fun c => Spec.idwt2 m gc0 gc1 gr0 gr1 (lows.getD c []) ((highs.getD c []).getD 0 [])
          ((highs.getD c []).getD 1 []) ((highs.getD c []).getD 2 [])) := by
  have key : ∀ (a b : Img R), (a.length = h ∧ a.width = w) → (b.length = h ∧ b.width = w) →
      sfb1dImg .H m gc0 gc1 a b = some (tr (Spec.zip2 (Spec.idwt m gc0 gc1) (tr a) (tr b))) := by
    intro a b sa sb
    exact sfb1dImg_H m hm gc0 gc1 hLc hgc a b (by omega) (by omega) (by omega) (by rw [sa.1]; exact hfitc)
  have keyW : ∀ (a b a' b' : Img R), (a.length = h ∧ a.width = w) → (b.length = h ∧ b.width = w) →
      (a'.length = h ∧ a'.width = w) → (b'.length = h ∧ b'.width = w) →
      sfb1dImg .W m gr0 gr1 (tr (Spec.zip2 (Spec.idwt m gc0 gc1) (tr a) (tr b))) (tr (Spec.zip2 (Spec.idwt m gc0 gc1) (tr a') (tr b')))
        = some (Spec.zip2 (Spec.idwt m gr0 gr1) (tr (Spec.zip2 (Spec.idwt m gc0 gc1) (tr a) (tr b)))
            (tr (Spec.zip2 (Spec.idwt m gc0 gc1) (tr a') (tr b')))) := by
    intro a b a' b' sa sb sa' sb'
    set Z1 := Spec.zip2 (Spec.idwt m gc0 gc1) (tr a) (tr b) with hZ1
    set Z2 := Spec.zip2 (Spec.idwt m gc0 gc1) (tr a') (tr b') with hZ2
    have hZ1l : Z1.length = w := by rw [hZ1, zip2_length, tr_length, sa.2]
    have hZ2l : Z2.length = w := by rw [hZ2, zip2_length, tr_length, sa'.2]
    have hZ1w : Z1.width = 2 * h + 2 - gc0.length := by
      rw [hZ1, zip2_width _ _ _ (by rw [tr_length]; omega), idwt_length m hm, getD_tr_length a 0 (by omega), sa.1]
    have hZ2w : Z2.width = 2 * h + 2 - gc0.length := by
      rw [hZ2, zip2_width _ _ _ (by rw [tr_length]; omega), idwt_length m hm, getD_tr_length a' 0 (by omega), sa'.1]
    exact sfb1dImg_W m hm gr0 gr1 hLr hgr (tr Z1) (tr Z2) (by rw [tr_length, tr_length, hZ1w, hZ2w]) w
      (fun r hr => by rw [tr_row_length Z1 r hr, hZ1l]) (fun r hr => by rw [tr_row_length Z2 r hr, hZ2l]) hw hfitr
  rw [SFB2D_forward_channels m gr0 gr1 gc0 gc1 lows highs hlen
    (fun a b => tr (Spec.zip2 (Spec.idwt m gc0 gc1) (tr a) (tr b))) (fun lo hi => Spec.zip2 (Spec.idwt m gr0 gr1) lo hi)
    (fun c hc => key _ _ (hs c hc).1 ((hs c hc).2 0 (by omega)))
    (fun c hc => key _ _ ((hs c hc).2 1 (by omega)) ((hs c hc).2 2 (by omega)))
    (fun c hc => keyW _ _ _ _ (hs c hc).1 ((hs c hc).2 0 (by omega)) ((hs c hc).2 1 (by omega)) ((hs c hc).2 2 (by omega)))]
  rfl

end WV.C10M
