/-
  C14 — separate row and column filters act on the axis they are named for.

  The module model follows the code's *positional* call
  `AFB2D.apply(ll, h0_row, h1_row, h0_col, h1_col, mode)`; the theorems say that
  with a 4-tuple `(h0_col, h1_col, h0_row, h1_row)` the column pair is applied
  along the vertical axis and the row pair along the horizontal one — i.e. the
  result is PyWavelets' `dwt2` with (column wavelet, row wavelet) — and that a
  2-tuple uses the same pair on both axes.
-/
import WaveletsVerif.Properties.C01
namespace WV.C14
open WV WV.C01
variable {R : Type} [CommRing R]

/-- a 2-tuple wave is the 4-tuple that repeats it -/
theorem wave4_two (a b : List R) : wave4 [a, b] = wave4 [a, b, a, b] := rfl

theorem DWTForwardM_two_eq_four (mode : Mode) (J : Nat) (a b : List R) (x : List (Img R)) :
    DWTForwardM mode J [a, b] x = DWTForwardM mode J [a, b, a, b] x := rfl

theorem DWTInverseM_two_eq_four (mode : Mode) (a b : List R) (yl : List (Img R))
    (yh : List (Option (List (List (Img R))))) :
    DWTInverseM mode [a, b] yl yh = DWTInverseM mode [a, b, a, b] yl yh := rfl

/-- one level of `DWTForward` built from the 4-tuple `(c0, c1, r0, r1)` = (column low, column high,
row low, row high) equals `pywt.dwt2(x, (column wavelet, row wavelet))`: the column filters act
along the vertical axis, the row filters along the horizontal axis. -/
theorem DWTForwardM_level_axes (mode : Mode) (hm : ModeOK (R := R) mode) (c0 c1 r0 r1 : List R)
    (hc0 : 2 ≤ c0.length) (hc1 : 2 ≤ c1.length) (hr0 : 2 ≤ r0.length) (hr1 : 2 ≤ r1.length)
    (x : Img R) (hH : 1 ≤ x.length) (hW : ∀ r ∈ x, 1 ≤ r.length) :
    DWTForwardM mode 1 [c0, c1, r0, r1] [x]
      = some ([(Spec.dwt2 mode c0 c1 r0 r1 x).1],
              [[[(Spec.dwt2 mode c0 c1 r0 r1 x).2.1, (Spec.dwt2 mode c0 c1 r0 r1 x).2.2.1,
                 (Spec.dwt2 mode c0 c1 r0 r1 x).2.2.2]]]) := by
  simp only [DWTForwardM, wave4, Option.bind_eq_bind, Option.bind_some, DWTForward]
  rw [AFB2D_forward_eq_dwt2 mode hm c0 c1 r0 r1 hc0 hc1 hr0 hr1 x hH hW]
  rfl

/-- synthesis: `DWTInverse` built from `(g0_col, g1_col, g0_row, g1_row)` hands the column pair to the
vertical synthesis and the row pair to the horizontal one (`SFB2D.forward(low, highs, g0_row, g1_row,
g0_col, g1_col)`), with no reversal of the synthesis filters -/
theorem DWTInverseM_axes (mode : Mode) (c0 c1 r0 r1 : List R) (yl : List (Img R)) (h : List (List (Img R))) :
    DWTInverseM mode [c0, c1, r0, r1] yl [some h] = DWTInverse_step mode c0 c1 r0 r1 yl (some h) := by
  simp [DWTInverseM, wave4, DWTInverse]

/-- non-vacuity / witness that the axes matter: with different column and row filters, exchanging
them changes the result on a concrete integer image (mode zero) -/
example :
    DWTForwardM .zero 1 [[1, 1], [1, -1], [1, 2], [2, -1]] [([[1, 2], [3, 5]] : Img Int)]
      ≠ DWTForwardM .zero 1 [[1, 2], [2, -1], [1, 1], [1, -1]] [([[1, 2], [3, 5]] : Img Int)] := by
  decide

end WV.C14
