/-
  C07 / C01 — the dependence window of one TWO-dimensional level (mode zero): every coefficient `(p, q)` of every band of `pywt.dwt2`
  reads the samples of the rows `2p+1-(Lc-1) … 2p+1` and the columns `2q+1-(Lr-1) … 2q+1` of its own image and nothing else
  (`dwt2_zero_local`).  Two images of the same shape that agree on that rectangle - whatever they hold elsewhere - have the same
  coefficient: the 2-D instance of the cone of `C07W`, with "far along EITHER axis" as the special-values oracle uses it.
-/
import WaveletsVerif.Properties.C07W
import WaveletsVerif.Properties.C04Q
import WaveletsVerif.Properties.C19
import Mathlib.Data.List.GetD
namespace WV.C07X
open WV WV.C04 WV.C04Q WV.C07W
variable {R : Type} [CommRing R]

theorem rowlen (x : Img R) (H W : Nat) (hx : Rect x H W) (i : Nat) (hi : i < H) : (x.getD i []).length = W := by
  rw [List.getD_eq_getElem _ _ (by rw [hx.1]; exact hi)]
  exact hx.2 _ (List.getElem_mem _)

theorem dwt_zero_len (h c : List R) : (Spec.dwt .zero h c).length = dwtCoeffLen c.length h.length := by simp [Spec.dwt]

/-- entry of a row pass -/
theorem rowsMap_get2 (h : List R) (x : Img R) (H W : Nat) (hx : Rect x H W) (i j : Nat) (hi : i < H) :
    get2 (Spec.rowsMap (Spec.dwt .zero h) x) i j = getN (Spec.dwt .zero h (x.getD i [])) j := by
  have e : Spec.rowsMap (Spec.dwt .zero h) x = tab2 H (dwtCoeffLen W h.length) fun i j => getN (Spec.dwt .zero h (x.getD i [])) j :=
    alongW_get' _ x H W _ hx (fun c hc => by rw [dwt_zero_len, hc])
  rw [e]
  by_cases hj : j < dwtCoeffLen W h.length
  · rw [C19.get2_tab2 _ _ _ i j hi hj]
  · have hl : (x.getD i []).length = W := rowlen x H W hx i hi
    have z : get2 (tab2 H (dwtCoeffLen W h.length) fun i j => getN (Spec.dwt .zero h (x.getD i [])) j) i j = 0 := by
      unfold get2 tab2; rw [getD_tab]; simp only [hi, if_true]; rw [getD_tab]; simp [hj]
    rw [z]
    unfold getN
    rw [List.getD_eq_default _ _ (by rw [dwt_zero_len, hl]; omega)]

/-- entry of a column pass -/
theorem colsMap_get2 (h : List R) (x : Img R) (H W : Nat) (hx : Rect x H W) (hH : 1 ≤ H) (hW : 1 ≤ W) (i j : Nat) (hj : j < W) :
    get2 (Spec.colsMap (Spec.dwt .zero h) x) i j = getN (Spec.dwt .zero h (col x j)) i := by
  have e : Spec.colsMap (Spec.dwt .zero h) x = tab2 (dwtCoeffLen H h.length) W fun i j => getN (Spec.dwt .zero h (col x j)) i :=
    alongH_get' _ x H _ W hx hH hW (fun c hc => by rw [dwt_zero_len, hc])
  rw [e]
  by_cases hi : i < dwtCoeffLen H h.length
  · rw [C19.get2_tab2 _ _ _ i j hi hj]
  · have z : get2 (tab2 (dwtCoeffLen H h.length) W fun i j => getN (Spec.dwt .zero h (col x j)) i) i j = 0 := by
      unfold get2 tab2; rw [getD_tab]; simp [hi]
    rw [z]
    have hl : (col x j).length = H := by unfold col; rw [length_tab, hx.1]
    unfold getN
    rw [List.getD_eq_default _ _ (by rw [dwt_zero_len, hl]; omega)]

/-- two images agree on a rectangle of (row, column) indices -/
def AgreeOn2 (x x' : Img R) (r0 r1 c0 c1 : Int) : Prop :=
  ∀ (i j : Nat), r0 ≤ (i : Int) → (i : Int) ≤ r1 → c0 ≤ (j : Int) → (j : Int) ≤ c1 → get2 x i j = get2 x' i j

/-- **one band of one 2-D level (column filter `hc` after row filter `hr`) reads a rectangle** -/
theorem band_zero_local (hc hr : List R) (x x' : Img R) (H W : Nat) (hx : Rect x H W) (hx' : Rect x' H W) (hH : 1 ≤ H) (hW : 1 ≤ W)
    (p q : Nat) (hq : q < dwtCoeffLen W hr.length)
    (hw : AgreeOn2 x x' (2 * (p : Int) + 1 - ((hc.length : Int) - 1)) (2 * (p : Int) + 1)
      (2 * (q : Int) + 1 - ((hr.length : Int) - 1)) (2 * (q : Int) + 1)) :
    get2 (Spec.colsMap (Spec.dwt .zero hc) (Spec.rowsMap (Spec.dwt .zero hr) x)) p q
      = get2 (Spec.colsMap (Spec.dwt .zero hc) (Spec.rowsMap (Spec.dwt .zero hr) x')) p q := by
  have rr : ∀ y : Img R, Rect y H W → Rect (Spec.rowsMap (Spec.dwt .zero hr) y) H (dwtCoeffLen W hr.length) := by
    intro y hy
    have e : Spec.rowsMap (Spec.dwt .zero hr) y = tab2 H (dwtCoeffLen W hr.length) fun i j => getN (Spec.dwt .zero hr (y.getD i [])) j :=
      alongW_get' _ y H W _ hy (fun c hc' => by rw [dwt_zero_len, hc'])
    rw [e]; exact tab2_rect _ _ _
  rw [colsMap_get2 hc _ H _ (rr x hx) hH (by omega) p q hq, colsMap_get2 hc _ H _ (rr x' hx') hH (by omega) p q hq]
  apply dwt_zero_local hc _ _ (by unfold col; rw [length_tab, length_tab, (rr x hx).1, (rr x' hx').1]) p
  intro t ht1 ht2
  -- entry `t` of column `q` of the two row-filtered images
  by_cases ht : 0 ≤ t ∧ t < H
  · have e : ∀ y : Img R, Rect y H W → getZ (col (Spec.rowsMap (Spec.dwt .zero hr) y) q) t = getN (Spec.dwt .zero hr (y.getD t.toNat [])) q := by
      intro y hy
      unfold col; rw [(rr y hy).1, getZ_tab]
      have : 0 ≤ t ∧ t < (H : Int) := ht
      rw [if_pos this]
      exact rowsMap_get2 hr y H W hy t.toNat q (by omega)
    rw [e x hx, e x' hx']
    apply dwt_zero_local hr _ _ (by rw [rowlen x H W hx t.toNat (by omega), rowlen x' H W hx' t.toNat (by omega)]) q
    intro u hu1 hu2
    by_cases hu : 0 ≤ u
    · have g : ∀ y : Img R, getZ (y.getD t.toNat []) u = get2 y t.toNat u.toNat := by
        intro y; unfold getZ get2; rw [if_pos hu]
      rw [g, g]
      exact hw t.toNat u.toNat (by omega) (by omega) (by omega) (by omega)
    · unfold getZ; rw [if_neg hu, if_neg hu]
  · have e : ∀ y : Img R, Rect y H W → getZ (col (Spec.rowsMap (Spec.dwt .zero hr) y) q) t = 0 := by
      intro y hy
      unfold col; rw [(rr y hy).1, getZ_tab, if_neg ht]
    rw [e x hx, e x' hx']

/-- **every band of `pywt.dwt2` (mode zero) reads the rectangle of its own coefficient**: the four bands are the four combinations of
a column filter after a row filter -/
theorem dwt2_zero_local (hc0 hc1 hr0 hr1 : List R) (hLc : hc1.length = hc0.length) (hLr : hr1.length = hr0.length)
    (x x' : Img R) (H W : Nat) (hx : Rect x H W) (hx' : Rect x' H W) (hH : 1 ≤ H) (hW : 1 ≤ W)
    (p q : Nat) (hq : q < dwtCoeffLen W hr0.length)
    (hw : AgreeOn2 x x' (2 * (p : Int) + 1 - ((hc0.length : Int) - 1)) (2 * (p : Int) + 1)
      (2 * (q : Int) + 1 - ((hr0.length : Int) - 1)) (2 * (q : Int) + 1)) :
    let S := Spec.dwt2 .zero hc0 hc1 hr0 hr1 x
    let S' := Spec.dwt2 .zero hc0 hc1 hr0 hr1 x'
    get2 S.1 p q = get2 S'.1 p q ∧ get2 S.2.1 p q = get2 S'.2.1 p q ∧ get2 S.2.2.1 p q = get2 S'.2.2.1 p q ∧
      get2 S.2.2.2 p q = get2 S'.2.2.2 p q := by
  intro S S'
  refine ⟨band_zero_local hc0 hr0 x x' H W hx hx' hH hW p q hq hw,
    band_zero_local hc1 hr0 x x' H W hx hx' hH hW p q hq (by rw [hLc]; exact hw),
    band_zero_local hc0 hr1 x x' H W hx hx' hH hW p q (by rw [hLr]; exact hq) (by rw [hLr]; exact hw),
    band_zero_local hc1 hr1 x x' H W hx hx' hH hW p q (by rw [hLr]; exact hq) (by rw [hLc, hLr]; exact hw)⟩

/-! ### J levels in two dimensions -/

theorem band_rect (hc hr : List R) (x : Img R) (H W : Nat) (hx : Rect x H W) (hH : 1 ≤ H) (hW : 1 ≤ W) (hLr : 2 ≤ hr.length) :
    Rect (Spec.colsMap (Spec.dwt .zero hc) (Spec.rowsMap (Spec.dwt .zero hr) x)) (dwtCoeffLen H hc.length) (dwtCoeffLen W hr.length) := by
  have r1 : Rect (Spec.rowsMap (Spec.dwt .zero hr) x) H (dwtCoeffLen W hr.length) := by
    have e : Spec.rowsMap (Spec.dwt .zero hr) x = tab2 H (dwtCoeffLen W hr.length) fun i j => getN (Spec.dwt .zero hr (x.getD i [])) j :=
      alongW_get' _ x H W _ hx (fun c hc' => by rw [dwt_zero_len, hc'])
    rw [e]; exact tab2_rect _ _ _
  have hKw : 1 ≤ dwtCoeffLen W hr.length := by unfold dwtCoeffLen; omega
  have e : Spec.colsMap (Spec.dwt .zero hc) (Spec.rowsMap (Spec.dwt .zero hr) x)
      = tab2 (dwtCoeffLen H hc.length) (dwtCoeffLen W hr.length) fun i j => getN (Spec.dwt .zero hc (col (Spec.rowsMap (Spec.dwt .zero hr) x) j)) i :=
    alongH_get' _ _ H _ _ r1 hH hKw (fun c hc' => by rw [dwt_zero_len, hc'])
  rw [e]; exact tab2_rect _ _ _

theorem get2_oob (y : Img R) (K Kw : Nat) (hy : Rect y K Kw) (p q : Nat) (h : K ≤ p ∨ Kw ≤ q) : get2 y p q = 0 := by
  unfold get2
  by_cases hp : p < K
  · have hl : (y.getD p []).length = Kw := rowlen y K Kw hy p hp
    rw [List.getD_eq_default (y.getD p []) _ (by rw [hl]; omega)]
  · rw [List.getD_eq_default y [] (by rw [hy.1]; omega)]; rfl

/-- the low-pass band of one level on a rectangle of coefficient indices -/
theorem low_zero_agree (hc hr : List R) (hLr : 2 ≤ hr.length) (x x' : Img R) (H W : Nat) (hx : Rect x H W) (hx' : Rect x' H W) (hH : 1 ≤ H) (hW : 1 ≤ W)
    (r0 r1 c0 c1 : Int)
    (hw : AgreeOn2 x x' (2 * r0 + 1 - ((hc.length : Int) - 1)) (2 * r1 + 1) (2 * c0 + 1 - ((hr.length : Int) - 1)) (2 * c1 + 1)) :
    AgreeOn2 (Spec.colsMap (Spec.dwt .zero hc) (Spec.rowsMap (Spec.dwt .zero hr) x))
      (Spec.colsMap (Spec.dwt .zero hc) (Spec.rowsMap (Spec.dwt .zero hr) x')) r0 r1 c0 c1 := by
  intro p q hp0 hp1 hq0 hq1
  by_cases hq : q < dwtCoeffLen W hr.length
  · apply band_zero_local hc hr x x' H W hx hx' hH hW p q hq
    intro i j hi0 hi1 hj0 hj1
    exact hw i j (by omega) (by omega) (by omega) (by omega)
  · rw [get2_oob _ _ _ (band_rect hc hr x H W hx hH hW hLr) p q (Or.inr (by omega)),
      get2_oob _ _ _ (band_rect hc hr x' H W hx' hH hW hLr) p q (Or.inr (by omega))]

/-- **`J` levels of `pywt.wavedec2` (mode zero): the low-pass coefficients with indices in `[r0, r1] × [c0, c1]` read the rectangle
`[2^J r0 − (2^J − 1)(Lc − 1), 2^J r1 + 2^J − 1] × [2^J c0 − (2^J − 1)(Lr − 1), 2^J c1 + 2^J − 1]` of their image** -/
theorem wavedec2_low_agree (hc0 hc1 hr0 hr1 : List R) (hLc : 2 ≤ hc0.length) (hLr : 2 ≤ hr0.length) :
    ∀ (J : Nat) (x x' : Img R) (H W : Nat) (r0 r1 c0 c1 : Int), Rect x H W → Rect x' H W → 1 ≤ H → 1 ≤ W →
    AgreeOn2 x x' ((2:Int) ^ J * r0 - ((2:Int) ^ J - 1) * ((hc0.length : Int) - 1)) ((2:Int) ^ J * r1 + (2:Int) ^ J - 1)
      ((2:Int) ^ J * c0 - ((2:Int) ^ J - 1) * ((hr0.length : Int) - 1)) ((2:Int) ^ J * c1 + (2:Int) ^ J - 1) →
    AgreeOn2 (Spec.wavedec2 .zero hc0 hc1 hr0 hr1 J x).1 (Spec.wavedec2 .zero hc0 hc1 hr0 hr1 J x').1 r0 r1 c0 c1
  | 0, x, x', H, W, r0, r1, c0, c1, _, _, _, _, hw => by
    simp only [Spec.wavedec2]
    intro i j h1 h2 h3 h4
    exact hw i j (by simp; omega) (by simp; omega) (by simp; omega) (by simp; omega)
  | J+1, x, x', H, W, r0, r1, c0, c1, hx, hx', hH, hW, hw => by
    simp only [Spec.wavedec2, Spec.dwt2]
    have e2 : (2:Int) ^ (J + 1) = 2 * (2:Int) ^ J := by rw [pow_succ]; ring
    rw [e2] at hw
    have hK : 1 ≤ dwtCoeffLen H hc0.length := by unfold dwtCoeffLen; omega
    have hKw : 1 ≤ dwtCoeffLen W hr0.length := by unfold dwtCoeffLen; omega
    apply wavedec2_low_agree hc0 hc1 hr0 hr1 hLc hLr J _ _ _ _ r0 r1 c0 c1 (band_rect hc0 hr0 x H W hx hH hW hLr)
      (band_rect hc0 hr0 x' H W hx' hH hW hLr) hK hKw
    apply low_zero_agree hc0 hr0 hLr x x' H W hx hx' hH hW
    intro i j h1 h2 h3 h4
    apply hw i j
    · linarith
    · linarith
    · linarith
    · linarith

end WV.C07X
