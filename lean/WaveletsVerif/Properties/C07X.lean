/-
  C07 / C01 — the dependence window of one TWO-dimensional level (mode zero): every coefficient `(p, q)` of every band of `pywt.dwt2`
  reads the samples of the rows `2p+1-(Lc-1) … 2p+1` and the columns `2q+1-(Lr-1) … 2q+1` of its own image and nothing else
  (`dwt2_zero_local`).  Two images of the same shape that agree on that rectangle - whatever they hold elsewhere - have the same
  coefficient: the 2-D instance of the cone of `C07W`, with "far along EITHER axis" as the special-values oracle uses it.
-/
import WaveletsVerif.Properties.C07W
import WaveletsVerif.Properties.C04Q
import WaveletsVerif.Properties.C19
import Mathlib.Data.List.GetD
namespace WV.C07X
open WV WV.C04 WV.C04Q WV.C07W
variable {R : Type} [CommRing R]

theorem rowlen (x : Img R) (H W : Nat) (hx : Rect x H W) (i : Nat) (hi : i < H) : (x.getD i []).length = W := by
  rw [List.getD_eq_getElem _ _ (by rw [hx.1]; exact hi)]
  exact hx.2 _ (List.getElem_mem _)

theorem dwt_zero_len (h c : List R) : (Spec.dwt .zero h c).length = dwtCoeffLen c.length h.length := by simp [Spec.dwt]

/-- entry of a row pass -/
theorem rowsMap_get2 (h : List R) (x : Img R) (H W : Nat) (hx : Rect x H W) (i j : Nat) (hi : i < H) :
    get2 (Spec.rowsMap (Spec.dwt .zero h) x) i j = getN (Spec.dwt .zero h (x.getD i [])) j := by
  have e : Spec.rowsMap (Spec.dwt .zero h) x = tab2 H (dwtCoeffLen W h.length) fun i j => getN (Spec.dwt .zero h (x.getD i [])) j :=
    alongW_get' _ x H W _ hx (fun c hc => by rw [dwt_zero_len, hc])
  rw [e]
  by_cases hj : j < dwtCoeffLen W h.length
  · rw [C19.get2_tab2 _ _ _ i j hi hj]
  · have hl : (x.getD i []).length = W := rowlen x H W hx i hi
    have z : get2 (tab2 H (dwtCoeffLen W h.length) fun i j => getN (Spec.dwt .zero h (x.getD i [])) j) i j = 0 := by
      unfold get2 tab2; rw [getD_tab]; simp only [hi, if_true]; rw [getD_tab]; simp [hj]
    rw [z]
    unfold getN
    rw [List.getD_eq_default _ _ (by rw [dwt_zero_len, hl]; omega)]

/-- entry of a column pass -/
theorem colsMap_get2 (h : List R) (x : Img R) (H W : Nat) (hx : Rect x H W) (hH : 1 ≤ H) (hW : 1 ≤ W) (i j : Nat) (hj : j < W) :
    get2 (Spec.colsMap (Spec.dwt .zero h) x) i j = getN (Spec.dwt .zero h (col x j)) i := by
  have e : Spec.colsMap (Spec.dwt .zero h) x = tab2 (dwtCoeffLen H h.length) W fun i j => getN (Spec.dwt .zero h (col x j)) i :=
    alongH_get' _ x H _ W hx hH hW (fun c hc => by rw [dwt_zero_len, hc])
  rw [e]
  by_cases hi : i < dwtCoeffLen H h.length
  · rw [C19.get2_tab2 _ _ _ i j hi hj]
  · have z : get2 (tab2 (dwtCoeffLen H h.length) W fun i j => getN (Spec.dwt .zero h (col x j)) i) i j = 0 := by
      unfold get2 tab2; rw [getD_tab]; simp [hi]
    rw [z]
    have hl : (col x j).length = H := by unfold col; rw [length_tab, hx.1]
    unfold getN
    rw [List.getD_eq_default _ _ (by rw [dwt_zero_len, hl]; omega)]

/-- two images agree on a rectangle of (row, column) indices -/
def AgreeOn2 (x x' : Img R) (r0 r1 c0 c1 : Int) : Prop :=
  ∀ (i j : Nat), r0 ≤ (i : Int) → (i : Int) ≤ r1 → c0 ≤ (j : Int) → (j : Int) ≤ c1 → get2 x i j = get2 x' i j

/-- **one band of one 2-D level (column filter `hc` after row filter `hr`) reads a rectangle** -/
theorem band_zero_local (hc hr : List R) (x x' : Img R) (H W : Nat) (hx : Rect x H W) (hx' : Rect x' H W) (hH : 1 ≤ H) (hW : 1 ≤ W)
    (p q : Nat) (hq : q < dwtCoeffLen W hr.length)
    (hw : AgreeOn2 x x' (2 * (p : Int) + 1 - ((hc.length : Int) - 1)) (2 * (p : Int) + 1)
      (2 * (q : Int) + 1 - ((hr.length : Int) - 1)) (2 * (q : Int) + 1)) :
    get2 (Spec.colsMap (Spec.dwt .zero hc) (Spec.rowsMap (Spec.dwt .zero hr) x)) p q
      = get2 (Spec.colsMap (Spec.dwt .zero hc) (Spec.rowsMap (Spec.dwt .zero hr) x')) p q := by
  have rr : ∀ y : Img R, Rect y H W → Rect (Spec.rowsMap (Spec.dwt .zero hr) y) H (dwtCoeffLen W hr.length) := by
    intro y hy
    have e : Spec.rowsMap (Spec.dwt .zero hr) y = tab2 H (dwtCoeffLen W hr.length) fun i j => getN (Spec.dwt .zero hr (y.getD i [])) j :=
      alongW_get' _ y H W _ hy (fun c hc' => by rw [dwt_zero_len, hc'])
    rw [e]; exact tab2_rect _ _ _
  rw [colsMap_get2 hc _ H _ (rr x hx) hH (by omega) p q hq, colsMap_get2 hc _ H _ (rr x' hx') hH (by omega) p q hq]
  apply dwt_zero_local hc _ _ (by unfold col; rw [length_tab, length_tab, (rr x hx).1, (rr x' hx').1]) p
  intro t ht1 ht2
  -- entry `t` of column `q` of the two row-filtered images
  by_cases ht : 0 ≤ t ∧ t < H
  · have e : ∀ y : Img R, Rect y H W → getZ (col (Spec.rowsMap (Spec.dwt .zero hr) y) q) t = getN (Spec.dwt .zero hr (y.getD t.toNat [])) q := by
      intro y hy
      unfold col; rw [(rr y hy).1, getZ_tab]
      have : 0 ≤ t ∧ t < (H : Int) := ht
      rw [if_pos this]
      exact rowsMap_get2 hr y H W hy t.toNat q (by omega)
    rw [e x hx, e x' hx']
    apply dwt_zero_local hr _ _ (by rw [rowlen x H W hx t.toNat (by omega), rowlen x' H W hx' t.toNat (by omega)]) q
    intro u hu1 hu2
    by_cases hu : 0 ≤ u
    · have g : ∀ y : Img R, getZ (y.getD t.toNat []) u = get2 y t.toNat u.toNat := by
        intro y; unfold getZ get2; rw [if_pos hu]
      rw [g, g]
      exact hw t.toNat u.toNat (by omega) (by omega) (by omega) (by omega)
    · unfold getZ; rw [if_neg hu, if_neg hu]
  · have e : ∀ y : Img R, Rect y H W → getZ (col (Spec.rowsMap (Spec.dwt .zero hr) y) q) t = 0 := by
      intro y hy
      unfold col; rw [(rr y hy).1, getZ_tab, if_neg ht]
    rw [e x hx, e x' hx']

/-- **every band of `pywt.dwt2` (mode zero) reads the rectangle of its own coefficient**: the four bands are the four combinations of
a column filter after a row filter -/
theorem dwt2_zero_local (hc0 hc1 hr0 hr1 : List R) (hLc : hc1.length = hc0.length) (hLr : hr1.length = hr0.length)
    (x x' : Img R) (H W : Nat) (hx : Rect x H W) (hx' : Rect x' H W) (hH : 1 ≤ H) (hW : 1 ≤ W)
    (p q : Nat) (hq : q < dwtCoeffLen W hr0.length)
    (hw : AgreeOn2 x x' (2 * (p : Int) + 1 - ((hc0.length : Int) - 1)) (2 * (p : Int) + 1)
      (2 * (q : Int) + 1 - ((hr0.length : Int) - 1)) (2 * (q : Int) + 1)) :
    let S := Spec.dwt2 .zero hc0 hc1 hr0 hr1 x
    let S' := Spec.dwt2 .zero hc0 hc1 hr0 hr1 x'
    get2 S.1 p q = get2 S'.1 p q ∧ get2 S.2.1 p q = get2 S'.2.1 p q ∧ get2 S.2.2.1 p q = get2 S'.2.2.1 p q ∧
      get2 S.2.2.2 p q = get2 S'.2.2.2 p q := by
  intro S S'
  refine ⟨band_zero_local hc0 hr0 x x' H W hx hx' hH hW p q hq hw,
    band_zero_local hc1 hr0 x x' H W hx hx' hH hW p q hq (by rw [hLc]; exact hw),
    band_zero_local hc0 hr1 x x' H W hx hx' hH hW p q (by rw [hLr]; exact hq) (by rw [hLr]; exact hw),
    band_zero_local hc1 hr1 x x' H W hx hx' hH hW p q (by rw [hLr]; exact hq) (by rw [hLc, hLr]; exact hw)⟩

end WV.C07X
