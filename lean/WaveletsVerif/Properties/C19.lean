/-
  C19 — the non-separable filter bank equals the separable one.

  The algebraic heart: a 2-D correlation with an outer-product kernel factors into
  a row correlation followed by a column correlation, for every kernel size, image
  size and stride; and the kernels `afb2d_nonsep` builds (`np.outer(hc, hr)[::-1, ::-1]`)
  are the outer products of the *reversed* filters, i.e. of the buffers `afb2d` uses.
-/
import WaveletsVerif.Lemmas.Basic
namespace WV.C19
open Finset WV
variable {R : Type} [CommRing R]

theorem get2_tab2 (h w : Nat) (f : Nat → Nat → R) (i j : Nat) (hi : i < h) (hj : j < w) :
    get2 (tab2 h w f) i j = f i j := by
  unfold get2 tab2
  rw [getD_tab]; simp only [hi, if_true]
  rw [getD_tab]; simp only [hj, if_true]

theorem width_tab2 (h w : Nat) (f : Nat → Nat → R) (hh : 0 < h) : (tab2 h w f).width = w := by
  unfold Img.width tab2 tab
  cases h with
  | zero => omega
  | succ n => simp [List.range_succ_eq_map]

/-- the kernel of `afb2d_nonsep` is the outer product of the reversed filters -/
theorem outerRev_eq (a b : List R) : outerRev a b = outer a.reverse b.reverse := by
  unfold outerRev outer
  simp only [List.length_reverse]
  unfold tab2
  apply tab_ext rfl; intro i hi
  apply tab_ext rfl; intro j hj
  have e1 : getN a.reverse i = getN a (a.length - 1 - i) := by
    have := getN_reverse a (a.length - 1 - i) (by omega)
    have h2 : a.length - 1 - (a.length - 1 - i) = i := by omega
    rw [h2] at this; exact this
  have e2 : getN b.reverse j = getN b (b.length - 1 - j) := by
    have := getN_reverse b (b.length - 1 - j) (by omega)
    have h2 : b.length - 1 - (b.length - 1 - j) = j := by omega
    rw [h2] at this; exact this
  show getN a (a.length - 1 - i) * getN b (b.length - 1 - j) = getN a.reverse i * getN b.reverse j
  rw [e1, e2]

/-- a 2-D correlation with the rank-one kernel `a ⊗ b` is a nested pair of 1-D correlations:
`Σ_i Σ_j a_i b_j x[sh·p+i, sw·q+j] = Σ_i a_i · (Σ_j b_j x[sh·p+i, sw·q+j])` -/
theorem corr2_outer_eq (a b : List R) (x : Img R) (sh sw p q : Nat) (ha : 0 < a.length)
    (hp : p < corrLen x.length a.length sh 1) (hq : q < corrLen x.width b.length sw 1) :
    get2 (corr2 (outer a b) x sh sw) p q
      = ∑ i ∈ range a.length, getN a i * (∑ j ∈ range b.length, getN b j * get2 x (sh*p + i) (sw*q + j)) := by
  unfold corr2
  have hlen : (outer a b).length = a.length := by simp [outer, tab2]
  have hwid : (outer a b).width = b.length := by unfold outer; exact width_tab2 _ _ _ ha
  rw [hlen, hwid, get2_tab2 _ _ _ _ _ hp hq, sumN_eq]
  apply Finset.sum_congr rfl; intro i hi
  have hi' : i < a.length := by simpa using hi
  rw [sumN_eq, Finset.mul_sum]
  apply Finset.sum_congr rfl; intro j hj
  have hj' : j < b.length := by simpa using hj
  unfold outer
  rw [get2_tab2 _ _ _ _ _ hi' hj']
  ring

/-- the inner sum is exactly what the separable row pass computes -/
theorem rows_corr_get (b : List R) (x : Img R) (sw r q : Nat)
    (hq : q < corrLen (x.getD r []).length b.length sw 1) :
    get2 (x.map fun row => corr b row sw 1) r q = ∑ j ∈ range b.length, getN b j * get2 x r (sw*q + j) := by
  have hr : r < x.length := by
    by_contra hcon
    have : x.getD r [] = [] := by
      rw [List.getD_eq_getElem?_getD, List.getElem?_eq_none (by omega)]; rfl
    rw [this] at hq
    simp [corrLen] at hq
  have e : (x.map fun row => corr b row sw 1).getD r [] = corr b (x.getD r []) sw 1 := by
    simp [List.getD_eq_getElem?_getD, List.getElem?_eq_getElem hr]
  unfold get2
  rw [e]
  unfold corr
  rw [getD_tab]; simp only [hq, if_true]
  rw [sumN_eq]
  apply Finset.sum_congr rfl; intro j _
  simp [getN]

/-- non-vacuity and a concrete check of the factorisation on integers -/
example : get2 (corr2 (outer [1, 2] [3, -1]) ([[1,2,3],[4,5,6],[7,8,9]] : Img Int) 1 1) 1 1
    = 1 * (3*5 + -1*6) + 2 * (3*8 + -1*9) := by decide

end WV.C19
