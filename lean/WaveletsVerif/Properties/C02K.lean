/-
  C02 — perfect reconstruction through the WHOLE 2-D pyramid, every number of levels.

  One level: `idwt2(dwt2(x))` has `x` in its top-left `H × W` corner and at most one extra row and one extra column
  (`level2d_pr`) — column pairs are reconstructed first (`C02J.level_pr` on every column), then row pairs.  The un-pad
  rule of `waverec2` removes exactly the extra row / column before the next finer synthesis (`unpad_topleft`), so
  `waverec2(wavedec2(x))` has `x` in its top-left corner for every J (`pyramid2d_pr`); the pyramid of an image has the
  shapes `DWTInverse` accepts (`compat_wavedec2`), which gives the statement for the implementation models of
  `DWTForward` / `DWTInverse` (`DWT2D_roundtrip`), per-axis wavelets included.
-/
import WaveletsVerif.Properties.C02J
import WaveletsVerif.Properties.C05D
namespace WV.C02K
open Finset WV WV.C04 WV.C04Q WV.C05D WV.C02
variable {R : Type} [CommRing R]

/-- `TopLeft y x H W`: `y` is `(H or H+1) × (W or W+1)` and carries `x` in its top-left `H × W` block -/
def TopLeft (y x : Img R) (H W : Nat) : Prop :=
  ∃ Hf Wf, Rect y Hf Wf ∧ (Hf = H ∨ Hf = H + 1) ∧ (Wf = W ∨ Wf = W + 1) ∧ ∀ i < H, ∀ j < W, get2 y i j = get2 x i j

theorem tab_getN' (l : List R) (n : Nat) (h : l.length = n) : tab n (getN l) = l := C04.tab_getN l n h

/-- `tr ∘ zip2 F ∘ (tr, tr)` on two images of `W ≥ 1` columns is the column-wise operator -/
theorem tr_zip2_tr (F : List R → List R → List R) (a b : Img R) (K W n : Nat) (ha : Rect a K W) (hb : Rect b K W)
    (hK : 1 ≤ K) (hW : 1 ≤ W) (hF : ∀ u v : List R, u.length = K → (F u v).length = n) :
    tr (Spec.zip2 F (tr a) (tr b)) = colzip F n W a b := by
  have hwa : Img.width a = W := rect_width _ _ _ ha hK
  have hwb : Img.width b = W := rect_width _ _ _ hb hK
  have e : Spec.zip2 F (tr a) (tr b) = tab W fun j => F (col a j) (col b j) := by
    unfold Spec.zip2
    rw [C10.tr_length, hwa]
    apply tab_ext rfl; intro j hj
    rw [tr_getD a j (by rw [hwa]; exact hj), tr_getD b j (by rw [hwb]; exact hj)]
  rw [e, tr_tab_cols W n hW _ (fun j _ => hF _ _ (by simp [col, ha.1]))]
  rfl

/-- `zip2 F` on two images of `H` rows is the row-wise operator -/
theorem zip2_eq_rowzip (F : List R → List R → List R) (a b : Img R) (H K n : Nat) (ha : Rect a H K)
    (hF : ∀ u v : List R, u.length = K → (F u v).length = n) :
    Spec.zip2 F a b = rowzip F H n a b := by
  unfold Spec.zip2 rowzip tab2
  rw [ha.1]
  apply tab_ext rfl; intro i hi
  rw [tab_getN' _ n (hF _ _ (getD_row_length a H K ha i hi))]

theorem dwt_len (m : Mode) (hm : m = .zero ∨ m = .symmetric ∨ m = .periodic) (h c : List R) :
    (Spec.dwt m h c).length = dwtCoeffLen c.length h.length := C01.dwt_length m hm h c

theorem col_alongH (f : List R → List R) (x : Img R) (H H' W : Nat) (hx : Rect x H W) (hH : 1 ≤ H) (hW : 1 ≤ W)
    (hf : ∀ c : List R, c.length = H → (f c).length = H') (j : Nat) (hj : j < W) :
    col (alongH f x) j = f (col x j) := by
  rw [alongH_get' f x H H' W hx hH hW hf, col_tab2 H' W _ j hj]
  exact tab_getN' _ H' (hf _ (by simp [col, hx.1]))

theorem row_alongW (f : List R → List R) (x : Img R) (H W W' : Nat) (hx : Rect x H W)
    (hf : ∀ c : List R, c.length = W → (f c).length = W') (i : Nat) (hi : i < H) :
    (alongW f x).getD i [] = f (x.getD i []) := by
  rw [alongW_get' f x H W W' hx hf, getD_tab2_row' H W' _ i hi]
  exact tab_getN' _ W' (hf _ (getD_row_length x H W hx i hi))

section onelevel
variable (m : Mode) (hm : m = .zero ∨ m = .symmetric ∨ m = .periodic)
  (hc0 hc1 gc0 gc1 : List R) (hLc : 2 ≤ hc0.length) (hhc : hc1.length = hc0.length) (hgc0 : gc0.length = hc0.length)
  (hgc1 : gc1.length = hc0.length) (hprc : PRBank hc0 hc1 gc0 gc1)
  (hr0 hr1 gr0 gr1 : List R) (hLr : 2 ≤ hr0.length) (hhr : hr1.length = hr0.length) (hgr0 : gr0.length = hr0.length)
  (hgr1 : gr1.length = hr0.length) (hprr : PRBank hr0 hr1 gr0 gr1)

include hm hLc hhc hgc0 hgc1 hprc hLr hhr hgr0 hgr1 hprr in
/-- **one level in two dimensions**: `idwt2(dwt2(x))` carries `x` in its top-left corner and is at most one row and one
column larger; the four bands all have the shape `⌊(H+Lc−1)/2⌋ × ⌊(W+Lr−1)/2⌋` -/
theorem level2d_pr (x : Img R) (H W : Nat) (hx : Rect x H W) (hH : 1 ≤ H) (hW : 1 ≤ W) :
    let d := Spec.dwt2 m hc0 hc1 hr0 hr1 x
    Rect d.1 (dwtCoeffLen H hc0.length) (dwtCoeffLen W hr0.length) ∧
    Rect d.2.1 (dwtCoeffLen H hc0.length) (dwtCoeffLen W hr0.length) ∧
    Rect d.2.2.1 (dwtCoeffLen H hc0.length) (dwtCoeffLen W hr0.length) ∧
    Rect d.2.2.2 (dwtCoeffLen H hc0.length) (dwtCoeffLen W hr0.length) ∧
    TopLeft (Spec.idwt2 m gc0 gc1 gr0 gr1 d.1 d.2.1 d.2.2.1 d.2.2.2) x H W := by
  intro d
  set K := dwtCoeffLen H hc0.length with hK'
  set K' := dwtCoeffLen W hr0.length with hK''
  have hK : 1 ≤ K := by rw [hK']; unfold dwtCoeffLen; omega
  have hKw : 1 ≤ K' := by rw [hK'']; unfold dwtCoeffLen; omega
  have hmp : m ≠ .periodization := by rcases hm with rfl | rfl | rfl <;> decide
  have hmS : C10.ModeS m := by
    rcases hm with h | h | h
    · exact Or.inl h
    · exact Or.inr (Or.inl h)
    · exact Or.inr (Or.inr (Or.inr h))
  -- the row pass
  have lr : ∀ (h : List R), h.length = hr0.length → ∀ c : List R, c.length = W → (Spec.dwt m h c).length = K' := by
    intro h hh c hc; rw [dwt_len m hm, hc, hh]
  have lc : ∀ (h : List R), h.length = hc0.length → ∀ c : List R, c.length = H → (Spec.dwt m h c).length = K := by
    intro h hh c hc; rw [dwt_len m hm, hc, hh]
  set lo := alongW (Spec.dwt m hr0) x with hlo
  set hi := alongW (Spec.dwt m hr1) x with hhi
  have rlo : Rect lo H K' := by rw [hlo, alongW_get' _ x H W K' hx (lr hr0 rfl)]; exact tab2_rect _ _ _
  have rhi : Rect hi H K' := by rw [hhi, alongW_get' _ x H W K' hx (lr hr1 hhr)]; exact tab2_rect _ _ _
  have hd : d = (alongH (Spec.dwt m hc0) lo, alongH (Spec.dwt m hc1) lo, alongH (Spec.dwt m hc0) hi, alongH (Spec.dwt m hc1) hi) := rfl
  have rb : ∀ (h : List R) (y : Img R), h.length = hc0.length → Rect y H K' → Rect (alongH (Spec.dwt m h) y) K K' := by
    intro h y hh hy
    rw [alongH_get' _ y H K K' hy hH hKw (lc h hh)]; exact tab2_rect _ _ _
  have rA := rb hc0 lo rfl rlo
  have rH := rb hc1 lo hhc rlo
  have rV := rb hc0 hi rfl rhi
  have rD := rb hc1 hi hhc rhi
  refine ⟨by rw [hd]; exact rA, by rw [hd]; exact rH, by rw [hd]; exact rV, by rw [hd]; exact rD, ?_⟩
  rw [hd]
  simp only
  -- the synthesis in column-wise / row-wise form
  set Hf := 2 * K + 2 - gc0.length with hHf
  set Wf := 2 * K' + 2 - gr0.length with hWf
  have lic : ∀ u v : List R, u.length = K → (Spec.idwt m gc0 gc1 u v).length = Hf := by
    intro u v hu; rw [C10.idwt_length m hmS, hu]
  have lir : ∀ u v : List R, u.length = K' → (Spec.idwt m gr0 gr1 u v).length = Wf := by
    intro u v hu; rw [C10.idwt_length m hmS, hu]
  have e1 := tr_zip2_tr (Spec.idwt m gc0 gc1) _ _ K K' Hf rA rH hK hKw lic
  have e2 := tr_zip2_tr (Spec.idwt m gc0 gc1) _ _ K K' Hf rV rD hK hKw lic
  have hspec : Spec.idwt2 m gc0 gc1 gr0 gr1 (alongH (Spec.dwt m hc0) lo) (alongH (Spec.dwt m hc1) lo)
        (alongH (Spec.dwt m hc0) hi) (alongH (Spec.dwt m hc1) hi)
      = rowzip (Spec.idwt m gr0 gr1) Hf Wf
          (colzip (Spec.idwt m gc0 gc1) Hf K' (alongH (Spec.dwt m hc0) lo) (alongH (Spec.dwt m hc1) lo))
          (colzip (Spec.idwt m gc0 gc1) Hf K' (alongH (Spec.dwt m hc0) hi) (alongH (Spec.dwt m hc1) hi)) := by
    unfold Spec.idwt2
    simp only
    rw [e1, e2]
    exact zip2_eq_rowzip _ _ _ Hf K' Wf (colzip_rect _ _ _ _ _) lir
  rw [hspec]
  have hu1 := unpad_length H hc0.length hLc hH
  have hu2 := unpad_length W hr0.length hLr hW
  refine ⟨Hf, Wf, rowzip_rect _ _ _ _ _, by rw [hHf, hgc0]; exact hu1, by rw [hWf, hgr0]; exact hu2, ?_⟩
  intro i hi' j hj
  have hiHf : i < Hf := by rw [hHf, hgc0]; omega
  have hjWf : j < Wf := by rw [hWf, hgr0]; omega
  unfold rowzip
  rw [C19.get2_tab2 _ _ _ _ _ hiHf hjWf]
  -- row i of the column synthesis is row i of the row-filtered image
  have hrow : ∀ (y : Img R), Rect y H K' →
      (colzip (Spec.idwt m gc0 gc1) Hf K' (alongH (Spec.dwt m hc0) y) (alongH (Spec.dwt m hc1) y)).getD i [] = y.getD i [] := by
    intro y hy
    unfold colzip
    rw [getD_tab2_row' _ _ _ i hiHf]
    have hyl := getD_row_length y H K' hy i hi'
    apply list_ext_getN'
    · rw [length_tab, hyl]
    · intro j' hj'
      rw [length_tab] at hj'
      rw [getN_tab, if_pos hj', col_alongH _ y H K K' hy hH hKw (lc hc0 rfl) j' hj',
        col_alongH _ y H K K' hy hH hKw (lc hc1 hhc) j' hj']
      have hcl : (col y j').length = H := by simp [col, hy.1]
      rw [pr_padded m hmp hc0 hc1 gc0 gc1 (col y j') hLc hhc hgc0 hgc1 hprc i (by rw [hcl]; exact hi')]
      unfold col get2
      rw [getN_tab, hy.1, if_pos hi']; rfl
  rw [hrow lo rlo, hrow hi rhi, hlo, hhi, row_alongW _ x H W K' hx (lr hr0 rfl) i hi', row_alongW _ x H W K' hx (lr hr1 hhr) i hi']
  have hxl := getD_row_length x H W hx i hi'
  rw [pr_padded m hmp hr0 hr1 gr0 gr1 (x.getD i []) hLr hhr hgr0 hgr1 hprr j (by rw [hxl]; exact hj)]
  rfl

end onelevel

/-! ### the un-pad rule removes exactly the extra row / column -/

theorem rect_ext (a b : Img R) (H W : Nat) (ha : Rect a H W) (hb : Rect b H W)
    (h : ∀ i < H, ∀ j < W, get2 a i j = get2 b i j) : a = b := by
  rw [rect_eq_tab2 a H W ha, rect_eq_tab2 b H W hb]
  exact tab2_congr H W _ _ h

theorem get2_take_rows (a : Img R) (k i j : Nat) (hi : i < k) : get2 (a.take k) i j = get2 a i j := by
  unfold get2
  rw [List.getD_eq_getElem?_getD, List.getD_eq_getElem?_getD, List.getElem?_take]
  simp [hi]

theorem get2_map_take (a : Img R) (i j : Nat) (hj : ∀ r ∈ a, j + 1 < r.length) :
    get2 (a.map fun r => r.take (r.length - 1)) i j = get2 a i j := by
  unfold get2
  by_cases hi : i < a.length
  · have e1 : (a.map fun r => r.take (r.length - 1)).getD i [] = (a[i]).take (a[i].length - 1) := by
      rw [List.getD_eq_getElem?_getD, List.getElem?_eq_getElem (by simpa using hi)]; simp
    have e2 : a.getD i [] = a[i] := by
      rw [List.getD_eq_getElem?_getD, List.getElem?_eq_getElem hi]; rfl
    have := hj a[i] (List.getElem_mem hi)
    rw [e1, e2, List.getD_eq_getElem?_getD, List.getD_eq_getElem?_getD, List.getElem?_take]
    simp [show j < a[i].length - 1 by omega]
  · have e1 : (a.map fun r => r.take (r.length - 1)).getD i [] = [] := by
      rw [List.getD_eq_getElem?_getD, List.getElem?_eq_none (by simpa using hi)]; rfl
    have e2 : a.getD i [] = [] := by
      rw [List.getD_eq_getElem?_getD, List.getElem?_eq_none (by omega)]; rfl
    rw [e1, e2]

/-- what `waverec2` does to a reconstructed approximation before the next synthesis -/
def unpad2 (a : Img R) (K K' : Nat) : Img R :=
  let a1 : Img R := if a.length = K + 1 then a.take (a.length - 1) else a
  if Img.width a1 = K' + 1 then a1.map (fun r => r.take (r.length - 1)) else a1

theorem unpad_topleft (y cA : Img R) (K K' : Nat) (hK : 1 ≤ K) (hK' : 1 ≤ K') (hcA : Rect cA K K') (h : TopLeft y cA K K') :
    unpad2 y K K' = cA := by
  obtain ⟨Hf, Wf, ry, hH, hW, hpix⟩ := h
  unfold unpad2
  set a1 : Img R := if y.length = K + 1 then y.take (y.length - 1) else y with ha1
  have r1 : Rect a1 K Wf := by
    rw [ha1]
    by_cases hc : y.length = K + 1
    · rw [if_pos hc]
      refine ⟨by rw [List.length_take]; omega, fun r hr => ry.2 r (List.mem_of_mem_take hr)⟩
    · rw [if_neg hc]
      have : Hf = K := by rw [ry.1] at hc; omega
      rw [← this]; exact ry
  have p1 : ∀ i < K, ∀ j, get2 a1 i j = get2 y i j := by
    intro i hi j
    rw [ha1]
    by_cases hc : y.length = K + 1
    · rw [if_pos hc, hc]; exact get2_take_rows y _ i j (by omega)
    · rw [if_neg hc]
  have hw1 : Img.width a1 = Wf := rect_width _ _ _ r1 hK
  simp only [← ha1, hw1]
  by_cases hc : Wf = K' + 1
  · rw [if_pos hc]
    apply rect_ext _ _ K K' ⟨by rw [List.length_map]; exact r1.1, ?_⟩ hcA
    · intro i hi j hj
      rw [get2_map_take a1 i j (fun r hr => by rw [r1.2 r hr, hc]; omega), p1 i hi j]
      exact hpix i hi j hj
    · intro r hr
      obtain ⟨r0, hr0, rfl⟩ := List.mem_map.mp hr
      rw [List.length_take, r1.2 r0 hr0, hc]; omega
  · rw [if_neg hc]
    have : Wf = K' := by omega
    apply rect_ext _ _ K K' (by rw [← this]; exact r1) hcA
    intro i hi j hj
    rw [p1 i hi j]; exact hpix i hi j hj

/-! ### every number of levels -/

section pyramid
variable (m : Mode) (hm : m = .zero ∨ m = .symmetric ∨ m = .periodic)
  (hc0 hc1 gc0 gc1 : List R) (hLc : 2 ≤ hc0.length) (hhc : hc1.length = hc0.length) (hgc0 : gc0.length = hc0.length)
  (hgc1 : gc1.length = hc0.length) (hprc : PRBank hc0 hc1 gc0 gc1)
  (hr0 hr1 gr0 gr1 : List R) (hLr : 2 ≤ hr0.length) (hhr : hr1.length = hr0.length) (hgr0 : gr0.length = hr0.length)
  (hgr1 : gr1.length = hr0.length) (hprr : PRBank hr0 hr1 gr0 gr1)

theorem stepS2_some (a cH cV cD : Img R) :
    C10.stepS2 m gc0 gc1 gr0 gr1 a (some [cH, cV, cD])
      = Spec.idwt2 m gc0 gc1 gr0 gr1 (unpad2 a cH.length (Img.width cH)) cH cV cD := rfl

include hm hLc hhc hgc0 hgc1 hprc hLr hhr hgr0 hgr1 hprr in
/-- **`waverec2(wavedec2(x))` carries `x` in its top-left corner, for every J**, and the pyramid has the shapes the
inverse accepts -/
theorem pyramid2d_pr : ∀ (J : Nat) (x : Img R) (H W : Nat), Rect x H W → 1 ≤ H → 1 ≤ W →
    TopLeft (Spec.waverec2 m gc0 gc1 gr0 gr1 (Spec.wavedec2 m hc0 hc1 hr0 hr1 J x).1
      ((Spec.wavedec2 m hc0 hc1 hr0 hr1 J x).2.map some)) x H W ∧
    C10.Compat2 m gc0 gc1 gr0 gr1 (Spec.wavedec2 m hc0 hc1 hr0 hr1 J x).1
      ((Spec.wavedec2 m hc0 hc1 hr0 hr1 J x).2.map some).reverse := by
  intro J
  induction J with
  | zero =>
    intro x H W hx hH hW
    simp only [Spec.wavedec2, List.map_nil, List.reverse_nil, C10.Compat2, and_true]
    exact ⟨H, W, by simpa [Spec.waverec2] using hx, Or.inl rfl, Or.inl rfl, fun i _ j _ => by simp [Spec.waverec2]⟩
  | succ J ih =>
    intro x H W hx hH hW
    obtain ⟨rA, rH, rV, rD, htl⟩ := level2d_pr m hm hc0 hc1 gc0 gc1 hLc hhc hgc0 hgc1 hprc hr0 hr1 gr0 gr1 hLr hhr hgr0 hgr1 hprr x H W hx hH hW
    set d := Spec.dwt2 m hc0 hc1 hr0 hr1 x with hd
    set K := dwtCoeffLen H hc0.length with hK'
    set K' := dwtCoeffLen W hr0.length with hK''
    have hK : 1 ≤ K := by rw [hK']; unfold dwtCoeffLen; omega
    have hKw : 1 ≤ K' := by rw [hK'']; unfold dwtCoeffLen; omega
    obtain ⟨ih1, ih2⟩ := ih d.1 K K' rA hK hKw
    have hwd : Spec.wavedec2 m hc0 hc1 hr0 hr1 (J+1) x
        = ((Spec.wavedec2 m hc0 hc1 hr0 hr1 J d.1).1, [d.2.1, d.2.2.1, d.2.2.2] :: (Spec.wavedec2 m hc0 hc1 hr0 hr1 J d.1).2) := rfl
    rw [hwd]
    simp only [List.map_cons, List.reverse_cons]
    set Rc := Spec.waverec2 m gc0 gc1 gr0 gr1 (Spec.wavedec2 m hc0 hc1 hr0 hr1 J d.1).1
      ((Spec.wavedec2 m hc0 hc1 hr0 hr1 J d.1).2.map some) with hRc
    have hun : unpad2 Rc K K' = d.1 := unpad_topleft Rc d.1 K K' hK hKw rA ih1
    have hstep : C10.stepS2 m gc0 gc1 gr0 gr1 Rc (some [d.2.1, d.2.2.1, d.2.2.2])
        = Spec.idwt2 m gc0 gc1 gr0 gr1 d.1 d.2.1 d.2.2.1 d.2.2.2 := by
      rw [stepS2_some, rH.1, rect_width _ _ _ rH hK, hun]
    constructor
    · rw [C10.waverec2_eq_foldl, List.reverse_cons, List.foldl_append, ← C10.waverec2_eq_foldl]
      simp only [List.foldl_cons, List.foldl_nil]
      rw [← hRc, hstep]
      exact htl
    · -- compatibility: the coarser levels (IH), then this level on their reconstruction
      have happ : ∀ (a : Img R) (l1 l2 : List (Option (List (Img R)))),
          C10.Compat2 m gc0 gc1 gr0 gr1 a l1 → C10.Compat2 m gc0 gc1 gr0 gr1 (l1.foldl (C10.stepS2 m gc0 gc1 gr0 gr1) a) l2 →
          C10.Compat2 m gc0 gc1 gr0 gr1 a (l1 ++ l2) := by
        intro a l1
        induction l1 generalizing a with
        | nil => intro l2 _ h2; simpa using h2
        | cons e rest ihl =>
          intro l2 h1 h2
          obtain ⟨hok, hrest⟩ := h1
          exact ⟨hok, ihl _ l2 hrest (by simpa using h2)⟩
      apply happ _ _ _ ih2
      rw [← C10.waverec2_eq_foldl, ← hRc]
      refine ⟨?_, trivial⟩
      obtain ⟨Hf, Wf, rR, hHf, hWf, _⟩ := ih1
      refine ⟨K, K', hK, hKw, by rw [rR.1]; exact hHf, by rw [rect_width _ _ _ rR (by omega)]; exact hWf, ?_, ?_, ?_⟩
      · rw [hgc0, hK']; unfold dwtCoeffLen; omega
      · rw [hgr0, hK'']; unfold dwtCoeffLen; omega
      · exact ⟨_, _, _, rfl, ⟨rH.1, rect_width _ _ _ rH hK⟩, ⟨rV.1, rect_width _ _ _ rV hK⟩, ⟨rD.1, rect_width _ _ _ rD hK⟩⟩

include hm hLc hhc hgc0 hgc1 hprc hLr hhr hgr0 hgr1 hprr in
/-- **J-level 2-D perfect reconstruction of the implementation models**: `DWTInverse(DWTForward(x))` returns, and its
result carries `x` in its top-left corner with at most one extra row and column (as PyWavelets) — every J, every image
size, per-axis wavelets, every pair of banks with `PRBank`, modes zero / symmetric / periodic -/
theorem DWT2D_roundtrip (J : Nat) (x : Img R) (H W : Nat) (hx : Rect x H W) (hH : 1 ≤ H) (hW : 1 ≤ W) :
    ∃ yl yh y, DWTForwardM m J [hc0, hc1, hr0, hr1] [x] = some (yl, yh) ∧
      DWTInverse m gc0 gc1 gr0 gr1 yl (yh.map some) = some [y] ∧ TopLeft y x H W := by
  have hne : C01.NonEmptyImg x := ⟨by rw [hx.1]; exact hH, fun r hr => by rw [hx.2 r hr]; exact hW⟩
  have hf := C01.DWTForward_eq_wavedec2 m hm hc0 hc1 hr0 hr1 hLc (by omega) hLr (by omega) J x hne
  obtain ⟨p1, p2⟩ := pyramid2d_pr m hm hc0 hc1 gc0 gc1 hLc hhc hgc0 hgc1 hprc hr0 hr1 gr0 gr1 hLr hhr hgr0 hgr1 hprr J x H W hx hH hW
  have hmS : C10.ModeS m := by
    rcases hm with h | h | h
    · exact Or.inl h
    · exact Or.inr (Or.inl h)
    · exact Or.inr (Or.inr (Or.inr h))
  have hi := C10.DWTInverse_eq_waverec2 m hmS gc0 gc1 gr0 gr1 (by omega) (by omega) (by omega) (by omega)
    (Spec.wavedec2 m hc0 hc1 hr0 hr1 J x).1 ((Spec.wavedec2 m hc0 hc1 hr0 hr1 J x).2.map some) p2
  refine ⟨_, _, _, hf, ?_, p1⟩
  rw [← hi]
  congr 1
  rw [List.map_map, List.map_map]
  apply List.map_congr_left
  intro d _
  rfl

end pyramid

end WV.C02K
