/-
  C06 (levels ≥ 2) — the backward pass of a q-shift stage is its adjoint.

  `FWD_J2PLUS.backward` runs `inv_j2plus` with the analysis buffers and trees a/b exchanged: the gradient of
  `coldfilt(·, h, reverse h)` is computed as `colifilt(·, reverse h, h)`.  We prove that this IS the transpose:

      ⟨coldfilt h (reverse h) hp x, g⟩ = ⟨x, colifilt (reverse h) h hp g⟩

  for every even filter length, every filter VALUE (no orthogonality needed), both highpass flags, every column
  length that is a positive multiple of 4 and every cotangent (`coldfilt_colifilt_adjoint`), over any commutative
  ring.  Route: tap forms of the two line operators (`lineD_taps`, `lineE_taps`), transposition of one tap on the
  periodic line (`transpose_tap`: a decimation re-indexing and a window shift), and the reflection equivariance
  of `lineE`, which folds the full-period identity back to the half period without dividing by 2.
-/
import WaveletsVerif.Properties.C04Q
import WaveletsVerif.Properties.C06
namespace WV.C06Q
open Finset WV WV.C04 WV.C04Q
variable {R : Type} [CommRing R]

/-! ## sums over windows of periodic functions -/

/-- a window of `N` consecutive samples of an `N`-periodic function has the same sum wherever it starts -/
theorem window_shift_one (Ψ : Int → R) (N : Nat) (hΨ : ∀ v : Int, Ψ (v + N) = Ψ v) (A : Int) :
    ∑ v ∈ range N, Ψ (A + 1 + (v:Int)) = ∑ v ∈ range N, Ψ (A + (v:Int)) := by
  have h1 : ∑ v ∈ range (N+1), Ψ (A + (v:Int)) = ∑ v ∈ range N, Ψ (A + 1 + (v:Int)) + Ψ A := by
    rw [Finset.sum_range_succ']
    congr 1
    · apply Finset.sum_congr rfl; intro v _; congr 1; push_cast; ring
    · simp
  have h2 : ∑ v ∈ range (N+1), Ψ (A + (v:Int)) = ∑ v ∈ range N, Ψ (A + (v:Int)) + Ψ (A + N) := Finset.sum_range_succ _ _
  rw [hΨ] at h2
  have := h1.symm.trans h2
  exact add_right_cancel this

theorem window_shift (Ψ : Int → R) (N : Nat) (hΨ : ∀ v : Int, Ψ (v + N) = Ψ v) (A : Int) :
    ∑ v ∈ range N, Ψ (A + (v:Int)) = ∑ v ∈ range N, Ψ (v:Int) := by
  induction A using Int.induction_on with
  | zero => simp
  | succ k ih => rw [window_shift_one Ψ N hΨ]; exact ih
  | pred k ih =>
    have := window_shift_one Ψ N hΨ (-(k:Int) - 1)
    have e : -(k:Int) - 1 + 1 = -(k:Int) := by ring
    rw [e] at this
    rw [← this]; exact ih

/-- keeping every fourth sample: `Σ_{i<4N} [i ≡ ρ mod 4]·f(i) = Σ_{v<N} f(4v+ρ)` -/
theorem sum_decimate4 (N ρ : Nat) (hρ : ρ < 4) (f : Nat → R) :
    ∑ i ∈ range (4*N), (if i % 4 = ρ then f i else 0) = ∑ v ∈ range N, f (4*v + ρ) := by
  induction N with
  | zero => simp
  | succ N ih =>
    have : 4 * (N+1) = 4*N + 1 + 1 + 1 + 1 := by ring
    rw [this, Finset.sum_range_succ, Finset.sum_range_succ, Finset.sum_range_succ, Finset.sum_range_succ, ih,
      Finset.sum_range_succ]
    have c0 : (4*N) % 4 = 0 := by omega
    have c1 : (4*N+1) % 4 = 1 := by omega
    have c2 : (4*N+1+1) % 4 = 2 := by omega
    have c3 : (4*N+1+1+1) % 4 = 3 := by omega
    rw [c0, c1, c2, c3]
    have hc : ρ = 0 ∨ ρ = 1 ∨ ρ = 2 ∨ ρ = 3 := by omega
    rcases hc with h | h | h | h <;> subst h <;> simp <;> ring_nf

/-! ## transposition of one tap on the periodic line -/

/-- one tap of the decimating stage, restricted to the outputs `w ≡ s (mod 2)`, and its transpose: for `X` of
period `4n` and `G` of period `2n` (`n` even),
`Σ_v G(−n+2v+s)·X(2(−n+2v+s)+c) = Σ_{u in a period} X(u)·[u−c ≡ 2s mod 4]·G((u−c)/2)` -/
theorem transpose_tap (X G : Int → R) (n : Nat) (hn : n % 2 = 0)
    (hX : ∀ u : Int, X (u + ((4*n : Nat):Int)) = X u) (hG : ∀ w : Int, G (w + ((2*n : Nat):Int)) = G w)
    (c s : Int) (hs : s = 0 ∨ s = 1) :
    ∑ v ∈ range n, G (-(n:Int) + 2*(v:Int) + s) * X (2 * (-(n:Int) + 2*(v:Int) + s) + c)
      = ∑ i ∈ range (4*n), X (-(2*(n:Int)) + (i:Int)) *
          (if (-(2*(n:Int)) + (i:Int) - c) % 4 = 2*s then G ((-(2*(n:Int)) + (i:Int) - c) / 2) else 0) := by
  set ρ : Nat := ((c + 2*s) % 4).toNat with hρ
  set α : Int := (c + 2*s) / 4 with hα
  have hρ4 : ρ < 4 := by omega
  have hcs : c + 2*s = 4*α + (ρ:Int) := by omega
  -- the right-hand side: only `i ≡ ρ` survives
  have hR : ∀ i ∈ range (4*n), X (-(2*(n:Int)) + (i:Int)) *
        (if (-(2*(n:Int)) + (i:Int) - c) % 4 = 2*s then G ((-(2*(n:Int)) + (i:Int) - c) / 2) else 0)
      = if i % 4 = ρ then X (-(2*(n:Int)) + (i:Int)) * G ((-(2*(n:Int)) + (i:Int) - c) / 2) else 0 := by
    intro i _
    have hiff : ((-(2*(n:Int)) + (i:Int) - c) % 4 = 2*s) ↔ (i % 4 = ρ) := by omega
    by_cases hc : i % 4 = ρ
    · rw [if_pos hc, if_pos (hiff.mpr hc)]
    · rw [if_neg hc, if_neg (fun h => hc (hiff.mp h)), mul_zero]
  rw [Finset.sum_congr rfl hR, sum_decimate4 n ρ hρ4]
  -- both sides are windows of the same `n`-periodic function
  set Ψ : Int → R := fun v => G (-(n:Int) + 2*v + s) * X (2 * (-(n:Int) + 2*v + s) + c) with hΨ
  have hper : ∀ v : Int, Ψ (v + n) = Ψ v := by
    intro v
    simp only [hΨ]
    have e1 : -(n:Int) + 2*(v + n) + s = (-(n:Int) + 2*v + s) + ((2*n : Nat):Int) := by push_cast; ring
    have e2 : 2 * (-(n:Int) + 2*(v + n) + s) + c = (2 * (-(n:Int) + 2*v + s) + c) + ((4*n : Nat):Int) := by push_cast; ring
    rw [e2, e1, hG, hX]
  have hL : ∑ v ∈ range n, G (-(n:Int) + 2*(v:Int) + s) * X (2 * (-(n:Int) + 2*(v:Int) + s) + c)
      = ∑ v ∈ range n, Ψ (v:Int) := rfl
  have hRR : ∑ v ∈ range n, X (-(2*(n:Int)) + ((4*v + ρ : Nat):Int)) * G ((-(2*(n:Int)) + ((4*v + ρ : Nat):Int) - c) / 2)
      = ∑ v ∈ range n, Ψ (-α + (v:Int)) := by
    apply Finset.sum_congr rfl; intro v _
    simp only [hΨ]
    have e1 : (-(2*(n:Int)) + ((4*v + ρ : Nat):Int) - c) / 2 = -(n:Int) + 2*(-α + (v:Int)) + s := by
      push_cast; omega
    have e2 : -(2*(n:Int)) + ((4*v + ρ : Nat):Int) = 2 * (-(n:Int) + 2*(-α + (v:Int)) + s) + c := by
      push_cast; omega
    rw [e1, e2]; ring
  rw [hL, hRR, window_shift Ψ n hper (-α)]

/-! ## tap forms of the two line operators -/

theorem treeD_a (h : List R) (X : Int → R) (v : Int) :
    treeD h 2 X v = ∑ t ∈ range h.length, getN h t * X (4*v + (h.length:Int) - 2*(t:Int)) := by
  unfold treeD
  rw [← Finset.sum_range_reflect]
  apply Finset.sum_congr rfl; intro t ht
  have ht' : t < h.length := by simpa using ht
  have e1 : h.length - 1 - (h.length - 1 - t) = t := by omega
  rw [e1]
  congr 2
  have : ((h.length - 1 - t : Nat):Int) = (h.length:Int) - 1 - t := by omega
  rw [this]; ring

theorem treeD_b (h : List R) (X : Int → R) (v : Int) :
    treeD h.reverse 3 X v = ∑ t ∈ range h.length, getN h t * X (4*v + 2*(t:Int) + 3 - (h.length:Int)) := by
  unfold treeD
  rw [List.length_reverse]
  apply Finset.sum_congr rfl; intro t ht
  have ht' : t < h.length := by simpa using ht
  have hrv := getN_reverse h t ht'
  rw [hrv]

/-- offsets of tap `t`: output `w` reads `X(2w + cE)` when `w` is even and `X(2w + cO)` when `w` is odd -/
def cE (m : Nat) (hp : Bool) (t : Nat) : Int := if hp then 2*(t:Int) + 3 - (m:Int) else (m:Int) - 2*(t:Int)
def cO (m : Nat) (hp : Bool) (t : Nat) : Int := if hp then (m:Int) - 2*(t:Int) - 2 else 2*(t:Int) - (m:Int) + 1

/-- **tap form of the decimating stage** (trees related by time reversal) -/
theorem lineD_taps (h : List R) (hp : Bool) (X : Int → R) (w : Int) :
    lineD h h.reverse hp X w
      = ∑ t ∈ range h.length, getN h t * X (2*w + (if w % 2 = 0 then cE h.length hp t else cO h.length hp t)) := by
  unfold lineD cE cO
  by_cases hpar : w % 2 = 0
  · simp only [hpar, if_true]
    cases hp
    · simp only [Bool.false_eq_true, if_false]
      rw [treeD_a]; apply Finset.sum_congr rfl; intro t _; congr 2; omega
    · simp only [if_true]
      rw [treeD_b]; apply Finset.sum_congr rfl; intro t _; congr 2; omega
  · simp only [hpar, if_false]
    cases hp
    · simp only [Bool.false_eq_true, if_false]
      rw [treeD_b]; apply Finset.sum_congr rfl; intro t _; congr 2; omega
    · simp only [if_true]
      rw [treeD_a]; apply Finset.sum_congr rfl; intro t _; congr 2; omega

/-- the transpose of one tap, read at input position `u` -/
def Etap (m : Nat) (hp : Bool) (t : Nat) (G : Int → R) (u : Int) : R :=
  (if (u - cE m hp t) % 4 = 0 then G ((u - cE m hp t)/2) else 0)
    + (if (u - cO m hp t) % 4 = 2 then G ((u - cO m hp t)/2) else 0)

theorem brE_direct (h : List R) (hm : h.length % 2 = 0) (hm2 : 2 ≤ h.length) (off : Nat) (ho1 : 1 ≤ off) (ho2 : off ≤ 2)
    (phase : Int) (G : Int → R) (V : Int) :
    brE h.reverse h.length off phase G V
      = ∑ j ∈ range (h.length/2), getN h (2*j + (off - 1)) * G (2 * (V + (j:Int)) + phase - ((h.length/2 : Nat):Int)) := by
  unfold brE
  apply Finset.sum_congr rfl; intro j hj
  have hj' : j < h.length/2 := by simpa using hj
  have hrv := getN_reverse h (2*j + (off - 1)) (by omega)
  have e : h.length - 1 - (2*j + (off - 1)) = h.length - off - 2*j := by omega
  rw [e] at hrv
  rw [hrv]

theorem brE_refl (h : List R) (hm : h.length % 2 = 0) (hm2 : 2 ≤ h.length) (off : Nat) (ho1 : 1 ≤ off) (ho2 : off ≤ 2)
    (phase : Int) (G : Int → R) (V : Int) :
    brE h h.length off phase G V
      = ∑ j ∈ range (h.length/2), getN h (2*j + (2 - off)) *
          G (2 * (V + ((h.length/2 - 1 - j : Nat):Int)) + phase - ((h.length/2 : Nat):Int)) := by
  unfold brE
  rw [← Finset.sum_range_reflect]
  apply Finset.sum_congr rfl; intro j hj
  have hj' : j < h.length/2 := by simpa using hj
  have e : h.length - off - 2 * (h.length/2 - 1 - j) = 2*j + (2 - off) := by omega
  rw [e]

/-- a sum over all taps in which only the taps of one parity contribute -/
theorem taps_match (h : List R) (m2 : Nat) (hm : h.length = 2*m2) (ε : Nat) (hε : ε ≤ 1) (E : Nat → R) (A : Nat → R)
    (hE : ∀ t < h.length, E t = if t % 2 = ε then A (t/2) else 0) :
    ∑ t ∈ range h.length, getN h t * E t = ∑ j ∈ range m2, getN h (2*j + ε) * A j := by
  rw [hm, C06.sum_range_two_mul]
  apply Finset.sum_congr rfl; intro j hj
  have hj' : j < m2 := by simpa using hj
  rw [hE (2*j) (by omega), hE (2*j+1) (by omega)]
  have hε' : ε = 0 ∨ ε = 1 := by omega
  rcases hε' with h0 | h1
  · subst h0
    have c1 : (2*j) % 2 = 0 := by omega
    have c2 : ¬ (2*j+1) % 2 = 0 := by omega
    have c3 : (2*j)/2 = j := by omega
    rw [if_pos c1, if_neg c2, c3]; ring
  · subst h1
    have c1 : ¬ (2*j) % 2 = 1 := by omega
    have c2 : (2*j+1) % 2 = 1 := by omega
    have c3 : (2*j+1)/2 = j := by omega
    rw [if_neg c1, if_pos c2, c3]; ring

/-- decide which indicator of `Etap` fires (hypotheses `hk : u % 4 = κ`, `hpar` on `m/2`, `ht`) -/
macro "etap_tac" : tactic => `(tactic| (
  simp only [Etap, cE, cO, Bool.false_eq_true, if_false, if_true]
  symm
  split
  · first
    | (rw [if_pos (by omega), if_neg (by omega)]; simp only [add_zero, zero_add]; congr 1; omega)
    | (rw [if_neg (by omega), if_pos (by omega)]; simp only [add_zero, zero_add]; congr 1; omega)
  · rw [if_neg (by omega), if_neg (by omega)]; simp only [add_zero]))

/-- **tap form of the interpolating stage with the trees exchanged**: `colifilt(·, reverse h, h)` applies, tap
by tap, the transpose of `coldfilt(·, h, reverse h)` — all 16 combinations of output phase, parity of `m/2`
and highpass flag -/
theorem lineE_taps (h : List R) (hm : h.length % 2 = 0) (hm2 : 2 ≤ h.length) (hp : Bool) (G : Int → R) (u : Int) :
    lineE h.reverse h hp G u = ∑ t ∈ range h.length, getN h t * Etap h.length hp t G u := by
  unfold lineE
  have hc : u % 4 = 0 ∨ u % 4 = 1 ∨ u % 4 = 2 ∨ u % 4 = 3 := by omega
  by_cases hpar : (h.length/2) % 2 = 0
  · -- m/2 even
    simp only [List.length_reverse, hpar, if_true]
    cases hp
    · rcases hc with hk | hk | hk | hk
      · simp only [hk]
        norm_num
        rw [brE_direct h hm hm2 1 (by omega) (by omega) 0 G (u/4)]
        exact (taps_match h (h.length/2) (by omega) 0 (by omega) (fun t => Etap h.length false t G u) (fun j => G (2 * (u/4 + (j:Int)) + 0 - ((h.length/2 : Nat):Int))) (by
          intro t ht
          etap_tac)).symm
      · simp only [hk]
        norm_num
        rw [brE_refl h hm hm2 1 (by omega) (by omega) 1 G (u/4)]
        exact (taps_match h (h.length/2) (by omega) 1 (by omega) (fun t => Etap h.length false t G u) (fun j => G (2 * (u/4 + ((h.length/2 - 1 - j : Nat):Int)) + 1 - ((h.length/2 : Nat):Int))) (by
          intro t ht
          etap_tac)).symm
      · simp only [hk]
        norm_num
        rw [brE_direct h hm hm2 2 (by omega) (by omega) 2 G (u/4)]
        exact (taps_match h (h.length/2) (by omega) 1 (by omega) (fun t => Etap h.length false t G u) (fun j => G (2 * (u/4 + (j:Int)) + 2 - ((h.length/2 : Nat):Int))) (by
          intro t ht
          etap_tac)).symm
      · simp only [hk]
        norm_num
        rw [brE_refl h hm hm2 2 (by omega) (by omega) 3 G (u/4)]
        exact (taps_match h (h.length/2) (by omega) 0 (by omega) (fun t => Etap h.length false t G u) (fun j => G (2 * (u/4 + ((h.length/2 - 1 - j : Nat):Int)) + 3 - ((h.length/2 : Nat):Int))) (by
          intro t ht
          etap_tac)).symm
    · rcases hc with hk | hk | hk | hk
      · simp only [hk]
        norm_num
        rw [brE_direct h hm hm2 1 (by omega) (by omega) 1 G (u/4)]
        exact (taps_match h (h.length/2) (by omega) 0 (by omega) (fun t => Etap h.length true t G u) (fun j => G (2 * (u/4 + (j:Int)) + 1 - ((h.length/2 : Nat):Int))) (by
          intro t ht
          etap_tac)).symm
      · simp only [hk]
        norm_num
        rw [brE_refl h hm hm2 1 (by omega) (by omega) 0 G (u/4)]
        exact (taps_match h (h.length/2) (by omega) 1 (by omega) (fun t => Etap h.length true t G u) (fun j => G (2 * (u/4 + ((h.length/2 - 1 - j : Nat):Int)) + 0 - ((h.length/2 : Nat):Int))) (by
          intro t ht
          etap_tac)).symm
      · simp only [hk]
        norm_num
        rw [brE_direct h hm hm2 2 (by omega) (by omega) 3 G (u/4)]
        exact (taps_match h (h.length/2) (by omega) 1 (by omega) (fun t => Etap h.length true t G u) (fun j => G (2 * (u/4 + (j:Int)) + 3 - ((h.length/2 : Nat):Int))) (by
          intro t ht
          etap_tac)).symm
      · simp only [hk]
        norm_num
        rw [brE_refl h hm hm2 2 (by omega) (by omega) 2 G (u/4)]
        exact (taps_match h (h.length/2) (by omega) 0 (by omega) (fun t => Etap h.length true t G u) (fun j => G (2 * (u/4 + ((h.length/2 - 1 - j : Nat):Int)) + 2 - ((h.length/2 : Nat):Int))) (by
          intro t ht
          etap_tac)).symm
  · -- m/2 odd
    simp only [List.length_reverse, hpar, if_false]
    cases hp
    · rcases hc with hk | hk | hk | hk
      · simp only [hk]
        norm_num
        rw [brE_direct h hm hm2 2 (by omega) (by omega) 1 G (u/4)]
        exact (taps_match h (h.length/2) (by omega) 1 (by omega) (fun t => Etap h.length false t G u) (fun j => G (2 * (u/4 + (j:Int)) + 1 - ((h.length/2 : Nat):Int))) (by
          intro t ht
          etap_tac)).symm
      · simp only [hk]
        norm_num
        rw [brE_refl h hm hm2 2 (by omega) (by omega) 2 G (u/4)]
        exact (taps_match h (h.length/2) (by omega) 0 (by omega) (fun t => Etap h.length false t G u) (fun j => G (2 * (u/4 + ((h.length/2 - 1 - j : Nat):Int)) + 2 - ((h.length/2 : Nat):Int))) (by
          intro t ht
          etap_tac)).symm
      · simp only [hk]
        norm_num
        rw [brE_direct h hm hm2 1 (by omega) (by omega) 1 G (u/4)]
        exact (taps_match h (h.length/2) (by omega) 0 (by omega) (fun t => Etap h.length false t G u) (fun j => G (2 * (u/4 + (j:Int)) + 1 - ((h.length/2 : Nat):Int))) (by
          intro t ht
          etap_tac)).symm
      · simp only [hk]
        norm_num
        rw [brE_refl h hm hm2 1 (by omega) (by omega) 2 G (u/4)]
        exact (taps_match h (h.length/2) (by omega) 1 (by omega) (fun t => Etap h.length false t G u) (fun j => G (2 * (u/4 + ((h.length/2 - 1 - j : Nat):Int)) + 2 - ((h.length/2 : Nat):Int))) (by
          intro t ht
          etap_tac)).symm
    · rcases hc with hk | hk | hk | hk
      · simp only [hk]
        norm_num
        rw [brE_direct h hm hm2 2 (by omega) (by omega) 2 G (u/4)]
        exact (taps_match h (h.length/2) (by omega) 1 (by omega) (fun t => Etap h.length true t G u) (fun j => G (2 * (u/4 + (j:Int)) + 2 - ((h.length/2 : Nat):Int))) (by
          intro t ht
          etap_tac)).symm
      · simp only [hk]
        norm_num
        rw [brE_refl h hm hm2 2 (by omega) (by omega) 1 G (u/4)]
        exact (taps_match h (h.length/2) (by omega) 0 (by omega) (fun t => Etap h.length true t G u) (fun j => G (2 * (u/4 + ((h.length/2 - 1 - j : Nat):Int)) + 1 - ((h.length/2 : Nat):Int))) (by
          intro t ht
          etap_tac)).symm
      · simp only [hk]
        norm_num
        rw [brE_direct h hm hm2 1 (by omega) (by omega) 2 G (u/4)]
        exact (taps_match h (h.length/2) (by omega) 0 (by omega) (fun t => Etap h.length true t G u) (fun j => G (2 * (u/4 + (j:Int)) + 2 - ((h.length/2 : Nat):Int))) (by
          intro t ht
          etap_tac)).symm
      · simp only [hk]
        norm_num
        rw [brE_refl h hm hm2 1 (by omega) (by omega) 1 G (u/4)]
        exact (taps_match h (h.length/2) (by omega) 1 (by omega) (fun t => Etap h.length true t G u) (fun j => G (2 * (u/4 + ((h.length/2 - 1 - j : Nat):Int)) + 1 - ((h.length/2 : Nat):Int))) (by
          intro t ht
          etap_tac)).symm
/-! ## the transpose on the periodic line -/

/-- **`colifilt(·, reverse h, h)` is the transpose of `coldfilt(·, h, reverse h)` on periodic signals**: for `X` of
period `4n` and `G` of period `2n`, summing over one period of each -/
theorem line_transpose (h : List R) (hm : h.length % 2 = 0) (hm2 : 2 ≤ h.length) (hp : Bool) (X G : Int → R) (n : Nat)
    (hn : n % 2 = 0) (hX : ∀ u : Int, X (u + ((4*n : Nat):Int)) = X u) (hG : ∀ w : Int, G (w + ((2*n : Nat):Int)) = G w) :
    ∑ i ∈ range (2*n), lineD h h.reverse hp X (-(n:Int) + (i:Int)) * G (-(n:Int) + (i:Int))
      = ∑ i ∈ range (4*n), X (-(2*(n:Int)) + (i:Int)) * lineE h.reverse h hp G (-(2*(n:Int)) + (i:Int)) := by
  -- right-hand side, tap by tap
  have hR : ∑ i ∈ range (4*n), X (-(2*(n:Int)) + (i:Int)) * lineE h.reverse h hp G (-(2*(n:Int)) + (i:Int))
      = ∑ t ∈ range h.length, getN h t *
          ∑ i ∈ range (4*n), X (-(2*(n:Int)) + (i:Int)) * Etap h.length hp t G (-(2*(n:Int)) + (i:Int)) := by
    simp only [lineE_taps h hm hm2, Finset.mul_sum]
    rw [Finset.sum_comm]
    apply Finset.sum_congr rfl; intro t _
    apply Finset.sum_congr rfl; intro i _
    ring
  have hL : ∑ i ∈ range (2*n), lineD h h.reverse hp X (-(n:Int) + (i:Int)) * G (-(n:Int) + (i:Int))
      = ∑ t ∈ range h.length, getN h t *
          ∑ i ∈ range (2*n), X (2*(-(n:Int) + (i:Int)) + (if (-(n:Int) + (i:Int)) % 2 = 0 then cE h.length hp t else cO h.length hp t))
            * G (-(n:Int) + (i:Int)) := by
    simp only [lineD_taps, Finset.sum_mul, Finset.mul_sum]
    rw [Finset.sum_comm]
    apply Finset.sum_congr rfl; intro t _
    apply Finset.sum_congr rfl; intro i _
    ring
  rw [hL, hR]
  apply Finset.sum_congr rfl; intro t _
  congr 1
  rw [C06.sum_range_two_mul, Finset.sum_add_distrib]
  have he : ∀ v ∈ range n, X (2*(-(n:Int) + ((2*v : Nat):Int)) + (if (-(n:Int) + ((2*v : Nat):Int)) % 2 = 0 then cE h.length hp t else cO h.length hp t))
        * G (-(n:Int) + ((2*v : Nat):Int))
      = G (-(n:Int) + 2*(v:Int) + 0) * X (2 * (-(n:Int) + 2*(v:Int) + 0) + cE h.length hp t) := by
    intro v _
    have hz : (-(n:Int) + ((2*v : Nat):Int)) % 2 = 0 := by omega
    rw [if_pos hz]
    have e : -(n:Int) + ((2*v : Nat):Int) = -(n:Int) + 2*(v:Int) + 0 := by push_cast; ring
    rw [e]; ring
  have ho : ∀ v ∈ range n, X (2*(-(n:Int) + ((2*v+1 : Nat):Int)) + (if (-(n:Int) + ((2*v+1 : Nat):Int)) % 2 = 0 then cE h.length hp t else cO h.length hp t))
        * G (-(n:Int) + ((2*v+1 : Nat):Int))
      = G (-(n:Int) + 2*(v:Int) + 1) * X (2 * (-(n:Int) + 2*(v:Int) + 1) + cO h.length hp t) := by
    intro v _
    have hz : ¬ (-(n:Int) + ((2*v+1 : Nat):Int)) % 2 = 0 := by omega
    rw [if_neg hz]
    have e : -(n:Int) + ((2*v+1 : Nat):Int) = -(n:Int) + 2*(v:Int) + 1 := by push_cast; ring
    rw [e]; ring
  rw [Finset.sum_congr rfl he, Finset.sum_congr rfl ho,
    transpose_tap X G n hn hX hG (cE h.length hp t) 0 (Or.inl rfl),
    transpose_tap X G n hn hX hG (cO h.length hp t) 1 (Or.inr rfl), ← Finset.sum_add_distrib]
  apply Finset.sum_congr rfl; intro i _
  unfold Etap
  rw [mul_add]
  norm_num

/-! ## reflection equivariance and additivity of the interpolating stage -/

theorem br_reflect_gen (h : List R) (hm : h.length % 2 = 0) (hm2 : 2 ≤ h.length) (p p' : Int) (hpp : p + p' = 3)
    (Y Y' : Int → R) (hY : ∀ t : Int, Y (-1 - t) = Y' t) (v : Int) :
    brE h.reverse h.length 2 p' Y (-v - 1) = brE h h.length 1 p Y' v := by
  unfold brE
  rw [← Finset.sum_range_reflect]
  apply Finset.sum_congr rfl; intro j hj
  have hj' : j < h.length / 2 := by simpa using hj
  have hrv := getN_reverse h (h.length - 1 - 2*j) (by omega)
  have e1 : h.length - 1 - (h.length - 1 - 2*j) = 2*j := by omega
  have e3 : h.length - 2 - 2 * (h.length / 2 - 1 - j) = 2*j := by omega
  rw [e1] at hrv
  rw [e3, hrv]
  congr 1
  have e2 : 2 * (-v - 1 + ((h.length / 2 - 1 - j : Nat):Int)) + p' - ((h.length/2 : Nat):Int)
      = -1 - (2 * (v + (j:Int)) + p - ((h.length/2 : Nat):Int)) := by
    have : ((h.length / 2 - 1 - j : Nat):Int) = ((h.length/2 : Nat):Int) - 1 - j := by omega
    rw [this]
    have hp' : p' = 3 - p := by omega
    rw [hp']; ring
  rw [e2, hY]

theorem br_reflect_gen' (h : List R) (hm : h.length % 2 = 0) (hm2 : 2 ≤ h.length) (p p' : Int) (hpp : p + p' = 3)
    (Y Y' : Int → R) (hY : ∀ t : Int, Y (-1 - t) = Y' t) (v : Int) :
    brE h h.length 2 p' Y (-v - 1) = brE h.reverse h.length 1 p Y' v := by
  have := br_reflect_gen h.reverse (by simpa using hm) (by simpa using hm2) p p' hpp Y Y' hY v
  simpa using this

/-- `lineE` commutes with the reflection `t ↦ −1−t` (no symmetry of the signal needed) -/
theorem lineE_reflect (ha : List R) (hp : Bool) (hm : ha.length % 2 = 0) (hm2 : 2 ≤ ha.length) (Y Y' : Int → R)
    (hY : ∀ t : Int, Y (-1 - t) = Y' t) (hY' : ∀ t : Int, Y' (-1 - t) = Y t) (u : Int) :
    lineE ha ha.reverse hp Y (-1 - u) = lineE ha ha.reverse hp Y' u := by
  unfold lineE
  have h2 : (-1 - u) / 4 = -(u/4) - 1 := by omega
  have hc : u % 4 = 0 ∨ u % 4 = 1 ∨ u % 4 = 2 ∨ u % 4 = 3 := by omega
  rw [h2]
  have R1 := fun p p' hpp v => br_reflect_gen ha hm hm2 p p' hpp Y Y' hY v
  have R2 := fun p p' hpp v => br_reflect_gen' ha hm hm2 p p' hpp Y Y' hY v
  have R1' := fun p p' hpp v => br_reflect_gen ha hm hm2 p p' hpp Y' Y hY' v
  have R2' := fun p p' hpp v => br_reflect_gen' ha hm hm2 p p' hpp Y' Y hY' v
  by_cases hpar : (ha.length/2) % 2 = 0
  · simp only [hpar, if_true]
    rcases hc with h | h | h | h
    · have hz : (-1 - u) % 4 = 3 := by omega
      simp only [h, hz]
      cases hp
      · simpa using R1 0 3 (by norm_num) (u/4)
      · simpa using R1 1 2 (by norm_num) (u/4)
    · have hz : (-1 - u) % 4 = 2 := by omega
      simp only [h, hz]
      cases hp
      · simpa using R2 1 2 (by norm_num) (u/4)
      · simpa using R2 0 3 (by norm_num) (u/4)
    · have hz : (-1 - u) % 4 = 1 := by omega
      simp only [h, hz]
      cases hp
      · simpa using (R2' 1 2 (by norm_num) (-(u/4) - 1)).symm
      · simpa using (R2' 0 3 (by norm_num) (-(u/4) - 1)).symm
    · have hz : (-1 - u) % 4 = 0 := by omega
      simp only [h, hz]
      cases hp
      · simpa using (R1' 0 3 (by norm_num) (-(u/4) - 1)).symm
      · simpa using (R1' 1 2 (by norm_num) (-(u/4) - 1)).symm
  · simp only [hpar, if_false]
    rcases hc with h | h | h | h
    · have hz : (-1 - u) % 4 = 3 := by omega
      simp only [h, hz]
      cases hp
      · simpa using (R2' 2 1 (by norm_num) (-(u/4) - 1)).symm
      · simpa using (R2' 1 2 (by norm_num) (-(u/4) - 1)).symm
    · have hz : (-1 - u) % 4 = 2 := by omega
      simp only [h, hz]
      cases hp
      · simpa using (R1' 1 2 (by norm_num) (-(u/4) - 1)).symm
      · simpa using (R1' 2 1 (by norm_num) (-(u/4) - 1)).symm
    · have hz : (-1 - u) % 4 = 1 := by omega
      simp only [h, hz]
      cases hp
      · simpa using R1 1 2 (by norm_num) (u/4)
      · simpa using R1 2 1 (by norm_num) (u/4)
    · have hz : (-1 - u) % 4 = 0 := by omega
      simp only [h, hz]
      cases hp
      · simpa using R2 2 1 (by norm_num) (u/4)
      · simpa using R2 1 2 (by norm_num) (u/4)

theorem brE_add (h : List R) (m off : Nat) (ph : Int) (Y1 Y2 : Int → R) (v : Int) :
    brE h m off ph (fun t => Y1 t + Y2 t) v = brE h m off ph Y1 v + brE h m off ph Y2 v := by
  unfold brE
  rw [← Finset.sum_add_distrib]
  apply Finset.sum_congr rfl; intro j _; ring

theorem lineE_add (ha hb : List R) (hp : Bool) (Y1 Y2 : Int → R) (u : Int) :
    lineE ha hb hp (fun t => Y1 t + Y2 t) u = lineE ha hb hp Y1 u + lineE ha hb hp Y2 u := by
  unfold lineE
  simp only [brE_add]
  split_ifs <;> rfl
/-! ## back to columns: the half extension -/

/-- `g` on `[0,n)`, zero on `[n,2n)`, continued with period `2n` -/
def halfExt (g : List R) (w : Int) : R := getZ g (w % ((2 * g.length : Nat):Int))

theorem halfExt_period (g : List R) (w : Int) : halfExt g (w + ((2 * g.length : Nat):Int)) = halfExt g w := by
  unfold halfExt; rw [Int.add_emod_right]

/-- the symmetric extension is the half extension plus its mirror image -/
theorem xt_eq_half (g : List R) (hg : 1 ≤ g.length) (w : Int) :
    Spec.xt g w = halfExt g w + halfExt g (-1 - w) := by
  unfold Spec.xt symIdx halfExt
  have hN : ((2 * g.length : Nat):Int) = 2 * (g.length:Int) := by push_cast; ring
  rw [hN, neg_emod_aux (2 * (g.length:Int)) w (by omega)]
  have ht0 := Int.emod_nonneg w (show (2 * (g.length:Int)) ≠ 0 by omega)
  have ht1 := Int.emod_lt_of_pos w (show 0 < 2 * (g.length:Int) by omega)
  simp only
  by_cases hc : w % (2 * (g.length:Int)) < (g.length:Int)
  · rw [if_pos hc, getZ_of_ge g (2 * (g.length:Int) - 1 - w % (2 * (g.length:Int))) (by omega), add_zero]
  · rw [if_neg hc, getZ_of_ge g (w % (2 * (g.length:Int))) (by omega), zero_add]

/-- **the backward pass of a q-shift stage is its adjoint**: for every filter `h` of even length (any values),
both highpass flags, every column `x` whose length is a positive multiple of 4 and every cotangent `g`,
`⟨coldfilt(x, h, reverse h), g⟩ = ⟨x, colifilt(g, reverse h, h)⟩` — trees exchanged, as `FWD_J2PLUS.backward`
and `INV_J2PLUS.backward` do. -/
theorem coldfilt_colifilt_adjoint (h x g : List R) (hp : Bool) (hm : h.length % 2 = 0) (hm2 : 2 ≤ h.length)
    (hr : x.length % 4 = 0) (hr0 : 0 < x.length) (hg : g.length = x.length / 2) :
    ∑ i ∈ range g.length, getN (Spec.coldfilt h h.reverse hp x) i * getN g i
      = ∑ k ∈ range x.length, getN x k * getN (Spec.colifilt h.reverse h hp g) k := by
  set n := g.length with hn
  have hn2 : n % 2 = 0 := by omega
  have hxl : x.length = 2 * n := by omega
  have hX : ∀ u : Int, Spec.xt x (u + ((4*n : Nat):Int)) = Spec.xt x u := by
    intro u
    have := xt_period x u 1
    have e : u + 2 * (x.length:Int) * 1 = u + ((4*n : Nat):Int) := by rw [hxl]; push_cast; ring
    rw [e] at this; exact this
  have hG0 : ∀ w : Int, halfExt g (w + ((2*n : Nat):Int)) = halfExt g w := fun w => halfExt_period g w
  have LT := line_transpose h hm hm2 hp (Spec.xt x) (halfExt g) n hn2 hX hG0
  -- left-hand side of LT = left-hand side of the claim
  have hL : ∑ i ∈ range (2*n), lineD h h.reverse hp (Spec.xt x) (-(n:Int) + (i:Int)) * halfExt g (-(n:Int) + (i:Int))
      = ∑ i ∈ range n, getN (Spec.coldfilt h h.reverse hp x) i * getN g i := by
    rw [two_mul, Finset.sum_range_add]
    have z : ∑ i ∈ range n, lineD h h.reverse hp (Spec.xt x) (-(n:Int) + (i:Int)) * halfExt g (-(n:Int) + (i:Int)) = 0 := by
      apply Finset.sum_eq_zero; intro i hi
      have hi' : i < n := by simpa using hi
      have : halfExt g (-(n:Int) + (i:Int)) = 0 := by
        unfold halfExt
        have e : (-(n:Int) + (i:Int)) % ((2 * g.length : Nat):Int) = (n:Int) + i := by
          have e1 : -(n:Int) + (i:Int) = ((n:Int) + i) + ((2 * g.length : Nat):Int) * (-1) := by push_cast; ring
          rw [e1, Int.add_mul_emod_self_left]
          exact Int.emod_eq_of_lt (by omega) (by push_cast; omega)
        rw [e]; exact getZ_of_ge g _ (by omega)
      rw [this, mul_zero]
    rw [z, zero_add]
    apply Finset.sum_congr rfl; intro i hi
    have hi' : i < n := by simpa using hi
    have e : -(n:Int) + ((n + i : Nat):Int) = (i:Int) := by push_cast; ring
    rw [e, ← coldfilt_get h h.reverse x hp (by simp) i (by omega)]
    congr 1
    unfold halfExt
    rw [Int.emod_eq_of_lt (by omega) (by push_cast; omega), ← getN_eq_getZ]
  -- right-hand side of LT = right-hand side of the claim
  have hxt0 : ∀ t : Int, Spec.xt x (-1 - t) = Spec.xt x t := xt_reflect x (by omega)
  have hR : ∑ i ∈ range (4*n), Spec.xt x (-(2*(n:Int)) + (i:Int)) * lineE h.reverse h hp (halfExt g) (-(2*(n:Int)) + (i:Int))
      = ∑ k ∈ range x.length, getN x k * getN (Spec.colifilt h.reverse h hp g) k := by
    have e4 : 4 * n = 2*n + 2*n := by ring
    rw [e4, Finset.sum_range_add, ← Finset.sum_range_reflect, hxl, ← Finset.sum_add_distrib]
    apply Finset.sum_congr rfl; intro k hk
    have hk' : k < 2*n := by simpa using hk
    have e1 : -(2*(n:Int)) + ((2*n - 1 - k : Nat):Int) = -1 - (k:Int) := by omega
    have e2 : -(2*(n:Int)) + ((2*n + k : Nat):Int) = (k:Int) := by push_cast; ring
    rw [e1, e2, hxt0, xt_inside x k (by omega)]
    have hrefl := lineE_reflect h.reverse hp (by simpa using hm) (by simpa using hm2) (halfExt g)
      (fun t => halfExt g (-1 - t)) (fun t => rfl) (fun t => by simp) (k:Int)
    rw [List.reverse_reverse] at hrefl
    rw [hrefl, ← mul_add, ← lineE_add, colifilt_get h.reverse h g hp k (by omega)]
    congr 2
    funext t
    rw [xt_eq_half g (by omega) t, add_comm]
  rw [← hL, LT, hR]
/-! ## images and the implementation model of `FWD_J2PLUS.backward` -/

open WV.C06 in
/-- column stage on images: `⟨coldfilt x, y⟩ = ⟨x, colifilt' y⟩` -/
theorem alongH_DE_adjoint (h : List R) (hp : Bool) (hm : h.length % 2 = 0) (hm2 : 2 ≤ h.length) (x y : Img R) (H W : Nat)
    (hx : Rect x (4*H) W) (hy : Rect y (2*H) W) (hH : 1 ≤ H) (hW : 1 ≤ W) :
    dot2 (2*H) W (alongH (Dd h hp) x) y = dot2 (4*H) W x (alongH (Ei h.reverse hp) y) := by
  rw [alongH_get' (Dd h hp) x (4*H) (2*H) W hx (by omega) hW (fun c hc => by rw [Dd_length, hc]; omega),
    alongH_get' (Ei h.reverse hp) y (2*H) (4*H) W hy (by omega) hW (fun c hc => by rw [Ei_length, hc]; omega)]
  conv_lhs => rw [rect_eq_tab2 y (2*H) W hy]
  conv_rhs => rw [rect_eq_tab2 x (4*H) W hx]
  rw [dot2_tab2, dot2_tab2, Finset.sum_comm]
  conv_rhs => rw [Finset.sum_comm]
  apply Finset.sum_congr rfl; intro j hj
  have hj' : j < W := by simpa using hj
  have hcx : (col x j).length = 4*H := by simp [col, hx.1]
  have hcy : (col y j).length = 2*H := by simp [col, hy.1]
  have := coldfilt_colifilt_adjoint h (col x j) (col y j) hp hm hm2 (by omega) (by omega) (by omega)
  rw [hcx, hcy] at this
  have e1 : ∀ i ∈ range (2*H), get2 y i j = getN (col y j) i := by
    intro i hi; unfold col; rw [getN_tab, hy.1, if_pos (by simpa using hi)]
  have e2 : ∀ i ∈ range (4*H), get2 x i j = getN (col x j) i := by
    intro i hi; unfold col; rw [getN_tab, hx.1, if_pos (by simpa using hi)]
  have e3 : Ei h.reverse hp (col y j) = Spec.colifilt h.reverse h hp (col y j) := by
    simp [Ei]
  calc ∑ i ∈ range (2*H), getN (Dd h hp (col x j)) i * get2 y i j
      = ∑ i ∈ range (2*H), getN (Dd h hp (col x j)) i * getN (col y j) i := by
        apply Finset.sum_congr rfl; intro i hi; rw [e1 i hi]
    _ = ∑ i ∈ range (4*H), getN (col x j) i * getN (Spec.colifilt h.reverse h hp (col y j)) i := this
    _ = ∑ i ∈ range (4*H), get2 x i j * getN (Ei h.reverse hp (col y j)) i := by
        apply Finset.sum_congr rfl; intro i hi; rw [e2 i hi, e3]

open WV.C06 in
/-- row stage on images -/
theorem alongW_DE_adjoint (h : List R) (hp : Bool) (hm : h.length % 2 = 0) (hm2 : 2 ≤ h.length) (x y : Img R) (H W : Nat)
    (hx : Rect x H (4*W)) (hy : Rect y H (2*W)) (hW : 1 ≤ W) :
    dot2 H (2*W) (alongW (Dd h hp) x) y = dot2 H (4*W) x (alongW (Ei h.reverse hp) y) := by
  rw [alongW_get' (Dd h hp) x H (4*W) (2*W) hx (fun c hc => by rw [Dd_length, hc]; omega),
    alongW_get' (Ei h.reverse hp) y H (2*W) (4*W) hy (fun c hc => by rw [Ei_length, hc]; omega)]
  conv_lhs => rw [rect_eq_tab2 y H (2*W) hy]
  conv_rhs => rw [rect_eq_tab2 x H (4*W) hx]
  rw [dot2_tab2, dot2_tab2]
  apply Finset.sum_congr rfl; intro i hi
  have hi' : i < H := by simpa using hi
  have hrow : ∀ (z : Img R) (Wz : Nat), Rect z H Wz → (z.getD i []).length = Wz := by
    intro z Wz hz
    apply hz.2
    rw [List.getD_eq_getElem?_getD, List.getElem?_eq_getElem (by rw [hz.1]; exact hi')]; simp
  have hcx := hrow x _ hx
  have hcy := hrow y _ hy
  have := coldfilt_colifilt_adjoint h (x.getD i []) (y.getD i []) hp hm hm2 (by omega) (by omega) (by omega)
  rw [hcx, hcy] at this
  have e3 : Ei h.reverse hp (y.getD i []) = Spec.colifilt h.reverse h hp (y.getD i []) := by simp [Ei]
  rw [e3]
  exact this

theorem colifilt_model' (h : List R) (hp : Bool) (hm : h.length % 2 = 0) (hm2 : 2 ≤ h.length) (y : Img R) (H : Nat)
    (hH : 1 ≤ H) (hy : y.length = 2 * H) :
    colifilt (prepFilt h.reverse) (prepFilt h) hp y = some (alongH (Ei h.reverse hp) y) := by
  have := colifilt_model h.reverse hp (by simpa using hm) (by simpa using hm2) y H hH hy
  rw [List.reverse_reverse] at this
  exact this

theorem rowifilt_model' (h : List R) (hp : Bool) (hm : h.length % 2 = 0) (hm2 : 2 ≤ h.length) (y : Img R) (W : Nat)
    (hW : 1 ≤ W) (hy : ∀ r ∈ y, r.length = 2 * W) :
    rowifilt (prepFilt h.reverse) (prepFilt h) hp y = some (alongW (Ei h.reverse hp) y) := by
  have := rowifilt_model h.reverse hp (by simpa using hm) (by simpa using hm2) y W hW hy
  rw [List.reverse_reverse] at this
  exact this

open WV.C06 in
/-- **`FWD_J2PLUS.backward` is the adjoint of `fwd_j2plus`** (implementation models): for q-shift analysis filters
of even length with tree a the time reverse of tree b (ANY values), every image `x` whose sides are positive
multiples of 4, every low-pass cotangent `dl` and every six complex band cotangents,
`⟨fwd_j2plus x, (dl, dh)⟩ = ⟨x, backward(dl, dh)⟩`. -/
theorem fwdJ2_backward_adjoint_rect (s : R) (h0 h1 : List R) (hm0 : h0.length % 2 = 0) (hm0' : 2 ≤ h0.length)
    (hm1 : h1.length % 2 = 0) (hm1' : 2 ≤ h1.length) (x dl : Img R) (H W : Nat) (hH : 1 ≤ H) (hW : 1 ≤ W)
    (hx : Rect x (4*H) (4*W)) (hdl : Rect dl (2*H) (2*W)) (a b : Nat → Nat → Nat → R) :
    let dh : List (Cplx R) := (List.range 6).map fun k => (tab2 H W (a k), tab2 H W (b k))
    ∃ ll hs y,
      fwdJ2 s (prepFilt h0.reverse) (prepFilt h1.reverse) (prepFilt h0) (prepFilt h1) false x = some (ll, some hs) ∧
      FWD_J2PLUS_backward s (prepFilt h0.reverse) (prepFilt h1.reverse) (prepFilt h0) (prepFilt h1) dl (some dh) = some y ∧ Rect y (4*H) (4*W) ∧ Rect ll (2*H) (2*W) ∧
      dot2 (2*H) (2*W) ll dl
        + ∑ k ∈ range 6, (dot2 H W (hs.getD k ([], [])).1 (dh.getD k ([], [])).1
                          + dot2 H W (hs.getD k ([], [])).2 (dh.getD k ([], [])).2)
        = dot2 (4*H) (4*W) x y := by
  intro dh
  have hh0 : 1 ≤ h0.length := by omega
  have hh1 : 1 ≤ h1.length := by omega
  have h2H : 1 ≤ 2*H := by omega
  have h2W : 1 ≤ 2*W := by omega
  -- forward pass
  have eLo := rowdfilt_model h0 false hh0 x W hW hx.2
  have eHi := rowdfilt_model h1 true hh1 x W hW hx.2
  have hx' : Rect x (4*H) (2*(2*W)) := by rw [show 2*(2*W) = 4*W by ring]; exact hx
  have rLo : Rect (alongW (Dd h0 false) x) (4*H) (2*W) := Dd_alongW_rect h0 false x _ _ hx'
  have rHi : Rect (alongW (Dd h1 true) x) (4*H) (2*W) := Dd_alongW_rect h1 true x _ _ hx'
  set lo := alongW (Dd h0 false) x with hlo
  set hi := alongW (Dd h1 true) x with hhi
  have ell := coldfilt_model h0 false hh0 lo H hH rLo.1
  have elh := coldfilt_model h1 true hh1 lo H hH rLo.1
  have ehl := coldfilt_model h0 false hh0 hi H hH rHi.1
  have ehh := coldfilt_model h1 true hh1 hi H hH rHi.1
  have rLo' : Rect lo (2*(2*H)) (2*W) := by rw [show 2*(2*H) = 4*H by ring]; exact rLo
  have rHi' : Rect hi (2*(2*H)) (2*W) := by rw [show 2*(2*H) = 4*H by ring]; exact rHi
  have rll := Dd_alongH_rect h0 false lo (2*H) (2*W) rLo' h2H h2W
  have rlh := Dd_alongH_rect h1 true lo (2*H) (2*W) rLo' h2H h2W
  have rhl := Dd_alongH_rect h0 false hi (2*H) (2*W) rHi' h2H h2W
  have rhh := Dd_alongH_rect h1 true hi (2*H) (2*W) rHi' h2H h2W
  set ll := alongH (Dd h0 false) lo with hll
  set lh := alongH (Dd h1 true) lo with hlh
  set hl := alongH (Dd h0 false) hi with hhl
  set hh := alongH (Dd h1 true) hi with hhh
  have hF : fwdJ2 s (prepFilt h0.reverse) (prepFilt h1.reverse) (prepFilt h0) (prepFilt h1) false x
      = some (ll, some (highsToOrientations s lh hl hh)) := by
    unfold fwdJ2
    simp only [eLo, eHi, ← hlo, ← hhi, ell, elh, ehl, ehh, Option.bind_eq_bind, Option.bind_some,
      Bool.false_eq_true, if_false]
  -- the synthesis side
  set lh' := c2q s (tab2 H W (a 0), tab2 H W (b 0)) (tab2 H W (a 5), tab2 H W (b 5)) with hlh'
  set hl' := c2q s (tab2 H W (a 2), tab2 H W (b 2)) (tab2 H W (a 3), tab2 H W (b 3)) with hhl'
  set hh' := c2q s (tab2 H W (a 1), tab2 H W (b 1)) (tab2 H W (a 4), tab2 H W (b 4)) with hhh'
  have r1 : Rect lh' (2*H) (2*W) := c2q_rect s H W hH _ _ _ _
  have r2 : Rect hl' (2*H) (2*W) := c2q_rect s H W hH _ _ _ _
  have r3 : Rect hh' (2*H) (2*W) := c2q_rect s H W hH _ _ _ _
  have hoth : orientationsToHighs s dh = (lh', hl', hh') := by
    unfold orientationsToHighs
    simp [dh, List.range, List.range.loop, hlh', hhl', hhh']
  have c1 := colifilt_model' h1 true hm1 hm1' hh' H hH r3.1
  have c2 := colifilt_model' h0 false hm0 hm0' hl' H hH r2.1
  have c3 := colifilt_model' h1 true hm1 hm1' lh' H hH r1.1
  have c4 := colifilt_model' h0 false hm0 hm0' dl H hH hdl.1
  have q1 := Ei_alongH_rect h1.reverse true hh' _ _ r3 h2H h2W
  have q2 := Ei_alongH_rect h0.reverse false hl' _ _ r2 h2H h2W
  have q3 := Ei_alongH_rect h1.reverse true lh' _ _ r1 h2H h2W
  have q4 := Ei_alongH_rect h0.reverse false dl _ _ hdl h2H h2W
  set HI := iadd (alongH (Ei h1.reverse true) hh') (alongH (Ei h0.reverse false) hl') with hHI
  set LO := iadd (alongH (Ei h1.reverse true) lh') (alongH (Ei h0.reverse false) dl) with hLO
  have rHI : Rect HI (2*(2*H)) (2*W) := iadd_rect _ _ _ _ q1 q2
  have rLO : Rect LO (2*(2*H)) (2*W) := iadd_rect _ _ _ _ q3 q4
  have h4H : 1 ≤ 2*(2*H) := by omega
  have hB : FWD_J2PLUS_backward s (prepFilt h0.reverse) (prepFilt h1.reverse) (prepFilt h0) (prepFilt h1) dl (some dh)
      = some (iadd (alongW (Ei h1.reverse true) HI) (alongW (Ei h0.reverse false) LO)) := by
    unfold FWD_J2PLUS_backward invJ2
    simp only []
    rw [hoth]
    simp only []
    rw [c1, c2, c3, c4]
    simp only [Option.bind_eq_bind, Option.bind_some]
    have hshape : ¬ ((alongH (Ei h0.reverse false) dl).length ≠ (alongH (Ei h1.reverse true) lh').length ∨
        (alongH (Ei h0.reverse false) dl).width ≠ (alongH (Ei h1.reverse true) lh').width) := by
      rw [q3.1, q4.1, rect_width _ _ _ q3 h4H, rect_width _ _ _ q4 h4H]; simp
    rw [if_neg hshape]
    simp only [Option.bind_some]
    rw [rowifilt_model' h1 true hm1 hm1' HI W hW rHI.2, rowifilt_model' h0 false hm0 hm0' LO W hW rLO.2]
    simp only [Option.bind_some]
  have e44 : 2*(2*H) = 4*H := by ring
  have e4W : 2*(2*W) = 4*W := by ring
  have rHI4 : Rect HI (4*H) (2*W) := by rw [← e44]; exact rHI
  have rLO4 : Rect LO (4*H) (2*W) := by rw [← e44]; exact rLO
  have wHI : Rect (alongW (Ei h1.reverse true) HI) (4*H) (4*W) := by
    rw [← e4W]; exact Ei_alongW_rect h1.reverse true HI _ _ rHI4
  have wLO : Rect (alongW (Ei h0.reverse false) LO) (4*H) (4*W) := by
    rw [← e4W]; exact Ei_alongW_rect h0.reverse false LO _ _ rLO4
  refine ⟨ll, highsToOrientations s lh hl hh, _, hF, hB, iadd_rect _ _ _ _ wHI wLO, rll, ?_⟩
  -- right-hand side: move every stage across the inner product
  rw [dot2_iadd _ _ x _ _ wHI wLO]
  rw [← alongW_DE_adjoint h1 true hm1 hm1' x HI (4*H) W hx rHI4 hW, ← hhi]
  rw [← alongW_DE_adjoint h0 false hm0 hm0' x LO (4*H) W hx rLO4 hW, ← hlo]
  have q1' : Rect (alongH (Ei h1.reverse true) hh') (4*H) (2*W) := by rw [← e44]; exact q1
  have q2' : Rect (alongH (Ei h0.reverse false) hl') (4*H) (2*W) := by rw [← e44]; exact q2
  have q3' : Rect (alongH (Ei h1.reverse true) lh') (4*H) (2*W) := by rw [← e44]; exact q3
  have q4' : Rect (alongH (Ei h0.reverse false) dl) (4*H) (2*W) := by rw [← e44]; exact q4
  rw [dot2_iadd _ _ hi _ _ q1' q2', dot2_iadd _ _ lo _ _ q3' q4']
  rw [← alongH_DE_adjoint h1 true hm1 hm1' hi hh' H (2*W) rHi r3 hH h2W, ← hhh]
  rw [← alongH_DE_adjoint h0 false hm0 hm0' hi hl' H (2*W) rHi r2 hH h2W, ← hhl]
  rw [← alongH_DE_adjoint h1 true hm1 hm1' lo lh' H (2*W) rLo r1 hH h2W, ← hlh]
  rw [← alongH_DE_adjoint h0 false hm0 hm0' lo dl H (2*W) rLo hdl hH h2W, ← hll]
  -- left-hand side: the six band pairs through q2c / c2q
  have k1 := q2c_c2q_adjoint s H W (by omega) (get2 lh) (a 0) (b 0) (a 5) (b 5)
  have k2 := q2c_c2q_adjoint s H W (by omega) (get2 hl) (a 2) (b 2) (a 3) (b 3)
  have k3 := q2c_c2q_adjoint s H W (by omega) (get2 hh) (a 1) (b 1) (a 4) (b 4)
  simp only [] at k1 k2 k3
  rw [← rect_eq_tab2 lh _ _ rlh] at k1
  rw [← rect_eq_tab2 hl _ _ rhl] at k2
  rw [← rect_eq_tab2 hh _ _ rhh] at k3
  rw [← hlh'] at k1; rw [← hhl'] at k2; rw [← hhh'] at k3
  rw [← k1, ← k2, ← k3]
  simp [highsToOrientations, dh, Finset.sum_range_succ, List.range, List.range.loop]
  ring

open WV.C06 in
theorem fwdJ2_backward_adjoint (s : R) (h0 h1 : List R) (hm0 : h0.length % 2 = 0) (hm0' : 2 ≤ h0.length)
    (hm1 : h1.length % 2 = 0) (hm1' : 2 ≤ h1.length) (x dl : Img R) (H W : Nat) (hH : 1 ≤ H) (hW : 1 ≤ W)
    (hx : Rect x (4*H) (4*W)) (hdl : Rect dl (2*H) (2*W)) (a b : Nat → Nat → Nat → R) :
    let dh : List (Cplx R) := (List.range 6).map fun k => (tab2 H W (a k), tab2 H W (b k))
    ∃ ll hs y,
      fwdJ2 s (prepFilt h0.reverse) (prepFilt h1.reverse) (prepFilt h0) (prepFilt h1) false x = some (ll, some hs) ∧
      FWD_J2PLUS_backward s (prepFilt h0.reverse) (prepFilt h1.reverse) (prepFilt h0) (prepFilt h1) dl (some dh) = some y ∧
      dot2 (2*H) (2*W) ll dl
        + ∑ k ∈ range 6, (dot2 H W (hs.getD k ([], [])).1 (dh.getD k ([], [])).1
                          + dot2 H W (hs.getD k ([], [])).2 (dh.getD k ([], [])).2)
        = dot2 (4*H) (4*W) x y := by
  intro dh
  obtain ⟨ll, hs, y, h1, h2, _, _, h3⟩ := fwdJ2_backward_adjoint_rect s h0 h1 hm0 hm0' hm1 hm1' x dl H W hH hW hx hdl a b
  exact ⟨ll, hs, y, h1, h2, h3⟩

open WV.C06 in
/-- **`INV_J2PLUS.backward` is the adjoint of `inv_j2plus`** (both inputs requiring grad): it runs `fwd_j2plus` with the
synthesis buffers and the trees exchanged; `⟨inv_j2plus(ll, highs), dy⟩ = ⟨(ll, highs), backward(dy)⟩` is
`fwdJ2_backward_adjoint` read from right to left. -/
theorem INV_J2PLUS_backward_adjoint (s : R) (k0 k1 : List R) (hm0 : k0.length % 2 = 0) (hm0' : 2 ≤ k0.length)
    (hm1 : k1.length % 2 = 0) (hm1' : 2 ≤ k1.length) (dy ll : Img R) (H W : Nat) (hH : 1 ≤ H) (hW : 1 ≤ W)
    (hdy : Rect dy (4*H) (4*W)) (hll : Rect ll (2*H) (2*W)) (a b : Nat → Nat → Nat → R) :
    let highs : List (Cplx R) := (List.range 6).map fun k => (tab2 H W (a k), tab2 H W (b k))
    ∃ dl dh y,
      INV_J2PLUS_backward s (prepFilt k0) (prepFilt k1) (prepFilt k0.reverse) (prepFilt k1.reverse) true true dy
        = some (some dl, some dh) ∧
      invJ2 s (prepFilt k0) (prepFilt k1) (prepFilt k0.reverse) (prepFilt k1.reverse) (some ll) (some highs) = some y ∧
      dot2 (4*H) (4*W) dy y
        = dot2 (2*H) (2*W) dl ll
          + ∑ k ∈ range 6, (dot2 H W (dh.getD k ([], [])).1 (highs.getD k ([], [])).1
                            + dot2 H W (dh.getD k ([], [])).2 (highs.getD k ([], [])).2) := by
  intro highs
  obtain ⟨dl, dh, y, h1, h2, h3⟩ := fwdJ2_backward_adjoint s k0 k1 hm0 hm0' hm1 hm1' dy ll H W hH hW hdy hll a b
  refine ⟨dl, dh, y, ?_, ?_, h3.symm⟩
  · unfold INV_J2PLUS_backward
    simp [h1]
  · exact h2

end WV.C06Q
