/-
  C15 — calls are pure: the part that is logic.

  The only process-wide mutable state the library keeps is `COEFF_CACHE`.  Theorems:
  * invariant: every cached entry is the file's table — under every history of calls and under
    every interleaving of the atomic steps (lookup / read file / store) of any number of threads;
  * refinement to the pure specification: under the invariant every call returns
    `specOut files name keys`, a function of its arguments and the files only — independent of
    the history, of other calls and of the schedule.
  That the transforms themselves neither mutate their arguments nor depend on history is
  definitional in a functional model; on the real code it is checked by the trace oracle
  (byte-wise argument snapshots, outputs compared with isolated reference calls, threads).
  Thread scheduling inside PyTorch and the GIL are runtime the model cannot exhibit (partial).
-/
import WaveletsVerif.Model.Cache
namespace WV.C15
open WV.Cache

/-- every cached entry is what the file holds -/
def Inv (files : Files) (s : State) : Prop := ∀ n t, lookup s n = some t → lookup files n = some t

theorem inv_init (files : Files) : Inv files [] := by
  intro n t h; simp [lookup] at h

theorem lookup_cons {β : Type} (n k : String) (t : β) (s : List (String × β)) :
    lookup ((n, t) :: s) k = if n == k then some t else lookup s k := by
  unfold lookup
  simp only [List.find?_cons]
  cases h : (n == k) <;> simp

theorem inv_store (files : Files) (s : State) (n : String) (t : Table) (hi : Inv files s)
    (hf : lookup files n = some t) : Inv files ((n, t) :: s) := by
  intro k u h
  rw [lookup_cons] at h
  by_cases hk : (n == k) = true
  · simp only [hk, if_true, Option.some.injEq] at h
    have : n = k := by simpa using hk
    subst this; subst h; exact hf
  · simp only [hk] at h
    exact hi k u (by simpa using h)

/-- one call preserves the invariant and returns the pure specification's answer -/
theorem load_spec (files : Files) (s : State) (n : String) (ks : List String) (hi : Inv files s) :
    Inv files (load files s n ks).1 ∧ (load files s n ks).2 = specOut files n ks := by
  unfold load specOut
  cases hs : lookup s n with
  | some t =>
    have := hi n t hs
    simp [this, hi]
  | none =>
    cases hf : lookup files n with
    | none => simp [hi]
    | some t => exact ⟨inv_store files s n t hi hf, by simp⟩

/-- every history: invariant preserved, and each output is the specification's, i.e. the result of a
call does not depend on what was called before -/
theorem run_spec (files : Files) (h : List (String × List String)) (s : State) (hi : Inv files s) :
    Inv files (run files s h).1 ∧ (run files s h).2 = h.map (fun c => specOut files c.1 c.2) := by
  induction h generalizing s with
  | nil => simp [run, hi]
  | cons c rest ih =>
    obtain ⟨n, ks⟩ := c
    have h1 := load_spec files s n ks hi
    simp only [run]
    have h2 := ih (load files s n ks).1 h1.1
    exact ⟨h2.1, by simp [h1.2, h2.2]⟩

/-- thread-local consistency: whatever a thread has read or concluded agrees with the files -/
def TOk (files : Files) (th : Thread) : Prop :=
  match th.pc with
  | .start => True
  | .read => True
  | .store t => lookup files th.name = some t
  | .done o => o = specOut files th.name th.keys

/-- one atomic step of any thread preserves the cache invariant and the thread's consistency -/
theorem tstep_ok (files : Files) (s : State) (th : Thread) (hi : Inv files s) (ht : TOk files th) :
    Inv files (tstep files s th).1 ∧ TOk files (tstep files s th).2 ∧
      (tstep files s th).2.name = th.name ∧ (tstep files s th).2.keys = th.keys := by
  unfold tstep
  cases hp : th.pc with
  | start =>
    cases hs : lookup s th.name with
    | some t =>
      have := hi th.name t hs
      simp [TOk, specOut, this, hi]
    | none => simp [TOk, hi]
  | read =>
    cases hf : lookup files th.name with
    | none => simp [TOk, specOut, hf, hi]
    | some t => simp [TOk, hf, hi]
  | store t =>
    have hf : lookup files th.name = some t := by simpa [TOk, hp] using ht
    exact ⟨inv_store files s th.name t hi hf, by simp [TOk, specOut, hf], rfl, rfl⟩
  | done o =>
    have : o = specOut files th.name th.keys := by simpa [TOk, hp] using ht
    simp [TOk, this, hi]

/-- every interleaving of the atomic steps of any number of threads: the cache invariant holds
throughout and every finished thread holds exactly the specification's answer for *its own*
arguments — concurrent callers cannot influence each other's results -/
theorem sched_ok (files : Files) (schedule : List Nat) (s : State) (ths : List Thread)
    (hi : Inv files s) (ht : ∀ th ∈ ths, TOk files th) :
    Inv files (sched files s ths schedule).1 ∧ ∀ th ∈ (sched files s ths schedule).2, TOk files th := by
  induction schedule generalizing s ths with
  | nil => exact ⟨hi, ht⟩
  | cons i rest ih =>
    simp only [sched]
    cases hth : ths[i]? with
    | none => exact ih s ths hi ht
    | some th =>
      have hmem : th ∈ ths := List.mem_of_getElem? hth
      have h1 := tstep_ok files s th hi (ht th hmem)
      apply ih _ _ h1.1
      intro u hu
      rcases List.mem_or_eq_of_mem_set hu with h | h
      · exact ht u h
      · rw [h]; exact h1.2.1

/-- non-vacuity: a concrete history with a repeated, an unknown and a bad-key call -/
example :
    (run [("qshift_a", [("h0a", 1), ("h0b", 2)])] []
      [("qshift_a", ["h0a"]), ("nope", ["h0a"]), ("qshift_a", ["h0a", "zz"]), ("qshift_a", ["h0b", "h0a"])]).2
    = [.ok [1], .ioError, .valueError, .ok [2, 1]] := by decide

end WV.C15
