/-
  C08 — value refinement of the first-order scattering layer, for ANY square-root operation.

  `ScatLayer` (odd-size edge extension, level-1 DTCWT without the band-pass variant, 2×2 average pooling of the
  low-pass, smoothed magnitudes `sq(re² + im² + b²) − b` of the six bands, band-major packing; joint magnitudes with
  colour combination) equals the composition of the REFERENCE level-1 DTCWT (`Spec.refLevel1`, C03P) with those
  formulas (`Spec.scat1`) on every stack of images with at least one row and column — whatever `sq`, division, `s`,
  `q`, `b` are (`ScatLayer_eq_spec`).  Only the evaluation of `sq` in floating point stays a measured matter.
-/
import WaveletsVerif.Properties.C03P
import WaveletsVerif.Model.Scat
namespace WV
namespace Spec
variable {α : Type}

/-- reference first-order scattering of one batch item (list of channel images) -/
def scat1 [Add α] [Sub α] [Mul α] [OfNat α 0] (m : MagOps α) (h0o h1o : List α) (colour : Bool) (x : List (Img α)) :
    List (Img α) :=
  let r := x.map fun im => refLevel1 m.s h0o h1o (extendEven im)
  let lls := r.map fun p => avgPool2 m.q p.1
  if colour then
    let g := fun c o => ((r.getD c ([], [])).2).getD o ([], [])
    lls ++ (List.range 6).map fun o => subBias m (magR3 m (g 0 o) (g 1 o) (g 2 o))
  else
    lls ++ ((List.range 6).map fun o => r.map fun p => subBias m (magR m (p.2.getD o ([], [])))).flatten

end Spec

namespace C08P
open WV.C04 WV.C04P WV.C03P
variable {R : Type} [CommRing R]

/-- **the first-order scattering layer is the reference DTCWT composed with the scattering formulas** -/
theorem ScatLayer_eq_spec (m : MagOps R) (h0o h1o : List R) (hh0 : h0o.length % 2 = 1) (hh1 : h1o.length % 2 = 1)
    (colour : Bool) (x : List (Img R)) (H W : Nat) (hH : 1 ≤ H) (hW : 1 ≤ W) (hx : ∀ im ∈ x, Rect im H W)
    (hc : colour = true → x.length = 3) :
    ScatLayer m true (prepFilt h0o) (prepFilt h1o) none colour x = some (Spec.scat1 m h0o h1o colour x) := by
  have ea : H + H % 2 = 2 * ((H+1)/2) := by omega
  have eb : W + W % 2 = 2 * ((W+1)/2) := by omega
  have hrect : ∀ im ∈ x, Rect (extendEven im) (2 * ((H+1)/2)) (2 * ((W+1)/2)) := by
    intro im him
    have := extendEven_rect im H W (hx im him) hH hW
    rw [ea, eb] at this; exact this
  have hguard : ¬ ((x.map extendEven).any (fun im => im.length % 2 ≠ 0 ∨ Img.width im % 2 ≠ 0) = true) := by
    rw [List.any_eq_true]
    rintro ⟨im, him, hodd⟩
    obtain ⟨im0, him0, rfl⟩ := List.mem_map.mp him
    have r := hrect im0 him0
    have hw := rect_width _ _ _ r (by omega)
    simp only [r.1, hw, decide_eq_true_eq] at hodd
    omega
  have hmap : (x.map extendEven).map (fwd1 m true (prepFilt h0o) (prepFilt h1o) none)
      = x.map fun im => Spec.refLevel1 m.s h0o h1o (extendEven im) := by
    rw [List.map_map]
    apply List.map_congr_left
    intro im him
    simp only [Function.comp, fwd1]
    rw [fwdJ1_eq_ref m.s h0o h1o hh0 hh1 (extendEven im) _ _ (by omega) (by omega) (hrect im him)]
    rfl
  unfold ScatLayer scatJ1
  rw [if_neg hguard]
  simp only [hmap, List.length_map]
  cases colour
  · simp only [Bool.false_eq_true, if_false, Spec.scat1]
  · have h3 := hc rfl
    simp only [if_true, Spec.scat1]
    rw [if_neg (by omega)]

end C08P
end WV
