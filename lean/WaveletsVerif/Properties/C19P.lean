/-
  C19 — the non-separable filter banks equal the separable ones in PERIODIZATION mode, every image size (odd sizes and
  images smaller than the filters included) and every filter lengths ≥ 2.

  Analysis.  `afb2d_nonsep` extends odd axes by their last row / column, rolls both axes, zero-pads both axes at once, runs
  one strided 2-D correlation per sub-band and then folds the wrap-around rows and columns and crops; `AFB2D.forward`
  (= `afb2d`) does extension, roll, padding, correlation, fold and crop along the rows and then again along the columns.
  Every stage is a gather-linear operator along one axis (`Lemmas/GLAlg`), operators along different axes commute
  (`C03P.alongH_alongW_comm`), and the 2-D correlation with the outer-product kernel is the row correlation followed by
  the column correlation (`C19.corr2_outer_eq`) — so both are `alongH (TF wc) (alongW (TF wr) xp)` with `xp` the
  extended, rolled and padded image.  No condition relates the image size to the filter lengths: the roll is Python's
  `roll` helper with whatever shift, on both sides.
-/
import WaveletsVerif.Lemmas.GLAlg
import WaveletsVerif.Properties.C19N
namespace WV.C19P
open Finset WV WV.C04 WV.C04Q WV.C03P WV.GLA WV.C19N
variable {R : Type} [CommRing R]

/-! ### composition along one axis -/

theorem alongW_comp (F G : List R → List R) (x : Img R) : alongW F (alongW G x) = alongW (fun c => F (G c)) x := by
  unfold alongW; rw [List.map_map]; rfl

theorem alongH_comp (F G : List R → List R) (x : Img R) (H H1 H2 W : Nat) (hx : Rect x H W) (hH : 1 ≤ H) (hW : 1 ≤ W)
    (hH1 : 1 ≤ H1) (hG : ∀ c : List R, c.length = H → (G c).length = H1) (hF : ∀ c : List R, c.length = H1 → (F c).length = H2) :
    alongH F (alongH G x) = alongH (fun c => F (G c)) x := by
  rw [alongH_get' G x H H1 W hx hH hW hG]
  rw [alongH_get' F _ H1 H2 W (tab2_rect _ _ _) hH1 hW hF]
  rw [alongH_get' (fun c => F (G c)) x H H2 W hx hH hW (fun c hc => hF _ (hG c hc))]
  apply tab2_congr; intro i _ j hj
  rw [col_tab2 H1 W _ j hj, tab_getN _ _ (hG _ (by simp [col, hx.1]))]

theorem alongW_congr (F G : List R → List R) (x : Img R) (H W : Nat) (hx : Rect x H W)
    (h : ∀ c : List R, c.length = W → F c = G c) : alongW F x = alongW G x := by
  unfold alongW
  apply List.map_congr_left
  intro c hc
  exact h c (hx.2 c hc)

theorem alongH_congr (F G : List R → List R) (x : Img R) (H W : Nat) (hx : Rect x H W)
    (h : ∀ c : List R, c.length = H → F c = G c) : alongH F x = alongH G x := by
  unfold alongH
  congr 1
  apply List.map_congr_left
  intro c hc
  exact h c (by rw [tr_row_length x c hc, hx.1])

theorem GL_alongW_rect {F : List R → List R} {n m : Nat} (hF : GL F n m) (x : Img R) (H : Nat) (hx : Rect x H n) :
    Rect (alongW F x) H m := by
  rw [alongW_get' F x H n m hx (fun c hc => GL.length hF c hc)]
  exact tab2_rect _ _ _

theorem GL_alongH_rect {F : List R → List R} {n m : Nat} (hF : GL F n m) (x : Img R) (W : Nat) (hx : Rect x n W)
    (hn : 1 ≤ n) (hW : 1 ≤ W) : Rect (alongH F x) m W := by
  rw [alongH_get' F x n m W hx hn hW (fun c hc => GL.length hF c hc)]
  exact tab2_rect _ _ _


/-! ### the padded image of the non-separable bank is the two 1-D preparations, one per axis -/

/-- the extended, rolled, zero-padded image `afb2d_nonsep` correlates with in periodization mode, as the model builds it -/
def xpPer (Ly Lx : Nat) (x : Img R) : Img R :=
  let x1 : Img R := if x.length % 2 = 1 then x ++ sliceFrom x (-1) else x
  let x2 : Img R := if x1.width % 2 = 1 then x1.map (fun r => r ++ sliceFrom r (-1)) else x1
  let Nx := x2.width
  let x3 := rollPy x2 (-((Ly/2 : Nat) : Int))
  let x4 := x3.map fun r => rollPy r (-((Lx/2 : Nat) : Int))
  (izero (Ly-1) (Nx + 2*(Lx-1))) ++ (x4.map fun r => zeroPad r (Lx-1) (Lx-1)) ++ (izero (Ly-1) (Nx + 2*(Lx-1)))

theorem list_eq_tab_getD {α : Type} (l : List α) (n : Nat) (d : α) (h : l.length = n) : l = tab n fun i => l.getD i d := by
  apply List.ext_getElem
  · simp [tab, h]
  · intro i h1 h2
    simp only [tab, List.getElem_map, List.getElem_range]
    rw [List.getD_eq_getElem?_getD, List.getElem?_eq_getElem h1]; rfl

theorem getD_mem_or {α : Type} (l : List α) (i : Nat) (d : α) (hi : i < l.length) : l.getD i d ∈ l := by
  rw [List.getD_eq_getElem?_getD, List.getElem?_eq_getElem hi]; simp

/-- both axes extended to even length (the model's `x2`) -/
def x2Per (x : Img R) : Img R :=
  let x1 : Img R := if x.length % 2 = 1 then x ++ sliceFrom x (-1) else x
  if x1.width % 2 = 1 then x1.map (fun r => r ++ sliceFrom r (-1)) else x1

theorem x2Per_facts (x : Img R) (H W : Nat) (hx : Rect x H W) (hH : 1 ≤ H) (hW : 1 ≤ W) :
    x2Per x = (ext1 x).map ext1 ∧ (ext1 x).length = H + H % 2 ∧ Img.width ((ext1 x).map ext1) = W + W % 2 := by
  have hw : x.width = W := rect_width x H W hx hH
  have hx1 : (if x.length % 2 = 1 then x ++ sliceFrom x (-1) else x) = ext1 x := rfl
  have hx1l : (ext1 x).length = H + H % 2 := by rw [ext1_length x (by rw [hx.1]; exact hH), hx.1]
  have hx1w : Img.width (ext1 x) = W := by
    unfold ext1 Img.width
    cases x with
    | nil => have := hx.1; simp at this; omega
    | cons r rest =>
      have : r.length = W := hx.2 r (by simp)
      split <;> simp [this]
  have hx1rows : ∀ r ∈ ext1 x, r.length = W := by
    intro r hr
    unfold ext1 at hr
    split at hr
    · rw [List.mem_append] at hr
      rcases hr with h | h
      · exact hx.2 r h
      · exact hx.2 r (List.mem_of_mem_drop h)
    · exact hx.2 r hr
  have hx2 : (if Img.width (ext1 x) % 2 = 1 then (ext1 x).map (fun r => r ++ sliceFrom r (-1)) else ext1 x) = (ext1 x).map ext1 := by
    rw [hx1w]
    split
    · next h =>
      apply List.map_congr_left; intro r hr
      unfold ext1; rw [hx1rows r hr, if_pos h]
    · next h =>
      symm
      conv_rhs => rw [← List.map_id (ext1 x)]
      apply List.map_congr_left; intro r hr
      unfold ext1; rw [hx1rows r hr, if_neg h]; rfl
  have hx2w : Img.width ((ext1 x).map ext1) = W + W % 2 := by
    have hne : ext1 x ≠ [] := by intro h; rw [h] at hx1l; simp at hx1l; omega
    obtain ⟨r0, rest, he⟩ := List.exists_cons_of_ne_nil hne
    have hr0 : r0.length = W := hx1rows r0 (by rw [he]; simp)
    rw [he]; simp [Img.width]
    rw [ext1_length r0 (by omega), hr0]
  exact ⟨hx2, hx1l, hx2w⟩

theorem xpPer_eq (Ly Lx : Nat) (x : Img R) (H W : Nat) (hx : Rect x H W) (hH : 1 ≤ H) (hW : 1 ≤ W) :
    xpPer Ly Lx x = izero (Ly-1) ((Lx-1) + (W + W % 2) + (Lx-1))
      ++ (tab (H + H % 2) fun s => pre (-((Lx/2 : Nat) : Int)) (Lx-1) (Lx-1) (x.getD (preIdx H (-((Ly/2 : Nat) : Int)) s) []))
      ++ izero (Ly-1) ((Lx-1) + (W + W % 2) + (Lx-1)) := by
  obtain ⟨hx2, hx1l, hx2w⟩ := x2Per_facts x H W hx hH hW
  have hxp : xpPer Ly Lx x = (let x2 := x2Per x
      (izero (Ly-1) (x2.width + 2*(Lx-1))) ++ ((rollPy x2 (-((Ly/2 : Nat) : Int))).map fun r => rollPy r (-((Lx/2 : Nat) : Int))).map (fun r => zeroPad r (Lx-1) (Lx-1))
        ++ (izero (Ly-1) (x2.width + 2*(Lx-1)))) := rfl
  rw [hxp]
  simp only [hx2, hx2w]
  have hW2 : W + W % 2 + 2 * (Lx - 1) = (Lx - 1) + (W + W % 2) + (Lx - 1) := by omega
  rw [hW2]
  congr 2
  rw [List.map_map]
  refine (list_eq_tab_getD _ (H + H % 2) [] (by simp [rollPy_length', hx1l])).trans ?_
  apply tab_ext rfl; intro s hs
  have hs3 : s < (rollPy ((ext1 x).map ext1) (-((Ly/2 : Nat) : Int))).length := by simp [rollPy_length', hx1l]; exact hs
  rw [List.getD_eq_getElem?_getD, List.getElem?_map, List.getElem?_eq_getElem hs3]
  simp only [Option.map_some, Option.getD_some, Function.comp]
  unfold pre
  congr 2
  -- the row read by the roll of the extended list of rows
  have e0 : (rollPy ((ext1 x).map ext1) (-((Ly/2 : Nat) : Int)))[s]'hs3
      = (rollPy ((ext1 x).map ext1) (-((Ly/2 : Nat) : Int))).getD s [] := by
    rw [List.getD_eq_getElem?_getD, List.getElem?_eq_getElem hs3]; rfl
  rw [e0, getD_rollPy _ _ _ _ (by simp [hx1l]; exact hs)]
  simp only [List.length_map, hx1l]
  have hidx : rollIdx (H + H % 2) (-((Ly/2 : Nat) : Int)) s < H + H % 2 := rollIdx_lt _ _ _ hs
  rw [List.getD_eq_getElem?_getD, List.getElem?_map, List.getElem?_eq_getElem (by rw [hx1l]; exact hidx)]
  simp only [Option.map_some, Option.getD_some]
  congr 1
  have e1 : (ext1 x)[rollIdx (H + H % 2) (-((Ly/2 : Nat) : Int)) s]'(by rw [hx1l]; exact hidx)
      = (ext1 x).getD (rollIdx (H + H % 2) (-((Ly/2 : Nat) : Int)) s) [] := by
    rw [List.getD_eq_getElem?_getD, List.getElem?_eq_getElem (by rw [hx1l]; exact hidx)]; rfl
  rw [e1, getD_ext1 x [] _ (by rw [hx.1]; exact hH) (by rw [hx.1]; exact hidx), hx.1]
  rfl


theorem get2_mid (a Wt : Nat) (B : Img R) (u v : Nat) :
    get2 (izero a Wt ++ B ++ izero a Wt) u v = if a ≤ u then get2 B (u - a) v else 0 := get2_vpad a Wt B u v

/-- **the padded image of the non-separable bank = the 1-D preparation along the rows, then along the columns** -/
theorem xpPer_sep (Ly Lx : Nat) (x : Img R) (H W : Nat) (hx : Rect x H W) (hH : 1 ≤ H) (hW : 1 ≤ W) :
    xpPer Ly Lx x = alongH (pre (-((Ly/2 : Nat) : Int)) (Ly-1) (Ly-1)) (alongW (pre (-((Lx/2 : Nat) : Int)) (Lx-1) (Lx-1)) x) := by
  have gW := GL_pre (R := R) (-((Lx/2 : Nat) : Int)) (Lx-1) (Lx-1) W hW
  have gH := GL_pre (R := R) (-((Ly/2 : Nat) : Int)) (Ly-1) (Ly-1) H hH
  have hWp : 1 ≤ (Lx-1) + (W + W % 2) + (Lx-1) := by omega
  have rY : Rect (alongW (pre (-((Lx/2 : Nat) : Int)) (Lx-1) (Lx-1)) x) H ((Lx-1) + (W + W % 2) + (Lx-1)) := GL_alongW_rect gW x H hx
  rw [alongH_get' _ _ H ((Ly-1) + (H + H % 2) + (Ly-1)) _ rY hH hWp (fun c hc => GL.length gH c hc)]
  rw [xpPer_eq Ly Lx x H W hx hH hW]
  -- the left side is a rectangle of the same size
  have rL : Rect (izero (Ly-1) ((Lx-1) + (W + W % 2) + (Lx-1))
      ++ (tab (H + H % 2) fun s => pre (-((Lx/2 : Nat) : Int)) (Lx-1) (Lx-1) (x.getD (preIdx H (-((Ly/2 : Nat) : Int)) s) []))
      ++ izero (Ly-1) ((Lx-1) + (W + W % 2) + (Lx-1)) : Img R) ((Ly-1) + (H + H % 2) + (Ly-1)) ((Lx-1) + (W + W % 2) + (Lx-1)) := by
    constructor
    · simp [izero, tab2]; omega
    · intro r hr
      rw [List.mem_append, List.mem_append] at hr
      have hz : ∀ r ∈ (izero (Ly-1) ((Lx-1) + (W + W % 2) + (Lx-1)) : Img R), r.length = (Lx-1) + (W + W % 2) + (Lx-1) :=
        (tab2_rect _ _ _).2
      rcases hr with (h | h) | h
      · exact hz r h
      · simp only [tab, List.mem_map, List.mem_range] at h
        obtain ⟨s, _, rfl⟩ := h
        rw [pre_length _ _ _ _ (by rw [C05D.getD_row_length x H W hx _ (preIdx_lt H _ s hH)]; exact hW),
          C05D.getD_row_length x H W hx _ (preIdx_lt H _ s hH)]
      · exact hz r h
  rw [rect_eq_tab2 _ _ _ rL]
  apply tab2_congr; intro u hu v hv
  rw [get2_mid]
  have hcol : col (alongW (pre (-((Lx/2 : Nat) : Int)) (Lx-1) (Lx-1)) x) v
      = tab H fun t => getN (pre (-((Lx/2 : Nat) : Int)) (Lx-1) (Lx-1) (x.getD t [])) v := by
    rw [alongW_get' _ x H W _ hx (fun c hc => GL.length gW c hc), col_tab2 _ _ _ v hv]
  rw [hcol, getN_pre _ _ _ _ (by simp; exact hH)]
  simp only [length_tab]
  by_cases h1 : Ly - 1 ≤ u
  · rw [if_pos h1]
    by_cases h2 : u < Ly - 1 + (H + H % 2)
    · rw [if_pos ⟨h1, h2⟩, getN_tab, if_pos (preIdx_lt H _ _ hH)]
      unfold get2
      rw [getD_tab, if_pos (by omega)]
      rfl
    · rw [if_neg (by omega)]
      exact get2_oob _ _ _ (by simp; omega)
  · rw [if_neg h1, if_neg (by omega)]

theorem xpPer_rect (Ly Lx : Nat) (x : Img R) (H W : Nat) (hx : Rect x H W) (hH : 1 ≤ H) (hW : 1 ≤ W) :
    Rect (xpPer Ly Lx x) ((Ly-1) + (H + H % 2) + (Ly-1)) ((Lx-1) + (W + W % 2) + (Lx-1)) := by
  rw [xpPer_sep Ly Lx x H W hx hH hW]
  exact GL_alongH_rect (GL_pre _ _ _ H hH) _ _ (GL_alongW_rect (GL_pre _ _ _ W hW) x H hx) hH (by omega)


/-! ### the 2-D correlation, the wrap-around folds and the crop, axis by axis -/

theorem corr2_outer_sep (a b : List R) (X : Img R) (Hp Wp : Nat) (hX : Rect X Hp Wp) (hHp : 1 ≤ Hp) (hWp : 1 ≤ Wp)
    (ha : 1 ≤ a.length) (hMw : 1 ≤ corrLen Wp b.length 2 1) :
    corr2 (outer a b) X 2 2 = alongH (fun c => corr a c 2 1) (alongW (fun c => corr b c 2 1) X) := by
  have hw : X.width = Wp := rect_width X Hp Wp hX hHp
  have gA := GL_corr2 a Hp
  have gB := GL_corr2 b Wp
  have hY : alongW (fun c => corr b c 2 1) X = tab2 Hp (corrLen Wp b.length 2 1) fun t q => getN (corr b (X.getD t []) 2 1) q :=
    alongW_get' _ X Hp Wp _ hX (fun c hc => GL.length gB c hc)
  rw [alongH_get' _ _ Hp (corrLen Hp a.length 2 1) _ (GL_alongW_rect gB X Hp hX) hHp hMw (fun c hc => GL.length gA c hc)]
  have hol : (outer a b).length = a.length := by simp [outer, tab2]
  have how : (outer a b).width = b.length := by unfold outer; exact C19.width_tab2 _ _ _ (by omega)
  have hN : corr2 (outer a b) X 2 2
      = tab2 (corrLen Hp a.length 2 1) (corrLen Wp b.length 2 1) (get2 (corr2 (outer a b) X 2 2)) := by
    conv_lhs => unfold corr2
    rw [hol, how, hX.1, hw]
    apply tab2_congr; intro p hp q hq
    unfold corr2
    rw [hol, how, hX.1, hw, C19.get2_tab2 _ _ _ _ _ hp hq]
  rw [hN]
  apply tab2_congr; intro p hp q hq
  rw [C19.corr2_outer_eq a b X 2 2 p q (by omega) (by rw [hX.1]; exact hp) (by rw [hw]; exact hq)]
  have hcol : col (alongW (fun c => corr b c 2 1) X) q = tab Hp fun t => getN (corr b (X.getD t []) 2 1) q := by
    rw [hY, col_tab2 _ _ _ q hq]
  rw [hcol, getN_corr2 a _ p (by simp; exact hp)]
  apply Finset.sum_congr rfl; intro i hi
  have hi' : i < a.length := by simpa using hi
  congr 1
  rw [← getN_eq_getZ, getN_tab]
  have hin : 2 * p + i < Hp := by
    unfold corrLen at hp; split at hp <;> omega
  rw [if_pos hin]
  have hrow : (X.getD (2 * p + i) []).length = Wp := C05D.getD_row_length X Hp Wp hX _ hin
  rw [getN_corr2 b _ q (by rw [hrow]; exact hq)]
  apply Finset.sum_congr rfl; intro j _
  rw [← getN_eq_getZ]; rfl

/-- the row fold `y[:a] = y[:a] + y[b:b+a]` on a list of rows is the 1-D fold along the columns -/
theorem foldRows_eq (y : Img R) (Mh Mw : Nat) (hy : Rect y Mh Mw) (hMh : 1 ≤ Mh) (hMw : 1 ≤ Mw) (a b : Nat) :
    (tab y.length fun k => if k < a then vadd (y.getD k []) (y.getD (b + k) []) else y.getD k [])
      = alongH (fun c => foldAdd c a b) y := by
  rw [alongH_get' _ y Mh Mh Mw hy hMh hMw (fun c hc => by simp [foldAdd, hc])]
  rw [hy.1]
  unfold tab2
  apply tab_ext rfl; intro k hk
  have hrow : (y.getD k []).length = Mw := C05D.getD_row_length y Mh Mw hy k hk
  have hcolv : ∀ (i j : Nat), getN (col y j) i = get2 y i j := by
    intro i j
    unfold col
    rw [getN_tab, hy.1]
    split
    · rfl
    · exact (get2_oob y i j (by rw [hy.1]; omega)).symm
  have hcl : ∀ j : Nat, (col y j).length = Mh := by intro j; simp [col, hy.1]
  by_cases h : k < a
  · rw [if_pos h]
    unfold vadd
    rw [hrow]
    apply tab_ext rfl; intro j hj
    show _ = getN (foldAdd (col y j) a b) k
    unfold foldAdd
    rw [getN_tab, hcl, if_pos hk, if_pos h, hcolv, hcolv]
    rfl
  · rw [if_neg h]
    refine (list_eq_tab_getD _ Mw 0 hrow).trans ?_
    apply tab_ext rfl; intro j hj
    show _ = getN (foldAdd (col y j) a b) k
    unfold foldAdd
    rw [getN_tab, hcl, if_pos hk, if_neg h, hcolv]
    rfl

theorem takeRows_eq (y : Img R) (Mh Mw : Nat) (hy : Rect y Mh Mw) (hMh : 1 ≤ Mh) (hMw : 1 ≤ Mw) (n : Nat) (hn : n ≤ Mh) :
    y.take n = alongH (fun c => c.take n) y := by
  rw [alongH_get' _ y Mh n Mw hy hMh hMw (fun c hc => by simp [hc, hn])]
  have rT : Rect (y.take n) n Mw := ⟨by simp [hy.1, hn], fun r hr => hy.2 r (List.mem_of_mem_take hr)⟩
  rw [rect_eq_tab2 _ _ _ rT]
  apply tab2_congr; intro i hi j hj
  rw [getN_take _ _ _ hi]
  unfold col
  rw [getN_tab, hy.1, if_pos (by omega)]
  unfold get2
  congr 1
  rw [List.getD_eq_getElem?_getD, List.getD_eq_getElem?_getD, List.getElem?_take, if_pos hi]


/-! ### the one-dimensional periodization analysis of the model, and the band equality -/

/-- crop ∘ wrap-around fold ∘ strided correlation along one axis -/
def TF (w : List R) (N2 : Nat) (c : List R) : List R := (foldAdd (corr w c 2 1) (w.length/2) N2).take N2

/-- the model's 1-D periodization analysis with buffer `w` (total on non-empty signals) -/
def Pp (w c : List R) : List R :=
  TF w ((c.length + c.length % 2) / 2) (pre (-((w.length/2 : Nat) : Int)) (w.length-1) (w.length-1) c)

theorem afb1dOne_per (w x : List R) (hL : 2 ≤ w.length) (hN : 1 ≤ x.length) :
    afb1dOne .periodization w x = some (Pp w x) := by
  have hg : ¬ (w.length < 2 ∨ x.length < 1) := by omega
  have hx1 : (if x.length % 2 = 1 then x ++ sliceFrom x (-1) else x) = ext1 x := rfl
  simp only [afb1dOne, hg, if_false, hx1, ext1_length x hN]
  rfl

theorem corrLen_ge (N L : Nat) (hL : 2 ≤ L) (hN : 1 ≤ N) :
    (N + N % 2) / 2 ≤ corrLen ((L-1) + (N + N % 2) + (L-1)) L 2 1 ∧ 1 ≤ (N + N % 2) / 2 := by
  unfold corrLen
  split <;> omega

theorem GL_TF (w : List R) (hL : 2 ≤ w.length) (N : Nat) (hN : 1 ≤ N) :
    GL (TF w ((N + N % 2) / 2)) ((w.length-1) + (N + N % 2) + (w.length-1)) ((N + N % 2) / 2) := by
  obtain ⟨h1, h2⟩ := corrLen_ge N w.length hL hN
  have g1 := GL_corr2 w ((w.length-1) + (N + N % 2) + (w.length-1))
  have g2 := GL_foldAdd (R := R) (w.length/2) ((N + N % 2) / 2) (corrLen ((w.length-1) + (N + N % 2) + (w.length-1)) w.length 2 1)
  have g3 := GL_take (R := R) ((N + N % 2) / 2) _ h1 (by omega)
  exact GL.congr (GL.comp g3 (GL.comp g2 g1)) (fun c _ => rfl)

/-- what `afb2d_nonsep` does to the strided 2-D correlation `y`: fold the wrap-around rows, then columns, crop -/
def postP (Ly Lx Ny Nx : Nat) (y : Img R) : Img R :=
  (((tab y.length fun k => if k < Ly/2 then vadd (y.getD k []) (y.getD (Ny/2 + k) []) else y.getD k []).map
      fun r => foldAdd r (Lx/2) (Nx/2)).take (Ny/2)).map fun r => r.take (Nx/2)

theorem afb2dNonsep_per_val (hc0 hc1 hr0 hr1 : List R) (hLy : 2 ≤ hc0.length) (hLx : 2 ≤ hr0.length)
    (hc : hc1.length = hc0.length) (hr : hr1.length = hr0.length) (x : Img R) (H W : Nat) (hx : Rect x H W) (hH : 1 ≤ H) (hW : 1 ≤ W) :
    afb2dNonsepCh .periodization hc0 hc1 hr0 hr1 x
      = some ([outerRev hc0 hr0, outerRev hc1 hr0, outerRev hc0 hr1, outerRev hc1 hr1].map fun f =>
          postP hc0.length hr0.length (H + H % 2) (W + W % 2) (corr2 f (xpPer hc0.length hr0.length x) 2 2)) := by
  have hw : x.width = W := rect_width x H W hx hH
  have hguard : ¬ (hc0.length < 2 ∨ hr0.length < 2 ∨ hc1.length ≠ hc0.length ∨ hr1.length ≠ hr0.length ∨ x.length < 1 ∨ x.width < 1) := by
    rw [hx.1, hw]; omega
  obtain ⟨hx2, hx1l, hx2w⟩ := x2Per_facts x H W hx hH hW
  have hl2 : (x2Per x).length = H + H % 2 := by rw [hx2]; simp [hx1l]
  have hw2 : Img.width (x2Per x) = W + W % 2 := by rw [hx2]; exact hx2w
  have key : afb2dNonsepCh .periodization hc0 hc1 hr0 hr1 x
      = ([outerRev hc0 hr0, outerRev hc1 hr0, outerRev hc0 hr1, outerRev hc1 hr1].mapM fun f =>
          (some (postP hc0.length hr0.length (x2Per x).length (Img.width (x2Per x)) (corr2 f (xpPer hc0.length hr0.length x) 2 2)) : Option (Img R))) := by
    simp only [afb2dNonsepCh, hguard, if_false]
    rfl
  rw [key, hl2, hw2]
  simp [List.mapM_cons, List.mapM_nil]


/-- one sub-band: fold and crop of the strided 2-D correlation with `outerRev hc hr` on the prepared image is the
separable periodization analysis, rows with `hr.reverse` and then columns with `hc.reverse` -/
theorem band_eq_per (hc hr : List R) (Ly Lx : Nat) (hcl : hc.length = Ly) (hrl : hr.length = Lx) (hLy : 2 ≤ Ly) (hLx : 2 ≤ Lx)
    (x : Img R) (H W : Nat) (hx : Rect x H W) (hH : 1 ≤ H) (hW : 1 ≤ W) :
    postP Ly Lx (H + H % 2) (W + W % 2) (corr2 (outerRev hc hr) (xpPer Ly Lx x) 2 2)
      = alongH (Pp hc.reverse) (alongW (Pp hr.reverse) x) := by
  have hcr : hc.reverse.length = Ly := by simp [hcl]
  have hrr : hr.reverse.length = Lx := by simp [hrl]
  obtain ⟨hy1, hy2⟩ := corrLen_ge H Ly hLy hH
  obtain ⟨hx1, hx2⟩ := corrLen_ge W Lx hLx hW
  -- gather-linear stages
  have gpH := GL_pre (R := R) (-((Ly/2 : Nat) : Int)) (Ly-1) (Ly-1) H hH
  have gpW := GL_pre (R := R) (-((Lx/2 : Nat) : Int)) (Lx-1) (Lx-1) W hW
  have gTc : GL (TF hc.reverse ((H + H % 2) / 2)) ((Ly-1) + (H + H % 2) + (Ly-1)) ((H + H % 2) / 2) := by
    have := GL_TF hc.reverse (by omega) H hH; rw [hcr] at this; exact this
  have gTr : GL (TF hr.reverse ((W + W % 2) / 2)) ((Lx-1) + (W + W % 2) + (Lx-1)) ((W + W % 2) / 2) := by
    have := GL_TF hr.reverse (by omega) W hW; rw [hrr] at this; exact this
  have gcH : GL (fun c : List R => corr hc.reverse c 2 1) ((Ly-1) + (H + H % 2) + (Ly-1)) (corrLen ((Ly-1) + (H + H % 2) + (Ly-1)) Ly 2 1) := by
    have := GL_corr2 hc.reverse ((Ly-1) + (H + H % 2) + (Ly-1)); rw [hcr] at this; exact this
  have gcW : GL (fun c : List R => corr hr.reverse c 2 1) ((Lx-1) + (W + W % 2) + (Lx-1)) (corrLen ((Lx-1) + (W + W % 2) + (Lx-1)) Lx 2 1) := by
    have := GL_corr2 hr.reverse ((Lx-1) + (W + W % 2) + (Lx-1)); rw [hrr] at this; exact this
  have gfH := GL_foldAdd (R := R) (Ly/2) ((H + H % 2) / 2) (corrLen ((Ly-1) + (H + H % 2) + (Ly-1)) Ly 2 1)
  have gfW := GL_foldAdd (R := R) (Lx/2) ((W + W % 2) / 2) (corrLen ((Lx-1) + (W + W % 2) + (Lx-1)) Lx 2 1)
  have gtH := GL_take (R := R) ((H + H % 2) / 2) _ hy1 (by omega)
  have gtW := GL_take (R := R) ((W + W % 2) / 2) _ hx1 (by omega)
  have gtfW : GL (fun c : List R => (foldAdd c (Lx/2) ((W + W % 2) / 2)).take ((W + W % 2) / 2))
      (corrLen ((Lx-1) + (W + W % 2) + (Lx-1)) Lx 2 1) ((W + W % 2) / 2) := GL.comp gtW gfW
  have gtfH : GL (fun c : List R => (foldAdd c (Ly/2) ((H + H % 2) / 2)).take ((H + H % 2) / 2))
      (corrLen ((Ly-1) + (H + H % 2) + (Ly-1)) Ly 2 1) ((H + H % 2) / 2) := GL.comp gtH gfH
  -- rectangles
  have rX := xpPer_rect Ly Lx x H W hx hH hW
  have hHp : 1 ≤ (Ly-1) + (H + H % 2) + (Ly-1) := by omega
  have hWp : 1 ≤ (Lx-1) + (W + W % 2) + (Lx-1) := by omega
  have rY1 := GL_alongW_rect gcW _ _ rX
  have rY := GL_alongH_rect gcH _ _ rY1 hHp (by omega)
  have rZ1 := GL_alongH_rect gfH _ _ rY (by omega) (by omega)
  have rZ2 := GL_alongW_rect gfW _ _ rZ1
  -- the non-separable side, stage by stage
  have e0 : corr2 (outerRev hc hr) (xpPer Ly Lx x) 2 2
      = alongH (fun c => corr hc.reverse c 2 1) (alongW (fun c => corr hr.reverse c 2 1) (xpPer Ly Lx x)) := by
    rw [C19.outerRev_eq]
    exact corr2_outer_sep hc.reverse hr.reverse _ _ _ rX hHp hWp (by omega) (by rw [hrr]; omega)
  have e1 : postP Ly Lx (H + H % 2) (W + W % 2) (corr2 (outerRev hc hr) (xpPer Ly Lx x) 2 2)
      = alongW (fun c => c.take ((W + W % 2) / 2)) (alongH (fun c => c.take ((H + H % 2) / 2))
          (alongW (fun c => foldAdd c (Lx/2) ((W + W % 2) / 2)) (alongH (fun c => foldAdd c (Ly/2) ((H + H % 2) / 2))
            (alongH (fun c => corr hc.reverse c 2 1) (alongW (fun c => corr hr.reverse c 2 1) (xpPer Ly Lx x)))))) := by
    rw [e0]
    unfold postP
    rw [foldRows_eq _ _ _ rY (by omega) (by omega)]
    show ((alongW _ _).take _).map _ = _
    rw [takeRows_eq _ _ _ rZ2 (by omega) (by omega) _ hy1]
    rfl
  rw [e1]
  rw [alongH_alongW_comm _ _ _ _ _ _ gtH gfW _ rZ1 (by omega) (by omega) (by omega) (by omega)]
  rw [alongW_comp]
  rw [alongH_comp _ _ _ _ _ _ _ rY (by omega) (by omega) (by omega) (fun c hc' => GL.length gfH c hc') (fun c hc' => GL.length gtH c hc')]
  rw [alongH_comp _ _ _ _ _ _ _ rY1 hHp (by omega) (by omega) (fun c hc' => GL.length gcH c hc') (fun c hc' => GL.length gtfH c hc')]
  have eT : (fun c : List R => (fun c => (fun c : List R => c.take ((H + H % 2) / 2)) ((fun c => foldAdd c (Ly/2) ((H + H % 2) / 2)) c)) ((fun c => corr hc.reverse c 2 1) c))
      = TF hc.reverse ((H + H % 2) / 2) := by
    funext c; unfold TF; rw [hcr]
  rw [eT]
  rw [alongH_alongW_comm _ _ _ _ _ _ gTc gcW _ rX hHp hWp (by omega) (by omega)]
  rw [alongW_comp]
  have eT2 : (fun c : List R => (fun c => (fun c : List R => c.take ((W + W % 2) / 2)) ((fun c => foldAdd c (Lx/2) ((W + W % 2) / 2)) c)) ((fun c => corr hr.reverse c 2 1) c))
      = TF hr.reverse ((W + W % 2) / 2) := by
    funext c; unfold TF; rw [hrr]
  rw [eT2]
  -- the separable side
  have rP := GL_alongW_rect gpW x H hx
  have s1 : alongW (Pp hr.reverse) x
      = alongW (TF hr.reverse ((W + W % 2) / 2)) (alongW (pre (-((Lx/2 : Nat) : Int)) (Lx-1) (Lx-1)) x) := by
    rw [alongW_comp]
    apply alongW_congr _ _ x H W hx
    intro c hc'
    unfold Pp; rw [hc', hrr]
  have rS1 : Rect (alongW (Pp hr.reverse) x) H ((W + W % 2) / 2) := by rw [s1]; exact GL_alongW_rect gTr _ _ rP
  have s2 : alongH (Pp hc.reverse) (alongW (Pp hr.reverse) x)
      = alongH (TF hc.reverse ((H + H % 2) / 2)) (alongH (pre (-((Ly/2 : Nat) : Int)) (Ly-1) (Ly-1)) (alongW (Pp hr.reverse) x)) := by
    rw [alongH_comp _ _ _ _ _ _ _ rS1 hH (by omega) hHp (fun c hc' => GL.length gpH c hc') (fun c hc' => GL.length gTc c hc')]
    apply alongH_congr _ _ _ H _ rS1
    intro c hc'
    unfold Pp; rw [hc', hcr]
  rw [s2, s1]
  rw [alongH_alongW_comm _ _ _ _ _ _ gpH gTr _ rP hH hWp hHp (by omega)]
  rw [← xpPer_sep Ly Lx x H W hx hH hW]
  exact (alongH_alongW_comm _ _ _ _ _ _ gTc gTr _ rX hHp hWp (by omega) (by omega)).symm


/-- **`afb2d_nonsep` = `afb2d` in periodization mode**: the four sub-bands (ll, lh, hl, hh) of the non-separable model are
the separable periodization analysis along the rows and then along the columns, for EVERY image size (odd sizes, images
smaller than the filters) and every filter lengths ≥ 2 (odd lengths included) -/
theorem afb2d_nonsep_per_eq_sep (hc0 hc1 hr0 hr1 : List R) (hLy : 2 ≤ hc0.length) (hLx : 2 ≤ hr0.length)
    (hc : hc1.length = hc0.length) (hr : hr1.length = hr0.length) (x : Img R) (H W : Nat) (hx : Rect x H W) (hH : 1 ≤ H) (hW : 1 ≤ W) :
    afb2dNonsepCh .periodization hc0 hc1 hr0 hr1 x
      = some [alongH (Pp hc0.reverse) (alongW (Pp hr0.reverse) x), alongH (Pp hc1.reverse) (alongW (Pp hr0.reverse) x),
              alongH (Pp hc0.reverse) (alongW (Pp hr1.reverse) x), alongH (Pp hc1.reverse) (alongW (Pp hr1.reverse) x)] := by
  rw [afb2dNonsep_per_val hc0 hc1 hr0 hr1 hLy hLx hc hr x H W hx hH hW]
  simp only [List.map_cons, List.map_nil]
  rw [band_eq_per hc0 hr0 _ _ rfl rfl hLy hLx x H W hx hH hW, band_eq_per hc1 hr0 _ _ hc rfl hLy hLx x H W hx hH hW,
    band_eq_per hc0 hr1 _ _ rfl hr hLy hLx x H W hx hH hW, band_eq_per hc1 hr1 _ _ hc hr hLy hLx x H W hx hH hW]

/-- the forward pass of the separable autograd Function on one channel in periodization mode, every size -/
theorem AFB2D_forward_per_val (wr0 wr1 wc0 wc1 : List R) (hLr : 2 ≤ wr0.length) (hwr : wr1.length = wr0.length)
    (hLc : 2 ≤ wc0.length) (hwc : wc1.length = wc0.length) (x : Img R) (H W : Nat) (hx : Rect x H W) (hH : 1 ≤ H) (hW : 1 ≤ W) :
    AFB2D_forward .periodization wr0 wr1 wc0 wc1 [x]
      = some ([alongH (Pp wc0) (alongW (Pp wr0) x)],
              [[alongH (Pp wc1) (alongW (Pp wr0) x), alongH (Pp wc0) (alongW (Pp wr1) x), alongH (Pp wc1) (alongW (Pp wr1) x)]]) := by
  have e1 : ∀ w : List R, 2 ≤ w.length → alongO .W (afb1dOne .periodization w) x = some (alongW (Pp w) x) := by
    intro w hw
    show alongWO _ x = _
    apply alongWO_total
    intro c hc
    exact afb1dOne_per w c hw (by rw [hx.2 c hc]; exact hW)
  have e2 : ∀ (w : List R) (y : Img R), 2 ≤ w.length → y.length = H →
      alongO .H (afb1dOne .periodization w) y = some (alongH (Pp w) y) := by
    intro w y hw hy
    show alongHO _ y = _
    apply alongHO_total
    intro c hc
    exact afb1dOne_per w c hw (by rw [hc, hy]; exact hH)
  have rl : ∀ w : List R, (alongW (Pp w) x).length = H := by
    intro w; simp [alongW, hx.1]
  unfold AFB2D_forward
  rw [afb1dT_one, e1 wr0 hLr, e1 wr1 (by omega)]
  simp only [Option.bind_eq_bind, Option.bind_some]
  rw [afb1dT_two, e2 wc0 _ hLc (rl _), e2 wc1 _ (by omega) (rl _), e2 wc0 _ hLc (rl _), e2 wc1 _ (by omega) (rl _)]
  simp [tab, List.range, List.range.loop]

/-- **C19, analysis, periodization**: the non-separable bank and the separable autograd Function `AFB2D.forward` agree band
by band on every image and for every filter lengths ≥ 2 -/
theorem afb2d_nonsep_per_eq_AFB2D (hc0 hc1 hr0 hr1 : List R) (hLy : 2 ≤ hc0.length) (hLx : 2 ≤ hr0.length)
    (hc : hc1.length = hc0.length) (hr : hr1.length = hr0.length) (x : Img R) (H W : Nat) (hx : Rect x H W) (hH : 1 ≤ H) (hW : 1 ≤ W) :
    ∃ ll lh hl hh, afb2dNonsepCh .periodization hc0 hc1 hr0 hr1 x = some [ll, lh, hl, hh] ∧
      AFB2D_forward .periodization hr0.reverse hr1.reverse hc0.reverse hc1.reverse [x] = some ([ll], [[lh, hl, hh]]) :=
  ⟨_, _, _, _, afb2d_nonsep_per_eq_sep hc0 hc1 hr0 hr1 hLy hLx hc hr x H W hx hH hW,
    AFB2D_forward_per_val hr0.reverse hr1.reverse hc0.reverse hc1.reverse (by simpa using hLx) (by simp [hr]) (by simpa using hLy) (by simp [hc])
      x H W hx hH hW⟩

/-- non-vacuity: a 3 × 3 image with 4-tap column filters and 2-tap row filters (image smaller than the column filter, odd
sides): the hypotheses hold and both models return the same numbers -/
example : afb2dNonsepCh .periodization [1, 2, -1, 3] [2, -1, 0, 1] [1, 1] [1, -1] ([[1, 2, 3], [4, 5, 6], [7, 8, 10]] : Img Int)
    = (AFB2D_forward .periodization [1, 1] [-1, 1] [3, -1, 2, 1] [1, 0, -1, 2] [[[1, 2, 3], [4, 5, 6], [7, 8, 10]]]).map
        fun p => [p.1.getD 0 [], (p.2.getD 0 []).getD 0 [], (p.2.getD 0 []).getD 1 [], (p.2.getD 0 []).getD 2 []] := by decide +kernel

end WV.C19P
