/-
  C16 — the float32-accuracy bound of the TWO-dimensional transform under the standard model of floating-point arithmetic.

  One 2-D level is a pass of the 1-D bank over the rows followed by a pass over the columns.  With one-level maps that meet the
  1-D bound `γ` of `C16R` (the model's `afb1d` with a rounded convolution does, `C16R.flLevel_approx`) a pass over an image that is
  within `E` of an exact image bounded by `M` ends within `g·((1+γ)(M+E) − M)` of the exact pass (`pass_rows`, `pass_cols`), so one
  2-D level costs two 1-D levels (`dwt2_fl_err`) and `J` levels cost `2J`: every coefficient of every band of the 2-D pyramid is
  within `((1+γ)^{2J} − 1)·g^{2J}·max|x|` of the exact `pywt.wavedec2` coefficient (`wavedec2_fl_err`), `g = max(‖h‖₁ over the four
  filters, 1)`.
-/
import WaveletsVerif.Properties.C16R
import WaveletsVerif.Properties.C04Q
import Mathlib.Data.List.GetD
namespace WV.C16S
open WV WV.C04 WV.C04Q WV.C16 WV.C16G WV.C16R Finset

/-- every entry bounded -/
def Bdd2 (M : ℝ) (x : Img ℝ) : Prop := ∀ i j, |get2 x i j| ≤ M

/-- two `H × W` images within `E` of each other, entry by entry -/
def Close2 (E : ℝ) (H W : Nat) (x y : Img ℝ) : Prop := Rect x H W ∧ Rect y H W ∧ ∀ i j, |get2 x i j - get2 y i j| ≤ E

theorem Close2.mono {E E' : ℝ} {H W : Nat} {x y : Img ℝ} (h : Close2 E H W x y) (hE : E ≤ E') : Close2 E' H W x y :=
  ⟨h.1, h.2.1, fun i j => le_trans (h.2.2 i j) hE⟩

theorem getD_row_len (x : Img ℝ) (H W : Nat) (hx : Rect x H W) (i : Nat) (hi : i < H) : (x.getD i []).length = W := by
  rw [List.getD_eq_getElem _ _ (by rw [hx.1]; exact hi)]
  exact hx.2 _ (List.getElem_mem _)

section
variable (m : Mode) (hm : m = .zero ∨ m = .symmetric ∨ m = .periodic)

include hm in
/-- one 1-D level on an input that is itself off by `E` -/
theorem one_level (g γ : ℝ) (hγ : 0 ≤ γ) (h : List ℝ) (D : List ℝ → List ℝ) (hL : 2 ≤ h.length) (hgl : l1 h ≤ g) (hD : ApproxLevel m h γ D)
    (x x' : List ℝ) (M E : ℝ) (hN : 1 ≤ x.length) (hx : Bdd M x) (hc : Close E x' x) :
    Close (g * ((1 + γ) * (M + E) - M)) (D x') (Spec.dwt m h x) := by
  have hM := hx.nonneg
  have hE := hc.nonneg
  have hx' : Bdd (M + E) x' := fun i => by
    have := hc.2 i; have := hx i
    calc |getN x' i| = |(getN x' i - getN x i) + getN x i| := by ring_nf
      _ ≤ |getN x' i - getN x i| + |getN x i| := abs_add_le _ _
      _ ≤ M + E := by linarith
  have hN' : 1 ≤ x'.length := by rw [hc.1]; exact hN
  have a1 := hD x' (M + E) hN' hx'
  have a2 := dwt_close m hm h x' x hL hN' E hc
  refine ⟨a1.1.trans a2.1, fun i => ?_⟩
  have b1 := a1.2 i; have b2 := a2.2 i
  have hl0 := l1_nonneg h
  calc |getN (D x') i - getN (Spec.dwt m h x) i|
      = |(getN (D x') i - getN (Spec.dwt m h x') i) + (getN (Spec.dwt m h x') i - getN (Spec.dwt m h x) i)| := by ring_nf
    _ ≤ γ * (l1 h * (M + E)) + l1 h * E := le_trans (abs_add_le _ _) (by linarith)
    _ ≤ γ * (g * (M + E)) + g * E := by
        have := mul_le_mul_of_nonneg_right hgl (show 0 ≤ M + E by linarith)
        have := mul_le_mul_of_nonneg_right hgl hE
        nlinarith
    _ = g * ((1 + γ) * (M + E) - M) := by ring

include hm in
/-- a pass over the ROWS: approximate map on the approximate image against the exact level on the exact image -/
theorem pass_rows (g γ : ℝ) (hγ : 0 ≤ γ) (h : List ℝ) (D : List ℝ → List ℝ) (hL : 2 ≤ h.length) (hgl : l1 h ≤ g) (hD : ApproxLevel m h γ D)
    (x x' : Img ℝ) (H W : Nat) (hW : 1 ≤ W) (M E : ℝ) (hx : Bdd2 M x) (hc : Close2 E H W x' x) :
    Close2 (g * ((1 + γ) * (M + E) - M)) H (dwtCoeffLen W h.length) (Spec.rowsMap D x') (Spec.rowsMap (Spec.dwt m h) x) ∧
      Bdd2 (g * M) (Spec.rowsMap (Spec.dwt m h) x) := by
  obtain ⟨rx', rx, hcl⟩ := hc
  have hM : 0 ≤ M := le_trans (abs_nonneg _) (hx 0 0)
  have hE : 0 ≤ E := le_trans (abs_nonneg _) (hcl 0 0)
  have hg0 : 0 ≤ g := le_trans (l1_nonneg h) hgl
  have lenD : ∀ c : List ℝ, c.length = W → (D c).length = dwtCoeffLen W h.length := by
    intro c hcW
    have := (hD c (∑ i ∈ range c.length, |getN c i|) (by omega) (fun i => by
      by_cases hi : i < c.length
      · exact Finset.single_le_sum (f := fun i => |getN c i|) (fun _ _ => abs_nonneg _) (Finset.mem_range.mpr hi)
      · have : getN c i = 0 := by unfold getN; rw [List.getD_eq_default _ _ (by omega)]
        rw [this, abs_zero]; exact Finset.sum_nonneg (fun _ _ => abs_nonneg _))).1
    rw [this, C01.dwt_length m hm, hcW]
  have lenX : ∀ c : List ℝ, c.length = W → (Spec.dwt m h c).length = dwtCoeffLen W h.length := by
    intro c hcW; rw [C01.dwt_length m hm, hcW]
  have eA : Spec.rowsMap D x' = tab2 H (dwtCoeffLen W h.length) fun i j => getN (D (x'.getD i [])) j := alongW_get' D x' H W _ rx' lenD
  have eB : Spec.rowsMap (Spec.dwt m h) x = tab2 H (dwtCoeffLen W h.length) fun i j => getN (Spec.dwt m h (x.getD i [])) j :=
    alongW_get' _ x H W _ rx lenX
  -- row `i` of both images, `i < H`
  have rowc : ∀ i, i < H → Close E (x'.getD i []) (x.getD i []) ∧ Bdd M (x.getD i []) ∧ (x.getD i []).length = W := by
    intro i hi
    have l1' : (x'.getD i []).length = W := getD_row_len x' H W rx' i hi
    have l2' : (x.getD i []).length = W := getD_row_len x H W rx i hi
    exact ⟨⟨by rw [l1', l2'], fun j => hcl i j⟩, fun j => hx i j, l2'⟩
  have key : ∀ i j, |get2 (Spec.rowsMap D x') i j - get2 (Spec.rowsMap (Spec.dwt m h) x) i j| ≤ g * ((1 + γ) * (M + E) - M) ∧
      |get2 (Spec.rowsMap (Spec.dwt m h) x) i j| ≤ g * M := by
    intro i j
    have hpos : 0 ≤ g * ((1 + γ) * (M + E) - M) := by
      have : 0 ≤ (1 + γ) * (M + E) - M := by nlinarith
      exact mul_nonneg hg0 this
    rw [eA, eB]
    by_cases hi : i < H
    · by_cases hj : j < dwtCoeffLen W h.length
      · rw [C19.get2_tab2 _ _ _ i j hi hj, C19.get2_tab2 _ _ _ i j hi hj]
        obtain ⟨c1, c2, c3⟩ := rowc i hi
        refine ⟨(one_level m hm g γ hγ h D hL hgl hD _ _ M E (by omega) c2 c1).2 j, ?_⟩
        exact le_trans (dwt_gain m hm h _ hL (by omega) M c2 j) (mul_le_mul_of_nonneg_right hgl hM)
      · have z : ∀ f : Nat → Nat → ℝ, get2 (tab2 H (dwtCoeffLen W h.length) f) i j = 0 := by
          intro f; unfold get2 tab2
          rw [getD_tab]; simp only [hi, if_true]
          rw [getD_tab]; simp [hj]
        rw [z, z]; simp only [sub_self, abs_zero]
        exact ⟨hpos, mul_nonneg hg0 hM⟩
    · have z : ∀ f : Nat → Nat → ℝ, get2 (tab2 H (dwtCoeffLen W h.length) f) i j = 0 := by
        intro f; unfold get2 tab2
        rw [getD_tab]; simp [hi]
      rw [z, z]; simp only [sub_self, abs_zero]
      exact ⟨hpos, mul_nonneg hg0 hM⟩
  refine ⟨⟨?_, ?_, fun i j => (key i j).1⟩, fun i j => (key i j).2⟩
  · rw [eA]; exact tab2_rect _ _ _
  · rw [eB]; exact tab2_rect _ _ _

theorem get2_tr (x : Img ℝ) (H W : Nat) (hx : Rect x H W) (hH : 1 ≤ H) (i j : Nat) : get2 (tr x) j i = get2 x i j := by
  have hw := rect_width x H W hx hH
  unfold tr
  rw [hw, hx.1]
  by_cases hj : j < W
  · by_cases hi : i < H
    · rw [C19.get2_tab2 _ _ _ j i hj hi]
    · have z : get2 (tab2 W H fun j i => get2 x i j) j i = 0 := by
        unfold get2 tab2; rw [getD_tab]; simp only [hj, if_true]; rw [getD_tab]; simp [hi]
      rw [z]; unfold get2; rw [List.getD_eq_default x [] (by rw [hx.1]; omega)]; rfl
  · have z : get2 (tab2 W H fun j i => get2 x i j) j i = 0 := by
      unfold get2 tab2; rw [getD_tab]; simp [hj]
    rw [z]
    by_cases hi : i < H
    · unfold get2
      rw [List.getD_eq_default (x.getD i []) _ (by rw [getD_row_len x H W hx i hi]; omega)]
    · unfold get2; rw [List.getD_eq_default x [] (by rw [hx.1]; omega)]; rfl

theorem tr_rect' (x : Img ℝ) (H W : Nat) (hx : Rect x H W) (hH : 1 ≤ H) : Rect (tr x) W H := by
  have hw := rect_width x H W hx hH
  unfold tr; rw [hw, hx.1]; exact tab2_rect _ _ _

theorem close2_tr {E : ℝ} {H W : Nat} {x y : Img ℝ} (h : Close2 E H W x y) (hH : 1 ≤ H) : Close2 E W H (tr x) (tr y) :=
  ⟨tr_rect' x H W h.1 hH, tr_rect' y H W h.2.1 hH, fun j i => by
    rw [get2_tr x H W h.1 hH, get2_tr y H W h.2.1 hH]; exact h.2.2 i j⟩

include hm in
/-- a pass over the COLUMNS -/
theorem pass_cols (g γ : ℝ) (hγ : 0 ≤ γ) (h : List ℝ) (D : List ℝ → List ℝ) (hL : 2 ≤ h.length) (hgl : l1 h ≤ g) (hD : ApproxLevel m h γ D)
    (x x' : Img ℝ) (H W : Nat) (hH : 1 ≤ H) (hW : 1 ≤ W) (M E : ℝ) (hx : Bdd2 M x) (hc : Close2 E H W x' x) :
    Close2 (g * ((1 + γ) * (M + E) - M)) (dwtCoeffLen H h.length) W (Spec.colsMap D x') (Spec.colsMap (Spec.dwt m h) x) ∧
      Bdd2 (g * M) (Spec.colsMap (Spec.dwt m h) x) := by
  have hxt : Bdd2 M (tr x) := fun j i => by rw [get2_tr x H W hc.2.1 hH]; exact hx i j
  obtain ⟨c, b⟩ := pass_rows m hm g γ hγ h D hL hgl hD (tr x) (tr x') W H hH M E hxt (close2_tr hc hH)
  have e1 : Spec.colsMap D x' = tr (Spec.rowsMap D (tr x')) := rfl
  have e2 : Spec.colsMap (Spec.dwt m h) x = tr (Spec.rowsMap (Spec.dwt m h) (tr x)) := rfl
  rw [e1, e2]
  refine ⟨close2_tr c hW, fun i j => ?_⟩
  rw [get2_tr _ W _ c.2.1 hW]; exact b j i

include hm in
/-- **one 2-D level in floating point costs two 1-D levels**: the four bands computed with approximate one-level maps (rows, then
columns) from an image within `E` of an exact image bounded by `M` are within `g²·((1+γ)²(M+E) − M)` of the exact `pywt.dwt2` bands,
and the exact bands are bounded by `g²·M` -/
theorem dwt2_fl_err (g γ : ℝ) (hγ : 0 ≤ γ) (hc0 hc1 hr0 hr1 : List ℝ) (hLc0 : 2 ≤ hc0.length) (hLc1 : hc1.length = hc0.length)
    (hLr0 : 2 ≤ hr0.length) (hLr1 : hr1.length = hr0.length)
    (g0 : l1 hc0 ≤ g) (g1 : l1 hc1 ≤ g) (g2 : l1 hr0 ≤ g) (g3 : l1 hr1 ≤ g)
    (Dc0 Dc1 Dr0 Dr1 : List ℝ → List ℝ) (a0 : ApproxLevel m hc0 γ Dc0) (a1 : ApproxLevel m hc1 γ Dc1)
    (a2 : ApproxLevel m hr0 γ Dr0) (a3 : ApproxLevel m hr1 γ Dr1)
    (x x' : Img ℝ) (H W : Nat) (hH : 1 ≤ H) (hW : 1 ≤ W) (M E : ℝ) (hx : Bdd2 M x) (hc : Close2 E H W x' x) :
    let K := dwtCoeffLen H hc0.length
    let Kw := dwtCoeffLen W hr0.length
    let e2 := errJ g γ M E 2
    let S := Spec.dwt2 m hc0 hc1 hr0 hr1 x
    Close2 e2 K Kw (Spec.colsMap Dc0 (Spec.rowsMap Dr0 x')) S.1 ∧ Close2 e2 K Kw (Spec.colsMap Dc1 (Spec.rowsMap Dr0 x')) S.2.1 ∧
    Close2 e2 K Kw (Spec.colsMap Dc0 (Spec.rowsMap Dr1 x')) S.2.2.1 ∧ Close2 e2 K Kw (Spec.colsMap Dc1 (Spec.rowsMap Dr1 x')) S.2.2.2 ∧
    Bdd2 (g * (g * M)) S.1 := by
  intro K Kw e2 S
  have hKw : 1 ≤ Kw := by show 1 ≤ dwtCoeffLen W hr0.length; unfold dwtCoeffLen; omega
  obtain ⟨lo, lob⟩ := pass_rows m hm g γ hγ hr0 Dr0 hLr0 g2 a2 x x' H W hW M E hx hc
  obtain ⟨hi, hib⟩ := pass_rows m hm g γ hγ hr1 Dr1 (by omega) g3 a3 x x' H W hW M E hx hc
  rw [hLr1] at hi
  have ee : g * ((1 + γ) * (g * M + g * ((1 + γ) * (M + E) - M)) - g * M) = errJ g γ M E 2 := by unfold errJ; ring
  obtain ⟨c00, b00⟩ := pass_cols m hm g γ hγ hc0 Dc0 hLc0 g0 a0 _ _ H Kw hH hKw (g * M) _ lob lo
  obtain ⟨c10, _⟩ := pass_cols m hm g γ hγ hc1 Dc1 (by omega) g1 a1 _ _ H Kw hH hKw (g * M) _ lob lo
  obtain ⟨c01, _⟩ := pass_cols m hm g γ hγ hc0 Dc0 hLc0 g0 a0 _ _ H Kw hH hKw (g * M) _ hib hi
  obtain ⟨c11, _⟩ := pass_cols m hm g γ hγ hc1 Dc1 (by omega) g1 a1 _ _ H Kw hH hKw (g * M) _ hib hi
  rw [ee] at c00 c10 c01 c11
  rw [hLc1] at c10 c11
  exact ⟨c00, c10, c01, c11, b00⟩

/-- `wavedec2` computed with level-dependent approximate one-level maps (rows first, then columns, as `AFB2D` does) -/
def flWavedec2 (Dc0 Dc1 Dr0 Dr1 : Nat → List ℝ → List ℝ) : Nat → Nat → Img ℝ → Img ℝ × List (List (Img ℝ))
  | 0, _, x => (x, [])
  | J+1, j, x =>
    let lo := Spec.rowsMap (Dr0 j) x
    let hi := Spec.rowsMap (Dr1 j) x
    let r := flWavedec2 Dc0 Dc1 Dr0 Dr1 J (j+1) (Spec.colsMap (Dc0 j) lo)
    (r.1, [Spec.colsMap (Dc1 j) lo, Spec.colsMap (Dc0 j) hi, Spec.colsMap (Dc1 j) hi] :: r.2)

theorem errJ_le (g γ M E : ℝ) (hg : 1 ≤ g) (hγ : 0 ≤ γ) (hM : 0 ≤ M) (hE : 0 ≤ E) (n k : Nat) :
    errJ g γ M E n ≤ errJ g γ M E (n + k) := by
  induction k with
  | zero => exact le_refl _
  | succ k ih => exact le_trans ih (errJ_mono g γ M E hg hγ hM hE (n + k)).1

theorem errJ_two (g γ M E : ℝ) (n : Nat) : errJ g γ (g * (g * M)) (errJ g γ M E 2) n = errJ g γ M E (n + 2) := by
  unfold errJ; ring

include hm in
/-- **J levels of the 2-D transform in floating point**: with one-level maps of relative accuracy `γ`, the final low-pass and every
band of every level are within `errJ g γ M E (2J)` of the exact `pywt.wavedec2` coefficients when the input is within `E` of an exact
image bounded by `M` -/
theorem wavedec2_fl_err_gen (g γ : ℝ) (hg : 1 ≤ g) (hγ : 0 ≤ γ) (hc0 hc1 hr0 hr1 : List ℝ) (hLc0 : 2 ≤ hc0.length)
    (hLc1 : hc1.length = hc0.length) (hLr0 : 2 ≤ hr0.length) (hLr1 : hr1.length = hr0.length)
    (g0 : l1 hc0 ≤ g) (g1 : l1 hc1 ≤ g) (g2 : l1 hr0 ≤ g) (g3 : l1 hr1 ≤ g)
    (Dc0 Dc1 Dr0 Dr1 : Nat → List ℝ → List ℝ) (a0 : ∀ j, ApproxLevel m hc0 γ (Dc0 j)) (a1 : ∀ j, ApproxLevel m hc1 γ (Dc1 j))
    (a2 : ∀ j, ApproxLevel m hr0 γ (Dr0 j)) (a3 : ∀ j, ApproxLevel m hr1 γ (Dr1 j)) :
    ∀ (J j : Nat) (x x' : Img ℝ) (H W : Nat) (M E : ℝ), 1 ≤ H → 1 ≤ W → Bdd2 M x → Close2 E H W x' x →
      (∃ HJ WJ, Close2 (errJ g γ M E (2 * J)) HJ WJ (flWavedec2 Dc0 Dc1 Dr0 Dr1 J j x').1 (Spec.wavedec2 m hc0 hc1 hr0 hr1 J x).1) ∧
      (flWavedec2 Dc0 Dc1 Dr0 Dr1 J j x').2.length = (Spec.wavedec2 m hc0 hc1 hr0 hr1 J x).2.length ∧
      ∀ i k, i < J → k < 3 → ∃ Hi Wi, Close2 (errJ g γ M E (2 * J)) Hi Wi
        (((flWavedec2 Dc0 Dc1 Dr0 Dr1 J j x').2.getD i []).getD k []) (((Spec.wavedec2 m hc0 hc1 hr0 hr1 J x).2.getD i []).getD k [])
  | 0, j, x, x', H, W, M, E, _, _, _, hc => by
    have e : errJ g γ M E (2 * 0) = E := by unfold errJ; simp
    simp only [flWavedec2, Spec.wavedec2, e]
    exact ⟨⟨H, W, hc⟩, trivial, fun i k hi _ => absurd hi (by omega)⟩
  | J+1, j, x, x', H, W, M, E, hH, hW, hx, hc => by
    have hM : 0 ≤ M := le_trans (abs_nonneg _) (hx 0 0)
    have hE : 0 ≤ E := le_trans (abs_nonneg _) (hc.2.2 0 0)
    obtain ⟨cA, cH, cV, cD, bA⟩ := dwt2_fl_err m hm g γ hγ hc0 hc1 hr0 hr1 hLc0 hLc1 hLr0 hLr1 g0 g1 g2 g3 (Dc0 j) (Dc1 j) (Dr0 j) (Dr1 j)
      (a0 j) (a1 j) (a2 j) (a3 j) x x' H W hH hW M E hx hc
    have hK : 1 ≤ dwtCoeffLen H hc0.length := by unfold dwtCoeffLen; omega
    have hKw : 1 ≤ dwtCoeffLen W hr0.length := by unfold dwtCoeffLen; omega
    obtain ⟨ihA, ihL, ihB⟩ := wavedec2_fl_err_gen g γ hg hγ hc0 hc1 hr0 hr1 hLc0 hLc1 hLr0 hLr1 g0 g1 g2 g3 Dc0 Dc1 Dr0 Dr1 a0 a1 a2 a3 J (j+1)
      (Spec.dwt2 m hc0 hc1 hr0 hr1 x).1 _ _ _ (g * (g * M)) (errJ g γ M E 2) hK hKw bA cA
    have e2 : 2 * (J + 1) = 2 * J + 2 := by ring
    rw [errJ_two] at ihA ihB
    rw [e2]
    simp only [flWavedec2, Spec.wavedec2]
    refine ⟨ihA, by simp [ihL], fun i k hi hk => ?_⟩
    cases i with
    | zero =>
      have mono : errJ g γ M E 2 ≤ errJ g γ M E (2 * J + 2) := by
        have := errJ_le g γ M E hg hγ hM hE 2 (2 * J)
        rw [show 2 + 2 * J = 2 * J + 2 by ring] at this; exact this
      simp only [List.getD_cons_zero]
      have hk3 : k = 0 ∨ k = 1 ∨ k = 2 := by omega
      rcases hk3 with rfl | rfl | rfl
      · exact ⟨_, _, cH.mono mono⟩
      · exact ⟨_, _, cV.mono mono⟩
      · exact ⟨_, _, cD.mono mono⟩
    | succ i => simpa using ihB i k (by omega) hk

include hm in
/-- **C16, float32 accuracy of the J-level 2-D transform**: computed with one-level maps of relative accuracy `γ`, every coefficient of
every band is within `((1+γ)^{2J} − 1)·g^{2J}·max|x|` of the exact coefficient of `pywt.wavedec2` — i.e. of the module `DWTForward`
(`C01.DWTForward_eq_wavedec2`) -/
theorem wavedec2_fl_err (g γ : ℝ) (hg : 1 ≤ g) (hγ : 0 ≤ γ) (hc0 hc1 hr0 hr1 : List ℝ) (hLc0 : 2 ≤ hc0.length)
    (hLc1 : hc1.length = hc0.length) (hLr0 : 2 ≤ hr0.length) (hLr1 : hr1.length = hr0.length)
    (g0 : l1 hc0 ≤ g) (g1 : l1 hc1 ≤ g) (g2 : l1 hr0 ≤ g) (g3 : l1 hr1 ≤ g)
    (Dc0 Dc1 Dr0 Dr1 : Nat → List ℝ → List ℝ) (a0 : ∀ j, ApproxLevel m hc0 γ (Dc0 j)) (a1 : ∀ j, ApproxLevel m hc1 γ (Dc1 j))
    (a2 : ∀ j, ApproxLevel m hr0 γ (Dr0 j)) (a3 : ∀ j, ApproxLevel m hr1 γ (Dr1 j))
    (J : Nat) (x : Img ℝ) (H W : Nat) (M : ℝ) (hH : 1 ≤ H) (hW : 1 ≤ W) (hr : Rect x H W) (hx : Bdd2 M x) :
    (∃ HJ WJ, Close2 (((1 + γ) ^ (2 * J) - 1) * (g ^ (2 * J) * M)) HJ WJ (flWavedec2 Dc0 Dc1 Dr0 Dr1 J 0 x).1 (Spec.wavedec2 m hc0 hc1 hr0 hr1 J x).1) ∧
    ∀ i k, i < J → k < 3 → ∃ Hi Wi, Close2 (((1 + γ) ^ (2 * J) - 1) * (g ^ (2 * J) * M)) Hi Wi
      (((flWavedec2 Dc0 Dc1 Dr0 Dr1 J 0 x).2.getD i []).getD k []) (((Spec.wavedec2 m hc0 hc1 hr0 hr1 J x).2.getD i []).getD k []) := by
  have := wavedec2_fl_err_gen m hm g γ hg hγ hc0 hc1 hr0 hr1 hLc0 hLc1 hLr0 hLr1 g0 g1 g2 g3 Dc0 Dc1 Dr0 Dr1 a0 a1 a2 a3 J 0 x x H W M 0 hH hW hx
    ⟨hr, hr, fun i j => by simp⟩
  have e : errJ g γ M 0 (2 * J) = ((1 + γ) ^ (2 * J) - 1) * (g ^ (2 * J) * M) := by unfold errJ; ring
  rw [e] at this
  exact ⟨this.1, this.2.2⟩

/-- non-vacuity of the hypotheses: the exact level is an approximate level of accuracy 0 (and `C16R.flLevel_approx` gives the rounded
`afb1d` of the model with `γ = (1+u)^(L+1) − 1`) -/
example (h : List ℝ) : ApproxLevel m h 0 (Spec.dwt m h) := by
  intro x M _ _
  simpa using close_refl (Spec.dwt m h x)

end
end WV.C16S
