/-
  C09 — the back-propagation of the SECOND-ORDER scattering layer is the exact adjoint of its linearisation (one channel,
  no colour combination), over any commutative ring and for any "division" and "square root" operations.

  The layer is three blocks of the same kind: a DTCWT level followed by smooth magnitudes of its six bands,
      x ──level 1──▶ (low₁, m₁[o] = |B₁[o]| − b)        low₁ ──level 2──▶ (low₂, |B₂[o]| − b)        m₁[o] ──level 1──▶ (L₃[o], |B₃[o][o₂]| − b)
  and 2×2 average pooling of `low₂` and of the `L₃[o]`.  Its hand-written backward pass runs, per block, the inverse level on
  the low-pass cotangent and on the band cotangents multiplied by the saved factors `re/r`, `im/r`.  A block's backward is the
  adjoint of its linearisation (`block1_adjoint`, `block2_adjoint`: the level adjointness of C06 / C06Q plus the point-wise
  factors), pooling is adjoint to ¼·up-sampling (`C09P.pool_up_adjoint`), and the three blocks compose
  (`scat2_backward_adjoint`).
-/
import WaveletsVerif.Properties.C09P
import WaveletsVerif.Properties.C06Q
namespace WV.C09Q
open Finset WV WV.C04 WV.C06 WV.C06Q WV.C09P
variable {R : Type} [CommRing R]

/-! ### shapes of the bands of the forward levels -/

theorem q2c_rect' (s : R) (y : Img R) (H W : Nat) (hy : Rect y (2*H) (2*W)) (hH : 1 ≤ H) :
    Rect (q2c s y).1.1 H W ∧ Rect (q2c s y).1.2 H W ∧ Rect (q2c s y).2.1 H W ∧ Rect (q2c s y).2.2 H W := by
  unfold q2c
  simp only [hy.1, rect_width y _ _ hy (by omega)]
  have e1 : 2 * H / 2 = H := by omega
  have e2 : 2 * W / 2 = W := by omega
  rw [e1, e2]
  exact ⟨tab2_rect _ _ _, tab2_rect _ _ _, tab2_rect _ _ _, tab2_rect _ _ _⟩

theorem highsToOrientations_rect (s : R) (lh hl hh : Img R) (H W : Nat) (hH : 1 ≤ H) (r1 : Rect lh (2*H) (2*W)) (r2 : Rect hl (2*H) (2*W))
    (r3 : Rect hh (2*H) (2*W)) (k : Nat) (hk : k < 6) :
    Rect ((highsToOrientations s lh hl hh).getD k ([], [])).1 H W ∧ Rect ((highsToOrientations s lh hl hh).getD k ([], [])).2 H W := by
  obtain ⟨a1, a2, a3, a4⟩ := q2c_rect' s lh H W r1 hH
  obtain ⟨b1, b2, b3, b4⟩ := q2c_rect' s hh H W r3 hH
  obtain ⟨c1, c2, c3, c4⟩ := q2c_rect' s hl H W r2 hH
  unfold highsToOrientations
  have : k = 0 ∨ k = 1 ∨ k = 2 ∨ k = 3 ∨ k = 4 ∨ k = 5 := by omega
  rcases this with rfl | rfl | rfl | rfl | rfl | rfl <;> simp only [List.getD_cons_zero, List.getD_cons_succ] <;> constructor <;> assumption

/-- the six bands of the level-1 analysis of a `2H × 2W` image are `H × W` -/
theorem fwdJ1_bands_rect (s : R) (h0 h1 : List R) (hh0 : h0.length % 2 = 1) (hh1 : h1.length % 2 = 1) (x : Img R) (H W : Nat)
    (hH : 1 ≤ H) (hW : 1 ≤ W) (hx : Rect x (2*H) (2*W)) :
    ∃ hs, (fwdJ1 s true (prepFilt h0) (prepFilt h1) false x).2 = some hs ∧
      ∀ k < 6, Rect (hs.getD k ([], [])).1 H W ∧ Rect (hs.getD k ([], [])).2 H W := by
  have L0 : 1 ≤ h0.length := by omega
  have L1 : 1 ≤ h1.length := by omega
  have h2H : 1 ≤ 2 * H := by omega
  have h2W : 1 ≤ 2 * W := by omega
  have eLo : rowfilter true (prepFilt h0) x = alongW (Cf h0) x := rowfilter_model h0 L0 x (2*W) h2W hx.2
  have eHi : rowfilter true (prepFilt h1) x = alongW (Cf h1) x := rowfilter_model h1 L1 x (2*W) h2W hx.2
  have rLo := alongW_rect h0 hh0 x _ _ hx
  have rHi := alongW_rect h1 hh1 x _ _ hx
  set lo := alongW (Cf h0) x with hlo
  set hi := alongW (Cf h1) x with hhi
  have ell : colfilter true (prepFilt h0) lo = alongH (Cf h0) lo := colfilter_model h0 L0 lo (by rw [rLo.1]; exact h2H)
  have elh : colfilter true (prepFilt h1) lo = alongH (Cf h1) lo := colfilter_model h1 L1 lo (by rw [rLo.1]; exact h2H)
  have ehl : colfilter true (prepFilt h0) hi = alongH (Cf h0) hi := colfilter_model h0 L0 hi (by rw [rHi.1]; exact h2H)
  have ehh : colfilter true (prepFilt h1) hi = alongH (Cf h1) hi := colfilter_model h1 L1 hi (by rw [rHi.1]; exact h2H)
  have rlh := alongH_rect h1 hh1 lo _ _ rLo h2H h2W
  have rhl := alongH_rect h0 hh0 hi _ _ rHi h2H h2W
  have rhh := alongH_rect h1 hh1 hi _ _ rHi h2H h2W
  refine ⟨highsToOrientations s (alongH (Cf h1) lo) (alongH (Cf h0) hi) (alongH (Cf h1) hi), ?_, fun k hk =>
    highsToOrientations_rect s _ _ _ H W hH rlh rhl rhh k hk⟩
  unfold fwdJ1
  simp only [Bool.false_eq_true, if_false, eLo, eHi, ell, elh, ehl, ehh]

theorem subBias_rect (m : MagOps R) (x : Img R) (H W : Nat) (hx : Rect x H W) : Rect (subBias m x) H W := by
  unfold subBias
  exact ⟨by simp [hx.1], fun r hr => by
    simp only [List.mem_map] at hr
    obtain ⟨r0, h0, rfl⟩ := hr
    simp [hx.2 r0 h0]⟩

theorem magR_rect (m : MagOps R) (cz : Cplx R) (H W : Nat) (hH : 1 ≤ H) (h1 : Rect cz.1 H W) : Rect (magR m cz) H W := by
  unfold magR imap2
  rw [h1.1, rect_width _ _ _ h1 hH]
  exact tab2_rect _ _ _

/-- the linearised smooth magnitude of band `o`: `re/r · δre + im/r · δim` with the factors saved at the point `bx` -/
def lin (m : MagOps R) (H W : Nat) (bx bv : List (Cplx R)) (o : Nat) : Img R :=
  tab2 H W fun i j => get2 (savedRe m (bx.getD o ([], []))) i j * get2 (bv.getD o ([], [])).1 i j
                    + get2 (savedIm m (bx.getD o ([], []))) i j * get2 (bv.getD o ([], [])).2 i j

/-- the band cotangents the backward pass hands to the inverse level, as tables -/
theorem bandCot_tab (m : MagOps R) (bx : List (Cplx R)) (d : Nat → Img R) (H W : Nat) (hH : 1 ≤ H) (hd : ∀ o < 6, Rect (d o) H W) :
    bandCot m bx d = (List.range 6).map fun k =>
      ((tab2 H W fun i j => get2 (d k) i j * get2 (savedRe m (bx.getD k ([], []))) i j,
        tab2 H W fun i j => get2 (d k) i j * get2 (savedIm m (bx.getD k ([], []))) i j) : Cplx R) := by
  unfold bandCot
  apply List.map_congr_left
  intro o ho
  have ho' : o < 6 := by simpa using ho
  have rd := hd o ho'
  unfold imap2
  rw [rd.1, rect_width _ H W rd hH]
  rfl

theorem bandSize_tab (H W : Nat) (hH : 1 ≤ H) (a b : Nat → Nat → Nat → R) :
    bandSize ((List.range 6).map fun k => ((tab2 H W (a k), tab2 H W (b k)) : Cplx R)) = (H, W) := by
  unfold bandSize
  simp only [List.range, List.range.loop, List.map_cons, List.headD_cons]
  rw [(tab2_rect H W (a 0)).1, rect_width _ H W (tab2_rect H W (a 0)) hH]

/-- moving the saved factors across the inner product -/
theorem lin_dot (m : MagOps R) (H W : Nat) (bx bv : List (Cplx R)) (d : Nat → Img R) (k : Nat) (hk : k < 6) :
    dot2 H W (lin m H W bx bv k) (d k)
      = dot2 H W (bv.getD k ([], [])).1 (((List.range 6).map fun k =>
            ((tab2 H W fun i j => get2 (d k) i j * get2 (savedRe m (bx.getD k ([], []))) i j,
              tab2 H W fun i j => get2 (d k) i j * get2 (savedIm m (bx.getD k ([], []))) i j) : Cplx R)).getD k ([], [])).1
        + dot2 H W (bv.getD k ([], [])).2 (((List.range 6).map fun k =>
            ((tab2 H W fun i j => get2 (d k) i j * get2 (savedRe m (bx.getD k ([], []))) i j,
              tab2 H W fun i j => get2 (d k) i j * get2 (savedIm m (bx.getD k ([], []))) i j) : Cplx R)).getD k ([], [])).2 := by
  have hget : ((List.range 6).map fun k =>
            ((tab2 H W fun i j => get2 (d k) i j * get2 (savedRe m (bx.getD k ([], []))) i j,
              tab2 H W fun i j => get2 (d k) i j * get2 (savedIm m (bx.getD k ([], []))) i j) : Cplx R)).getD k ([], [])
      = (tab2 H W fun i j => get2 (d k) i j * get2 (savedRe m (bx.getD k ([], []))) i j,
         tab2 H W fun i j => get2 (d k) i j * get2 (savedIm m (bx.getD k ([], []))) i j) := by
    simp [List.getD_eq_getElem?_getD, List.getElem?_eq_getElem, hk]
  rw [hget]
  unfold dot2 lin
  rw [← Finset.sum_add_distrib]
  apply Finset.sum_congr rfl; intro i hi
  rw [← Finset.sum_add_distrib]
  apply Finset.sum_congr rfl; intro j hj
  have hi' : i < H := by simpa using hi
  have hj' : j < W := by simpa using hj
  rw [C19.get2_tab2 _ _ _ _ _ hi' hj', C19.get2_tab2 _ _ _ _ _ hi' hj', C19.get2_tab2 _ _ _ _ _ hi' hj']
  ring

/-- **a level-1 scattering block**: the inverse level applied to a low-pass cotangent `gl` and to the band cotangents `d`
multiplied by the factors saved at `x` is the adjoint of the block's linearisation at `x` -/
theorem block1_adjoint (m : MagOps R) (h0 h1 : List R) (hh0 : h0.length % 2 = 1) (hh1 : h1.length % 2 = 1)
    (hs0 : Symm h0) (hs1 : Symm h1) (x v gl : Img R) (d : Nat → Img R) (H W : Nat) (hH : 1 ≤ H) (hW : 1 ≤ W)
    (hx : Rect x (2*H) (2*W)) (hv : Rect v (2*H) (2*W)) (hgl : Rect gl (2*H) (2*W)) (hd : ∀ o < 6, Rect (d o) H W) :
    ∃ bx bv y, (fwd1 m true (prepFilt h0) (prepFilt h1) none x).2 = bx ∧ (fwd1 m true (prepFilt h0) (prepFilt h1) none v).2 = bv ∧
      inv1 m true (prepFilt h0) (prepFilt h1) none gl (bandCot m bx d) = some y ∧ Rect y (2*H) (2*W) ∧
      dot2 (2*H) (2*W) (fwd1 m true (prepFilt h0) (prepFilt h1) none v).1 gl + ∑ k ∈ range 6, dot2 H W (lin m H W bx bv k) (d k)
        = dot2 (2*H) (2*W) v y := by
  obtain ⟨bx, _, hbx, _, _⟩ := fwdJ1_backward_adjoint m.s h0 h1 hh0 hh1 hs0 hs1 x x H W hH hW hx hx (fun _ _ _ => 0) (fun _ _ _ => 0)
  obtain ⟨bv, y, hbv, hy, ry, hid⟩ := fwdJ1_backward_adjoint_rect m.s h0 h1 hh0 hh1 hs0 hs1 v gl H W hH hW hv hgl
    (fun k i j => get2 (d k) i j * get2 (savedRe m (bx.getD k ([], []))) i j)
    (fun k i j => get2 (d k) i j * get2 (savedIm m (bx.getD k ([], []))) i j)
  refine ⟨bx, bv, y, ?_, ?_, ?_, ry, ?_⟩
  · simp only [fwd1, hbx, Option.getD_some]
  · simp only [fwd1, hbv, Option.getD_some]
  · rw [bandCot_tab m bx d H W hH hd]
    unfold inv1
    simp only []
    rw [bandSize_tab H W hH]
    exact hy
  · have e : (fwd1 m true (prepFilt h0) (prepFilt h1) none v).1 = (fwdJ1 m.s true (prepFilt h0) (prepFilt h1) false v).1 := rfl
    rw [e, Finset.sum_congr rfl (fun k hk => lin_dot m H W bx bv d k (by simpa using hk)), hid]


/-- **a level-2 scattering block** (q-shift filters, tree a the time reverse of tree b): the inverse level with the trees
exchanged, applied to a low-pass cotangent `gl` and to the band cotangents `d` multiplied by the factors saved at `x`, is the
adjoint of the block's linearisation at `x` -/
theorem block2_adjoint (m : MagOps R) (k0 k1 : List R) (hm0 : k0.length % 2 = 0) (hm0' : 2 ≤ k0.length)
    (hm1 : k1.length % 2 = 0) (hm1' : 2 ≤ k1.length) (x v gl : Img R) (d : Nat → Img R) (H W : Nat) (hH : 1 ≤ H) (hW : 1 ≤ W)
    (hx : Rect x (4*H) (4*W)) (hv : Rect v (4*H) (4*W)) (hgl : Rect gl (2*H) (2*W)) (hd : ∀ o < 6, Rect (d o) H W) :
    ∃ lx bx lv bv y,
      fwd2 m (prepFilt k0.reverse) (prepFilt k1.reverse) (prepFilt k0) (prepFilt k1) none x = some (lx, bx) ∧
      fwd2 m (prepFilt k0.reverse) (prepFilt k1.reverse) (prepFilt k0) (prepFilt k1) none v = some (lv, bv) ∧
      Rect lx (2*H) (2*W) ∧ Rect lv (2*H) (2*W) ∧
      inv2 m (prepFilt k0.reverse) (prepFilt k1.reverse) (prepFilt k0) (prepFilt k1) none gl (bandCot m bx d) = some y ∧
      Rect y (4*H) (4*W) ∧
      dot2 (2*H) (2*W) lv gl + ∑ k ∈ range 6, dot2 H W (lin m H W bx bv k) (d k) = dot2 (4*H) (4*W) v y := by
  have hz : Rect (tab2 (2*H) (2*W) fun _ _ => (0 : R)) (2*H) (2*W) := tab2_rect _ _ _
  obtain ⟨lx, bx, _, hfx, _, _, rlx, _⟩ := fwdJ2_backward_adjoint_rect m.s k0 k1 hm0 hm0' hm1 hm1' x _ H W hH hW hx hz
    (fun _ _ _ => 0) (fun _ _ _ => 0)
  obtain ⟨lv, bv, y, hfv, hy, ry, rlv, hid⟩ := fwdJ2_backward_adjoint_rect m.s k0 k1 hm0 hm0' hm1 hm1' v gl H W hH hW hv hgl
    (fun k i j => get2 (d k) i j * get2 (savedRe m (bx.getD k ([], []))) i j)
    (fun k i j => get2 (d k) i j * get2 (savedIm m (bx.getD k ([], []))) i j)
  refine ⟨lx, bx, lv, bv, y, ?_, ?_, rlx, rlv, ?_, ry, ?_⟩
  · simp only [fwd2, hfx, Option.bind_eq_bind, Option.bind_some, Option.getD_some]
  · simp only [fwd2, hfv, Option.bind_eq_bind, Option.bind_some, Option.getD_some]
  · rw [bandCot_tab m bx d H W hH hd]
    exact hy
  · rw [Finset.sum_congr rfl (fun k hk => lin_dot m H W bx bv d k (by simpa using hk)), hid]


/-! ### the three blocks composed -/

theorem bandCot_congr (m : MagOps R) (bx : List (Cplx R)) (d d' : Nat → Img R) (h : ∀ o < 6, d o = d' o) :
    bandCot m bx d = bandCot m bx d' := by
  unfold bandCot
  apply List.map_congr_left
  intro o ho
  rw [h o (by simpa using ho)]

theorem flatten_singletons {α : Type} (n : Nat) (g : Nat → α) : ((List.range n).map fun o => [g o]).flatten = (List.range n).map g := by
  induction n with
  | zero => simp
  | succ n ih => simp [List.range_succ, ih]

theorem getD_range_map {α : Type} (n : Nat) (g : Nat → α) (d : α) (k : Nat) (hk : k < n) : ((List.range n).map g).getD k d = g k := by
  simp [List.getD_eq_getElem?_getD, List.getElem?_eq_getElem, hk]

section main
variable (m : MagOps R) (h0 h1 k0 k1 : List R) (hh0 : h0.length % 2 = 1) (hh1 : h1.length % 2 = 1) (hs0 : Symm h0) (hs1 : Symm h1)
    (hm0 : k0.length % 2 = 0) (hm0' : 2 ≤ k0.length) (hm1 : k1.length % 2 = 0) (hm1' : 2 ≤ k1.length)
    (H W : Nat) (hH : 1 ≤ H) (hW : 1 ≤ W)

/-- the filters of the second-order layer: symmetric odd-length level-1 pair, q-shift pair with tree a the reverse of tree b -/
def filt : Scat2Filters R :=
  ⟨prepFilt h0, prepFilt h1, none, prepFilt k0.reverse, prepFilt k0, prepFilt k1.reverse, prepFilt k1, none⟩

/-- the level-1 analysis of the layer -/
abbrev P1 : Img R → Img R × List (Cplx R) := fwd1 m true (prepFilt h0) (prepFilt h1) none

/-- first-order magnitudes at `x`, and their linearisation in the direction `v` -/
def m1 (x : Img R) (o : Nat) : Img R := subBias m (magR m ((P1 m h0 h1 x).2.getD o ([], [])))
def dm (x v : Img R) (o : Nat) : Img R := lin m (2*H) (2*W) (P1 m h0 h1 x).2 (P1 m h0 h1 v).2 o

include hh0 hh1 hs0 hs1 hm0 hm0' hm1 hm1' hH hW in
/-- **the backward pass of the second-order scattering layer is the adjoint of its linearisation** (one channel, no colour
combination; sides multiples of 4 — the module only admits multiples of 8; any ring, any `sq` and `dv`): with
`δS0 = pool(low₂(low₁ v))`, `δS1[o] = pool(low₁(δm₁[o]))`, `δS1'[o] = lin(B₂)`, `δS2[o₂][o] = lin(B₃[o])` the sum of the inner
products with the 49 cotangent channels is `⟨v, backward(dZ)⟩` -/
theorem scat2_backward_adjoint (x v : Img R) (dZ : List (Img R)) (hx : Rect x (4*H) (4*W)) (hv : Rect v (4*H) (4*W))
    (hd : ∀ k < 49, Rect (dZ.getD k []) H W) :
    ∃ lx2 B2x lv2 B2v dX,
      fwd2 m (prepFilt k0.reverse) (prepFilt k1.reverse) (prepFilt k0) (prepFilt k1) none (P1 m h0 h1 x).1 = some (lx2, B2x) ∧
      fwd2 m (prepFilt k0.reverse) (prepFilt k1.reverse) (prepFilt k0) (prepFilt k1) none (P1 m h0 h1 v).1 = some (lv2, B2v) ∧
      scatJ2Backward m (filt h0 h1 k0 k1) [x] dZ = some [dX] ∧
      dot2 H W (avgPool2 m.q lv2) (dZ.getD 0 [])
        + ∑ o ∈ range 6, dot2 H W (avgPool2 m.q (P1 m h0 h1 (dm m h0 h1 H W x v o)).1) (dZ.getD (1 + o) [])
        + ∑ o ∈ range 6, dot2 H W (lin m H W B2x B2v o) (dZ.getD (7 + o) [])
        + ∑ o ∈ range 6, ∑ o2 ∈ range 6,
            dot2 H W (lin m H W (P1 m h0 h1 (m1 m h0 h1 x o)).2 (P1 m h0 h1 (dm m h0 h1 H W x v o)).2 o2) (dZ.getD (13 + o2 * 6 + o) [])
        = dot2 (4*H) (4*W) v dX := by
  have e4H : 4 * H = 2 * (2 * H) := by ring
  have e4W : 4 * W = 2 * (2 * W) := by ring
  have h2H : 1 ≤ 2 * H := by omega
  have h2W : 1 ≤ 2 * W := by omega
  have hx' : Rect x (2 * (2 * H)) (2 * (2 * W)) := by rw [← e4H, ← e4W]; exact hx
  have hv' : Rect v (2 * (2 * H)) (2 * (2 * W)) := by rw [← e4H, ← e4W]; exact hv
  -- shapes of the first analysis
  obtain ⟨B1x, hB1x, rB1x⟩ := fwdJ1_bands_rect m.s h0 h1 hh0 hh1 x (2*H) (2*W) h2H h2W hx'
  have eB1x : (P1 m h0 h1 x).2 = B1x := by simp only [P1, fwd1, hB1x, Option.getD_some]
  have rlow1x : Rect (P1 m h0 h1 x).1 (4*H) (4*W) := by
    rw [e4H, e4W]; exact (C04P.fwdJ1_shape m.s h0 h1 hh0 hh1 x (2*H) (2*W) h2H h2W hx').1
  have rlow1v : Rect (P1 m h0 h1 v).1 (4*H) (4*W) := by
    rw [e4H, e4W]; exact (C04P.fwdJ1_shape m.s h0 h1 hh0 hh1 v (2*H) (2*W) h2H h2W hv').1
  have rm1 : ∀ o < 6, Rect (m1 m h0 h1 x o) (2*H) (2*W) := by
    intro o ho
    unfold m1
    rw [eB1x]
    exact subBias_rect m _ _ _ (magR_rect m _ _ _ h2H (rB1x o ho).1)
  have rdm : ∀ o, Rect (dm m h0 h1 H W x v o) (2*H) (2*W) := fun o => tab2_rect _ _ _
  -- cotangent shapes
  have rup : ∀ k < 49, Rect (iscale m.q (nearestUp2 (dZ.getD k []))) (2*H) (2*W) := fun k hk =>
    iscale_rect _ _ _ _ (nearestUp2_rect _ H W (hd k hk) hH)
  -- inner blocks: second order back to the first-order magnitudes
  let dm1 : Nat → Img R := fun o =>
    (inv1 m true (prepFilt h0) (prepFilt h1) none (iscale m.q (nearestUp2 (dZ.getD (1 + o) [])))
      (bandCot m (P1 m h0 h1 (m1 m h0 h1 x o)).2 fun o2 => dZ.getD (13 + o2 * 6 + o) [])).getD []
  have inner : ∀ o < 6,
      inv1 m true (prepFilt h0) (prepFilt h1) none (iscale m.q (nearestUp2 (dZ.getD (1 + o) [])))
        (bandCot m (P1 m h0 h1 (m1 m h0 h1 x o)).2 fun o2 => dZ.getD (13 + o2 * 6 + o) []) = some (dm1 o) ∧
      Rect (dm1 o) (2*H) (2*W) ∧
      dot2 H W (avgPool2 m.q (P1 m h0 h1 (dm m h0 h1 H W x v o)).1) (dZ.getD (1 + o) [])
        + ∑ o2 ∈ range 6, dot2 H W (lin m H W (P1 m h0 h1 (m1 m h0 h1 x o)).2 (P1 m h0 h1 (dm m h0 h1 H W x v o)).2 o2)
            (dZ.getD (13 + o2 * 6 + o) [])
        = dot2 (2*H) (2*W) (dm m h0 h1 H W x v o) (dm1 o) := by
    intro o ho
    obtain ⟨bx, bv, y, hbx, hbv, hy, ry, hid⟩ := block1_adjoint m h0 h1 hh0 hh1 hs0 hs1 (m1 m h0 h1 x o) (dm m h0 h1 H W x v o)
      (iscale m.q (nearestUp2 (dZ.getD (1 + o) []))) (fun o2 => dZ.getD (13 + o2 * 6 + o) []) H W hH hW (rm1 o ho) (rdm o)
      (rup (1 + o) (by omega)) (fun o2 ho2 => hd _ (by omega))
    have e1 : (P1 m h0 h1 (m1 m h0 h1 x o)).2 = bx := hbx
    have e2 : (P1 m h0 h1 (dm m h0 h1 H W x v o)).2 = bv := hbv
    rw [← e1] at hy
    have hdm1 : dm1 o = y := by show (inv1 _ _ _ _ _ _ _).getD [] = y; rw [hy]; rfl
    refine ⟨by rw [hdm1]; exact hy, by rw [hdm1]; exact ry, ?_⟩
    have hp := pool_up_adjoint m.q (P1 m h0 h1 (dm m h0 h1 H W x v o)).1 (dZ.getD (1 + o) []) H W
      (C04P.fwdJ1_shape m.s h0 h1 hh0 hh1 _ H W hH hW (rdm o)).1 (hd _ (by omega)) hH hW
    rw [hdm1, e1, e2, ← hid, ← hp]
  -- the scale-2 block
  obtain ⟨lx2, B2x, lv2, B2v, ds0, hf2x, hf2v, rlx2, rlv2, hds0, rds0, hid2⟩ :=
    block2_adjoint m k0 k1 hm0 hm0' hm1 hm1' (P1 m h0 h1 x).1 (P1 m h0 h1 v).1 (iscale m.q (nearestUp2 (dZ.getD 0 [])))
      (fun o => dZ.getD (7 + o) []) H W hH hW rlow1x rlow1v (rup 0 (by omega)) (fun o ho => hd _ (by omega))
  have hp0 := pool_up_adjoint m.q lv2 (dZ.getD 0 []) H W rlv2 (hd 0 (by omega)) hH hW
  -- the outer block
  have rds0' : Rect ds0 (2 * (2 * H)) (2 * (2 * W)) := by rw [← e4H, ← e4W]; exact rds0
  obtain ⟨bx, bv, dX, hbx, hbv, hdX, _, hid1⟩ := block1_adjoint m h0 h1 hh0 hh1 hs0 hs1 x v ds0 dm1 (2*H) (2*W) h2H h2W hx' hv' rds0'
    (fun o ho => (inner o ho).2.1)
  refine ⟨lx2, B2x, lv2, B2v, dX, hf2x, hf2v, ?_, ?_⟩
  · -- the model's backward pass is exactly these three steps
    have hr3 : ∀ k < 6, (((List.range 6).map fun o => m1 m h0 h1 x o).map (fwd1 m true (prepFilt h0) (prepFilt h1) none)).getD k ([], [])
        = P1 m h0 h1 (m1 m h0 h1 x k) := by
      intro k hk
      rw [List.map_map, getD_range_map _ _ _ k hk]; rfl
    have hA : (List.range (6 * 1)).mapM (fun k =>
          inv1 m true (prepFilt h0) (prepFilt h1) none (iscale m.q (nearestUp2 (dZ.getD (1 + k) [])))
            (bandCot m ((((List.range 6).map fun o => m1 m h0 h1 x o).map (fwd1 m true (prepFilt h0) (prepFilt h1) none)).getD k ([], [])).2
              fun o2 => dZ.getD (13 * 1 + o2 * (6 * 1) + k) []))
        = some ((List.range 6).map dm1) := by
      have e61 : 6 * 1 = 6 := by norm_num
      rw [e61]
      apply mapM_total
      intro k hk
      have hk' : k < 6 := by simpa using hk
      rw [hr3 k hk']
      have : (fun o2 => dZ.getD (13 * 1 + o2 * 6 + k) []) = fun o2 => dZ.getD (13 + o2 * 6 + k) [] := by
        funext o2
        have e : 13 * 1 + o2 * 6 + k = 13 + o2 * 6 + k := by omega
        rw [e]
      rw [this]
      exact (inner k hk').1
    unfold scatJ2Backward filt
    simp only [List.length_cons, List.length_nil, List.map_cons, List.map_nil, zero_add]
    have hs1 : ((List.range 6).map fun o => [subBias m (magR m ((fwd1 m true (prepFilt h0) (prepFilt h1) none x).2.getD o ([], [])))]).flatten
        = (List.range 6).map fun o => m1 m h0 h1 x o := flatten_singletons 6 _
    rw [hs1]
    have hf2x' : fwd2 m (prepFilt k0.reverse) (prepFilt k1.reverse) (prepFilt k0) (prepFilt k1) none
        (fwd1 m true (prepFilt h0) (prepFilt h1) none x).1 = some (lx2, B2x) := hf2x
    simp only [List.mapM_cons, List.mapM_nil, hf2x', Option.bind_eq_bind, Option.bind_some, Option.pure_def]
    rw [hA]
    simp only [Option.bind_some]
    have hr1 : List.range 1 = [0] := by decide
    rw [hr1]
    simp only [List.mapM_cons, List.mapM_nil, List.getD_cons_zero, Option.bind_eq_bind, Option.pure_def]
    have e0 : (fun o => dZ.getD (7 * 1 + o * 1 + 0) []) = fun o => dZ.getD (7 + o) [] := by
      funext o
      have e : 7 * 1 + o * 1 + 0 = 7 + o := by omega
      rw [e]
    rw [e0]
    have hds0' : inv2 m (prepFilt k0.reverse) (prepFilt k1.reverse) (prepFilt k0) (prepFilt k1) none (iscale m.q (nearestUp2 (dZ.getD 0 [])))
        (bandCot m B2x fun o => dZ.getD (7 + o) []) = some ds0 := hds0
    rw [hds0']
    simp only [Option.bind_some, List.getD_cons_zero]
    have ebc : bandCot m (fwd1 m true (prepFilt h0) (prepFilt h1) none x).2 (fun o => ((List.range 6).map dm1).getD (o * 1 + 0) [])
        = bandCot m bx dm1 := by
      have : (fwd1 m true (prepFilt h0) (prepFilt h1) none x).2 = bx := hbx
      rw [this]
      apply bandCot_congr
      intro o ho
      have : o * 1 + 0 = o := by omega
      rw [this, getD_range_map _ _ _ o ho]
    rw [ebc, hdX]
    rfl
  · -- the three identities add up
    have hsum : ∑ o ∈ range 6, dot2 H W (avgPool2 m.q (P1 m h0 h1 (dm m h0 h1 H W x v o)).1) (dZ.getD (1 + o) [])
        + ∑ o ∈ range 6, ∑ o2 ∈ range 6,
            dot2 H W (lin m H W (P1 m h0 h1 (m1 m h0 h1 x o)).2 (P1 m h0 h1 (dm m h0 h1 H W x v o)).2 o2) (dZ.getD (13 + o2 * 6 + o) [])
        = ∑ o ∈ range 6, dot2 (2*H) (2*W) (dm m h0 h1 H W x v o) (dm1 o) := by
      rw [← Finset.sum_add_distrib]
      apply Finset.sum_congr rfl; intro o ho
      exact (inner o (by simpa using ho)).2.2
    have e1 : (P1 m h0 h1 x).2 = bx := hbx
    have e2 : (P1 m h0 h1 v).2 = bv := hbv
    have hid1' : dot2 (4*H) (4*W) (P1 m h0 h1 v).1 ds0 + ∑ o ∈ range 6, dot2 (2*H) (2*W) (dm m h0 h1 H W x v o) (dm1 o)
        = dot2 (4*H) (4*W) v dX := by
      rw [e4H, e4W]
      unfold dm
      rw [e1, e2]
      exact hid1
    rw [← hid1', ← hid2, ← hp0, ← hsum]
    ring

end main

end WV.C09Q

namespace WV.C09Q
open WV WV.C04
/-- the hypotheses are satisfiable: a symmetric odd-length level-1 pair, an even-length q-shift pair, a 4 × 4 image (`H = W = 1`)
and 49 cotangent channels of one pixel -/
example : Symm ([1, 2, 1] : List Int) ∧ ([1, 2, 1] : List Int).length % 2 = 1 ∧ ([1, 3, 3, 1] : List Int).length % 2 = 0 ∧
    Rect ([[1, 2, 3, 4], [5, 6, 7, 8], [1, 0, 1, 0], [2, 2, 2, 2]] : Img Int) (4 * 1) (4 * 1) ∧
    (∀ k < 49, Rect (((List.range 49).map fun k => ([[Int.ofNat k]] : Img Int)).getD k []) 1 1) := by
  refine ⟨?_, by decide, by decide, by simp [Rect], ?_⟩
  · intro j hj
    have : j = 0 ∨ j = 1 ∨ j = 2 := by simp at hj; omega
    rcases this with rfl | rfl | rfl <;> decide
  · intro k hk
    rw [getD_range_map _ _ _ k hk]
    simp [Rect]
end WV.C09Q
