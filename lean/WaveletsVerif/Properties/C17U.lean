/-
  C17 — "its inverse is its transpose, so applying the inverse transform to a cotangent equals back-propagating it",
  for the whole J-level ONE-DIMENSIONAL pyramid (the 2-D statement is C17T).

  Periodization, every level of even length not shorter than the filters (`C17J.LevelsOK`), ANY even-length filters:
    * back-propagating a cotangent pyramid through `DWT1DForward` (the chain of `AFB1D.backward` passes of `C05U`) IS applying
      `DWT1DInverse` with the same buffers to it (`backprop_eq_inverse1`): at even lengths the module's loop never crops and the
      fold / crop of the backward pass is the identity;
    * hence `⟨DWT1DForward x, P⟩ = ⟨x, DWT1DInverse P⟩` for every signal and every cotangent pyramid `P` of forward shapes
      (`DWT1D_inverse_is_transpose`).  Orthonormality is what makes this transpose the inverse (C02Q / C17J), not what makes it
      the transpose.
-/
import WaveletsVerif.Properties.C17J
import WaveletsVerif.Properties.C17T
import WaveletsVerif.Properties.C05V
namespace WV.C17U
open Finset WV WV.C05P WV.C05U WV.C17J
variable {R : Type} [CommRing R]

/-- the band length of one periodization level -/
abbrev Kp : Nat → Nat := fun N => (N + N % 2) / 2

theorem lvls_of_levelsOK (L : Nat) (hL : 2 ≤ L) : ∀ (J N : Nat), LevelsOK L J N →
    LvlsOK (fun N => 1 ≤ N ∧ L ≤ N + N % 2) Kp J N
  | 0, _, _ => trivial
  | J+1, N, h => by
    obtain ⟨he, hl, hr⟩ := h
    have e : Kp N = N / 2 := by show (N + N % 2) / 2 = N / 2; omega
    exact ⟨⟨by omega, by omega⟩, by rw [e]; exact lvls_of_levelsOK L hL J _ hr⟩

section
variable (h0 h1 : List R) (hL : 2 ≤ h0.length) (hLe : h0.length % 2 = 0) (hh1 : h1.length = h0.length)

include hL hh1 in
/-- **back-propagating a cotangent pyramid through the J-level forward transform IS applying the J-level inverse to it** -/
theorem backprop_eq_inverse1 : ∀ (J N : Nat) (gl : List R) (gh : List (List R)), LevelsOK h0.length J N → PyrOK1 Kp J N gl gh →
    ∃ dx, DWT1DForwardBackward .periodization h0.reverse h1.reverse (shapes Kp J N) gl gh = some dx ∧ dx.length = N ∧
      DWT1DInverse .periodization h0.reverse h1.reverse [gl] (gh.map fun b => some [b]) = some [dx]
  | 0, N, gl, gh, _, hp => by
    cases gh with
    | cons b rest => exact absurd hp (by simp [PyrOK1])
    | nil =>
      simp only [PyrOK1] at hp
      exact ⟨gl, by simp [shapes, DWT1DForwardBackward], hp, by simp [DWT1DInverse]⟩
  | J+1, N, gl, gh, hok, hp => by
    cases gh with
    | nil => exact absurd hp (by simp [PyrOK1])
    | cons g1 rest =>
      obtain ⟨hg1, hrest⟩ := hp
      obtain ⟨he, hl, hokr⟩ := hok
      have e : Kp N = N / 2 := by show (N + N % 2) / 2 = N / 2; omega
      rw [e] at hg1 hrest
      obtain ⟨g0, hb, lg0, hi⟩ := backprop_eq_inverse1 J (N / 2) gl rest hokr hrest
      have hsv := C10.sfb1dCh_per_eq_idwt_partial h0.reverse h1.reverse g0 g1 (by simpa using hL) (by simp [hh1]) (by omega)
        (by rw [hg1, lg0]) (by simp; omega)
      have ld : (Spec.idwt .periodization h0.reverse h1.reverse g0 g1).length = N := by
        have : (Spec.idwt .periodization h0.reverse h1.reverse g0 g1).length = 2 * g0.length := by simp [Spec.idwt]
        rw [this, lg0]; omega
      refine ⟨Spec.idwt .periodization h0.reverse h1.reverse g0 g1, ?_, ld, ?_⟩
      · simp only [shapes, DWT1DForwardBackward, List.tail_cons, List.headD_cons]
        rw [e, hb]
        simp only [Option.bind_eq_bind, Option.bind_some]
        rw [AFB1D_backward_one .periodization _ _ g0 g1 _ N hsv, C17T.foldCrop_id _ _ _ (by omega)]
        simp
      · have hstep : DWT1DInverse_step .periodization h0.reverse h1.reverse [g0] (some [g1])
            = some [Spec.idwt .periodization h0.reverse h1.reverse g0 g1] := by
          unfold DWT1DInverse_step
          simp only [List.headD_cons, List.map_cons, List.map_nil]
          rw [if_neg (by omega)]
          exact C05V.SFB1D_forward_one .periodization _ _ g0 g1 _ hsv
        unfold DWT1DInverse at hi ⊢
        simp only [List.map_cons, List.reverse_cons, List.foldlM_append, hi, Option.bind_eq_bind, Option.bind_some, List.foldlM_cons,
          List.foldlM_nil]
        rw [hstep]; rfl

include hL hLe hh1 in
/-- **the J-level 1-D inverse is the transpose of the J-level forward transform** (periodization, every level of even length not
shorter than the filters, any even-length filters): `⟨DWT1DForward x, P⟩ = ⟨x, DWT1DInverse P⟩` for every cotangent pyramid `P`
of forward shapes -/
theorem DWT1D_inverse_is_transpose (J : Nat) (x gl : List R) (gh : List (List R)) (hok : LevelsOK h0.length J x.length)
    (hp : PyrOK1 Kp J x.length gl gh) :
    ∃ yl yh y, DWT1DForward .periodization h0.reverse h1.reverse J [x] = some ([yl], yh) ∧
      DWT1DInverse .periodization h0.reverse h1.reverse [gl] (gh.map fun b => some [b]) = some [y] ∧ y.length = x.length ∧
      pdot1 yl yh gl gh = dotN x.length x y := by
  obtain ⟨yl, yh, dx, hf, hb, _, hd⟩ := C05U.DWT1D_per_adjoint h0 h1 hL hLe hh1 J x gl gh (lvls_of_levelsOK h0.length hL J _ hok) hp
  obtain ⟨dx', hb', ldx, hi⟩ := backprop_eq_inverse1 h0 h1 hL hh1 J x.length gl gh hok hp
  have : dx' = dx := by
    have h1 : some dx' = some dx := hb'.symm.trans hb
    exact Option.some.inj h1
  subst this
  exact ⟨yl, yh, dx', hf, hi, ldx, hd⟩

end

/-- non-vacuity: 4-tap filters, two levels on a length-8 signal: levels of length 8 and 4, bands of length 4 and 2 -/
example : LevelsOK 4 2 8 ∧ PyrOK1 Kp 2 8 ([1, 2] : List Int) [[1, 2, 3, 4], [5, 6]] := by
  simp [LevelsOK, PyrOK1, Kp]

end WV.C17U
