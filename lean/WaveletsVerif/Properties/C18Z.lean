/-
  C18 / C15 — the loader's step structure, read from the source on every run, is the one the thread model enumerates.

  `Gen.loaderSteps` is the sequence of atomic steps of `_load_from_file` that `harness/translate.py` finds in
  `pytorch_wavelets/dtcwt/coeffs.py` (cache lookup; on a miss: read the WHOLE file into a local, store the complete table under
  its name; project the requested keys), `Gen.cacheMentions` how often the module names its cache at all.  The interleaving
  theorems of C15 (`sched_ok`: under every schedule of the atomic steps every call returns `specOut`) are about a thread whose
  program counter runs `start → read → store → done` (`Model/Cache.lean`); `miss_steps` shows that this is what the model does on
  a miss, and `loader_program_gen` that the source has exactly these steps and no other access to the cache.  A loader that
  publishes a placeholder before the read, fills the table entry by entry, or evicts, has a step the model lacks: the tie fails
  (and the concurrent-callers oracle looks for the schedule on which the real code then goes wrong).
-/
import WaveletsVerif.Model.Cache
import WaveletsVerif.Gen.Tables
namespace WV.C18Z
open WV.Cache

/-- the name of the atomic step a thread at this program counter performs next -/
def stepName : Pc → Option String
  | .start => some "lookup"
  | .read => some "read"
  | .store _ => some "store"
  | .done _ => none

/-- **on a cache miss of an existing file the model's thread performs lookup, read, store — in this order — and finishes with the
projection of the complete table, which is then in the cache** -/
theorem miss_steps (files : Files) (s : State) (name : String) (keys : List String) (t : Table)
    (hmiss : lookup s name = none) (hfile : lookup files name = some t) :
    let th0 : Thread := { name := name, keys := keys, pc := .start }
    let r1 := tstep files s th0
    let r2 := tstep files r1.1 r1.2
    let r3 := tstep files r2.1 r2.2
    [stepName th0.pc, stepName r1.2.pc, stepName r2.2.pc, stepName r3.2.pc] = [some "lookup", some "read", some "store", none] ∧
      r1.1 = s ∧ r2.1 = s ∧ r3.1 = (name, t) :: s ∧ (∃ o, r3.2.pc = .done o ∧ o = pick t keys) := by
  simp [tstep, hmiss, hfile, stepName]

/-- on a hit: lookup, then the projection -/
theorem hit_steps (files : Files) (s : State) (name : String) (keys : List String) (t : Table) (hhit : lookup s name = some t) :
    let th0 : Thread := { name := name, keys := keys, pc := .start }
    let r1 := tstep files s th0
    r1.1 = s ∧ (∃ o, r1.2.pc = .done o ∧ o = pick t keys) := by
  simp [tstep, hhit]

/-- **the source's loader has exactly the model's steps** (regenerated from `coeffs.py` on every run): lookup, read, store, project,
and the cache is named three times in the module — its definition, the lookup and the one store -/
theorem loader_program_gen :
    Gen.loaderSteps = ["lookup", "read", "store"] ++ ["project"] ∧ Gen.cacheMentions = 3 := by decide

end WV.C18Z
