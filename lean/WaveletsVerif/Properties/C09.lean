/-
  C09 — scattering layers back-propagate the true gradient, finite everywhere.

  Proved over ℝ (the analytic part):
  * the partial derivative of the smoothed modulus: `d/dt √(t² + c) = t / √(t² + c)` for
    `c > 0` (with `c = im² + b²` this is `∂mag/∂re = re / r`, what the layers save as `drdx`);
  * with a positive bias `r = √(re² + im² + b²) ≥ b > 0` and `|re / r| ≤ 1`, `|im / r| ≤ 1`:
    the saved factors — hence the gradient — are finite for every input, the all-zero image
    included.
  The linear parts of the backward pass reuse the DTCWT adjoints (C06) and
  `avg_pool2dᵀ = ¼·nearest-upsample`; the multivariate chain rule gluing these into "is the
  gradient" is standard mathematics that is *assumed* here (hence `partial`), and the whole
  backward pass is tied to the code by the Float-tier correspondence and checked against
  central differences on the real code.
-/
import WaveletsVerif.Model.Scat
import Mathlib.Analysis.SpecialFunctions.Sqrt
import Mathlib.Analysis.Calculus.Deriv.Mul
import Mathlib.Analysis.Calculus.Deriv.Add
namespace WV.C09

theorem r_ge_bias (re im b : ℝ) (_hb : 0 < b) : b ≤ Real.sqrt (re*re + im*im + b*b) := by
  apply Real.le_sqrt_of_sq_le
  nlinarith [mul_self_nonneg re, mul_self_nonneg im]

/-- the saved factor `re / r` is bounded by 1 in absolute value (finite gradients) -/
theorem ratio_le_one (re im b : ℝ) (hb : 0 < b) : |re / Real.sqrt (re*re + im*im + b*b)| ≤ 1 := by
  have hr : 0 < Real.sqrt (re*re + im*im + b*b) := lt_of_lt_of_le hb (r_ge_bias re im b hb)
  rw [abs_div, abs_of_pos hr, div_le_one hr]
  apply Real.abs_le_sqrt
  nlinarith [mul_self_nonneg im, mul_self_nonneg b]

theorem ratio_le_one_im (re im b : ℝ) (hb : 0 < b) : |im / Real.sqrt (re*re + im*im + b*b)| ≤ 1 := by
  have hr : 0 < Real.sqrt (re*re + im*im + b*b) := lt_of_lt_of_le hb (r_ge_bias re im b hb)
  rw [abs_div, abs_of_pos hr, div_le_one hr]
  apply Real.abs_le_sqrt
  nlinarith [mul_self_nonneg re, mul_self_nonneg b]

/-- `d/dt √(t² + c) = t / √(t² + c)` for `c > 0` — also at `t = 0`, where the plain modulus
(`c = 0`) is not differentiable -/
theorem hasDerivAt_smoothmag (c : ℝ) (hc : 0 < c) (t : ℝ) :
    HasDerivAt (fun t => Real.sqrt (t*t + c)) (t / Real.sqrt (t*t + c)) t := by
  have hpos : 0 < t*t + c := by nlinarith [mul_self_nonneg t]
  have h1 : HasDerivAt (fun t : ℝ => t*t + c) (t + t) t := by
    have := ((hasDerivAt_id' t).mul (hasDerivAt_id' t)).add_const c
    simpa using this
  have h2 := h1.sqrt (ne_of_gt hpos)
  convert h2 using 1
  field_simp
  ring

/-- at the all-zero input the derivative of the smoothed modulus is 0 (finite), for every `b > 0` -/
theorem smoothmag_deriv_at_zero (b : ℝ) (hb : 0 < b) :
    HasDerivAt (fun t => Real.sqrt (t*t + b*b)) 0 0 := by
  have := hasDerivAt_smoothmag (b*b) (by positivity) 0
  simpa using this

/-- the model's backward pass uses exactly these saved factors: statement of what the code does -/
theorem saved_factor_def {R : Type} [Add R] [Mul R] [OfNat R 0] (m : WV.MagOps R) (c : WV.Cplx R) :
    WV.imap2 m.dv c.1 (WV.magR m c) = WV.imap2 m.dv c.1 (WV.imap2 (fun re im => m.sq (re*re + im*im + m.b*m.b)) c.1 c.2) := rfl

end WV.C09
