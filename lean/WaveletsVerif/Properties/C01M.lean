/-
  C01 / C07 / C14 — the 2-D analysis on ANY number of channels.

  `AFB2D.forward` on a stack of `C` images returns, channel by channel, PyWavelets' `dwt2` of that channel with
  (column wavelet, row wavelet) (`AFB2D_forward_multi`), and the J-level module `DWTForward` returns, channel by channel,
  `wavedec2` of that channel — for every `C`, every `J`, every non-empty image size, all filter lengths ≥ 2, in the modes
  zero / symmetric / periodic (`DWTForward_multi`).  This is the per-(batch, channel)-slice statement of C07 for the whole
  multi-level 2-D transform, and the 4-tuple statement of C14 for channel stacks.
-/
import WaveletsVerif.Properties.C01
import WaveletsVerif.Properties.C07M
namespace WV.C01M
open WV WV.C01 WV.C07M
variable {R : Type} [CommRing R]

omit [CommRing R] in
theorem map_eq_tab' {β : Type} (xs : List (Img R)) (g : Img R → β) :
    xs.map g = tab xs.length fun c => g (xs.getD c []) := by
  apply List.ext_getElem
  · simp
  · intro i h1 h2
    simp [tab, List.getD_eq_getElem?_getD, List.getElem?_eq_getElem (by simpa using h1 : i < xs.length)]

omit [CommRing R] in
theorem getD_mem (xs : List (Img R)) (c : Nat) (hc : c < xs.length) : xs.getD c [] ∈ xs := by
  simp [List.getD_eq_getElem?_getD, List.getElem?_eq_getElem hc]

/-- **one level on `C` channels**: every channel gets its own `dwt2` -/
theorem AFB2D_forward_multi (mode : Mode) (hm : ModeOK (R := R) mode) (c0 c1 r0 r1 : List R)
    (hc0 : 2 ≤ c0.length) (hc1 : 2 ≤ c1.length) (hr0 : 2 ≤ r0.length) (hr1 : 2 ≤ r1.length)
    (xs : List (Img R)) (hx : ∀ x ∈ xs, NonEmptyImg x) :
    AFB2D_forward mode r0.reverse r1.reverse c0.reverse c1.reverse xs
      = some (xs.map fun x => (Spec.dwt2 mode c0 c1 r0 r1 x).1,
              xs.map fun x => [(Spec.dwt2 mode c0 c1 r0 r1 x).2.1, (Spec.dwt2 mode c0 c1 r0 r1 x).2.2.1,
                               (Spec.dwt2 mode c0 c1 r0 r1 x).2.2.2]) := by
  rw [AFB2D_forward_channels mode r0.reverse r1.reverse c0.reverse c1.reverse xs
    (Spec.rowsMap (Spec.dwt mode r0)) (Spec.rowsMap (Spec.dwt mode r1)) (Spec.colsMap (Spec.dwt mode c0)) (Spec.colsMap (Spec.dwt mode c1))
    (fun c hc => ⟨alongO_W_total mode hm r0 hr0 _ (hx _ (getD_mem xs c hc)).2, alongO_W_total mode hm r1 hr1 _ (hx _ (getD_mem xs c hc)).2⟩)
    (fun c hc y hy => by
      have hyl : 1 ≤ y.length := by
        rcases hy with rfl | rfl <;> (simp [Spec.rowsMap]; exact (hx _ (getD_mem xs c hc)).1)
      exact ⟨alongO_H_total mode hm c0 hc0 y hyl, alongO_H_total mode hm c1 hc1 y hyl⟩)]
  rw [map_eq_tab' xs _, map_eq_tab' xs _]
  rfl

/-- **the J-level 2-D transform on ANY number of channels acts channel by channel**: every channel of every band is
`wavedec2` of that channel alone, for every J -/
theorem DWTForward_multi (mode : Mode) (hm : mode = .zero ∨ mode = .symmetric ∨ mode = .periodic)
    (c0 c1 r0 r1 : List R) (hc0 : 2 ≤ c0.length) (hc1 : 2 ≤ c1.length) (hr0 : 2 ≤ r0.length) (hr1 : 2 ≤ r1.length)
    (J : Nat) (xs : List (Img R)) (hx : ∀ x ∈ xs, NonEmptyImg x) :
    DWTForwardM mode J [c0, c1, r0, r1] xs
      = some (xs.map (fun x => (Spec.wavedec2 mode c0 c1 r0 r1 J x).1),
              (List.range J).map fun j => xs.map fun x => (Spec.wavedec2 mode c0 c1 r0 r1 J x).2.getD j []) := by
  simp only [DWTForwardM, wave4, Option.bind_eq_bind, Option.bind_some]
  induction J generalizing xs with
  | zero => simp [DWTForward, Spec.wavedec2]
  | succ J ih =>
    simp only [DWTForward]
    rw [AFB2D_forward_multi mode (modeOK_of mode hm) c0 c1 r0 r1 hc0 hc1 hr0 hr1 xs hx]
    simp only [Option.bind_eq_bind, Option.bind_some]
    have hx' : ∀ y ∈ xs.map (fun x => (Spec.dwt2 mode c0 c1 r0 r1 x).1), NonEmptyImg y := by
      intro y hy
      simp only [List.mem_map] at hy
      obtain ⟨a, ha, rfl⟩ := hy
      simp only [Spec.dwt2]
      exact dwt2_cA_nonempty mode hm c0 r0 hc0 hr0 a (hx a ha)
    rw [ih _ hx']
    simp only [Option.bind_some, Spec.wavedec2, List.map_map, Function.comp_def]
    congr 2
    rw [List.range_succ_eq_map]
    simp [List.map_map, Function.comp_def, Spec.dwt2]

end WV.C01M
