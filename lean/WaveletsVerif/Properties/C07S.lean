/-
  C07 — the stationary transform: linearity, raise-by-shape and slice independence of the whole J-level `SWTForward`,
  in every padding mode it accepts, for every channel count.

  `afb1d_atrous` is "a guard on the length, then a linear map" (`C07D.afb1dAtrousOne_guardedLin`).  The grouped
  convolution on a stack (`genT`: the shape shared by `afb1d` and `afb1d_atrous`) either raises for every stack of a
  shape or applies the same two linear operators to every channel (`genT_total`, `genT_none`); two passes give four fixed
  linear image operators per channel (`gen2d_rep`), and the level loop of `SWTForward` (dilation `2^j`, next level fed
  with band 0) gives one fixed linear image operator per (level, band) (`SWTForward_rep`).  Even filter lengths (every
  wavelet) make every output non-empty (`afb1dAtrousOne_some_pos`).
-/
import WaveletsVerif.Properties.C07L
import WaveletsVerif.Properties.C13M
import WaveletsVerif.Properties.C07D
namespace WV.C07S
open Finset WV WV.C04 WV.C04Q WV.C06 WV.C05D WV.C07 WV.C07D WV.C07M WV.C07L
variable {R : Type} [CommRing R]

/-- the grouped convolution of `afb1d` / `afb1d_atrous` on a stack, for any one-channel operator family `T w` -/
def genT (ax : Axis) (T : List R → List R → Option (List R)) (w0 w1 : List R) (x : List (Img R)) : Option (List (Img R)) :=
  (grouped x.length ((List.replicate x.length [w0, w1]).flatten) x fun w ch => alongO ax (T w) ch).mapM id

theorem afb1dAtrousT_eq (ax : Axis) (mode : Mode) (d : Nat) (w0 w1 : List R) (x : List (Img R)) :
    afb1dAtrousT ax mode d w0 w1 x = genT ax (afb1dAtrousOne mode d) w0 w1 x := rfl

theorem afb1dT_eq (ax : Axis) (mode : Mode) (w0 w1 : List R) (x : List (Img R)) :
    afb1dT ax mode w0 w1 x = genT ax (afb1dOne mode) w0 w1 x := rfl

theorem genT_elem (ax : Axis) (T : List R → List R → Option (List R)) (w0 w1 : List R) (x : List (Img R)) (o : Nat) (ho : o < 2 * x.length) :
    alongO ax (T (((List.replicate x.length [w0, w1]).flatten).getD o default)) (x.getD (o / (2 * x.length / x.length)) default)
      = alongO ax (T (if o % 2 = 0 then w0 else w1)) (x.getD (o/2) []) := by
  have hpos : 0 < x.length := by omega
  have hdiv : 2 * x.length / x.length = 2 := Nat.mul_div_cancel _ hpos
  show alongO ax (T (((List.replicate x.length [w0, w1]).flatten).getD o [])) (x.getD (o / (2 * x.length / x.length)) []) = _
  rw [C07.weights_get w0 w1 x.length o ho, hdiv]

theorem genT_total (ax : Axis) (T : List R → List R → Option (List R)) (w0 w1 : List R) (x : List (Img R)) (g0 g1 : Img R → Img R)
    (h : ∀ c < x.length, alongO ax (T w0) (x.getD c []) = some (g0 (x.getD c [])) ∧
                         alongO ax (T w1) (x.getD c []) = some (g1 (x.getD c []))) :
    genT ax T w0 w1 x
      = some (tab (2 * x.length) fun o => if o % 2 = 0 then g0 (x.getD (o/2) []) else g1 (x.getD (o/2) [])) := by
  unfold genT grouped
  rw [C07.weights_length]
  have e : (tab (2 * x.length) fun o =>
        (fun w ch => alongO ax (T w) ch) (((List.replicate x.length [w0, w1]).flatten).getD o default)
          (x.getD (o / (2 * x.length / x.length)) default))
      = (tab (2 * x.length) fun o => if o % 2 = 0 then g0 (x.getD (o/2) []) else g1 (x.getD (o/2) [])).map some := by
    rw [C07.map_tab]
    apply tab_ext rfl
    intro o ho
    show alongO ax (T _) _ = _
    rw [genT_elem ax T w0 w1 x o ho]
    have hc := h (o/2) (by omega)
    split
    · exact hc.1
    · exact hc.2
  rw [e]
  exact C07.mapM_id_map_some _

omit [CommRing R] in
theorem mapM_id_none {β : Type} : ∀ (l : List (Option β)), none ∈ l → l.mapM id = none
  | [], h => by simp at h
  | a :: l, h => by
    cases a with
    | none => simp
    | some v =>
      have : none ∈ l := by simpa using h
      simp [mapM_id_none l this]

/-- the grouped convolution raises as soon as one of the two one-channel operators raises on some channel -/
theorem genT_none (ax : Axis) (T : List R → List R → Option (List R)) (w0 w1 : List R) (xs : List (Img R)) (c : Nat) (hc : c < xs.length)
    (h : alongO ax (T w0) (xs.getD c []) = none ∨ alongO ax (T w1) (xs.getD c []) = none) :
    genT ax T w0 w1 xs = none := by
  unfold genT grouped
  rw [C07.weights_length]
  apply mapM_id_none
  unfold tab
  rw [List.mem_map]
  rcases h with h | h
  · refine ⟨2*c, by simp; omega, ?_⟩
    show alongO ax (T _) _ = _
    rw [genT_elem ax T w0 w1 xs (2*c) (by omega)]
    have e1 : 2 * c % 2 = 0 := by omega
    have e2 : 2 * c / 2 = c := by omega
    rw [if_pos e1, e2, h]
  · refine ⟨2*c+1, by simp; omega, ?_⟩
    show alongO ax (T _) _ = _
    rw [genT_elem ax T w0 w1 xs (2*c+1) (by omega)]
    have e1 : ¬ ((2 * c + 1) % 2 = 0) := by omega
    have e2 : (2 * c + 1) / 2 = c := by omega
    rw [if_neg e1, e2, h]

/-- outputs of the operator `T w` are never empty -/
def Pos (T : List R → List R → Option (List R)) (w : List R) : Prop := ∀ x y, T w x = some y → 1 ≤ y.length

/-- **two grouped passes (rows, then columns) on a stack of `C ≥ 1` images of one shape**: a refusal decided by the
shape, or four fixed linear image operators; output channel `4c + k` is operator `k` applied to channel `c` -/
theorem gen2d_rep (T : List R → List R → Option (List R)) (hG : ∀ w, GuardedLin (T w)) (wr0 wr1 wc0 wc1 : List R)
    (pr0 : Pos T wr0) (pr1 : Pos T wr1) (pc0 : Pos T wc0) (H W : Nat) (hH : 1 ≤ H) (hW : 1 ≤ W) :
    ∃ (ok : Bool) (K : Nat → Img R → Img R),
      (ok = true → (∃ H' W', 1 ≤ H' ∧ 1 ≤ W' ∧ ImgLin (K 0) H W H' W') ∧ ∀ k < 4, ∃ h w, ImgLin (K k) H W h w) ∧
      ∀ xs : List (Img R), Shape xs H W → 1 ≤ xs.length →
        (genT .W T wr0 wr1 xs).bind (genT .H T wc0 wc1)
          = if ok then some (tab (2 * (2 * xs.length)) fun o => K (o % 4) (xs.getD (o / 4) [])) else none := by
  obtain ⟨gr0, Fr0, lr0, er0⟩ := hG wr0
  obtain ⟨gr1, Fr1, lr1, er1⟩ := hG wr1
  obtain ⟨gc0, Fc0, lc0, ec0⟩ := hG wc0
  obtain ⟨gc1, Fc1, lc1, ec1⟩ := hG wc1
  have pos : ∀ (w : List R) (g : Nat → Bool) (F : List R → List R), Pos T w → (∀ x, T w x = if g x.length then some (F x) else none) →
      ∀ n, g n = true → 1 ≤ outLen F n := by
    intro w g F hp e n hg
    have := e (List.replicate n 0)
    rw [List.length_replicate, if_pos hg] at this
    exact hp _ _ this
  refine ⟨gr0 W && gr1 W && gc0 H && gc1 H,
    fun k x => (if k % 2 = 0 then alongH Fc0 else alongH Fc1) ((if k / 2 = 0 then alongW Fr0 else alongW Fr1) x), ?_, ?_⟩
  · intro hok
    simp only [Bool.and_eq_true] at hok
    obtain ⟨⟨⟨g1, g2⟩, g3⟩, g4⟩ := hok
    have p1 := pos wr0 gr0 Fr0 pr0 er0 W g1
    have p2 := pos wr1 gr1 Fr1 pr1 er1 W g2
    have p3 := pos wc0 gc0 Fc0 pc0 ec0 H g3
    refine ⟨⟨_, _, p3, p1, (imgLin_W lr0 H W).comp (imgLin_H lc0 H _ hH p1)⟩, ?_⟩
    intro k hk
    have : k = 0 ∨ k = 1 ∨ k = 2 ∨ k = 3 := by omega
    rcases this with rfl | rfl | rfl | rfl
    · exact ⟨_, _, (imgLin_W lr0 H W).comp (imgLin_H lc0 H _ hH p1)⟩
    · exact ⟨_, _, (imgLin_W lr0 H W).comp (imgLin_H lc1 H _ hH p1)⟩
    · exact ⟨_, _, (imgLin_W lr1 H W).comp (imgLin_H lc0 H _ hH p2)⟩
    · exact ⟨_, _, (imgLin_W lr1 H W).comp (imgLin_H lc1 H _ hH p2)⟩
  · intro xs hxs hC
    by_cases hrow : gr0 W = true ∧ gr1 W = true
    · obtain ⟨g1, g2⟩ := hrow
      have p1 := pos wr0 gr0 Fr0 pr0 er0 W g1
      have p2 := pos wr1 gr1 Fr1 pr1 er1 W g2
      have erow : ∀ c < xs.length, alongO .W (T wr0) (xs.getD c []) = some (alongW Fr0 (xs.getD c [])) ∧
          alongO .W (T wr1) (xs.getD c []) = some (alongW Fr1 (xs.getD c [])) := by
        intro c hc
        rw [alongWO_guard _ gr0 Fr0 er0 _ H W (hxs c hc) hH, alongWO_guard _ gr1 Fr1 er1 _ H W (hxs c hc) hH, if_pos g1, if_pos g2]
        exact ⟨rfl, rfl⟩
      rw [genT_total .W T wr0 wr1 xs (alongW Fr0) (alongW Fr1) erow]
      simp only [Option.bind_some]
      have hl : (tab (2 * xs.length) fun o => if o % 2 = 0 then alongW Fr0 (xs.getD (o/2) []) else alongW Fr1 (xs.getD (o/2) [])).length
          = 2 * xs.length := by simp
      have hg : ∀ o < 2 * xs.length, (tab (2 * xs.length) fun o => if o % 2 = 0 then alongW Fr0 (xs.getD (o/2) [])
          else alongW Fr1 (xs.getD (o/2) [])).getD o []
          = if o % 2 = 0 then alongW Fr0 (xs.getD (o/2) []) else alongW Fr1 (xs.getD (o/2) []) := by
        intro o ho; rw [getD_tab, if_pos ho]
      have hshape : ∀ o < 2 * xs.length, ∃ w, 1 ≤ w ∧ Rect (if o % 2 = 0 then alongW Fr0 (xs.getD (o/2) []) else alongW Fr1 (xs.getD (o/2) [])) H w := by
        intro o ho
        split
        · exact ⟨_, p1, alongW_lin_rect lr0 _ H W (hxs _ (by omega))⟩
        · exact ⟨_, p2, alongW_lin_rect lr1 _ H W (hxs _ (by omega))⟩
      by_cases hcol : gc0 H = true ∧ gc1 H = true
      · obtain ⟨g3, g4⟩ := hcol
        have hok : (gr0 W && gr1 W && gc0 H && gc1 H) = true := by simp [g1, g2, g3, g4]
        rw [if_pos hok]
        rw [genT_total .H T wc0 wc1 _ (alongH Fc0) (alongH Fc1) (by
          intro o ho
          rw [hl] at ho
          rw [hg o ho]
          obtain ⟨w, hw, hyr⟩ := hshape o ho
          rw [alongHO_guard _ gc0 Fc0 ec0 _ H w hyr hH hw, alongHO_guard _ gc1 Fc1 ec1 _ H w hyr hH hw, if_pos g3, if_pos g4]
          exact ⟨rfl, rfl⟩)]
        rw [hl]
        refine congrArg some ?_
        apply tab_ext rfl; intro o ho
        rw [hg (o/2) (by omega)]
        have e4 : o / 2 / 2 = o / 4 := by omega
        rw [e4]
        have hk : o % 4 = 0 ∨ o % 4 = 1 ∨ o % 4 = 2 ∨ o % 4 = 3 := by omega
        rcases hk with hk | hk | hk | hk
        · rw [if_pos (by omega), if_pos (by omega), hk]; rfl
        · rw [if_neg (by omega), if_pos (by omega), hk]; rfl
        · rw [if_pos (by omega), if_neg (by omega), hk]; rfl
        · rw [if_neg (by omega), if_neg (by omega), hk]; rfl
      · have hok : (gr0 W && gr1 W && gc0 H && gc1 H) = false := by
          rcases Bool.eq_false_or_eq_true (gc0 H) with h | h <;> rcases Bool.eq_false_or_eq_true (gc1 H) with h' | h' <;> simp_all
        rw [hok]
        simp only [Bool.false_eq_true, if_false]
        apply genT_none .H T wc0 wc1 _ 0 (by rw [hl]; omega)
        rw [hg 0 (by omega)]
        obtain ⟨w, hw, hyr⟩ := hshape 0 (by omega)
        rw [alongHO_guard _ gc0 Fc0 ec0 _ H w hyr hH hw, alongHO_guard _ gc1 Fc1 ec1 _ H w hyr hH hw]
        rcases Bool.eq_false_or_eq_true (gc0 H) with h | h
        · rcases Bool.eq_false_or_eq_true (gc1 H) with h' | h'
          · exact absurd ⟨h, h'⟩ hcol
          · right; rw [h']; rfl
        · left; rw [h]; rfl
    · have hok : (gr0 W && gr1 W && gc0 H && gc1 H) = false := by
        rcases Bool.eq_false_or_eq_true (gr0 W) with h | h <;> rcases Bool.eq_false_or_eq_true (gr1 W) with h' | h' <;> simp_all
      rw [hok]
      simp only [Bool.false_eq_true, if_false]
      rw [genT_none .W T wr0 wr1 xs 0 (by omega)]
      · rfl
      · rw [alongWO_guard _ gr0 Fr0 er0 _ H W (hxs 0 (by omega)) hH, alongWO_guard _ gr1 Fr1 er1 _ H W (hxs 0 (by omega)) hH]
        rcases Bool.eq_false_or_eq_true (gr0 W) with h | h
        · rcases Bool.eq_false_or_eq_true (gr1 W) with h' | h'
          · exact absurd ⟨h, h'⟩ hrow
          · right; rw [h']; rfl
        · left; rw [h]; rfl

/-! ### the stationary transform -/

/-- with an even filter length the undecimated filter returns as many samples as it is given -/
theorem afb1dAtrousOne_some_pos (m : Mode) (d : Nat) (w : List R) (hLe : w.length % 2 = 0) : Pos (afb1dAtrousOne m d) w := by
  intro x y h
  by_cases hg : w.length < 2 ∨ x.length < 1 ∨ d < 1 ∨ (w.length * d) / 2 < d
  · simp only [afb1dAtrousOne, hg, if_true] at h
    cases h
  · obtain ⟨k, hk⟩ : ∃ k, w.length = 2 * k := ⟨w.length / 2, by omega⟩
    have e1 : w.length * d = 2 * (k * d) := by rw [hk]; ring
    have e2 : d * (w.length - 1) = 2 * (k * d) - d := by
      rw [Nat.mul_sub, Nat.mul_one, Nat.mul_comm d w.length, e1]
    have hlen : ∀ l r : Nat, l = (w.length * d) / 2 - d → r = (w.length * d) / 2 → 1 ≤ corrLen (l + x.length + r) w.length 1 d := by
      intro l r hl hr
      rw [e1] at hl hr hg
      unfold corrLen
      rw [e2]
      generalize k * d = q at *
      split <;> omega
    cases m with
    | periodic =>
      simp only [afb1dAtrousOne, hg, if_false, Option.some.injEq] at h
      subst h
      rw [corr_length, length_padIdx]
      exact hlen _ _ rfl rfl
    | symmetric =>
      simp only [afb1dAtrousOne, hg, if_false, Option.some.injEq] at h
      subst h
      rw [corr_length, length_padIdx]
      exact hlen _ _ rfl rfl
    | zero =>
      simp only [afb1dAtrousOne, hg, if_false, Option.some.injEq] at h
      subst h
      rw [corr_length, length_zeroPad]
      exact hlen _ _ rfl rfl
    | reflect =>
      simp only [afb1dAtrousOne, hg, if_false] at h
      split at h
      · simp only [Option.some.injEq] at h
        subst h
        rw [corr_length, length_padIdx]
        exact hlen _ _ rfl rfl
      · cases h
    | periodization => simp only [afb1dAtrousOne, hg, if_false] at h; cases h
    | constant => simp only [afb1dAtrousOne, hg, if_false] at h; cases h
    | replicate => simp only [afb1dAtrousOne, hg, if_false] at h; cases h

theorem afb2dAtrous_eq (m : Mode) (d : Nat) (wc0 wc1 wr0 wr1 : List R) (xs : List (Img R)) :
    afb2dAtrous m d wc0 wc1 wr0 wr1 xs
      = (genT .W (afb1dAtrousOne m d) wr0 wr1 xs).bind (genT .H (afb1dAtrousOne m d) wc0 wc1) := rfl

/-- **the J-level `SWTForward` on a stack of `C ≥ 1` images of one shape**: whether it raises is decided by the shape,
and when it returns, channel `c` of band `k` of level `l` is one fixed linear image operator applied to channel `c` -/
theorem SWTForward_rep (mode : Mode) (wc0 wc1 wr0 wr1 : List R) (he : wr0.length % 2 = 0 ∧ wr1.length % 2 = 0 ∧ wc0.length % 2 = 0) :
    ∀ (J j H W : Nat), 1 ≤ H → 1 ≤ W →
    ∃ (ok : Bool) (D : Nat → Nat → Img R → Img R),
      (ok = true → ∀ l < J, ∀ k < 4, ∃ h w, ImgLin (D l k) H W h w) ∧
      ∀ xs : List (Img R), Shape xs H W → 1 ≤ xs.length →
        SWTForward mode wc0 wc1 wr0 wr1 J j xs
          = if ok then some (tab J fun l => tab xs.length fun c =>
                [D l 0 (xs.getD c []), D l 1 (xs.getD c []), D l 2 (xs.getD c []), D l 3 (xs.getD c [])])
            else none := by
  intro J
  induction J with
  | zero =>
    intro j H W _ _
    refine ⟨true, fun _ _ x => x, fun _ l hl => by omega, ?_⟩
    intro xs _ _
    simp only [SWTForward, if_true]
    rfl
  | succ J ih =>
    intro j H W hH hW
    obtain ⟨ok1, K, h1, e1⟩ := gen2d_rep (afb1dAtrousOne (if mode = Mode.periodization then Mode.periodic else mode) (2^j))
      (fun w => afb1dAtrousOne_guardedLin _ _ w) wr0 wr1 wc0 wc1
      (afb1dAtrousOne_some_pos _ _ wr0 he.1) (afb1dAtrousOne_some_pos _ _ wr1 he.2.1) (afb1dAtrousOne_some_pos _ _ wc0 he.2.2) H W hH hW
    cases ok1 with
    | false =>
      refine ⟨false, fun _ _ x => x, ⟨fun h => Bool.noConfusion h, ?_⟩⟩
      intro xs hxs hC
      simp only [SWTForward, afb2dAtrous_eq, e1 xs hxs hC, Bool.false_eq_true, if_false]
      rfl
    | true =>
      obtain ⟨⟨H', W', pH, pW, lK0⟩, lK⟩ := h1 rfl
      obtain ⟨ok2, D2, h2, e2⟩ := ih (j+1) H' W' pH pW
      refine ⟨ok2, fun l k => match l with
          | 0 => K k
          | l+1 => fun x => D2 l k (K 0 x), ?_, ?_⟩
      · intro hok l hl k hk
        cases l with
        | zero => exact lK k hk
        | succ l =>
          obtain ⟨h, w, ll⟩ := h2 hok l (by omega) k hk
          exact ⟨h, w, lK0.comp ll⟩
      · intro xs hxs hC
        have h4 : 2 * (2 * xs.length) / 4 = xs.length := by omega
        have hyr : (tab xs.length fun c =>
            [(tab (2 * (2 * xs.length)) fun o => K (o % 4) (xs.getD (o / 4) [])).getD (4*c) [],
             (tab (2 * (2 * xs.length)) fun o => K (o % 4) (xs.getD (o / 4) [])).getD (4*c+1) [],
             (tab (2 * (2 * xs.length)) fun o => K (o % 4) (xs.getD (o / 4) [])).getD (4*c+2) [],
             (tab (2 * (2 * xs.length)) fun o => K (o % 4) (xs.getD (o / 4) [])).getD (4*c+3) []])
            = tab xs.length fun c => [K 0 (xs.getD c []), K 1 (xs.getD c []), K 2 (xs.getD c []), K 3 (xs.getD c [])] := by
          apply tab_ext rfl
          intro c hc
          have a0 : 4 * c % 4 = 0 := by omega
          have a1 : (4 * c + 1) % 4 = 1 := by omega
          have a2 : (4 * c + 2) % 4 = 2 := by omega
          have a3 : (4 * c + 3) % 4 = 3 := by omega
          have b0 : 4 * c / 4 = c := by omega
          have b1 : (4 * c + 1) / 4 = c := by omega
          have b2 : (4 * c + 2) / 4 = c := by omega
          have b3 : (4 * c + 3) / 4 = c := by omega
          rw [getD_tab, getD_tab, getD_tab, getD_tab, if_pos (by omega), if_pos (by omega), if_pos (by omega), if_pos (by omega),
            a0, a1, a2, a3, b0, b1, b2, b3]
        have hnext : ((tab xs.length fun c => [K 0 (xs.getD c []), K 1 (xs.getD c []), K 2 (xs.getD c []), K 3 (xs.getD c [])]).map
            fun b => b.getD 0 []) = tab xs.length fun c => K 0 (xs.getD c []) := by
          rw [C07.map_tab]; rfl
        have hll : Shape (tab xs.length fun c => K 0 (xs.getD c [])) H' W' := by
          intro c hc
          rw [length_tab] at hc
          rw [getD_tab, if_pos hc]
          exact lK0.rect _ (hxs c hc)
        simp only [SWTForward, afb2dAtrous_eq, e1 xs hxs hC, if_true, Option.bind_eq_bind, Option.bind_some, length_tab, h4]
        rw [hyr, hnext, e2 _ hll (by rw [length_tab]; exact hC)]
        cases ok2 with
        | false => rfl
        | true =>
          simp only [if_true, Option.bind_some, length_tab]
          rw [tab_succ_cons]
          refine congrArg some ?_
          simp only [List.cons.injEq, true_and]
          apply tab_ext rfl
          intro l _
          apply tab_ext rfl
          intro c hc
          simp only [getD_tab, hc, if_true]

/-- `a·u + b·v` on a list of levels of stacks of band lists -/
def hlin (a b : R) (u v : List (List (List (Img R)))) : List (List (List (Img R))) :=
  tab u.length fun j => tab (u.getD j []).length fun c => tab ((u.getD j []).getD c []).length fun k =>
    ilin a b (((u.getD j []).getD c []).getD k []) (((v.getD j []).getD c []).getD k [])

omit [CommRing R] in
theorem tab4 {α : Type} (f : Nat → α) : tab 4 f = [f 0, f 1, f 2, f 3] := rfl

/-- **the J-level stationary transform is linear**, for every J, mode, even-length filters, channel count and image size:
`SWTForward(a·x + b·y) = a·SWTForward(x) + b·SWTForward(y)`, raising iff it raises on `x` (equivalently on `y`) -/
theorem SWTForward_linear (mode : Mode) (wc0 wc1 wr0 wr1 : List R) (he : wr0.length % 2 = 0 ∧ wr1.length % 2 = 0 ∧ wc0.length % 2 = 0)
    (J j : Nat) (a b : R) (xs ys : List (Img R)) (H W : Nat)
    (hx : Shape xs H W) (hy : Shape ys H W) (hlen : ys.length = xs.length) (hC : 1 ≤ xs.length) (hH : 1 ≤ H) (hW : 1 ≤ W) :
    SWTForward mode wc0 wc1 wr0 wr1 J j (slin a b xs ys)
      = (SWTForward mode wc0 wc1 wr0 wr1 J j xs).bind fun u => (SWTForward mode wc0 wc1 wr0 wr1 J j ys).bind fun v =>
          some (hlin a b u v) := by
  obtain ⟨ok, D, hl, e⟩ := SWTForward_rep mode wc0 wc1 wr0 wr1 he J j H W hH hW
  have hsl : (slin a b xs ys).length = xs.length := by simp [slin]
  rw [e _ (slin_shape a b xs ys H W hx) (by rw [hsl]; exact hC), e xs hx hC, e ys hy (by rw [hlen]; exact hC)]
  cases ok with
  | false => rfl
  | true =>
    have lD := hl rfl
    simp only [if_true, Option.bind_some, hsl, hlen]
    refine congrArg some ?_
    simp only [hlin, length_tab]
    apply tab_ext rfl
    intro l hl'
    simp only [getD_tab, hl', if_true, length_tab]
    apply tab_ext rfl
    intro c hc
    simp only [getD_tab, hc, if_true, slin, List.length_cons, List.length_nil]
    rw [tab4]
    obtain ⟨_, _, l0⟩ := lD l hl' 0 (by omega)
    obtain ⟨_, _, l1⟩ := lD l hl' 1 (by omega)
    obtain ⟨_, _, l2⟩ := lD l hl' 2 (by omega)
    obtain ⟨_, _, l3⟩ := lD l hl' 3 (by omega)
    have hxc := hx c hc
    have hyc := hy c (by rw [hlen]; exact hc)
    simp only [List.getD_cons_zero, List.getD_cons_succ]
    rw [l0.lin a b _ _ hxc hyc, l1.lin a b _ _ hxc hyc, l2.lin a b _ _ hxc hyc, l3.lin a b _ _ hxc hyc]

/-- **whether the stationary transform raises depends on the shape of the stack only** -/
theorem SWTForward_raises_by_shape (mode : Mode) (wc0 wc1 wr0 wr1 : List R)
    (he : wr0.length % 2 = 0 ∧ wr1.length % 2 = 0 ∧ wc0.length % 2 = 0) (J j : Nat) (xs ys : List (Img R)) (H W : Nat)
    (hx : Shape xs H W) (hy : Shape ys H W) (hCx : 1 ≤ xs.length) (hCy : 1 ≤ ys.length) (hH : 1 ≤ H) (hW : 1 ≤ W) :
    SWTForward mode wc0 wc1 wr0 wr1 J j xs = none ↔ SWTForward mode wc0 wc1 wr0 wr1 J j ys = none := by
  obtain ⟨ok, D, _, e⟩ := SWTForward_rep mode wc0 wc1 wr0 wr1 he J j H W hH hW
  rw [e xs hx hCx, e ys hy hCy]
  cases ok <;> simp

/-- **slice independence of the stationary transform**: channel `c` of every level depends on channel `c` of the input
only, whatever the other channels hold and however many there are -/
theorem SWTForward_slice (mode : Mode) (wc0 wc1 wr0 wr1 : List R) (he : wr0.length % 2 = 0 ∧ wr1.length % 2 = 0 ∧ wc0.length % 2 = 0)
    (J j : Nat) (xs ys : List (Img R)) (H W : Nat)
    (hx : Shape xs H W) (hy : Shape ys H W) (hH : 1 ≤ H) (hW : 1 ≤ W) (c c' : Nat) (hc : c < xs.length) (hc' : c' < ys.length)
    (hsame : xs.getD c [] = ys.getD c' []) (u v : List (List (List (Img R))))
    (hu : SWTForward mode wc0 wc1 wr0 wr1 J j xs = some u) (hv : SWTForward mode wc0 wc1 wr0 wr1 J j ys = some v) :
    ∀ l < J, (u.getD l []).getD c [] = (v.getD l []).getD c' [] := by
  obtain ⟨ok, D, _, e⟩ := SWTForward_rep mode wc0 wc1 wr0 wr1 he J j H W hH hW
  rw [e xs hx (by omega)] at hu
  rw [e ys hy (by omega)] at hv
  cases ok with
  | false => cases hu
  | true =>
    simp only [if_true, Option.some.injEq] at hu hv
    subst hu; subst hv
    intro l hl
    simp only [getD_tab, hl, hc, hc', if_true, hsame]

/-- the parity hypothesis is satisfiable: the Haar buffers -/
example : ([1, 1] : List Int).length % 2 = 0 ∧ ([1, -1] : List Int).length % 2 = 0 ∧ ([1, 1] : List Int).length % 2 = 0 := by decide

end WV.C07S
