/- GENERATED on every run by harness/translate.py from
   pytorch_wavelets/dtcwt/transform_funcs.py — do not edit. -/
namespace WV.Gen

def get_dimensions5 (o_dim : Int) (ri_dim : Int) : Option (Int × Int × Int × Int) :=
  let o_dim := (o_dim % (6 : Int))
  let ri_dim := (ri_dim % (6 : Int))
  let o_dim : Int :=
    if (ri_dim < o_dim) then
      let o_dim := o_dim - (1 : Int)
      o_dim
    else
      o_dim
  let (h_dim, w_dim) : Int × Int :=
    if (o_dim = (4 : Int)) then
      let h_dim := (2 : Int)
      let w_dim := (3 : Int)
      (h_dim, w_dim)
    else
      let (h_dim, w_dim) : Int × Int :=
        if (o_dim = (3 : Int)) then
          let h_dim := (2 : Int)
          let w_dim := (4 : Int)
          (h_dim, w_dim)
        else
          let h_dim := (3 : Int)
          let w_dim := (4 : Int)
          (h_dim, w_dim)
      (h_dim, w_dim)
  some (o_dim, ri_dim, h_dim, w_dim)

def get_dimensions6 (o_dim : Int) (ri_dim : Int) : Option (Int × Int × Int × Int) :=
  let o_dim := (o_dim % (6 : Int))
  let ri_dim := (ri_dim % (6 : Int))
  let o_dim : Int :=
    if (ri_dim < o_dim) then
      let o_dim := o_dim - (1 : Int)
      o_dim
    else
      o_dim
  let h_dim : Int :=
    if (o_dim ≤ (2 : Int)) then
      let h_dim := (3 : Int)
      h_dim
    else
      let h_dim := (2 : Int)
      h_dim
  let w_dim : Int :=
    if (o_dim ≤ (3 : Int)) then
      let w_dim := (4 : Int)
      w_dim
    else
      let w_dim := (3 : Int)
      w_dim
  let h_dim : Int :=
    if (ri_dim ≤ h_dim) then
      let h_dim := h_dim + (1 : Int)
      h_dim
    else
      h_dim
  let w_dim : Int :=
    if (ri_dim ≤ w_dim) then
      let w_dim := w_dim + (1 : Int)
      w_dim
    else
      w_dim
  some (o_dim, ri_dim, h_dim, w_dim)

end WV.Gen
