/- GENERATED on every run by harness/translate.py from the two copies of
   mode_to_int / int_to_mode (dwt/lowlevel.py, scatternet/lowlevel.py) — do not edit. -/
namespace WV.Gen

def mode_to_int_dwt (mode : String) : Option (Int) :=
  if (mode = "zero") then
    some (0 : Int)
  else
    if (mode = "symmetric") then
      some (1 : Int)
    else
      if ((mode = "per") ∨ (mode = "periodization")) then
        some (2 : Int)
      else
        if (mode = "constant") then
          some (3 : Int)
        else
          if (mode = "reflect") then
            some (4 : Int)
          else
            if (mode = "replicate") then
              some (5 : Int)
            else
              if (mode = "periodic") then
                some (6 : Int)
              else
                none

def int_to_mode_dwt (mode : Int) : Option (String) :=
  if (mode = (0 : Int)) then
    some "zero"
  else
    if (mode = (1 : Int)) then
      some "symmetric"
    else
      if (mode = (2 : Int)) then
        some "periodization"
      else
        if (mode = (3 : Int)) then
          some "constant"
        else
          if (mode = (4 : Int)) then
            some "reflect"
          else
            if (mode = (5 : Int)) then
              some "replicate"
            else
              if (mode = (6 : Int)) then
                some "periodic"
              else
                none

def mode_to_int_scat (mode : String) : Option (Int) :=
  if (mode = "zero") then
    some (0 : Int)
  else
    if (mode = "symmetric") then
      some (1 : Int)
    else
      if ((mode = "per") ∨ (mode = "periodization")) then
        some (2 : Int)
      else
        if (mode = "constant") then
          some (3 : Int)
        else
          if (mode = "reflect") then
            some (4 : Int)
          else
            if (mode = "replicate") then
              some (5 : Int)
            else
              if (mode = "periodic") then
                some (6 : Int)
              else
                none

def int_to_mode_scat (mode : Int) : Option (String) :=
  if (mode = (0 : Int)) then
    some "zero"
  else
    if (mode = (1 : Int)) then
      some "symmetric"
    else
      if (mode = (2 : Int)) then
        some "periodization"
      else
        if (mode = (3 : Int)) then
          some "constant"
        else
          if (mode = (4 : Int)) then
            some "reflect"
          else
            if (mode = (5 : Int)) then
              some "replicate"
            else
              if (mode = (6 : Int)) then
                some "periodic"
              else
                none

end WV.Gen
