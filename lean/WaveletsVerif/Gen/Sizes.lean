/- GENERATED on every run by harness/translate.py from the size arithmetic of
   dwt/lowlevel.py (afb1d, sfb1d), scatternet/layers.py (ScatLayerj2.forward), dtcwt/transform2d.py (DTCWTForward.forward)
   — do not edit. -/
namespace WV.Gen.Sizes

def afb1d_L2 (L : Int) : Int := (L / (2 : Int))
def afb1d_per_odd (N : Int) : Prop := ((N % (2 : Int)) = (1 : Int))
def afb1d_per_shift (L2 : Int) : Int := (-L2)
def afb1d_per_pad_H (L : Int) : Int := (L - (1 : Int))
def afb1d_per_pad_W (L : Int) : Int := (L - (1 : Int))
def afb1d_per_N2 (N : Int) : Int := (N / (2 : Int))
def afb1d_per_fold_width_H (L2 : Int) (N2 : Int) : Int := L2
def afb1d_per_fold_from_H (L2 : Int) (N2 : Int) : Int := N2
def afb1d_per_fold_to_H (L2 : Int) (N2 : Int) : Int := (N2 + L2)
def afb1d_per_crop_H (N2 : Int) : Int := N2
def afb1d_per_fold_width_W (L2 : Int) (N2 : Int) : Int := L2
def afb1d_per_fold_from_W (L2 : Int) (N2 : Int) : Int := N2
def afb1d_per_fold_to_W (L2 : Int) (N2 : Int) : Int := (N2 + L2)
def afb1d_per_crop_W (N2 : Int) : Int := N2
def afb1d_p (outsize : Int) (N : Int) (L : Int) : Int := ((((2 : Int) * (outsize - (1 : Int))) - N) + L)
def afb1d_zero_extra (p : Int) : Prop := ((p % (2 : Int)) = (1 : Int))
def afb1d_zero_pad_H (p : Int) : Int := (p / (2 : Int))
def afb1d_zero_pad_W (p : Int) : Int := (p / (2 : Int))
def afb1d_ext_before_H (p : Int) : Int := (p / (2 : Int))
def afb1d_ext_after_H (p : Int) : Int := ((p + (1 : Int)) / (2 : Int))
def afb1d_ext_before_W (p : Int) : Int := (p / (2 : Int))
def afb1d_ext_after_W (p : Int) : Int := ((p + (1 : Int)) / (2 : Int))
def sfb1d_N (n : Int) : Int := ((2 : Int) * n)
def sfb1d_per_fold_width_H (L : Int) (N : Int) : Int := (L - (2 : Int))
def sfb1d_per_fold_from_H (L : Int) (N : Int) : Int := N
def sfb1d_per_fold_to_H (L : Int) (N : Int) : Int := ((N + L) - (2 : Int))
def sfb1d_per_crop_H (N : Int) : Int := N
def sfb1d_per_fold_width_W (L : Int) (N : Int) : Int := (L - (2 : Int))
def sfb1d_per_fold_from_W (L : Int) (N : Int) : Int := N
def sfb1d_per_fold_to_W (L : Int) (N : Int) : Int := ((N + L) - (2 : Int))
def sfb1d_per_crop_W (N : Int) : Int := N
def sfb1d_per_shift (L : Int) : Int := ((1 : Int) - (L / (2 : Int)))
def sfb1d_pad_H (L : Int) : Int := (L - (2 : Int))
def sfb1d_pad_W (L : Int) : Int := (L - (2 : Int))
def scatj2_rem_rows (r : Int) : Int := (r % (8 : Int))
def scatj2_rem_cols (c : Int) : Int := (c % (8 : Int))
def scatj2_extend (rem : Int) : Prop := (rem ≠ (0 : Int))
def scatj2_rows_after (rem : Int) : Int := (((9 : Int) - rem) / (2 : Int))
def scatj2_rows_before (rem : Int) : Int := (((8 : Int) - rem) / (2 : Int))
def scatj2_cols_after (rem : Int) : Int := (((9 : Int) - rem) / (2 : Int))
def scatj2_cols_before (rem : Int) : Int := (((8 : Int) - rem) / (2 : Int))
def dtcwt_fwd_rows_odd (r : Int) : Prop := ((r % (2 : Int)) ≠ (0 : Int))
def dtcwt_fwd_cols_odd (c : Int) : Prop := ((c % (2 : Int)) ≠ (0 : Int))
def dtcwt_fwd_rows_pad4 (r : Int) : Prop := ((r % (4 : Int)) ≠ (0 : Int))
def dtcwt_fwd_cols_pad4 (c : Int) : Prop := ((c % (4 : Int)) ≠ (0 : Int))
def nonsep_per_odd_rows (Ny : Int) : Prop := ((Ny % (2 : Int)) = (1 : Int))
def nonsep_per_odd_cols (Nx : Int) : Prop := ((Nx % (2 : Int)) = (1 : Int))
def nonsep_per_pad_y (Ly : Int) : Int := (Ly - (1 : Int))
def nonsep_per_pad_x (Lx : Int) : Int := (Lx - (1 : Int))
def nonsep_per_stride_y  : Int := (2 : Int)
def nonsep_per_stride_x  : Int := (2 : Int)
def nonsep_per_shift_y (Ly : Int) : Int := (-(Ly / (2 : Int)))
def nonsep_per_shift_x (Lx : Int) : Int := (-(Lx / (2 : Int)))
def nonsep_per_fold_width_y (Ly : Int) (Ny : Int) : Int := (Ly / (2 : Int))
def nonsep_per_fold_from_y (Ly : Int) (Ny : Int) : Int := (Ny / (2 : Int))
def nonsep_per_fold_to_y (Ly : Int) (Ny : Int) : Int := ((Ny / (2 : Int)) + (Ly / (2 : Int)))
def nonsep_per_fold_width_x (Lx : Int) (Nx : Int) : Int := (Lx / (2 : Int))
def nonsep_per_fold_from_x (Lx : Int) (Nx : Int) : Int := (Nx / (2 : Int))
def nonsep_per_fold_to_x (Lx : Int) (Nx : Int) : Int := ((Nx / (2 : Int)) + (Lx / (2 : Int)))
def nonsep_per_crop_y (Ny : Int) : Int := (Ny / (2 : Int))
def nonsep_per_crop_x (Nx : Int) : Int := (Nx / (2 : Int))
def nonsep_p1 (out1 : Int) (Ny : Int) (Ly : Int) : Int := ((((2 : Int) * (out1 - (1 : Int))) - Ny) + Ly)
def nonsep_p2 (out2 : Int) (Nx : Int) (Lx : Int) : Int := ((((2 : Int) * (out2 - (1 : Int))) - Nx) + Lx)
def nonsep_zero_pad_y (p1 : Int) : Int := (p1 / (2 : Int))
def nonsep_zero_pad_x (p2 : Int) : Int := (p2 / (2 : Int))
def nonsep_ext_before_x (p2 : Int) : Int := (p2 / (2 : Int))
def nonsep_ext_after_x (p2 : Int) : Int := ((p2 + (1 : Int)) / (2 : Int))
def nonsep_ext_before_y (p1 : Int) : Int := (p1 / (2 : Int))
def nonsep_ext_after_y (p1 : Int) : Int := ((p1 + (1 : Int)) / (2 : Int))
def nonsep_syn_fold_width_y (Ly : Int) (Ny : Int) : Int := (Ly - (2 : Int))
def nonsep_syn_fold_from_y (Ly : Int) (Ny : Int) : Int := ((2 : Int) * Ny)
def nonsep_syn_fold_to_y (Ly : Int) (Ny : Int) : Int := ((((2 : Int) * Ny) + Ly) - (2 : Int))
def nonsep_syn_fold_width_x (Lx : Int) (Nx : Int) : Int := (Lx - (2 : Int))
def nonsep_syn_fold_from_x (Lx : Int) (Nx : Int) : Int := ((2 : Int) * Nx)
def nonsep_syn_fold_to_x (Lx : Int) (Nx : Int) : Int := ((((2 : Int) * Nx) + Lx) - (2 : Int))
def nonsep_syn_crop_y (Ny : Int) : Int := ((2 : Int) * Ny)
def nonsep_syn_crop_x (Nx : Int) : Int := ((2 : Int) * Nx)
def nonsep_syn_shift_y (Ly : Int) : Int := ((1 : Int) - (Ly / (2 : Int)))
def nonsep_syn_shift_x (Lx : Int) : Int := ((1 : Int) - (Lx / (2 : Int)))
def nonsep_syn_pad_y (Ly : Int) : Int := (Ly - (2 : Int))
def nonsep_syn_pad_x (Lx : Int) : Int := (Lx - (2 : Int))
def atrous_L2 (L : Int) (dilation : Int) : Int := ((L * dilation) / (2 : Int))
def atrous_before_H (L2 : Int) (dilation : Int) : Int := (L2 - dilation)
def atrous_after_H (L2 : Int) (dilation : Int) : Int := L2
def atrous_before_W (L2 : Int) (dilation : Int) : Int := (L2 - dilation)
def atrous_after_W (L2 : Int) (dilation : Int) : Int := L2

end WV.Gen.Sizes
