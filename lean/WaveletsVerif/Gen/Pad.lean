/- GENERATED on every run by harness/translate.py from pytorch_wavelets/utils.py (reflect, symm_pad_1d)
   — do not edit.  NumPy scalar semantics: WaveletsVerif/Model/NumpyQ.lean. -/
import WaveletsVerif.Model.NumpyQ
namespace WV.Gen
open WV.NumpyQ

def reflect (x minx maxx : ℚ) : Int :=
  let rng : ℚ := (maxx - minx)
  let rng_by_2 : ℚ := ((2 : ℚ) * rng)
  let mod : ℚ := (fmod (x - minx) rng_by_2)
  let normed_mod : ℚ := (if (mod < (0 : ℚ)) then (mod + rng_by_2) else mod)
  let out : ℚ := ((if (normed_mod ≥ rng) then (rng_by_2 - normed_mod) else normed_mod) + minx)
  asInt out

def symm_pad_1d (l m : Int) : List Int :=
  (arange (-m) (l + m)).map fun (x : Int) => reflect (x : ℚ) (-((1 : ℚ) / 2)) ((l : ℚ) - ((1 : ℚ) / 2))

/-- index-vector sites found in the source and checked to be instances of the helpers above -/
def pad_sites : Nat × Nat × Nat := (4, 4, 6)   -- mypad symmetric, mypad periodic (np.pad wrap), dtcwt symm_pad

end WV.Gen
