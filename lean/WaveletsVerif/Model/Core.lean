/-
  Core vocabulary of the executable model.  Mathlib-free.

  A 1-D signal is `List α`, an image `List (List α)` (list of rows), a stack of
  channels `List (Img α)`.  Every constructor is `tab n f`, every read is
  `getZ x i` (0 outside), so each model function is "length formula + element
  formula".
-/
namespace WV

variable {α : Type}

/-- `[f 0, …, f (n-1)]` -/
def tab (n : Nat) (f : Nat → α) : List α := (List.range n).map f

/-- `f 0 + … + f (n-1)` (left fold, starting from 0) -/
def sumN [Add α] [OfNat α 0] : Nat → (Nat → α) → α
  | 0, _ => 0
  | n+1, f => sumN n f + f n

/-- integer-indexed read, zero outside -/
def getZ [OfNat α 0] (x : List α) (i : Int) : α :=
  if 0 ≤ i then x.getD i.toNat 0 else 0

/-- natural-indexed read, zero outside -/
def getN [OfNat α 0] (x : List α) (i : Nat) : α := x.getD i 0

abbrev Img (α : Type) := List (List α)

/-- number of columns of an image (width of its first row) -/
def Img.width (x : Img α) : Nat := (x.headD []).length

/-- pixel read, zero outside -/
def get2 [OfNat α 0] (x : Img α) (i j : Nat) : α := (x.getD i []).getD j 0

def tab2 (h w : Nat) (f : Nat → Nat → α) : Img α := tab h fun i => tab w fun j => f i j

/-- transpose -/
def tr [OfNat α 0] (x : Img α) : Img α := tab2 x.width x.length fun j i => get2 x i j

/-- apply a 1-D operator along the rows (torch dim 3) -/
def alongW (f : List α → List α) (x : Img α) : Img α := x.map f

/-- apply a 1-D operator along the columns (torch dim 2) -/
def alongH [OfNat α 0] (f : List α → List α) (x : Img α) : Img α := tr ((tr x).map f)

/-- pointwise sum of two signals of equal length (length of the first) -/
def vadd [Add α] [OfNat α 0] (x y : List α) : List α := tab x.length fun i => getN x i + getN y i
def iadd [Add α] [OfNat α 0] (x y : Img α) : Img α :=
  tab x.length fun i => vadd (x.getD i []) (y.getD i [])
def vsub [Sub α] [OfNat α 0] (x y : List α) : List α := tab x.length fun i => getN x i - getN y i
def isub [Sub α] [OfNat α 0] (x y : Img α) : Img α :=
  tab x.length fun i => vsub (x.getD i []) (y.getD i [])
def vscale [Mul α] (c : α) (x : List α) : List α := x.map (c * ·)
def iscale [Mul α] (c : α) (x : Img α) : Img α := x.map (vscale c)
def ineg [Neg α] (x : Img α) : Img α := x.map (·.map (- ·))
def izero [OfNat α 0] (h w : Nat) : Img α := tab2 h w fun _ _ => 0

/-! ### Index maps used by the padding helpers -/

/-- half-sample symmetric extension index: `utils.reflect(i, -0.5, n-0.5)` -/
def symIdx (n : Int) (i : Int) : Int :=
  let t := i % (2*n); if t < n then t else 2*n - 1 - t

/-- whole-sample (torch `reflect`) index, valid for `-n < i < 2n-1` -/
def reflIdx (n : Int) (i : Int) : Int :=
  if i < 0 then -i else if n ≤ i then 2*n - 2 - i else i

/-- periodic (`np.pad(..., 'wrap')`) index -/
def perIdx (n : Int) (i : Int) : Int := i % n

/-- whole-sample symmetric extension with period `2n-2` (PyWavelets `reflect`), all `i` -/
def reflIdxP (n : Int) (i : Int) : Int :=
  if n ≤ 1 then 0 else
  let p := 2*n - 2
  let t := i % p; if t < n then t else p - t

/-! ### Python slicing -/

/-- Python's normalisation of a slice bound for a sequence of length `n` -/
def pyBound (n : Nat) (a : Int) : Nat :=
  let b := if a < 0 then a + n else a
  if b < 0 then 0 else if (n : Int) < b then n else b.toNat

/-- `x[a:]` -/
def sliceFrom (x : List α) (a : Int) : List α := x.drop (pyBound x.length a)
/-- `x[:b]` -/
def sliceTo (x : List α) (b : Int) : List α := x.take (pyBound x.length b)
/-- `x[a:b]` -/
def slice (x : List α) (a b : Int) : List α :=
  (x.take (pyBound x.length b)).drop (pyBound x.length a)

/-- every `k`-th element starting at `s`: `x[s::k]` (s ≥ 0) -/
def strided [OfNat α 0] (x : List α) (s k : Nat) : List α :=
  tab ((x.length - s + k - 1) / k) fun i => getN x (s + k*i)

end WV
