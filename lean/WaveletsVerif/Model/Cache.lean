/-
  State-machine model of `dtcwt/coeffs.py`: the process-wide `COEFF_CACHE` and
  `_load_from_file(basename, varnames)`.  A table is a finite map key ↦ value
  (values abstract).  Mathlib-free, executable.
-/
namespace WV.Cache

/-- a table: list of (key, value id) — the value id stands for the stored array -/
abbrev Table := List (String × Nat)

/-- the files on disk -/
abbrev Files := List (String × Table)

def lookup {β : Type} (l : List (String × β)) (k : String) : Option β := (l.find? (·.1 == k)).map (·.2)

/-- result of one `_load_from_file` call -/
inductive Out where
  | ok (vals : List Nat)
  | valueError          -- a requested key is missing: ValueError
  | ioError             -- no such file
  deriving DecidableEq, Repr

/-- the cache: basename ↦ loaded table -/
abbrev State := List (String × Table)

/-- picking the requested keys out of a loaded table -/
def pick (t : Table) (keys : List String) : Out :=
  match keys.mapM (lookup t) with
  | some vs => .ok vs
  | none => .valueError

/-- what a call returns when nothing is cached: a function of the arguments and the files only -/
def specOut (files : Files) (name : String) (keys : List String) : Out :=
  match lookup files name with
  | none => .ioError
  | some t => pick t keys

/-- `_load_from_file(basename, varnames)`: try the cache, else read the file and store it -/
def load (files : Files) (s : State) (name : String) (keys : List String) : State × Out :=
  match lookup s name with
  | some t => (s, pick t keys)
  | none =>
    match lookup files name with
    | none => (s, .ioError)
    | some t => ((name, t) :: s, pick t keys)

/-- run a history of calls, collecting the outputs -/
def run (files : Files) : State → List (String × List String) → State × List Out
  | s, [] => (s, [])
  | s, (n, ks) :: rest =>
    let (s1, o) := load files s n ks
    let (s2, os) := run files s1 rest
    (s2, o :: os)

/-! ### threads: the call split into its atomic steps -/

/-- per-thread program counter of one in-flight call -/
inductive Pc where
  | start                       -- about to look the name up in the cache
  | read                        -- cache missed: about to read the file
  | store (t : Table)           -- file read: about to store into the cache
  | done (o : Out)
  deriving Repr

structure Thread where
  name : String
  keys : List String
  pc : Pc

/-- one atomic step of one thread against the shared cache -/
def tstep (files : Files) (s : State) (th : Thread) : State × Thread :=
  match th.pc with
  | .start =>
    (match lookup s th.name with
     | some t => (s, { th with pc := .done (pick t th.keys) })
     | none => (s, { th with pc := .read }))
  | .read =>
    (match lookup files th.name with
     | none => (s, { th with pc := .done .ioError })
     | some t => (s, { th with pc := .store t }))
  | .store t => ((th.name, t) :: s, { th with pc := .done (pick t th.keys) })
  | .done o => (s, { th with pc := .done o })

/-- a schedule is a list of thread indices; run it -/
def sched (files : Files) : State → List Thread → List Nat → State × List Thread
  | s, ths, [] => (s, ths)
  | s, ths, i :: rest =>
    match ths[i]? with
    | none => sched files s ths rest
    | some th =>
      let (s1, th1) := tstep files s th
      sched files s1 (ths.set i th1) rest

end WV.Cache
