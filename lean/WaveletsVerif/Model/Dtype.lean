/-
  Abstract interpretation of tensor dtypes along every transform path: what dtype each
  tensor-creating site produces and which operations require equal dtypes.  `none` = the call
  raises (dtype mismatch inside a convolution).  Mathlib-free, executable.
-/
namespace WV.Dtype

inductive DT | f32 | f64 deriving DecidableEq, Repr, Inhabited

/-- `F.conv2d` / `F.conv_transpose2d`: input and weight must have the same dtype -/
def conv (x w : DT) : Option DT := if x = w then some x else none

/-- arithmetic between two tensors: type promotion -/
def promote (a b : DT) : DT := if a = .f64 ∨ b = .f64 then .f64 else .f32

/-- the transform paths; `x` input dtype, `buf` dtype of the module's filter buffers,
`dflt` = `torch.get_default_dtype()` at call time -/
inductive Path
  | dwtForward | dwtInverse | dwtInverseNone | dwt1dForward | dwt1dInverseNone | swtForward
  | dtcwtForward | dtcwtForwardSkip | dtcwtInverse | dtcwtInverseAbsent | scat1 | scat2
  deriving DecidableEq, Repr

def pathOfNat : Nat → Option Path
  | 0 => some .dwtForward | 1 => some .dwtInverse | 2 => some .dwtInverseNone | 3 => some .dwt1dForward
  | 4 => some .dwt1dInverseNone | 5 => some .swtForward | 6 => some .dtcwtForward | 7 => some .dtcwtForwardSkip
  | 8 => some .dtcwtInverse | 9 => some .dtcwtInverseAbsent | 10 => some .scat1 | 11 => some .scat2 | _ => none

/-- result dtype of one call -/
def run (p : Path) (x buf _dflt : DT) : Option DT :=
  match p with
  | .dwtForward | .dwt1dForward | .swtForward => do
      let lohi ← conv x buf          -- row pass
      conv lohi buf                  -- column pass / next level
  | .dwtInverse => do
      let lo ← conv x buf
      conv lo buf
  | .dwtInverseNone => do
      -- `torch.zeros(..., device=ll.device, dtype=ll.dtype)`: the stand-in for a None level follows ll
      let zeros := x
      let lo ← conv x buf
      let hi ← conv zeros buf
      conv (promote lo hi) buf
  | .dwt1dInverseNone => do
      let zeros := x                 -- torch.zeros_like(x0)
      let lo ← conv x buf
      let hi ← conv zeros buf
      some (promote lo hi)
  | .dtcwtForward | .dtcwtForwardSkip => do
      let lo ← conv x buf            -- rowfilter / rowdfilt
      let ll ← conv lo buf
      -- q2c divides by a Python float: dtype kept; placeholders are `x.new_zeros([])`: dtype of x
      some ll
  | .dtcwtInverse | .dtcwtInverseAbsent => do
      -- c2q allocates with `w1r.new_zeros`: dtype of the coefficients
      let y ← conv x buf
      conv y buf
  | .scat1 | .scat2 => do
      let lo ← conv x buf
      let ll ← conv lo buf
      -- sqrt(re² + im² + bias²) with a Python float bias, avg_pool2d, cat: dtype kept
      some ll

end WV.Dtype
