/-
  Assumed semantics of the NumPy scalar operations that `utils.reflect` / `utils.symm_pad_1d` use, over exact
  rationals (the half-integers the code computes with are exact in float64).  Trusted base of the translated
  index functions in `Gen/Pad.lean`; NOT used by the executable driver.
-/
import Mathlib.Data.Rat.Floor
namespace WV.NumpyQ

/-- C `trunc` -/
def truncQ (q : ℚ) : Int := if 0 ≤ q then ⌊q⌋ else ⌈q⌉

/-- `np.fmod(a, b)`: remainder with the sign of the dividend, `a − b·trunc(a/b)` -/
def fmod (a b : ℚ) : ℚ := a - b * (truncQ (a / b) : ℚ)

/-- `np.array(out, dtype='int32')` of a float array: conversion truncates toward zero -/
def asInt (q : ℚ) : Int := truncQ q

/-- `np.arange(a, b, dtype='int32')` -/
def arange (a b : Int) : List Int := (List.range (b - a).toNat).map fun (k : Nat) => a + (k : Int)

end WV.NumpyQ
