/-
  Implementation model of `pytorch_wavelets/dtcwt/lowlevel.py`,
  `transform_funcs.py` and `transform2d.py`.  Mathlib-free, executable.

  Filters are the registered *buffers*: `prep_filt(h, 1)` = the table entry
  reversed, as a column.  `s` stands for `1/np.sqrt(2)`.
  What Python raises is `none`.
-/
import WaveletsVerif.Model.Torch
import WaveletsVerif.Model.Dwt
namespace WV

variable {α : Type}

/-- `prep_filt(h, 1)`: reverse -/
def prepFilt (h : List α) : List α := h.reverse

/-- `x[a:b:2]` with Python bound normalisation (step 2) -/
def slice2 [OfNat α 0] (x : List α) (a b : Int) : List α :=
  let lo := pyBound x.length a
  let hi := pyBound x.length b
  tab ((hi - lo + 1) / 2) fun i => getN x (lo + 2*i)

/-- `x[a::2]` -/
def slice2From [OfNat α 0] (x : List α) (a : Int) : List α := slice2 x a x.length

/-- the index vector `symm_pad_1d(l, m)` applied to a signal: `x[xe]`, `xe = reflect(arange(-m, l+m), -0.5, l-0.5)` -/
def symmPad [OfNat α 0] (x : List α) (m : Nat) : List α := padIdx symIdx x m m

/-- one column of `colfilter(X, h, mode)` (`w` = the buffer); `sym = (mode == 'symmetric')` -/
def colfilter1 [Add α] [Mul α] [OfNat α 0] (sym : Bool) (w x : List α) : List α :=
  let m := w.length / 2
  if sym then corr w (symmPad x m) 1 1 else corr w (zeroPad x m m) 1 1

/-- `colfilter` / `rowfilter` on an image -/
def colfilter [Add α] [Mul α] [OfNat α 0] (sym : Bool) (w : List α) (x : Img α) : Img α :=
  alongH (colfilter1 sym w) x
def rowfilter [Add α] [Mul α] [OfNat α 0] (sym : Bool) (w : List α) (x : Img α) : Img α :=
  alongW (colfilter1 sym w) x

/-- interleave two equally long lists: `stack((a, b), dim=-2).view(...)` along the filtered axis -/
def interleave2 [OfNat α 0] (a b : List α) : List α :=
  tab (2 * a.length) fun i => if i % 2 = 0 then getN a (i/2) else getN b (i/2)

/-- one column of `coldfilt(X, ha, hb, highpass)`; `none` unless the length is a multiple of 4 -/
def coldfilt1 [Add α] [Mul α] [OfNat α 0] (ha hb : List α) (highpass : Bool) (x : List α) :
    Option (List α) :=
  if x.length % 4 ≠ 0 ∨ x.length = 0 then none else
  let m := ha.length
  let xe := symmPad x m
  let a := corr ha (slice2From xe 2) 2 1
  let b := corr hb (slice2From xe 3) 2 1
  some (if highpass then interleave2 b a else interleave2 a b)

def coldfilt [Add α] [Mul α] [OfNat α 0] (ha hb : List α) (hp : Bool) (x : Img α) : Option (Img α) :=
  alongHO (coldfilt1 ha hb hp) x
def rowdfilt [Add α] [Mul α] [OfNat α 0] (ha hb : List α) (hp : Bool) (x : Img α) : Option (Img α) :=
  alongWO (coldfilt1 ha hb hp) x

/-- interleave four equally long lists (`stack([..4..], dim=3).view(...)`) -/
def interleave4 [OfNat α 0] (a b c d : List α) : List α :=
  tab (4 * a.length) fun i =>
    match i % 4 with
    | 0 => getN a (i/4) | 1 => getN b (i/4) | 2 => getN c (i/4) | _ => getN d (i/4)

/-- one column of `colifilt(X, ha, hb, highpass)`; `none` for odd length -/
def colifilt1 [Add α] [Mul α] [OfNat α 0] (ha hb : List α) (highpass : Bool) (x : List α) :
    Option (List α) :=
  if x.length % 2 ≠ 0 ∨ x.length = 0 then none else
  let m := ha.length
  let m2 := m / 2
  let hao := slice2From ha 1
  let hae := slice2From ha 0
  let hbo := slice2From hb 1
  let hbe := slice2From hb 0
  let xe := symmPad x m2
  if m2 % 2 = 0 then
    let (x1, x2, x3, x4) :=
      if highpass then (slice2 xe 1 (-2), slice2 xe 0 (-2), slice2From xe 3, slice2From xe 2)
      else (slice2 xe 0 (-2), slice2 xe 1 (-2), slice2From xe 2, slice2From xe 3)
    some (interleave4 (corr hae x1 1 1) (corr hbe x2 1 1) (corr hao x3 1 1) (corr hbo x4 1 1))
  else
    let (x1, x2, x3, x4) :=
      if highpass then (slice2 xe 2 (-1), slice2 xe 1 (-1), slice2 xe 2 (-1), slice2 xe 1 (-1))
      else (slice2 xe 1 (-1), slice2 xe 2 (-1), slice2 xe 1 (-1), slice2 xe 2 (-1))
    some (interleave4 (corr hao x1 1 1) (corr hbo x2 1 1) (corr hae x3 1 1) (corr hbe x4 1 1))

def colifilt [Add α] [Mul α] [OfNat α 0] (ha hb : List α) (hp : Bool) (x : Img α) : Option (Img α) :=
  alongHO (colifilt1 ha hb hp) x
def rowifilt [Add α] [Mul α] [OfNat α 0] (ha hb : List α) (hp : Bool) (x : Img α) : Option (Img α) :=
  alongWO (colifilt1 ha hb hp) x

/-- a complex sub-band: (real image, imaginary image) -/
abbrev Cplx (α : Type) := Img α × Img α

/-- `q2c(y)`: `((a-d, b+c), (a+d, b-c))` of the quads, scaled by `s = 1/√2` -/
def q2c [Add α] [Sub α] [Mul α] [OfNat α 0] (s : α) (y : Img α) : Cplx α × Cplx α :=
  let h := y.length / 2
  let w := y.width / 2
  let a := fun i j => s * get2 y (2*i) (2*j)
  let b := fun i j => s * get2 y (2*i) (2*j+1)
  let c := fun i j => s * get2 y (2*i+1) (2*j)
  let d := fun i j => s * get2 y (2*i+1) (2*j+1)
  ((tab2 h w fun i j => a i j - d i j, tab2 h w fun i j => b i j + c i j),
   (tab2 h w fun i j => a i j + d i j, tab2 h w fun i j => b i j - c i j))

/-- `c2q(w1, w2)` -/
def c2q [Add α] [Sub α] [Neg α] [Mul α] [OfNat α 0] (s : α) (w1 w2 : Cplx α) : Img α :=
  let (w1r, w1i) := w1
  let (w2r, w2i) := w2
  tab2 (2 * w1r.length) (2 * w1r.width) fun i j =>
    let p := i / 2
    let q := j / 2
    s * (if i % 2 = 0 then
          (if j % 2 = 0 then get2 w1r p q + get2 w2r p q else get2 w1i p q + get2 w2i p q)
         else
          (if j % 2 = 0 then get2 w1i p q - get2 w2i p q else -(get2 w1r p q) + get2 w2r p q))

/-- `highs_to_orientations(lh, hl, hh)`: six complex bands in the order 15,45,75,105,135,165 -/
def highsToOrientations [Add α] [Sub α] [Mul α] [OfNat α 0] (s : α) (lh hl hh : Img α) : List (Cplx α) :=
  let (d15, d165) := q2c s lh
  let (d45, d135) := q2c s hh
  let (d75, d105) := q2c s hl
  [d15, d45, d75, d105, d135, d165]

/-- `orientations_to_highs(reals, imags)` ↦ `(lh, hl, hh)` -/
def orientationsToHighs [Add α] [Sub α] [Neg α] [Mul α] [OfNat α 0] (s : α) (o : List (Cplx α)) :
    Img α × Img α × Img α :=
  let g := fun k => o.getD k ([], [])
  (c2q s (g 0) (g 5), c2q s (g 2) (g 3), c2q s (g 1) (g 4))

/-- `fwd_j1(x, h0, h1, skip_hps, o_dim, mode)` for one channel; `none` highs = the empty placeholder -/
def fwdJ1 [Add α] [Sub α] [Mul α] [OfNat α 0] (s : α) (sym : Bool) (h0 h1 : List α) (skip : Bool)
    (x : Img α) : Img α × Option (List (Cplx α)) :=
  if skip then (colfilter sym h0 (rowfilter sym h0 x), none) else
  let lo := rowfilter sym h0 x
  let hi := rowfilter sym h1 x
  (colfilter sym h0 lo,
   some (highsToOrientations s (colfilter sym h1 lo) (colfilter sym h0 hi) (colfilter sym h1 hi)))

/-- `fwd_j1_rot` (band-pass diagonal filter `h2`) -/
def fwdJ1Rot [Add α] [Sub α] [Mul α] [OfNat α 0] (s : α) (sym : Bool) (h0 h1 h2 : List α) (skip : Bool)
    (x : Img α) : Img α × Option (List (Cplx α)) :=
  if skip then (colfilter sym h0 (rowfilter sym h0 x), none) else
  let lo := rowfilter sym h0 x
  let hi := rowfilter sym h1 x
  let ba := rowfilter sym h2 x
  (colfilter sym h0 lo,
   some (highsToOrientations s (colfilter sym h1 lo) (colfilter sym h0 hi) (colfilter sym h2 ba)))

/-- `fwd_j2plus(x, h0a, h1a, h0b, h1b, skip_hps, …)` for one channel -/
def fwdJ2 [Add α] [Sub α] [Mul α] [OfNat α 0] (s : α) (h0a h1a h0b h1b : List α) (skip : Bool)
    (x : Img α) : Option (Img α × Option (List (Cplx α))) := do
  let lo ← rowdfilt h0b h0a false x
  let ll ← coldfilt h0b h0a false lo
  if skip then some (ll, none) else
  let hi ← rowdfilt h1b h1a true x
  let lh ← coldfilt h1b h1a true lo
  let hl ← coldfilt h0b h0a false hi
  let hh ← coldfilt h1b h1a true hi
  some (ll, some (highsToOrientations s lh hl hh))

def fwdJ2Rot [Add α] [Sub α] [Mul α] [OfNat α 0] (s : α) (h0a h1a h0b h1b h2a h2b : List α) (skip : Bool)
    (x : Img α) : Option (Img α × Option (List (Cplx α))) := do
  let lo ← rowdfilt h0b h0a false x
  let ll ← coldfilt h0b h0a false lo
  if skip then some (ll, none) else
  let hi ← rowdfilt h1b h1a true x
  let ba ← rowdfilt h2b h2a true x
  let lh ← coldfilt h1b h1a true lo
  let hl ← coldfilt h0b h0a false hi
  let hh ← coldfilt h2b h2a true ba
  some (ll, some (highsToOrientations s lh hl hh))

/-- `ll[:, :, 1:-1]` / `ll[:, :, :, 1:-1]` when the low-pass is not twice the band size -/
def cropToHighs [OfNat α 0] (ll : Img α) (r1 c1 : Nat) : Img α :=
  let ll1 : Img α := if ll.length ≠ 2 * r1 then slice ll 1 (-1) else ll
  if ll1.width ≠ 2 * c1 then ll1.map (fun r => slice r 1 (-1)) else ll1

/-- size of the first band: what `highr.shape[h_dim], highr.shape[w_dim]` read when the axis
tables are right -/
def bandSize (o : List (Cplx α)) : Nat × Nat := ((o.headD ([], [])).1.length, (o.headD ([], [])).1.width)

/-- `inv_j1(ll, highr, highi, g0, g1, o_dim, h_dim, w_dim, mode)` for one channel; absent inputs are
`none`; `rc = (highr.shape[h_dim], highr.shape[w_dim])`.
(the high-pass-absent branch calls `colfilter`/`rowfilter` with their *default* mode) -/
def invJ1 [Add α] [Sub α] [Neg α] [Mul α] [OfNat α 0] (s : α) (sym : Bool) (g0 g1 : List α)
    (rc : Nat × Nat) (ll : Option (Img α)) (highs : Option (List (Cplx α))) : Option (Img α) :=
  match highs with
  | none => ll.map fun l => rowfilter true g0 (colfilter true g0 l)
  | some o =>
    let (lh, hl, hh) := orientationsToHighs s o
    let hi := iadd (colfilter sym g1 hh) (colfilter sym g0 hl)
    match ll with
    | none => some (iadd (rowfilter sym g1 hi) (rowfilter sym g0 (colfilter sym g1 lh)))
    | some l =>
      let l' := cropToHighs l rc.1 rc.2
      let a := colfilter sym g1 lh
      let b := colfilter sym g0 l'
      if a.length ≠ b.length ∨ a.width ≠ b.width then none else
      some (iadd (rowfilter sym g1 hi) (rowfilter sym g0 (iadd a b)))

def invJ1Rot [Add α] [Sub α] [Neg α] [Mul α] [OfNat α 0] (s : α) (sym : Bool) (g0 g1 g2 : List α)
    (rc : Nat × Nat) (ll : Option (Img α)) (highs : Option (List (Cplx α))) : Option (Img α) :=
  match highs with
  | none => ll.map fun l => rowfilter true g0 (colfilter true g0 l)
  | some o =>
    let (lh, hl, hh) := orientationsToHighs s o
    let hi := colfilter sym g0 hl
    let ba := colfilter sym g2 hh
    match ll with
    | none => some (iadd (iadd (rowfilter sym g1 hi) (rowfilter sym g0 (colfilter sym g1 lh))) (rowfilter sym g2 ba))
    | some l =>
      let l' := cropToHighs l rc.1 rc.2
      let a := colfilter sym g1 lh
      let b := colfilter sym g0 l'
      if a.length ≠ b.length ∨ a.width ≠ b.width then none else
      some (iadd (iadd (rowfilter sym g1 hi) (rowfilter sym g0 (iadd a b))) (rowfilter sym g2 ba))

/-- `inv_j2plus(ll, highr, highi, g0a, g1a, g0b, g1b, …)` for one channel -/
def invJ2 [Add α] [Sub α] [Neg α] [Mul α] [OfNat α 0] (s : α) (g0a g1a g0b g1b : List α)
    (ll : Option (Img α)) (highs : Option (List (Cplx α))) : Option (Img α) :=
  match highs with
  | none => do
    let l ← ll
    let c ← colifilt g0b g0a false l
    rowifilt g0b g0a false c
  | some o => do
    let (lh, hl, hh) := orientationsToHighs s o
    let h1 ← colifilt g1b g1a true hh
    let h2 ← colifilt g0b g0a false hl
    let hi := iadd h1 h2
    let lo1 ← colifilt g1b g1a true lh
    let lo ← (match ll with
      | none => some lo1
      | some l => do
        let c ← colifilt g0b g0a false l
        if c.length ≠ lo1.length ∨ c.width ≠ lo1.width then none else some (iadd lo1 c))
    let y1 ← rowifilt g1b g1a true hi
    let y2 ← rowifilt g0b g0a false lo
    some (iadd y1 y2)

def invJ2Rot [Add α] [Sub α] [Neg α] [Mul α] [OfNat α 0] (s : α) (g0a g1a g0b g1b g2a g2b : List α)
    (ll : Option (Img α)) (highs : Option (List (Cplx α))) : Option (Img α) :=
  match highs with
  | none => do
    let l ← ll
    let c ← colifilt g0b g0a false l
    rowifilt g0b g0a false c
  | some o => do
    let (lh, hl, hh) := orientationsToHighs s o
    let hi ← colifilt g0b g0a false hl
    let ba ← colifilt g2b g2a true hh
    let lo1 ← colifilt g1b g1a true lh
    let lo ← (match ll with
      | none => some lo1
      | some l => do
        let c ← colifilt g0b g0a false l
        if c.length ≠ lo1.length ∨ c.width ≠ lo1.width then none else some (iadd lo1 c))
    let y1 ← rowifilt g1b g1a true hi
    let y2 ← rowifilt g0b g0a false lo
    let y3 ← rowifilt g2b g2a true ba
    some (iadd (iadd y1 y2) y3)

/-! ### Modules (one channel; a `(N,C)` batch is `List.map`: every primitive above acts per channel) -/

/-- repeat the last row / column for odd sizes -/
def extendEven (x : Img α) : Img α :=
  let x1 : Img α := if x.length % 2 ≠ 0 then x ++ sliceFrom x (-1) else x
  if x1.width % 2 ≠ 0 then x1.map (fun r => r ++ sliceFrom r (-1)) else x1

/-- `cat((low[0:1], low, low[-1:]))` when the size is not a multiple of 4 -/
def extendMult4 (x : Img α) : Img α :=
  let x1 : Img α := if x.length % 4 ≠ 0 then slice x 0 1 ++ x ++ sliceFrom x (-1) else x
  if x1.width % 4 ≠ 0 then x1.map (fun r => slice r 0 1 ++ r ++ sliceFrom r (-1)) else x1

structure FwdFilters (α : Type) where
  h0o : List α
  h1o : List α
  h0a : List α
  h0b : List α
  h1a : List α
  h1b : List α

/-- levels 2…J of `DTCWTForward.forward`; `skips`/`incl` are the remaining masks -/
def dtcwtFwdLoop [Add α] [Sub α] [Mul α] [OfNat α 0] (s : α) (f : FwdFilters α) :
    List Bool → List Bool → Img α → Option (Img α × List (Option (List (Cplx α))) × List (Option (Img α)))
  | [], _, low => some (low, [], [])
  | sk :: sks, incl, low => do
    let (low', h) ← fwdJ2 s f.h0a f.h1a f.h0b f.h1b sk (extendMult4 low)
    let (lowF, hs, scs) ← dtcwtFwdLoop s f sks (incl.drop 1) low'
    some (lowF, h :: hs, (if incl.headD false then some low' else none) :: scs)

/-- `DTCWTForward(biort, qshift, J, skip_hps, include_scale, mode).forward` for one channel
(`J = skips.length ≥ 1`): final low-pass, per-level high-passes (`none` = skipped placeholder),
per-level scales (`none` = not requested) -/
def DTCWTForward [Add α] [Sub α] [Mul α] [OfNat α 0] (s : α) (sym : Bool) (f : FwdFilters α)
    (skips incl : List Bool) (x : Img α) :
    Option (Img α × List (Option (List (Cplx α))) × List (Option (Img α))) :=
  match skips with
  | [] => none
  | sk :: sks =>
    let (low, h) := fwdJ1 s sym f.h0o f.h1o sk (extendEven x)
    do
      let (lowF, hs, scs) ← dtcwtFwdLoop s f sks (incl.drop 1) low
      some (lowF, h :: hs, (if incl.headD false then some low else none) :: scs)

structure InvFilters (α : Type) where
  g0o : List α
  g1o : List α
  g0a : List α
  g0b : List α
  g1a : List α
  g1b : List α

/-- one step (one level ≥ 2) of the coarse-to-fine loop of `DTCWTInverse.forward`: `hz = (band-pass or none, the
band size the module reads from its shape)`; `none` low-pass = nothing at this scale or coarser ones so far -/
def dtcwtInvStep [Add α] [Sub α] [Neg α] [Mul α] [OfNat α 0] (s : α) (f : InvFilters α)
    (low : Option (Img α)) (hz : Option (List (Cplx α)) × (Nat × Nat)) : Option (Option (Img α)) :=
  match hz.1, low with
  | some o, some l => do
    let l' := cropToHighs l hz.2.1 hz.2.2
    let y ← invJ2 s f.g0a f.g1a f.g0b f.g1b (some l') (some o)
    some (some y)
  | some o, none => do
    let y ← invJ2 s f.g0a f.g1a f.g0b f.g1b none (some o)
    some (some y)
  | none, some l => do
    let y ← invJ2 s f.g0a f.g1a f.g0b f.g1b (some l) none
    some (some y)
  | none, none => some none      -- `continue`

/-- `DTCWTInverse.forward((low, highs))` for one channel: coarse-to-fine loop with the size
fix-ups; `highs` finest first, `none` = absent (None, empty tensor or 0-d placeholder, all
normalised to None by the module); `sizes6[j]` is what the module reads as
`(s.shape[h_dim], s.shape[w_dim])` with `get_dimensions6`, `size5` what `inv_j1` reads with
`get_dimensions5` -/
def DTCWTInverse [Add α] [Sub α] [Neg α] [Mul α] [OfNat α 0] (s : α) (sym : Bool) (f : InvFilters α)
    (sizes6 : List (Nat × Nat)) (size5 : Nat × Nat)
    (low : Option (Img α)) (highs : List (Option (List (Cplx α)))) : Option (Img α) :=
  if low.isNone ∧ highs.all (·.isNone) then none else   -- nothing to reconstruct from: ValueError
  match highs, sizes6 with
  | h0 :: rest, sz0 :: szs => do
    let lowJ ← (rest.zip szs).reverse.foldlM (dtcwtInvStep s f) low
    match h0, lowJ with
    | some o, some l =>
      let l' := cropToHighs l sz0.1 sz0.2
      invJ1 s sym f.g0o f.g1o size5 (some l') (some o)
    | some o, none => invJ1 s sym f.g0o f.g1o size5 none (some o)
    | none, l => invJ1 s sym f.g0o f.g1o size5 l none
  | _, _ => none

end WV

namespace WV
/-! ### Axis layout of the band-pass tensors -/

inductive Ax | N | C | H | W | O | RI deriving DecidableEq, Repr, Inhabited

def insertAt (l : List Ax) (i : Nat) (a : Ax) : List Ax := l.take i ++ a :: l.drop i

/-- `torch.stack(six bands, dim=o5)` on `(N,C,H,W)` then `torch.stack((re, im), dim=ri)` -/
def layoutOf (o5 ri : Nat) : List Ax := insertAt (insertAt [.N, .C, .H, .W] o5 .O) ri .RI

/-- canonical axis order of the model's band-pass tensors: `(N, C, 6, H, W, 2)` -/
def Ax.canon : Ax → Nat
  | .N => 0 | .C => 1 | .O => 2 | .H => 3 | .W => 4 | .RI => 5

end WV

namespace WV
variable {α : Type}

/-! ### Backward passes of the four autograd Functions (one channel) -/

/-- `FWD_J1.backward(dl, dh)`: the level-1 *inverse* run with the analysis filters;
`dh = none` is the 0-d placeholder of a skipped level -/
def FWD_J1_backward [Add α] [Sub α] [Neg α] [Mul α] [OfNat α 0] (s : α) (sym : Bool) (h0 h1 : List α)
    (rc : Nat × Nat) (dl : Img α) (dh : Option (List (Cplx α))) : Option (Img α) :=
  invJ1 s sym h0 h1 rc (some dl) dh

/-- `FWD_J2PLUS.backward`: `inv_j2plus` with the two trees exchanged
(`h0a, h0b = h0b, h0a; h1a, h1b = h1b, h1a`) -/
def FWD_J2PLUS_backward [Add α] [Sub α] [Neg α] [Mul α] [OfNat α 0] (s : α) (h0a h1a h0b h1b : List α)
    (dl : Img α) (dh : Option (List (Cplx α))) : Option (Img α) :=
  invJ2 s h0b h1b h0a h1a (some dl) dh

/-- `INV_J1.backward(dy)` for the `needs_input_grad` pair `(nl, nh)`: the level-1 *forward*
run with the synthesis filters -/
def INV_J1_backward [Add α] [Sub α] [Mul α] [OfNat α 0] (s : α) (sym : Bool) (g0 g1 : List α)
    (nl nh : Bool) (dy : Img α) : Option (Img α) × Option (List (Cplx α)) :=
  if nl ∧ ¬ nh then ((fwdJ1 s sym g0 g1 true dy).1, none)
  else if nh then
    let r := fwdJ1 s sym g0 g1 false dy
    (if nl then some r.1 else none, r.2)
  else (none, none)

/-- `INV_J2PLUS.backward(dy)`: `fwd_j2plus` with the two trees exchanged -/
def INV_J2PLUS_backward [Add α] [Sub α] [Mul α] [OfNat α 0] (s : α) (g0a g1a g0b g1b : List α)
    (nl nh : Bool) (dy : Img α) : Option (Option (Img α) × Option (List (Cplx α))) :=
  if nl ∧ ¬ nh then do
    let r ← fwdJ2 s g0b g1b g0a g1a true dy
    some (some r.1, none)
  else if nh then do
    let r ← fwdJ2 s g0b g1b g0a g1a false dy
    some (if nl then some r.1 else none, r.2)
  else some (none, none)

end WV
