/-
  Implementation model of `pytorch_wavelets/scatternet/lowlevel.py` and `layers.py`.
  Mathlib-free, executable (run at `Float`).  `sq` stands for `torch.sqrt`, `dv` for
  tensor division, `s` for `1/np.sqrt(2)`, `q` for `1/4`, `b` is the magnitude bias.

  A batch item is a stack of `C` channel images; outputs are stacks of channel images in
  the order the modules return after their final `view`.
-/
import WaveletsVerif.Model.Dtcwt
namespace WV

variable {α : Type}

/-- arithmetic the scattering layers need beyond the ring operations -/
structure MagOps (α : Type) where
  sq : α → α          -- sqrt
  dv : α → α → α      -- division
  s : α               -- 1/sqrt 2
  q : α               -- 1/4
  b : α               -- magnitude bias

def imap2 [OfNat α 0] (f : α → α → α) (x y : Img α) : Img α :=
  tab2 x.length x.width fun i j => f (get2 x i j) (get2 y i j)

/-- `sqrt(re² + im² + b²)` pointwise -/
def magR [Add α] [Mul α] [OfNat α 0] (m : MagOps α) (c : Cplx α) : Img α :=
  imap2 (fun re im => m.sq (re*re + im*im + m.b*m.b)) c.1 c.2

/-- `sqrt(Σ_{c<3} re_c² + im_c² + b²)` pointwise over three colour channels -/
def magR3 [Add α] [Mul α] [OfNat α 0] (m : MagOps α) (c0 c1 c2 : Cplx α) : Img α :=
  tab2 c0.1.length c0.1.width fun i j =>
    m.sq (get2 c0.1 i j * get2 c0.1 i j + get2 c0.2 i j * get2 c0.2 i j +
          get2 c1.1 i j * get2 c1.1 i j + get2 c1.2 i j * get2 c1.2 i j +
          get2 c2.1 i j * get2 c2.1 i j + get2 c2.2 i j * get2 c2.2 i j + m.b*m.b)

def subBias [Sub α] (m : MagOps α) (x : Img α) : Img α := x.map (·.map (· - m.b))

/-- one level-1 analysis of a channel with or without the band-pass diagonal filter `h2` -/
def fwd1 [Add α] [Sub α] [Mul α] [OfNat α 0] (m : MagOps α) (sym : Bool) (h0 h1 : List α) (h2 : Option (List α))
    (x : Img α) : Img α × List (Cplx α) :=
  let r := match h2 with
    | none => fwdJ1 m.s sym h0 h1 false x
    | some h => fwdJ1Rot m.s sym h0 h1 h false x
  (r.1, r.2.getD [])

def fwd2 [Add α] [Sub α] [Mul α] [OfNat α 0] (m : MagOps α) (h0a h1a h0b h1b : List α)
    (h2 : Option (List α × List α)) (x : Img α) : Option (Img α × List (Cplx α)) := do
  let r ← (match h2 with
    | none => fwdJ2 m.s h0a h1a h0b h1b false x
    | some (h2a, h2b) => fwdJ2Rot m.s h0a h1a h0b h1b h2a h2b false x)
  some (r.1, r.2.getD [])

/-- `ScatLayerj1(_rot)_f.forward` followed by the module's `view(b, 7c, h, w)`: channels
`[ll_0 … ll_{C-1} | band 0 of ch 0 … ch C-1 | … | band 5 …]` (band-major), or with
`combine_colour` `[ll_0, ll_1, ll_2 | six joint magnitudes]`.  `none` for odd sizes (the
Function asserts even sizes; the module extends first). -/
def scatJ1 [Add α] [Sub α] [Mul α] [OfNat α 0] (m : MagOps α) (sym : Bool) (h0 h1 : List α) (h2 : Option (List α))
    (colour : Bool) (x : List (Img α)) : Option (List (Img α)) :=
  if x.any (fun im => im.length % 2 ≠ 0 ∨ im.width % 2 ≠ 0) then none else
  let r := x.map (fwd1 m sym h0 h1 h2)
  let lls := r.map fun p => avgPool2 m.q p.1
  if colour then
    if x.length ≠ 3 then none else
    let g := fun c o => ((r.getD c ([], [])).2).getD o ([], [])
    some (lls ++ (List.range 6).map fun o => subBias m (magR3 m (g 0 o) (g 1 o) (g 2 o)))
  else
    some (lls ++ ((List.range 6).map fun o => r.map fun p => subBias m (magR m (p.2.getD o ([], [])))).flatten)

/-- the module's edge extension for odd sizes -/
def ScatLayer [Add α] [Sub α] [Mul α] [OfNat α 0] (m : MagOps α) (sym : Bool) (h0 h1 : List α) (h2 : Option (List α))
    (colour : Bool) (x : List (Img α)) : Option (List (Img α)) :=
  scatJ1 m sym h0 h1 h2 colour (x.map extendEven)

/-- `x = cat((x[:before], x, x[-after:]))` with `before = (8-rem)//2`, `after = (9-rem)//2` -/
def pad8 (x : List α) : List α :=
  let rem := x.length % 8
  if rem = 0 then x else sliceTo x (((8 - rem) / 2 : Nat) : Int) ++ x ++ sliceFrom x (-(((9 - rem) / 2 : Nat) : Int))

def pad8Img (x : Img α) : Img α := (pad8 x).map pad8

structure Scat2Filters (α : Type) where
  h0o : List α
  h1o : List α
  h2o : Option (List α)
  h0a : List α
  h0b : List α
  h1a : List α
  h1b : List α
  h2ab : Option (List α × List α)

/-- `ScatLayerj2(_rot)_f.forward` + the module's `view(b, 49c, h, w)`; `none` unless both sizes are
multiples of 8 -/
def scatJ2 [Add α] [Sub α] [Mul α] [OfNat α 0] (m : MagOps α) (sym : Bool) (f : Scat2Filters α)
    (colour : Bool) (x : List (Img α)) : Option (List (Img α)) :=
  if x.any (fun im => im.length % 8 ≠ 0 ∨ im.width % 8 ≠ 0) then none else
  -- the scattering Functions hand `mode` to `fwd_j2plus`; `coldfilt` only implements 'symmetric'
  if !sym then none else
  let r1 := x.map (fwd1 m sym f.h0o f.h1o f.h2o)               -- (s0, six bands) per channel
  if colour then
    if x.length ≠ 3 then none else do
    let g1 := fun c o => ((r1.getD c ([], [])).2).getD o ([], [])
    let s1j1 := (List.range 6).map fun o => subBias m (magR3 m (g1 0 o) (g1 1 o) (g1 2 o))     -- 6 images
    let r2 ← r1.mapM fun p => fwd2 m f.h0a f.h1a f.h0b f.h1b f.h2ab p.1
    let g2 := fun c o => ((r2.getD c ([], [])).2).getD o ([], [])
    let s1j2 := (List.range 6).map fun o => subBias m (magR3 m (g2 0 o) (g2 1 o) (g2 2 o))
    let s0 := r2.map fun p => avgPool2 m.q p.1
    let r3 := s1j1.map (fwd1 m sym f.h0o f.h1o f.h2o)           -- per first-order orientation o1
    -- s2_j1.view(N, 36, h, w): index o2*6 + o1
    let s2 := ((List.range 6).map fun o2 => r3.map fun p => subBias m (magR m (p.2.getD o2 ([], [])))).flatten
    let s1p := r3.map fun p => avgPool2 m.q p.1
    some (s0 ++ s1p ++ s1j2 ++ s2)
  else do
    let C := x.length
    -- s1_j1.view(N, 6C, h, w): channel o*C + c
    let s1j1 := ((List.range 6).map fun o => r1.map fun p => subBias m (magR m (p.2.getD o ([], [])))).flatten
    let r2 ← r1.mapM fun p => fwd2 m f.h0a f.h1a f.h0b f.h1b f.h2ab p.1
    let s1j2 := ((List.range 6).map fun o => r2.map fun p => subBias m (magR m (p.2.getD o ([], [])))).flatten
    let s0 := r2.map fun p => avgPool2 m.q p.1
    let r3 := s1j1.map (fwd1 m sym f.h0o f.h1o f.h2o)           -- 6C channels, index o1*C + c
    -- s2_j1 (N, 6, 6C, h, w).view(N, 36, C, h, w): band o2*6 + o1, channel c; then view(b, 49c, h, w)
    let s2 := ((List.range 6).map fun o2 => r3.map fun p => subBias m (magR m (p.2.getD o2 ([], [])))).flatten
    let s1p := r3.map fun p => avgPool2 m.q p.1
    let _ := C
    some (s0 ++ s1p ++ s1j2 ++ s2)

def ScatLayerj2 [Add α] [Sub α] [Mul α] [OfNat α 0] (m : MagOps α) (sym : Bool) (f : Scat2Filters α)
    (colour : Bool) (x : List (Img α)) : Option (List (Img α)) :=
  scatJ2 m sym f colour (x.map pad8Img)

/-! ### backward of the first-order layer -/

/-- `ScatLayerj1(_rot)_f.backward(dZ)` (not colour): `dZ` given as the `7C` channel stack -/
def scatJ1Backward [Add α] [Sub α] [Neg α] [Mul α] [OfNat α 0] (m : MagOps α) (sym : Bool) (h0 h1 : List α)
    (h2 : Option (List α)) (x dZ : List (Img α)) : Option (List (Img α)) :=
  let C := x.length
  let r := x.map (fwd1 m sym h0 h1 h2)
  (List.range C).mapM fun c =>
    let bands := (r.getD c ([], [])).2
    let ll := iscale m.q (nearestUp2 (dZ.getD c []))
    let hs : List (Cplx α) := (List.range 6).map fun o =>
      let cz := bands.getD o ([], [])
      let rr := magR m cz
      let dr := dZ.getD (C * (o + 1) + c) []
      (imap2 (fun d t => d * t) dr (imap2 m.dv cz.1 rr), imap2 (fun d t => d * t) dr (imap2 m.dv cz.2 rr))
    let rc := bandSize hs
    match h2 with
    | none => invJ1 m.s sym h0 h1 rc (some ll) (some hs)
    | some g2 => invJ1Rot m.s sym h0 h1 g2 rc (some ll) (some hs)

/-! ### backward of the second-order layer -/

/-- the cotangent of the six complex bands of one analysis: `(d · re/r, d · im/r)` with `r = sq(re² + im² + b²)`
(the factors `dsdx`, `dsdy` the Function saves) -/
def bandCot [Add α] [Mul α] [OfNat α 0] (m : MagOps α) (bands : List (Cplx α)) (d : Nat → Img α) : List (Cplx α) :=
  (List.range 6).map fun o =>
    let cz := bands.getD o ([], [])
    let rr := magR m cz
    (imap2 (fun d t => d * t) (d o) (imap2 m.dv cz.1 rr), imap2 (fun d t => d * t) (d o) (imap2 m.dv cz.2 rr))

def inv1 [Add α] [Sub α] [Neg α] [Mul α] [OfNat α 0] (m : MagOps α) (sym : Bool) (h0 h1 : List α) (h2 : Option (List α))
    (ll : Img α) (hs : List (Cplx α)) : Option (Img α) :=
  match h2 with
  | none => invJ1 m.s sym h0 h1 (bandSize hs) (some ll) (some hs)
  | some g2 => invJ1Rot m.s sym h0 h1 g2 (bandSize hs) (some ll) (some hs)

/-- `inv_j2plus(_rot)` with the two trees exchanged, as the backward passes call it -/
def inv2 [Add α] [Sub α] [Neg α] [Mul α] [OfNat α 0] (m : MagOps α) (h0a h1a h0b h1b : List α)
    (h2 : Option (List α × List α)) (ll : Img α) (hs : List (Cplx α)) : Option (Img α) :=
  match h2 with
  | none => invJ2 m.s h0b h1b h0a h1a (some ll) (some hs)
  | some (h2a, h2b) => invJ2Rot m.s h0b h1b h0a h1a h2b h2a (some ll) (some hs)

/-- `ScatLayerj2(_rot)_f.backward(dZ)` (not colour) on a stack of `C` images whose sides are multiples of 8; `dZ` given as
the `49C` channel stack of the module (`s0 | pooled first-order low-passes | first-order scale 2 | second order`) -/
def scatJ2Backward [Add α] [Sub α] [Neg α] [Mul α] [OfNat α 0] (m : MagOps α) (f : Scat2Filters α)
    (x dZ : List (Img α)) : Option (List (Img α)) := do
  let C := x.length
  let r1 := x.map (fwd1 m true f.h0o f.h1o f.h2o)
  let s1j1 := ((List.range 6).map fun o => r1.map fun p => subBias m (magR m (p.2.getD o ([], [])))).flatten
  let r2 ← r1.mapM fun p => fwd2 m f.h0a f.h1a f.h0b f.h1b f.h2ab p.1
  let r3 := s1j1.map (fwd1 m true f.h0o f.h1o f.h2o)
  -- second order back to the first-order magnitudes (6C channels, index o1*C + c)
  let dm1 ← (List.range (6*C)).mapM fun k =>
    inv1 m true f.h0o f.h1o f.h2o (iscale m.q (nearestUp2 (dZ.getD (C + k) [])))
      (bandCot m (r3.getD k ([], [])).2 fun o2 => dZ.getD (13*C + o2*(6*C) + k) [])
  -- scale 2 back to the level-1 low-pass
  let ds0 ← (List.range C).mapM fun c =>
    inv2 m f.h0a f.h1a f.h0b f.h1b f.h2ab (iscale m.q (nearestUp2 (dZ.getD c [])))
      (bandCot m (r2.getD c ([], [])).2 fun o => dZ.getD (7*C + o*C + c) [])
  -- level 1 back to the image
  (List.range C).mapM fun c =>
    inv1 m true f.h0o f.h1o f.h2o (ds0.getD c [])
      (bandCot m (r1.getD c ([], [])).2 fun o => dm1.getD (o*C + c) [])

end WV
