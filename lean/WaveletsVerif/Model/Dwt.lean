/-
  Implementation model of `pytorch_wavelets/dwt/lowlevel.py`, `transform1d.py`,
  `transform2d.py`.  Follows the Python construct by construct; what Python
  raises is `none`.  Mathlib-free, executable.

  Filters: the `w…` arguments of the analysis functions are the *buffers* the
  modules register, i.e. the wavelet's `dec_*` filters already reversed by
  `prep_filt_afb1d`; synthesis functions take `g…` as given (`prep_filt_sfb1d`
  does not reverse).
-/
import WaveletsVerif.Model.Torch
namespace WV

variable {α : Type}

/-- the padding modes known to `mode_to_int` (both copies) -/
inductive Mode | zero | symmetric | periodization | constant | reflect | replicate | periodic
  deriving DecidableEq, Repr, Inhabited

/-- `pywt.dwt_coeff_len(N, L, mode)` for the non-periodization modes -/
def dwtCoeffLen (N L : Nat) : Nat := (N + L - 1) / 2

/-- `roll(x, n, dim)` of dwt/lowlevel.py with `make_even=False`, with Python's slice semantics -/
def rollPy (x : List α) (n : Int) : List α :=
  let n' := if n < 0 then (x.length : Int) + n else n
  sliceFrom x (-n') ++ sliceTo x (-n')

/-- `y[:a] = y[:a] + y[b:b+a]` (right-hand side evaluated first) -/
def foldAdd [Add α] [OfNat α 0] (y : List α) (a b : Nat) : List α :=
  tab y.length fun k => if k < a then getN y k + getN y (b + k) else getN y k

/-- one output channel of `afb1d`: padding + stride-2 correlation with buffer `w` -/
def afb1dOne [Add α] [Mul α] [OfNat α 0] (mode : Mode) (w x : List α) : Option (List α) :=
  let N := x.length
  let L := w.length
  let L2 := L / 2
  if L < 2 ∨ N < 1 then none else
  match mode with
  | .periodization =>
    let x1 := if N % 2 = 1 then x ++ sliceFrom x (-1) else x
    let N1 := x1.length
    let x2 := rollPy x1 (-(L2 : Int))
    let lohi := corr w (zeroPad x2 (L-1) (L-1)) 2 1
    let N2 := N1 / 2
    some ((foldAdd lohi L2 N2).take N2)
  | .zero =>
    let p := 2 * (dwtCoeffLen N L - 1) + L - N
    let x1 := if p % 2 = 1 then zeroPad x 0 1 else x
    some (corr w (zeroPad x1 (p/2) (p/2)) 2 1)
  | .symmetric =>
    let p := 2 * (dwtCoeffLen N L - 1) + L - N
    some (corr w (padIdx symIdx x (p/2) ((p+1)/2)) 2 1)
  | .periodic =>
    let p := 2 * (dwtCoeffLen N L - 1) + L - N
    some (corr w (padIdx perIdx x (p/2) ((p+1)/2)) 2 1)
  | .reflect =>
    let p := 2 * (dwtCoeffLen N L - 1) + L - N
    if p/2 < N ∧ (p+1)/2 < N then some (corr w (padIdx reflIdx x (p/2) ((p+1)/2)) 2 1) else none
  | _ => none

/-- one channel of `afb1d_atrous(x, h0, h1, mode, dim, dilation)` for one filter -/
def afb1dAtrousOne [Add α] [Mul α] [OfNat α 0] (mode : Mode) (d : Nat) (w x : List α) :
    Option (List α) :=
  let L := w.length
  let L2 := (L * d) / 2
  if L < 2 ∨ x.length < 1 ∨ d < 1 ∨ L2 < d then none else
  match mode with
  | .periodic => some (corr w (padIdx perIdx x (L2 - d) L2) 1 d)
  | .symmetric => some (corr w (padIdx symIdx x (L2 - d) L2) 1 d)
  | .zero => some (corr w (zeroPad x (L2 - d) L2) 1 d)
  | .reflect =>
    if L2 - d < x.length ∧ L2 < x.length then some (corr w (padIdx reflIdx x (L2 - d) L2) 1 d) else none
  | _ => none

/-- one channel of `sfb1d(lo, hi, g0, g1, mode, dim)` -/
def sfb1dCh [Add α] [Mul α] [OfNat α 0] (mode : Mode) (g0 g1 lo hi : List α) : Option (List α) :=
  let L := g0.length
  let n := lo.length
  if L < 2 ∨ g1.length ≠ L ∨ n < 1 ∨ hi.length ≠ n then none else
  match mode with
  | .periodization =>
    let N := 2 * n
    let y := vadd (convTFull g0 lo) (convTFull g1 hi)
    let y1 := (foldAdd y (L-2) N).take N
    some (rollPy y1 (1 - ((L/2 : Nat) : Int)))
  | .zero | .symmetric | .reflect | .periodic =>
    if 2*(n-1) + L < 2*(L-2) + 1 then none else
    some (vadd (convT g0 lo (L-2)) (convT g1 hi (L-2)))
  | _ => none

/-! ### Lifting to images and channel stacks -/

def alongWO (f : List α → Option (List α)) (x : Img α) : Option (Img α) := x.mapM f
def alongHO [OfNat α 0] (f : List α → Option (List α)) (x : Img α) : Option (Img α) :=
  ((tr x).mapM f).map tr

/-- filtering axis: torch `dim` 2 (rows index, vertical) or 3 (horizontal) -/
inductive Axis | H | W deriving DecidableEq, Repr

def alongO [OfNat α 0] (ax : Axis) (f : List α → Option (List α)) (x : Img α) : Option (Img α) :=
  match ax with
  | .W => alongWO f x
  | .H => alongHO f x

/-- `afb1d(x, h0, h1, mode, dim)` on a `(C,H,W)` stack: weight `cat([h0,h1]*C)`, `groups=C`;
output channel `2c+b`. -/
def afb1dT [Add α] [Mul α] [OfNat α 0] (ax : Axis) (mode : Mode) (w0 w1 : List α)
    (x : List (Img α)) : Option (List (Img α)) :=
  let C := x.length
  let ws := (List.replicate C [w0, w1]).flatten
  (grouped C ws x fun w ch => alongO ax (afb1dOne mode w) ch).mapM id

def afb1dAtrousT [Add α] [Mul α] [OfNat α 0] (ax : Axis) (mode : Mode) (d : Nat) (w0 w1 : List α)
    (x : List (Img α)) : Option (List (Img α)) :=
  let C := x.length
  let ws := (List.replicate C [w0, w1]).flatten
  (grouped C ws x fun w ch => alongO ax (afb1dAtrousOne mode d w) ch).mapM id

/-- pairwise synthesis along one axis of two images -/
def sfb1dImg [Add α] [Mul α] [OfNat α 0] (ax : Axis) (mode : Mode) (g0 g1 : List α)
    (lo hi : Img α) : Option (Img α) :=
  match ax with
  | .W => if lo.length ≠ hi.length then none else
      (List.range lo.length).mapM fun i => sfb1dCh mode g0 g1 (lo.getD i []) (hi.getD i [])
  | .H => if lo.width ≠ hi.width then none else
      ((List.range lo.width).mapM fun j =>
        sfb1dCh mode g0 g1 ((tr lo).getD j []) ((tr hi).getD j [])).map tr

/-- `sfb1d` on `(C,H,W)` stacks (weights `cat([g]*C)`, `groups=C`: channel c with channel c) -/
def sfb1dT [Add α] [Mul α] [OfNat α 0] (ax : Axis) (mode : Mode) (g0 g1 : List α)
    (lo hi : List (Img α)) : Option (List (Img α)) :=
  if lo.length ≠ hi.length then none else
  (List.range lo.length).mapM fun c => sfb1dImg ax mode g0 g1 (lo.getD c []) (hi.getD c [])

/-! ### autograd Functions (one batch item; a batch is `List.map`) -/

/-- `AFB1D.forward`: `(C,L)` signal stack ↦ `(x0, x1)` with `x0 = lohi[:, ::2]`, `x1 = lohi[:, 1::2]` -/
def AFB1D_forward [Add α] [Mul α] [OfNat α 0] (mode : Mode) (w0 w1 : List α) (x : List (List α)) :
    Option (List (List α) × List (List α)) := do
  let lohi ← afb1dT .W mode w0 w1 (x.map fun ch => [ch])
  let sig := lohi.map fun im => im.getD 0 []
  some (tab (sig.length / 2) fun c => sig.getD (2*c) [], tab (sig.length / 2) fun c => sig.getD (2*c+1) [])

/-- fold the gradient of the repeated last sample back (periodization, odd length) and crop -/
def foldCrop [Add α] [OfNat α 0] (mode : Mode) (N : Nat) (d : List α) : List α :=
  if d.length > N then
    (if mode = .periodization then
      tab d.length fun k => if k + 1 = N then getN d k + getN d N else getN d k
     else d).take N
  else d

/-- `AFB1D.backward` for `needs_input_grad[0]`; `N` is the saved input length -/
def AFB1D_backward [Add α] [Mul α] [OfNat α 0] (mode : Mode) (w0 w1 : List α) (N : Nat)
    (dx0 dx1 : List (List α)) : Option (List (List α)) := do
  let d ← sfb1dT .W mode w0 w1 (dx0.map fun ch => [ch]) (dx1.map fun ch => [ch])
  some (d.map fun im => foldCrop mode N (im.getD 0 []))

/-- `SFB1D.forward` -/
def SFB1D_forward [Add α] [Mul α] [OfNat α 0] (mode : Mode) (g0 g1 : List α)
    (lo hi : List (List α)) : Option (List (List α)) := do
  let y ← sfb1dT .W mode g0 g1 (lo.map fun ch => [ch]) (hi.map fun ch => [ch])
  some (y.map fun im => im.getD 0 [])

/-- `SFB1D.backward` (computed when either input needs a gradient): `afb1d(dy, g0, g1)` split by parity -/
def SFB1D_backward [Add α] [Mul α] [OfNat α 0] (mode : Mode) (g0 g1 : List α)
    (dy : List (List α)) : Option (List (List α) × List (List α)) := do
  let dx ← afb1dT .W mode g0 g1 (dy.map fun ch => [ch])
  let sig := dx.map fun im => im.getD 0 []
  some (tab (sig.length / 2) fun c => sig.getD (2*c) [], tab (sig.length / 2) fun c => sig.getD (2*c+1) [])

/-- `AFB2D.forward(x, h0_row, h1_row, h0_col, h1_col, mode)` on a `(C,H,W)` stack:
returns `low` (C images) and `highs` (C × 3 images) after `reshape(N,-1,4,H,W)` -/
def AFB2D_forward [Add α] [Mul α] [OfNat α 0] (mode : Mode) (wr0 wr1 wc0 wc1 : List α)
    (x : List (Img α)) : Option (List (Img α) × List (List (Img α))) := do
  let lohi ← afb1dT .W mode wr0 wr1 x
  let y ← afb1dT .H mode wc0 wc1 lohi
  let C := y.length / 4
  some (tab C fun c => y.getD (4*c) [],
        tab C fun c => [y.getD (4*c+1) [], y.getD (4*c+2) [], y.getD (4*c+3) []])

def foldCrop2 [Add α] [OfNat α 0] (mode : Mode) (H W : Nat) (d : Img α) : Img α :=
  let d1 := tr ((tr d).map (foldCrop mode H))
  d1.map (foldCrop mode W)

/-- `AFB2D.backward`; `(H, W)` is the saved input shape -/
def AFB2D_backward [Add α] [Mul α] [OfNat α 0] (mode : Mode) (wr0 wr1 wc0 wc1 : List α) (H W : Nat)
    (low : List (Img α)) (highs : List (List (Img α))) : Option (List (Img α)) := do
  let lh := highs.map fun b => b.getD 0 []
  let hl := highs.map fun b => b.getD 1 []
  let hh := highs.map fun b => b.getD 2 []
  let lo ← sfb1dT .H mode wc0 wc1 low lh
  let hi ← sfb1dT .H mode wc0 wc1 hl hh
  let dx ← sfb1dT .W mode wr0 wr1 lo hi
  some (dx.map (foldCrop2 mode H W))

/-- `SFB2D.forward(low, highs, g0_row, g1_row, g0_col, g1_col, mode)` -/
def SFB2D_forward [Add α] [Mul α] [OfNat α 0] (mode : Mode) (gr0 gr1 gc0 gc1 : List α)
    (low : List (Img α)) (highs : List (List (Img α))) : Option (List (Img α)) := do
  let lh := highs.map fun b => b.getD 0 []
  let hl := highs.map fun b => b.getD 1 []
  let hh := highs.map fun b => b.getD 2 []
  let lo ← sfb1dT .H mode gc0 gc1 low lh
  let hi ← sfb1dT .H mode gc0 gc1 hl hh
  sfb1dT .W mode gr0 gr1 lo hi

/-- `SFB2D.backward` -/
def SFB2D_backward [Add α] [Mul α] [OfNat α 0] (mode : Mode) (gr0 gr1 gc0 gc1 : List α)
    (dy : List (Img α)) : Option (List (Img α) × List (List (Img α))) := do
  let dx ← afb1dT .W mode gr0 gr1 dy
  let dx ← afb1dT .H mode gc0 gc1 dx
  let C := dx.length / 4
  some (tab C fun c => dx.getD (4*c) [],
        tab C fun c => [dx.getD (4*c+1) [], dx.getD (4*c+2) [], dx.getD (4*c+3) []])

/-! ### Modules -/

/-- `DWT1DForward(J, wave, mode).forward` on a `(C,L)` stack; buffers `w0 w1` (reversed filters) -/
def DWT1DForward [Add α] [Mul α] [OfNat α 0] (mode : Mode) (w0 w1 : List α) :
    Nat → List (List α) → Option (List (List α) × List (List (List α)))
  | 0, x => some (x, [])
  | J+1, x => do
    let (x0, x1) ← AFB1D_forward mode w0 w1 x
    let (yl, yh) ← DWT1DForward mode w0 w1 J x0
    some (yl, x1 :: yh)

/-- one step of the loop of `DWT1DInverse.forward`; `x1 = none` is Python's `None` -/
def DWT1DInverse_step [Add α] [Mul α] [OfNat α 0] (mode : Mode) (g0 g1 : List α)
    (x0 : List (List α)) (x1 : Option (List (List α))) : Option (List (List α)) :=
  let x1v := match x1 with
    | some v => v
    | none => x0.map fun ch => ch.map fun _ => (0 : α)
  let len0 := (x0.headD []).length
  let len1 := (x1v.headD []).length
  let x0c := if len0 > len1 then x0.map (fun ch => ch.take (ch.length - 1)) else x0
  SFB1D_forward mode g0 g1 x0c x1v

/-- `DWT1DInverse.forward((yl, yh))`, `yh` finest first -/
def DWT1DInverse [Add α] [Mul α] [OfNat α 0] (mode : Mode) (g0 g1 : List α)
    (yl : List (List α)) (yh : List (Option (List (List α)))) : Option (List (List α)) :=
  yh.reverse.foldlM (fun x0 x1 => DWT1DInverse_step mode g0 g1 x0 x1) yl

/-- `DWTForward(J, wave, mode).forward`; the module passes
`(h0_row, h1_row, h0_col, h1_col)` to `AFB2D.apply` -/
def DWTForward [Add α] [Mul α] [OfNat α 0] (mode : Mode) (wc0 wc1 wr0 wr1 : List α) :
    Nat → List (Img α) → Option (List (Img α) × List (List (List (Img α))))
  | 0, x => some (x, [])
  | J+1, x => do
    let (ll, high) ← AFB2D_forward mode wr0 wr1 wc0 wc1 x
    let (yl, yh) ← DWTForward mode wc0 wc1 wr0 wr1 J ll
    some (yl, high :: yh)

def DWTInverse_step [Add α] [Mul α] [OfNat α 0] (mode : Mode) (gc0 gc1 gr0 gr1 : List α)
    (ll : List (Img α)) (h : Option (List (List (Img α)))) : Option (List (Img α)) :=
  let llH := (ll.headD []).length
  let llW := (ll.headD []).width
  let hv := match h with
    | some v => v
    | none => ll.map fun _ => [izero llH llW, izero llH llW, izero llH llW]
  let hH := ((hv.headD []).headD []).length
  let hW := ((hv.headD []).headD []).width
  let ll1 := if llH > hH then ll.map (fun im => im.take (im.length - 1)) else ll
  let ll2 := if llW > hW then ll1.map (fun im => im.map fun r => r.take (r.length - 1)) else ll1
  SFB2D_forward mode gr0 gr1 gc0 gc1 ll2 hv

def DWTInverse [Add α] [Mul α] [OfNat α 0] (mode : Mode) (gc0 gc1 gr0 gr1 : List α)
    (yl : List (Img α)) (yh : List (Option (List (List (Img α))))) : Option (List (Img α)) :=
  yh.reverse.foldlM (fun ll h => DWTInverse_step mode gc0 gc1 gr0 gr1 ll h) yl

/-- `afb2d_atrous(x, (h0_col,h1_col,h0_row,h1_row), mode, dilation)` ↦ `(4C,H,W)` stack, channel `4c+2b+a` -/
def afb2dAtrous [Add α] [Mul α] [OfNat α 0] (mode : Mode) (d : Nat) (wc0 wc1 wr0 wr1 : List α)
    (x : List (Img α)) : Option (List (Img α)) := do
  let lohi ← afb1dAtrousT .W mode d wr0 wr1 x
  afb1dAtrousT .H mode d wc0 wc1 lohi

/-- `SWTForward(J, wave, mode).forward`: list over levels of `(C,4,H,W)` -/
def SWTForward [Add α] [Mul α] [OfNat α 0] (mode : Mode) (wc0 wc1 wr0 wr1 : List α) :
    Nat → Nat → List (Img α) → Option (List (List (List (Img α))))
  | 0, _, _ => some []
  | J+1, j, ll => do
    let m := if mode = .periodization then Mode.periodic else mode
    let y ← afb2dAtrous m (2^j) wc0 wc1 wr0 wr1 ll
    let C := y.length / 4
    let yr := tab C fun c => [y.getD (4*c) [], y.getD (4*c+1) [], y.getD (4*c+2) [], y.getD (4*c+3) []]
    let rest ← SWTForward mode wc0 wc1 wr0 wr1 J (j+1) (yr.map fun b => b.getD 0 [])
    some (yr :: rest)

/-- functional `afb2d(x, filts, mode)` with prepared buffers ↦ `(4C,H',W')` -/
def afb2d [Add α] [Mul α] [OfNat α 0] (mode : Mode) (wc0 wc1 wr0 wr1 : List α)
    (x : List (Img α)) : Option (List (Img α)) := do
  let lohi ← afb1dT .W mode wr0 wr1 x
  afb1dT .H mode wc0 wc1 lohi

/-- functional `sfb2d(ll, lh, hl, hh, filts, mode)` -/
def sfb2d [Add α] [Mul α] [OfNat α 0] (mode : Mode) (gc0 gc1 gr0 gr1 : List α)
    (ll lh hl hh : List (Img α)) : Option (List (Img α)) := do
  let lo ← sfb1dT .H mode gc0 gc1 ll lh
  let hi ← sfb1dT .H mode gc0 gc1 hl hh
  sfb1dT .W mode gr0 gr1 lo hi

/-! ### Non-separable one-level filter banks -/

/-- `np.outer(a, b)[::-1, ::-1]` -/
def outerRev [Mul α] [OfNat α 0] (a b : List α) : Img α :=
  tab2 a.length b.length fun i j => getN a (a.length - 1 - i) * getN b (b.length - 1 - j)
def outer [Mul α] [OfNat α 0] (a b : List α) : Img α :=
  tab2 a.length b.length fun i j => getN a i * getN b j

/-- `y[:a] = y[:a] + y[b:b+a]` along rows: the right-hand side is evaluated first (the code builds the sum out of place, as the
separable `afb1d` / `sfb1d` do), so overlapping source and destination rows (`0 < b < a`, images smaller than the filter)
are no special case.  (Until the repair "fix: afb2d_nonsep / sfb2d_nonsep raised ... in periodization mode" the code used an
in-place `+=`, which torch refuses when it can see the partial overlap; the parameter `dense` — the output tensor has a
single batch item and channel — told the model when that happened and is kept for the driver's interface only.) -/
def foldAddInPlaceRows [Add α] [OfNat α 0] (_dense : Bool) (y : Img α) (a b : Nat) : Option (Img α) :=
  some (tab y.length fun k => if k < a then vadd (y.getD k []) (y.getD (b + k) []) else y.getD k [])

def foldAddInPlaceCols [Add α] [OfNat α 0] (y : Img α) (a b : Nat) : Option (Img α) :=
  some (y.map fun r => foldAdd r a b)

/-- one channel of `afb2d_nonsep(x, filts, mode)`; `h…` are the raw (un-reversed) filters;
returns the four sub-bands (ll, lh, hl, hh) -/
def afb2dNonsepCh [Add α] [Mul α] [OfNat α 0] (mode : Mode) (hc0 hc1 hr0 hr1 : List α)
    (x : Img α) : Option (List (Img α)) :=
  let Ly := hc0.length
  let Lx := hr0.length
  let fs := [outerRev hc0 hr0, outerRev hc1 hr0, outerRev hc0 hr1, outerRev hc1 hr1]
  if Ly < 2 ∨ Lx < 2 ∨ hc1.length ≠ Ly ∨ hr1.length ≠ Lx ∨ x.length < 1 ∨ x.width < 1 then none else
  match mode with
  | .periodization =>
    let x1 : Img α := if x.length % 2 = 1 then x ++ sliceFrom x (-1) else x
    let x2 : Img α := if x1.width % 2 = 1 then x1.map (fun r => r ++ sliceFrom r (-1)) else x1
    let Ny := x2.length
    let Nx := x2.width
    let x3 := rollPy x2 (-((Ly/2 : Nat) : Int))
    let x4 := x3.map fun r => rollPy r (-((Lx/2 : Nat) : Int))
    let xp := (izero (Ly-1) (Nx + 2*(Lx-1))) ++ (x4.map fun r => zeroPad r (Lx-1) (Lx-1)) ++
              (izero (Ly-1) (Nx + 2*(Lx-1)))
    fs.mapM fun f => do
      let y := corr2 f xp 2 2
      let y1 ← foldAddInPlaceRows false y (Ly/2) (Ny/2)
      let y2 ← foldAddInPlaceCols y1 (Lx/2) (Nx/2)
      some ((y2.take (Ny/2)).map fun r => r.take (Nx/2))
  | .zero =>
    let Ny := x.length
    let Nx := x.width
    let p1 := 2 * (dwtCoeffLen Ny Ly - 1) + Ly - Ny
    let p2 := 2 * (dwtCoeffLen Nx Lx - 1) + Lx - Nx
    let x1 : Img α := if p1 % 2 = 1 then x ++ izero 1 Nx else x
    let x2 : Img α := if p2 % 2 = 1 then x1.map (fun r => zeroPad r 0 1) else x1
    let W2 := x2.width
    let xp := (izero (p1/2) (W2 + 2*(p2/2))) ++ (x2.map fun r => zeroPad r (p2/2) (p2/2)) ++
              (izero (p1/2) (W2 + 2*(p2/2)))
    some (fs.map fun f => corr2 f xp 2 2)
  | .symmetric =>
    let Ny := x.length
    let Nx := x.width
    let p1 := 2 * (dwtCoeffLen Ny Ly - 1) + Ly - Ny
    let p2 := 2 * (dwtCoeffLen Nx Lx - 1) + Lx - Nx
    let xr := x.map fun r => padIdx symIdx r (p2/2) ((p2+1)/2)
    let xp := tr ((tr xr).map fun c => padIdx symIdx c (p1/2) ((p1+1)/2))
    some (fs.map fun f => corr2 f xp 2 2)
  | .reflect =>
    let Ny := x.length
    let Nx := x.width
    let p1 := 2 * (dwtCoeffLen Ny Ly - 1) + Ly - Ny
    let p2 := 2 * (dwtCoeffLen Nx Lx - 1) + Lx - Nx
    if p1/2 < Ny ∧ (p1+1)/2 < Ny ∧ p2/2 < Nx ∧ (p2+1)/2 < Nx then
      let xr := x.map fun r => padIdx reflIdx r (p2/2) ((p2+1)/2)
      let xp := tr ((tr xr).map fun c => padIdx reflIdx c (p1/2) ((p1+1)/2))
      some (fs.map fun f => corr2 f xp 2 2)
    else none
  | _ => none

/-- one channel of `sfb2d_nonsep(coeffs, filts, mode)`; `bands = [ll, lh, hl, hh]`;
`dense` = the output tensor has a single batch item and channel -/
def sfb2dNonsepCh [Add α] [Mul α] [OfNat α 0] (mode : Mode) (dense : Bool) (gc0 gc1 gr0 gr1 : List α)
    (bands : List (Img α)) : Option (Img α) :=
  let Ly := gc0.length
  let Lx := gr0.length
  let fs := [outer gc0 gr0, outer gc1 gr0, outer gc0 gr1, outer gc1 gr1]
  let b0 := bands.getD 0 []
  let Ny := b0.length
  let Nx := b0.width
  if Ly < 2 ∨ Lx < 2 ∨ gc1.length ≠ Ly ∨ gr1.length ≠ Lx ∨ Ny < 1 ∨ Nx < 1 ∨ bands.length ≠ 4 then none else
  let full := (List.range 4).foldl (fun acc k => iadd acc (convT2Full (fs.getD k []) (bands.getD k [])))
                (izero (2*(Ny-1)+Ly) (2*(Nx-1)+Lx))
  match mode with
  | .periodization => do
    let y1 ← foldAddInPlaceRows dense full (Ly-2) (2*Ny)
    let y2 ← foldAddInPlaceCols y1 (Lx-2) (2*Nx)
    let y3 := (y2.take (2*Ny)).map fun r => r.take (2*Nx)
    let y4 := rollPy y3 (1 - ((Ly/2 : Nat) : Int))
    some (y4.map fun r => rollPy r (1 - ((Lx/2 : Nat) : Int)))
  | .zero | .symmetric | .reflect | .periodic =>
    if 2*(Ny-1) + Ly < 2*(Ly-2) + 1 ∨ 2*(Nx-1) + Lx < 2*(Lx-2) + 1 then none else
    some (crop2 full (Ly-2) (Lx-2) (2*(Ny-1) + Ly - 2*(Ly-2)) (2*(Nx-1) + Lx - 2*(Lx-2)))
  | _ => none

end WV

namespace WV
variable {α : Type}

/-! ### Module construction glue: `prep_filt_afb1d` reverses, `prep_filt_sfb1d` does not;
a 2-tuple wave uses the same pair on both axes, a 4-tuple is (col, col, row, row). -/

/-- a wave argument: `(h0, h1)` or `(h0_col, h1_col, h0_row, h1_row)` -/
def wave4 (w : List (List α)) : Option (List α × List α × List α × List α) :=
  match w with
  | [a, b] => some (a, b, a, b)
  | [a, b, c, d] => some (a, b, c, d)
  | _ => none

def DWT1DForwardM [Add α] [Mul α] [OfNat α 0] (mode : Mode) (J : Nat) (h0 h1 : List α)
    (x : List (List α)) := DWT1DForward mode h0.reverse h1.reverse J x

def DWTForwardM [Add α] [Mul α] [OfNat α 0] (mode : Mode) (J : Nat) (wave : List (List α))
    (x : List (Img α)) : Option (List (Img α) × List (List (List (Img α)))) := do
  let (c0, c1, r0, r1) ← wave4 wave
  DWTForward mode c0.reverse c1.reverse r0.reverse r1.reverse J x

def DWTInverseM [Add α] [Mul α] [OfNat α 0] (mode : Mode) (wave : List (List α))
    (yl : List (Img α)) (yh : List (Option (List (List (Img α))))) : Option (List (Img α)) := do
  let (c0, c1, r0, r1) ← wave4 wave
  DWTInverse mode c0 c1 r0 r1 yl yh

def SWTForwardM [Add α] [Mul α] [OfNat α 0] (mode : Mode) (J : Nat) (wave : List (List α))
    (x : List (Img α)) : Option (List (List (List (Img α)))) := do
  let (c0, c1, r0, r1) ← wave4 wave
  SWTForward mode c0.reverse c1.reverse r0.reverse r1.reverse J 0 x

end WV
