/-
  "TorchLite": the assumed semantics of the PyTorch / NumPy primitives the
  library calls.  These definitions are the trusted base of the hand-written
  model; they are validated directly against torch by the primitive
  correspondence (`harness/prim.py`), not proved.  Mathlib-free.
-/
import WaveletsVerif.Model.Core
namespace WV

variable {α : Type}

/-- `F.pad(x, (l, r))` with zeros -/
def zeroPad [OfNat α 0] (x : List α) (l r : Nat) : List α :=
  tab (l + x.length + r) fun i => getZ x ((i:Int) - l)

/-- gather `x[idx]` through an index map on `[-l, n+r)` (advanced indexing with the
index vectors built by `utils.reflect` / `np.pad(arange, 'wrap')`) -/
def padIdx [OfNat α 0] (idx : Int → Int → Int) (x : List α) (l r : Nat) : List α :=
  tab (l + x.length + r) fun i => getZ x (idx x.length ((i:Int) - l))

/-- out length of a valid cross-correlation -/
def corrLen (n L stride dil : Nat) : Nat :=
  if n < dil*(L-1)+1 then 0 else (n - (dil*(L-1)+1)) / stride + 1

/-- `F.conv1d(x, w, stride, dilation)` on one channel: valid cross-correlation.
(torch raises when the kernel does not fit: callers guard with `corrFits`.) -/
def corr [Add α] [Mul α] [OfNat α 0] (w x : List α) (stride dil : Nat) : List α :=
  tab (corrLen x.length w.length stride dil) fun k =>
    sumN w.length fun j => getN w j * getN x (stride*k + dil*j)

def corrFits (n L dil : Nat) : Bool := 1 ≤ L && dil*(L-1)+1 ≤ n

/-- `F.conv_transpose1d(g, w, stride=2)` on one channel, no cropping:
`full[i] = Σ_k g[k]·w[i-2k]`, length `2(n-1)+L` -/
def convTFull [Add α] [Mul α] [OfNat α 0] (w g : List α) : List α :=
  tab (2*(g.length-1) + w.length) fun i =>
    sumN g.length fun k => getN g k * getZ w ((i:Int) - 2*k)

/-- `F.conv_transpose1d(g, w, stride=2, padding=P)`: the full result cropped by `P` on both sides -/
def convT [Add α] [Mul α] [OfNat α 0] (w g : List α) (P : Nat) : List α :=
  let full := convTFull w g
  tab (full.length - 2*P) fun i => getN full (i + P)

/-- 2-D valid cross-correlation with strides (sh, sw) -/
def corr2 [Add α] [Mul α] [OfNat α 0] (w x : Img α) (sh sw : Nat) : Img α :=
  tab2 (corrLen x.length w.length sh 1) (corrLen x.width w.width sw 1) fun a b =>
    sumN w.length fun i => sumN w.width fun j => get2 w i j * get2 x (sh*a + i) (sw*b + j)

/-- 2-D transposed convolution, stride 2 in both directions, no cropping -/
def convT2Full [Add α] [Mul α] [OfNat α 0] (w g : Img α) : Img α :=
  tab2 (2*(g.length-1) + w.length) (2*(g.width-1) + w.width) fun a b =>
    sumN g.length fun i => sumN g.width fun j =>
      get2 g i j * (if 2*i ≤ a ∧ 2*j ≤ b then get2 w (a - 2*i) (b - 2*j) else 0)

def crop2 [OfNat α 0] (x : Img α) (t l h w : Nat) : Img α :=
  tab2 h w fun i j => get2 x (i + t) (j + l)

/-- grouped convolution bookkeeping with one input channel per group: out channel
`o` applies weight `ws[o]` to input channel `o / (ws.length / G)`.  -/
def grouped {W X Y : Type} [Inhabited W] [Inhabited X] (G : Nat) (ws : List W) (xs : List X)
    (op : W → X → Y) : List Y :=
  tab ws.length fun o => op (ws.getD o default) (xs.getD (o / (ws.length / G)) default)

/-- `F.avg_pool2d(x, 2)`; `q` stands for 1/4 -/
def avgPool2 [Add α] [Mul α] [OfNat α 0] (q : α) (x : Img α) : Img α :=
  tab2 (x.length / 2) (x.width / 2) fun i j =>
    q * (get2 x (2*i) (2*j) + get2 x (2*i) (2*j+1) + get2 x (2*i+1) (2*j) + get2 x (2*i+1) (2*j+1))

/-- `F.interpolate(x, scale_factor=2, mode='nearest')` -/
def nearestUp2 [OfNat α 0] (x : Img α) : Img α :=
  tab2 (2*x.length) (2*x.width) fun i j => get2 x (i/2) (j/2)

end WV
