"""Structured generators: every random choice comes from the check's PRNG."""
import numpy as np

MODES5 = [0, 1, 4, 6, 2]          # zero symmetric reflect periodic periodization (mode_to_int codes)
MODE_NAME = {0: 'zero', 1: 'symmetric', 2: 'periodization', 4: 'reflect', 6: 'periodic'}
_ALL_MODE_NAMES = {0: 'zero', 1: 'symmetric', 2: 'periodization', 3: 'constant', 4: 'reflect', 5: 'replicate', 6: 'periodic'}


def lib_mode(m, *salt):
    """the spelling of mode m that is handed to the LIBRARY: 'periodization' has the alias 'per' (accepted by
    mode_to_int, afb1d, sfb1d, the non-separable banks and SWTForward, and by PyWavelets); every property quantifies over
    the modes, hence over their accepted spellings.  The choice is determined by the case (salt), so replays reproduce it."""
    import hashlib, os
    name = _ALL_MODE_NAMES[m]
    if name == 'periodization' and os.environ.get('VERIF_NO_ALIAS') != '1':
        if hashlib.sha1(repr(salt).encode()).digest()[0] % 2:
            return 'per'
    return name


def int_filter(rng, L, amp=3, zero_ends=0.12):
    """random small-integer filter of length L, made asymmetric; with probability `zero_ends` (and L >= 4)
    one or both end taps are zero, as in tables stored zero-padded (e.g. qshift_06)"""
    while True:
        h = [rng.randint(-amp, amp) for _ in range(L)]
        if L >= 4 and rng.random() < zero_ends:
            k = rng.choice([0, 1, 2])
            if k in (0, 2): h[0] = 0
            if k in (1, 2): h[-1] = 0
            if all(v == 0 for v in h):
                continue
        elif h[0] == 0 or h[-1] == 0:
            continue
        if L > 1 and h == h[::-1]:
            continue
        if L > 1 and [-v for v in h] == h[::-1]:
            continue
        return np.array(h, dtype=np.float64)


def int_tensor(rng, shape, amp=9):
    n = int(np.prod(shape))
    return np.array([rng.randint(-amp, amp) for _ in range(n)], dtype=np.float64).reshape(shape)


def batch_channels(rng, big=0.06):
    """(N, C) with occasional wide channel counts (fast paths keyed on the channel count)"""
    if rng.random() < big:
        return rng.choice([(1, 33), (1, 17), (2, 16), (1, 64)])
    return rng.choice([(1, 1), (1, 1), (2, 1), (1, 2), (2, 3)])


def impulse(shape, idx):
    a = np.zeros(shape, dtype=np.float64)
    a.reshape(-1)[idx] = 1.0
    return a


def pick_len(rng, L, hi):
    """lengths concentrated around the filter length, both parities, plus a few large ones"""
    r = rng.random()
    if r < 0.45:
        return max(2, min(hi, L + rng.randint(-3, 3)))
    if r < 0.6:
        return rng.choice([2, 3, 4, 5])
    return rng.randint(2, hi)


def float_tensor(nprng, shape, dyn=1.0):
    """zero-mean data of scale `dyn`; about one tensor in five sits on a large constant offset (image data is not
    zero-mean: an 8-bit picture is 128 +- 50), so that anything which is only right for zero-mean input shows"""
    x = nprng.standard_normal(shape) * dyn
    if nprng.random() < 0.2:
        x = x + 40.0 * dyn
    return x


# ---------------------------------------------------------------------------
# the SCALE covering set (round 11 of the seeded changes): sizes above every blocking / tiling / chunking threshold an
# implementation may reasonably pick ("more than 64 slices", "more than 256 / 512 rows", "more than 4096 samples") and
# not multiples of them.  Oracles run these against their references; the exact Lean correspondence stays at small sizes.
# ---------------------------------------------------------------------------

def scale_shapes_2d(tier):
    """(N, C, H, W): tall, wide, big in both directions, many channels (not a multiple of 64), many slices with N >= 2.
    Thresholds are usually powers of two, and what goes wrong above them goes wrong in a narrow window (the last block
    thinner than a filter, a halo one sample short): sides just below / at / just above 256, 512, 1024, and not only there."""
    tall = [257, 300, 511, 513, 520, 1031]
    wide = [257, 511, 516]
    s = [(1, 1, h, 6) for h in tall] + [(1, 1, 6, w) for w in wide]
    s += [(1, 1, 264, 272), (1, 1, 400, 390), (1, 70, 8, 6), (3, 23, 8, 8), (2, 65, 4, 6), (1, 1, 8300, 3)]
    if tier != 'quick':
        s += [(1, 1, h, 5) for h in (255, 256, 258, 384, 385, 507, 509, 510, 512, 600, 768, 1000, 1023, 1024, 1025, 2049)]
        s += [(1, 1, 7, w) for w in (256, 300, 509, 512, 513, 1023, 1025)]
        s += [(1, 130, 6, 4), (1, 2, 600, 24), (1, 1, 520, 520), (5, 13, 12, 10), (1, 96, 8, 8), (2, 100, 8, 4)]
    return s


def scale_shapes_1d(tier):
    s = [(1, 1, n) for n in (257, 300, 511, 513, 4100, 9001)] + [(1, 70, 33), (3, 23, 40)]
    if tier != 'quick':
        s += [(1, 1, n) for n in (255, 256, 509, 512, 1023, 1025, 4095, 4097, 9000, 65537, 70001)] + [(2, 65, 18), (1, 130, 16), (1, 96, 24)]
    return s
