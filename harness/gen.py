"""Structured generators: every random choice comes from the check's PRNG."""
import numpy as np

MODES5 = [0, 1, 4, 6, 2]          # zero symmetric reflect periodic periodization (mode_to_int codes)
MODE_NAME = {0: 'zero', 1: 'symmetric', 2: 'periodization', 4: 'reflect', 6: 'periodic'}
_ALL_MODE_NAMES = {0: 'zero', 1: 'symmetric', 2: 'periodization', 3: 'constant', 4: 'reflect', 5: 'replicate', 6: 'periodic'}


def lib_mode(m, *salt):
    """the spelling of mode m that is handed to the LIBRARY: 'periodization' has the alias 'per' (accepted by
    mode_to_int, afb1d, sfb1d, the non-separable banks and SWTForward, and by PyWavelets); every property quantifies over
    the modes, hence over their accepted spellings.  The choice is determined by the case (salt), so replays reproduce it."""
    import hashlib, os
    name = _ALL_MODE_NAMES[m]
    if name == 'periodization' and os.environ.get('VERIF_NO_ALIAS') != '1':
        if hashlib.sha1(repr(salt).encode()).digest()[0] % 2:
            return 'per'
    return name


def int_filter(rng, L, amp=3, zero_ends=0.12):
    """random small-integer filter of length L, made asymmetric; with probability `zero_ends` (and L >= 4)
    one or both end taps are zero, as in tables stored zero-padded (e.g. qshift_06)"""
    while True:
        h = [rng.randint(-amp, amp) for _ in range(L)]
        if L >= 4 and rng.random() < zero_ends:
            k = rng.choice([0, 1, 2])
            if k in (0, 2): h[0] = 0
            if k in (1, 2): h[-1] = 0
            if all(v == 0 for v in h):
                continue
        elif h[0] == 0 or h[-1] == 0:
            continue
        if L > 1 and h == h[::-1]:
            continue
        if L > 1 and [-v for v in h] == h[::-1]:
            continue
        return np.array(h, dtype=np.float64)


def int_tensor(rng, shape, amp=9):
    n = int(np.prod(shape))
    return np.array([rng.randint(-amp, amp) for _ in range(n)], dtype=np.float64).reshape(shape)


def batch_channels(rng, big=0.06):
    """(N, C) with occasional wide channel counts (fast paths keyed on the channel count)"""
    if rng.random() < big:
        return rng.choice([(1, 33), (1, 17), (2, 16), (1, 64)])
    return rng.choice([(1, 1), (1, 1), (2, 1), (1, 2), (2, 3)])


def impulse(shape, idx):
    a = np.zeros(shape, dtype=np.float64)
    a.reshape(-1)[idx] = 1.0
    return a


def pick_len(rng, L, hi):
    """lengths concentrated around the filter length, both parities, plus a few large ones"""
    r = rng.random()
    if r < 0.45:
        return max(2, min(hi, L + rng.randint(-3, 3)))
    if r < 0.6:
        return rng.choice([2, 3, 4, 5])
    return rng.randint(2, hi)


def float_tensor(nprng, shape, dyn=1.0):
    """zero-mean data of scale `dyn`; about one tensor in five sits on a large constant offset (image data is not
    zero-mean: an 8-bit picture is 128 +- 50), so that anything which is only right for zero-mean input shows"""
    x = nprng.standard_normal(shape) * dyn
    if nprng.random() < 0.2:
        x = x + 40.0 * dyn
    return x
