"""PyWavelets as oracle: custom integer filter banks make pywt exact too."""
import numpy as np, pywt
from .gen import MODE_NAME


def wavelet(dec_lo, dec_hi, rec_lo=None, rec_hi=None):
    if rec_lo is None:
        rec_lo, rec_hi = dec_lo[::-1], dec_hi[::-1]
    return pywt.Wavelet('custom', filter_bank=[list(map(float, dec_lo)), list(map(float, dec_hi)),
                                               list(map(float, rec_lo)), list(map(float, rec_hi))])


def wavedec(x, w, m, J, axis=-1):
    """library order: (cA_J, [cD_1..cD_J])"""
    c = pywt.wavedec(x, w, mode=MODE_NAME[m], level=J, axis=axis)
    return c[0], c[1:][::-1]


def wavedec2(x, wc, wr, m, J):
    c = pywt.wavedec2(x, (wc, wr), mode=MODE_NAME[m], level=J, axes=(-2, -1))
    return c[0], [np.stack(d, axis=-3) for d in c[1:][::-1]]


def waverec(yl, yh, w, m):
    return pywt.waverec([yl] + [h for h in yh[::-1]], w, mode=MODE_NAME[m], axis=-1)


def waverec2(yl, yh, wc, wr, m):
    coeffs = [yl]
    for h in yh[::-1]:
        coeffs.append(None if h is None else (h[..., 0, :, :], h[..., 1, :, :], h[..., 2, :, :]))
    # pywt.waverec2 does not take None for a whole level: use zeros of the approximation's shape
    a = yl
    for d in coeffs[1:]:
        if d is None:
            d = (np.zeros_like(a),) * 3
        if a.shape[-2] == d[0].shape[-2] + 1:
            a = a[..., :-1, :]
        if a.shape[-1] == d[0].shape[-1] + 1:
            a = a[..., :-1]
        a = pywt.idwt2((a, d), (wc, wr), mode=MODE_NAME[m], axes=(-2, -1))
    return a


def swt2(x, wc, wr, J):
    """finest level first; each (A,H,V,D) stacked on axis -3"""
    c = pywt.swt2(x, (wc, wr), level=J, axes=(-2, -1), trim_approx=False)
    out = []
    for cA, (cH, cV, cD) in c[::-1]:
        out.append(np.stack([cA, cH, cV, cD], axis=-3))
    return out
