"""python -O -m harness.optimized_child <prop> <seed> <outfile> : the outputs (and, for the gradient properties, the gradients) of the
property's locality groups computed in an interpreter that strips `assert` statements; the parent (harness.locality.optimized)
computes the same with asserts compiled in and compares."""
import sys, pickle, random
import numpy as np


def compute(prop, seed):
    import torch
    from . import rt, locality, history
    out = {}
    rng = random.Random(seed)
    gs = locality.groups({'C05': 'C01', 'C06': 'C03'}.get(prop, prop), rng, 'quick')
    with history.off():
        for g in gs:
            name, call, x = g[0], g[1], g[2]
            try:
                if prop in ('C05', 'C06', 'C09'):
                    xx = x.clone().requires_grad_(True)
                    outs = [o for o in locality._tensors(call(xx), []) if o.numel() and o.requires_grad]
                    cots = [torch.arange(1, o.numel() + 1, dtype=o.dtype).reshape(o.shape) / o.numel() for o in outs]
                    (gr,) = torch.autograd.grad(outs, xx, cots)
                    res = [o.detach().numpy().copy() for o in outs] + [gr.numpy().copy()]
                else:
                    with torch.no_grad():
                        res = [o.detach().numpy().copy() for o in locality._tensors(call(x), [])]
                out[name] = ('ok', res)
            except Exception as e:
                out[name] = ('raise', type(e).__name__ + ': ' + str(e)[:120])
    return out


if __name__ == '__main__':
    from . import rt
    rt.setup_torch()
    res = compute(sys.argv[1], int(sys.argv[2]))
    res['__debug__'] = __debug__
    pickle.dump(res, open(sys.argv[3], 'wb'))
