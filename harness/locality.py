"""Special values stay where they belong (round 13 of the seeded changes).

Every transform of this library is a cascade of short FIR filters applied per (batch, channel) slice.  Whatever the reference
implementation the property names (PyWavelets, the numpy `dtcwt` package, the formulas of the scattering layers), a coefficient
depends only on the samples of ITS slice inside a window of a few filter lengths times the decimation of its level - its
dependence cone.  A sample that is NaN, +-inf or huge therefore changes nothing outside its cone: not in other slices, not in
far-away coefficients of the same slice.  "Equal to the reference on every input" includes these inputs, and no reference
spreads them further (they only ever read the window).

The oracle disturbs ONE sample (or one coefficient of one band of one level) in the middle of one slice and compares with the
undisturbed run: every output outside the cone - all other slices, and in the disturbed slice every coefficient whose position
is further than `R_j = 2^j (Lmax + 2)` input samples away along EITHER axis (circular distance in the wrap-around modes) - must be
bit-identical.  Nothing is claimed inside the cone.  Dense operators with structural zeros (0 * NaN), statistics taken over the
whole batch, "finite checks" that rewrite a tensor and fused kernels that sum over channels all fail it; a cascade of
convolutions cannot.
"""
import sys
import numpy as np

from . import rt, history


def _tensors(o, acc):
    import torch
    if isinstance(o, torch.Tensor):
        acc.append(o)
    elif isinstance(o, (list, tuple)):
        for v in o:
            _tensors(v, acc)
    return acc


def _same_bits(a, b):
    return a.shape == b.shape and a.dtype == b.dtype and bool(np.array_equal(a, b, equal_nan=True))


def _far_mask(shape, hw_axes, scale, center, R, N_in, circular):
    """boolean mask over an output array: True where the coefficient is outside the cone along either spatial axis"""
    far = np.zeros(shape, dtype=bool)
    for ax, c, n_in in zip(hw_axes, center, N_in):
        if ax is None:
            continue
        n = shape[ax]
        pos = (np.arange(n) + 0.5) * scale
        d = np.abs(pos - (c + 0.5))
        if circular:
            d = np.minimum(d, n_in - d)
        m = d > R
        sh = [1] * len(shape); sh[ax] = n
        far |= m.reshape(sh)
    return far


def disturb(ck, name, call, x, where, outputs_info, Lmax, circular, replay):
    """call: tensor -> outputs; x: (N, C, ...) tensor; where: index tuple of the disturbed sample (n0, c0, i0[, j0]);
    outputs_info(k, out) -> (slice axes (batch axis, channel axis or None), hw axes, level j, decimation scale) or None to skip"""
    import torch
    with history.off(), torch.no_grad():
        base = [t.detach().cpu().numpy().copy() for t in _tensors(call(x), [])]
        bad_total = 0
        for val in (float('nan'), float('inf'), -float('inf'), 1e30):
            xd = x.clone()
            xd[where] = val
            try:
                got = [t.detach().cpu().numpy().copy() for t in _tensors(call(xd), [])]
            except Exception as e:
                ck.fail('special values: %s with %r at %s raises %s: %s' % (name, val, where, type(e).__name__, str(e)[:100]), dict(replay, value=repr(val)))
                return
            if len(got) != len(base):
                ck.fail('special values: %s with %r at %s returns %d outputs instead of %d' % (name, val, where, len(got), len(base)), dict(replay, value=repr(val)))
                return
            for k, (a, b) in enumerate(zip(base, got)):
                info = outputs_info(k, a)
                if info is None or a.shape != b.shape:
                    if a.shape != b.shape:
                        ck.fail('special values: %s with %r at %s: output %d has shape %s instead of %s' % (name, val, where, k, b.shape, a.shape), dict(replay, value=repr(val)))
                        return
                    continue
                (bax, cax), hw, j, scale, center, n_in = info
                keep = np.zeros(a.shape, dtype=bool)
                # other slices entirely
                if bax is not None:
                    sel = [slice(None)] * a.ndim; m = np.ones(a.shape[bax], dtype=bool); m[where[0]] = False
                    sh = [1] * a.ndim; sh[bax] = a.shape[bax]; keep |= m.reshape(sh)
                if cax is not None:
                    m = np.ones(a.shape[cax], dtype=bool); m[where[1]] = False
                    sh = [1] * a.ndim; sh[cax] = a.shape[cax]; keep |= m.reshape(sh)
                # far coefficients of the disturbed slice
                R = (2 ** j) * (Lmax + 2)
                keep |= _far_mask(a.shape, hw, scale, center, R, n_in, circular)
                if not keep.any():
                    continue
                same = (a == b) | (np.isnan(a) & np.isnan(b))
                wrong = keep & ~same
                if wrong.any():
                    idx = tuple(int(v[0]) for v in np.nonzero(wrong))
                    other = (bax is not None and idx[bax] != where[0]) or (cax is not None and idx[cax] != where[1])
                    ck.fail('special values: %s: a sample set to %r at %s changes output %d at %s (%s): %r instead of %r [%d coefficients outside the dependence cone changed]'
                            % (name, val, where, k, idx, 'another (batch, channel) slice' if other else 'same slice, more than %d input samples away' % R,
                               float(b[idx]), float(a[idx]), int(wrong.sum())), dict(replay, value=repr(val)))
                    return
                bad_total += 1
    ck.oracle_ok(('locality', name), group='special-values', sample={'what': 'special values confined to their dependence cone: ' + name, 'disturbed': list(where)})


def groups(prop, rng, tier):
    import torch
    import pywt
    from pytorch_wavelets import DWTForward, DWTInverse, DWT1DForward, DWT1DInverse, DTCWTForward, DTCWTInverse, ScatLayer, ScatLayerj2
    from pytorch_wavelets.dwt.transform2d import SWTForward
    import pytorch_wavelets.dwt.lowlevel as L
    G = []
    f64 = torch.float64

    def img(shape, dt=f64):
        return torch.tensor(np.array([rng.randint(-9, 9) for _ in range(int(np.prod(shape)))], dtype=np.float64).reshape(shape), dtype=dt)

    if prop in ('C01', 'C14', 'C17', 'C07', 'C02', 'C16'):
        for (wave, mode, N, J) in (('db2', 'zero', 32, 1), ('db2', 'periodization', 32, 1), ('haar', 'symmetric', 24, 1), ('db3', 'zero', 96, 2), ('db2', 'reflect', 30, 1), ('db2', 'zero', 33, 1), ('db2', 'periodization', 35, 1), ('db2', 'zero', 50, 2)):
            w = pywt.Wavelet(wave); Lm = w.dec_len
            if prop == 'C14':
                w2 = pywt.Wavelet('db1'); wv = (w.dec_lo, w.dec_hi, w2.dec_lo, w2.dec_hi)
            else:
                wv = wave
            dt = torch.float32 if prop == 'C16' else f64
            mod = DWTForward(J=J, wave=wv, mode=mode).to(dt)
            x = img((2, 2, N, N), dt); where = (1, 0, N // 2, N // 2 - 1)

            def info(k, a, J=J, N=N, where=where):
                j = J if k == 0 else k
                hw = (2, 3) if k == 0 else (3, 4)
                return ((0, 1), hw, j, 2 ** j, (where[2], where[3]), (N, N))
            G.append(('DWTForward(J=%d, %s, %s) on %dx%d' % (J, wave, mode, N, N), lambda t, mod=mod: mod(t), x, where, info, Lm, mode == 'periodization'))
        mod1 = DWT1DForward(J=2, wave='db2', mode='zero').double(); N = 128
        x = img((2, 2, N)); where = (0, 1, N // 2)

        def info1(k, a, N=N, where=where):
            j = 2 if k == 0 else k
            return ((0, 1), (2,), j, 2 ** j, (where[2],), (N,))
        G.append(('DWT1DForward(J=2, db2, zero) on 128', lambda t: mod1(t), x, where, info1, 4, False))
    if prop in ('C10', 'C02', 'C07'):
        for (wave, mode, N) in (('db2', 'zero', 32), ('db2', 'periodization', 32), ('haar', 'symmetric', 24)):
            w = pywt.Wavelet(wave); Lm = w.dec_len
            fw = DWTForward(J=1, wave=wave, mode=mode).double(); iv = DWTInverse(wave=wave, mode=mode).double()
            with history.off(), torch.no_grad():
                yl, yh = fw(img((2, 2, N, N)))
            band = yh[0]
            where = (1, 0, 1, band.shape[3] // 2, band.shape[4] // 2)

            def call(b, yl=yl, iv=iv):
                return iv((yl, [b]))

            def info(k, a, N=N, where=where):
                # the reconstruction: a pixel depends on coefficients within the cone of its own position / 2
                return ((0, 1), (2, 3), 1, 1.0, (where[3] * 2, where[4] * 2), (a.shape[2], a.shape[3]))
            G.append(('DWTInverse(%s, %s): one band-pass coefficient' % (wave, mode), call, band, where, info, Lm, mode == 'periodization',
                      lambda f, yl=yl, yh=yh, iv=iv: iv((f(yl), [f(b) for b in yh]))))
            f1 = DWT1DForward(J=2, wave=wave, mode=mode).double(); i1 = DWT1DInverse(wave=wave, mode=mode).double()
            with history.off(), torch.no_grad():
                x0, hs = f1(img((2, 2, 2 * N)))
            b1 = hs[0]; w1 = (1, 0, b1.shape[2] // 2)

            def info1d(k, a, w1=w1):
                return ((0, 1), (2,), 1, 1.0, (w1[2] * 2,), (a.shape[2],))
            G.append(('DWT1DInverse(%s, %s): one band-pass coefficient' % (wave, mode), lambda b, x0=x0, hs=hs, i1=i1: i1((x0, [b] + list(hs[1:]))), b1, w1, info1d, Lm, mode == 'periodization',
                      lambda f, x0=x0, hs=hs, i1=i1: i1((f(x0), [f(b) for b in hs]))))
            # a None level: the zeros the module makes for it must behave like zeros the caller passes
            G.append(('DWTInverse(%s, %s) with the band-pass level absent' % (wave, mode), lambda l, iv=iv: iv((l, [None])), yl, (1, 0, yl.shape[2] // 2, yl.shape[3] // 2),
                      lambda k, a, yl=yl: ((0, 1), (2, 3), 1, 1.0, (yl.shape[2], yl.shape[3]), (a.shape[2], a.shape[3])), Lm, mode == 'periodization',
                      lambda f, yl=yl, iv=iv: iv((f(yl), [None]))))
    if prop == 'C13':
        for (wave, N, J) in (('db2', 32, 1), ('db2', 64, 2), ('haar', 24, 1)):
            Lm = pywt.Wavelet(wave).dec_len
            mod = SWTForward(J=J, wave=wave, mode='periodization').double()
            x = img((2, 2, N, N)); where = (0, 1, N // 2, N // 2)

            def info(k, a, N=N, where=where):
                return ((0, 1), (3, 4), k + 1, 1.0, (where[2], where[3]), (N, N))
            G.append(('SWTForward(J=%d, %s) on %dx%d' % (J, wave, N, N), lambda t, mod=mod: mod(t), x, where, info, Lm, True))
    if prop in ('C03', 'C04', 'C12', 'C07', 'C16'):
        dt = torch.float32 if prop == 'C16' else f64
        for (bi, qs, Lm, N, Jd) in (('near_sym_a', 'qshift_a', 10, 128, 2), ('legall', 'qshift_06', 10, 64, 2), ('near_sym_a', 'qshift_a', 10, 100, 3)):
            kw = dict(J=Jd, biort=bi, qshift=qs)
            if prop == 'C12':
                kw.update(include_scale=[True] * Jd)
            mod = DTCWTForward(**kw).to(dt)
            x = img((2, 2, N, N), dt); where = (1, 1, N // 2, N // 2 + 1)

            def info(k, a, N=N, where=where):
                if a.ndim == 6:          # (N, C, 6, h, w, 2)
                    j = int(round(np.log2(N / a.shape[3])))
                    return ((0, 1), (3, 4), j, 2 ** j, (where[2], where[3]), (N, N))
                j = int(round(np.log2(N / a.shape[2])))
                return ((0, 1), (2, 3), j, 2 ** j, (where[2], where[3]), (N, N))
            G.append(('DTCWTForward(%s) on %dx%d' % (', '.join('%s=%s' % kv for kv in sorted(kw.items())), N, N), lambda t, mod=mod: mod(t), x, where, info, Lm, False))
    if prop in ('C11', 'C04', 'C07'):
        for (bi, qs, Lm, N, Jd) in (('near_sym_a', 'qshift_a', 10, 64, 2), ('near_sym_b', 'qshift_b', 19, 128, 2), ('antonini', 'qshift_c', 16, 128, 2), ('near_sym_a', 'qshift_a', 10, 100, 3),
                                    ('legall', 'qshift_06', 10, 50, 4)):
            fw = DTCWTForward(J=Jd, biort=bi, qshift=qs).double(); iv = DTCWTInverse(biort=bi, qshift=qs).double()
            with history.off(), torch.no_grad():
                yl, yh = fw(img((2, 2, N, N)))
            for lev in (0, 1):
                band = yh[lev]
                where = (0, 1, 2, band.shape[3] // 2, band.shape[4] // 2, 0)

                def call(b, yl=yl, yh=yh, iv=iv, lev=lev):
                    hs = list(yh); hs[lev] = b
                    return iv((yl, hs))

                def info(k, a, where=where, lev=lev):
                    s = 2 ** (lev + 1)
                    return ((0, 1), (2, 3), lev + 1, 1.0, (where[3] * s, where[4] * s), (a.shape[2], a.shape[3]))
                G.append(('DTCWTInverse(%s, %s) of a %d-level pyramid of a %dx%d image: one coefficient of one orientation at level %d' % (bi, qs, Jd, N, N, lev + 1), call, band, where, info, Lm, False))
    if prop in ('C08', 'C09', 'C16'):
        dt = torch.float32 if prop == 'C16' else f64
        for (name, mod, C, Lm) in (('ScatLayerj2() ', ScatLayerj2().to(dt), 2, 10), ('ScatLayer() ', ScatLayer().to(dt), 2, 7), ('ScatLayer()', ScatLayer().to(dt), 2, 7), ('ScatLayer(near_sym_b_bp, magbias=0.1)', ScatLayer(biort='near_sym_b_bp', magbias=0.1).to(dt), 2, 19),
                                   ('ScatLayer(combine_colour)', ScatLayer(combine_colour=True).to(dt), 3, 7), ('ScatLayerj2()', ScatLayerj2().to(dt), 1, 10)):
            N = 128 if 'j2' in name else 64
            if name.endswith(' '):
                N = 28 if 'j2' in name else 27          # sizes the layers extend first (not a multiple of 8 / odd)
            x = img((3, C, N, N), dt) * 0.25; where = (1, 0, N // 2, N // 2)
            colour = 'colour' in name

            def info(k, a, N=N, where=where, colour=colour, j2='j2' in name):
                s = max(1, int(round(N / a.shape[2])))
                return ((0, None if colour else None), (2, 3), (2 if j2 else 1), float(s), (where[2], where[3]), (N, N))
            # channel axis of the scattering output mixes input channels and orientations: only the BATCH axis separates slices there
            G.append((name + ' on %dx%d' % (N, N), lambda t, mod=mod: mod(t), x, where, info, Lm + 2, False))
    if prop == 'C19':
        for (wave, mode, N) in (('db2', 'zero', 32), ('db2', 'periodization', 32), ('db3', 'symmetric', 40)):
            w = pywt.Wavelet(wave); Lm = w.dec_len
            x = img((2, 2, N, N)); where = (0, 1, N // 2, N // 2)

            def info(k, a, N=N, where=where):
                # (N, 4C, h, w): channel c occupies planes 4c .. 4c+3 -> no single channel axis; compare batch + far only
                return ((0, None), (2, 3), 1, 2.0, (where[2], where[3]), (N, N))
            G.append(('afb2d_nonsep(%s, %s) on %dx%d' % (wave, mode, N, N), lambda t, w=w, mode=mode: L.afb2d_nonsep(t, (w.dec_lo, w.dec_hi), mode=mode), x, where, info, Lm, mode == 'periodization'))
            xe = img((2, 1, N, N)).expand(-1, 3, -1, -1)
            G.append(('afb2d_nonsep(%s, %s) on a channel-broadcast (stride-0) %dx%d image' % (wave, mode, N, N),
                      lambda t, w=w, mode=mode: L.afb2d_nonsep(t, (w.dec_lo, w.dec_hi), mode=mode), xe.contiguous(), (0, 0) + where[2:], info, Lm, mode == 'periodization'))
    return G


def _close(a, b):
    if a.shape != b.shape or a.dtype != b.dtype:
        return False, 'shape / dtype %s %s vs %s %s' % (a.shape, a.dtype, b.shape, b.dtype)
    if a.size == 0:
        return True, ''
    af = a.astype(np.float64); bf = b.astype(np.float64)
    sc = max(1.0, float(np.max(np.abs(bf))))
    d = float(np.max(np.abs(af - bf)))
    tol = (1e-11 if a.dtype == np.float64 else 1e-4) * sc
    return (d <= tol), 'differs by %.3g (scale %.3g)' % (d, sc)


def forms(ck, name, call, x, replay, call_all=None):
    """the same VALUES handed over as tensors of other forms: expanded (stride-0) along the channel or the batch axis, a stepped view
    with a storage offset into a larger buffer, channels-last memory, a leaf that requires grad (with autograd recording, under no_grad
    and under inference_mode), a torch.nn.Parameter.  Every form must give what the plain contiguous tensor gives."""
    import torch

    def run(t, ctx=None):
        if ctx is None:
            return [o.detach().cpu().numpy().copy() for o in _tensors(call(t), [])]
        with ctx:
            return [o.detach().cpu().numpy().copy() for o in _tensors(call(t), [])]

    variants = []
    N, C = x.shape[0], x.shape[1]
    if C > 1:
        xe = x[:, :1].expand(*([-1, C] + [-1] * (x.dim() - 2)))
        variants.append(('channel axis expanded from one channel (stride 0)', xe.contiguous(), lambda: xe, torch.no_grad))
    if N > 1:
        xb = x[:1].expand(*([N] + [-1] * (x.dim() - 1)))
        variants.append(('batch axis expanded from one item (stride 0)', xb.contiguous(), lambda: xb, torch.no_grad))
    big = torch.zeros(tuple(x.shape[:-1]) + (2 * x.shape[-1] + 3,), dtype=x.dtype)
    big[..., 1:2 * x.shape[-1] + 1:2] = x
    variants.append(('every other sample of a wider buffer, storage offset 1', x, lambda: big[..., 1:2 * x.shape[-1] + 1:2], torch.no_grad))
    if x.dim() == 4:
        variants.append(('channels-last memory', x, lambda: x.contiguous(memory_format=torch.channels_last), torch.no_grad))
        variants.append(('transposed memory (last two axes)', x, lambda: x.transpose(2, 3).contiguous().transpose(2, 3), torch.no_grad))
    variants.append(('a leaf that requires grad, autograd recording', x, lambda: x.clone().requires_grad_(True), torch.enable_grad))
    variants.append(('a leaf that requires grad, under torch.no_grad()', x, lambda: x.clone().requires_grad_(True), torch.no_grad))
    variants.append(('a leaf that requires grad, under torch.inference_mode()', x, lambda: x.clone().requires_grad_(True), torch.inference_mode))
    variants.append(('a torch.nn.Parameter, under torch.no_grad()', x, lambda: torch.nn.Parameter(x.clone()), torch.no_grad))
    variants.append(('a non-leaf that requires grad (x * 1), autograd recording', x, lambda: x.clone().requires_grad_(True) * 1.0, torch.enable_grad))
    if call_all is not None:
        # EVERY tensor argument in the other form at once (a pyramid held as batch-1 parameters and expanded over the batch)
        def allrun(f):
            with torch.no_grad():
                return [o.detach().cpu().numpy().copy() for o in _tensors(call_all(f), [])]
        for label, f in (('every input expanded over the batch from one item (stride 0)', lambda t: t[:1].expand(*([max(2, t.shape[0])] + [-1] * (t.dim() - 1)))),
                         ('every input expanded over the channels from one channel (stride 0)', lambda t: t[:, :1].expand(*([-1, max(2, t.shape[1])] + [-1] * (t.dim() - 2)))),
                         ('every input a stepped view with a storage offset', lambda t: torch.cat([torch.zeros_like(t)[..., :1], torch.stack([t, torch.zeros_like(t)], dim=-1).flatten(-2)], dim=-1)[..., 1::2])):
            with history.off():
                try:
                    want = allrun(lambda t: f(t).contiguous())
                except Exception:
                    continue
                try:
                    got = allrun(f)
                except Exception as e:
                    ck.fail('tensor forms: %s given %s raises %s: %s (contiguous copies of the same values are accepted)' % (name, label, type(e).__name__, str(e)[:100]), dict(replay, form=label))
                    return
            for k, (a, b) in enumerate(zip(got, want)):
                ok, why = _close(a, b)
                if not ok:
                    ck.fail('tensor forms: %s given %s: output %d %s from what contiguous copies of the same values give' % (name, label, k, why), dict(replay, form=label))
                    return
    # complex data through a module converted to the complex dtype (the filters are real: T(a + ib) = T(a) + i T(b)); an empty batch
    with history.off(), torch.no_grad():
        try:
            base = [o for o in _tensors(call(x), [])]
        except Exception:
            base = None
        if base is not None and x.shape[0] >= 1 and x.is_floating_point() and call_all is None and 'Inverse' not in name:
            try:
                e = [o for o in _tensors(call(x[:0]), [])]
            except Exception:
                e = None
            if e is not None:
                for k, (a, b) in enumerate(zip(e, base)):
                    if a.dim() == b.dim() and a.dim() >= 2 and b.shape[0] == x.shape[0] and (a.shape[0] != 0 or tuple(a.shape[1:]) != tuple(b.shape[1:])):
                        ck.fail('tensor forms: %s given an EMPTY batch returns output %d of shape %s; a batch of %d gives %s' % (name, k, tuple(a.shape), x.shape[0], tuple(b.shape)),
                                dict(replay, form='empty batch'))
                        return
    with history.off():
        for label, plain, make, ctx in variants:
            try:
                with torch.no_grad():
                    want = run(plain)
            except Exception:
                continue
            try:
                got = run(make(), ctx())
            except Exception as e:
                ck.fail('tensor forms: %s given %s raises %s: %s (the plain contiguous tensor of the same values is accepted)' % (name, label, type(e).__name__, str(e)[:100]),
                        dict(replay, form=label))
                return
            if len(got) != len(want):
                ck.fail('tensor forms: %s given %s returns %d outputs instead of %d' % (name, label, len(got), len(want)), dict(replay, form=label)); return
            for k, (a, b) in enumerate(zip(got, want)):
                ok, why = _close(a, b)
                if not ok:
                    ck.fail('tensor forms: %s given %s: output %d %s from what the plain contiguous tensor of the same values gives' % (name, label, k, why), dict(replay, form=label))
                    return
    ck.oracle_ok(('forms', name), group='tensor-forms', sample={'what': 'tensor forms: ' + name, 'forms': len(variants)})


def transforms(ck, name, call, x, replay):
    """function transforms instead of plain calls: `torch.func.vmap` over an extra axis in several positions against the explicit loop,
    and - for the linear transforms - `torch.autograd.functional.jvp` (the double-backward trick through the hand-written backward
    passes) against the transform of the tangent.  A transform PyTorch refuses (custom Functions without a vmap rule) gives no
    verdict; one it accepts must agree."""
    import torch
    flat = lambda t: tuple(_tensors(call(t), []))
    B = 3
    with history.off():
        for d in (0, 1, 2):
            if d > x.dim():
                continue
            X = torch.stack([x * (i + 1) + i for i in range(B)], dim=d)
            try:
                with torch.no_grad():
                    got = torch.func.vmap(flat, in_dims=d)(X)
            except Exception:
                STATS_SKIP[0] += 1
                continue
            with torch.no_grad():
                want = [flat(X.select(d, i)) for i in range(B)]
            for k in range(len(want[0])):
                w = torch.stack([want[i][k] for i in range(B)], dim=0).numpy()
                ok, why = _close(got[k].detach().numpy(), w)
                if not ok:
                    ck.fail('function transforms: torch.func.vmap(%s, in_dims=%d) over %d slices: output %d %s from the explicit loop over the slices' % (name, d, B, k, why),
                            dict(replay, transform='vmap', in_dims=d))
                    return
        # (the DWT backward passes in the modes symmetric / reflect are the recorded C05 findings: no jvp through them)
        if not name.startswith('Scat') and not (name.startswith('DWT') and ('symmetric' in name or 'reflect' in name) and 'haar' not in name):
            v = (x.flip(-1) * 0.5 + 1.0).contiguous()
            try:
                _, jv = torch.autograd.functional.jvp(flat, (x.clone(),), (v,))
            except Exception:
                STATS_SKIP[0] += 1
                jv = None
            if jv is not None:
                with torch.no_grad():
                    lin = flat(v); zero = flat(torch.zeros_like(v))
                for k, (a, b, z) in enumerate(zip(jv, lin, zero)):
                    ok, why = _close(a.detach().numpy(), (b - z).numpy())
                    if not ok:
                        ck.fail('function transforms: torch.autograd.functional.jvp(%s, x, v): output %d %s from the transform of the tangent (the transform is linear)' % (name, k, why),
                                dict(replay, transform='jvp'))
                        return
    ck.oracle_ok(('transforms', name), group='function-transforms', sample={'what': 'function transforms: ' + name})


STATS_SKIP = [0]


def mutate_after(ck, name, call, x, replay):
    """the caller overwrites its input IN PLACE after the call has returned and before it back-propagates (a batch buffer refilled, an
    in-place clamp): the gradient of the earlier call is the gradient at the values it was given - or autograd refuses (its version
    check on saved tensors); it is never silently computed from the new contents"""
    import torch
    with history.off():
        def run(mutate):
            leaf = x.clone().requires_grad_(True)
            xx = leaf * 1.0
            outs = [o for o in _tensors(call(xx), []) if o.numel() and o.requires_grad]
            cots = [torch.arange(1, o.numel() + 1, dtype=o.dtype).reshape(o.shape) / o.numel() for o in outs]
            if mutate:
                with torch.no_grad():
                    xx.mul_(-0.5).add_(3.0)
            (g,) = torch.autograd.grad(outs, leaf, cots)
            return g.detach().numpy().copy()
        try:
            base = run(False)
        except Exception:
            return
        try:
            got = run(True)
        except RuntimeError:
            ck.oracle_ok(('mutate-after-refused', name), group='input-overwritten', nontriv=False)
            return
        ok, why = _close(got, base)
        if not ok:
            ck.fail('input overwritten in place between the call and its backward pass: gradient of %s %s from the gradient at the values the call was given (and autograd did not refuse)' % (name, why),
                    dict(replay, step='mutate-after'))
            return
    ck.oracle_ok(('mutate-after', name), group='input-overwritten', sample={'what': 'input overwritten in place before backward: ' + name})


def cot_confine(ck, name, call, x, replay, info=None, Lmax=0, circular=False):
    """a cotangent that is non-finite in ONE entry of ONE batch item: the gradients of the other batch items are bit-identical to those
    of the finite cotangent (batch items never meet in any of these transforms, forward or backward)"""
    import torch
    if x.shape[0] < 2:
        return
    with history.off():
        def grads(poison):
            xx = x.clone().requires_grad_(True)
            outs = [o for o in _tensors(call(xx), []) if o.numel() and o.requires_grad]
            cots = [torch.arange(1, o.numel() + 1, dtype=o.dtype).reshape(o.shape) / o.numel() for o in outs]
            if poison is not None:
                k = len(outs) - 1
                idx = (0,) + tuple(d // 2 for d in outs[k].shape[1:])
                cots[k] = cots[k].clone(); cots[k][idx] = poison
            (g,) = torch.autograd.grad(outs, xx, cots)
            return g.detach().numpy().copy()
        try:
            base = grads(None)
        except Exception:
            return
        for val in (float('nan'), float('inf')):
            try:
                got = grads(val)
            except Exception as e:
                ck.fail('special values: backward of %s with %r in one cotangent entry of batch item 0 raises %s' % (name, val, type(e).__name__), dict(replay, value=repr(val))); return
            # ... and inside batch item 0: the other channels, and every pixel further from the poisoned coefficient than its cone
            if info is not None and not name.startswith('Scat'):
                with torch.no_grad():
                    outs0 = [o for o in _tensors(call(x), []) if o.numel()]
                kk = len(outs0) - 1
                inf_ = info(kk, outs0[kk].numpy())
                if inf_ is not None:
                    (bax, cax), hw, j, scale, _c, n_in = inf_
                    pidx = (0,) + tuple(d // 2 for d in outs0[kk].shape[1:])
                    keep = np.zeros(base.shape[1:], dtype=bool)
                    if cax is not None:
                        m = np.ones(base.shape[1], dtype=bool); m[pidx[cax]] = False
                        keep |= m.reshape([-1] + [1] * (base.ndim - 2))
                    R = (2 ** j) * (Lmax + 2)
                    for ax_in, ax_out in zip(range(2, base.ndim), hw):
                        n = base.shape[ax_in]
                        d = np.abs(np.arange(n) + 0.5 - (pidx[ax_out] + 0.5) * scale)
                        if circular:
                            d = np.minimum(d, n - d)
                        sh = [1] * (base.ndim - 1); sh[ax_in - 1] = n
                        keep |= (d > R).reshape(sh)
                    a0, b0 = base[0], got[0]
                    bad0 = keep & ~((a0 == b0) | (np.isnan(a0) & np.isnan(b0)))
                    if bad0.any():
                        idx = tuple(int(v[0]) for v in np.nonzero(bad0))
                        ck.fail('special values: backward of %s: %r in the cotangent of coefficient %s of output %d changes the gradient at %s of the same batch item, outside the dependence cone of that coefficient (another channel or more than %d samples away): %r instead of %r [%d such entries]'
                                % (name, val, pidx, kk, idx, R, float(b0[idx]), float(a0[idx]), int(bad0.sum())), dict(replay, value=repr(val)))
                        return
            a, b = base[1:], got[1:]
            same = (a == b) | (np.isnan(a) & np.isnan(b))
            if not same.all():
                idx = tuple(int(v[0]) for v in np.nonzero(~same))
                ck.fail('special values: backward of %s: %r in one cotangent entry of batch item 0 changes the gradient of batch item %d at %s: %r instead of %r [%d entries of other batch items changed]'
                        % (name, val, idx[0] + 1, idx[1:], float(b[idx]), float(a[idx]), int((~same).sum())), dict(replay, value=repr(val)))
                return
    ck.oracle_ok(('cot-confine', name), group='special-values', sample={'what': 'non-finite cotangent entries confined to their batch item: ' + name})


def _cfgs(prop, rng):
    """(name pattern, constructor from a table / wavelet name, name a, name b of the same buffer shapes, run(module) -> outputs)"""
    import torch
    from pytorch_wavelets import DWTForward, DWTInverse, DWT1DForward, DTCWTForward, DTCWTInverse, ScatLayerj2
    from pytorch_wavelets.dwt.transform2d import SWTForward
    x4 = torch.tensor(np.array([rng.randint(-9, 9) for _ in range(2 * 2 * 32 * 32)], dtype=np.float64).reshape(2, 2, 32, 32))
    cfgs = []
    if prop in ('C01', 'C14', 'C17', 'C07', 'C02', 'C05', 'C15'):
        cfgs.append(('DWTForward(J=2, %s, zero)', lambda w: DWTForward(J=2, wave=w, mode='zero').double(), 'db4', 'sym4', lambda m: m(x4)))
        cfgs.append(('DWTForward(J=2, %s, symmetric)', lambda w: DWTForward(J=2, wave=w, mode='symmetric').double(), 'db4', 'sym4', lambda m: m(x4)))
        cfgs.append(('DWTForward(J=1, %s, reflect)', lambda w: DWTForward(J=1, wave=w, mode='reflect').double(), 'db3', 'sym3', lambda m: m(x4)))
        cfgs.append(('DWT1DForward(J=2, %s, periodization)', lambda w: DWT1DForward(J=2, wave=w, mode='periodization').double(), 'db4', 'sym4', lambda m: m(x4[:, :, 0])))
    if prop in ('C10', 'C02', 'C07', 'C15'):
        fw = DWTForward(J=2, wave='sym4', mode='zero').double()
        with history.off(), torch.no_grad():
            yl, yh = fw(x4)
        cfgs.append(('DWTInverse(%s, zero)', lambda w: DWTInverse(wave=w, mode='zero').double(), 'db4', 'sym4', lambda m: m((yl, list(yh)))))
    if prop in ('C13', 'C15'):
        cfgs.append(('SWTForward(J=2, %s)', lambda w: SWTForward(J=2, wave=w, mode='periodization').double(), 'db4', 'sym4', lambda m: m(x4)))
    if prop in ('C03', 'C12', 'C04', 'C06', 'C16', 'C15'):
        cfgs.append(('DTCWTForward(J=3, near_sym_a, %s)', lambda q: DTCWTForward(J=3, biort='near_sym_a', qshift=q).double(), 'qshift_a', 'qshift_06', lambda m: m(x4)))
    if prop in ('C11', 'C04', 'C06', 'C15'):
        fwd = DTCWTForward(J=3, biort='near_sym_a', qshift='qshift_06').double()
        with history.off(), torch.no_grad():
            dl, dh = fwd(x4)
        cfgs.append(('DTCWTInverse(near_sym_a, %s)', lambda q: DTCWTInverse(biort='near_sym_a', qshift=q).double(), 'qshift_a', 'qshift_06', lambda m: m((dl, list(dh)))))
        cfgs.append(('DTCWTInverse(near_sym_a, %s) with level 2 given as torch.tensor([]) and level 3 as a 0-d placeholder', lambda q: DTCWTInverse(biort='near_sym_a', qshift=q).double(),
                     'qshift_a', 'qshift_06', lambda m: m((dl, [dh[0], torch.tensor([], dtype=torch.float64), torch.tensor(0.0, dtype=torch.float64)]))))
        cfgs.append(('DTCWTInverse(near_sym_a, %s) with the low-pass given as torch.tensor([])', lambda q: DTCWTInverse(biort='near_sym_a', qshift=q).double(),
                     'qshift_a', 'qshift_06', lambda m: m((torch.tensor([], dtype=torch.float64), list(dh)))))
    if prop in ('C08', 'C09', 'C16', 'C15'):
        from pytorch_wavelets import ScatLayer
        x3 = torch.tensor(np.array([rng.randint(0, 255) for _ in range(2 * 3 * 32 * 32)], dtype=np.float32).reshape(2, 3, 32, 32))
        cfgs.append(('ScatLayer(%s, combine_colour=True) in float32 on 0..255 data', lambda b_: ScatLayer(biort=b_, combine_colour=True).float(), 'near_sym_a', 'near_sym_b', lambda m: m(x3)))
        cfgs.append(('ScatLayerj2(%s, combine_colour=True) in float32 on 0..255 data', lambda b_: ScatLayerj2(biort=b_, combine_colour=True).float(), 'near_sym_a', 'near_sym_b', lambda m: m(x3)))
    if prop in ('C08', 'C09', 'C15'):
        cfgs.append(('ScatLayerj2(near_sym_a, %s)', lambda q: ScatLayerj2(biort='near_sym_a', qshift=q).double(), 'qshift_a', 'qshift_06', lambda m: m(x4)))
    return cfgs


def substituted(ck, prop):
    """a module IS its registered state: called with the buffers of another configuration of the same shapes - through
    `torch.func.functional_call`, after `load_state_dict(..., assign=True)`, after plain attribute assignment of the buffers - it computes
    what a module constructed with that configuration computes"""
    import torch
    cfgs = _cfgs(prop, ck.rng)
    for nm, make, a, b, run in cfgs:
        with history.off(), torch.no_grad():
            A = make(a); Bm = make(b)
            sa, sb = A.state_dict(), Bm.state_dict()
            if set(sa) != set(sb) or any(sa[k].shape != sb[k].shape for k in sa):
                continue
            want = [t.numpy().copy() for t in _tensors(run(Bm), [])]
            own = [t.numpy().copy() for t in _tensors(run(A), [])]
            if all(_close(u, v)[0] for u, v in zip(own, want)):
                continue          # the two configurations do not differ: nothing to see
            def fc():
                M = make(a)
                class W(torch.nn.Module):
                    def __init__(s_, m): super().__init__(); s_.m = m
                    def forward(s_): return run(s_.m)
                return torch.func.functional_call(W(M), {'m.' + k: v.clone() for k, v in sb.items()}, ())
            def assign():
                M = make(a); M.load_state_dict({k: v.clone() for k, v in sb.items()}, assign=True); return run(M)
            def plain():
                M = make(a); M.load_state_dict({k: v.clone() for k, v in sb.items()}); return run(M)
            def setattrs():
                M = make(a)
                for k, v in sb.items():
                    setattr(M, k, v.clone())
                return run(M)
            for label, f in (('torch.func.functional_call with the buffers of %s' % b, fc), ('load_state_dict(state of %s, assign=True)' % b, assign),
                             ('load_state_dict(state of %s)' % b, plain), ('the buffers of %s assigned as attributes' % b, setattrs)):
                try:
                    got = [t.detach().numpy().copy() for t in _tensors(f(), [])]
                except Exception:
                    continue
                bad = [k for k, (u, v) in enumerate(zip(got, want)) if not _close(u, v)[0]]
                if bad or len(got) != len(want):
                    k = bad[0] if bad else 0
                    ck.fail('substituted state: %s constructed with %s and given %s: output %d %s from what the module constructed with %s returns' % (
                        nm % a, a, label, k, _close(got[k], want[k])[1] if bad else 'count differs', b),
                        {'oracle': 'locality', 'prop': prop, 'group': '__substituted__'})
                    return
        ck.oracle_ok(('substituted', nm), group='substituted-state', sample={'what': 'substituted state: ' + (nm % a) + ' <- ' + b})


def reached(ck, prop):
    """how the object is reached, what the process looks like at call time, how long the object has been in use: a shallow copy, a
    subclass, `forward` called directly or by keyword, a member of a parent module that is converted / switched / visited, a state
    dict with a prefix or with extra keys; grad mode off globally, deterministic algorithms, one thread, oneDNN off, warnings as
    errors, anomaly detection, NumPy errors raised; two hundred earlier calls on three shapes.  None of it changes the result."""
    import torch, copy, inspect, warnings, contextlib
    for nm, make, a, b, run in _cfgs(prop, ck.rng):
        name = nm % a
        with history.off(), torch.no_grad():
            want0 = [t.numpy().copy() for t in _tensors(run(make(a)), [])]

        def check(label, f, ref=None):
            want = ref if ref is not None else want0
            try:
                with history.off():
                    got = [t.detach().numpy().copy() for t in _tensors(f(), [])]
            except Exception as e:
                ck.fail('object / environment: %s %s raises %s: %s (a plain call of a fresh instance returns)' % (name, label, type(e).__name__, str(e)[:100]),
                        {'oracle': 'locality', 'prop': prop, 'group': '__reached__'})
                return False
            if len(got) != len(want):
                ck.fail('object / environment: %s %s returns %d outputs instead of %d' % (name, label, len(got), len(want)), {'oracle': 'locality', 'prop': prop, 'group': '__reached__'})
                return False
            for k, (u, v) in enumerate(zip(got, want)):
                if u.shape != v.shape or u.dtype != v.dtype or not (np.abs(u.astype(np.float64) - v.astype(np.float64)) <= (1e-9 if u.dtype == np.float64 else 2e-6) * max(1.0, float(np.max(np.abs(v))) if v.size else 1.0)).all():
                    ck.fail('object / environment: %s %s: output %d %s from a plain call of a fresh instance' % (name, label, k, _close(u, v)[1]), {'oracle': 'locality', 'prop': prop, 'group': '__reached__'})
                    return False
            return True

        def ng(f):
            def g():
                with torch.no_grad():
                    return f()
            return g
        M = make(a)
        pname = [p_ for p_ in inspect.signature(M.forward).parameters][0]
        Sub = type('Sub' + type(M).__name__, (type(M),), {})
        class Over(type(M)):
            def forward(self, *a_, **k_):
                return super().forward(*a_, **k_)

        def as_class(cls):
            m = make(a); m.__class__ = cls; return m

        def in_parent(fn):
            m = make(a); par = torch.nn.Sequential(torch.nn.Identity(), m); fn(par); return m

        def sd_prefix():
            m = make(a); sd = {k[len('p.'):]: v for k, v in make(a).state_dict(prefix='p.').items()}; m.load_state_dict(sd); return m

        def sd_extra():
            m = make(a); sd = dict(make(a).state_dict()); sd['not_a_buffer_of_this_module'] = torch.zeros(3); m.load_state_dict(sd, strict=False); return m

        def many_calls():
            m = make(a)
            for i in range(200):
                run(m) if i % 3 == 0 else None
                try:
                    if i % 3 == 1 and isinstance(m, torch.nn.Module):
                        # other shapes in between, where the module takes a plain image
                        x_ = torch.ones(1, 1, 8 + (i % 5), 12) if 'Inverse' not in name and '1D' not in name else None
                        if x_ is not None:
                            m(x_.double())
                except Exception:
                    pass
            return run(m)
        def copy_reconfigured():
            m = make(a); other = copy.copy(m)
            for attr, val in (('mode', 'symmetric' if getattr(m, 'mode', None) != 'symmetric' else 'zero'), ('J', 1), ('o_dim', 1), ('ri_dim', 2), ('magbias', 0.5), ('combine_colour', True),
                              ('skip_hps', [True] * 8), ('include_scale', [True] * 8)):
                if hasattr(other, attr):
                    try:
                        setattr(other, attr, val)
                    except Exception:
                        pass
            return run(m)
        def reregistered():
            m = make(a)
            for k_, v_ in reversed(list(m.named_buffers())):
                if '.' in k_:
                    continue
                delattr(m, k_); m.register_buffer(k_, v_)
            return run(m)
        reach = [('through copy.copy (buffers shared with the original)', ng(lambda: run(copy.copy(make(a))))),
                 ('after its buffers were deleted and registered again under the same names in the opposite order', ng(reregistered)),
                 ('after a shallow copy of it was re-configured (mode, J, layout, options set on the COPY)', ng(copy_reconfigured)),
                 ('as an instance of a subclass that overrides nothing', ng(lambda: run(as_class(Sub)))),
                 ('as an instance of a subclass whose forward calls super().forward', ng(lambda: run(as_class(Over)))),
                 ('through module.forward(...) instead of module(...)', ng(lambda: run(make(a).forward))),
                 ('with its argument passed by keyword (%s=...)' % pname, ng(lambda: run(lambda arg, m=make(a): m(**{pname: arg})))),
                 ('as a member of a Sequential that is switched to eval() and back', ng(lambda: run(in_parent(lambda p_: (p_.eval(), p_.train()))))),
                 ('as a member of a Sequential after .to(its own dtype), .to("cpu"), requires_grad_(False), zero_grad(), apply(visitor), share_memory()',
                  ng(lambda: run(in_parent(lambda p_: (p_.to((list(p_.buffers()) + list(p_.parameters()))[0].dtype), p_.to('cpu'), p_.requires_grad_(False), p_.zero_grad(), p_.apply(lambda m_: None), p_.share_memory()))))),
                 ('after loading its own state saved with a prefix', ng(lambda: run(sd_prefix()))),
                 ('after load_state_dict(strict=False) of its own state plus an unknown key', ng(lambda: run(sd_extra()))),
                 ('after two hundred earlier calls on three shapes', ng(many_calls))]

        @contextlib.contextmanager
        def env(setup, restore):
            old = setup()
            try:
                yield
            finally:
                restore(old)

        def in_env(cm, build_inside):
            def g():
                if build_inside:
                    with cm():
                        with torch.no_grad():
                            return run(make(a))
                m = make(a)
                with cm():
                    with torch.no_grad():
                        return run(m)
            return g
        envs = [('with torch.set_grad_enabled(False) set globally', lambda: env(lambda: (torch.is_grad_enabled(), torch.set_grad_enabled(False))[0], lambda o: torch.set_grad_enabled(o))),
                ('under torch.use_deterministic_algorithms(True)', lambda: env(lambda: (torch.are_deterministic_algorithms_enabled(), torch.use_deterministic_algorithms(True))[0], lambda o: torch.use_deterministic_algorithms(o))),
                ('with torch.set_num_threads(1)', lambda: env(lambda: (torch.get_num_threads(), torch.set_num_threads(1))[0], lambda o: torch.set_num_threads(o))),
                ('with oneDNN switched off (torch.backends.mkldnn.flags(enabled=False))', lambda: torch.backends.mkldnn.flags(enabled=False)),
                ('with warnings turned into errors', lambda: env(lambda: (warnings.filters[:], warnings.simplefilter('error'))[0], lambda o: warnings.filters.__setitem__(slice(None), o))),
                ('under torch.autograd.set_detect_anomaly(True)', lambda: torch.autograd.set_detect_anomaly(True)),
                ('with NumPy floating-point errors raised (np.errstate(all="raise"))', lambda: np.errstate(all='raise')),
                ('with torch.set_float32_matmul_precision("medium")', lambda: env(lambda: (torch.get_float32_matmul_precision(), torch.set_float32_matmul_precision('medium'))[0],
                                                                                   lambda o: torch.set_float32_matmul_precision(o))),
                ('with np.printoptions(precision=2, suppress=True)', lambda: np.printoptions(precision=2, suppress=True))]
        # a shallow copy that is then given another depth behaves like an instance that was given that depth itself
        if hasattr(M, 'J') and isinstance(getattr(M, 'J'), int) and M.J >= 2:
            try:
                with history.off(), torch.no_grad():
                    m2 = make(a); m2.J = m2.J - 1
                    ref2 = [t.numpy().copy() for t in _tensors(run(m2), [])]
            except Exception:
                ref2 = None
            if ref2 is not None:
                def copy_set():
                    c_ = copy.copy(make(a)); c_.J = c_.J - 1; return run(c_)
                if not check('as a shallow copy whose J was then lowered by one (against an instance whose own J was lowered)', ng(copy_set), ref2):
                    return
        ok = True
        for label, f in reach:
            ok = check(label, f) and ok
            if not ok:
                return
        for label, cm in envs:
            for inside in (False, True):
                if not check(label + (' (module constructed inside too)' if inside else ''), in_env(cm, inside)):
                    return
        ck.oracle_ok(('reached', name), group='object-and-environment', sample={'what': 'object / environment: ' + name, 'variants': len(reach) + 2 * len(envs)})


def optimized(ck, prop):
    """the interpreter flag `-O` (PYTHONOPTIMIZE) strips `assert` statements: a transform must not compute anything inside one.  The
    outputs (and gradients) of the property's objects are computed once more in a `python -O` child process and compared."""
    import subprocess, tempfile, pickle, os
    from . import optimized_child
    seed = ck.rng.randrange(2 ** 31)
    with tempfile.TemporaryDirectory() as d:
        f = os.path.join(d, 'o.pkl')
        r = subprocess.run([sys.executable, '-O', '-m', 'harness.optimized_child', prop, str(seed), f], cwd=os.path.dirname(os.path.dirname(os.path.abspath(__file__))),
                           capture_output=True, timeout=600)
        if r.returncode != 0 or not os.path.exists(f):
            if len(ck.oracle['samples']) < 6:
                ck.oracle['samples'].append({'python -O': 'child did not finish: %s' % r.stderr.decode()[-200:]})
            return
        child = pickle.load(open(f, 'rb'))
    if child.pop('__debug__', True):
        return
    mine = optimized_child.compute(prop, seed)
    for name, (st, val) in mine.items():
        cst, cval = child.get(name, ('missing', None))
        rep = {'oracle': 'locality', 'prop': prop, 'group': '__optimized__'}
        if st != cst:
            ck.fail('python -O: %s %s with asserts stripped (%s) but %s with them (%s)' % (name, 'raises' if cst == 'raise' else 'returns', cval if cst == 'raise' else '',
                                                                                            'raises' if st == 'raise' else 'returns', val if st == 'raise' else ''), rep)
            return
        if st == 'ok':
            if len(val) != len(cval):
                ck.fail('python -O: %s returns %d outputs with asserts stripped, %d with them' % (name, len(cval), len(val)), rep); return
            for k, (a, b) in enumerate(zip(cval, val)):
                ok, why = _close(a, b)
                if not ok:
                    ck.fail('python -O: %s: output %d %s between an interpreter that strips asserts and one that does not' % (name, k, why), rep); return
    ck.oracle_ok(('optimized', prop), group='python -O', sample={'what': 'python -O child agrees on %d groups' % len(mine)})


def loader_env(ck):
    """the table loader in other process environments, FIRST loads included (the cache is emptied first): warnings turned into errors,
    NumPy errors raised, other NumPy print options, deterministic algorithms - every shipped table loads and is the table a plain load
    returns"""
    import warnings, contextlib, torch
    import pytorch_wavelets.dtcwt.coeffs as C
    names1 = ['antonini', 'legall', 'near_sym_a', 'near_sym_b', 'near_sym_b_bp', 'farras', 'near_sym_a2']
    names2 = ['qshift_06', 'qshift_a', 'qshift_b', 'qshift_c', 'qshift_d', 'qshift_b_bp', 'qshift_32']

    def load_all():
        res = {}
        for n in names1:
            try:
                res['level1:' + n] = ('ok', [np.array(a) for a in C.level1(n)])
            except Exception as e:
                res['level1:' + n] = ('raise', type(e).__name__)
        for n in names2:
            try:
                res['qshift:' + n] = ('ok', [np.array(a) for a in C.qshift(n)])
            except Exception as e:
                res['qshift:' + n] = ('raise', type(e).__name__)
        return res
    want = load_all()

    @contextlib.contextmanager
    def werr():
        old = warnings.filters[:]
        warnings.simplefilter('error')
        try:
            yield
        finally:
            warnings.filters[:] = old
    envs = [('with warnings turned into errors', werr), ('with NumPy floating-point errors raised', lambda: np.errstate(all='raise')),
            ('with np.printoptions(precision=2, suppress=True)', lambda: np.printoptions(precision=2, suppress=True))]
    for label, cm in envs:
        saved = dict(C.COEFF_CACHE)
        C.COEFF_CACHE.clear()
        try:
            with cm():
                got = load_all()
        finally:
            C.COEFF_CACHE.clear(); C.COEFF_CACHE.update(saved)
        for k, (st, val) in want.items():
            gst, gval = got[k]
            if st != gst or (st == 'ok' and (len(val) != len(gval) or any(not np.array_equal(a, b) for a, b in zip(val, gval)))):
                ck.fail('loader environment: %s on a first load %s %s (a plain load %s)' % (k, label, 'raises ' + str(gval) if gst == 'raise' else 'returns other values',
                                                                                        'raises ' + str(val) if st == 'raise' else 'returns the table'),
                        {'oracle': 'locality', 'prop': 'C18', 'group': '__loader_env__'})
                return
    ck.oracle_ok(('loader-env',), group='object-and-environment', sample={'what': 'first loads of all 14 tables in %d environments' % len(envs)})


def twins(ck, prop):
    """the same object in OTHER NUMBER FORMATS the library accepts: a 16-bit copy (`.half()`, `.bfloat16()`) on 16-bit data agrees with the
    float64 object to the accuracy of the format (outputs, and gradients for the gradient properties); a complex copy
    (`.to(torch.complex128)`) on complex data gives `T(re) + i T(im)` (the filters are real).  A format the library refuses gives no
    verdict."""
    import torch, pywt
    from pytorch_wavelets import DWTForward, DWTInverse, DWT1DForward, DWT1DInverse, DTCWTForward, DTCWTInverse, ScatLayer, ScatLayerj2
    from pytorch_wavelets.dwt.transform2d import SWTForward
    rng = ck.rng
    def img(shape, lo=-9, hi=9):
        return torch.tensor(np.array([rng.randint(lo, hi) for _ in range(int(np.prod(shape)))], dtype=np.float64).reshape(shape))
    T = []          # (name, make() -> float64 module, inputs, call(module, inputs), with_grad, complex_ok)
    fwd = lambda m, ins: m(ins[0])
    inv = lambda m, ins: m((ins[0], list(ins[1:])))
    if prop in ('C01', 'C02', 'C05', 'C07', 'C14', 'C17'):
        for mode in ('zero', 'periodization', 'symmetric'):
            T.append(('DWTForward(J=2, db2, %s)' % mode, lambda mode=mode: DWTForward(J=2, wave='db2', mode=mode).double(), [img((2, 2, 32, 32))], fwd, prop == 'C05' and mode != 'symmetric', True))
        T.append(('DWT1DForward(J=2, db3, periodization)', lambda: DWT1DForward(J=2, wave='db3', mode='periodization').double(), [img((2, 2, 64))], fwd, prop == 'C05', True))
    if prop in ('C02', 'C07', 'C10'):
        for (mode, n) in (('periodization', 4100), ('zero', 300), ('periodization', 300)):
            f1 = DWT1DForward(J=1, wave='db2', mode=mode).double()
            with history.off(), torch.no_grad():
                x0, hs = f1(img((1, 2, n)))
            T.append(('DWT1DInverse(db2, %s) of a pyramid of a %d-sample signal' % (mode, n), lambda mode=mode: DWT1DInverse(wave='db2', mode=mode).double(), [x0] + list(hs), inv, False, True))
        f2 = DWTForward(J=2, wave='db2', mode='periodization').double()
        with history.off(), torch.no_grad():
            yl, yh = f2(img((2, 2, 32, 32)))
        T.append(('DWTInverse(db2, periodization)', lambda: DWTInverse(wave='db2', mode='periodization').double(), [yl] + list(yh), inv, False, True))
    if prop == 'C13':
        T.append(('SWTForward(J=2, db2)', lambda: SWTForward(J=2, wave='db2', mode='periodization').double(), [img((2, 2, 32, 32))], fwd, False, True))
    if prop in ('C03', 'C06', 'C12', 'C04'):
        T.append(('DTCWTForward(J=2)', lambda: DTCWTForward(J=2).double(), [img((2, 2, 32, 32))], fwd, prop == 'C06', False))
    if prop in ('C08', 'C09', 'C16'):
        T.append(('ScatLayer()', lambda: ScatLayer().double(), [img((2, 3, 32, 32)) * 0.25], fwd, prop == 'C09', False))
        T.append(('ScatLayerj2(combine_colour=True)', lambda: ScatLayerj2(combine_colour=True).double(), [img((2, 3, 32, 32)) * 0.25], fwd, prop == 'C09', False))
    rep = {'oracle': 'locality', 'prop': prop, 'group': '__twins__'}

    def outs_and_grads(m, ins, with_grad):
        if not with_grad:
            with torch.no_grad():
                return [o.detach() for o in _tensors(call(m, ins), []) if o.numel() > 1]
        ins = [t.clone().requires_grad_(True) if i == 0 else t for i, t in enumerate(ins)]
        outs = [o for o in _tensors(call(m, ins), []) if o.numel() > 1 and o.requires_grad]
        cots = [(torch.arange(1, o.numel() + 1, dtype=torch.float64).reshape(o.shape) / o.numel()).to(o.dtype) for o in outs]
        (g,) = torch.autograd.grad(outs, ins[0], cots)
        return [o.detach() for o in outs] + [g]
    for name, make, ins, call, with_grad, cplx in T:
        with history.off():
            try:
                ref = outs_and_grads(make(), ins, with_grad)
            except Exception:
                continue
            for dt, tol in ((torch.float16, 0.02), (torch.bfloat16, 0.12)):
                try:
                    got = outs_and_grads(make().to(dt), [t.to(dt) for t in ins], with_grad)
                except Exception:
                    continue
                # the 16-bit object sees 16-bit DATA: the reference is the float64 object on the same (rounded) data
                try:
                    ref16 = outs_and_grads(make(), [t.to(dt).double() for t in ins], with_grad)
                except Exception:
                    continue
                for k, (a_, b_) in enumerate(zip(got, ref16)):
                    if a_.dtype != dt:
                        ck.fail('number formats: %s converted to %s on %s data returns output %d as %s' % (name, dt, dt, k, a_.dtype), dict(rep, dtype=str(dt))); return
                    sc = max(1.0, float(b_.abs().max()))
                    d = float((a_.double() - b_).abs().max()) if a_.shape == b_.shape else float('inf')
                    if not d <= tol * sc:
                        what = 'the gradient' if (with_grad and k == len(got) - 1) else 'output %d' % k
                        ck.fail('number formats: %s converted to %s on %s data: %s differs from the float64 object on the same data by %.3g (scale %.3g, far beyond the accuracy of the format)'
                                % (name, dt, dt, what, d, sc), dict(rep, dtype=str(dt))); return
            if cplx:
                try:
                    mc = make().to(torch.complex128)
                    re_ = ins; im_ = [t.flip(-1) * 0.5 + 1.0 for t in ins]
                    with torch.no_grad():
                        got = [o for o in _tensors(call(mc, [a_ + 1j * b_ for a_, b_ in zip(re_, im_)]), []) if o.numel() > 1]
                except Exception:
                    got = None
                if got is not None:
                    with torch.no_grad():
                        r1 = [o for o in _tensors(call(make(), re_), []) if o.numel() > 1]; r2 = [o for o in _tensors(call(make(), im_), []) if o.numel() > 1]
                    for k, (g_, a_, b_) in enumerate(zip(got, r1, r2)):
                        want = a_ + 1j * b_
                        sc = max(1.0, float(want.abs().max()))
                        if g_.shape != want.shape or not g_.is_complex() or float((g_ - want).abs().max()) > 1e-9 * sc:
                            ck.fail('number formats: %s converted to complex128 on complex data: output %d is not T(re) + i T(im) (differs by %.3g, scale %.3g; dtype %s)'
                                    % (name, k, float((g_ - want).abs().max()) if g_.shape == want.shape and g_.is_complex() else float('nan'), sc, g_.dtype), dict(rep, dtype='complex128')); return
        ck.oracle_ok(('twins', name), group='number-formats', sample={'what': 'number formats: ' + name})


def nearby_first(ck):
    """the functional non-separable banks called with a NEARBY filter set first (the taps rounded to three decimals), also while NumPy
    prints arrays with two decimals: a bank prepared for one filter set is never used for another"""
    import torch, pywt
    import pytorch_wavelets.dwt.lowlevel as L
    rng = ck.rng
    x = torch.tensor(np.array([rng.randint(-9, 9) for _ in range(2 * 16 * 16)], dtype=np.float64).reshape(1, 2, 16, 16))
    co = torch.tensor(np.array([rng.randint(-9, 9) for _ in range(2 * 4 * 9 * 9)], dtype=np.float64).reshape(1, 2, 4, 9, 9))
    for wn in ('db3', 'bior2.2', 'sym4'):
        w = pywt.Wavelet(wn)
        for mode in ('zero', 'periodization'):
            for label, f, taps in (('afb2d_nonsep', lambda t, mode=mode: L.afb2d_nonsep(x, t, mode=mode), (np.array(w.dec_lo), np.array(w.dec_hi))),
                                   ('sfb2d_nonsep', lambda t, mode=mode: L.sfb2d_nonsep(co, t, mode=mode), (np.array(w.rec_lo), np.array(w.rec_hi)))):
                near = tuple(np.round(t, 3) for t in taps)
                with history.off(), torch.no_grad():
                    want = f(taps).numpy().copy()
                    for env_label, cm in (('', lambda: np.printoptions()), (' while NumPy prints two decimals', lambda: np.printoptions(precision=2, suppress=True))):
                        with cm():
                            f(near)
                            got = f(taps).numpy().copy()
                        ok, why = _close(got, want)
                        if not ok:
                            ck.fail('nearby configuration first: %s(%s, %s) after a call with the same taps rounded to three decimals%s %s from its own first result' % (label, wn, mode, env_label, why),
                                    {'oracle': 'locality', 'prop': 'C19', 'group': '__nearby__'})
                            return
    ck.oracle_ok(('nearby-first',), group='object-and-environment', sample={'what': 'non-separable banks after a call with nearby taps, two print settings'})


def run_for(ck, prop, only=None):
    if prop == 'C18':
        rt.guard(ck, loader_env, ck)
        return
    try:
        if prop == 'C15':
            gs = [g for p_ in ('C09', 'C01', 'C03', 'C13') for g in groups(p_, ck.rng, ck.tier)]
        else:
            gs = groups({'C05': 'C01', 'C06': 'C03'}.get(prop, prop), ck.rng, ck.tier)
    except Exception as e:
        if len(ck.oracle['samples']) < 6:
            ck.oracle['samples'].append({'special-values': 'not built: %s' % (type(e).__name__ + ': ' + str(e)[:100])})
        return
    if only in (None, '__substituted__'):
        rt.guard(ck, substituted, ck, prop)
    if only in (None, '__reached__'):
        rt.guard(ck, reached, ck, prop)
    if only in (None, '__optimized__'):
        rt.guard(ck, optimized, ck, prop)
    if only in (None, '__twins__'):
        rt.guard(ck, twins, ck, prop)
    if prop == 'C19' and only in (None, '__nearby__'):
        rt.guard(ck, nearby_first, ck)
    for g in gs:
        name, call, x, where, info, Lm, circular = g[:7]
        call_all = g[7] if len(g) > 7 else None
        if only is not None and name != only:
            continue
        rt.guard(ck, disturb, ck, name, call, x, where, info, Lm, circular, {'oracle': 'locality', 'prop': prop, 'group': name})
        rt.guard(ck, forms, ck, name, call, x, {'oracle': 'locality', 'prop': prop, 'group': name}, call_all)
        rt.guard(ck, transforms, ck, name, call, x, {'oracle': 'locality', 'prop': prop, 'group': name})
        if prop in ('C05', 'C06', 'C09', 'C15'):
            rt.guard(ck, cot_confine, ck, name, call, x, {'oracle': 'locality', 'prop': prop, 'group': name}, info, Lm, circular)
            rt.guard(ck, mutate_after, ck, name, call, x, {'oracle': 'locality', 'prop': prop, 'group': name})
