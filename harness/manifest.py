"""Writes MANIFEST.json from the per-property registry below (python3 -m harness.manifest)."""
import json, os, importlib

ROOT = os.path.dirname(os.path.dirname(os.path.abspath(__file__)))

LEVEL_NOTE = ('Trusted base: Lean 4.33 kernel (axioms propext, Classical.choice, Quot.sound only; audited by #print axioms on every run; no sorry/native_decide/bv_decide); '
              'the assumed PyTorch/NumPy primitive semantics in lean/WaveletsVerif/Model/Torch.lean and the hand-written implementation model, both tied to /repo by the exact '
              'correspondence check on every run; the translators (npz tables, get_dimensions5/6, mode_to_int) and the Python harness/Lean driver; real arithmetic standing for float arithmetic; '
              'PyWavelets / numpy dtcwt as oracles for the Lean specifications.')

CLAIMS = {}


def claim(pid, text, technique, design_ref, note_extra=''):
    CLAIMS[pid] = dict(text=text, technique=technique, design_ref=design_ref, note=LEVEL_NOTE + (' ' + note_extra if note_extra else ''))


NOT_YET = {}


def build():
    props = [json.loads(l)['id'] for l in open(os.path.join(ROOT, 'properties.jsonl'))]
    from .claims import register
    register(claim, NOT_YET)
    checks = []
    for pid in props:
        if pid not in CLAIMS:
            continue
        c = CLAIMS[pid]
        checks.append({
            'property_id': pid,
            'quick_cmd': './check %s --tier quick' % pid,
            'thorough_cmd': './check %s --tier thorough' % pid,
            'evidence_file': 'evidence/%s.json' % pid,
            'replay_cmd_template': './check %s --replay {path}' % pid,
            'engine': 'lean-proof+correspondence',
            'level_claimed': {'category': 'proof', 'text': c['text'], 'design_ref': c['design_ref']},
            'level_note': c['note'],
            'technique': c['technique'],
        })
    man = {
        'version': 1,
        'setup_cmd': './setup.sh',
        'hooks': {
            'guard': 'PYTORCH_WAVELETS_VERIF',
            'enable': 'no source hooks are needed: every internal the harness calls is importable; the checks export PYTORCH_WAVELETS_VERIF=1 for uniformity',
            'baseline_off_cmd': 'cd /repo && env -u PYTORCH_WAVELETS_VERIF /venv/bin/python -m pytest -ra -q -p no:cacheprovider --timeout=900 --continue-on-collection-errors',
            'source_commits': [],
            'add_only': True,
        },
        'engines': [{
            'name': 'lean-proof+correspondence', 'path': 'lean/ + harness/',
            'serves_properties': [c['property_id'] for c in checks],
            'kind_free_text': 'Lean 4 theorems about an executable model of the code (lean/WaveletsVerif), model tied to /repo on every run by translators (Gen/*.lean) and by an exact differential correspondence check (harness/ + lean driver); property oracles (pywt, numpy dtcwt, autograd Jacobians) search for failing inputs',
        }],
        'checks': checks,
        'not_applicable': [{'property_id': p, 'reason': r} for p, r in NOT_YET.items() if p not in CLAIMS],
        'notes': 'See DESIGN.md. Known findings: KNOWN_FINDINGS.json. Seeded changes: seeded/.',
    }
    with open(os.path.join(ROOT, 'MANIFEST.json'), 'w') as f:
        json.dump(man, f, indent=1)
    return man


if __name__ == '__main__':
    m = build()
    print('claimed', [c['property_id'] for c in m['checks']])
    print('not_applicable', [c['property_id'] for c in m['not_applicable']])
