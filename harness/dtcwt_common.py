"""Shared pieces of the DTCWT property checks (C03 C04 C06 C11 C12 C18)."""
import numpy as np
from . import rt, gen, proto
from . import oracle_dtcwt as OD
from .dwt_common import TRUSTED as TRUSTED_DWT, same, arr_json, arr_from, load_replay

TRUSTED = [t for t in TRUSTED_DWT if 'PyWavelets' not in t] + [
    'the numpy `dtcwt` package is the oracle for the reference transform (real code compared with it directly; Lean spec formulas validated against it)',
    'DTCWT correspondence runs the model exactly over Q(sqrt2): 1/np.sqrt(2) is the only irrational constant; outputs compared to 1e-9 relative (structural differences are >= 0.29)',
]

LAYOUTS = [(o, r) for o in range(6) for r in range(6) if o != r]


def dt_filters(rng, analysis=True):
    """raw integer filters for the module constructors: (l0, l1) level-1 pair (odd lengths) and
    (a0, b0, a1, b1) q-shift quadruple (even length)"""
    Lo = rng.choice([3, 5, 7, 9, 13]); L1 = rng.choice([3, 5, 7, 9, 19]); m = 2 * rng.randint(1, 9)
    # the two trees of ONE pair have equal lengths; the low-pass pair and the high-pass pair need not (a legal 4-tuple)
    m1 = m if rng.random() < 0.5 else 2 * rng.randint(1, 9)
    return [gen.int_filter(rng, Lo), gen.int_filter(rng, L1)] + [gen.int_filter(rng, m) for _ in range(2)] + [gen.int_filter(rng, m1) for _ in range(2)]


def pyramid_shapes(H, W, J):
    """(low shape, [high (h,w)]) of DTCWTForward for an HxW image"""
    H += H % 2; W += W % 2
    hs = [(H // 2, W // 2)]
    lh, lw = H, W
    for j in range(1, J):
        if lh % 4: lh += 2
        if lw % 4: lw += 2
        lh //= 2; lw //= 2
        hs.append((lh // 2, lw // 2))
    return (lh, lw), hs


def canon_to_layout(t, o, ri):
    """(N,C,6,H,W,2) -> layout with the orientation axis at o and the real/imaginary axis at ri
    (independent of the library: numpy moveaxis on axis labels)"""
    o %= 6; ri %= 6
    labels = ['N', 'C', 'H', 'W']
    o5 = o - 1 if ri < o else o
    labels.insert(o5, 'O'); labels.insert(ri, 'R')
    canon = ['N', 'C', 'O', 'H', 'W', 'R']
    return np.transpose(t, [canon.index(l) for l in labels])


def layout_to_canon(t, o, ri):
    o %= 6; ri %= 6
    labels = ['N', 'C', 'H', 'W']
    o5 = o - 1 if ri < o else o
    labels.insert(o5, 'O'); labels.insert(ri, 'R')
    canon = ['N', 'C', 'O', 'H', 'W', 'R']
    return np.transpose(t, [labels.index(l) for l in canon])


def dtcwt_cases(ck, n, ops):
    rng = ck.rng
    q = ck.tier == 'quick'
    S = 16 if q else 32
    for it in range(n):
        op = ops[it % len(ops)]
        nb, c = gen.batch_channels(rng)
        sym = rng.choice([1, 1, 1, 0])
        hp = rng.randint(0, 1); skip = rng.choice([0, 0, 1])
        m = 2 * rng.randint(1, 9)
        ha = gen.int_filter(rng, m); hb = gen.int_filter(rng, m)
        Lo = rng.choice([3, 5, 7, 9, 13]); L1 = rng.choice([3, 5, 7, 9, 19])
        h0 = gen.int_filter(rng, Lo); h1 = gen.int_filter(rng, L1); h2 = gen.int_filter(rng, L1)
        hs = [gen.int_filter(rng, m) for _ in range(6)]
        tag = {'m': m, 'Lo': Lo, 'L1': L1}
        if op in ('colfilter', 'rowfilter'):
            L = rng.choice([3, 5, 7, 9, 13, 19, 2, 4, 6])
            x = gen.int_tensor(rng, (nb, c, rng.randint(1, S), rng.randint(1, S)))
            yield rt.Case('Q', op, [sym], [gen.int_filter(rng, L), x], dict(tag, L=L))
        elif op in ('coldfilt', 'rowdfilt'):
            a = rng.choice([4, 8, 12, 16, 20, 6, 10]); b = rng.randint(1, 9)
            x = gen.int_tensor(rng, (nb, c, a, b) if op == 'coldfilt' else (nb, c, b, a))
            yield rt.Case('Q', op, [hp], [ha, hb, x], tag)
        elif op in ('colifilt', 'rowifilt'):
            a = rng.choice([2, 4, 6, 8, 10, 16, 3]); b = rng.randint(1, 7)
            x = gen.int_tensor(rng, (nb, c, a, b) if op == 'colifilt' else (nb, c, b, a))
            yield rt.Case('Q', op, [hp], [ha, hb, x], tag)
        elif op == 'q2c':
            yield rt.Case('Q', 'q2c', [], [gen.int_tensor(rng, (nb, c, 2 * rng.randint(1, 5), 2 * rng.randint(1, 5)))], tag)
        elif op == 'c2q':
            sh = (nb, c, rng.randint(1, 5), rng.randint(1, 5))
            yield rt.Case('Q', 'c2q', [], [gen.int_tensor(rng, sh) for _ in range(4)], tag)
        elif op in ('fwd_j1', 'fwd_j1_rot'):
            x = gen.int_tensor(rng, (nb, c, 2 * rng.randint(1, S // 2), 2 * rng.randint(1, S // 2)))
            yield rt.Case('Q', op, [sym, skip], ([h0, h1] if op == 'fwd_j1' else [h0, h1, h2]) + [x], tag)
        elif op in ('fwd_j2plus', 'fwd_j2plus_rot'):
            x = gen.int_tensor(rng, (nb, c, rng.choice([4, 8, 12, 16, 6]), rng.choice([4, 8, 12, 16, 10])))
            yield rt.Case('Q', op, [skip], (hs[:4] if op == 'fwd_j2plus' else hs) + [x], tag)
        elif op in ('inv_j1', 'inv_j1_rot', 'inv_j2plus', 'inv_j2plus_rot'):
            r = rng.randint(1, 6); cc = rng.randint(1, 6)
            hr = gen.int_tensor(rng, (nb, c, 6, r, cc)); hi = gen.int_tensor(rng, (nb, c, 6, r, cc))
            ext = op.startswith('inv_j1')
            ll = gen.int_tensor(rng, (nb, c, 2 * r + (rng.choice([0, 0, 2]) if ext else 0), 2 * cc + (rng.choice([0, 0, 2]) if ext else 0)))
            which = rng.choice(['all', 'all', 'all', 'nohigh', 'nolow', 'zerohigh', 'zerolow'])
            if which == 'zerohigh':          # present but identically zero: NOT the same call as an absent band
                hr = np.zeros_like(hr); hi = np.zeros_like(hi)
            if which == 'zerolow':
                ll = np.zeros_like(ll)
            a = [ll if which != 'nolow' else None, hr if which != 'nohigh' else None, hi if which != 'nohigh' else None]
            if op == 'inv_j1':
                yield rt.Case('Q', op, [sym], [h0, h1] + a, dict(tag, absent=which))
            elif op == 'inv_j1_rot':
                yield rt.Case('Q', op, [sym], [h0, h1, h2] + a, dict(tag, absent=which))
            elif op == 'inv_j2plus':
                yield rt.Case('Q', op, [], hs[:4] + a, dict(tag, absent=which))
            else:
                yield rt.Case('Q', op, [], hs + a, dict(tag, absent=which))
        elif op == 'DTCWTForward':
            filt = dt_filters(rng)
            J = rng.randint(1, 3 if q else 4)
            x = gen.int_tensor(rng, (nb, c, rng.randint(2, S + 4), rng.randint(2, S + 4)), amp=3)
            o, ri = rng.choice(LAYOUTS) if rng.random() < 0.6 else (2, -1)
            if rng.random() < 0.25: o -= 6
            if rng.random() < 0.25 and ri >= 0: ri -= 6
            skm = rng.choice([0, 0, rng.randint(0, 2 ** J - 1)]); inm = rng.choice([0, 0, rng.randint(0, 2 ** J - 1)])
            yield rt.Case('Q', 'DTCWTForward', [o, ri, sym, J, skm, inm], filt + [x], dict(tag, J=J, o=o, ri=ri, skip=skm, incl=inm))
        elif op == 'DTCWTInverse':
            filt = dt_filters(rng)
            J = rng.randint(1, 3 if q else 4)
            H = rng.randint(2, S + 4); W = rng.randint(2, S + 4)
            o, ri = rng.choice(LAYOUTS) if rng.random() < 0.6 else (2, -1)
            if rng.random() < 0.25: o -= 6
            if rng.random() < 0.25 and ri >= 0: ri -= 6
            (lh, lw), hsz = pyramid_shapes(H, W, J)
            low = gen.int_tensor(rng, (nb, c, lh, lw), amp=3)
            highs = [canon_to_layout(gen.int_tensor(rng, (nb, c, 6, a, b, 2), amp=3), o, ri) for (a, b) in hsz]
            w = rng.random()
            absent = 'none'
            if w < 0.25:
                k = rng.randrange(J); highs[k] = None; absent = 'high%d' % (k + 1)
            elif w < 0.32:
                low = None; absent = 'low'
            elif w < 0.45:
                k = rng.randrange(J); highs[k] = np.zeros_like(highs[k]); absent = 'zeros-high%d' % (k + 1)
            elif w < 0.5:
                low = np.zeros_like(low); absent = 'zeros-low'
            yield rt.Case('Q', 'DTCWTInverse', [o, ri, sym, rng.randint(0, 2)], filt + [low] + highs, dict(tag, J=J, o=o, ri=ri, absent=absent, H=H, W=W))
        else:
            raise ValueError(op)


def std_run(ck, prop, module, theorems, corr_ops, n_q, n_t, oracle_fn, rule=''):
    from .impl_dtcwt import IMPL
    from .translate import regen_all
    rt.setup_torch()
    q = ck.tier == 'quick'
    ck.trusted = TRUSTED
    ck.extra['module'] = module
    ck.extra['rule'] = rule
    if not getattr(ck, 'no_lean', False):
        ck.lean = rt.lean_check(prop, module, theorems, regen=regen_all)
    st = rt.correspond('impl-model', dtcwt_cases(ck, n_q if q else n_t, corr_ops), IMPL)
    ck.corr.append(st)
    oracle_fn(ck, False)
    if ((ck.lean is not None and not ck.lean.ok) or st.mismatches) and not ck.failures:
        ck.notes.append('a proof obligation or the correspondence broke: extended failing-input search')
        oracle_fn(ck, True)
    return st
