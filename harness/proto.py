"""Line protocol between the Python harness and the Lean driver.

A case is (kind, op, params, tensors): kind 'Z' (exact integers), 'Q' (exact
Q(sqrt2)), 'F' (float64 bit patterns); tensors are numpy arrays or None.
"""
import os, subprocess, math, struct
from fractions import Fraction
import numpy as np

ROOT = os.path.dirname(os.path.dirname(os.path.abspath(__file__)))
DRIVER = os.path.join(ROOT, 'lean', '.lake', 'build', 'bin', 'driver')
SQRT2 = math.sqrt(2.0)


class DriverError(Exception):
    pass


def _fmt_val(kind, v):
    if kind == 'Z' or kind == 'Q':
        f = float(v)
        i = int(round(f))
        if i != f:
            fr = Fraction(f)
            return '%d/%d' % (fr.numerator, fr.denominator)
        return str(i)
    # F: IEEE bits
    return str(struct.unpack('<Q', struct.pack('<d', float(v)))[0])


def fmt_tensor(kind, t):
    if t is None:
        return 'none'
    a = np.asarray(t, dtype=np.float64)
    shape = ','.join(str(d) for d in a.shape)
    if kind in ('Z', 'Q'):
        flat = a.ravel()
        ints = np.rint(flat)
        if np.array_equal(ints, flat) and (np.abs(flat) < 2**62).all():
            vals = ','.join(map(str, ints.astype(np.int64).tolist()))
        else:
            vals = ','.join(_fmt_val(kind, v) for v in flat)
    else:
        vals = ','.join(map(str, a.ravel().view(np.uint64).tolist()))
    return shape + ':' + vals


def to_line(kind, op, params, tensors):
    head = ' '.join([kind, op] + [str(int(p)) for p in params])
    return ' | '.join([head] + [fmt_tensor(kind, t) for t in tensors])


def _parse_q(tok):
    """'a' or 'a_b' with rationals -> (Fraction a, Fraction b) meaning a + b*sqrt2"""
    if '_' in tok:
        a, b = tok.split('_')
        return Fraction(a), Fraction(b)
    return Fraction(tok), Fraction(0)


class QArray:
    """exact array over Q(sqrt2): parts a, b (object arrays of Fraction) with value a + b*sqrt2"""
    def __init__(self, shape, a, b):
        self.shape = tuple(shape)
        self.a = a
        self.b = b

    def to_float(self):
        fa = np.array([float(x) for x in self.a], dtype=np.float64)
        fb = np.array([float(x) for x in self.b], dtype=np.float64)
        return (fa + fb * SQRT2).reshape(self.shape)

    def scale(self):
        fa = np.array([abs(float(x)) for x in self.a], dtype=np.float64)
        fb = np.array([abs(float(x)) for x in self.b], dtype=np.float64)
        return (fa + fb * SQRT2).reshape(self.shape)


def parse_tensor(kind, s):
    s = s.strip()
    if s == 'none':
        return None
    sh, vals = s.split(':')
    shape = tuple(int(d) for d in sh.split(',')) if sh.strip() else ()
    toks = vals.split(',') if vals.strip() else []
    if kind == 'Z':
        ints = [int(t) for t in toks]
        big = max((abs(i) for i in ints), default=0)
        if big >= 2**53:
            raise DriverError('model value exceeds 2^53: exact float comparison unsound')
        return np.array(ints, dtype=np.float64).reshape(shape)
    if kind == 'Q':
        ps = [_parse_q(t) for t in toks]
        return QArray(shape, [p[0] for p in ps], [p[1] for p in ps])
    return np.array([int(t) for t in toks], dtype=np.uint64).view(np.float64).reshape(shape)


def run_driver(lines, kind_of=None):
    """Run the Lean driver on protocol lines; returns per line 'raise' | list of tensors."""
    if not lines:
        return []
    if not os.path.exists(DRIVER):
        raise DriverError('driver not built: ' + DRIVER)
    p = subprocess.run([DRIVER], input=('\n'.join(lines) + '\n').encode(), stdout=subprocess.PIPE,
                       stderr=subprocess.PIPE)
    if p.returncode != 0:
        raise DriverError('driver exit %d: %s' % (p.returncode, p.stderr.decode()[:500]))
    outs = p.stdout.decode().split('\n')
    if outs and outs[-1] == '':
        outs.pop()
    if len(outs) != len(lines):
        raise DriverError('driver returned %d lines for %d cases' % (len(outs), len(lines)))
    res = []
    for ln, o in zip(lines, outs):
        kind = ln[0]
        if o.startswith('raise'):
            res.append('raise')
        elif o.startswith('ok'):
            parts = o.split('|')[1:]
            res.append([parse_tensor(kind, t) for t in parts])
        else:
            raise DriverError('driver: %s  <- %s' % (o, ln[:200]))
    return res


def equal_exact(kind, impl, model):
    """impl: numpy float64 array (or None); model: parsed tensor. Returns (ok, detail)."""
    if impl is None or model is None:
        return (impl is None and model is None), 'None-ness differs'
    impl = np.asarray(impl, dtype=np.float64)
    if tuple(impl.shape) != tuple(model.shape):
        return False, 'shape %s vs model %s' % (tuple(impl.shape), tuple(model.shape))
    if kind == 'Z':
        if np.array_equal(impl, model):
            return True, ''
        idx = np.argwhere(~(impl == model))[0]
        return False, 'first diff at %s: impl %r model %r' % (tuple(idx), impl[tuple(idx)], model[tuple(idx)])
    if kind == 'Q':
        mf = model.to_float()
        tol = 1e-9 * (1.0 + model.scale())
        d = np.abs(impl - mf)
        if (d <= tol).all():
            return True, ''
        idx = np.argwhere(~(d <= tol))[0]
        return False, 'first diff at %s: impl %r model %r' % (tuple(idx), impl[tuple(idx)], mf[tuple(idx)])
    if kind == 'F':
        mf = np.asarray(model, dtype=np.float64)
        if not (np.isfinite(impl).all() and np.isfinite(mf).all()):
            return False, 'non-finite values (impl finite: %s, model finite: %s)' % (bool(np.isfinite(impl).all()), bool(np.isfinite(mf).all()))
        sc = max(1.0, float(np.max(np.abs(mf))) if mf.size else 1.0)
        d = np.abs(impl - mf)
        if (d <= 1e-9 * sc).all():
            return True, ''
        idx = np.argwhere(~(d <= 1e-9 * sc))[0]
        return False, 'first diff at %s: impl %r model %r' % (tuple(idx), impl[tuple(idx)], mf[tuple(idx)])
    raise ValueError(kind)
