"""Histories that must not matter.

Every property of this library quantifies over call histories: a transform is a function of its
arguments and of the module's current buffers, whatever was imported, constructed, called, converted
or loaded before.  The checks therefore never present the code under test with a virgin process:

* `prehistory()` — what a user's process looks like before the call under test: the package is
  imported and modules are constructed and called under PyTorch's stock default dtype (float32),
  for every named DTCWT table pair and a spread of named wavelets and padding modes.  Only then does
  the harness switch the default dtype to float64.
* `install()` — `__call__` of every public module class is wrapped in this process (the library
  source is untouched) so that the FIRST call on an instance may be preceded by a
  short history of that very instance: no-grad calls on different data of the same shape, a call
  with autograd + backward, a detour of the buffers through other values (`load_state_dict`), a
  loss-less float32 round trip, a float32 call of a deep copy, a call on an input of another size and one
  with twice the channels; and it may be FOLLOWED by calls on other data of the same shape (by the same
  instance and by a twin) before the caller gets to look at what the first call returned.  Which steps run is a
  deterministic function of the call's content and VERIF_SEED, so a replay reproduces it.
  Three more kinds (round 10 of the seeded changes): calls on the instance that FAIL (an input of another floating dtype
  than the buffers, half precision, a tensor of the wrong rank, a one-pixel input, and their combinations - every
  exception is swallowed, as a caller's try / except would) before the call under test; the instance switched to
  `eval()` mode for good; the call under test made inside a `torch.autocast('cpu')` region when all its tensors and the
  buffers are float64 (autocast does not touch float64).  Round 11: the call under test is made on a pickle round trip or a
  `copy.deepcopy` of the instance; the call under test is made while the process default dtype is float32 although instance and
  data are float64 (single-threaded phases only).

None of these steps may change the result of the call under test; if one does, the correspondence or
the oracle that issued the call reports the difference with that call as the failing input.
"""
import copy
import hashlib
import collections
import numpy as np

STATS = collections.Counter()
STATE = {'on': True, 'p': 0.35, 'seed': 0}
import threading as _threading
_TL = _threading.local()          # nesting depth of wrapped calls, per thread


def _depth():
    return getattr(_TL, 'depth', 0)


def _bump(d):
    _TL.depth = _depth() + d

CLASSES = [
    ('pytorch_wavelets.dwt.transform1d', 'DWT1DForward'), ('pytorch_wavelets.dwt.transform1d', 'DWT1DInverse'),
    ('pytorch_wavelets.dwt.transform2d', 'DWTForward'), ('pytorch_wavelets.dwt.transform2d', 'DWTInverse'),
    ('pytorch_wavelets.dwt.transform2d', 'SWTForward'),
    ('pytorch_wavelets.dtcwt.transform2d', 'DTCWTForward'), ('pytorch_wavelets.dtcwt.transform2d', 'DTCWTInverse'),
    ('pytorch_wavelets.scatternet.layers', 'ScatLayer'), ('pytorch_wavelets.scatternet.layers', 'ScatLayerj2'),
]


def prehistory(torch):
    """runs under the stock default dtype, before the harness selects float64"""
    import importlib, pkgutil
    import pytorch_wavelets as pw
    for m in pkgutil.walk_packages(pw.__path__, 'pytorch_wavelets.'):
        try:
            importlib.import_module(m.name)
        except Exception:
            STATS['prehistory_import_errors'] += 1
    from pytorch_wavelets import DWTForward, DWTInverse, DWT1DForward, DWT1DInverse, DTCWTForward, DTCWTInverse, ScatLayer, ScatLayerj2
    g = torch.Generator().manual_seed(12345)
    x = torch.randn(1, 1, 16, 16, generator=g)
    x1 = torch.randn(1, 1, 16, generator=g)

    def attempt(fn):
        try:
            with torch.no_grad():
                fn()
            STATS['prehistory_calls'] += 1
        except Exception:
            STATS['prehistory_errors'] += 1
    for b in ['antonini', 'legall', 'near_sym_a', 'near_sym_b', 'near_sym_b_bp']:
        for q in ['qshift_06', 'qshift_a', 'qshift_b', 'qshift_c', 'qshift_d', 'qshift_b_bp']:
            if b.endswith('_bp') != q.endswith('_bp'):
                continue
            attempt(lambda: DTCWTInverse(biort=b, qshift=q)(DTCWTForward(biort=b, qshift=q, J=2)(x)))
    for w in ['haar', 'db2', 'db3', 'db4', 'sym4', 'coif1', 'bior1.3', 'bior2.2', 'bior2.4', 'bior5.5', 'rbio1.3', 'rbio2.4', 'rbio3.5', 'dmey']:
        for mode in ['zero', 'symmetric', 'periodization', 'periodic']:
            attempt(lambda: DWTInverse(wave=w, mode=mode)(DWTForward(J=1, wave=w, mode=mode)(x)))
            attempt(lambda: DWT1DInverse(wave=w, mode=mode)(DWT1DForward(J=1, wave=w, mode=mode)(x1)))
    attempt(lambda: ScatLayer()(x))
    attempt(lambda: ScatLayerj2()(x))
    option_fuzz(torch)


def process_state(torch):
    """process-wide settings no library call may change (a snapshot that can be compared)"""
    st = {'default_dtype': str(torch.get_default_dtype()), 'grad_enabled': torch.is_grad_enabled(), 'num_threads': torch.get_num_threads(),
          'deterministic': torch.are_deterministic_algorithms_enabled(), 'np_err': str(sorted(np.geterr().items())),
          'mkldnn': bool(torch.backends.mkldnn.enabled), 'inference_mode': torch.is_inference_mode_enabled()}
    try:
        st['default_device'] = str(torch.get_default_device())
    except Exception:
        pass
    try:
        st['autocast_cpu'] = bool(torch.is_autocast_enabled('cpu'))
    except Exception:
        pass
    return st


def guard(torch, before, what):
    """compare with a snapshot; a difference is recorded once (the checks report it) and undone"""
    after = process_state(torch)
    if after != before:
        diff = {k: (before.get(k), after.get(k)) for k in after if after.get(k) != before.get(k)}
        STATE.setdefault('process_state_changed', []).append({'by': what, 'changed': {k: [str(a), str(b)] for k, (a, b) in diff.items()}})
        STATS['process_state_changed'] += 1
        if 'default_dtype' in diff:
            torch.set_default_dtype(getattr(torch, before['default_dtype'].split('.')[-1]))
        if 'grad_enabled' in diff:
            torch.set_grad_enabled(before['grad_enabled'])
        if 'num_threads' in diff:
            torch.set_num_threads(before['num_threads'])
        if 'deterministic' in diff:
            torch.use_deterministic_algorithms(before['deterministic'])


def option_fuzz(torch):
    """constructor calls with every option of every public class set to values of every kind - alone and together with an
    argument that makes the constructor fail (unknown names, a band-pass table where none is accepted).  Exceptions are swallowed,
    as a caller's try / except would; what must hold is that no call, failed or not, changes a process-wide setting."""
    import importlib, inspect
    pool = [None, True, False, 0, 1, 3, -1, 2.5, 'zero', 'no_such_value', torch.float64, torch.float16, 'cpu', (), [0]]
    for modname, name in CLASSES:
        cls = getattr(importlib.import_module(modname), name)
        try:
            params = [q for q in inspect.signature(cls.__init__).parameters.values()
                      if q.name != 'self' and q.kind in (q.POSITIONAL_OR_KEYWORD, q.KEYWORD_ONLY)]
        except (TypeError, ValueError):
            continue
        names = [q.name for q in params]
        triggers = [{}]
        for q in params:
            if isinstance(q.default, str):
                triggers.append({q.name: 'no_such_name'})
                if q.name == 'biort':
                    triggers.append({q.name: 'near_sym_b_bp'})
        for q in params:
            for v in pool:
                for trig in triggers:
                    kw = dict(trig)
                    if q.name in kw:
                        continue
                    kw[q.name] = v
                    before = process_state(torch)
                    try:
                        cls(**kw)
                        STATS['option_fuzz_constructed'] += 1
                    except Exception:
                        STATS['option_fuzz_raised'] += 1
                    guard(torch, before, '%s(%s)' % (name, ', '.join('%s=%r' % (k, kw[k]) for k in kw)))
        STATS['option_fuzz_options'] += len(names)
    # the table loaders are public functions with options of their own: every option x values of every kind x every shipped table
    try:
        import os, glob
        from pytorch_wavelets.dtcwt import coeffs
        tables = sorted(os.path.splitext(os.path.basename(f))[0] for f in glob.glob(os.path.join(os.path.dirname(coeffs.__file__), 'data', '*.npz')))
        for fname in ('biort', 'qshift', 'level1'):
            fn = getattr(coeffs, fname, None)
            if fn is None:
                continue
            params = [q for q in inspect.signature(fn).parameters.values() if q.kind in (q.POSITIONAL_OR_KEYWORD, q.KEYWORD_ONLY)][1:]
            for q in params:
                for v in (None, True, False, 0, 1, 'no_such_value'):
                    for t in tables:
                        before = process_state(torch)
                        try:
                            fn(t, **{q.name: v})
                            STATS['loader_fuzz_returned'] += 1
                        except Exception:
                            STATS['loader_fuzz_raised'] += 1
                        guard(torch, before, '%s(%r, %s=%r)' % (fname, t, q.name, v))
    except Exception:
        STATS['loader_fuzz_failed'] += 1


# ---------------------------------------------------------------------------

def _map(o, f):
    import torch
    if isinstance(o, torch.Tensor):
        return f(o)
    if isinstance(o, (list, tuple)):
        return type(o)(_map(t, f) for t in o)
    return o


def _tensors(o, acc):
    import torch
    if isinstance(o, torch.Tensor):
        acc.append(o)
    elif isinstance(o, (list, tuple)):
        for t in o:
            _tensors(t, acc)
    return acc


def _alt(t, k=1):
    """different data, same shape / dtype"""
    if t.dim() == 0 or t.numel() == 0 or not t.is_floating_point():
        return t
    return (t.detach().flip(-1) * (2.0 * k) + 1.0).contiguous()


def _recipe(name, args):
    if STATE.get('force_bits'):
        return STATE['force_bits']
    h = hashlib.sha256()
    h.update(('%d|%s' % (STATE['seed'], name)).encode())
    for t in _tensors(args, []):
        h.update(str(tuple(t.shape)).encode())
        if t.numel():
            h.update(np.ascontiguousarray(t.detach().reshape(-1)[:16].cpu().numpy()).tobytes())
    v = int.from_bytes(h.digest()[:8], 'big')
    if (v & 0xFFFF) / 65536.0 >= STATE['p']:
        return 0
    return ((v >> 16) & 0xFFFF) or 1


def _single(args):
    import torch
    return len(args) == 1 and isinstance(args[0], torch.Tensor) and args[0].dim() >= 3 and args[0].numel() > 0 and args[0].is_floating_point()


def _f32_exact(t):
    return bool((t.float().double() == t.double()).all())


def _history(self, call, args, bits):
    import torch
    alt = _map(args, _alt)
    STATS['seasoned_calls'] += 1
    if bits & 1:
        with torch.no_grad():
            call(self, alt)
        STATS['step_nograd_call'] += 1
    if bits & 2:
        try:
            a2 = _map(args, lambda t: _alt(t, 2).requires_grad_(True) if (t.is_floating_point() and t.numel() and t.dim()) else t)
            outs = [o for o in _tensors(call(self, a2), []) if o.numel() and o.requires_grad]
            if outs:
                torch.autograd.backward([o.sum() for o in outs])
            STATS['step_grad_call'] += 1
        except Exception:
            STATS['step_grad_call_raised'] += 1
    # steps that temporarily CHANGE the instance (filters through other values, dtype round trip) are only sound while no
    # other thread can be using it: with several threads alive they would be a race made by the harness, not by the library
    import threading
    alone = threading.active_count() == 1
    if bits & 4 and alone:
        sd = {k: v.clone() for k, v in self.state_dict().items()}
        if sd:
            other = {k: (v.flip(-1) * 1.5 + 0.25 if v.is_floating_point() and v.numel() and v.dim() else v.clone()) for k, v in sd.items()}
            self.load_state_dict(other)
            try:
                with torch.no_grad():
                    call(self, alt)
            finally:
                self.load_state_dict(sd)
            STATS['step_state_detour'] += 1
    if bits & 8 and alone:
        bufs = [v for v in self.state_dict().values() if v.is_floating_point()]
        if bufs and all(v.dtype == torch.float64 for v in bufs) and all(_f32_exact(v) for v in bufs):
            self.float()
            try:
                with torch.no_grad():
                    call(self, _map(alt, lambda t: t.float() if t.is_floating_point() else t))
            finally:
                self.double()
            STATS['step_f32_round_trip'] += 1
    if bits & 16:
        try:
            twin = copy.deepcopy(self)
            dt = next((v.dtype for v in twin.state_dict().values() if v.is_floating_point()), torch.float64)
            to = torch.float32 if dt == torch.float64 else torch.float64
            twin = twin.to(to)
            with torch.no_grad():
                call(twin, _map(alt, lambda t: t.to(to) if t.is_floating_point() else t))
            STATS['step_other_dtype_twin'] += 1
        except Exception:
            STATS['step_other_dtype_twin_raised'] += 1
    if bits & 32:
        with torch.no_grad():
            call(self, _map(args, lambda t: _alt(t, 3)))
        STATS['step_second_nograd_call'] += 1
    if bits & 64 and _single(args):
        # an input of another size first (parity of every spatial axis flipped): plans / buffers sized for it must not be reused
        try:
            x = _alt(args[0], 2)
            for d in range(2, x.dim()):
                x = torch.cat([x, x.narrow(d, x.shape[d] - 1, 1)], dim=d)
            with torch.no_grad():
                call(self, (x,))
            STATS['step_other_size_first'] += 1
        except Exception:
            STATS['step_other_size_first_raised'] += 1
    if bits & 128 and _single(args):
        # twice as many channels first: banks / caches built for that width must not leak into the narrower call
        try:
            x = _alt(args[0], 1)
            with torch.no_grad():
                call(self, (torch.cat([x, x * 3.0 - 1.0], dim=1),))
            STATS['step_wider_first'] += 1
        except Exception:
            STATS['step_wider_first_raised'] += 1
    if bits & 0x400:
        # calls that FAIL first (the caller catches the exception and carries on): whatever a failed call leaves behind on the
        # instance, on its class or in the process must not reach the next valid call
        failed_calls(self, call, args)
    if bits & 0x800:
        # inference mode of nn.Module for good: none of these transforms has a training-time behaviour
        self.eval()
        STATS['step_eval_mode'] += 1


def _bad_variants(args):
    """argument tuples that are (mostly) refused: other floating dtypes x (same shape, last axis dropped, one pixel)"""
    import torch
    ts = [t for t in _tensors(args, []) if t.is_floating_point() and t.numel() and t.dim()]
    if not ts:
        return
    cur = ts[0].dtype
    dts = [torch.float32 if cur == torch.float64 else torch.float64, torch.float16, torch.bfloat16, cur]

    def drop(t):
        return t.select(-1, 0) if (t.is_floating_point() and t.dim() >= 3 and t.numel()) else t

    def tiny(t):
        if not (t.is_floating_point() and t.dim() >= 3 and t.numel()):
            return t
        for d in range(2, t.dim()):
            t = t.narrow(d, 0, 1)
        return t
    for dt in dts:
        for shp in (lambda t: t, drop, tiny):
            if dt == cur and shp is not drop and shp is not tiny:
                continue
            yield _map(args, lambda t: shp(_alt(t, 4)).to(dt) if (t.is_floating_point() and t.numel() and t.dim()) else t)


def failed_calls(self, call, args):
    import torch
    for bad in _bad_variants(args):
        before = process_state(torch)
        try:
            with torch.no_grad():
                call(self, bad)
            STATS['step_odd_call_returned'] += 1
        except Exception:
            STATS['step_failed_call'] += 1
        guard(torch, before, 'a refused call of %s' % type(self).__name__)


def _all_f64(self, args):
    import torch
    ts = [t for t in _tensors(args, []) if t.is_floating_point()] + [v for v in self.state_dict().values() if v.is_floating_point()]
    ts += [p for p in self.parameters() if p.is_floating_point()]
    return bool(ts) and all(t.dtype == torch.float64 for t in ts)


def _vp_call(orig, target, args, kw, bits, self):
    if bits & 0x1000 and _all_f64(self, args):
        # float64 is not eligible for autocast: the region must change nothing
        import torch
        STATS['call_in_autocast_region'] += 1
        with torch.autocast('cpu', dtype=torch.bfloat16):
            return orig(target, *args, **kw)
    return orig(target, *args, **kw)


def _season_class(cls):
    """wrap `cls.__call__` (inherited from nn.Module) in place: the class object, its name and its
    methods stay the library's own"""
    orig = cls.__call__

    def __call__(self, *args, **kw):
        bits = 0
        if STATE['on'] and _depth() == 0 and not kw and not self.__dict__.get('_vp_called'):
            self.__dict__['_vp_called'] = True
            bits = _recipe(cls.__name__, args)
            if bits:
                _bump(1)
                try:
                    _history(self, lambda m, a: orig(m, *a), args, bits)
                finally:
                    _bump(-1)
        target = self
        if bits & 0x6000:
            # the call under test is made on a COPY of the instance that went through serialisation (pickle: what torch.save(module)
            # and DataLoader workers do) or copy.deepcopy (a model cloned for an EMA / a second optimiser): a module is its state
            try:
                if bits & 0x2000:
                    import pickle
                    target = pickle.loads(pickle.dumps(self))
                    STATS['call_on_pickle_round_trip'] += 1
                else:
                    target = copy.deepcopy(self)
                    STATS['call_on_deepcopy'] += 1
                target.__dict__['_vp_called'] = True
            except Exception:
                target = self
                STATS['copy_of_instance_failed'] += 1
        flip_default = False
        if bits & 0x8000 and _all_f64(self, args):
            # the process default dtype at CALL time is float32 (the stock default) although instance and data are float64: the default
            # only matters where new tensors are created without a dtype, which a transform of float64 data must not do
            import torch, threading
            if threading.active_count() == 1 and torch.get_default_dtype() == torch.float64:
                flip_default = True
                torch.set_default_dtype(torch.float32)
                STATS['call_under_float32_default'] += 1
        try:
            out = _vp_call(orig, target, args, kw, bits, self)
        finally:
            if flip_default:
                import torch
                torch.set_default_dtype(torch.float64)
        if bits & 0x300:
            # AFTER the call under test: the same instance (and a fresh twin) transform other data of the same
            # shape.  What the first call returned must not change (no shared output workspace).
            import torch
            _bump(1)
            try:
                with torch.no_grad():
                    if bits & 0x100:
                        orig(self, *_map(args, lambda t: _alt(t, 5)))
                        STATS['post_same_instance_call'] += 1
                    if bits & 0x200:
                        orig(copy.deepcopy(self), *_map(args, lambda t: _alt(t, 7)))
                        STATS['post_twin_call'] += 1
            except Exception:
                STATS['post_call_raised'] += 1
            finally:
                _bump(-1)
        return out
    cls.__call__ = __call__
    cls._vp_seasoned = True


def install(seed):
    import importlib
    STATE['seed'] = seed
    for modname, name in CLASSES:
        cls = getattr(importlib.import_module(modname), name)
        if not cls.__dict__.get('_vp_seasoned'):
            _season_class(cls)


class force:
    """context manager: the first call of every instance built inside gets exactly these history bits (deterministic covering
    cases: e.g. 0x8000 = the call under test made while the process default dtype is float32)"""
    def __init__(self, bits):
        self.bits = bits

    def __enter__(self):
        self.prev = STATE.get('force_bits'); STATE['force_bits'] = self.bits

    def __exit__(self, *a):
        STATE['force_bits'] = self.prev


class off:
    """context manager: calls inside are made without any added history (isolated references)"""
    def __enter__(self):
        self.prev = STATE['on']; STATE['on'] = False

    def __exit__(self, *a):
        STATE['on'] = self.prev
