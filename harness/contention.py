"""Concurrent callers (round 12 of the seeded changes).

Every property quantifies over the schedules in which a process uses the library: a module object is a function of its
arguments and buffers also when several threads call it (or different objects, or the functional interface) at overlapping
times.  For each property this file lists JOBS on the objects that property is about; every job is first run ALONE (its
reference), then all jobs of a group are released together by a barrier, `reps` times, with a tiny interpreter switch interval
(so that Python-level interleavings between any two byte codes occur, not only where a kernel releases the GIL), and every
result is compared with the job's own reference.  Jobs of one group deliberately DIFFER (other data, other sizes, other
pyramid layouts, other options, other objects of other configurations): state kept on the object, on its class or in the
process during a call shows up as another caller's values, shapes or exceptions.

A schedule-dependent failure is sampled, not enumerated (the Lean model of the loader, C15/C18, is where interleavings are
enumerated); what is reported is a concrete group of calls that gives a wrong result on the real code when run together and the
right one when run alone.
"""
import sys
import threading
import numpy as np

from . import rt, history


def _flat(o, acc):
    import torch
    if isinstance(o, torch.Tensor):
        acc.append(o.detach().cpu().numpy().copy())
    elif isinstance(o, np.ndarray):
        acc.append(o.copy())
    elif o is None:
        acc.append(None)
    elif isinstance(o, (list, tuple)):
        for v in o:
            _flat(v, acc)
    else:
        acc.append(np.asarray(o))
    return acc


def _run(job):
    try:
        return ('ok', _flat(job(), []))
    except Exception as e:
        return ('raise', type(e).__name__ + ': ' + str(e)[:120])


def _same(a, b):
    if a[0] != b[0]:
        return False, 'alone it %s, together it %s' % ('returns' if a[0] == 'ok' else 'raises ' + str(a[1]), 'returns' if b[0] == 'ok' else 'raises ' + str(b[1]))
    if a[0] == 'raise':
        return (True, '') if a[1].split(':')[0] == b[1].split(':')[0] else (False, 'raises %s alone, %s together' % (a[1], b[1]))
    if len(a[1]) != len(b[1]):
        return False, '%d outputs alone, %d together' % (len(a[1]), len(b[1]))
    for k, (x, y) in enumerate(zip(a[1], b[1])):
        if x is None or y is None:
            if (x is None) != (y is None):
                return False, 'output %d: None-ness differs' % k
            continue
        if x.shape != y.shape:
            return False, 'output %d: shape %s alone, %s together' % (k, x.shape, y.shape)
        if x.dtype != y.dtype:
            return False, 'output %d: dtype %s alone, %s together' % (k, x.dtype, y.dtype)
        if x.size:
            xd = x.astype(np.float64); yd = y.astype(np.float64)
            sc = max(1.0, float(np.max(np.abs(xd))))
            d = float(np.max(np.abs(xd - yd))) if np.isfinite(xd).all() and np.isfinite(yd).all() else (0.0 if np.array_equal(xd, yd, equal_nan=True) else float('inf'))
            if d > (1e-9 if x.dtype == np.float64 else 1e-4) * sc:
                return False, 'output %d differs by %.3g (scale %.3g)' % (k, d, sc)
    return True, ''


def together(jobs, reps, before_round=None):
    """jobs: [(label, callable)].  Returns (list of (label, repetition, why), calls made)"""
    with history.off():
        want = [_run(j) for _, j in jobs]
        # a second sequential pass: a job that is not even repeatable alone says nothing about schedules
        again = [_run(j) for _, j in jobs]
    stable = [_same(w, a)[0] for w, a in zip(want, again)]
    bad = []
    n = len(jobs)
    barrier = threading.Barrier(n)
    lock = threading.Lock()
    state = {'on': history.STATE['on']}

    def work(t):
        for r in range(reps):
            try:
                i = barrier.wait(timeout=120)
                if i == 0 and before_round is not None:
                    try:
                        before_round()
                    except Exception:
                        barrier.abort()
                        return
                barrier.wait(timeout=120)
            except threading.BrokenBarrierError:
                return
            got = _run(jobs[t][1])
            if stable[t]:
                ok, why = _same(want[t], got)
                if not ok:
                    with lock:
                        bad.append((jobs[t][0], r, why))
    old = sys.getswitchinterval()
    history.STATE['on'] = False
    sys.setswitchinterval(1e-6)
    try:
        ths = [threading.Thread(target=work, args=(t,)) for t in range(n)]
        for t in ths:
            t.start()
        for t in ths:
            t.join()
    finally:
        sys.setswitchinterval(old)
        history.STATE['on'] = state['on']
    return bad, n * reps


# ---------------------------------------------------------------------------------------------------------------------
# job groups per property

def _t(rng, shape, dtype=None, k=0):
    import torch
    a = np.array([[rng.randint(-9, 9) for _ in range(int(np.prod(shape)))]], dtype=np.float64).reshape(shape)
    return torch.tensor(a + k, dtype=dtype or torch.float64)


def _grad_job(mod, x, pick=None):
    """forward + backward of a fixed linear functional of the outputs: returns (outputs, x.grad)"""
    import torch

    def job():
        xx = x.clone().requires_grad_(True)
        out = mod(xx)
        outs = [o for o in _tensors(out) if o.numel() and o.requires_grad]
        loss = sum((o * torch.arange(1, o.numel() + 1, dtype=o.dtype).reshape(o.shape) / o.numel()).sum() for o in outs)
        loss.backward()
        return [out, xx.grad]
    return job


def _tensors(o):
    import torch
    if isinstance(o, torch.Tensor):
        return [o]
    if isinstance(o, (list, tuple)):
        return [t for v in o for t in _tensors(v)]
    return []


def groups(prop, rng, tier):
    """-> [(group name, [(label, job)], before_round or None)]"""
    import torch
    import pytorch_wavelets as pw
    from pytorch_wavelets import DWTForward, DWTInverse, DWT1DForward, DWT1DInverse, DTCWTForward, DTCWTInverse, ScatLayer, ScatLayerj2
    from pytorch_wavelets.dwt.transform2d import SWTForward
    import pytorch_wavelets.dwt.lowlevel as L
    G = []
    nt = 6
    ng = torch.no_grad

    def nograd(f):
        def job():
            with ng():
                return f()
        return job

    def shared(name, mod, xs, call=None):
        call = call or (lambda m, x: m(x))
        G.append((name + ' [one object, %d threads, other data / sizes per thread]' % len(xs),
                  [('%s thread %d input %s' % (name, i, tuple(x.shape) if hasattr(x, 'shape') else '...'), nograd(lambda x=x: call(mod, x))) for i, x in enumerate(xs)], None))

    sizes2 = [(1, 2, 32, 32), (1, 2, 33, 29), (2, 1, 24, 40), (1, 2, 32, 32), (1, 1, 17, 64), (1, 3, 48, 16)]
    if prop in ('C01', 'C07', 'C14', 'C17'):
        wave = {'C01': 'db3', 'C07': 'bior2.2', 'C14': 'db2', 'C17': 'sym4'}[prop]
        mode = {'C01': 'symmetric', 'C07': 'zero', 'C14': 'reflect', 'C17': 'periodization'}[prop]
        import pywt
        w = pywt.Wavelet(wave); w2 = pywt.Wavelet('db1' if prop != 'C14' else 'db4')
        wv = (w.dec_lo, w.dec_hi, w2.dec_lo, w2.dec_hi) if prop in ('C14', 'C07') else wave
        shared('DWTForward(J=3, %s, %s)' % (wave, mode), DWTForward(J=3, wave=wv, mode=mode).double(), [_t(rng, s, k=i) for i, s in enumerate(sizes2)])
        shared('DWT1DForward(J=3, %s, %s)' % (wave, mode), DWT1DForward(J=3, wave=wave, mode=mode).double(),
               [_t(rng, s, k=i) for i, s in enumerate([(1, 2, 64), (2, 1, 37), (1, 3, 50), (1, 2, 64), (1, 1, 129), (1, 2, 20)])])
    if prop in ('C02', 'C10', 'C07', 'C17'):
        wave = {'C02': 'db2', 'C10': 'bior3.1', 'C07': 'db3', 'C17': 'db4'}[prop]
        mode = {'C02': 'periodization', 'C10': 'symmetric', 'C07': 'zero', 'C17': 'periodization'}[prop]
        fw = DWTForward(J=3, wave=wave, mode=mode).double(); iv = DWTInverse(wave=wave, mode=mode).double()
        pys = []
        with history.off(), ng():
            for i, s in enumerate(sizes2):
                yl, yh = fw(_t(rng, s, k=i))
                yh = list(yh)
                if i % 3 == 1:
                    yh[-1] = None         # another layout: an absent level
                pys.append((yl, yh))
        shared('DWTInverse(%s, %s)' % (wave, mode), iv, pys, call=lambda m, p: m((p[0], list(p[1]))))
        if prop == 'C02':
            shared('DWTInverse(DWTForward(x)) (%s, %s)' % (wave, mode), (fw, iv), [_t(rng, s, k=i) for i, s in enumerate(sizes2)], call=lambda m, x: m[1](m[0](x)))
        f1 = DWT1DForward(J=2, wave=wave, mode=mode).double(); i1 = DWT1DInverse(wave=wave, mode=mode).double()
        with history.off(), ng():
            p1 = [f1(_t(rng, s, k=i)) for i, s in enumerate([(1, 2, 64), (2, 1, 37), (1, 3, 50), (1, 2, 64), (1, 1, 129), (1, 2, 20)])]
        shared('DWT1DInverse(%s, %s)' % (wave, mode), i1, p1, call=lambda m, p: m((p[0], list(p[1]))))
    if prop in ('C03', 'C04', 'C12', 'C07', 'C16'):
        dt = torch.float32 if prop == 'C16' else torch.float64
        kw = dict(J=4, biort='near_sym_b', qshift='qshift_b')
        if prop == 'C12':
            kw.update(skip_hps=[False, True, False, False], include_scale=[True, False, True, True])
        if prop == 'C07':
            kw.update(o_dim=1, ri_dim=2)
        m = DTCWTForward(**kw).to(dt)
        shared('DTCWTForward(%s)' % ', '.join('%s=%s' % kv for kv in sorted(kw.items())), m,
               [_t(rng, s, dt, k=i) for i, s in enumerate([(1, 2, 64, 64), (1, 2, 64, 64), (1, 1, 48, 80), (2, 1, 32, 32), (1, 2, 64, 64), (1, 1, 50, 36)])])
    if prop in ('C04', 'C11', 'C16'):
        dt = torch.float32 if prop == 'C16' else torch.float64
        fw = DTCWTForward(J=3, biort='near_sym_a', qshift='qshift_a').to(dt); iv = DTCWTInverse(biort='near_sym_a', qshift='qshift_a').to(dt)
        pys = []
        with history.off(), ng():
            for i, s in enumerate([(1, 2, 64, 64), (1, 2, 64, 64), (1, 1, 48, 80), (1, 2, 64, 64), (2, 1, 32, 32), (1, 2, 64, 64)]):
                yl, yh = fw(_t(rng, s, dt, k=i))
                yh = list(yh)
                if prop != 'C04':
                    # other layouts per thread: absent levels in the three spellings, an absent low-pass
                    if i == 1:
                        yh[0] = None
                    if i == 3:
                        yh[1] = torch.tensor([], dtype=dt)
                    if i == 5:
                        yh[2] = None; yh[0] = torch.tensor(0.0, dtype=dt)
                    if i == 4:
                        yl = None
                pys.append((yl, yh))
        shared('DTCWTInverse(near_sym_a, qshift_a)', iv, pys, call=lambda m, p: m((p[0], list(p[1]))))
        if prop == 'C04':
            shared('DTCWTInverse(DTCWTForward(x))', (fw, iv), [_t(rng, s, dt, k=i) for i, s in enumerate([(1, 2, 64, 64), (1, 1, 48, 80), (1, 2, 64, 64), (2, 1, 32, 32)])],
                   call=lambda m, x: m[1](m[0](x)))
    if prop == 'C13':
        for J, wave in ((3, 'db2'), (2, 'bior2.2')):
            shared('SWTForward(J=%d, %s)' % (J, wave), SWTForward(J=J, wave=wave, mode='periodization').double(),
                   [_t(rng, s, k=i) for i, s in enumerate([(1, 2, 32, 32), (1, 2, 32, 32), (1, 1, 16, 48), (2, 1, 24, 24), (1, 2, 32, 32), (1, 1, 64, 8)])])
    if prop in ('C08', 'C16'):
        dt = torch.float32 if prop == 'C16' else torch.float64
        for name, mod in (('ScatLayer()', ScatLayer().to(dt)), ('ScatLayerj2(near_sym_b_bp, qshift_b_bp)', ScatLayerj2(biort='near_sym_b_bp', qshift='qshift_b_bp').to(dt)),
                          ('ScatLayer(mode=zero, combine_colour)', ScatLayer(mode='zero', combine_colour=True).to(dt))):
            c = 3 if 'colour' in name else 2
            shared(name, mod, [_t(rng, s, dt, k=i) for i, s in enumerate([(1, c, 32, 32), (1, c, 32, 32), (2, c, 16, 24), (1, c, 40, 24), (1, c, 32, 32), (1, c, 9, 13)])])
    if prop in ('C05', 'C06', 'C09'):
        # gradients: objects of DIFFERENT configurations in different threads as well as one shared object
        if prop == 'C05':
            import pywt
            a, b = pywt.Wavelet('db2'), pywt.Wavelet('db3')
            mods = [('DWTForward(J=2, db2|db3, zero)', DWTForward(J=2, wave=(a.dec_lo, a.dec_hi, b.dec_lo, b.dec_hi), mode='zero').double()),
                    ('DWTForward(J=2, db3, periodization)', DWTForward(J=2, wave='db3', mode='periodization').double()),
                    ('DWT1DForward(J=2, sym4, zero)', DWT1DForward(J=2, wave='sym4', mode='zero').double())]
            xs = [[(1, 2, 24, 24), (1, 1, 17, 30)], [(1, 2, 24, 24), (2, 1, 16, 32)], [(1, 2, 40), (2, 1, 33)]]
        elif prop == 'C06':
            mods = [('DTCWTForward(J=3, near_sym_a, qshift_a)', DTCWTForward(J=3, biort='near_sym_a', qshift='qshift_a').double()),
                    ('DTCWTForward(J=2, near_sym_b, qshift_b, mode=zero)', DTCWTForward(J=2, biort='near_sym_b', qshift='qshift_b', mode='zero').double()),
                    ('DTCWTForward(J=2, legall, qshift_06, skip level 1)', DTCWTForward(J=2, biort='legall', qshift='qshift_06', skip_hps=[True, False]).double())]
            xs = [[(1, 2, 32, 32), (1, 1, 24, 40)], [(1, 2, 32, 32), (1, 1, 24, 40)], [(1, 2, 32, 32), (2, 1, 16, 16)]]
        else:
            mods = [('ScatLayer(mode=zero)', ScatLayer(mode='zero').double()), ('ScatLayer()', ScatLayer().double()),
                    ('ScatLayerj2(magbias=0.1)', ScatLayerj2(magbias=0.1).double()), ('ScatLayer(near_sym_b_bp, mode=zero)', ScatLayer(biort='near_sym_b_bp', mode='zero').double())]
            xs = [[(1, 2, 24, 24), (1, 1, 16, 32)], [(1, 2, 24, 24), (1, 1, 16, 32)], [(1, 1, 32, 32), (1, 2, 16, 16)], [(1, 2, 24, 24), (1, 1, 16, 32)]]
        jobs = []
        for (name, mod), shp in zip(mods, xs):
            for i, s in enumerate(shp):
                jobs.append(('%s forward + backward, input %s' % (name, s), _grad_job(mod, _t(rng, s, k=i) * 0.25 + 0.1)))
        G.append(('gradients of %d objects of different configurations, each used by two threads' % len(mods), jobs, None))
    if prop in ('C03', 'C04', 'C08', 'C11', 'C12', 'C16'):
        # objects of DIFFERENT padding modes / families at overlapping times: a setting that one call parks in the process (a module
        # global, a class attribute, an environment of the filtering helpers) reaches the other callers
        dt = torch.float32 if prop == 'C16' else torch.float64
        fz = DTCWTForward(J=2, biort='near_sym_a', qshift='qshift_a', mode='zero').to(dt); fs = DTCWTForward(J=2, biort='near_sym_b', qshift='qshift_b').to(dt)
        iz = DTCWTInverse(biort='near_sym_a', qshift='qshift_a', mode='zero').to(dt); isy = DTCWTInverse(biort='near_sym_b', qshift='qshift_b').to(dt)
        sz = ScatLayer(mode='zero').to(dt); ss = ScatLayer().to(dt); s2 = ScatLayerj2(mode='zero').to(dt)
        xa = _t(rng, (1, 2, 32, 32), dt); xb = _t(rng, (1, 1, 24, 40), dt, k=1)
        with history.off(), ng():
            pz = fz(xa); ps = fs(xb)
        jobs = [('DTCWTForward(mode=zero)', nograd(lambda: fz(xa))), ('DTCWTForward(mode=symmetric)', nograd(lambda: fs(xb))),
                ('DTCWTInverse(mode=zero)', nograd(lambda: iz((pz[0], list(pz[1]))))), ('DTCWTInverse(mode=symmetric)', nograd(lambda: isy((ps[0], list(ps[1]))))),
                ('ScatLayer(mode=zero)', nograd(lambda: sz(xa))), ('ScatLayer(mode=symmetric)', nograd(lambda: ss(xb))), ('ScatLayerj2(mode=zero)', nograd(lambda: s2(xa))),
                ('DTCWTForward(mode=symmetric), second thread', nograd(lambda: fs(xa)))]
        if prop in ('C08', 'C16'):
            # layers whose OPTIONS differ (smoothing bias, colour combination) at overlapping times
            sb = ScatLayer(magbias=0.3).to(dt); sc = ScatLayer(combine_colour=True).to(dt); s2b = ScatLayerj2(magbias=0.5, combine_colour=True).to(dt)
            xc = _t(rng, (1, 3, 24, 24), dt, k=2)
            jobs = jobs[4:7] + [('ScatLayer(magbias=0.3)', nograd(lambda: sb(xa))), ('ScatLayer(magbias=0.3), second thread', nograd(lambda: sb(xb))),
                                ('ScatLayer(combine_colour)', nograd(lambda: sc(xc))), ('ScatLayerj2(magbias=0.5, combine_colour)', nograd(lambda: s2b(xc))),
                                ('ScatLayer(magbias=0.3), third thread', nograd(lambda: sb(xa * 2)))]
        G.append(('DTCWT / scattering objects of different padding modes and families at overlapping times', jobs, None))
    if prop == 'C18':
        import pytorch_wavelets.dtcwt.coeffs as C
        names1 = ['antonini', 'legall', 'near_sym_a', 'near_sym_b', 'near_sym_b_bp', 'farras']
        names2 = ['qshift_06', 'qshift_a', 'qshift_b', 'qshift_c', 'qshift_d', 'qshift_b_bp']

        def clear():
            C.COEFF_CACHE.clear()
        for rnd, (n1, n2) in enumerate(zip(names1, names2)):
            jobs = []
            for i in range(4):
                jobs.append(('biort(%s) thread %d, first load of the table' % (n1, i), lambda n1=n1: C.biort(n1)))
                jobs.append(('qshift(%s) thread %d, first load of the table' % (n2, i), lambda n2=n2: C.qshift(n2)))
            jobs.append(('level1(%s, compact=False)' % n1, lambda n1=n1: C.level1(n1)))
            jobs.append(('DTCWTForward(biort=%s, qshift=%s) buffers' % (n1, n2), lambda n1=n1, n2=n2: [v for v in DTCWTForward(biort=n1, qshift=n2, J=2).state_dict().values()]))
            G.append(('loader: threads requesting %s / %s during the FIRST load in the process (cache emptied before every round)' % (n1, n2), jobs, clear))
            if tier == 'quick' and rnd >= 2:
                break
    if prop == 'C19':
        import pywt
        jobs = []
        for i, (wn, mode, s) in enumerate([('db2', 'zero', (1, 2, 16, 16)), ('db3', 'symmetric', (1, 1, 12, 20)), ('db2', 'periodization', (1, 2, 16, 16)),
                                           ('sym4', 'reflect', (2, 1, 18, 18)), ('db3', 'periodization', (1, 1, 15, 11)), ('db1', 'zero', (1, 2, 8, 8))]):
            w = pywt.Wavelet(wn); x = _t(rng, s, k=i)
            jobs.append(('afb2d_nonsep(%s, %s) on %s' % (wn, mode, s), nograd(lambda w=w, x=x, mode=mode: L.afb2d_nonsep(x, (w.dec_lo, w.dec_hi), mode=mode))))
            co = _t(rng, (s[0], s[1], 4, s[2] // 2 + 2, s[3] // 2 + 2), k=i)
            jobs.append(('sfb2d_nonsep(%s, %s)' % (wn, mode), nograd(lambda w=w, co=co, mode=mode: L.sfb2d_nonsep(co, (w.rec_lo, w.rec_hi), mode=mode))))
        G.append(('functional non-separable banks of different wavelets / modes / sizes at overlapping times', jobs, None))
    return G


def run_for(ck, prop, only=None):
    """called by harness.main after the property's own run(): concurrent callers on the objects `prop` is about"""
    reps = 6 if ck.tier == 'quick' else 30
    try:
        if prop == 'C15':
            # purity under threads is C15's own subject: besides its thread oracles (same configuration in every thread), the groups of
            # differing jobs of the gradient, scattering, stationary and inverse-DTCWT properties
            gs = [g for p_ in ('C09', 'C08', 'C13', 'C11', 'C05') for g in groups(p_, ck.rng, ck.tier)]
        else:
            gs = groups(prop, ck.rng, ck.tier)
    except Exception as e:
        # building the objects / references alone failed: the property's own cases report that; no verdict from here
        ck.oracle['samples'].append({'contention': 'not built: %s' % (type(e).__name__ + ': ' + str(e)[:100])}) if len(ck.oracle['samples']) < 6 else None
        return
    for name, jobs, before in gs:
        if only is not None and name != only:
            continue
        bad, calls = together(jobs, reps, before)
        if bad:
            lab, r, why = bad[0]
            ck.fail('concurrent callers: %s: %s (repetition %d): %s [%d of %d overlapping calls wrong; every one of them is right when made alone]' % (name, lab, r, why, len(bad), calls),
                    {'oracle': 'contention', 'prop': prop, 'group': name, 'threads': len(jobs), 'reps': reps, 'note': 'schedule-dependent: replay re-runs the group with the same VERIF_SEED'})
        else:
            ck.oracle_ok(('contention', name), group='contention', sample={'what': 'concurrent callers: ' + name, 'threads': len(jobs), 'calls': calls})
