"""The numpy `dtcwt` package as oracle for the DTCWT properties."""
import numpy as np
import warnings, logging
warnings.filterwarnings('ignore')
logging.disable(logging.WARNING)


SHORTCUT = {'misfired': 0}


def _linear_colifilt():
    """The reference `colifilt` returns zeros early `if not np.any(np.nonzero(X[:])[0])` - meant as "X is all zero", but
    `np.nonzero(X)[0]` are ROW INDICES, so the shortcut also fires for a non-zero X whose non-zero samples all lie in its
    first row (e.g. a lowpass impulse at row 0, or integer test data with a zero second row of a 2-row band), and the
    reference then returns 0 instead of its own linear filter output.  On exactly those calls we evaluate the reference's
    own arithmetic by linearity, colifilt(X) = colifilt(X + D) - colifilt(D) with D = 1 in the last row (neither call takes
    the shortcut), and count the occurrence.  Everything else is the unmodified reference."""
    import dtcwt.numpy.transform2d as T
    import dtcwt.numpy.lowlevel as Rf
    if getattr(T.colifilt, '_verif_linear', False):
        return
    orig = Rf.colifilt

    def colifilt(X, ha, hb):
        X = np.asarray(X, dtype=np.float64)
        if X.ndim == 2 and X.shape[0] >= 2 and np.any(X) and not np.any(np.nonzero(X)[0]):
            SHORTCUT['misfired'] += 1
            D = np.zeros_like(X); D[-1, :] = 1.0
            return orig(X + D, ha, hb) - orig(D, ha, hb)
        return orig(X, ha, hb)
    colifilt._verif_linear = True
    T.colifilt = colifilt


def _xfm(biort, qshift):
    import dtcwt
    _linear_colifilt()
    return dtcwt.Transform2d(biort=biort, qshift=qshift)


def forward(x, biort, qshift, J, include_scale=False):
    """x: (H,W) array. biort: name or (h0o,g0o,h1o,g1o); qshift: name or 8-tuple
    (h0a,h0b,g0a,g0b,h1a,h1b,g1a,g1b).  Returns lowpass (H',W'), highs: list of (6,h,w) complex
    [, scales]"""
    p = _xfm(biort, qshift).forward(np.asarray(x, dtype=np.float64), nlevels=J, include_scale=include_scale)
    highs = [np.moveaxis(h, -1, 0) for h in p.highpasses]
    if include_scale:
        return p.lowpass, highs, list(p.scales)
    return p.lowpass, highs


def inverse(low, highs, biort, qshift):
    """highs: list of (6,h,w) complex"""
    import dtcwt
    p = dtcwt.Pyramid(np.asarray(low, dtype=np.float64), tuple(np.moveaxis(np.asarray(h), 0, -1) for h in highs))
    return _xfm(biort, qshift).inverse(p)


def to_canon(h):
    """(6,h,w) complex -> (6,h,w,2) real"""
    return np.stack([h.real, h.imag], axis=-1)


def from_canon(t):
    return t[..., 0] + 1j * t[..., 1]


BIORTS = ['antonini', 'legall', 'near_sym_a', 'near_sym_b']
QSHIFTS = ['qshift_06', 'qshift_a', 'qshift_b', 'qshift_c', 'qshift_d']


def lib_tables(biort, qshift):
    """the library's own tables, in the reference's tuple orders"""
    from pytorch_wavelets.dtcwt.coeffs import biort as _b, qshift as _q
    return _b(biort), _q(qshift)


def int_biort(rng, gen):
    """random odd-length *symmetric-free* integer level-1 filters (h0o, g0o, h1o, g1o)"""
    Lo = rng.choice([3, 5, 7, 9, 13]); L1 = rng.choice([3, 5, 7, 9])
    return (gen.int_filter(rng, Lo), gen.int_filter(rng, L1), gen.int_filter(rng, L1), gen.int_filter(rng, Lo))


def int_qshift(rng, gen):
    """random even-length integer q-shift-like filters with the reference's sign conventions:
    sum(h0a*h0b) > 0, sum(h1a*h1b) < 0 (the reference picks the tree order from these signs),
    same for the synthesis filters"""
    m = 2 * rng.randint(1, 8)
    m1 = m if rng.random() < 0.5 else 2 * rng.randint(1, 8)      # the high-pass pair may have another length than the low-pass pair

    def pair(sign, L):
        while True:
            a = gen.int_filter(rng, L); b = gen.int_filter(rng, L)
            if np.sign(np.sum(a * b)) == sign:
                return a, b
    h0a, h0b = pair(1, m); g0a, g0b = pair(1, m); h1a, h1b = pair(-1, m1); g1a, g1b = pair(-1, m1)
    return (h0a, h0b, g0a, g0b, h1a, h1b, g1a, g1b)
