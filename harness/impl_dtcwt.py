"""Adapters: run the real pytorch_wavelets DTCWT code for a protocol case."""
import numpy as np
import torch
from . import rt
from .impl_dwt import T, N


def lw():
    import pytorch_wavelets.dtcwt.lowlevel as m
    return m


def tf():
    import pytorch_wavelets.dtcwt.transform_funcs as m
    return m


def col(w):
    return T(w).reshape(1, 1, -1, 1)


def mode_of(sym):
    return 'symmetric' if sym else 'zero'


def out(t):
    """placeholders (zero-dim tensors) and None travel as None"""
    if t is None or (isinstance(t, torch.Tensor) and t.shape == torch.Size([])):
        return None
    return N(t)


def colfilter(ps, ts):
    return [N(lw().colfilter(T(ts[1]), col(ts[0]), mode_of(ps[0])))]


def rowfilter(ps, ts):
    return [N(lw().rowfilter(T(ts[1]), col(ts[0]), mode_of(ps[0])))]


def coldfilt(ps, ts):
    return [N(lw().coldfilt(T(ts[2]), col(ts[0]), col(ts[1]), bool(ps[0])))]


def rowdfilt(ps, ts):
    return [N(lw().rowdfilt(T(ts[2]), col(ts[0]), col(ts[1]), bool(ps[0])))]


def colifilt(ps, ts):
    return [N(lw().colifilt(T(ts[2]), col(ts[0]), col(ts[1]), bool(ps[0])))]


def rowifilt(ps, ts):
    return [N(lw().rowifilt(T(ts[2]), col(ts[0]), col(ts[1]), bool(ps[0])))]


def q2c(ps, ts):
    (a, b), (c, d) = lw().q2c(T(ts[0]))
    return [N(a), N(b), N(c), N(d)]


def c2q(ps, ts):
    return [N(lw().c2q((T(ts[0]), T(ts[1])), (T(ts[2]), T(ts[3]))))]


def fwd_j1(ps, ts):
    sym, skip = ps
    ll, hr, hi = tf().fwd_j1(T(ts[2]), col(ts[0]), col(ts[1]), bool(skip), 2, mode_of(sym))
    return [N(ll), out(hr), out(hi)]


def fwd_j1_rot(ps, ts):
    sym, skip = ps
    ll, hr, hi = tf().fwd_j1_rot(T(ts[3]), col(ts[0]), col(ts[1]), col(ts[2]), bool(skip), 2, mode_of(sym))
    return [N(ll), out(hr), out(hi)]


def fwd_j2plus(ps, ts):
    (skip,) = ps
    ll, hr, hi = tf().fwd_j2plus(T(ts[4]), col(ts[0]), col(ts[1]), col(ts[2]), col(ts[3]), bool(skip), 2, 'symmetric')
    return [N(ll), out(hr), out(hi)]


def fwd_j2plus_rot(ps, ts):
    (skip,) = ps
    ll, hr, hi = tf().fwd_j2plus_rot(T(ts[6]), *[col(t) for t in ts[:6]], bool(skip), 2, 'symmetric')
    return [N(ll), out(hr), out(hi)]


def _opt(t):
    return None if t is None else T(t)


def inv_j1(ps, ts):
    (sym,) = ps
    g0, g1, ll, hr, hi = ts
    return [N(tf().inv_j1(_opt(ll), _opt(hr), _opt(hi), col(g0), col(g1), 2, 3, 4, mode_of(sym)))]


def inv_j1_rot(ps, ts):
    (sym,) = ps
    g0, g1, g2, ll, hr, hi = ts
    return [N(tf().inv_j1_rot(_opt(ll), _opt(hr), _opt(hi), col(g0), col(g1), col(g2), 2, 3, 4, mode_of(sym)))]


def inv_j2plus(ps, ts):
    g0a, g1a, g0b, g1b, ll, hr, hi = ts
    return [N(tf().inv_j2plus(_opt(ll), _opt(hr), _opt(hi), col(g0a), col(g1a), col(g0b), col(g1b), 2, 3, 4, 'symmetric'))]


def inv_j2plus_rot(ps, ts):
    g0a, g1a, g0b, g1b, g2a, g2b, ll, hr, hi = ts
    return [N(tf().inv_j2plus_rot(_opt(ll), _opt(hr), _opt(hi), *[col(t) for t in ts[:6]], 2, 3, 4, 'symmetric'))]


def bits(mask, n):
    return [bool((mask >> j) & 1) for j in range(n)]


# When an oracle exercises a shipped table pair it sets NAMES = (biort_name, qshift_name): the module is then
# constructed from the NAMES, the way users do, so that the name-resolution path (loader, per-name caches,
# preparation of named filters) is part of what is compared with the reference.
NAMES = None


class named:
    def __init__(self, b, s):
        self.v = (b, s) if isinstance(b, str) and isinstance(s, str) else None

    def __enter__(self):
        global NAMES
        NAMES = self.v

    def __exit__(self, *a):
        global NAMES
        NAMES = None


def _scr(f):
    return np.asarray(f, dtype=np.float64).ravel()[::-1] * 2.0 + 1.0


def _module(M, bi, qs, key, force=None, **kw):
    """the module under test.  For about one input in three (decided by the input's content, so that a replay reproduces it)
    the instance is first constructed with OTHER filters of the same lengths and then takes over the state of an
    instance constructed as requested through load_state_dict, followed by a dtype round trip that is exact for its
    values: a module IS its state, whatever it was constructed with (no stale copies derived at construction)."""
    right = M(biort=bi, qshift=qs, **kw)
    import os
    from .impl_dwt import _u
    u = {'adopt': 0.0, 'deferred': 0.4}[force] if force else _u(key, 'adopt')
    if (force is None and os.environ.get('VERIF_NO_TWINS') == '1') or u >= 0.45:
        return right
    if u >= 0.34:
        from .impl_dwt import deferred
        return deferred(lambda: M(biort=bi, qshift=qs, **kw), right)
    try:
        from pytorch_wavelets.dtcwt.coeffs import biort as _b, qshift as _q
        fwd = M.__name__ == 'DTCWTForward'
        if isinstance(bi, str):
            h0o, g0o, h1o, g1o = _b(bi); bi = (h0o, h1o) if fwd else (g0o, g1o)
        if isinstance(qs, str):
            h0a, h0b, g0a, g0b, h1a, h1b, g1a, g1b = _q(qs); qs = (h0a, h0b, h1a, h1b) if fwd else (g0a, g0b, g1a, g1b)
        other = M(biort=tuple(_scr(f) for f in bi), qshift=tuple(_scr(f) for f in qs), **kw)
        sd = right.state_dict()
        if not sd or list(sd.keys()) != list(other.state_dict().keys()) or any(a.shape != b.shape for a, b in zip(other.state_dict().values(), sd.values())):
            return right
        other.load_state_dict({k: v.clone() for k, v in sd.items()})
        fl = [v for v in other.state_dict().values() if v.is_floating_point()]
        if fl and all(v.dtype == torch.float64 for v in fl) and all(bool((v.float().double() == v).all()) for v in fl):
            other.float(); other.double()
        return other
    except Exception:
        return right


def DTCWTForward(ps, ts):
    o, ri, sym, J, skm, inm = ps
    from pytorch_wavelets.dtcwt.transform2d import DTCWTForward as M
    h0o, h1o, h0a, h0b, h1a, h1b, x = ts
    bi, qs = NAMES if NAMES else ((h0o, h1o), (h0a, h0b, h1a, h1b))
    mod = _module(M, bi, qs, x, J=J, skip_hps=bits(skm, J), include_scale=bits(inm, J),
                  o_dim=o, ri_dim=ri, mode=mode_of(sym))
    yl, yh = mod(T(x))
    if isinstance(yl, (list, tuple)):
        return [out(s) for s in yl] + [out(h) for h in yh]
    return [N(yl)] + [out(h) for h in yh]


def _absent(sp):
    return None if sp == 0 else (torch.tensor([]) if sp == 1 else torch.zeros([]))


def DTCWTInverse(ps, ts):
    o, ri, sym, sp = ps
    from pytorch_wavelets.dtcwt.transform2d import DTCWTInverse as M
    g0o, g1o, g0a, g0b, g1a, g1b = ts[:6]
    low = ts[6]; highs = ts[7:]
    bi, qs = NAMES if NAMES else ((g0o, g1o), (g0a, g0b, g1a, g1b))
    mod = _module(M, bi, qs, next(t for t in ts[6:] if t is not None), o_dim=o, ri_dim=ri, mode=mode_of(sym))
    return [N(mod((_absent(sp) if low is None else T(low), [_absent(sp) if h is None else T(h) for h in highs])))]


IMPL = {k: v for k, v in list(globals().items()) if callable(v) and k[0] != '_' and k not in ('T', 'N', 'lw', 'tf', 'col', 'mode_of', 'out', 'bits', 'named')}

