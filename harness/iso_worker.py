"""Isolated references: ONE job computed in a process of its own in which nothing else of the library has run
(no pre-history, no added instance history, no other dtype, mode, shape or thread).
stdin: JSON {module, func, args}; stdout: pickle of func(args) (numpy arrays / plain data)."""
import sys, os, json, pickle, importlib


def main():
    os.environ['VERIF_NO_HISTORY'] = '1'
    req = json.loads(sys.stdin.read())
    from . import rt
    rt.setup_torch()
    res = getattr(importlib.import_module(req['module']), req['func'])(req['args'])
    sys.stdout.buffer.write(pickle.dumps(res))


if __name__ == '__main__':
    main()
