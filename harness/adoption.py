"""A module IS its state: an instance that took over the state of another instance of the same class (constructed with
other filters of the same lengths) through load_state_dict must behave exactly like that other instance - values and
gradients - also after dtype conversions.  Shared by C15 (purity: results are a function of state and input) and C16
(dtype conversions)."""
import numpy as np
import torch


def _pairs():
    from pytorch_wavelets import DWTForward, DWTInverse, DWT1DForward, DWT1DInverse, DTCWTForward, DTCWTInverse, ScatLayerj2
    from pytorch_wavelets.dwt.transform2d import SWTForward
    P = []
    for mode in ('symmetric', 'periodization', 'zero'):
        P.append(('DWTForward(J=2,%s) db4<-sym4' % mode, lambda w, mode=mode: DWTForward(J=2, wave=w, mode=mode), 'db4', 'sym4', 'img'))
        P.append(('DWTInverse(%s) db4<-sym4' % mode, lambda w, mode=mode: DWTInverse(wave=w, mode=mode), 'db4', 'sym4', 'pyr2:' + mode))
        P.append(('DWT1DForward(J=2,%s) db3<-coif1' % mode, lambda w, mode=mode: DWT1DForward(J=2, wave=w, mode=mode), 'db3', 'coif1', 'sig'))
        P.append(('DWT1DInverse(%s) db3<-coif1' % mode, lambda w, mode=mode: DWT1DInverse(wave=w, mode=mode), 'db3', 'coif1', 'pyr1:' + mode))
    P.append(('SWTForward(J=2) db4<-sym4', lambda w: SWTForward(J=2, wave=w), 'db4', 'sym4', 'img8'))
    P.append(('DTCWTForward(J=3) qshift_a<-qshift_06', lambda q: DTCWTForward(J=3, qshift=q), 'qshift_a', 'qshift_06', 'img'))
    P.append(('DTCWTForward(J=3, skip_hps=[T,F,T]) qshift_06<-qshift_a', lambda q: DTCWTForward(J=3, qshift=q, skip_hps=[True, False, True]), 'qshift_06', 'qshift_a', 'img'))
    P.append(('DTCWTInverse qshift_a<-qshift_06', lambda q: DTCWTInverse(qshift=q), 'qshift_a', 'qshift_06', 'dtpyr'))
    P.append(('ScatLayerj2 qshift_a<-qshift_06', lambda q: ScatLayerj2(qshift=q), 'qshift_a', 'qshift_06', 'img8'))
    return P


def _input(kind, g, dtype):
    r = lambda *sh: torch.tensor(g.standard_normal(sh), dtype=dtype)
    if kind == 'img':
        return (r(2, 2, 18, 14),)
    if kind == 'img8':
        return (r(1, 2, 16, 16),)
    if kind == 'sig':
        return (r(2, 2, 23),)
    if kind.startswith('pyr2:'):
        from pytorch_wavelets import DWTForward
        yl, yh = DWTForward(J=2, wave='db4', mode=kind[5:]).to(dtype)(r(1, 2, 18, 14))
        return ((yl.detach(), [h.detach() for h in yh]),)
    if kind.startswith('pyr1:'):
        from pytorch_wavelets import DWT1DForward
        yl, yh = DWT1DForward(J=2, wave='db3', mode=kind[5:]).to(dtype)(r(1, 2, 23))
        return ((yl.detach(), [h.detach() for h in yh]),)
    if kind == 'dtpyr':
        from pytorch_wavelets import DTCWTForward
        yl, yh = DTCWTForward(J=3).to(dtype)(r(1, 2, 18, 14))
        return ((yl.detach(), [h.detach() for h in yh]),)
    raise ValueError(kind)


def _flat(o, acc=None):
    acc = [] if acc is None else acc
    if isinstance(o, torch.Tensor):
        acc.append(o)
    elif isinstance(o, (list, tuple)):
        for v in o:
            _flat(v, acc)
    return acc


def _leaves(args):
    return [t for t in _flat(args) if t.is_floating_point() and t.numel()]


def _close(a, b, tol):
    if a.shape != b.shape or a.dtype != b.dtype:
        return False
    if a.numel() == 0:
        return True
    sc = max(1.0, float(b.abs().max()))
    return bool(torch.isfinite(a).all()) and float((a - b).abs().max()) <= tol * sc


def run(ck, histories=('load', 'f32-double-load', 'load-double')):
    """histories: 'load'            A(cfg1) built in float64, load_state_dict(B(cfg2)), compare with B
                  'f32-double-load' A(cfg2) built under the float32 default, .double(), load_state_dict(B(cfg2) built in float64), compare with B
                  'load-double'     both built under the float32 default, A(cfg1).load_state_dict(B(cfg2)), A.double(), compare with B.double()"""
    old = torch.get_default_dtype()
    g = np.random.default_rng(12345)
    try:
        for name, make, cfg1, cfg2, kind in _pairs():
            for hist in histories:
                try:
                    if hist == 'load':
                        torch.set_default_dtype(torch.float64)
                        A = make(cfg1); B = make(cfg2); A.load_state_dict(B.state_dict())
                    elif hist == 'f32-double-load':
                        torch.set_default_dtype(torch.float32); A = make(cfg2).double()
                        torch.set_default_dtype(torch.float64); B = make(cfg2); A.load_state_dict(B.state_dict())
                    else:
                        torch.set_default_dtype(torch.float32)
                        A = make(cfg1); B = make(cfg2); A.load_state_dict(B.state_dict()); A = A.double(); B = B.double()
                    torch.set_default_dtype(torch.float64)
                    args = _input(kind, g, torch.float64)
                    outs = []
                    for M in (A, B):
                        a2 = _clone_req(args)
                        o = [t for t in _flat(M(*a2)) if t.numel() and t.dim()]
                        gr = torch.autograd.grad([(t * torch.linspace(0.5, 1.5, t.numel(), dtype=t.dtype).reshape(t.shape)).sum() for t in o if t.requires_grad],
                                                 _leaves(a2), allow_unused=True)
                        outs.append(([t.detach() for t in o], [x for x in gr if x is not None]))
                except Exception as e:
                    ck.fail('%s, history %s: raises %s: %s' % (name, hist, type(e).__name__, str(e)[:160]), {'oracle': 'adoption', 'name': name, 'history': hist}); return 'raise'
                (oa, ga), (ob, gb) = outs
                bad = None
                if len(oa) != len(ob) or any(not _close(x, y, 1e-12) for x, y in zip(oa, ob)):
                    bad = 'outputs'
                elif len(ga) != len(gb) or any(not _close(x, y, 1e-12) for x, y in zip(ga, gb)):
                    bad = 'gradients'
                if bad:
                    ck.fail('%s, history %s: the instance that took over the state of the other one through load_state_dict gives different %s '
                            '(a module is its state, whatever it was constructed with)' % (name, hist, bad), {'oracle': 'adoption', 'name': name, 'history': hist}); return 'diff'
                ck.oracle_ok(('adoption', name, hist), group='state-adoption', sample={'module': name, 'history': hist})
    finally:
        torch.set_default_dtype(old)
    return None


def _clone_req(args):
    def go(o):
        if isinstance(o, torch.Tensor):
            return o.clone().requires_grad_(True) if (o.is_floating_point() and o.numel()) else o
        if isinstance(o, (list, tuple)):
            return type(o)(go(v) for v in o)
        return o
    return go(args)
