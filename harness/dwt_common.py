"""Shared pieces of the DWT property checks (C01 C02 C05 C10 C13 C14 C17 C19)."""
import json, os
import numpy as np
from . import rt, gen, proto
from . import oracle_pywt as O

TRUSTED = [
    'Lean 4.33 kernel; axioms propext, Classical.choice, Quot.sound only (audited per theorem by #print axioms); no native_decide/bv_decide/sorry (grep)',
    'lean/WaveletsVerif/Model/Torch.lean: assumed semantics of conv2d / conv_transpose2d / F.pad / advanced indexing / cat / reshape (validated by correspondence, not proved)',
    'harness (Python) + Driver (Lean): parsing, exact rational canonicalisation, diff',
    'real arithmetic stands for float64/float32 arithmetic (exact on the integer correspondence inputs; rounding bounded under C16)',
    'PyWavelets is the oracle for the Lean specification Spec/Pywt.lean (spec <-> pywt checked exactly on integer filter banks of even length)',
]


def evenlen(n):
    return n + (n % 2)


def level_sizes(n, L, m, J):
    """input length of each level 1..J of the forward transform along one axis"""
    out = []
    for _ in range(J):
        out.append(n)
        n = (n + 1) // 2 if m == 2 else (n + L - 1) // 2
    return out, n


def per_short_fwd(sizes, L, m):
    return m == 2 and any(evenlen(n) < L for n in sizes)


def per_short_inv(lo_sizes, L, m):
    return m == 2 and any(2 * n < L - 2 for n in lo_sizes)


def reflect_may_raise(sizes, L):
    """afb1d pads p//2, (p+1)//2 with F.pad(reflect), which needs pad < N"""
    for n in sizes:
        p = 2 * ((n + L - 1) // 2 - 1) - n + L
        if (p + 1) // 2 >= n:
            return True
    return False


def same(a, b, tol=0.0):
    """lists of arrays/None equal (exactly, or within tol*scale)"""
    if len(a) != len(b):
        return False, 'count %d vs %d' % (len(a), len(b))
    for k, (u, v) in enumerate(zip(a, b)):
        if u is None or v is None:
            if u is None and v is None:
                continue
            return False, 'output %d None-ness' % k
        u = np.asarray(u); v = np.asarray(v)
        if u.shape != v.shape:
            return False, 'output %d shape %s vs %s' % (k, u.shape, v.shape)
        if tol == 0.0:
            if not np.array_equal(u, v):
                idx = tuple(np.argwhere(~(u == v))[0])
                return False, 'output %d at %s: %r vs %r' % (k, idx, u[idx], v[idx])
        else:
            sc = max(1.0, float(np.nanmax(np.abs(v))) if v.size and np.isfinite(v).any() else 1.0)
            d = np.abs(u - v)
            if not (d <= tol * sc).all():
                idx = tuple(np.argwhere(~(d <= tol * sc))[0])      # NaN compares false both ways
                return False, 'output %d at %s: %r vs %r (tol %g)' % (k, idx, u[idx], v[idx], tol * sc)
    return True, ''


def model_agrees(case, table):
    """does the real code still behave as the Lean implementation model on this case?"""
    st = rt.correspond('known-finding-probe', [case], table)
    return st.evaluations == 1 and not st.mismatches


def arr_json(a):
    return None if a is None else {'shape': list(np.shape(a)), 'data': np.asarray(a, dtype=np.float64).ravel().tolist()}


def arr_from(d):
    return None if d is None else np.array(d['data'], dtype=np.float64).reshape(d['shape'])


EXTREME_WAVELETS = ['haar', 'db38', 'coif17', 'sym20', 'dmey', 'bior6.8', 'rbio3.9', 'bior1.1']    # shortest, longest, approximately PR, extremes of the biorthogonal families


def named_wavelets(rng, k):
    """k wavelet names: the extremes of the range first (always), then a random sample of the rest"""
    import pywt
    names = pywt.wavelist(kind='discrete')
    if k >= len(names):
        return names
    ext = [n for n in EXTREME_WAVELETS if n in names][:max(0, k // 3)]
    return ext + rng.sample([n for n in names if n not in ext], k - len(ext))


def load_replay(path):
    with open(path) as f:
        return json.load(f)


# ---------------------------------------------------------------------------
# generic correspondence generator over the DWT ops
# ---------------------------------------------------------------------------

def outlen(m, N, L):
    return (N + 1) // 2 if m == 2 else (N + L - 1) // 2


def synlen(m, n, L):
    return 2 * n if m == 2 else 2 * n - L + 2


def pyramid_shapes_1d(N, L, m, J):
    """band lengths (finest first) and lowpass length of a J-level forward transform"""
    hs = []
    for _ in range(J):
        N = outlen(m, N, L)
        hs.append(N)
    return hs, N


def dwt_cases(ck, n, ops, modes=None, Lmax=None, Nmax=None):
    """random structured cases for the ops named in `ops` (names of driver ops)"""
    rng = ck.rng
    q = ck.tier == 'quick'
    Lmax = Lmax or (12 if q else 20)
    Nmax = Nmax or (24 if q else 48)
    Smax = 14 if q else 28
    modes = modes or gen.MODES5
    for it in range(n):
        op = ops[it % len(ops)]
        L = rng.randint(2, Lmax)
        m = rng.choice(modes)
        w0 = gen.int_filter(rng, L); w1 = gen.int_filter(rng, L)
        L2 = rng.randint(2, 8)
        r0 = gen.int_filter(rng, L2); r1 = gen.int_filter(rng, L2)
        nb, c = gen.batch_channels(rng)
        N = gen.pick_len(rng, L, Nmax)
        H = gen.pick_len(rng, L, Smax); W = gen.pick_len(rng, L2, Smax)
        J = rng.randint(1, 3 if q else 4)
        tag = {'mode': gen.MODE_NAME[m], 'L': L, 'N': N, 'L2': L2, 'H': H, 'W': W}
        if op == 'afb1d':
            ax = rng.choice([2, 3])
            if rng.random() < 0.4:
                eye = np.eye(N).reshape(N, 1, N, 1) if ax == 2 else np.eye(N).reshape(N, 1, 1, N)
                yield rt.Case('Z', 'afb1d', [ax, m], [w0, w1, eye], dict(tag, what='operator'))
            else:
                other = rng.randint(1, 3)
                shape = (nb, c, N, other) if ax == 2 else (nb, c, other, N)
                yield rt.Case('Z', 'afb1d', [ax, m], [w0, w1, gen.int_tensor(rng, shape)], tag)
        elif op == 'sfb1d':
            ax = rng.choice([2, 3]); k = rng.randint(1, Nmax // 2)
            if rng.random() < 0.4:
                lo = np.concatenate([np.eye(k), np.zeros((k, k))]); hi = np.concatenate([np.zeros((k, k)), np.eye(k)])
                sh = (2 * k, 1, k, 1) if ax == 2 else (2 * k, 1, 1, k)
                yield rt.Case('Z', 'sfb1d', [ax, m], [w0, w1, lo.reshape(sh), hi.reshape(sh)], dict(tag, n=k, what='operator'))
            else:
                other = rng.randint(1, 3)
                shape = (nb, c, k, other) if ax == 2 else (nb, c, other, k)
                yield rt.Case('Z', 'sfb1d', [ax, m], [w0, w1, gen.int_tensor(rng, shape), gen.int_tensor(rng, shape)], dict(tag, n=k))
        elif op == 'afb1d_atrous':
            ax = rng.choice([2, 3]); d = rng.choice([1, 2, 4]); other = rng.randint(1, 3)
            shape = (nb, c, N, other) if ax == 2 else (nb, c, other, N)
            yield rt.Case('Z', 'afb1d_atrous', [ax, rng.choice([0, 1, 4, 6]), d], [w0, w1, gen.int_tensor(rng, shape)], dict(tag, d=d))
        elif op == 'AFB1D_fwd':
            yield rt.Case('Z', 'AFB1D_fwd', [m], [w0, w1, gen.int_tensor(rng, (nb, c, N))], tag)
        elif op == 'AFB1D_bwd':
            K = outlen(m, N, L)
            yield rt.Case('Z', 'AFB1D_bwd', [m, N], [w0, w1, gen.int_tensor(rng, (nb, c, K)), gen.int_tensor(rng, (nb, c, K))], tag)
        elif op == 'SFB1D_fwd':
            k = rng.randint(1, Nmax // 2)
            yield rt.Case('Z', 'SFB1D_fwd', [m], [w0, w1, gen.int_tensor(rng, (nb, c, k)), gen.int_tensor(rng, (nb, c, k))], dict(tag, n=k))
        elif op == 'SFB1D_bwd':
            k = rng.randint(1, Nmax // 2); S = synlen(m, k, L)
            if S >= 1:
                yield rt.Case('Z', 'SFB1D_bwd', [m, k, rng.choice([1, 2, 3])], [w0, w1, gen.int_tensor(rng, (nb, c, S))], dict(tag, n=k))
        elif op == 'AFB2D_fwd':
            yield rt.Case('Z', 'AFB2D_fwd', [m], [r0, r1, w0, w1, gen.int_tensor(rng, (nb, c, H, W))], tag)
        elif op == 'AFB2D_bwd':
            KH = outlen(m, H, L); KW = outlen(m, W, L2)
            yield rt.Case('Z', 'AFB2D_bwd', [m, H, W], [r0, r1, w0, w1, gen.int_tensor(rng, (nb, c, KH, KW)), gen.int_tensor(rng, (nb, c, 3, KH, KW))], tag)
        elif op in ('SFB2D_fwd', 'sfb2d', 'sfb2d_nonsep', 'SFB2D_bwd'):
            kh = rng.randint(1, Smax // 2); kw = rng.randint(1, Smax // 2)
            lo = gen.int_tensor(rng, (nb, c, kh, kw)); hi = gen.int_tensor(rng, (nb, c, 3, kh, kw))
            t2 = dict(tag, kh=kh, kw=kw)
            if op == 'SFB2D_fwd':
                yield rt.Case('Z', 'SFB2D_fwd', [m], [r0, r1, w0, w1, lo, hi], t2)
            elif op == 'sfb2d':
                yield rt.Case('Z', 'sfb2d', [m], [w0, w1, r0, r1, lo, hi[:, :, 0], hi[:, :, 1], hi[:, :, 2]], t2)
            elif op == 'sfb2d_nonsep':
                sh = rng.random()
                if sh < 0.45 and len(r0) == len(w0):
                    rr0, rr1 = (w0, w1) if sh < 0.3 else ((w0, r1) if sh < 0.38 else (r0, w1))
                else:
                    rr0, rr1 = r0, r1
                yield rt.Case('Z', 'sfb2d_nonsep', [m, rng.randint(0, 5)], [w0, w1, rr0, rr1, np.concatenate([lo[:, :, None], hi], axis=2)], t2)
            else:
                SH = synlen(m, kh, L); SW = synlen(m, kw, L2)
                if SH >= 1 and SW >= 1:
                    yield rt.Case('Z', 'SFB2D_bwd', [m, kh, kw, rng.choice([1, 2, 3])], [r0, r1, w0, w1, gen.int_tensor(rng, (nb, c, SH, SW))], t2)
        elif op == 'DWT1DForward':
            yield rt.Case('Z', 'DWT1DForward', [m, J], [w0, w1, gen.int_tensor(rng, (nb, c, N))], dict(tag, J=J))
        elif op == 'DWT1DInverse':
            hs, nl = pyramid_shapes_1d(N, L, m, J)
            yl = gen.int_tensor(rng, (nb, c, nl))
            # a None level is only shape-consistent where no un-padding is needed
            yh = []
            for j, hl in enumerate(hs):
                can_none = True if j + 1 == J else (synlen(m, hs[j + 1], L) == hl)
                yh.append(None if (can_none and rng.random() < 0.25) else gen.int_tensor(rng, (nb, c, hl)))
            yield rt.Case('Z', 'DWT1DInverse', [m], [w0, w1, yl] + yh, dict(tag, J=J))
        elif op in ('DWTForward', 'afb2d', 'afb2d_nonsep'):
            x = gen.int_tensor(rng, (nb, c, H, W))
            if op == 'afb2d':
                yield rt.Case('Z', 'afb2d', [m], [w0, w1, r0, r1, x], tag)
            elif op == 'afb2d_nonsep':
                # the row filters may be left to default to the column filters (None / two-argument forms): share one or both
                sh = rng.random()
                if sh < 0.45 and len(r0) == len(w0):
                    rr0, rr1 = (w0, w1) if sh < 0.3 else ((w0, r1) if sh < 0.38 else (r0, w1))
                else:
                    rr0, rr1 = r0, r1
                yield rt.Case('Z', 'afb2d_nonsep', [m if m != 6 else 0, rng.randint(0, 5)], [w0, w1, rr0, rr1, x], tag)
            elif rng.random() < 0.5:
                yield rt.Case('Z', 'DWTForward', [m, J, 4], [w0, w1, r0, r1, x], dict(tag, J=J))
            else:
                yield rt.Case('Z', 'DWTForward', [m, J, 2], [w0, w1, x], dict(tag, J=J, L2=L))
        elif op == 'DWTInverse':
            four = rng.random() < 0.5
            Lr = L2 if four else L
            hh, nlh = pyramid_shapes_1d(H, L, m, J); hw, nlw = pyramid_shapes_1d(W, Lr, m, J)
            yl = gen.int_tensor(rng, (nb, c, nlh, nlw))
            yh = []
            for j in range(J):
                can_none = True if j + 1 == J else (synlen(m, hh[j + 1], L) == hh[j] and synlen(m, hw[j + 1], Lr) == hw[j])
                yh.append(None if (can_none and rng.random() < 0.25) else gen.int_tensor(rng, (nb, c, 3, hh[j], hw[j])))
            wave = [w0, w1, r0, r1] if four else [w0, w1]
            yield rt.Case('Z', 'DWTInverse', [m, len(wave)], wave + [yl] + yh, dict(tag, J=J))
        elif op == 'SWTForward':
            Js = rng.randint(1, 2 if q else 3)
            hh = (2 ** Js) * rng.randint(1, 3); ww = (2 ** Js) * rng.randint(1, 3)
            wave = [w0, w1, r0, r1] if rng.random() < 0.5 else [w0, w1]
            yield rt.Case('Z', 'SWTForward', [rng.choice([2, 6]), Js, len(wave)], wave + [gen.int_tensor(rng, (nb, c, hh, ww))], dict(tag, J=Js))
        elif op == 'afb2d_atrous':
            d = rng.choice([1, 2, 4])
            yield rt.Case('Z', 'afb2d_atrous', [6, d], [w0, w1, r0, r1, gen.int_tensor(rng, (nb, c, H, W))], dict(tag, d=d))
        else:
            raise ValueError(op)


def std_run(ck, prop, module, theorems, corr_ops, n_corr_q, n_corr_t, oracle_fn, search_fn=None, rule=''):
    """the common skeleton: Lean build + audit, correspondence, oracle, failing-input search"""
    from .impl_dwt import IMPL
    from .translate import regen_all
    rt.setup_torch()
    q = ck.tier == 'quick'
    ck.trusted = TRUSTED
    ck.extra['module'] = module
    ck.extra['rule'] = rule
    if not getattr(ck, 'no_lean', False):
        ck.lean = rt.lean_check(prop, module, theorems, regen=regen_all)
    st = rt.correspond('impl-model', dwt_cases(ck, n_corr_q if q else n_corr_t, corr_ops), IMPL)
    ck.corr.append(st)
    oracle_fn(ck, False)
    if ((ck.lean is not None and not ck.lean.ok) or st.mismatches) and not ck.failures:
        ck.notes.append('a proof obligation or the correspondence broke: extended failing-input search')
        if search_fn:
            search_fn(ck, st)
        else:
            oracle_fn(ck, True)
    return st
