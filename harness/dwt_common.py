"""Shared pieces of the DWT property checks (C01 C02 C05 C10 C13 C14 C17 C19)."""
import json, os
import numpy as np
from . import rt, gen, proto
from . import oracle_pywt as O

TRUSTED = [
    'Lean 4.33 kernel; axioms propext, Classical.choice, Quot.sound only (audited per theorem by #print axioms); no native_decide/bv_decide/sorry (grep)',
    'lean/WaveletsVerif/Model/Torch.lean: assumed semantics of conv2d / conv_transpose2d / F.pad / advanced indexing / cat / reshape (validated by correspondence, not proved)',
    'harness (Python) + Driver (Lean): parsing, exact rational canonicalisation, diff',
    'real arithmetic stands for float64/float32 arithmetic (exact on the integer correspondence inputs; rounding bounded under C16)',
    'PyWavelets is the oracle for the Lean specification Spec/Pywt.lean (spec <-> pywt checked exactly on integer filter banks of even length)',
]


def evenlen(n):
    return n + (n % 2)


def level_sizes(n, L, m, J):
    """input length of each level 1..J of the forward transform along one axis"""
    out = []
    for _ in range(J):
        out.append(n)
        n = (n + 1) // 2 if m == 2 else (n + L - 1) // 2
    return out, n


def per_short_fwd(sizes, L, m):
    return m == 2 and any(evenlen(n) < L for n in sizes)


def per_short_inv(lo_sizes, L, m):
    return m == 2 and any(2 * n < L - 2 for n in lo_sizes)


def reflect_may_raise(sizes, L):
    """afb1d pads p//2, (p+1)//2 with F.pad(reflect), which needs pad < N"""
    for n in sizes:
        p = 2 * ((n + L - 1) // 2 - 1) - n + L
        if (p + 1) // 2 >= n:
            return True
    return False


def same(a, b, tol=0.0):
    """lists of arrays/None equal (exactly, or within tol*scale)"""
    if len(a) != len(b):
        return False, 'count %d vs %d' % (len(a), len(b))
    for k, (u, v) in enumerate(zip(a, b)):
        if u is None or v is None:
            if u is None and v is None:
                continue
            return False, 'output %d None-ness' % k
        u = np.asarray(u); v = np.asarray(v)
        if u.shape != v.shape:
            return False, 'output %d shape %s vs %s' % (k, u.shape, v.shape)
        if tol == 0.0:
            if not np.array_equal(u, v):
                idx = tuple(np.argwhere(u != v)[0])
                return False, 'output %d at %s: %r vs %r' % (k, idx, u[idx], v[idx])
        else:
            sc = max(1.0, float(np.max(np.abs(v))) if v.size else 1.0)
            d = np.abs(u - v)
            if not (d <= tol * sc).all():
                idx = tuple(np.argwhere(d > tol * sc)[0])
                return False, 'output %d at %s: %r vs %r (tol %g)' % (k, idx, u[idx], v[idx], tol * sc)
    return True, ''


def model_agrees(case, table):
    """does the real code still behave as the Lean implementation model on this case?"""
    st = rt.correspond('known-finding-probe', [case], table)
    return st.evaluations == 1 and not st.mismatches


def arr_json(a):
    return None if a is None else {'shape': list(np.shape(a)), 'data': np.asarray(a, dtype=np.float64).ravel().tolist()}


def arr_from(d):
    return None if d is None else np.array(d['data'], dtype=np.float64).reshape(d['shape'])


def named_wavelets(rng, k):
    import pywt
    names = pywt.wavelist(kind='discrete')
    if k >= len(names):
        return names
    return rng.sample(names, k)


def load_replay(path):
    with open(path) as f:
        return json.load(f)
