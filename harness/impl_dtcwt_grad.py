"""Adapters for the backward passes of the four DTCWT autograd Functions."""
import numpy as np
import torch
from . import rt
from .impl_dwt import T, N
from .impl_dtcwt import col, out, tf

MODE_INT = {'zero': 0, 'symmetric': 1}


def _layout_shape(nb, c, r, cc, o, ri):
    from .dtcwt_common import canon_to_layout
    return canon_to_layout(np.zeros((nb, c, 6, r, cc, 2)), o, ri).shape


def FWD_J1_bwd(ps, ts):
    o, ri, sym, skip = ps
    h0, h1, dl, dh = ts
    nb, c, H, W = dl.shape
    x = torch.zeros(nb, c, H, W, dtype=torch.float64, requires_grad=True)
    ll, highs = tf().FWD_J1.apply(x, col(h0), col(h1), bool(skip), o, ri, 1 if sym else 0)
    if tuple(ll.shape) != tuple(dl.shape) or (not skip and tuple(highs.shape) != tuple(dh.shape)):
        raise rt.HarnessSkip('cotangent shapes do not match the forward outputs')
    if skip:
        (g,) = torch.autograd.grad([ll], x, [T(dl)])
    else:
        (g,) = torch.autograd.grad([ll, highs], x, [T(dl), T(dh)])
    return [N(g)]


def FWD_J2PLUS_bwd(ps, ts):
    o, ri, skip = ps
    h0a, h0b, h1a, h1b, dl, dh = ts
    nb, c, H, W = dl.shape
    x = torch.zeros(nb, c, 2 * H, 2 * W, dtype=torch.float64, requires_grad=True)
    ll, highs = tf().FWD_J2PLUS.apply(x, col(h0a), col(h1a), col(h0b), col(h1b), bool(skip), o, ri, 1)
    if tuple(ll.shape) != tuple(dl.shape) or (not skip and tuple(highs.shape) != tuple(dh.shape)):
        raise rt.HarnessSkip('cotangent shapes do not match the forward outputs')
    if skip:
        (g,) = torch.autograd.grad([ll], x, [T(dl)])
    else:
        (g,) = torch.autograd.grad([ll, highs], x, [T(dl), T(dh)])
    return [N(g)]


def INV_J1_bwd(ps, ts):
    o, ri, sym, mask = ps
    g0, g1, dy = ts
    nb, c, H, W = dy.shape
    lows = torch.zeros(nb, c, H, W, dtype=torch.float64, requires_grad=bool(mask & 1))
    highs = torch.zeros(_layout_shape(nb, c, H // 2, W // 2, o, ri), dtype=torch.float64, requires_grad=bool(mask & 2))
    y = tf().INV_J1.apply(lows, highs, col(g0), col(g1), o, ri, 1 if sym else 0)
    if tuple(y.shape) != tuple(dy.shape):
        raise rt.HarnessSkip('cotangent shape does not match the forward output')
    need = [t for t in (lows, highs) if t.requires_grad]
    gs = torch.autograd.grad([y], need, [T(dy)], allow_unused=True)
    it = iter(gs)
    return [N(next(it)) if t.requires_grad else None for t in (lows, highs)]


def INV_J2PLUS_bwd(ps, ts):
    o, ri, mask = ps
    g0a, g0b, g1a, g1b, dy = ts
    nb, c, H, W = dy.shape
    lows = torch.zeros(nb, c, H // 2, W // 2, dtype=torch.float64, requires_grad=bool(mask & 1))
    highs = torch.zeros(_layout_shape(nb, c, H // 4, W // 4, o, ri), dtype=torch.float64, requires_grad=bool(mask & 2))
    y = tf().INV_J2PLUS.apply(lows, highs, col(g0a), col(g1a), col(g0b), col(g1b), o, ri, 1)
    if tuple(y.shape) != tuple(dy.shape):
        raise rt.HarnessSkip('cotangent shape does not match the forward output')
    need = [t for t in (lows, highs) if t.requires_grad]
    gs = torch.autograd.grad([y], need, [T(dy)], allow_unused=True)
    it = iter(gs)
    return [N(next(it)) if t.requires_grad else None for t in (lows, highs)]


IMPL = {'FWD_J1_bwd': FWD_J1_bwd, 'FWD_J2PLUS_bwd': FWD_J2PLUS_bwd, 'INV_J1_bwd': INV_J1_bwd, 'INV_J2PLUS_bwd': INV_J2PLUS_bwd}
