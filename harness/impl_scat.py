"""Adapters for the scattering layers (float tier: the Lean model runs at Float)."""
import numpy as np
import torch
from . import rt
from .impl_dwt import T, N


def _param(h):
    from pytorch_wavelets.dtcwt.lowlevel import prep_filt
    return torch.nn.Parameter(prep_filt(np.asarray(h, dtype=np.float64), 1).to(torch.float64), False)


def make_scat1(h0, h1, h2, sym, colour, bias):
    from pytorch_wavelets.scatternet.layers import ScatLayer
    mod = ScatLayer(biort='near_sym_b_bp' if h2 is not None else 'near_sym_a', mode='symmetric' if sym else 'zero',
                    magbias=float(bias), combine_colour=bool(colour))
    mod.h0o = _param(h0); mod.h1o = _param(h1)
    if h2 is not None:
        mod.h2o = _param(h2)
    return mod


def make_scat2(f, sym, colour, bias):
    from pytorch_wavelets.scatternet.layers import ScatLayerj2
    rot = len(f) == 9
    mod = ScatLayerj2(biort='near_sym_b_bp' if rot else 'near_sym_a', qshift='qshift_b_bp' if rot else 'qshift_a',
                      mode='symmetric' if sym else 'zero', magbias=float(bias), combine_colour=bool(colour))
    names = ['h0o', 'h1o', 'h2o', 'h0a', 'h0b', 'h1a', 'h1b', 'h2a', 'h2b'] if rot else ['h0o', 'h1o', 'h0a', 'h0b', 'h1a', 'h1b']
    for n, h in zip(names, f):
        setattr(mod, n, _param(h))
    return mod


def scat_module(order, key=None, force=None, **kw):
    """ScatLayer (order 1) / ScatLayerj2 (order 2) as the harness hands it to an oracle: for about one input in three
    (decided by `key`, content-determined) the instance adopts its state - constructed with the other 10-tap q-shift
    family where there is one, or through the deferred-initialisation workflow (meta device, to_empty) - and then
    load_state_dict of an instance constructed as requested.  A layer IS its state."""
    import os
    from pytorch_wavelets.scatternet import ScatLayer as S1, ScatLayerj2 as S2
    from .impl_dwt import _u, deferred
    M = S1 if order == 1 else S2
    right = M(**kw)
    if force is None and (key is None or os.environ.get('VERIF_NO_TWINS') == '1'):
        return right
    u = {'alt': 0.0, 'deferred': 0.3}[force] if force else _u(key, 'adopt-scat')
    if u >= 0.4:
        return right
    alt = {'qshift_a': 'qshift_06', 'qshift_06': 'qshift_a'}.get(kw.get('qshift', 'qshift_a' if order == 2 else None))
    if order == 2 and alt is not None and u < 0.25:
        try:
            other = M(**dict(kw, qshift=alt))
            sd = right.state_dict()
            if list(sd.keys()) == list(other.state_dict().keys()) and all(a.shape == b.shape for a, b in zip(sd.values(), other.state_dict().values())):
                other.load_state_dict({k: v.clone() for k, v in sd.items()})
                return other
        except Exception:
            pass
        return right
    return deferred(lambda: M(**kw), right)


def ScatLayer(ps, ts):
    sym, colour, rot = ps
    if rot:
        h0, h1, h2, b, x = ts
    else:
        h0, h1, b, x = ts; h2 = None
    mod = make_scat1(h0, h1, h2, sym, colour, float(np.ravel(b)[0]))
    return [N(mod(T(x)))]


def ScatLayerj2(ps, ts):
    sym, colour, rot = ps
    nf = 9 if rot else 6
    f = ts[:nf]; b = ts[nf]; x = ts[nf + 1]
    mod = make_scat2(f, sym, colour, float(np.ravel(b)[0]))
    return [N(mod(T(x)))]


def ScatJ1_bwd(ps, ts):
    sym, rot = ps
    if rot:
        h0, h1, h2, b, x, dz = ts
    else:
        h0, h1, b, x, dz = ts; h2 = None
    mod = make_scat1(h0, h1, h2, sym, 0, float(np.ravel(b)[0]))
    xt = T(x).requires_grad_(True)
    z = mod(xt)
    if tuple(z.shape) != tuple(dz.shape):
        raise rt.HarnessSkip('cotangent shape does not match the forward output')
    (g,) = torch.autograd.grad([z], xt, [T(dz)])
    return [N(g)]


def ScatJ2_bwd(ps, ts):
    (rot,) = ps
    nf = 9 if rot else 6
    f = ts[:nf]; b = ts[nf]; x = ts[nf + 1]; dz = ts[nf + 2]
    mod = make_scat2(f, 1, 0, float(np.ravel(b)[0]))
    xt = T(x).requires_grad_(True)
    z = mod(xt)
    if tuple(z.shape) != tuple(dz.shape):
        raise rt.HarnessSkip('cotangent shape does not match the forward output')
    (g,) = torch.autograd.grad([z], xt, [T(dz)])
    return [N(g)]


IMPL = {'ScatLayer': ScatLayer, 'ScatLayerj2': ScatLayerj2, 'ScatJ1_bwd': ScatJ1_bwd, 'ScatJ2_bwd': ScatJ2_bwd}
