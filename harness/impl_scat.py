"""Adapters for the scattering layers (float tier: the Lean model runs at Float)."""
import numpy as np
import torch
from . import rt
from .impl_dwt import T, N


def _param(h):
    from pytorch_wavelets.dtcwt.lowlevel import prep_filt
    return torch.nn.Parameter(prep_filt(np.asarray(h, dtype=np.float64), 1).to(torch.float64), False)


def make_scat1(h0, h1, h2, sym, colour, bias):
    from pytorch_wavelets.scatternet.layers import ScatLayer
    mod = ScatLayer(biort='near_sym_b_bp' if h2 is not None else 'near_sym_a', mode='symmetric' if sym else 'zero',
                    magbias=float(bias), combine_colour=bool(colour))
    mod.h0o = _param(h0); mod.h1o = _param(h1)
    if h2 is not None:
        mod.h2o = _param(h2)
    return mod


def make_scat2(f, sym, colour, bias):
    from pytorch_wavelets.scatternet.layers import ScatLayerj2
    rot = len(f) == 9
    mod = ScatLayerj2(biort='near_sym_b_bp' if rot else 'near_sym_a', qshift='qshift_b_bp' if rot else 'qshift_a',
                      mode='symmetric' if sym else 'zero', magbias=float(bias), combine_colour=bool(colour))
    names = ['h0o', 'h1o', 'h2o', 'h0a', 'h0b', 'h1a', 'h1b', 'h2a', 'h2b'] if rot else ['h0o', 'h1o', 'h0a', 'h0b', 'h1a', 'h1b']
    for n, h in zip(names, f):
        setattr(mod, n, _param(h))
    return mod


def ScatLayer(ps, ts):
    sym, colour, rot = ps
    if rot:
        h0, h1, h2, b, x = ts
    else:
        h0, h1, b, x = ts; h2 = None
    mod = make_scat1(h0, h1, h2, sym, colour, float(np.ravel(b)[0]))
    return [N(mod(T(x)))]


def ScatLayerj2(ps, ts):
    sym, colour, rot = ps
    nf = 9 if rot else 6
    f = ts[:nf]; b = ts[nf]; x = ts[nf + 1]
    mod = make_scat2(f, sym, colour, float(np.ravel(b)[0]))
    return [N(mod(T(x)))]


def ScatJ1_bwd(ps, ts):
    sym, rot = ps
    if rot:
        h0, h1, h2, b, x, dz = ts
    else:
        h0, h1, b, x, dz = ts; h2 = None
    mod = make_scat1(h0, h1, h2, sym, 0, float(np.ravel(b)[0]))
    xt = T(x).requires_grad_(True)
    z = mod(xt)
    if tuple(z.shape) != tuple(dz.shape):
        raise rt.HarnessSkip('cotangent shape does not match the forward output')
    (g,) = torch.autograd.grad([z], xt, [T(dz)])
    return [N(g)]


IMPL = {'ScatLayer': ScatLayer, 'ScatLayerj2': ScatLayerj2, 'ScatJ1_bwd': ScatJ1_bwd}
