"""Per-property claim texts for MANIFEST.json (kept in step with DESIGN.md §status)."""

TIE = (' Tie to /repo on every run: exact differential correspondence of the Lean implementation model with the real code (integer filters and inputs, so float64 is exact; '
       'unit-impulse batches compare whole operators), plus translators that regenerate Lean sources from the repository (tables, axis functions, mode codes).')
BRK = (' A broken theorem, translator or correspondence triggers a failing-input search with the property oracle on the real code; known findings are listed in KNOWN_FINDINGS.json.')


def register(claim, not_yet):
    claim('C01',
          'Lean theorems for every signal length, filter length and commutative ring: the model of afb1d (pad-size arithmetic, index vectors, stride-2 correlation with the reversed buffer, and for '
          'periodization roll + zero-padded correlation + single fold) equals the PyWavelets formula in modes zero, symmetric, periodic, in reflect exactly when torch accepts the pad (and raises otherwise), '
          'and in periodization for every N (odd included) with L <= N + N%2 (partial: the proof forces that bound, whose complement is the known finding C01-periodization-short, witnessed by decide); '
          'one level of the 2-D transform on a channel equals pywt.dwt2 with bands (cH,cV,cD)=(LH,HL,HH); the J-level modules equal wavedec / wavedec2 by induction on J; the C-channel grouped '
          'convolution applies the one-channel operator to every channel, in 1-D and in 2-D: for every channel count C and every J, every channel of every band returned by DWT1DForward / DWTForward is wavedec / wavedec2 of that channel alone (DWT1DForward_multi, C01M.DWTForward_multi). All of it is also run through the exact correspondence (afb1d, AFB1D, AFB2D, DWT1DForward, DWTForward) and the '
          'pywt oracle on integer and all named wavelets.' + TIE + BRK,
          'Lean 4 refinement theorems (impl-model = pywt spec) + exact model/code correspondence + pywt oracle search', 'DESIGN.md §4 C01')
    claim('C02',
          'Proved for every filter length L >= 2, every signal and every commutative ring: if the bank satisfies the finite polyphase biorthogonality conditions PRBank, then synthesis(analysis(x)) '
          'returns every sample of x for ANY extension of the signal (pr_any_extension), hence in modes zero/symmetric/reflect/periodic (pr_padded) and for the models of afb1d/sfb1d themselves '
          '(impl_pr_padded: never raises, returns x), in periodization mode for every length, odd included (pr_periodization; impl_pr_periodization for the code path when L <= N + N%2); the un-pad length rule (N or N+1 samples); THE WHOLE 1-D PYRAMID: for every J, waverec(wavedec(x)) starts with x and is at most one sample longer (C02J.pyramid_pr: the one-sample-longer reconstruction of each level is exactly what the un-pad rule trims), the pyramid of a signal has the shapes the inverse accepts (compat_wavedec), hence DWT1DInverse(DWT1DForward(x)) returns x (plus at most one trailing sample, as PyWavelets) for the implementation models of the two modules, every J, every length, modes zero/symmetric/periodic (DWT1D_roundtrip); THE WHOLE 2-D PYRAMID: idwt2(dwt2(x)) carries x in its top-left corner with at most one extra row and column (C02K.level2d_pr), the un-pad rule removes exactly those (unpad_topleft), hence for every J, every image size and per-axis wavelets waverec2(wavedec2(x)) and DWTInverse(DWTForward(x)) of the implementation models return x in the top-left corner (pyramid2d_pr, DWT2D_roundtrip); both directions refine the PyWavelets formulas (C01/C10). PRBank is a hypothesis about the filter '
          'values: it is measured on all 106 wavelets by the check (float residual, dmey reported), not proved per wavelet. The float tolerance, reflect / periodization through the pyramid and the channel stacks are '
          'decided by inverse(forward(x)) on the real modules for random wavelets out of all 106, all modes, odd sizes, with PyWavelets own reconstruction error as yardstick (dmey clause).' + TIE + BRK,
          'Lean 4 theorems (general perfect reconstruction from PRBank for every extension, refinement both ways, un-pad rule) + exact correspondence + round-trip oracle', 'DESIGN.md §4 C02',
          'PRBank of the float wavelet tables is a measured hypothesis; rounding is measured: partial.')
    claim('C03',
          'Proved for the implementation model, for EVERY number of levels and EVERY image size with at least one row and column: DTCWTForward returns exactly the reference pyramid Spec.refForward - the '
          'same final low-pass and the same six complex bands (15,45,75,105,135,165 degrees; real and imaginary parts) at every level, hence the same shapes (C03P.dtcwt_forward_eq_ref), through the odd-size '
          'replication and the multiple-of-4 padding. Ingredients, each for all lengths: colfilter(X, prep_filt(h)) equals the reference convolution with h on the half-sample symmetric extension '
          '(colfilter1_eq_ref); coldfilt equals the reference two-tree formula for every filter length, every column length that is a positive multiple of 4 and both highpass flags, and raises otherwise '
          '(coldfilt1_eq_ref, coldfilt1_raises_iff); the library filters rows first and the reference columns first - every stage is a gather-linear column operator, and a gather-linear operator along the '
          'columns commutes with one along the rows (alongH_alongW_comm). Spec.refForward is dtcwt.numpy.Transform2d.forward written as index formulas (explicit highpass flags where the reference derives '
          'them from the sign of sum(ha*hb)); it is compared with the package on every run (1-D stages exactly on integers, whole pyramids on the named tables and on integer filters). The padding index helper '
          'utils.reflect / symm_pad_1d is TRANSLATED from the source on every run and proved equal to the model index map for every index and length (C03T). Layouts, masks, channels and rounding are decided '
          'by the exact Q(sqrt2) correspondence of all eight low-level filters, q2c, fwd_j1, fwd_j2plus and DTCWTForward, and by comparing the real module with dtcwt.Transform2d on the 20 named pairs and on integer filters.' + TIE + BRK,
          'Lean 4 refinement theorem (implementation model = reference pyramid, every J and size) + source-translated padding helper + exact Q(sqrt2) correspondence + numpy dtcwt oracle', 'DESIGN.md §4 C03',
          'the reference is represented by validated index formulas; rounding is measured: partial.')
    claim('C04',
          'Proved for the implementation model, for EVERY number of levels J >= 1 and EVERY image size with at least one row and column (odd sizes, sizes that are not multiples of 4 at any level, images '
          'far smaller than the filters): DTCWTInverse(DTCWTForward(x)) = x extended to even size with the original in the top-left corner (C04P.dtcwt_pr) - through the odd-size replication, the '
          'undecimated level 1, the multiple-of-4 padding of every level >= 2, q2c/c2q and the [1:-1] crops of the inverse (crop_extend: the crop undoes the padding; loop_pr: induction over the levels). '
          'Ingredients, each proved for all lengths: c2q(q2c(y)) = y from 2*s*s = 1; filtering with a symmetric odd-length filter commutes with the half-sample symmetric extension at every integer '
          'position (xt_colfilter), hence level-1 PR from the finite condition PR1 (colfilter_pr, level1_pr; the shipped legall table meets PR1 exactly over Q); with tree a the time reverse of tree b '
          '(nothing else) the symmetric extension of the output of coldfilt / colifilt is the line operator applied to the symmetric extension of the input at EVERY integer position (C04Q.xt_coldfilt, '
          'xt_colifilt: all even filter lengths, both highpass flags, both parities of m/2), hence every bank that is perfect-reconstruction on the integer line (PRq; enough to check at the four output '
          'phases, prq_of_residues; an asymmetric rational 4-tap bank meets it exactly) reconstructs every column whose length is a positive multiple of 4 (qshift_pr, level2_pr). The hypotheses PR1 / PRq '
          'are about the VALUES of the shipped float tables: measured on every run (PRq residual <= 3e-16, PR1 to 2^-40 in C18), tree a = reverse(tree b) exactly (also C18). Floating-point rounding and '
          'the layouts are decided by DTCWTInverse(DTCWTForward(x)) on the real code for all 20 named pairs constructed by name, J up to 5, sizes 2..44 incl. odd and non-multiples of 4, with the reference '
          'package own round-trip error as yardstick, plus the exact correspondence of analysis and synthesis ops and both modules.' + TIE + BRK,
          'Lean 4 theorems (whole-pyramid perfect reconstruction of the implementation model for every J and size, from line-PR hypotheses on the filters) + exact correspondence + round-trip oracle on all 20 pairs', 'DESIGN.md §4 C04',
          'PR1/PRq of the float tables are measured hypotheses; rounding is measured: partial.')
    claim('C05',
          'Proved for all lengths, filters, cotangents: strided correlation and transposed convolution are mutual adjoints; AFB1D.backward in mode zero (sfb1d + crop) satisfies '
          '<forward x, g> = <x, backward g>, and in periodization for every length N >= 1 (odd included: the gradient of the repeated last sample is folded back) and even L <= N + N%2 '
          '(afb_per_adjoint, from the circular transpose theorem). TWO DIMENSIONS, mode zero: one-dimensional pair adjointness lifts along the columns and along the rows of an image (C05D.pairH, pairW), and the code path - row pass then column pass forward; column synthesis of the two band pairs, row synthesis, one crop per axis at the very end backward (AFB2D_forward_val, AFB2D_backward_val) - satisfies <ll,gll> + <lh,glh> + <hl,ghl> + <hh,ghh> = <x, AFB2D.backward(g)> for every image size and filter lengths (AFB2D_zero_adjoint). TWO DIMENSIONS, periodization: the same identity for every image size, odd sizes included (the gradient of the repeated last row / column is folded back once per axis at the very end, which commutes with the row synthesis because the synthesis is additive in the band pair - C05P.idwt_per_add), and even filter lengths L <= size + size % 2 per axis (C05P.AFB2D_per_adjoint; the complement of the recorded short-level finding). SYNTHESIS SIDE, two dimensions, mode zero: SFB2D.backward (the analysis bank with the synthesis filters along rows, then columns of the cotangent) is the adjoint of SFB2D.forward for every band size and filter lengths that fit (C05S.SFB2D_zero_adjoint). EVERY CHANNEL COUNT, modes zero and periodization: on a stack of C images and C cotangent quadruples the identity holds channel by channel (C07M.AFB2D_zero_adjoint_channels, AFB2D_per_adjoint_channels), and so does the synthesis-side identity in mode zero (C07M.SFB2D_zero_adjoint_channels). The padded modes in 2-D are decided by the exact correspondence of the four autograd Functions backward passes (all requires_grad masks) and by the Jacobian '
          'oracle J^T g on the four modules; the non-adjoint backward passes of symmetric/reflect/periodic (pinned by baseline tests) and short periodization are known findings with '
          'decide-checked witnesses.' + TIE + BRK,
          'Lean 4 adjointness theorems (inner-product identities) + exact autograd correspondence + Jacobian oracle', 'DESIGN.md §4 C05')
    claim('C06',
          'Proved: q2c and c2q are mutual adjoints on every image; colfilter with a symmetric odd-length filter is self-adjoint on columns of every length (its matrix K(i,k) = sum_d c(d)[sym(i+d)=k] '
          'is symmetric: colfilter_self_adjoint, Kf_symm), also row- and column-wise on images; hence FWD_J1.backward is the adjoint of fwd_j1 and INV_J1.backward of inv_j1 for the implementation models on every even-sized '
          'image, every low-pass and band cotangent (fwdJ1_backward_adjoint, INV_J1_backward_adjoint). LEVELS >= 2: for every filter h of even length (ANY values, no orthogonality), both highpass flags, every column length '
          'that is a positive multiple of 4 and every cotangent, <coldfilt(x, h, reverse h), g> = <x, colifilt(g, reverse h, h)> (C06Q.coldfilt_colifilt_adjoint) - the exchange of trees a/b that '
          'FWD_J2PLUS.backward / INV_J2PLUS.backward perform IS the transpose; proved over any commutative ring via the tap forms of both stages (all 16 combinations of output phase, parity of m/2 and '
          'flag: lineD_taps, lineE_taps), the transposition of one tap on the periodic line (transpose_tap) and the reflection equivariance of the interpolating stage; lifted to images and to the '
          'implementation models: FWD_J2PLUS.backward is the adjoint of fwd_j2plus and INV_J2PLUS.backward of inv_j2plus on every image with sides positive multiples of 4 (fwdJ2_backward_adjoint, '
          'INV_J2PLUS_backward_adjoint), given only that tree a is the time reverse of tree b (exact for all shipped tables, C18). The composition over the pyramid, the layouts, masks and requires_grad subsets are decided by the exact correspondence of FWD_J1/FWD_J2PLUS/INV_J1/INV_J2PLUS.backward through '
          'torch.autograd (all layouts, skip flags, grad masks) and by the Jacobian oracle on both modules for the 20 named pairs and structured integer filters, incl. losses over subsets of the '
          'outputs and repeated pull-backs through one retained graph.' + TIE + BRK,
          'Lean 4 adjointness theorems (q2c/c2q, symmetric colfilter, q-shift coldfilt/colifilt with exchanged trees, level-1 and level>=2 backward passes of the implementation models) + exact autograd correspondence + Jacobian oracle', 'DESIGN.md §4 C06',
          'pyramid composition / layouts / grad subsets are correspondence- and oracle-decided: partial.')
    claim('C07',
          'Proved for all sizes: correlation (any stride/dilation), transposed convolution, every gather through an index table that depends on the length only (Python slices with any step, '
          'symm_pad_1d / periodic / reflect index vectors), zero padding, take/drop, concatenation, roll, the wrap-around fold, element-wise sums and the stack+view interleavings are linear list '
          'operators and linearity is closed under composition and under choices that depend on lengths only; hence EVERY one-dimensional operator of the library is linear for every filter, length '
          'and pair of scalars, and whether it raises depends on the lengths only: afb1d in every padding mode (afb1dOne_linear), the synthesis bank sfb1d in the pair (lo, hi) in every mode incl. '
          'the periodization fold + roll (C07D.sfb1dCh_linear), the stationary filter afb1d_atrous (afb1dAtrousOne_linear), the DTCWT filters colfilter (both padding modes), coldfilt and colifilt '
          '(both highpass flags, both parities of m/2: colfilter1_linear, coldfilt1_linear, colifilt1_linear); the grouped convolution with the code weight cat([h0,h1]*C), groups=C applies the same '
          'two one-channel operators to every channel for every C, and raises iff a channel does (afb1dT_per_channel, afb1dT_total), and the J-level 1-D transform acts channel by channel; IN TWO DIMENSIONS the autograd Functions AFB2D.forward and AFB2D.backward act channel by channel on a stack of any number C of images: output channel c is the one-channel row pass + column pass (resp. column synthesis, row synthesis, fold/crop) of input channel c and nothing else enters it (C07M.AFB2D_forward_channels, AFB2D_backward_channels, SFB2D_forward_channels, sfb1dT_total; SFB2D.backward is AFB2D.forward with the synthesis filters). '
          'The lifting of linearity to images / pyramids (row and column passes, q2c/c2q, level loops) is composition of these and is decided on the real code for all seven transforms: '
          'T(ax+by)=aT(x)+bT(y), T(0)=0, slice-alone = slice-of-batch, other slices irrelevant (exact on integers).' + TIE + BRK,
          'Lean 4 linearity theorems for every 1-D operator (calculus of linear list operators) + per-channel theorems + exact correspondence with N,C>1 + linearity/slice oracle', 'DESIGN.md §4 C07')
    claim('C10',
          'Proved for arbitrary band contents, all band lengths and filter lengths: sfb1d in modes zero/symmetric/reflect/periodic (two transposed stride-2 convolutions cropped by L-2) equals '
          'pywt.idwt; periodization synthesis (one fold + roll) equals pywt.idwt whenever L-2 <= 2n (the complement is the known finding); the J-level DWT1DInverse (un-pad rule, None levels) equals '
          'pywt.waverec, and the J-level 2-D DWTInverse (one level = pywt.idwt2 with (column wavelet, row wavelet); un-pad rule on both axes, None levels) equals pywt.waverec2, by induction on the '
          'pyramid. EVERY CHANNEL COUNT in 2-D: on stacks of C channels sharing their shapes, every channel of SFB2D.forward is idwt2 of that channel and every channel of the J-level DWTInverse is waverec2 of that channel alone, None levels and the un-pad rule (decided once from the common shape) included (C10M.SFB2D_forward_multi, step_eqM, DWTInverse_multi_eq_waverec2). The batch axis is decided by the exact correspondence (sfb1d, SFB1D, SFB2D, sfb2d, DWT1DInverse, '
          'DWTInverse with None) and by the pywt.waverec/waverec2 oracle on arbitrary pyramids; short periodization is a known finding.' + TIE + BRK,
          'Lean 4 refinement theorem (synthesis = pywt idwt) + exact correspondence + pywt oracle on arbitrary pyramids', 'DESIGN.md §4 C10')
    claim('C11',
          'Proved for the implementation model, for EVERY number of levels and every pyramid of forward-compatible shape with all levels present (whether or not it is the transform of an image): '
          'DTCWTInverse returns exactly the reference inverse Spec.refInverse (C11P.dtcwt_inverse_eq_ref) - level synthesis equal to the reference level (invJ1_eq_ref, invJ2_eq_ref: columns then rows, '
          'sums in the other order), the [1:-1] crop the library places before a level equal to the crop the reference places after the previous one (crop_rect), induction over the levels (go_eq_ref); '
          'a compatible shape is one where each synthesis result is twice the next finer band or larger by the padding (PyrOK, satisfiable: example). Ingredients for all lengths: colifilt equals the reference poly-phase formula '
          '(dtcwt.numpy.lowlevel.colifilt as an index formula) in all parity / tree-order cases, interleaves its four branches as rows 4t..4t+3 and raises exactly for odd/empty columns; with the band-pass absent '
          'inv_j2plus is the low-pass-only synthesis; DTCWTInverse with nothing present raises. Spec.refInverse is compared with dtcwt.Transform2d.inverse on arbitrary pyramids on every run (named tables and integer filters). '
          'Absent inputs (None / empty tensors == zeros), layouts and rounding are decided by the exact Q(sqrt2) correspondence (colifilt/rowifilt, c2q, inv_j1, inv_j2plus, DTCWTInverse with absent inputs in three '
          'spellings) and by the dtcwt oracle on arbitrary pyramids incl. present-but-zero levels; absent == zeros is checked for subsets of levels (one known finding: absent level below an extended level).' + TIE + BRK,
          'Lean 4 refinement theorem (implementation model of the inverse = reference inverse, every J, arbitrary pyramids) + exact Q(sqrt2) correspondence + numpy dtcwt inverse oracle + absent==zeros oracle', 'DESIGN.md §4 C11',
          'absent levels and rounding are correspondence/oracle-decided; the reference is represented by validated index formulas: partial.')
    claim('C12',
          'get_dimensions5/6 are TRANSLATED from the source on every run and proved correct for ALL integer (o_dim, ri_dim) with distinct residues (negative aliases included): orientation and '
          'real/imaginary axes sit where requested and h_dim/w_dim are the image rows/columns; every layout is a permutation of the canonical axes; by induction over the level loop a skipped level '
          'yields the empty placeholder and leaves the low-pass chain and all other levels unchanged, include_scale only adds outputs, and J levels are a prefix of J+1 levels. Also checked by the exact correspondence of both modules over all layouts and masks and by the oracle (30 layouts + aliases, all masks J<=3, prefixes).' + TIE + BRK,
          'Lean 4 theorems over source-translated axis functions (interval_cases + decide) + exact correspondence + layout/mask/prefix oracle', 'DESIGN.md §4 C12')
    claim('C13',
          'Proved for every even filter length, dilation and signal length: afb1d_atrous in periodic mode equals the pywt swt formula (circular correlation with the dilated filter), and that '
          'formula is circular-shift equivariant for every shift. THE MODULE: the implementation model of SWTForward (mode alias, level loop with dilation 2^j, (A,H,V,D) packing) equals pywt.swt2 for every J on every non-empty image (SWTForward_eq_swt2), and it is circular-shift equivariant in two dimensions: on the image rolled by any (s1, s2) every band of every level is the band rolled by (s1, s2), for every image size, every J and all even filter lengths (C13S.SWTForward_shift; the 1-D statement lifted along rows and columns through tr(roll x) = roll(tr x), then by induction over the levels). EVERY CHANNEL COUNT: on a stack of C images level j, channel c of the output is level j of pywt.swt2 of channel c alone, for every C and J (C13M.SWTForward_multi; the (C,4,H,W) packing is channel 4c+k = band k of channel c, afb2dAtrous_multi). The batch axis is decided by the exact correspondence and by '
          'pywt.swt2 + shift checks on the real code.' + TIE + BRK,
          'Lean 4 refinement + shift-equivariance theorems + exact correspondence + pywt.swt2 oracle', 'DESIGN.md §4 C13')
    claim('C14',
          'Proved: one level of DWTForward built from (h0_col,h1_col,h0_row,h1_row) equals pywt.dwt2 with (column wavelet, row wavelet) — column filters act vertically, row filters '
          'horizontally — for every image size and filter length in the proved modes; 2-tuples equal the repeating 4-tuple; DWTInverse hands the column pair to the vertical synthesis. '
          'Checked on the real code against pywt per-axis wavelets, the functional afb2d, and ordered pairs of distinct named wavelets.' + TIE + BRK,
          'Lean 4 per-axis theorem through the positional AFB2D/SFB2D call + exact correspondence + per-axis pywt oracle', 'DESIGN.md §4 C14')
    claim('C17',
          'Proved for every even filter length L >= 2, every even signal length N >= 2 (N < L included) and every commutative ring, on PyWavelets periodization formulas: the synthesis with the reversed '
          'analysis filters is the transpose of the analysis for ALL filter values (per_synthesis_is_transpose); for every orthonormal bank (PRBank with g = reverse(h)) the analysis is an isometry, '
          'energy(lo) + energy(hi) = energy(x) (isometry), and synthesis(analysis(x)) = x (C02.pr_periodization_even). In the C17 regime (even N >= L) the models of afb1d / sfb1d — the code paths, '
          'tied by the correspondence — equal those formulas, so the same three statements hold for them (impl_isometry, impl_transpose, C02.impl_pr_periodization). THROUGH THE WHOLE PYRAMID: whenever every level input is even and at least as long as the filter (LevelsOK), the J-level module DWT1DForward is PyWavelets wavedec (C17J.DWT1DForward_per_eq_wavedec) and energy(yl) + sum_j energy(yh_j) = energy(x) for every J (wavedec_isometry, DWT1D_isometry). TWO DIMENSIONS: one level of the implementation model of AFB2D.forward with an orthonormal column bank and an orthonormal row bank (possibly different) preserves energy, |ll|^2 + |lh|^2 + |hl|^2 + |hh|^2 = |x|^2, for every image with even sides not shorter than the filters (C17K.AFB2D_isometry; the 1-D isometry lifted along rows and columns, iso_W, iso_H), and so does the whole J-level model of DWTForward whenever every level has even sides not shorter than the filters (C17K.DWT2D_isometry). Orthonormality of the shipped '
          'wavelet values is a hypothesis: measured on all haar/db/sym/coif wavelets by the operator oracle (A^T A = I, energy, backprop == inverse) and exactly on integers for '
          'synthesis(reversed filters) == analysis^T.' + TIE + BRK,
          'Lean 4 theorems (circular refinement, transpose, general isometry, PR) + exact correspondence + operator oracle', 'DESIGN.md §4 C17',
          'orthonormality of the float wavelet tables is measured, not proved: partial.')
    claim('C18',
          'Every array of every shipped npz table is regenerated into Lean as exact dyadic rationals on every run and every identity is decided by the kernel (decide +kernel): level-1 filters '
          'symmetric and odd, h0o*g0o+h1o*g1o = delta to 2^-40, q-shift filters orthonormal to 2^-40 (qshift_32: 2^-28), tree b = reverse(tree a) and g = reverse(h) exactly, tree-order signs, '
          'band-pass variants, every file classified; the loaders are compared with the file contents twice and again after constructing every table-consuming module; bit-exact comparison '
          'with the reference package. farras / near_sym_a2 (accepted by the q-shift loader, not q-shift tables) are a known finding with a kernel-checked witness.' + BRK,
          'Lean 4 decide +kernel over source-translated tables (exhaustive) + loader/file correspondence + reference comparison', 'DESIGN.md §4 C18')
    claim('C19',
          'Proved: a 2-D correlation with an outer-product kernel factors into nested 1-D correlations for every kernel/image size and stride; the non-separable kernel is the outer product of '
          'the reversed filters; the inner sum is the separable row pass; MODE ZERO, ANALYSIS: the four sub-bands of the model of afb2d_nonsep (two-axis zero padding with the odd extra row / column, one strided 2-D correlation per band) equal the row pass followed by the column pass of the separable bank with the reversed filters, and hence the outputs of the model of AFB2D.forward, for every image size and all filter lengths >= 2 (C19N.afb2d_nonsep_zero_eq_sep, afb2d_nonsep_zero_eq_AFB2D). MODE ZERO, SYNTHESIS: the model of sfb2d_nonsep (four 2-D transposed convolutions with outer-product kernels, one crop) equals the separable column-then-row synthesis, i.e. the output of the model of SFB2D.forward, for every band size and filter lengths that fit (C19S.sfb2d_nonsep_zero_eq_sep, sfb2d_nonsep_zero_eq_SFB2D). The other modes (padding/fold commutation) are decided by the exact correspondence of afb2d_nonsep/sfb2d_nonsep/'
          'afb2d/sfb2d (images smaller than the filter, odd filters, overlapping in-place folds) and by nonsep == separable on the real code.' + TIE + BRK,
          'Lean 4 factorisation theorems + exact correspondence + nonsep-vs-separable oracle', 'DESIGN.md §4 C19')
    claim('C08',
          'Proved: the FIRST-ORDER layer of the implementation model equals the reference level-1 DTCWT (Spec.refLevel1, C03P) composed with the scattering formulas - odd-size edge extension, 2x2 '
          'average pooling of the low-pass, smoothed magnitudes sq(re^2+im^2+b^2)-b of the six bands (joint over three colour channels with colour combination), band-major 7C packing - for every '
          'stack of images with at least one row and column and for ANY square-root operation sq (C08P.ScatLayer_eq_spec; non-band-pass families); every magnitude channel sqrt(re^2+im^2+b^2)-b '
          '(and the joint colour magnitude) is non-negative for b >= 0 over the reals; the first-order Function returns 7C band-major channels and raises exactly for odd sizes (which the module '
          'removes by edge extension); the second-order Function raises unless both sizes are multiples of 8. THE SECOND-ORDER LAYER (no colour combination, non-band-pass families) of the implementation model - extension of the image to multiples of 8, level-1 DTCWT of every channel, smoothed magnitudes, level-2 (q-shift) DTCWT of the level-1 low-passes, a second level-1 DTCWT of the 6C first-order magnitude images, 2x2 pooling, the 49C packing [S0 | pooled S1 | S1 at scale 2 | S2] - equals the composition of the reference transforms Spec.refLevel1 / Spec.refLevel2 with those formulas (Spec.scat2) for every channel count, every image with at least 4 rows and columns and ANY square-root operation (C08Q.scatJ2_eq_spec, ScatLayerj2_eq_spec). The band-pass families, the colour variant of the second-order layer and the floating-point evaluation are a Float tier: '
          'the executable Lean model of both layers (incl. _rot and colour variants) is compared with the real layers to 1e-9, and the real layers are compared with numpy dtcwt + formulas + pooling + '
          'packing for five filter families. Known finding: ScatLayerj2 on H == 2 or W == 2.' + BRK,
          'Lean 4 theorems (first- and second-order layers = reference DTCWT + formulas for any sqrt; non-negativity over R; channel bookkeeping; raise conditions) + Float-tier model/code correspondence + numpy dtcwt oracle', 'DESIGN.md §4 C08',
          'the band-pass variants, the colour variant of the second-order layer and the floating-point square root are Float-tier correspondence/oracle-decided: partial.')
    claim('C09',
          'Proved over the reals: d/dt sqrt(t^2+c) = t/sqrt(t^2+c) for c > 0 (so d mag/d re = re/r, the factor the layers save), also at t = 0; with b > 0, r >= b > 0 and |re/r|,|im/r| <= 1, '
          'hence the saved factors and the gradient are finite for every input including the zero image. The multivariate chain rule gluing these with the linear DTCWT/pooling adjoints is '
          'assumed (standard mathematics), hence partial. The backward pass of the first-order layer is tied to the code by a Float-tier correspondence; both layers and SmoothMagFn (all '
          'requires_grad subsets) are checked against central differences and for finiteness at zero on the real code.' + BRK,
          'Lean 4 analytic theorems over R (derivative of the smoothed modulus, boundedness) + Float-tier backward correspondence + finite-difference oracle', 'DESIGN.md §4 C09',
          'chain rule assumed; second-order backward is oracle-decided: partial.')
    claim('C15',
          'Proved (core Lean, no axioms beyond the standard three): the only process-wide state, COEFF_CACHE, satisfies "every cached entry equals the file table" under every history of calls and '
          'under every interleaving of the atomic steps lookup / read / store of any number of threads, and under that invariant every call returns specOut(files, name, keys), a function of its '
          'arguments only. The state machine is tied to coeffs._load_from_file by a trace correspondence. Purity of the transforms themselves is definitional in the functional model and is '
          'checked on the real code by the trace oracle: byte-identical arguments, outputs bit-identical to isolated reference calls across random histories, dtypes, autograd on/off and 1..8 '
          'threads. Thread scheduling inside PyTorch / the GIL cannot be exhibited by the model (partial).' + BRK,
          'Lean 4 invariant + refinement theorems over histories and interleavings of the cache state machine + trace correspondence + history/thread oracle', 'DESIGN.md §4 C15',
          'runtime scheduling is sampled, not enumerated: partial.')
    claim('C16',
          'Proved: on all 12 transform paths of the dtype abstract interpretation the result dtype equals the input dtype when the buffers match it, whatever the default dtype, and the call raises '
          'exactly when they differ (tied to the code by an exhaustive 96-case grid correspondence); over the reals |sum a_j x_j| <= (sum |a_j|) max|x| and gains compose, which is the a-priori '
          'bound the float tier uses; at the level of the implementation model: every output sample of afb1d in the extension modes is bounded by ||w||_1 max|x| (C16G.afb1dOne_gain) and every coefficient of J levels of wavedec (= DWT1DForward in zero/symmetric/periodic, C01) by max(||h0||_1, ||h1||_1, 1)^J max|x| (C16G.wavedec_gain). Measured on the real code: float32 vs float64 within 64*eps32*(gain*max|x|+bias) with the gain extracted from unit impulses, .float()/.double() conversions, '
          'non-contiguous views vs contiguous copies. IEEE rounding and strides are runtime (partial).' + BRK,
          'Lean 4 theorems (dtype propagation by cases, gain bound over R) + exhaustive dtype-grid correspondence + float32/stride oracle', 'DESIGN.md §4 C16',
          'rounding and memory layout are measured, not proved: partial.')
