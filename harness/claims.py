"""Per-property claim texts for MANIFEST.json."""


def register(claim, not_yet):
    claim('C01',
          'Lean theorems (all signal lengths, all filter lengths, any commutative ring): the model of afb1d (pad-size arithmetic, index vectors, stride-2 correlation with the reversed buffer) equals the '
          'PyWavelets formula Σ_j h[j]·x̃(2k+1−j) in modes zero, symmetric, periodic. The model is tied to the code by an exact integer correspondence of afb1d / AFB1D / AFB2D / DWT1DForward / DWTForward '
          '(whole operators via unit impulses), the Lean spec is checked exactly against pywt, and the real modules are compared with pywt.wavedec/wavedec2 on integer and named wavelets. '
          'Reflect/periodization refinement and the multi-level induction are covered by correspondence + oracle only at this stage (see DESIGN.md status table).',
          'Lean 4 refinement theorems (impl-model = pywt spec) + exact model/code correspondence + pywt oracle search', 'DESIGN.md §4 C01')
    for p in ['C02', 'C03', 'C04', 'C05', 'C06', 'C07', 'C08', 'C09', 'C10', 'C11', 'C12', 'C13', 'C14', 'C15', 'C16', 'C17', 'C18', 'C19']:
        not_yet[p] = 'check under construction in this round (framework built property by property); will be claimed when its Lean module and correspondence are in place'
