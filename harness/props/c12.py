"""C12 — DTCWT options only re-arrange or select outputs; pyramids are prefix-consistent."""
import numpy as np
import torch
from .. import rt, gen, proto
from .. import oracle_dtcwt as OD
from ..dtcwt_common import *
from ..impl_dtcwt import IMPL

PROP = 'C12'
MODULE = 'WaveletsVerif.Properties.C12'
THEOREMS = ['WV.C12.dims5_correct', 'WV.C12.dims6_correct', 'WV.C12.layoutOf_perm', 'WV.C12.fwdJ2_skip_ll', 'WV.C12.loop_skip', 'WV.C12.loop_include', 'WV.C12.loop_prefix', 'WV.C10Z.dtcwt_glue_gen', 'WV.C10Z.forward_keeps_no_state_gen']
OPS = ['DTCWTForward', 'DTCWTInverse']


def fwd(filt, x, J, o=2, ri=-1, skm=0, inm=0):
    return rt.run_impl(rt.Case('Q', 'DTCWTForward', [o, ri, 1, J, skm, inm], list(filt) + [x]), IMPL)


def oracle_layout(ck, filt, gfilt, x, J, o, ri):
    desc = 'layout (o_dim=%d, ri_dim=%d) J=%d shape=%s' % (o, ri, J, tuple(x.shape))
    replay = {'oracle': 'layout', 'filt': [arr_json(f) for f in filt], 'gfilt': [arr_json(f) for f in gfilt], 'x': arr_json(x), 'J': J, 'o': o, 'ri': ri}
    base = fwd(filt, x, J)
    got = fwd(filt, x, J, o, ri)
    if isinstance(base, tuple) or isinstance(got, tuple):
        ck.fail(desc + ': forward raises (%s)' % ((got if isinstance(got, tuple) else base)[2][:80],), replay); return 'raise'
    want = [base[0]] + [canon_to_layout(h, o, ri) for h in base[1:]]
    ok, why = same(got, want)
    if not ok:
        ck.fail(desc + ': forward output is not the default output with the two axes moved: ' + why, replay); return 'diff'
    # inverse with the same pair accepts that layout and reconstructs (same result as the default layout)
    rng = ck.rng
    low = gen.int_tensor(rng, base[0].shape, 3); highs = [gen.int_tensor(rng, h.shape, 3) for h in base[1:]]
    ref = rt.run_impl(rt.Case('Q', 'DTCWTInverse', [2, -1, 1, 0], list(gfilt) + [low] + highs), IMPL)
    inv = rt.run_impl(rt.Case('Q', 'DTCWTInverse', [o, ri, 1, 0], list(gfilt) + [low] + [canon_to_layout(h, o, ri).copy() for h in highs]), IMPL)
    if isinstance(ref, tuple):
        return None
    if isinstance(inv, tuple):
        ck.fail(desc + ': inverse raises on its own layout: %s' % inv[2][:100], replay); return 'raise'
    ok, why = same(inv, ref)
    if not ok:
        ck.fail(desc + ': inverse in this layout differs from the default-layout inverse: ' + why, replay); return 'diff'
    ck.oracle_ok(('layout', o, ri, J, tuple(x.shape)), group='layout', sample={'what': desc, 'high_shape': list(got[1].shape)})
    return None


def oracle_masks(ck, filt, x, J, skm, inm):
    desc = 'skip_hps=%s include_scale=%s J=%d shape=%s' % (bin(skm), bin(inm), J, tuple(x.shape))
    replay = {'oracle': 'masks', 'filt': [arr_json(f) for f in filt], 'x': arr_json(x), 'J': J, 'skm': skm, 'inm': inm}
    base = fwd(filt, x, J)
    got = fwd(filt, x, J, 2, -1, skm, inm)
    if isinstance(base, tuple) or isinstance(got, tuple):
        ck.fail(desc + ': forward raises', replay); return 'raise'
    highs = got[-J:]
    for j in range(J):
        if (skm >> j) & 1:
            if highs[j] is not None:
                ck.fail(desc + ': skipped level %d is not an empty placeholder' % (j + 1), replay); return 'diff'
        elif highs[j] is None or not same([highs[j]], [base[1 + j]])[0]:
            ck.fail(desc + ': level %d changed by the masks' % (j + 1), replay); return 'diff'
    if inm:
        scales = got[:J]
        for j in range(J):
            if (inm >> j) & 1:
                shorter = fwd(filt, x, j + 1)
                if scales[j] is None or not same([scales[j]], [shorter[0]])[0]:
                    ck.fail(desc + ': scale %d is not the low-pass of the %d-level transform' % (j + 1, j + 1), replay); return 'diff'
            elif scales[j] is not None:
                ck.fail(desc + ': scale %d returned although not requested' % (j + 1), replay); return 'diff'
    else:
        if not same([got[0]], [base[0]])[0]:
            ck.fail(desc + ': low-pass changed by skip_hps', replay); return 'diff'
    ck.oracle_ok(('masks', skm, inm, J, tuple(x.shape)), group='masks', sample={'what': desc})
    return None


def oracle_prefix(ck, filt, x, J):
    desc = 'prefix consistency J=%d shape=%s' % (J, tuple(x.shape))
    replay = {'oracle': 'prefix', 'filt': [arr_json(f) for f in filt], 'x': arr_json(x), 'J': J}
    full = fwd(filt, x, J)
    if isinstance(full, tuple):
        ck.fail(desc + ': forward raises', replay); return 'raise'
    for j in range(1, J):
        part = fwd(filt, x, j)
        if isinstance(part, tuple) or not same(part[1:], full[1:1 + j])[0]:
            ck.fail(desc + ': the first %d levels differ from the %d-level transform' % (j, j), replay); return 'diff'
    ck.oracle_ok(('prefix', J, tuple(x.shape)), group='prefix', sample={'what': desc})
    return None


def oracle_masks_special(ck, b, s, J, shape, val, skm, inm, dt=None):
    """the option identities on an image with ONE non-finite pixel: a skipped level leaves the low-pass and the other levels exactly as
    they are (same values, same non-finite footprint), a requested scale is the low-pass of the shorter transform"""
    import torch
    from pytorch_wavelets import DTCWTForward
    x = gen.float_tensor(ck.nprng, (1, 1) + tuple(shape)); pos = (shape[0] // 2, shape[1] // 2 + 1)
    dt = dt or torch.float64
    if val is not None:
        x[(0, 0) + pos] = val
    else:
        x = x * 4.0 + 100.0          # a large mean: what a 16-bit format rounds away
    xt = torch.tensor(x, dtype=torch.float64).to(dt)
    desc = 'DTCWTForward(%s/%s, J=%d).to(%s) skip_hps=%s include_scale=%s on a %s image%s' % (b, s, J, dt, bin(skm), bin(inm), tuple(shape), (' with %r at %s' % (val, pos)) if val is not None else '')
    replay = {'oracle': 'masks-special', 'b': b, 's': s, 'J': J, 'shape': list(shape), 'val': repr(val), 'skm': skm, 'inm': inm, 'dtype': str(dt), 'note': 'image drawn from the check PRNG'}
    sk = [bool((skm >> j) & 1) for j in range(J)]; inc = [bool((inm >> j) & 1) for j in range(J)]

    def eq(a, c):
        a = a.double().numpy(); c = c.double().numpy()
        if a.shape != c.shape:
            return False
        fin = np.isfinite(a) & np.isfinite(c)
        if not np.array_equal(np.isfinite(a), np.isfinite(c)):
            return False
        sc = max(1.0, float(np.max(np.abs(a[fin]))) if fin.any() else 1.0)
        return bool((np.abs(a[fin] - c[fin]) <= 1e-11 * sc).all())
    if dt != torch.float64:
        try:
            with torch.no_grad():
                DTCWTForward(biort=b, qshift=s, J=1).to(dt)(xt)
        except Exception:
            return None          # the format is refused: no verdict
    with torch.no_grad():
        base_l, base_h = DTCWTForward(biort=b, qshift=s, J=J).to(dt)(xt)
        got_l, got_h = DTCWTForward(biort=b, qshift=s, J=J, skip_hps=sk, include_scale=inc).to(dt)(xt)
        for j in range(J):
            if not sk[j] and not eq(got_h[j], base_h[j]):
                ck.fail(desc + ': band-pass level %d differs from the transform without masks' % (j + 1), replay); return 'diff'
        if any(inc):
            for j in range(J):
                if inc[j]:
                    sl, _ = DTCWTForward(biort=b, qshift=s, J=j + 1).to(dt)(xt)
                    if not eq(got_l[j], sl):
                        ck.fail(desc + ': scale %d is not the low-pass of the %d-level transform (values or non-finite footprint)' % (j + 1, j + 1), replay); return 'diff'
        elif not eq(got_l, base_l):
            ck.fail(desc + ': the low-pass differs from the transform without masks (values or non-finite footprint)', replay); return 'diff'
    ck.oracle_ok(('masks-special', b, s, J, skm, inm, repr(val)), group='masks-special', sample={'what': desc})
    return None


def oracle(ck, extended):
    rng = ck.rng
    q = ck.tier == 'quick'
    for (b, s) in [('near_sym_a', 'qshift_a'), ('legall', 'qshift_06'), ('near_sym_b', 'qshift_b'), ('antonini', 'qshift_c')][:2 if q else 4]:
        for val in (float('nan'), float('inf')):
            J = 2
            for (skm, inm) in ((1, 0), (1, 3), (2, 1), (3, 2)):
                rt.guard(ck, oracle_masks_special, ck, b, s, J, (rng.randint(12, 20) * 2, rng.randint(12, 20) * 2), val, skm, inm)
    for dt_ in (torch.float16, torch.bfloat16, torch.float32):
        for (skm, inm) in ((0, 1), (1, 3), (2, 5)):
            rt.guard(ck, oracle_masks_special, ck, 'near_sym_a', 'qshift_a', 3, (rng.randint(12, 20) * 2, rng.randint(12, 20) * 2), None, skm, inm, dt_)
    lay = list(LAYOUTS)
    rng.shuffle(lay)
    for (o, ri) in (lay if not q else lay[:30]):
        filt = dt_filters(rng); gfilt = dt_filters(rng)
        J = rng.randint(1, 3)
        x = gen.int_tensor(rng, (rng.randint(1, 2), rng.randint(1, 2), rng.randint(2, 18), rng.randint(2, 18)), 3)
        oo, rr = o, ri
        r = rng.random()
        if r < 0.25: oo -= 6
        elif r < 0.5: rr -= 6
        elif r < 0.6: oo -= 6; rr -= 6
        rt.guard(ck, oracle_layout, ck, filt, gfilt, x, J, oo, rr)
    # batches and channel counts above every blocking threshold (gen.scale_shapes_2d: more than 64 slices with N >= 2, more than
    # 64 channels, tall / wide images) across ALL thirty layouts in turn, and with masks
    big = [shp for shp in gen.scale_shapes_2d(ck.tier) if shp[0] * shp[1] > 1] + [(1, 1, 520, 6), (1, 1, 6, 516)]
    for k, (o, ri) in enumerate(LAYOUTS):
        shp = big[k % len(big)]
        filt = dt_filters(rng); gfilt = dt_filters(rng)
        rt.guard(ck, oracle_layout, ck, filt, gfilt, gen.int_tensor(rng, shp, 3), 1 + k % 3, o, ri)
    for k, shp in enumerate(big[:4] if q else big):
        filt = dt_filters(rng); J = 2 + k % 2
        rt.guard(ck, oracle_masks, ck, filt, gen.int_tensor(rng, shp, 3), J, (k * 5 + 1) % (2 ** J), (k * 3 + 2) % (2 ** J))
        rt.guard(ck, oracle_prefix, ck, filt, gen.int_tensor(rng, shp, 3), J)
    for J in (1, 2, 3) if q else (1, 2, 3, 4):
        filt = dt_filters(rng)
        x = gen.int_tensor(rng, (1, 2, rng.randint(2, 20), rng.randint(2, 20)), 3)
        masks = [(a, b) for a in range(2 ** J) for b in range(2 ** J)]
        for (skm, inm) in (masks if (not q or J < 3) else rng.sample(masks, 16)):
            rt.guard(ck, oracle_masks, ck, filt, x, J, skm, inm)
        rt.guard(ck, oracle_prefix, ck, filt, x, J)


def run(ck):
    std_run(ck, PROP, MODULE, THEOREMS, OPS, 200, 2000, oracle,
            rule='translated get_dimensions5/6 decided for ALL integer (o_dim, ri_dim) by the Lean kernel; correspondence of both modules over all layouts (negative aliases included), masks, absent '
                 'levels; oracle on the real code: all 30 layouts (+ aliases) forward == default output with axes moved and inverse == default inverse, all skip/include masks for J <= 3 (J=3 sampled in '
                 'quick), prefix consistency; exact on integer data')


def replay(ck, path):
    rt.setup_torch()
    d = load_replay(path)
    f = d.get('failure', {}).get('replay')
    if not f:
        print('replay file names no failing input: %s' % d.get('broken_obligations'))
        return 1
    filt = [arr_from(a) for a in f['filt']]
    if f['oracle'] == 'masks-special':
        oracle_masks_special(ck, f['b'], f['s'], f['J'], tuple(f['shape']), None if f['val'] == 'None' else float(f['val']), f['skm'], f['inm'],
                             {'torch.float16': torch.float16, 'torch.bfloat16': torch.bfloat16, 'torch.float32': torch.float32}.get(f.get('dtype'), None))
    elif f['oracle'] == 'layout':
        oracle_layout(ck, filt, [arr_from(a) for a in f['gfilt']], arr_from(f['x']), f['J'], f['o'], f['ri'])
    elif f['oracle'] == 'masks':
        oracle_masks(ck, filt, arr_from(f['x']), f['J'], f['skm'], f['inm'])
    else:
        oracle_prefix(ck, filt, arr_from(f['x']), f['J'])
    for fl in ck.failures:
        print('REPLAY-FAILS: ' + fl['desc'])
    if not ck.failures:
        print('REPLAY-PASSES')
    return 1 if ck.failures else 0
