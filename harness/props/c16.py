"""C16 — dtype is preserved and float32 results are float32-accurate; strided inputs."""
import numpy as np
import torch
from .. import rt, gen, proto
from ..dwt_common import TRUSTED, same, load_replay, arr_json, arr_from
from ..impl_dwt import T, N as NP

PROP = 'C16'
MODULE = 'WaveletsVerif.Properties.C16'
THEOREMS = ['WV.C16.dtype_preserved', 'WV.C16.dtype_mismatch_raises', 'WV.C16.default_dtype_irrelevant', 'WV.C16.abs_dot_le', 'WV.C16.gain_compose',
            'WV.C16G.corr_gain', 'WV.C16G.afb1dOne_gain', 'WV.C16G.dwt_gain', 'WV.C16G.wavedec_gain',
            'WV.C16R.flDot_err', 'WV.C16R.flCorr_err', 'WV.C16R.afb1dOneFl_err', 'WV.C16R.afb1dOne_close', 'WV.C16R.flLevel_approx',
            'WV.C16R.wavedec_fl_err_gen', 'WV.C16R.wavedec_fl_err', 'WV.C16S.one_level', 'WV.C16S.pass_rows', 'WV.C16S.pass_cols', 'WV.C16S.dwt2_fl_err', 'WV.C16S.wavedec2_fl_err_gen', 'WV.C16S.wavedec2_fl_err']
DT = {0: torch.float32, 1: torch.float64}
EPS32 = float(np.finfo(np.float32).eps)


def build(path, buf_dt, capture=None, magbias=1e-2):
    """module (or callable) for a dtype path, built with buffers of dtype buf_dt, plus an input maker;
    with `capture` (a list) the modules under test are appended to it and left in the dtype they were built in"""
    from pytorch_wavelets import DWTForward, DWTInverse, DWT1DForward, DWT1DInverse, DTCWTForward, DTCWTInverse, ScatLayer, ScatLayerj2
    from pytorch_wavelets.dwt.transform2d import SWTForward
    conv = (lambda m: m.double()) if buf_dt == torch.float64 else (lambda m: m.float())
    if capture is not None:
        conv = lambda m: (capture.append(m), m)[1]

    def helper(ctor):
        # analysis helper that only produces a pyramid to feed the inverse under test: always exact float64 taps
        old = torch.get_default_dtype()
        try:
            torch.set_default_dtype(torch.float64)
            return ctor()
        finally:
            torch.set_default_dtype(old)
    if path == 0:
        m = conv(DWTForward(J=2, wave='db2', mode='symmetric')); return (lambda x: m(x)), (1, 2, 12, 10), None
    if path in (1, 2):
        f = helper(lambda: DWTForward(J=2, wave='db2', mode='symmetric')); i = conv(DWTInverse(wave='db2', mode='symmetric'))

        def call(x, none=(path == 2), f=f, i=i):
            yl, yh = f(x.double())
            yh = [h.to(x.dtype) for h in yh]
            if none:
                yh[0] = None
            return i((yl.to(x.dtype), yh))
        return call, (1, 2, 12, 10), None
    if path == 3:
        m = conv(DWT1DForward(J=2, wave='db3', mode='periodization')); return (lambda x: m(x)), (1, 2, 17), None
    if path == 4:
        f = helper(lambda: DWT1DForward(J=2, wave='db3', mode='zero')); i = conv(DWT1DInverse(wave='db3', mode='zero'))

        def call(x, f=f, i=i):
            yl, yh = f(x.double()); yh = [h.to(x.dtype) for h in yh]; yh[-1] = None
            return i((yl.to(x.dtype), yh))
        return call, (1, 2, 17), None
    if path == 5:
        m = conv(SWTForward(J=2, wave='db2')); return (lambda x: m(x)), (1, 2, 8, 12), None
    if path in (6, 7):
        m = conv(DTCWTForward(J=3, skip_hps=[False, True, False] if path == 7 else False)); return (lambda x: m(x)), (1, 2, 14, 18), None
    if path in (8, 9):
        f = helper(lambda: DTCWTForward(J=2)); i = conv(DTCWTInverse())

        def call(x, absent=(path == 9), f=f, i=i):
            yl, yh = f(x.double()); yh = [h.to(x.dtype) for h in yh]
            if absent:
                yh[1] = None
            return i((yl.to(x.dtype), yh))
        return call, (1, 2, 16, 16), None
    if path == 10:
        m = conv(ScatLayer(magbias=magbias)); return (lambda x: m(x)), (1, 2, 12, 14), magbias
    m = conv(ScatLayerj2(magbias=magbias)); return (lambda x: m(x)), (1, 2, 16, 16), magbias


def flat(o):
    if isinstance(o, torch.Tensor):
        return [o] if o.dim() > 0 else []
    if o is None:
        return []
    r = []
    for t in o:
        r += flat(t)
    return r


def dtype_cases(ck):
    """exhaustive grid: path x input dtype x buffer dtype x default dtype at call time"""
    for p in range(12):
        for x in (0, 1):
            for b in (0, 1):
                for d in (0, 1):
                    def impl(ps, ts, p=p, x=x, b=b, d=d):
                        old = torch.get_default_dtype()
                        try:
                            torch.set_default_dtype(torch.float32)
                            call, shape, _ = build(p, DT[b])
                            torch.set_default_dtype(DT[d])
                            inp = torch.tensor(np.random.default_rng(p).integers(-5, 6, shape).astype(np.float64)).to(DT[x])
                            outs = flat(call(inp))
                        finally:
                            torch.set_default_dtype(old)
                        dts = set(o.dtype for o in outs)
                        if len(dts) != 1:
                            raise rt.HarnessSkip('mixed output dtypes %s' % dts)
                        return [np.array([1.0 if dts.pop() == torch.float64 else 0.0])]
                    yield rt.Case('Z', 'dtype_path', [p, x, b, d], [], {'path': p, 'x': x, 'buf': b, 'default': d}, impl=impl)


def acc_input(path, dyn, xseed, shape):
    """three kinds of input, chosen by the seed: large dynamic range inside one tensor, uniform amplitude, and
    piecewise-flat (exactly zero band-pass coefficients inside the flat regions)"""
    g = np.random.default_rng(xseed)
    x = g.standard_normal(shape) * dyn
    kind = xseed % 4
    if kind == 3:
        # un-normalised image data (0..255 times the range) holding a cleanly oriented texture - diagonal hatching with a period of
        # four pixels - digitised with one grey level of noise: one diagonal sub-band is strong, its mirror image almost empty
        ii = np.arange(shape[-2]).reshape(-1, 1) if len(shape) >= 4 else 0
        jj = np.arange(shape[-1]).reshape(1, -1)
        tex = 128.0 + 100.0 * np.cos(np.pi / 2 * (ii + jj))
        return np.clip(np.round(np.broadcast_to(tex, shape) * dyn + g.standard_normal(shape)), 0, None)      # ONE grey level of noise at every scale
    if kind == 0:
        x[..., 0] *= 1e3
    elif kind == 2:
        x = np.broadcast_to(g.standard_normal(shape[:-1] + (1,)) * dyn, shape).copy()
        x[..., shape[-1] // 2:] = x[..., :1] * 0.5
    return x


def iso_job(args):
    """runs inside harness.iso_worker: the float64 result of one path in a process where nothing else has run"""
    torch.set_default_dtype(torch.float64)
    c64, shape, _ = build(args['path'], torch.float64, magbias=args.get('magbias', 1e-2))
    x = acc_input(args['path'], args['dyn'], args['xseed'], shape)
    with torch.no_grad():
        return [t.numpy() for t in flat(c64(torch.tensor(x, dtype=torch.float64)))]


def oracle_accuracy(ck, path, dyn, xseed=0, iso=None, magbias=1e-2):
    """float32 result vs float64 result against eps32 * (gain * max|x| + bias); the float64 result must also be
    the one a process that never saw float32 computes (to 1e-12)"""
    old = torch.get_default_dtype()
    try:
        torch.set_default_dtype(torch.float64)
        c64, shape, bias = build(path, torch.float64, magbias=magbias)
        torch.set_default_dtype(torch.float32)
        c32, _, _ = build(path, torch.float32, magbias=magbias)
    finally:
        torch.set_default_dtype(old)
    x = acc_input(path, dyn, xseed, shape)
    x64 = torch.tensor(x, dtype=torch.float64); x32 = x64.float()
    desc = 'float32 accuracy path=%d shape=%s dynamic range %g%s' % (path, tuple(shape), dyn, '' if path < 10 else ' magbias=%g' % magbias)
    replay = {'oracle': 'accuracy', 'path': path, 'dyn': dyn, 'xseed': xseed, 'magbias': magbias}
    with torch.no_grad():
        if ck.rng.random() < 0.5:
            y32 = flat(c32(x32)); y64 = flat(c64(x64))
        else:
            y64 = flat(c64(x64)); y32 = flat(c32(x32))
    if iso is not None and not (isinstance(iso, tuple) and iso and iso[0] == 'error'):
        if len(iso) != len(y64) or any(tuple(a.shape) != tuple(b.shape) for a, b in zip(y64, iso)):
            ck.fail(desc + ': float64 outputs have other shapes than in an isolated float64-only process', replay); return 'shape'
        for k, (a, b) in enumerate(zip(y64, iso)):
            sc = max(1.0, float(np.max(np.abs(b))) if b.size else 1.0)
            d = float(np.nanmax(np.abs(a.double().numpy() - b))) if b.size else 0.0
            if not (d <= 1e-11 * sc):
                ck.fail(desc + ': float64 output %d differs by %.3g (scale %.3g) from the same call in a process that only ever used float64: precision depends on the history' % (k, d, sc), replay); return 'history'
    if [o.dtype for o in y32] != [torch.float32] * len(y32) or [o.dtype for o in y64] != [torch.float64] * len(y64):
        ck.fail(desc + ': output dtypes %s / %s' % ([str(o.dtype) for o in y32][:3], [str(o.dtype) for o in y64][:3]), replay); return 'dtype'
    # gain = largest absolute row sum of the (linear part of the) operator, from unit impulses in float64
    if bias is None:
        n_in = int(np.prod(shape[1:]))
        rowsum = None
        with torch.no_grad():
            for k in range(n_in):
                e = torch.zeros(n_in, dtype=torch.float64); e[k] = 1
                o = torch.cat([t.reshape(-1) for t in flat(c64(e.reshape(1, *shape[1:])))]).abs()
                rowsum = o if rowsum is None else rowsum + o
        gain = float(rowsum.max())
    else:
        # scattering: the smooth magnitude is 1-Lipschitz in (re, im), so a layer's gain is bounded by the largest absolute row sum of
        # the DTCWT it is built on (real and imaginary parts counted separately) - first order: one level; second order: two levels,
        # or the first-order gain applied twice, whichever is larger.  Measured from unit impulses like the linear paths.
        gain = scat_gain(2 if path == 11 else 1)
    xmax = float(np.abs(x).max())
    bound = 64 * EPS32 * (gain * xmax + (bias or 0.0))
    err = max(float((a.double() - b).abs().max()) for a, b in zip(y32, y64))
    if err > bound:
        ck.fail(desc + ': max |y32 - y64| = %.3g exceeds 64*eps32*(gain*max|x|+bias) = %.3g (gain %.3g)' % (err, bound, gain), replay); return 'diff'
    ck.oracle_ok(('acc', path, dyn, magbias), group='float32-accuracy', sample={'what': desc, 'err': err, 'bound': bound, 'gain': gain})
    return None


def oracle_default_at_call(ck, kind, shape):
    """a float64 module (built under a float64 default) called while the process default dtype is float32 again returns, bit
    for bit, what it returns under a float64 default - also on axes long enough for any blocked / tiled path"""
    from pytorch_wavelets import DWTForward, DWTInverse, DWT1DForward, DWT1DInverse, DTCWTForward, DTCWTInverse
    desc = 'default dtype at call time: float64 %s on shape %s' % (kind, tuple(shape))
    replay = {'oracle': 'default-at-call', 'kind': kind, 'shape': list(shape)}
    old = torch.get_default_dtype()
    try:
        torch.set_default_dtype(torch.float64)
        if kind == 'dwt1d':
            f = DWT1DForward(J=2, wave='db4', mode='symmetric'); i = DWT1DInverse(wave='db4', mode='symmetric')
        elif kind == 'dwt1d-per':
            f = DWT1DForward(J=2, wave='sym5', mode='periodization'); i = DWT1DInverse(wave='sym5', mode='periodization')
        elif kind == 'dwt2d':
            f = DWTForward(J=2, wave='db3', mode='zero'); i = DWTInverse(wave='db3', mode='zero')
        else:
            f = DTCWTForward(J=2); i = DTCWTInverse()
        x = torch.tensor(np.random.default_rng(len(shape) * 1000 + shape[-1]).standard_normal(shape))
        res = {}
        for dflt in (torch.float64, torch.float32):
            torch.set_default_dtype(dflt)
            with torch.no_grad():
                yl, yh = f(x)
                res[dflt] = [yl] + list(yh) + [i((yl, yh))]
    except Exception as e:
        ck.fail(desc + ': raises %s: %s' % (type(e).__name__, str(e)[:100]), replay); return 'raise'
    finally:
        torch.set_default_dtype(old)
    for k, (a, b) in enumerate(zip(res[torch.float64], res[torch.float32])):
        if a.dtype != b.dtype or a.shape != b.shape or not torch.equal(a, b):
            d = float((a.double() - b.double()).abs().max()) if a.shape == b.shape else float('nan')
            ck.fail(desc + ': output %d (%s) differs by %.3g between a float64 and a float32 process default at call time' % (k, 'reconstruction' if k == len(res[torch.float64]) - 1 else 'band', d), replay)
            return 'diff'
    ck.oracle_ok(('default-at-call', kind, tuple(shape)), group='default-dtype-at-call', sample={'what': desc})
    return None


_SCAT_GAIN = {}


def scat_gain(order):
    if order not in _SCAT_GAIN:
        from pytorch_wavelets import DTCWTForward
        old = torch.get_default_dtype()
        try:
            torch.set_default_dtype(torch.float64)
            g = {}
            for J in (1, 2):
                m = DTCWTForward(J=J)
                H = W = 16
                rowsum = None
                with torch.no_grad():
                    for k in range(H * W):
                        e = torch.zeros(H * W, dtype=torch.float64); e[k] = 1
                        yl, yh = m(e.reshape(1, 1, H, W))
                        o = torch.cat([yl.reshape(-1)] + [h.reshape(-1) for h in yh]).abs()
                        rowsum = o if rowsum is None else rowsum + o
                g[J] = float(rowsum.max())
        finally:
            torch.set_default_dtype(old)
        _SCAT_GAIN[1] = 2.0 * g[1]
        _SCAT_GAIN[2] = 2.0 * max(g[2], g[1] * g[1])
    return _SCAT_GAIN[order]


def decoys():
    """instances of every module class with OTHER construction parameters than the paths under test: constructing (and
    discarding) them must not influence any other instance"""
    from pytorch_wavelets import DWTForward, DWTInverse, DWT1DForward, DWT1DInverse, DTCWTForward, DTCWTInverse, ScatLayer, ScatLayerj2
    from pytorch_wavelets.dwt.transform2d import SWTForward
    out = []
    for ctor in (lambda: DWTForward(J=1, wave='db5', mode='zero'), lambda: DWTInverse(wave='db5', mode='zero'),
                 lambda: DWT1DForward(J=1, wave='sym4', mode='periodic'), lambda: DWT1DInverse(wave='sym4', mode='periodic'),
                 lambda: SWTForward(J=1, wave='db3'), lambda: DTCWTForward(biort='antonini', qshift='qshift_c', J=2),
                 lambda: DTCWTInverse(biort='antonini', qshift='qshift_c'), lambda: ScatLayer(biort='near_sym_b_bp'),
                 lambda: ScatLayerj2(biort='near_sym_a', qshift='qshift_a')):
        try:
            out.append(ctor())
        except Exception:
            pass
    return out


def oracle_convert(ck, path):
    """.float() of a float64-built module == float32-built module, bit for bit; .double() keeps float64 in/out"""
    old = torch.get_default_dtype()
    try:
        torch.set_default_dtype(torch.float64)
        a, shape, _ = build(path, torch.float32)      # built double, converted with .float()
        torch.set_default_dtype(torch.float32)
        b, _, _ = build(path, torch.float32)          # built float32
        cm = []
        c, _, _ = build(path, torch.float64, capture=cm)          # built float32 ...
        decoys()                                      # ... then OTHER instances with other tables / wavelets are constructed ...
        for m_ in cm:
            m_.double()                               # ... and only then converted with .double()
    finally:
        torch.set_default_dtype(old)
    x = torch.tensor(ck.nprng.standard_normal(shape), dtype=torch.float32)
    with torch.no_grad():
        ya = flat(a(x)); yb = flat(b(x)); yc = flat(c(x.double()))
    desc = 'module conversion path=%d' % path
    if not all(torch.equal(u, v) for u, v in zip(ya, yb)):
        ck.fail(desc + ': .float() of a float64-built module differs from a float32-built module', {'oracle': 'convert', 'path': path}); return 'diff'
    if any(o.dtype != torch.float64 for o in yc):
        ck.fail(desc + ': .double() module does not return float64', {'oracle': 'convert', 'path': path}); return 'dtype'
    err = max(float((u.double() - v).abs().max()) for u, v in zip(yb, yc))
    sc = max(1.0, max(float(v.abs().max()) for v in yc))
    if err > 64 * EPS32 * sc * 8:
        ck.fail(desc + ': .double() of a float32-built module deviates by %.3g' % err, {'oracle': 'convert', 'path': path}); return 'diff'
    ck.oracle_ok(('convert', path), group='conversion', sample={'what': desc, 'double_vs_float_err': err})
    return None


def oracle_convert_history(ck, path):
    """one instance: call in the dtype it was built in, convert with .double() / .float(), call again: the second
    result must be the one a freshly converted instance gives (bit for bit)"""
    old = torch.get_default_dtype()
    res = None
    for build_dt, other in ((torch.float32, torch.float64), (torch.float64, torch.float32)):
        try:
            torch.set_default_dtype(build_dt)
            mods, fresh = [], []
            used, shape, _ = build(path, build_dt, capture=mods)
            ref, _, _ = build(path, build_dt, capture=fresh)
        finally:
            torch.set_default_dtype(old)
        x = torch.tensor(ck.nprng.standard_normal(shape) * 37.0, dtype=torch.float64)
        desc = 'path=%d built in %s, called, converted to %s, called again' % (path, build_dt, other)
        with torch.no_grad():
            used(x.to(build_dt))
            decoys()
            for m in mods + fresh:
                m.double() if other == torch.float64 else m.float()
            a = flat(used(x.to(other))); b = flat(ref(x.to(other)))
        if any(o.dtype != other for o in a):
            ck.fail(desc + ': output dtype %s' % [str(o.dtype) for o in a][:2], {'oracle': 'convert-history', 'path': path}); res = 'dtype'; continue
        if len(a) != len(b) or not all(u.shape == v.shape and torch.equal(u, v) for u, v in zip(a, b)):
            err = max(float((u.double() - v.double()).abs().max()) for u, v in zip(a, b)) if len(a) == len(b) else float('nan')
            ck.fail(desc + ': differs from a freshly converted instance by %.3g (state kept from before the conversion)' % err, {'oracle': 'convert-history', 'path': path}); res = 'diff'; continue
        ck.oracle_ok(('convert-history', path, str(build_dt)), group='conversion-history', sample={'what': desc})
    return res


def oracle_strided(ck, path):
    """non-contiguous inputs give the same values as their contiguous copies"""
    old = torch.get_default_dtype()
    try:
        torch.set_default_dtype(torch.float64)
        call, shape, _ = build(path, torch.float64)
    finally:
        torch.set_default_dtype(old)
    rng = ck.rng
    base = torch.tensor(ck.nprng.integers(-6, 7, shape).astype(np.float64))
    views = []
    if len(shape) == 4:
        shape = (2,) + tuple(shape[1:])
        base = torch.tensor(ck.nprng.integers(-6, 7, shape).astype(np.float64))
        views.append(('batch-channel-permuted', base.transpose(0, 1).contiguous().transpose(0, 1)))
        views.append(('transposed', base.transpose(2, 3).contiguous().transpose(2, 3)))
        big = torch.tensor(ck.nprng.integers(-6, 7, (shape[0], shape[1], shape[2] * 2, shape[3] * 2)).astype(np.float64))
        views.append(('sliced', big[:, :, ::2, ::2]))
        views.append(('channel-expanded', base[:, :1].expand(shape[0], shape[1], shape[2], shape[3])))
        views.append(('channels-last', base.contiguous(memory_format=torch.channels_last)))
    else:
        big = torch.tensor(ck.nprng.integers(-6, 7, (shape[0], shape[1], shape[2] * 3)).astype(np.float64))
        views.append(('sliced', big[:, :, ::3]))
        base = torch.tensor(ck.nprng.integers(-6, 7, (2,) + tuple(shape[1:])).astype(np.float64))
        views.append(('permuted', base.permute(1, 0, 2).contiguous().permute(1, 0, 2)))
    for name, v in views:
        with torch.no_grad():
            a = flat(call(v)); b = flat(call(v.contiguous()))
        sc = max(1.0, max(float(t.abs().max()) for t in b))
        ok = all(u.shape == w.shape and float((u - w).abs().max()) <= 1e-12 * sc for u, w in zip(a, b))
        if not ok:
            ck.fail('path=%d: %s (non-contiguous, is_contiguous=%s) input gives different values than its contiguous copy' % (path, name, v.is_contiguous()),
                    {'oracle': 'strided', 'path': path, 'view': name}); return 'diff'
        ck.oracle_ok(('strided', path, name), group='strided', sample={'path': path, 'view': name, 'strides': list(v.stride())})
    return None


def oracle_layout_modes(ck):
    """every padding mode of the DWT x the covering set of memory layouts (NHWC, channel / batch slices of larger tensors,
    channel-major storage, spatial crops; time-major (N,L,C) sequences in 1-D), forward and inverse, float64 and float32:
    the result equals that of the contiguous copy"""
    from pytorch_wavelets import DWTForward, DWTInverse, DWT1DForward, DWT1DInverse
    from ..impl_dwt import layout_views
    g = np.random.default_rng(2024)
    for mode in ('zero', 'symmetric', 'reflect', 'periodic', 'periodization'):
        for dt in (torch.float64, torch.float32):
            f2 = DWTForward(J=2, wave='db3', mode=mode).to(dt); i2 = DWTInverse(wave='db3', mode=mode).to(dt)
            f1 = DWT1DForward(J=2, wave='db3', mode=mode).to(dt); i1 = DWT1DInverse(wave='db3', mode=mode).to(dt)
            x = g.integers(-6, 7, (2, 3, 12, 14)).astype(np.float64)
            tol = 1e-12 if dt == torch.float64 else 1e-5
            with torch.no_grad():
                ref = flat(f2(torch.tensor(x, dtype=dt)))
                pyr = f2(torch.tensor(x, dtype=dt))
                refi = i2(pyr)
            for name, v in layout_views(x, dt):
                with torch.no_grad():
                    got = flat(f2(v))
                sc = max(1.0, max(float(t.abs().max()) for t in ref))
                if not all(u.shape == w.shape and float((u - w).abs().max()) <= tol * sc for u, w in zip(got, ref)):
                    ck.fail('DWTForward(db3, %s, J=2, %s): input given as %s (strides %s) gives different values than its contiguous copy' % (mode, dt, name, tuple(v.stride())),
                            {'oracle': 'layout-modes', 'mode': mode, 'view': name}); return 'diff'
            for name, v in layout_views(pyr[0].numpy().astype(np.float64), dt):
                with torch.no_grad():
                    got = i2((v, pyr[1]))
                if got.shape != refi.shape or float((got - refi).abs().max()) > tol * max(1.0, float(refi.abs().max())):
                    ck.fail('DWTInverse(db3, %s, %s): lowpass given as %s gives different values than its contiguous copy' % (mode, dt, name), {'oracle': 'layout-modes', 'mode': mode, 'view': name}); return 'diff'
            s_ = g.integers(-6, 7, (2, 3, 19)).astype(np.float64)
            ts = torch.tensor(s_, dtype=dt)
            views1 = [('time-major (N,L,C) storage', torch.tensor(np.ascontiguousarray(np.swapaxes(s_, 1, 2)), dtype=dt).transpose(1, 2)),
                      ('channel-major (C,N,L) storage', torch.tensor(np.ascontiguousarray(np.swapaxes(s_, 0, 1)), dtype=dt).transpose(0, 1))]
            with torch.no_grad():
                ref1 = flat(f1(ts)); p1 = f1(ts); refi1 = i1(p1)
            for name, v in views1:
                with torch.no_grad():
                    got = flat(f1(v))
                if not all(u.shape == w.shape and float((u - w).abs().max()) <= tol * max(1.0, float(w.abs().max())) for u, w in zip(got, ref1)):
                    ck.fail('DWT1DForward(db3, %s, J=2, %s): input given as %s gives different values than its contiguous copy' % (mode, dt, name), {'oracle': 'layout-modes', 'mode': mode, 'view': name}); return 'diff'
            lo = p1[0]
            vlo = torch.tensor(np.ascontiguousarray(np.swapaxes(lo.numpy(), 1, 2)), dtype=dt).transpose(1, 2)
            with torch.no_grad():
                got = i1((vlo, p1[1]))
            if got.shape != refi1.shape or float((got - refi1).abs().max()) > tol * max(1.0, float(refi1.abs().max())):
                ck.fail('DWT1DInverse(db3, %s, %s): time-major lowpass gives different values than its contiguous copy' % (mode, dt), {'oracle': 'layout-modes', 'mode': mode, 'view': 'time-major'}); return 'diff'
            ck.oracle_ok(('layout-modes', mode, str(dt)), group='strided')
    return None


def run(ck):
    from ..translate import regen_all
    rt.setup_torch()
    q = ck.tier == 'quick'
    ck.trusted = TRUSTED[:3] + ['the dtype abstract interpretation lean/WaveletsVerif/Model/Dtype.lean is tied to the code by the exhaustive grid correspondence',
                                'float rounding and memory layout are runtime: measured on the real code against the proved gain bound, not proved']
    ck.extra['module'] = MODULE
    ck.extra['exhaustive_dtype_grid'] = True
    ck.extra['rule'] = ('correspondence: exhaustive grid 12 transform paths x input dtype x buffer dtype x default dtype (96 cases) of result dtype / raise vs the Lean dtype model; oracle: float32 vs float64 '
                        'outputs within 64*eps32*(gain*max|x|+bias) with the gain (largest absolute row sum) extracted from unit impulses, three dynamic ranges plus the subnormal end of the float32 range (1e-36) for the linear transforms; .float()/.double() conversions; '
                        'transposed / sliced / expanded / channels-last views vs contiguous copies; distinct by (path, dtype triple) / (path, range) / (path, view)')
    if not getattr(ck, 'no_lean', False):
        ck.lean = rt.lean_check(PROP, MODULE, THEOREMS, regen=regen_all)
    st = rt.correspond('dtype-grid', dtype_cases(ck), {})
    ck.corr.append(st)
    old = torch.get_default_dtype()
    try:
        # amplitudes from tiny to huge (the bound is relative to max|x|), and for the scattering layers every admissible kind of
        # magnitude bias: the default, none at all (magbias = 0) and a large one
        jobs = [(path, dyn, ck.rng.getrandbits(31), 1e-2) for path in range(12) for dyn in ([1e-5, 1.0, 1e4] if q else [1e-7, 1e-5, 1e-3, 1.0, 1e4, 1e6])]
        # the ends of the float32 range for the linear transforms (results scale exactly with the input, so the relative bound must
        # hold where intermediates are subnormal and where they approach overflow)
        jobs += [(path, dyn, ck.rng.getrandbits(31), 1e-2) for path in range(10) for dyn in ([1e-36] if q else [1e-36, 1e-37, 1e30])]
        jobs += [(path, dyn, 4 * ck.rng.getrandbits(29) + kind, mb) for path in (10, 11) for mb in (0.0, 1.0) for kind in (0, 1, 2, 3)
                 for dyn in ([1e-5, 1.0] if q else [1e-7, 1e-5, 1e-3, 1.0, 1e4])]
        # un-normalised oriented textures (8-, 12- and 16-bit ranges) through every path with the default bias
        jobs += [(path, dyn, 4 * ck.rng.getrandbits(29) + 3, 1e-2) for path in ((0, 6, 10, 11) if q else range(12)) for dyn in ([1.0, 257.0] if q else [1.0, 16.0, 257.0, 1e-2])]
        isos = rt.iso_run([{'module': 'harness.props.c16', 'func': 'iso_job', 'args': {'path': p_, 'dyn': d_, 'xseed': s_, 'magbias': mb_}} for p_, d_, s_, mb_ in jobs])
        ck.extra['isolated_process_references'] = {'computed': sum(1 for v in isos if not (isinstance(v, tuple) and v and v[0] == 'error')),
                                                   'worker_errors': [v[1][-160:] for v in isos if isinstance(v, tuple) and v and v[0] == 'error'][:3]}
        for (path, dyn, xs, mb), iso in zip(jobs, isos):
            rt.guard(ck, oracle_accuracy, ck, path, dyn, xs, iso, mb)
        for path in range(12):
            rt.guard(ck, oracle_convert, ck, path)
            rt.guard(ck, oracle_convert_history, ck, path)
            rt.guard(ck, oracle_strided, ck, path)
        # dtype conversions of a module whose state came from another instance (load_state_dict): the conversion converts the
        # CURRENT state, it does not re-derive anything from construction time
        from .. import adoption
        rt.guard(ck, adoption.run, ck, ('load-double', 'f32-double-load'))
        rt.guard(ck, oracle_layout_modes, ck)
        for kind, shape in [('dwt1d', (1, 1, 20011)), ('dwt1d-per', (1, 2, 17000)), ('dwt2d', (1, 1, 9001, 4)), ('dwt2d', (1, 1, 6, 8300)), ('dtcwt', (1, 1, 1040, 8))] + \
                ([] if q else [('dwt1d', (1, 1, 70001)), ('dwt2d', (1, 1, 520, 520)), ('dtcwt', (1, 70, 16, 16))]):
            rt.guard(ck, oracle_default_at_call, ck, kind, shape)
    finally:
        torch.set_default_dtype(old)


def replay(ck, path):
    d = load_replay(path)
    f = d.get('failure', {}).get('replay')
    rt.setup_torch()
    if not f:
        print('replay file names no failing input: %s' % d.get('broken_obligations'))
        return 1
    if f['oracle'] == 'accuracy':
        oracle_accuracy(ck, f['path'], f['dyn'], f.get('xseed', 0), None, f.get('magbias', 1e-2))
    elif f['oracle'] == 'convert':
        oracle_convert(ck, f['path'])
    elif f['oracle'] == 'adoption':
        from .. import adoption
        adoption.run(ck, ('load-double', 'f32-double-load'))
    elif f['oracle'] == 'layout-modes':
        oracle_layout_modes(ck)
    elif f['oracle'] == 'default-at-call':
        oracle_default_at_call(ck, f['kind'], tuple(f['shape']))
    elif f['oracle'] == 'convert-history':
        oracle_convert_history(ck, f['path'])
    else:
        oracle_strided(ck, f['path'])
    for fl in ck.failures:
        print('REPLAY-FAILS: ' + fl['desc'])
    if not ck.failures:
        print('REPLAY-PASSES')
    return 1 if ck.failures else 0
