"""C05 — DWT back-propagation is the exact adjoint, for every grad subset."""
import itertools
import numpy as np
import torch
from .. import rt, gen, proto
from ..dwt_common import *
from ..impl_dwt import IMPL, T, N as NP

PROP = 'C05'
MODULE = 'WaveletsVerif.Properties.C05'
THEOREMS = ['WV.C05.corr_convT_adjoint', 'WV.C05.afb_zero_adjoint_one', 'WV.C05.afb_zero_adjoint', 'WV.C05.sfb_zero_adjoint', 'WV.C05.afb_per_adjoint',
            'WV.C05D.pairH', 'WV.C05D.pairW', 'WV.C05D.AFB2D_forward_val', 'WV.C05D.AFB2D_backward_val', 'WV.C05D.AFB2D_zero_adjoint',
            'WV.C05P.adjP1', 'WV.C05P.idwt_per_add', 'WV.C05P.AFB2D_forward_val', 'WV.C05P.AFB2D_backward_val', 'WV.C05P.AFB2D_per_adjoint',
            'WV.C05S.adjS1', 'WV.C05S.SFB2D_forward_val', 'WV.C05S.SFB2D_zero_adjoint',
            'WV.C07M.AFB2D_backward_zero_channels', 'WV.C07M.AFB2D_zero_adjoint_channels', 'WV.C07M.AFB2D_per_adjoint_channels', 'WV.C07M.SFB2D_zero_adjoint_channels',
            'WV.C05J.DWT2D_zero_adjoint', 'WV.C05J.DWT2D_per_adjoint', 'WV.C05K.crop_adjoint', 'WV.C05K.level', 'WV.C05K.DWTInverse_zero_adjoint',
            'WV.C05T.SFB1D_per_adjoint', 'WV.C05T.SFB2D_per_adjoint', 'WV.C05T.bwd_eq_fwd', 'WV.C05T.DWTInverse_per_adjoint', 'WV.C05T.SFB2D_per_adjoint_channels',
            'WV.C05U.loop_adjoint', 'WV.C05U.levelAdj_zero', 'WV.C05U.levelAdj_per', 'WV.C05U.DWT1D_zero_adjoint', 'WV.C05U.DWT1D_per_adjoint',
            'WV.C05V.crop_adjoint1', 'WV.C05V.loop_adjoint', 'WV.C05V.levelAdjS_zero', 'WV.C05V.levelAdjS_per', 'WV.C05V.DWT1DInverse_zero_adjoint', 'WV.C05V.DWT1DInverse_per_adjoint',
            'WV.C05W.AFB1D_forward_channels', 'WV.C05W.AFB1D_backward_channels', 'WV.C05W.AFB1D_adjoint_channels', 'WV.C05W.AFB1D_zero_adjoint_channels', 'WV.C05W.AFB1D_per_adjoint_channels',
            'WV.C05W.SFB1D_forward_channels', 'WV.C05W.SFB1D_adjoint_channels', 'WV.C05W.SFB1D_zero_adjoint_channels', 'WV.C05W.SFB1D_per_adjoint_channels',
            'WV.C05W.AFB1D_adjoint_channels_shapes', 'WV.C05W.loop_adjoint_channels', 'WV.C05W.DWT1D_zero_adjoint_channels', 'WV.C05W.DWT1D_per_adjoint_channels',
            'WV.C05X.SFB1D_adjoint_channels_shapes', 'WV.C05X.loop_adjoint_channels', 'WV.C05X.DWT1DInverse_zero_adjoint_channels', 'WV.C05X.DWT1DInverse_per_adjoint_channels', 'WV.C10Z.module_glue_gen']
OPS = ['AFB1D_bwd', 'AFB2D_bwd', 'SFB1D_bwd', 'SFB2D_bwd', 'AFB1D_fwd', 'SFB1D_fwd']
KF_AFB = 'C05-afb-backward-padded-modes'
KF_SFB = 'C05-sfb-backward-padded-modes'
KF_PER = 'C05-periodization-short'


def pad_total(n, L):
    return 2 * ((n + L - 1) // 2 - 1) - n + L


FORCE = [None]          # set by the covering cases: 'adopt' / 'deferred' (see impl_dwt._build)


def modules(dims, m, J, filt, salt=None):
    """the modules under test, built the way the harness builds every DWT module (impl_dwt._build): decoy instances with
    other arguments, twins whose state is overwritten, and - for about one bank in three, or when FORCE says so - an
    instance that took over its state from another one through load_state_dict"""
    if salt is None:
        salt = tuple(int(np.size(f)) for f in filt) + tuple(float(np.ravel(f)[0]) for f in filt)
    from pytorch_wavelets.dwt.transform1d import DWT1DForward, DWT1DInverse
    from pytorch_wavelets.dwt.transform2d import DWTForward, DWTInverse
    from ..impl_dwt import _build
    own = lambda: tuple(np.array(f, dtype=np.float64, copy=True) for f in filt)
    if dims == 1:
        return (_build(DWT1DForward, own(), FORCE[0], J=J, mode=gen.lib_mode(m, 'f', dims, J, salt)),
                _build(DWT1DInverse, own(), FORCE[0], mode=gen.lib_mode(m, 'i', dims, J, salt)))
    return (_build(DWTForward, own(), FORCE[0], J=J, mode=gen.lib_mode(m, 'f', dims, J, salt)),
            _build(DWTInverse, own(), FORCE[0], mode=gen.lib_mode(m, 'i', dims, J, salt)))


def flat(ts):
    return torch.cat([t.reshape(-1) for t in ts])


def oracle_fwd_grad(ck, dims, m, J, filt, shape, chan=1):
    """autograd of the forward module vs J^T g with J assembled from the forward pass on unit impulses"""
    rng = ck.rng
    L = len(filt[0])
    fwd, _ = modules(dims, m, J, filt, tuple(shape))
    n_in = chan * int(np.prod(shape))
    desc = '%dD forward-module gradient mode=%s J=%d L=%d shape=%s channels=%d' % (dims, gen.MODE_NAME[m], J, L, tuple(shape), chan)
    replay = {'oracle': 'fwd_grad', 'dims': dims, 'm': m, 'J': J, 'filt': [arr_json(f) for f in filt], 'shape': list(shape), 'seed_note': 'cotangent drawn from the check PRNG', 'force': FORCE[0], 'chan': chan}
    try:
        with torch.no_grad():
            cols = []
            for k in range(n_in):
                e = torch.zeros(n_in); e[k] = 1
                yl, yh = fwd(e.reshape(1, chan, *shape))
                cols.append(flat([yl] + list(yh)))
            Jm = torch.stack(cols)               # n_in x n_out
    except Exception:
        ck.oracle_ok(('fwd-raises', dims, m), nontriv=False, group='forward-raises')
        return None
    x = T(gen.int_tensor(rng, (1, chan) + tuple(shape))).requires_grad_(True)
    yl, yh = fwd(x)
    outs = [yl] + list(yh)
    cots = [T(gen.int_tensor(rng, tuple(o.shape))) for o in outs]
    if dims == 1:
        sizes, _ = level_sizes(shape[-1], L, m, J)
        padded = m in (1, 4, 6) and any(pad_total(n, L) > 0 for n in sizes)
        short = per_short_fwd(sizes, L, m)
    else:
        Lr = len(filt[2]) if len(filt) == 4 else L          # a 4-tuple wave: (col lo, col hi, row lo, row hi), lengths may differ per axis
        sh, _ = level_sizes(shape[-2], L, m, J); sw, _ = level_sizes(shape[-1], Lr, m, J)
        padded = m in (1, 4, 6) and (any(pad_total(n, L) > 0 for n in sh) or any(pad_total(n, Lr) > 0 for n in sw))
        short = per_short_fwd(sh, L, m) or per_short_fwd(sw, Lr, m)
    kk = KF_AFB if padded else (KF_PER if short else None)
    from ..gradcheck import pull_variants
    g = None
    bad2 = []

    def second(idx, us, jv):
        # d/dg <u, J^T g> = J u
        want2 = Jm.T @ us[0].reshape(-1)
        got2 = flat(jv)
        if not torch.equal(got2, want2):
            k2 = int(torch.nonzero(got2 != want2)[0])
            bad2.append('the pull-back differentiated once more: d<u, J^T g>/dg [%d] = %r, (J u)[%d] = %r' % (k2, float(got2[k2]), k2, float(want2[k2])))
    try:
        for label, eff, grads in pull_variants(rng, outs, [x], lambda o: T(gen.int_tensor(rng, tuple(o.shape))), second=second):
            if bad2:
                ck.fail(desc + ' [%s]' % bad2[0], replay, known_key=kk)
                return 'diff2'
            g = grads[0] if grads[0] is not None else torch.zeros_like(x)
            want = Jm @ flat(eff)
            if not torch.equal(g.reshape(-1), want):
                idx = int(torch.nonzero(g.reshape(-1) != want)[0])
                ck.fail(desc + ' [%s]: grad[%d] = %r, J^T g = %r' % (label, idx, float(g.reshape(-1)[idx]), float(want[idx])), replay, known_key=kk)
                return 'diff'
    except Exception as e:
        ck.fail(desc + ': backward raises %s: %s' % (type(e).__name__, str(e)[:120]), replay, known_key=kk)
        return 'raise'
    ck.oracle_ok(('fwd', dims, m, J, L, tuple(shape)), group='fwd-grad-%dd' % dims,
                 sample={'what': 'autograd(DWT%sForward) == J^T g (all outputs, subsets of outputs, repeated pull-backs)' % ('1D' if dims == 1 else ''), 'mode': gen.MODE_NAME[m], 'J': J, 'L': L, 'shape': list(shape),
                         'grad_head': [float(v) for v in g.reshape(-1)[:4]]})
    return None


def oracle_inv_grad(ck, dims, m, J, filt, size, mask):
    """autograd of the inverse module for the requires_grad subset `mask` (bit 0: yl, bit j: yh[j-1])"""
    rng = ck.rng
    L = len(filt[0])
    _, inv = modules(dims, m, J, filt, (size, mask))
    if dims == 1:
        hs, nl = pyramid_shapes_1d(size, L, m, J)
        shapes = [(1, 1, nl)] + [(1, 1, h) for h in hs]
        lo_sizes = hs
    else:
        Lr = len(filt[2]) if len(filt) == 4 else L
        hh, nlh = pyramid_shapes_1d(size[0], L, m, J); hw, nlw = pyramid_shapes_1d(size[1], Lr, m, J)
        shapes = [(1, 1, nlh, nlw)] + [(1, 1, 3, a, b) for a, b in zip(hh, hw)]
        lo_sizes = hh + hw
    desc = '%dD inverse-module gradient mode=%s J=%d L=%d size=%s requires_grad mask=%s' % (dims, gen.MODE_NAME[m], J, L, size, bin(mask))
    replay = {'oracle': 'inv_grad', 'dims': dims, 'm': m, 'J': J, 'filt': [arr_json(f) for f in filt], 'size': size, 'mask': mask, 'force': FORCE[0]}
    ins = [T(gen.int_tensor(rng, s)) for s in shapes]
    for i, t in enumerate(ins):
        if (mask >> i) & 1:
            t.requires_grad_(True)
    try:
        y = inv((ins[0], ins[1:]))
    except Exception:
        ck.oracle_ok(('inv-raises', dims, m), nontriv=False, group='inverse-raises')
        return None
    g = T(gen.int_tensor(rng, tuple(y.shape)))
    # out lengths of the synthesis at each level decide whether the padded analysis used by backward pads at all
    if dims == 2 and len(filt) == 4:
        padded = m in (1, 4, 6) and max(L, Lr) > 2
        short = per_short_inv(hh, L, m) or per_short_inv(hw, Lr, m) or (m == 2 and (any(evenlen(2 * n) < L for n in hh) or any(evenlen(2 * n) < Lr for n in hw)))
    else:
        padded = m in (1, 4, 6) and L > 2
        short = per_short_inv(lo_sizes, L, m) or (m == 2 and any(evenlen(2 * n) < L for n in lo_sizes))
    kk = KF_SFB if padded else (KF_PER if short else None)
    need = [t for t in ins if t.requires_grad]
    from ..gradcheck import pull_variants
    # Jacobian blocks from the forward pass of the inverse on unit impulses: blocks[i] (n_i x n_out)
    blocks = {}
    with torch.no_grad():
        for i, t in enumerate(ins):
            if not t.requires_grad:
                continue
            base = [torch.zeros(tuple(u.shape), dtype=u.dtype) for u in ins]
            rows = []
            for k in range(t.numel()):
                base[i].reshape(-1)[k] = 1
                rows.append(inv((base[0], base[1:])).reshape(-1).clone())
                base[i].reshape(-1)[k] = 0
            blocks[i] = torch.stack(rows)
    bad2 = []
    req = [i for i, t in enumerate(ins) if t.requires_grad]

    def second(idx, us, jv):
        want2 = sum(blocks[req[i]].T @ u.reshape(-1) for i, u in zip(idx, us))
        got2 = jv[0].reshape(-1)
        if not torch.equal(got2, want2):
            k2 = int(torch.nonzero(got2 != want2)[0])
            bad2.append('the pull-back differentiated once more: d<u, J^T g>/dg [%d] = %r, (J u)[%d] = %r' % (k2, float(got2[k2]), k2, float(want2[k2])))
    try:
        for label, eff, grads in pull_variants(rng, [y], need, lambda o: T(gen.int_tensor(rng, tuple(o.shape))), repeats=3, second=second):
            if bad2:
                ck.fail(desc + ' [%s]' % bad2[0], replay, known_key=kk)
                return 'diff2'
            it = iter(grads)
            for i, t in enumerate(ins):
                if not t.requires_grad:
                    continue
                gi = next(it)
                if gi is None:
                    ck.fail(desc + ' [%s]: argument %d requires grad but received None' % (label, i), replay, known_key=kk)
                    return 'none'
                want = blocks[i] @ eff[0].reshape(-1)
                if not torch.equal(gi.reshape(-1), want):
                    idx = int(torch.nonzero(gi.reshape(-1) != want)[0])
                    ck.fail(desc + ' [%s]: argument %d grad[%d] = %r, J^T g = %r' % (label, i, idx, float(gi.reshape(-1)[idx]), float(want[idx])), replay, known_key=kk)
                    return 'diff'
    except Exception as e:
        ck.fail(desc + ': backward raises %s: %s' % (type(e).__name__, str(e)[:120]), replay, known_key=kk)
        return 'raise'
    ck.oracle_ok(('inv', dims, m, J, L, str(size), mask), group='inv-grad-%dd' % dims,
                 sample={'what': 'autograd(DWT%sInverse) == J^T g for every argument requiring grad' % ('1D' if dims == 1 else ''), 'mode': gen.MODE_NAME[m],
                         'J': J, 'L': L, 'size': size, 'mask': bin(mask)})
    return None


def oracle_dot(ck, dims, m, J, filt, shape):
    """sizes at which the Jacobian cannot be assembled: the transform is linear, so <T x, g> = <x, T^T g> per (batch, channel)
    slice for the forward module, and <T^{-1} P, g> = <P, grad> for the inverse; exact on integers.  shape = (N, C, ...)."""
    rng = ck.rng
    L = len(filt[0])
    fwd, inv = modules(dims, m, J, filt, tuple(shape))
    desc = '%dD module gradient, adjoint identity per slice, mode=%s J=%d L=%d shape=%s' % (dims, gen.MODE_NAME[m], J, L, tuple(shape))
    replay = {'oracle': 'dot', 'dims': dims, 'm': m, 'J': J, 'filt': [arr_json(f) for f in filt], 'shape': list(shape)}
    sl = lambda t: t.reshape(t.shape[0], t.shape[1], -1)
    try:
        x = T(gen.int_tensor(rng, tuple(shape), 3)).requires_grad_(True)
        yl, yh = fwd(x)
        outs = [yl] + list(yh)
        cots = [T(gen.int_tensor(rng, tuple(o.shape), 3)) for o in outs]
        (gx,) = torch.autograd.grad(outs, [x], cots)
        lhs = sum((sl(o.detach()) * sl(c)).sum(-1) for o, c in zip(outs, cots))
        rhs = (sl(x.detach()) * sl(gx)).sum(-1)
        if not torch.equal(lhs, rhs):
            n0, c0 = [int(v) for v in torch.nonzero(lhs != rhs)[0]]
            ck.fail(desc + ': forward module, slice (%d,%d): <T x, g> = %r but <x, grad> = %r' % (n0, c0, float(lhs[n0, c0]), float(rhs[n0, c0])), replay)
            return 'diff'
        ps = [T(gen.int_tensor(rng, tuple(o.shape), 3)).requires_grad_(True) for o in outs]
        y = inv((ps[0], ps[1:]))
        g = T(gen.int_tensor(rng, tuple(y.shape), 3))
        gs = torch.autograd.grad([y], ps, [g])
        lhs = (sl(y.detach()) * sl(g)).sum(-1)
        rhs = sum((sl(p.detach()) * sl(gp)).sum(-1) for p, gp in zip(ps, gs))
        if not torch.equal(lhs, rhs):
            n0, c0 = [int(v) for v in torch.nonzero(lhs != rhs)[0]]
            ck.fail(desc + ': inverse module, slice (%d,%d): <T^-1 P, g> = %r but <P, grad> = %r' % (n0, c0, float(lhs[n0, c0]), float(rhs[n0, c0])), replay)
            return 'diff'
    except Exception as e:
        ck.fail(desc + ': raises %s: %s' % (type(e).__name__, str(e)[:120]), replay)
        return 'raise'
    ck.oracle_ok(('dot', dims, m, J, L, tuple(shape)), group='adjoint-identity-%dd' % dims, sample={'what': desc})
    return None


def oracle(ck, extended):
    rng = ck.rng
    q = ck.tier == 'quick'
    # sizes above every blocking / tiling threshold (gen.scale_shapes_*), in the two modes whose backward passes are adjoints
    # (zero, and periodization where no level is shorter than the filter): the adjoint identity per slice, forward and inverse modules
    for k, shp in enumerate(gen.scale_shapes_2d(ck.tier)):
        for m_ in (0, 2):
            Lk = [2, 4, 6, 8][(k + m_) % 4]; Jk = 1 + (k + m_ // 2) % 2
            if m_ == 2 and min(shp[2], shp[3]) < Lk * 2 ** Jk:
                Jk = 1
            if m_ == 2 and min(shp[2], shp[3]) + 1 < Lk:
                continue
            rt.guard(ck, oracle_dot, ck, 2, m_, Jk, (gen.int_filter(rng, Lk), gen.int_filter(rng, Lk)), shp)
    for k, shp in enumerate(gen.scale_shapes_1d(ck.tier)):
        for m_ in (0, 2):
            Lk = [2, 4, 6, 8][(k + m_) % 4]
            rt.guard(ck, oracle_dot, ck, 1, m_, 1 + (k + m_ // 2) % 2 if shp[2] >= 64 else 1, (gen.int_filter(rng, Lk), gen.int_filter(rng, Lk)), shp)
    # deterministic witnesses of the three recorded findings
    f4 = (np.array([1., 2., 3., 4.]), np.array([2., -1., 3., 1.])); f6 = (np.array([1., 2., 3., 4., -1., 2.]), np.array([2., -1., 3., 1., 1., -2.]))
    rt.guard(ck, oracle_fwd_grad, ck, 1, 1, 1, f4, (6,))
    rt.guard(ck, oracle_inv_grad, ck, 1, 1, 1, f4, 8, 3)
    rt.guard(ck, oracle_fwd_grad, ck, 1, 2, 1, f6, (4,))
    # odd x odd images in periodization (both axes carry a repeated last sample), not a recorded finding
    rt.guard(ck, oracle_fwd_grad, ck, 2, 2, 1, f4, (5, 7))
    rt.guard(ck, oracle_fwd_grad, ck, 2, 2, 1, (np.array([1., 2.]), np.array([2., -1.])), (3, 5))
    rt.guard(ck, oracle_fwd_grad, ck, 1, 2, 2, f4, (9,))
    # several channels (Jacobian over all of them, cotangents also in channels-last / time-major layout): odd sizes in periodization
    # and the zero mode, 1-D and 2-D
    rt.guard(ck, oracle_fwd_grad, ck, 2, 2, 1, f4, (5, 7), 2)
    rt.guard(ck, oracle_fwd_grad, ck, 2, 2, 2, (np.array([1., 2.]), np.array([2., -1.])), (6, 5), 3)
    rt.guard(ck, oracle_fwd_grad, ck, 1, 2, 2, f4, (9,), 2)
    rt.guard(ck, oracle_fwd_grad, ck, 2, 0, 1, f4, (5, 4), 2)
    # covering cases: modules whose state was taken over from another instance (other filters of the same lengths, then
    # load_state_dict and an exact dtype round trip; or the deferred meta-device construction): the backward pass must
    # follow the CURRENT state in every mode
    for force in ('adopt', 'deferred'):
        FORCE[0] = force
        try:
            for m_ in (0, 2):
                rt.guard(ck, oracle_fwd_grad, ck, 2, m_, 1, f4, (6, 8))
                rt.guard(ck, oracle_fwd_grad, ck, 1, m_, 2, f4, (12,))
                rt.guard(ck, oracle_inv_grad, ck, 2, m_, 1, f4, [6, 8], 3)
                rt.guard(ck, oracle_inv_grad, ck, 1, m_, 1, f4, 8, 3)
        finally:
            FORCE[0] = None
    # one wavelet PER AXIS (the documented 4-tuple form), tap counts that differ between the axes: every place where the backward pass
    # pairs an axis with a filter length has to pair it with its own
    for (Lc_, Lr_) in ((4, 6), (6, 2), (2, 8)) + (() if q else ((8, 4), (4, 10), (10, 6))):
        f44 = (gen.int_filter(rng, Lc_), gen.int_filter(rng, Lc_), gen.int_filter(rng, Lr_), gen.int_filter(rng, Lr_))
        for m_ in (0, 2):
            rt.guard(ck, oracle_fwd_grad, ck, 2, m_, 1, f44, (gen.pick_len(rng, Lc_, 8) + 2, gen.pick_len(rng, Lr_, 8) + 2))
            rt.guard(ck, oracle_fwd_grad, ck, 2, m_, 2, f44, (2 * Lc_ + 2, 2 * Lr_ + 4))
            rt.guard(ck, oracle_inv_grad, ck, 2, m_, 1, f44, [Lc_ + 4, Lr_ + 3], 3)
    n = (70 if q else 500) * (3 if extended else 1)
    for it in range(n):
        L = 2 * rng.randint(1, 4 if q else 6); m = rng.choice(gen.MODES5); J = rng.randint(1, 2 if q else 3)    # wavelets have even length
        h0 = gen.int_filter(rng, L); h1 = gen.int_filter(rng, L)
        kind = it % 4
        if kind == 0:
            rt.guard(ck, oracle_fwd_grad, ck, 1, m, J, (h0, h1), (gen.pick_len(rng, L, 16 if q else 32),))
        elif kind == 1:
            rt.guard(ck, oracle_fwd_grad, ck, 2, m, 1 if q else J, (h0, h1), (gen.pick_len(rng, L, 8), gen.pick_len(rng, L, 8)))
        elif kind == 2:
            rt.guard(ck, oracle_inv_grad, ck, 1, m, J, (h0, h1), gen.pick_len(rng, L, 16 if q else 32), rng.randint(1, 2 ** (J + 1) - 1))
        else:
            rt.guard(ck, oracle_inv_grad, ck, 2, m, 1 if q else J, (h0, h1), [gen.pick_len(rng, L, 8), gen.pick_len(rng, L, 8)], rng.randint(1, 2 ** ((1 if q else J) + 1) - 1))


def run(ck):
    std_run(ck, PROP, MODULE, THEOREMS, OPS, 360, 3000, oracle,
            rule='correspondence: the four autograd Functions (AFB1D/AFB2D/SFB1D/SFB2D) backward passes through torch.autograd.grad with integer cotangents, every requires_grad mask of the synthesis '
                 'Functions, all five modes, odd sizes, sizes below the filter length; oracle: for the four modules, autograd == J^T g exactly, J assembled from the forward pass on unit impulses, random '
                 'requires_grad subsets; distinct by (module, dims, mode, J, L, shape, mask)')


def replay(ck, path):
    rt.setup_torch()
    d = load_replay(path)
    f = d.get('failure', {}).get('replay')
    if not f:
        print('replay file names no failing input: %s' % d.get('broken_obligations'))
        return 1
    filt = tuple(arr_from(a) for a in f['filt'])
    FORCE[0] = f.get('force')
    if f['oracle'] == 'dot':
        oracle_dot(ck, f['dims'], f['m'], f['J'], filt, tuple(f['shape']))
    elif f['oracle'] == 'fwd_grad':
        oracle_fwd_grad(ck, f['dims'], f['m'], f['J'], filt, tuple(f['shape']), f.get('chan', 1))
    else:
        oracle_inv_grad(ck, f['dims'], f['m'], f['J'], filt, f['size'], f['mask'])
    for fl in ck.failures:
        print('REPLAY-FAILS: ' + fl['desc'])
    for k, (t, n) in ck.known_hits.items():
        print('REPLAY-KNOWN-FINDING: ' + t)
    if not ck.failures and not ck.known_hits:
        print('REPLAY-PASSES')
    return 1 if ck.failures else 0
