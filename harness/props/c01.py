"""C01 — DWT analysis equals PyWavelets (1-D and 2-D)."""
import numpy as np
from .. import rt, gen, proto
from .. import oracle_pywt as O
from ..dwt_common import *
from ..impl_dwt import IMPL
from ..translate import regen_all

PROP = 'C01'
MODULE = 'WaveletsVerif.Properties.C01'
THEOREMS = ['WV.C01.afb1dOne_zero_eq_dwt', 'WV.C01.afb1dOne_symmetric_eq_dwt', 'WV.C01.afb1dOne_periodic_eq_dwt', 'WV.C01.afb1dOne_per_eq_dwt_partial', 'WV.C01.AFB2D_forward_eq_dwt2', 'WV.C01.afb1dOne_reflect', 'WV.C01.DWT1DForward_eq_wavedec', 'WV.C01.DWTForward_eq_wavedec2', 'WV.C01.AFB1D_forward_multi', 'WV.C01.DWT1DForward_multi', 'WV.C01.afb1dOne_per_eq_dwt_partial_all',
            'WV.C03T.reflect_eq_symIdx', 'WV.C03T.symm_pad_1d_eq', 'WV.C03T.symmPad_eq_gather', 'WV.C01M.AFB2D_forward_multi', 'WV.C01M.DWTForward_multi',
            'WV.C01Z.afb1dOne_zero_gen', 'WV.C01Z.afb1dOne_symmetric_gen', 'WV.C01Z.afb1dOne_per_gen', 'WV.C01Z.afb1d_p_gives_coeff_len',
            'WV.C01P.DWTForward_per_eq_wavedec2', 'WV.C02Q.DWT1DForward_per_eq_wavedec_all',
            'WV.C01R.afb1dOne_reflect_some', 'WV.C01R.DWT1DForward_reflect_some', 'WV.C01R.AFB2D_forward_reflect_some', 'WV.C01R.DWTForward_reflect_some', 'WV.C19Z.rollPy_gen', 'WV.C19Z.prep_mirrors_gen', 'WV.C10Z.module_glue_gen', 'WV.C07W.dwt_zero_local', 'WV.C07W.wavedec_low_agree', 'WV.C07W.wavedec_low_cone', 'WV.C07W.wavedec_band_first', 'WV.C07W.wavedec_band_agree', 'WV.C07X.band_zero_local', 'WV.C07X.dwt2_zero_local', 'WV.C07X.low_zero_agree', 'WV.C07X.wavedec2_low_agree']
KF_PER = 'C01-periodization-short'


def corr_cases(ck, n):
    rng = ck.rng
    Lmax = 12 if ck.tier == 'quick' else 20
    Nmax = 24 if ck.tier == 'quick' else 48
    for it in range(n):
        L = rng.randint(2, Lmax)
        m = rng.choice(gen.MODES5)
        w0 = gen.int_filter(rng, L); w1 = gen.int_filter(rng, L)
        nb, c = rng.choice([(1, 1), (1, 1), (2, 1), (1, 2), (2, 3)])
        N = gen.pick_len(rng, L, Nmax)
        kind = it % 6
        tag = {'mode': gen.MODE_NAME[m], 'L': L, 'N': N}
        if kind == 0:      # whole operator of afb1d: all unit impulses at once as batch items
            ax = rng.choice([2, 3])
            eye = np.eye(N).reshape(N, 1, N, 1) if ax == 2 else np.eye(N).reshape(N, 1, 1, N)
            yield rt.Case('Z', 'afb1d', [ax, m], [w0, w1, eye], dict(tag, what='operator'))
        elif kind == 1:
            ax = rng.choice([2, 3]); other = rng.randint(1, 3)
            shape = (nb, c, N, other) if ax == 2 else (nb, c, other, N)
            yield rt.Case('Z', 'afb1d', [ax, m], [w0, w1, gen.int_tensor(rng, shape)], tag)
        elif kind == 2:
            yield rt.Case('Z', 'AFB1D_fwd', [m], [w0, w1, gen.int_tensor(rng, (nb, c, N))], tag)
        elif kind == 3:
            J = rng.randint(1, 3 if ck.tier == 'quick' else 5)
            yield rt.Case('Z', 'DWT1DForward', [m, J], [w0, w1, gen.int_tensor(rng, (nb, c, N))], dict(tag, J=J))
        else:
            L2 = rng.randint(2, 8)
            r0 = gen.int_filter(rng, L2); r1 = gen.int_filter(rng, L2)
            H = gen.pick_len(rng, L, 16 if ck.tier == 'quick' else 32)
            W = gen.pick_len(rng, L2, 16 if ck.tier == 'quick' else 32)
            x = gen.int_tensor(rng, (nb, c, H, W))
            tag2 = dict(tag, L2=L2, H=H, W=W)
            if kind == 4:
                yield rt.Case('Z', 'AFB2D_fwd', [m], [r0, r1, w0, w1, x], tag2)
            else:
                J = rng.randint(1, 3)
                if rng.random() < 0.5:
                    yield rt.Case('Z', 'DWTForward', [m, J, 4], [w0, w1, r0, r1, x], dict(tag2, J=J))
                else:
                    yield rt.Case('Z', 'DWTForward', [m, J, 2], [w0, w1, x], dict(tag2, J=J))


def spec_cases(ck, n):
    """Lean spec <-> pywt, exact on even-length integer filter banks"""
    rng = ck.rng
    lines, exp = [], []
    for it in range(n):
        L = 2 * rng.randint(1, 6); m = rng.choice(gen.MODES5); J = rng.randint(1, 3)
        h0 = gen.int_filter(rng, L); h1 = gen.int_filter(rng, L)
        w = O.wavelet(h0, h1)
        if it % 2 == 0:
            x = gen.int_tensor(rng, (gen.pick_len(rng, L, 24),))
            try:
                yl, yh = O.wavedec(x, w, m, J)
            except Exception:
                continue
            lines.append(proto.to_line('Z', 'spec_wavedec', [m, J], [h0, h1, x])); exp.append([yl] + yh)
        else:
            L2 = 2 * rng.randint(1, 4)
            r0 = gen.int_filter(rng, L2); r1 = gen.int_filter(rng, L2)
            x = gen.int_tensor(rng, (gen.pick_len(rng, L, 14), gen.pick_len(rng, L2, 14)))
            try:
                yl, yh = O.wavedec2(x, w, O.wavelet(r0, r1), m, J)
            except Exception:
                continue
            lines.append(proto.to_line('Z', 'spec_wavedec2', [m, J], [h0, h1, r0, r1, x])); exp.append([yl] + yh)
    outs = proto.run_driver(lines)
    bad = []
    for ln, o, e in zip(lines, outs, exp):
        ok = o != 'raise' and same(e, o)[0]
        if not ok:
            bad.append(ln[:300])
    return len(lines), bad


# ---------------------------------------------------------------------------
# property oracle on the real code
# ---------------------------------------------------------------------------

def oracle_fwd(ck, dims, m, J, filt, x, tol=0.0, named=None):
    """real DWT1DForward / DWTForward vs pywt.wavedec / wavedec2.

    filt: (h0,h1) or (h0c,h1c,h0r,h1r) un-reversed analysis filters."""
    L = len(filt[0])
    try:
        if dims == 1:
            ref = O.wavedec(x, O.wavelet(filt[0], filt[1]), m, J)
        else:
            fr = filt[2:] if len(filt) == 4 else filt[:2]
            ref = O.wavedec2(x, O.wavelet(filt[0], filt[1]), O.wavelet(fr[0], fr[1]), m, J)
        ref = [ref[0]] + list(ref[1])
    except Exception:
        return None      # PyWavelets itself rejects the configuration: outside the property
    if dims == 1:
        case = rt.Case('Z', 'DWT1DForward', [m, J], [filt[0], filt[1], x])
        sizes, _ = level_sizes(x.shape[-1], L, m, J)
        short = per_short_fwd(sizes, L, m)
        may_raise = (m == 4 and reflect_may_raise(sizes, L))
    else:
        case = rt.Case('Z', 'DWTForward', [m, J, len(filt)], list(filt) + [x])
        Lr = len(filt[2]) if len(filt) == 4 else L
        sh, _ = level_sizes(x.shape[-2], L, m, J); sw, _ = level_sizes(x.shape[-1], Lr, m, J)
        short = per_short_fwd(sh, L, m) or per_short_fwd(sw, Lr, m)
        may_raise = (m == 4 and (reflect_may_raise(sh, L) or reflect_may_raise(sw, Lr)))
    from .. import impl_dwt
    with impl_dwt.named(named):
        got = rt.run_impl(case, IMPL)
    desc = '%dD forward mode=%s J=%d L=%d shape=%s %s' % (dims, gen.MODE_NAME[m], J, L, tuple(x.shape), named or 'integer filters')
    replay = {'oracle': 'fwd', 'dims': dims, 'm': m, 'J': J, 'filt': [arr_json(f) for f in filt], 'x': arr_json(x), 'tol': tol, 'named': named}
    if isinstance(got, tuple):
        if may_raise:
            ck.oracle_ok(('raise-allowed', dims, m), nontriv=False, group='reflect-raises')
            return None
        ck.fail(desc + ': raises %s: %s' % (got[1], got[2]), replay)
        return 'raise'
    ok, why = same(got, ref, tol)
    if ok:
        ck.oracle_ok((dims, m, J, L, tuple(x.shape), named), group='fwd%dd' % dims,
                     sample={'oracle': 'pywt.wavedec%s' % ('2' if dims == 2 else ''), 'mode': gen.MODE_NAME[m], 'J': J, 'L': L,
                             'shape': list(x.shape), 'wavelet': named or 'random integer bank', 'yl_head': [float(v) for v in np.ravel(got[0])[:4]]})
        return None
    kk = None
    if short and tol == 0.0 and model_agrees(case, IMPL):
        kk = KF_PER
    elif short and tol > 0.0:
        kk = KF_PER
    ck.fail(desc + ': ' + why, replay, known_key=kk)
    return 'diff'


def run_oracle(ck, n_int, n_named):
    rng = ck.rng
    import pywt
    # deterministic witness of the recorded finding (length-4 filters on a length-2 signal, periodization)
    rt.guard(ck, oracle_fwd, ck, 1, 2, 1, (np.array([1., 2., 3., 4.]), np.array([2., -1., 3., 1.])), np.array([[[1., 2.]]]))
    for it in range(n_int):
        L = 2 * rng.randint(1, 6 if ck.tier == 'quick' else 10)
        m = rng.choice(gen.MODES5); J = rng.randint(1, 3)
        h0 = gen.int_filter(rng, L); h1 = gen.int_filter(rng, L)
        nb, c = rng.choice([(1, 1), (2, 1), (1, 2)])
        if it % 2 == 0:
            x = gen.int_tensor(rng, (nb, c, gen.pick_len(rng, L, 30)))
            rt.guard(ck, oracle_fwd, ck, 1, m, J, (h0, h1), x)
        else:
            L2 = 2 * rng.randint(1, 4)
            x = gen.int_tensor(rng, (nb, c, gen.pick_len(rng, L, 18), gen.pick_len(rng, L2, 18)))
            if rng.random() < 0.5:
                rt.guard(ck, oracle_fwd, ck, 2, m, J, (h0, h1, gen.int_filter(rng, L2), gen.int_filter(rng, L2)), x)
            else:
                rt.guard(ck, oracle_fwd, ck, 2, m, J, (h0, h1), x)
    # the extremes of the filter range: the longest wavelets over a run of CONSECUTIVE signal lengths, 1-D and 2-D
    for name in ('db38', 'coif17'):
        w = pywt.Wavelet(name); L = w.dec_len
        for n in range(L, L + 40):
            x = gen.float_tensor(ck.nprng, (1, 1, n))
            rt.guard(ck, oracle_fwd, ck, 1, gen.MODES5[n % 5], 1, (np.array(w.dec_lo), np.array(w.dec_hi)), x, tol=1e-9, named=name)
        for (a, b) in [(L + 3, 40), (41, L + 6)]:
            rt.guard(ck, oracle_fwd, ck, 2, rng.choice(gen.MODES5), 1, (np.array(w.dec_lo), np.array(w.dec_hi)), gen.float_tensor(ck.nprng, (1, 1, a, b)), tol=1e-9, named=name)
    # sizes above every blocking / tiling threshold (gen.scale_shapes_*): every padding mode, one to three levels, wavelets of
    # several lengths and a per-axis pair of different lengths
    wl = ['db2', 'bior2.4', 'sym5', 'db7', 'db4', 'haar']
    for k, shp in enumerate(gen.scale_shapes_1d(ck.tier)):
        w = pywt.Wavelet(wl[k % len(wl)])
        for m in gen.MODES5:
            rt.guard(ck, oracle_fwd, ck, 1, m, 1 + (k + m) % 3, (np.array(w.dec_lo), np.array(w.dec_hi)), gen.float_tensor(ck.nprng, shp), tol=1e-9, named=w.name)
    for k, shp in enumerate(gen.scale_shapes_2d(ck.tier)):
        w = pywt.Wavelet(wl[k % len(wl)]); w2 = pywt.Wavelet(wl[(k + 3) % len(wl)])
        for m in gen.MODES5:
            filt = (np.array(w.dec_lo), np.array(w.dec_hi)) if (k + m) % 3 else (np.array(w.dec_lo), np.array(w.dec_hi), np.array(w2.dec_lo), np.array(w2.dec_hi))
            rt.guard(ck, oracle_fwd, ck, 2, m, 1 + (k + m) % 3, filt, gen.float_tensor(ck.nprng, shp), tol=1e-9, named=(w.name if (k + m) % 3 else None))
    names = named_wavelets(rng, n_named)
    for name in names:
        w = pywt.Wavelet(name)
        L = w.dec_len
        m = rng.choice(gen.MODES5); J = rng.randint(1, 3)
        dyn = rng.choice([1.0, 1e3, 1e-3])
        if rng.random() < 0.5:
            n = rng.choice([L + rng.randint(0, 9), 2 * L + 1, rng.randint(2, 40)])
            x = gen.float_tensor(ck.nprng, (1, 2, max(2, n)), dyn)
            rt.guard(ck, oracle_fwd, ck, 1, m, J, (np.array(w.dec_lo), np.array(w.dec_hi)), x, tol=1e-9, named=name)
        else:
            H = max(2, rng.choice([L + rng.randint(0, 5), rng.randint(2, 24)])); W = max(2, rng.randint(2, 24))
            x = gen.float_tensor(ck.nprng, (1, 1, H, W), dyn)
            rt.guard(ck, oracle_fwd, ck, 2, m, J, (np.array(w.dec_lo), np.array(w.dec_hi)), x, tol=1e-9, named=name)


def search_neighbourhood(ck, hints):
    """a proof or correspondence broke: look for an input on which the property itself fails"""
    rng = ck.rng
    tried = 0
    for (m, L, N) in hints[:12]:
        for L_ in sorted({max(2, L - (L % 2)), L + (L % 2)}):
            for N_ in range(max(2, N - 4), N + 5):
                for J in (1, 2):
                    h0 = gen.int_filter(rng, L_); h1 = gen.int_filter(rng, L_)
                    rt.guard(ck, oracle_fwd, ck, 1, m, J, (h0, h1), gen.int_tensor(rng, (1, 1, N_)))
                    rt.guard(ck, oracle_fwd, ck, 2, m, J, (h0, h1), gen.int_tensor(rng, (1, 1, N_, max(2, N_ - 1))))
                    tried += 2
    ck.notes.append('failing-input search around %d hint(s): %d extra oracle cases' % (len(hints), tried))


def hints_from(st):
    hs = []
    for c, d in st.mismatches:
        m = c.params[1] if c.op in ('afb1d', 'sfb1d', 'afb1d_atrous') else c.params[0]
        hs.append((m if m in gen.MODES5 else 0, int(c.tag.get('L', 4)), int(c.tag.get('N', c.tag.get('H', 8)))))
    return hs or [(m, 4, 6) for m in gen.MODES5]


def run(ck):
    rt.setup_torch()
    q = ck.tier == 'quick'
    ck.trusted = TRUSTED
    ck.extra['module'] = MODULE
    ck.extra['rule'] = ('correspondence: random asymmetric integer filters (L 2..12/20, both parities), sizes around the filter length, all five modes, '
                        'unit-impulse batches (whole operator) and generic integer data, batch/channel counts 1..3; oracle: the real modules vs pywt.wavedec/wavedec2 '
                        'exactly on even-length integer banks and to 1e-9 on named wavelets; a case is distinct by (op, params, shapes) and non-trivial when its output is not constant')
    if not getattr(ck, 'no_lean', False):
        ck.lean = rt.lean_check(PROP, MODULE, THEOREMS, regen=regen_all)
    st = rt.correspond('impl-model', corr_cases(ck, 360 if q else 3000), IMPL)
    ck.corr.append(st)
    n, bad = spec_cases(ck, 120 if q else 1200)
    ck.extra['spec_vs_pywt'] = {'evaluations': n, 'mismatches': len(bad)}
    if bad:
        raise RuntimeError('Lean specification disagrees with PyWavelets (machinery error, not a verdict): ' + bad[0])
    run_oracle(ck, 160 if q else 1500, 40 if q else 106)
    if (ck.lean is not None and not ck.lean.ok) or st.mismatches:
        if not ck.failures:
            search_neighbourhood(ck, hints_from(st))


def replay(ck, path):
    rt.setup_torch()
    d = load_replay(path)
    f = d.get('failure', {}).get('replay')
    if not f:
        print('replay file names no failing input: %s' % d.get('broken_obligations'))
        return 1
    r = oracle_fwd(ck, f['dims'], f['m'], f['J'], tuple(arr_from(a) for a in f['filt']), arr_from(f['x']), f['tol'], f['named'])
    for fl in ck.failures:
        print('REPLAY-FAILS: ' + fl['desc'])
    for k, (t, n) in ck.known_hits.items():
        print('REPLAY-KNOWN-FINDING: ' + t)
    if r is None and not ck.known_hits:
        print('REPLAY-PASSES')
    return 1 if ck.failures else 0
