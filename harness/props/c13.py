"""C13 — stationary WT: undecimated, shift-equivariant, equals pywt.swt2."""
import numpy as np
from .. import rt, gen, proto
from .. import oracle_pywt as O
from ..dwt_common import *
from ..impl_dwt import IMPL

PROP = 'C13'
MODULE = 'WaveletsVerif.Properties.C13'
THEOREMS = ['WV.C13.afb1dAtrousOne_periodic_eq_swt', 'WV.C13.swt_shift', 'WV.C13.afb2dAtrous_eq_level', 'WV.C13.SWTForward_eq_swt2',
            'WV.C13S.rowsMap_rot2', 'WV.C13S.colsMap_rot2', 'WV.C13S.swt2Level_rot2', 'WV.C13S.swt2_rot2', 'WV.C13S.SWTForward_shift', 'WV.C13M.afb2dAtrous_multi', 'WV.C13M.SWTForward_multi',
            'WV.C19Z.afb1dAtrousOne_gen', 'WV.C10Z.module_glue_gen', 'WV.C10Z.swt_dilation_gen', 'WV.C10Z.forward_keeps_no_state_gen', 'WV.C07W.swt_local']
OPS = ['afb1d_atrous', 'afb2d_atrous', 'SWTForward']


def oracle_swt(ck, m, J, filt, x, tol=0.0, named=None):
    wc = O.wavelet(filt[0], filt[1]); wr = O.wavelet(*(filt[2:] if len(filt) == 4 else filt[:2]))
    try:
        ref = O.swt2(x, wc, wr, J)
    except Exception:
        return None
    case = rt.Case('Z', 'SWTForward', [m, J, len(filt)], list(filt) + [x])
    from .. import impl_dwt
    with impl_dwt.named(named):
        got = rt.run_impl(case, IMPL)
    desc = 'SWTForward mode=%s J=%d L=%d shape=%s %s' % (gen.MODE_NAME[m], J, len(filt[0]), tuple(x.shape), named or 'integer filters')
    replay = {'oracle': 'swt', 'm': m, 'J': J, 'filt': [arr_json(f) for f in filt], 'x': arr_json(x), 'tol': tol, 'named': named}
    if isinstance(got, tuple):
        ck.fail(desc + ': raises %s: %s' % (got[1], got[2]), replay)
        return 'raise'
    exp_shape = (x.shape[0], x.shape[1], 4, x.shape[2], x.shape[3])
    if len(got) != J or any(tuple(g.shape) != exp_shape for g in got):
        ck.fail(desc + ': output shapes %s, expected %d x %s' % ([tuple(g.shape) for g in got], J, exp_shape), replay)
        return 'shape'
    ok, why = same(got, ref, tol)
    if not ok:
        ck.fail(desc + ': differs from pywt.swt2: ' + why, replay)
        return 'diff'
    # shift equivariance on the real code
    s1 = ck.rng.randint(0, x.shape[2] - 1); s2 = ck.rng.randint(0, x.shape[3] - 1)
    xs = np.roll(x, (s1, s2), axis=(2, 3))
    got2 = rt.run_impl(rt.Case('Z', 'SWTForward', [m, J, len(filt)], list(filt) + [xs]), IMPL)
    if isinstance(got2, tuple) or not same(got2, [np.roll(g, (s1, s2), axis=(3, 4)) for g in got], tol)[0]:
        ck.fail(desc + ': not shift-equivariant for shift (%d,%d)' % (s1, s2), dict(replay, shift=[s1, s2]))
        return 'shift'
    ck.oracle_ok((m, J, len(filt[0]), tuple(x.shape), named, len(filt)), group='swt2',
                 sample={'oracle': 'pywt.swt2 + circular shift', 'mode': gen.MODE_NAME[m], 'J': J, 'L': len(filt[0]), 'shape': list(x.shape),
                         'wavelet': named or 'random integer bank', 'shift': [s1, s2]})
    return None


def oracle(ck, extended):
    rng = ck.rng
    import pywt
    q = ck.tier == 'quick'
    for it in range((60 if q else 600) * (3 if extended else 1)):
        L = 2 * rng.randint(1, 5 if q else 8); J = rng.randint(1, 2 if q else 4)
        m = rng.choice([2, 6])
        h0 = gen.int_filter(rng, L); h1 = gen.int_filter(rng, L)
        H = (2 ** J) * rng.randint(1, 4); W = (2 ** J) * rng.randint(1, 4)
        nb, c = rng.choice([(1, 1), (2, 1), (1, 3), (2, 2)])
        Lr = L if rng.random() < 0.4 else 2 * rng.randint(1, 5 if q else 8)      # per-axis wavelets of DIFFERENT lengths too
        filt = (h0, h1) if rng.random() < 0.4 else (h0, h1, gen.int_filter(rng, Lr), gen.int_filter(rng, Lr))
        rt.guard(ck, oracle_swt, ck, m, J, filt, gen.int_tensor(rng, (nb, c, H, W)))
    # covering cases: per-axis wavelets of different lengths by name (column wavelet, row wavelet), several levels
    for (nc, nr) in [('db2', 'db4'), ('db3', 'haar'), ('sym5', 'bior2.2')]:
        wc_, wr_ = pywt.Wavelet(nc), pywt.Wavelet(nr)
        rt.guard(ck, oracle_swt, ck, rng.choice([2, 6]), 2, (np.array(wc_.dec_lo), np.array(wc_.dec_hi), np.array(wr_.dec_lo), np.array(wr_.dec_hi)),
                 gen.float_tensor(ck.nprng, (1, 2, 16, 24)), tol=1e-9)
    # images above every blocking / tiling threshold (gen.scale_shapes_2d; sides rounded up to a multiple of 2^J as pywt.swt2
    # requires), several levels - the reach of the dilated filters grows with the level
    wl = ['db2', 'bior2.4', 'sym5', 'db7', 'db4', 'haar']
    for k, shp in enumerate(gen.scale_shapes_2d(ck.tier)):
        J = 1 + k % 3
        up = lambda n: ((n + 2 ** J - 1) // (2 ** J)) * (2 ** J)
        w = pywt.Wavelet(wl[k % len(wl)]); w2 = pywt.Wavelet(wl[(k + 3) % len(wl)])
        filt = (np.array(w.dec_lo), np.array(w.dec_hi)) if k % 2 else (np.array(w.dec_lo), np.array(w.dec_hi), np.array(w2.dec_lo), np.array(w2.dec_hi))
        rt.guard(ck, oracle_swt, ck, [2, 6][k % 2], J, filt, gen.float_tensor(ck.nprng, (shp[0], shp[1], up(shp[2]), up(shp[3]))), tol=1e-9)
    for name in named_wavelets(rng, 25 if q else 106):
        w = pywt.Wavelet(name); J = rng.randint(1, 2 if q else 3)
        H = (2 ** J) * rng.randint(1, 6); W = (2 ** J) * rng.randint(1, 6)
        rt.guard(ck, oracle_swt, ck, rng.choice([2, 6]), J, (np.array(w.dec_lo), np.array(w.dec_hi)), gen.float_tensor(ck.nprng, (1, 2, H, W)), tol=1e-9, named=name)


def spec_check(ck):
    rng = ck.rng
    lines, exp = [], []
    for it in range(60 if ck.tier == 'quick' else 600):
        L = 2 * rng.randint(1, 6); J = rng.randint(1, 3)
        h0 = gen.int_filter(rng, L); h1 = gen.int_filter(rng, L); r0 = gen.int_filter(rng, L); r1 = gen.int_filter(rng, L)
        x = gen.int_tensor(rng, ((2 ** J) * rng.randint(1, 3), (2 ** J) * rng.randint(1, 3)))
        try:
            ref = O.swt2(x, O.wavelet(h0, h1), O.wavelet(r0, r1), J)
        except Exception:
            continue
        lines.append(proto.to_line('Z', 'spec_swt2', [J], [h0, h1, r0, r1, x])); exp.append(ref)
    outs = proto.run_driver(lines)
    bad = [ln[:300] for ln, o, e in zip(lines, outs, exp) if o == 'raise' or not same(e, o)[0]]
    ck.extra['spec_vs_pywt'] = {'evaluations': len(lines), 'mismatches': len(bad)}
    if bad:
        raise RuntimeError('Lean specification disagrees with PyWavelets (machinery error, not a verdict): ' + bad[0])


def run(ck):
    std_run(ck, PROP, MODULE, THEOREMS, OPS, 240, 2400, oracle,
            rule='correspondence: afb1d_atrous (4 modes, dilations 1,2,4), afb2d_atrous, SWTForward (default and periodic mode, 2- and 4-tuple waves, C up to 3) on integer data; oracle: SWTForward vs '
                 'pywt.swt2 exactly on integer banks and to 1e-9 on named wavelets, output rank (N,C,4,H,W), circular-shift equivariance on the real code; distinct by (mode, J, L, shape, wavelet)')
    spec_check(ck)


def replay(ck, path):
    rt.setup_torch()
    d = load_replay(path)
    f = d.get('failure', {}).get('replay')
    if not f:
        print('replay file names no failing input: %s' % d.get('broken_obligations'))
        return 1
    oracle_swt(ck, f['m'], f['J'], tuple(arr_from(a) for a in f['filt']), arr_from(f['x']), f['tol'], f['named'])
    for fl in ck.failures:
        print('REPLAY-FAILS: ' + fl['desc'])
    if not ck.failures:
        print('REPLAY-PASSES')
    return 1 if ck.failures else 0
