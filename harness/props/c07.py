"""C07 — transforms are linear and act per (batch, channel) slice."""
import numpy as np
from .. import rt, gen, proto
from ..dwt_common import dwt_cases, TRUSTED as TR1, same, arr_json, arr_from, load_replay, pyramid_shapes_1d
from ..dtcwt_common import dtcwt_cases, dt_filters, pyramid_shapes, canon_to_layout, LAYOUTS
from ..impl_dwt import IMPL as I1
from ..impl_dtcwt import IMPL as I2
from .c10 import make_pyramid

PROP = 'C07'
MODULE = 'WaveletsVerif.Properties.C07'
THEOREMS = ['WV.C07.corr_linear', 'WV.C07.padIdx_linear', 'WV.C07.afb1dOne_symmetric_linear', 'WV.C07.afb1dT_per_channel', 'WV.C07.afb1dT_total', 'WV.C01.DWT1DForward_multi', 'WV.C07.afb1dOne_linear', 'WV.C07.afb1dOne_guardedLin', 'WV.C07.Lin.comp',
            'WV.C07D.lin_gather', 'WV.C07D.sfb1dCh_linear', 'WV.C07D.afb1dAtrousOne_linear', 'WV.C07D.colfilter1_linear', 'WV.C07D.coldfilt1_linear', 'WV.C07D.colifilt1_linear',
            'WV.C07M.sfb1dT_total', 'WV.C07M.AFB2D_forward_channels', 'WV.C07M.AFB2D_backward_channels', 'WV.C07M.AFB2D_forward_zero_channels', 'WV.C07M.SFB2D_forward_channels', 'WV.C01M.DWTForward_multi', 'WV.C13M.SWTForward_multi', 'WV.C10M.DWTInverse_multi_eq_waverec2',
            'WV.C07L.alongW_lin', 'WV.C07L.alongH_lin', 'WV.C07L.afb1dOne_some_pos', 'WV.C07L.AFB2D_forward_rep', 'WV.C07L.DWTForward_rep',
            'WV.C07L.DWTForward_linear', 'WV.C07L.DWTForward_raises_by_shape', 'WV.C07L.DWTForward_slice',
            'WV.C07S.genT_total', 'WV.C07S.genT_none', 'WV.C07S.gen2d_rep', 'WV.C07S.afb1dAtrousOne_some_pos', 'WV.C07S.SWTForward_rep',
            'WV.C07S.SWTForward_linear', 'WV.C07S.SWTForward_raises_by_shape', 'WV.C07S.SWTForward_slice',
            'WV.C07I.lin2_idwt', 'WV.C07I.idwt2_linear', 'WV.C07I.stepS2_linear', 'WV.C07I.waverec2_linear', 'WV.C07I.DWTInverse_linear', 'WV.C07I.DWTInverse_per_linear', 'WV.C07V.sfb1dCh_shape', 'WV.C07V.DWT1DInverse_linear', 'WV.C07V.AFB1D_forward_single_eq', 'WV.C07V.DWT1DForward_linear',
            'WV.C07T.lin_spec_colfilter', 'WV.C07T.lin_spec_coldfilt', 'WV.C07T.extendEven_lin', 'WV.C07T.extendMult4_lin', 'WV.C07T.q2c_lin',
            'WV.C07T.refLevel1_lin', 'WV.C07T.refLevel2_lin', 'WV.C07T.refLoop_lin', 'WV.C07T.refForward_linear', 'WV.C07T.DTCWTForward_linear',
            'WV.C07U.lin_spec_colifilt', 'WV.C07U.c2q_lin', 'WV.C07U.iadd_lin', 'WV.C07U.cropToHighs_lin', 'WV.C07U.refInvLevel1_lin', 'WV.C07U.refInvLevel2_lin',
            'WV.C07U.refInvGo_lin', 'WV.C07U.refInverse_linear', 'WV.C07U.DTCWTInverse_linear', 'WV.C10Z.module_glue_gen', 'WV.C10Z.forward_keeps_no_state_gen', 'WV.C07W.dwt_zero_local', 'WV.C07W.wavedec_low_agree', 'WV.C07W.wavedec_low_cone', 'WV.C07W.wavedec_band_first', 'WV.C07W.wavedec_band_agree', 'WV.C07X.band_zero_local', 'WV.C07X.dwt2_zero_local', 'WV.C07X.low_zero_agree', 'WV.C07X.wavedec2_low_agree', 'WV.C07W.idwt_zero_local']
TABLE = dict(I1); TABLE.update(I2)


def lin(outs_list, coefs):
    """sum_k coefs[k] * outs_list[k] elementwise over a list of outputs (None stays None)"""
    res = []
    for parts in zip(*outs_list):
        if parts[0] is None:
            res.append(None)
        else:
            res.append(sum(c * p for c, p in zip(coefs, parts)))
    return res


def make_transform(ck, kind, force_sym=None, cover=None):
    """returns (name, input shapes, call(list of arrays)->outputs, tol[, layout])"""
    rng = ck.rng
    L = rng.randint(2, 8); m = rng.choice(gen.MODES5)
    w0 = gen.int_filter(rng, L); w1 = gen.int_filter(rng, L)
    nb, c = rng.choice([(1, 2), (2, 1), (2, 2), (2, 3), (3, 2), (1, 33), (2, 17)]) if rng.random() < 0.8 else rng.choice([(1, 33), (1, 40), (2, 17)])
    J = rng.randint(1, 3)
    thin = None
    if cover is not None:            # deterministic covering configurations: several batch items, several channels, several levels
        nb, c, J = cover[:3]
        if len(cover) > 3:           # ... and degenerate extents: an axis of one or two samples, or one that collapses to 1 at a coarse level
            thin, m = cover[3], cover[4]
            L = cover[5] if len(cover) > 5 else rng.choice([2, 4]); w0 = gen.int_filter(rng, L); w1 = gen.int_filter(rng, L)
    if kind == 'DWT1DForward':
        N = max(2, L + rng.randint(0, 12)) if thin is None else thin[1]
        return ('DWT1DForward mode=%s J=%d L=%d' % (gen.MODE_NAME[m], J, L), [(nb, c, N)],
                lambda xs: rt.run_impl(rt.Case('Z', 'DWT1DForward', [m, J], [w0, w1, xs[0]]), TABLE), 0.0)
    if kind == 'DWT1DInverse':
        N = max(2, L + rng.randint(0, 12)) if thin is None else thin[1]
        yl, yh = make_pyramid(rng, 1, nb, c, N, L, L, m, J, p_none=0.0)
        return ('DWT1DInverse mode=%s J=%d L=%d' % (gen.MODE_NAME[m], J, L), [yl.shape] + [h.shape for h in yh],
                lambda xs: rt.run_impl(rt.Case('Z', 'DWT1DInverse', [m], [w0, w1] + list(xs)), TABLE), 0.0)
    if kind == 'DWTForward':
        H = max(2, L + rng.randint(0, 8)); W = max(2, L + rng.randint(0, 8))
        if thin is not None:
            H, W = thin
        return ('DWTForward mode=%s J=%d L=%d' % (gen.MODE_NAME[m], J, L), [(nb, c, H, W)],
                lambda xs: rt.run_impl(rt.Case('Z', 'DWTForward', [m, J, 2], [w0, w1, xs[0]]), TABLE), 0.0)
    if kind == 'DWTInverse':
        H = max(2, L + rng.randint(0, 8)); W = max(2, L + rng.randint(0, 8))
        if thin is not None:
            H, W = thin
        yl, yh = make_pyramid(rng, 2, nb, c, (H, W), L, L, m, J, p_none=0.0)
        return ('DWTInverse mode=%s J=%d L=%d' % (gen.MODE_NAME[m], J, L), [yl.shape] + [h.shape for h in yh],
                lambda xs: rt.run_impl(rt.Case('Z', 'DWTInverse', [m, 2], [w0, w1] + list(xs)), TABLE), 0.0)
    if kind == 'SWTForward':
        Js = rng.randint(1, 2) if cover is None else min(J, 2)
        swsh = (4 * rng.randint(1, 3), 4 * rng.randint(1, 3)) if thin is None else (4 * ((thin[0] + 3) // 4), 4 * ((thin[1] + 3) // 4))
        return ('SWTForward J=%d L=%d' % (Js, L), [(nb, c) + swsh],
                lambda xs: rt.run_impl(rt.Case('Z', 'SWTForward', [2, Js, 2], [w0, w1, xs[0]]), TABLE), 0.0)
    filt = dt_filters(rng)
    o, ri = (2, -1) if rng.random() < 0.6 else rng.choice(LAYOUTS)
    sym = rng.choice([1, 1, 0]) if force_sym is None else force_sym         # 'symmetric' and 'zero' padding
    if kind == 'DTCWTForward':
        H = rng.randint(2, 14); W = rng.randint(2, 14)
        if thin is not None:
            H, W = thin
        skm = rng.choice([0, 0, rng.randint(0, 2 ** J - 1)])
        return ('DTCWTForward J=%d layout=(%d,%d) skip=%s mode=%s' % (J, o, ri, bin(skm), 'symmetric' if sym else 'zero'), [(nb, c, H, W)],
                lambda xs: rt.run_impl(rt.Case('Q', 'DTCWTForward', [o, ri, sym, J, skm, 0], filt + [xs[0]]), TABLE), 1e-9, (o, ri))
    H = rng.randint(2, 14); W = rng.randint(2, 14)
    if thin is not None:
        H, W = thin
    (lh, lw), hsz = pyramid_shapes(H, W, J)
    shapes = [(nb, c, lh, lw)] + [canon_to_layout(np.zeros((nb, c, 6, a, b, 2)), o, ri).shape for a, b in hsz]
    return ('DTCWTInverse J=%d layout=(%d,%d) mode=%s' % (J, o, ri, 'symmetric' if sym else 'zero'), shapes,
            lambda xs: rt.run_impl(rt.Case('Q', 'DTCWTInverse', [o, ri, sym, 0], filt + list(xs)), TABLE), 1e-9, (o, ri))


KINDS = ['DWT1DForward', 'DWT1DInverse', 'DWTForward', 'DWTInverse', 'SWTForward', 'DTCWTForward', 'DTCWTInverse']


def nc_axes(t, lay):
    """positions of the batch and channel axes of tensor t (6-D band-pass tensors follow the layout)"""
    if lay is None or np.ndim(t) != 6:
        return 0, 1
    o, ri = lay[0] % 6, lay[1] % 6
    labels = ['N', 'C', 'H', 'W']
    labels.insert(o - 1 if ri < o else o, 'O'); labels.insert(ri, 'R')
    return labels.index('N'), labels.index('C')


def take(t, n0, c0, lay):
    if t is None:
        return None
    an, ac = nc_axes(t, lay)
    idx = [slice(None)] * np.ndim(t)
    idx[an] = slice(n0, n0 + 1); idx[ac] = slice(c0, c0 + 1)
    return t[tuple(idx)]


def put(z, x, n0, c0, lay):
    an, ac = nc_axes(z, lay)
    idx = [slice(None)] * np.ndim(z)
    idx[an] = n0; idx[ac] = c0
    z[tuple(idx)] = x[tuple(idx)]


def shape_first_item(t, lay, how):
    """batch item 0 made 'grey' (every channel a copy of channel 0), identically zero or constant; the other items untouched"""
    if t is None or how is None:
        return t
    an, ac = nc_axes(t, lay)
    t = np.array(t, copy=True)
    tt = np.moveaxis(t, (an, ac), (0, 1))
    if how == 'grey':
        tt[0, :] = tt[0, 0:1]
    elif how == 'zero':
        tt[0] = 0
    elif how == 'const':
        tt[0] = 3
    return t


def oracle_linear(ck, kind, force_sym=None, zero_k=None, cover=None, absent_low=False, first_item=None):
    rng = ck.rng
    mt = make_transform(ck, kind, force_sym, cover)
    name, shapes, call, tol = mt[:4]
    lay = mt[4] if len(mt) > 4 else None
    xs = [gen.int_tensor(rng, s, 5) for s in shapes]
    ys = [gen.int_tensor(rng, s, 5) for s in shapes]
    if zero_k is not None and zero_k < len(xs):
        xs[zero_k] = np.zeros_like(xs[zero_k])
    elif len(xs) > 1 and rng.random() < 0.4:
        # one argument of x is present but identically zero (a thresholded band): still an ordinary linear input
        k = rng.randrange(len(xs)); xs[k] = np.zeros_like(xs[k])
    if first_item is not None:       # value-dependent structure in ONE batch item must not leak into the others
        xs = [shape_first_item(x, lay, first_item) for x in xs]; ys = [shape_first_item(y, lay, first_item) for y in ys]
        name += ' item0=' + first_item
    if absent_low:                   # the documented "no low-pass" call of the inverse DTCWT: linear in the band-pass levels alone
        xs[0] = None; ys[0] = None
        name += ' low-pass absent'
    a, b = rng.randint(-4, 4), rng.randint(-4, 4)
    replay = {'oracle': 'linear', 'kind': kind, 'note': 'configuration drawn from the check PRNG: re-run with the same VERIF_SEED'}
    tx, ty = call(xs), call(ys)
    if isinstance(tx, tuple) or isinstance(ty, tuple):
        ck.oracle_ok(('raises', kind), nontriv=False, group='raises')
        return None
    tz = call([None if x is None else a * x + b * y for x, y in zip(xs, ys)])
    t0 = call([None if x is None else np.zeros_like(x) for x in xs])
    if isinstance(tz, tuple) or isinstance(t0, tuple):
        ck.fail(name + ': raises on a linear combination / on zero of inputs it accepts', replay); return 'raise'
    ok, why = same(tz, lin([tx, ty], [a, b]), tol)
    if not ok:
        ck.fail(name + ': T(%d x + %d y) != %d T(x) + %d T(y): %s' % (a, b, a, b, why), replay); return 'diff'
    if any(o is not None and np.any(o != 0) for o in t0):
        ck.fail(name + ': T(0) != 0', replay); return 'diff'
    # per-slice: every (n, c) slice alone gives the same slice of the output; other slices do not matter
    nb, c = shapes[0][0], shapes[0][1]
    n0, c0 = (rng.randrange(nb), rng.randrange(c)) if cover is None else (nb - 1, c - 1)
    alone = call([take(x, n0, c0, lay) for x in xs])
    if isinstance(alone, tuple):
        ck.fail(name + ': raises on a single (batch, channel) slice', replay); return 'raise'
    want = [take(o, n0, c0, lay) for o in tx]
    ok, why = same(alone, want, tol)
    if not ok:
        ck.fail(name + ': slice (%d,%d) of the batched output differs from transforming the slice alone: %s' % (n0, c0, why), replay); return 'diff'
    zs = [None if x is None else gen.int_tensor(rng, s, 5) for s, x in zip(shapes, xs)]
    for z, x in zip(zs, xs):
        if x is not None:
            put(z, x, n0, c0, lay)
    tz2 = call(zs)
    ok, why = same([take(o, n0, c0, lay) for o in tz2], want, tol)
    if not ok:
        ck.fail(name + ': output slice (%d,%d) depends on other slices: %s' % (n0, c0, why), replay); return 'diff'
    if nb * c > 1:
        # non-finite samples in the OTHER slices (a NaN / inf in one image of a batch) must stay in their slices
        zs = [None if x is None else np.full(s, np.nan if k % 2 == 0 else np.inf) for k, (s, x) in enumerate(zip(shapes, xs))]
        for z, x in zip(zs, xs):
            if x is not None:
                put(z, x, n0, c0, lay)
        tz3 = call(zs)
        if isinstance(tz3, tuple):
            ck.fail(name + ': raises when other (batch, channel) slices hold NaN / inf', replay); return 'raise'
        ok, why = same([take(o, n0, c0, lay) for o in tz3], want, tol)
        if not ok:
            ck.fail(name + ': output slice (%d,%d) is polluted by NaN / inf samples of OTHER slices: %s' % (n0, c0, why), replay); return 'diff'
    ck.oracle_ok((name, tuple(shapes[0])), group=kind, sample={'transform': name, 'input_shapes': [list(s) for s in shapes], 'a': a, 'b': b, 'slice': [n0, c0]})
    return None


def run(ck):
    from ..translate import regen_all
    rt.setup_torch()
    q = ck.tier == 'quick'
    ck.trusted = TR1
    ck.extra['module'] = MODULE
    ck.extra['rule'] = ('correspondence with batch and channel counts > 1 over the grouped-convolution ops of both families; oracle on the real code, exact on integers (DTCWT to 1e-9): '
                        'T(ax+by) = aT(x)+bT(y), T(0)=0, a slice transformed alone equals the slice of the batched result, randomising the other slices changes nothing; all seven transforms, '
                        'all modes, layouts and skip masks; distinct by (transform configuration, shape)')
    if not getattr(ck, 'no_lean', False):
        ck.lean = rt.lean_check(PROP, MODULE, THEOREMS, regen=regen_all)
    st = rt.correspond('impl-model(dwt)', dwt_cases(ck, 150 if q else 1500, ['afb1d', 'sfb1d', 'afb1d_atrous', 'AFB2D_fwd', 'SFB2D_fwd', 'DWTForward']), TABLE)
    st2 = rt.correspond('impl-model(dtcwt)', dtcwt_cases(ck, 140 if q else 1400, ['coldfilt', 'rowdfilt', 'colifilt', 'rowifilt', 'colfilter', 'DTCWTForward', 'DTCWTInverse']), TABLE)
    ck.corr += [st, st2]
    # covering configurations first (independent of the seed): every transform with several batch items, several channels and
    # several levels, the last slice looked at; the inverse DTCWT also without a low-pass
    for kind in KINDS:
        for cov in ((2, 3, 2), (1, 2, 3)):
            rt.guard(ck, oracle_linear, ck, kind, None, None, cov)
        # the first batch item grey / zero / constant, the LAST item and channel looked at
        for how in ('grey', 'zero', 'const'):
            rt.guard(ck, oracle_linear, ck, kind, None, None, (2, 3, 2), False, how)
    for cov in ((2, 3, 2), (1, 2, 1)):
        rt.guard(ck, oracle_linear, ck, 'DTCWTInverse', None, None, cov, True)
    # degenerate extents in every padding mode, with several channels: images of one row / one column / two rows, thin images whose
    # short side collapses to a single sample at a coarse level, signals of one to three samples
    for m_ in gen.MODES5:
        for (thin, J_) in (((1, 9), 1), ((9, 1), 1), ((2, 7), 2), ((4, 32), 4), ((1, 1), 1), ((3, 8), 5)):
            rt.guard(ck, oracle_linear, ck, 'DWTForward', None, None, (2, 3, J_, thin, m_))
            rt.guard(ck, oracle_linear, ck, 'DWT1DForward', None, None, (2, 3, J_, thin, m_))
    # sizes above every blocking / tiling / chunking threshold (gen.scale_shapes_2d): every transform with more than 64 channels
    # (not a multiple of 64), more than 64 slices with several batch items, tall and wide images; several levels
    for k, shp in enumerate(gen.scale_shapes_2d(ck.tier)):
        for kind in KINDS:
            if q and (k + KINDS.index(kind)) % 2 and shp[0] * shp[1] == 1:
                continue
            J_ = 2 + k % 2
            thin = (shp[2], shp[3]) if kind not in ('DWT1DForward', 'DWT1DInverse') else (1, max(shp[2], shp[3]))
            rt.guard(ck, oracle_linear, ck, kind, None, None, (shp[0], shp[1], J_, thin, gen.MODES5[k % 5], [4, 6, 10][k % 3]))
    for it in range(70 if q else 700):
        rt.guard(ck, oracle_linear, ck, KINDS[it % len(KINDS)])
    # present-but-zero arguments in both padding modes: every argument position of the inverse transforms in turn
    for rep in range(1 if q else 8):
        for zk in (0, 1, 2):
            for sm in (0, 1):
                rt.guard(ck, oracle_linear, ck, 'DTCWTInverse', sm, zk)
            rt.guard(ck, oracle_linear, ck, 'DWTInverse', None, zk)
            rt.guard(ck, oracle_linear, ck, 'DWT1DInverse', None, zk)
    if ((ck.lean is not None and not ck.lean.ok) or st.mismatches or st2.mismatches) and not ck.failures:
        for it in range(210):
            rt.guard(ck, oracle_linear, ck, KINDS[it % len(KINDS)])


def replay(ck, path):
    print('replay: C07 cases are drawn from the check PRNG; re-running the check with the recorded seed')
    d = load_replay(path)
    import os
    os.environ['VERIF_SEED'] = str(d.get('seed', 0))
    ck2 = rt.Check(PROP, d.get('tier', 'quick'))
    ck2.no_lean = True
    run(ck2)
    for fl in ck2.failures:
        print('REPLAY-FAILS: ' + fl['desc'])
    if not ck2.failures:
        print('REPLAY-PASSES')
    return 1 if ck2.failures else 0
