"""C14 — separate row and column filters act on the axis they are named for."""
import numpy as np
from .. import rt, gen, proto
from .. import oracle_pywt as O
from ..dwt_common import *
from ..impl_dwt import IMPL
from .c10 import make_pyramid

PROP = 'C14'
MODULE = 'WaveletsVerif.Properties.C14'
THEOREMS = ['WV.C14.DWTForwardM_level_axes', 'WV.C14.DWTForwardM_two_eq_four', 'WV.C14.DWTInverseM_two_eq_four', 'WV.C14.DWTInverseM_axes', 'WV.C01.DWTForward_eq_wavedec2', 'WV.C01M.DWTForward_multi', 'WV.C10Z.module_glue_gen']
OPS = ['DWTForward', 'DWTInverse', 'afb2d', 'sfb2d', 'AFB2D_fwd', 'SFB2D_fwd']


def oracle_axes(ck, m, J, col, row, x, tol=0.0, named=None):
    """col = (dec_lo, dec_hi, rec_lo, rec_hi) of the column (vertical) wavelet, row likewise"""
    wc = O.wavelet(*col); wr = O.wavelet(*row)
    desc = 'DWTForward/Inverse 4-tuple mode=%s J=%d Lcol=%d Lrow=%d shape=%s %s' % (gen.MODE_NAME[m], J, len(col[0]), len(row[0]), tuple(x.shape), named or 'integer filters')
    replay = {'oracle': 'axes', 'm': m, 'J': J, 'col': [arr_json(f) for f in col], 'row': [arr_json(f) for f in row], 'x': arr_json(x), 'tol': tol, 'named': named}
    try:
        yl, yh = O.wavedec2(x, wc, wr, m, J)
    except Exception:
        return None
    got = rt.run_impl(rt.Case('Z', 'DWTForward', [m, J, 4], [col[0], col[1], row[0], row[1], x]), IMPL)
    sh, _ = level_sizes(x.shape[-2], len(col[0]), m, J); sw, _ = level_sizes(x.shape[-1], len(row[0]), m, J)
    short = per_short_fwd(sh, len(col[0]), m) or per_short_fwd(sw, len(row[0]), m)
    if isinstance(got, tuple):
        if m == 4 and (reflect_may_raise(sh, len(col[0])) or reflect_may_raise(sw, len(row[0]))):
            return None
        ck.fail(desc + ': forward raises %s: %s' % (got[1], got[2]), replay)
        return 'raise'
    if short:
        return None          # the periodization-short defect is C01's finding, not an axis question
    ok, why = same(got, [yl] + yh, tol)
    if not ok:
        ck.fail(desc + ': forward differs from pywt with (column wavelet, row wavelet): ' + why, replay)
        return 'diff'
    # one level equals the functional afb2d with the same four (reversed, shaped) filters
    f = rt.run_impl(rt.Case('Z', 'afb2d', [m], [col[0][::-1].copy(), col[1][::-1].copy(), row[0][::-1].copy(), row[1][::-1].copy(), x]), IMPL)
    g1 = rt.run_impl(rt.Case('Z', 'DWTForward', [m, 1, 4], [col[0], col[1], row[0], row[1], x]), IMPL)
    if isinstance(f, tuple) or isinstance(g1, tuple):
        ck.fail(desc + ': functional afb2d / one-level module raises', replay)
        return 'raise'
    y = f[0]; s = y.shape
    y = y.reshape(s[0], -1, 4, s[-2], s[-1])
    if not same([g1[0], g1[1]], [y[:, :, 0], y[:, :, 1:]], tol)[0]:
        ck.fail(desc + ': one-level module differs from functional afb2d given the same four filters', replay)
        return 'diff'
    # synthesis on an arbitrary pyramid of the same shapes
    rng = ck.rng
    ylr = gen.int_tensor(rng, yl.shape) if tol == 0.0 else gen.float_tensor(ck.nprng, yl.shape)
    yhr = [gen.int_tensor(rng, h.shape) if tol == 0.0 else gen.float_tensor(ck.nprng, h.shape) for h in yh]
    ishort = per_short_inv([h.shape[-2] for h in yh], len(col[0]), m) or per_short_inv([h.shape[-1] for h in yh], len(row[0]), m)
    # a None level (where no un-padding is needed below it) must act like zeros, with the right filters per axis
    if J >= 1 and rng.random() < 0.5:
        k = J - 1 if (J == 1 or rng.random() < 0.5) else rng.randrange(J)
        if k == J - 1 or (synlen(m, yh[k + 1].shape[-2], len(col[0])) == yh[k].shape[-2] and synlen(m, yh[k + 1].shape[-1], len(row[0])) == yh[k].shape[-1]):
            yhr[k] = None
    try:
        ref = O.waverec2(ylr, yhr, wc, wr, m)
    except Exception:
        ref = None
    gi = rt.run_impl(rt.Case('Z', 'DWTInverse', [m, 4], [col[2], col[3], row[2], row[3], ylr] + yhr), IMPL)
    if ref is not None and not ishort:
        if isinstance(gi, tuple):
            ck.fail(desc + ': inverse raises %s: %s' % (gi[1], gi[2]), replay)
            return 'raise'
        ok, why = same(gi, [ref], tol)
        if not ok:
            ck.fail(desc + ': inverse differs from pywt with (column wavelet, row wavelet): ' + why, replay)
            return 'diff'
    # 2-tuple == same filters on both axes
    g2 = rt.run_impl(rt.Case('Z', 'DWTForward', [m, J, 2], [col[0], col[1], x]), IMPL)
    g4 = rt.run_impl(rt.Case('Z', 'DWTForward', [m, J, 4], [col[0], col[1], col[0], col[1], x]), IMPL)
    if isinstance(g2, tuple) != isinstance(g4, tuple) or (not isinstance(g2, tuple) and not same(g2, g4, 0.0)[0]):
        ck.fail(desc + ': 2-tuple wave differs from the 4-tuple repeating it', replay)
        return 'diff'
    ck.oracle_ok((m, J, len(col[0]), len(row[0]), tuple(x.shape), named), group='axes',
                 sample={'oracle': 'pywt.wavedec2/waverec2 with (wavelet_axis0, wavelet_axis1) + functional afb2d', 'mode': gen.MODE_NAME[m], 'J': J,
                         'Lcol': len(col[0]), 'Lrow': len(row[0]), 'shape': list(x.shape), 'wavelets': named or 'random integer banks'})
    return None


def oracle_reuse(ck, L, m, shapes):
    """covering case (independent of the seed): ONE DWTForward / DWTInverse instance built from a 4-tuple of distinct column
    and row filters of EQUAL length, called on inputs with different channel counts and sizes in turn; every result must
    be the per-axis PyWavelets transform of its own input"""
    import torch
    from pytorch_wavelets import DWTForward, DWTInverse
    rng = ck.rng
    col = tuple(gen.int_filter(rng, L) for _ in range(4)); row = tuple(gen.int_filter(rng, L) for _ in range(4))
    wc = O.wavelet(*col); wr = O.wavelet(*row)
    desc = 'one DWTForward/DWTInverse instance (4-tuple, L=%d both axes, mode=%s) called on %s in turn' % (L, gen.MODE_NAME[m], [tuple(s_) for s_ in shapes])
    replay = {'oracle': 'reuse', 'L': L, 'm': m, 'shapes': [list(s_) for s_ in shapes], 'note': 'filters are drawn from the check PRNG: re-run with the same VERIF_SEED'}
    fwd = DWTForward(J=2, wave=tuple(np.array(f, dtype=np.float64) for f in (col[0], col[1], row[0], row[1])), mode=gen.MODE_NAME[m])
    inv = DWTInverse(wave=tuple(np.array(f, dtype=np.float64) for f in (col[2], col[3], row[2], row[3])), mode=gen.MODE_NAME[m])
    for sh in shapes:
        x = gen.int_tensor(rng, sh)
        with torch.no_grad():
            yl, yh = fwd(torch.tensor(x, dtype=torch.float64))
        rl, rh = O.wavedec2(x, wc, wr, m, 2)
        ok, why = same([yl.numpy()] + [h.numpy() for h in yh], [rl] + rh, 0.0)
        if not ok:
            ck.fail(desc + ': forward on %s differs from pywt with (column wavelet, row wavelet): %s' % (tuple(sh), why), replay); return 'diff'
        pl = gen.int_tensor(rng, rl.shape); ph = [gen.int_tensor(rng, h.shape) for h in rh]
        with torch.no_grad():
            y = inv((torch.tensor(pl, dtype=torch.float64), [torch.tensor(h, dtype=torch.float64) for h in ph]))
        ok, why = same([y.numpy()], [O.waverec2(pl, ph, wc, wr, m)], 0.0)
        if not ok:
            ck.fail(desc + ': inverse on the pyramid of %s differs from pywt: %s' % (tuple(sh), why), replay); return 'diff'
    ck.oracle_ok(('reuse', L, m, tuple(map(tuple, shapes))), group='instance-reuse', sample={'what': desc})
    return None


def oracle(ck, extended):
    rng = ck.rng
    import pywt
    q = ck.tier == 'quick'
    for (L, m) in [(4, 0), (6, 1), (2, 6)]:
        rt.guard(ck, oracle_reuse, ck, L, m, [(1, 4, 12, 14), (1, 2, 12, 14), (2, 1, 9, 16), (1, 3, 12, 14)])
    for it in range((80 if q else 800) * (3 if extended else 1)):
        Lc = 2 * rng.randint(1, 5); Lr = 2 * rng.randint(1, 5)
        m = rng.choice(gen.MODES5); J = rng.randint(1, 3)
        col = tuple(gen.int_filter(rng, Lc) for _ in range(4)); row = tuple(gen.int_filter(rng, Lr) for _ in range(4))
        if it % 5 == 0:
            # the two axes SHARE some of their four filters (equal values, separate arrays) and differ in the others: a
            # distinct row wavelet is distinct even when its low-pass (or high-pass) equals the column one
            Lr = Lc
            share = rng.choice([(0, 2), (1, 3), (0,), (1,), (0, 1, 2)])
            row = tuple(col[k].copy() if k in share else gen.int_filter(rng, Lc) for k in range(4))
        x = gen.int_tensor(rng, (rng.randint(1, 2), rng.randint(1, 2), gen.pick_len(rng, Lc, 18), gen.pick_len(rng, Lr, 18)))
        rt.guard(ck, oracle_axes, ck, m, J, col, row, x)
    # images above every blocking / tiling threshold (gen.scale_shapes_2d): a long wavelet on one axis and a short one on the
    # other, both ways round, every mode
    for k, shp in enumerate(gen.scale_shapes_2d(ck.tier)):
        for m in gen.MODES5:
            a, b = [('db5', 'db1'), ('db1', 'db5'), ('bior2.4', 'db2'), ('db2', 'sym6')][(k + m) % 4]
            wa, wb = pywt.Wavelet(a), pywt.Wavelet(b)
            rt.guard(ck, oracle_axes, ck, m, 1 + (k + m) % 2, tuple(np.array(v) for v in wa.filter_bank), tuple(np.array(v) for v in wb.filter_bank),
                     gen.float_tensor(ck.nprng, shp), tol=1e-9, named='%s x %s' % (a, b))
    names = ['db1', 'db2', 'db3', 'sym4', 'coif1', 'bior1.3', 'bior2.2', 'bior3.1', 'rbio2.4', 'db5', 'bior4.4', 'dmey'] if not q else ['db1', 'db2', 'db3', 'sym4', 'bior1.3', 'bior2.2']
    pairs = [(a, b) for a in names for b in names if a != b]
    for a, b in (rng.sample(pairs, 12) if q else pairs):
        wa, wb = pywt.Wavelet(a), pywt.Wavelet(b)
        col = tuple(np.array(v) for v in wa.filter_bank); row = tuple(np.array(v) for v in wb.filter_bank)
        x = gen.float_tensor(ck.nprng, (1, 1, rng.randint(max(4, wa.dec_len), max(4, wa.dec_len) + 26), rng.randint(max(4, wb.dec_len), max(4, wb.dec_len) + 26)))
        rt.guard(ck, oracle_axes, ck, rng.choice(gen.MODES5), rng.randint(1, 2), col, row, x, tol=1e-9, named='%s x %s' % (a, b))


def run(ck):
    std_run(ck, PROP, MODULE, THEOREMS, OPS, 300, 2400, oracle,
            rule='correspondence: DWTForward/DWTInverse with 2- and 4-tuple waves whose column and row filters have different lengths, afb2d/sfb2d, AFB2D/SFB2D; oracle: module output vs pywt.wavedec2/'
                 'waverec2 called with (column wavelet, row wavelet), vs the functional afb2d with the same four filters, and 2-tuple vs repeated 4-tuple; integer banks exactly, ordered pairs of '
                 'distinct named wavelets to 1e-9; distinct by (mode, J, Lcol, Lrow, shape, wavelets)')


def replay(ck, path):
    rt.setup_torch()
    d = load_replay(path)
    f = d.get('failure', {}).get('replay')
    if not f:
        print('replay file names no failing input: %s' % d.get('broken_obligations'))
        return 1
    if f.get('oracle') == 'reuse':
        import os
        print('replay: instance-reuse case, filters drawn from the check PRNG: re-running the covering cases with the recorded seed')
        os.environ['VERIF_SEED'] = str(d.get('seed', 0))
        ck2 = rt.Check(PROP, d.get('tier', 'quick'))
        for (L, m) in [(4, 0), (6, 1), (2, 6)]:
            rt.guard(ck2, oracle_reuse, ck2, L, m, [(1, 4, 12, 14), (1, 2, 12, 14), (2, 1, 9, 16), (1, 3, 12, 14)])
        for fl in ck2.failures:
            print('REPLAY-FAILS: ' + fl['desc'])
        if not ck2.failures:
            print('REPLAY-PASSES')
        return 1 if ck2.failures else 0
    oracle_axes(ck, f['m'], f['J'], tuple(arr_from(a) for a in f['col']), tuple(arr_from(a) for a in f['row']), arr_from(f['x']), f['tol'], f['named'])
    for fl in ck.failures:
        print('REPLAY-FAILS: ' + fl['desc'])
    if not ck.failures:
        print('REPLAY-PASSES')
    return 1 if ck.failures else 0
