"""C09 — scattering layers back-propagate the true gradient, finite everywhere."""
import numpy as np
import torch
from .. import rt, gen, proto
from ..dtcwt_common import TRUSTED, same, arr_json, arr_from, load_replay
from ..impl_scat import IMPL
from ..impl_dwt import T, N as NP
from .c08 import FAMS

PROP = 'C09'
MODULE = 'WaveletsVerif.Properties.C09'
THEOREMS = ['WV.C09.hasDerivAt_smoothmag', 'WV.C09.smoothmag_deriv_at_zero', 'WV.C09.r_ge_bias', 'WV.C09.ratio_le_one', 'WV.C09.ratio_le_one_im',
            'WV.C09P.pool_up_adjoint', 'WV.C09P.scat1_backward_adjoint',
            'WV.C09Q.block1_adjoint', 'WV.C09Q.block2_adjoint', 'WV.C09Q.scat2_backward_adjoint', 'WV.C10Z.scat_glue_gen', 'WV.C10Z.forward_keeps_no_state_gen']


def dirderiv(f, x, v, eps):
    """central difference of t -> f(x + t v) (f returns a scalar tensor)"""
    with torch.no_grad():
        return float((f(x + eps * v) - f(x - eps * v)) / (2 * eps))


def oracle_layer_grad(ck, order, biort, qshift, b, colour, x, zero_input=False, mode='symmetric', force=None):
    from pytorch_wavelets import ScatLayer, ScatLayerj2
    desc = 'gradient of ScatLayer%s biort=%s mode=%s magbias=%g colour=%s shape=%s%s' % ('j2' if order == 2 else '', biort, mode, b, bool(colour), tuple(x.shape), ' (all-zero input)' if zero_input else '')
    replay = {'oracle': 'layer_grad', 'order': order, 'biort': biort, 'qshift': qshift, 'b': b, 'colour': colour, 'x': arr_json(x), 'zero': zero_input, 'mode': mode, 'force': force}
    if force:
        desc += ' [layer state adopted: %s]' % force
    from ..impl_scat import scat_module
    mod = scat_module(1, x, force, biort=biort, mode=mode, magbias=b, combine_colour=bool(colour)) if order == 1 else \
        scat_module(2, x, force, biort=biort, qshift=qshift, magbias=b, combine_colour=bool(colour))
    xt = T(x).requires_grad_(True)
    C = x.shape[1]
    n_low = C if order == 1 else None            # order 1: the first C channels are the pooled low-passes S0
    worst = 0.0
    variants = ['dense cotangent'] + ([ck.rng.choice(['cotangent on the S0 channels only', 'cotangent on the magnitude channels only'])] if n_low else ['cotangent on one channel only'])
    for variant in variants:
        try:
            z = mod(xt)
            g = T(ck.nprng.standard_normal(tuple(z.shape)))
            if variant == 'cotangent on the S0 channels only':
                g[:, n_low:] = 0
            elif variant == 'cotangent on the magnitude channels only':
                g[:, :n_low] = 0
            elif variant == 'cotangent on one channel only':
                k = ck.rng.randrange(z.shape[1]); keep = g[:, k].clone(); g.zero_(); g[:, k] = keep
            # several pull-backs through ONE recorded graph (Jacobian rows, two losses, gradcheck): each of them is J^T g
            (gx,) = torch.autograd.grad([z], xt, [g], retain_graph=True)
            g_b = T(ck.nprng.standard_normal(tuple(z.shape)))
            (gx_b,) = torch.autograd.grad([z], xt, [g_b], retain_graph=True)
            (gx_again,) = torch.autograd.grad([z], xt, [g])
            sc_ = max(1.0, float(gx.abs().max()))
            if not float((gx_again - gx).abs().max()) <= 1e-10 * sc_:
                ck.fail(desc + ' [%s]: the third pull-back through one retained graph differs from the first with the same cotangent by %.3g' % (variant, float((gx_again - gx).abs().max())), replay); return 'diff'
            with torch.enable_grad():
                z_f = mod(xt)
            (gx_b_fresh,) = torch.autograd.grad([z_f], xt, [g_b])
            if not float((gx_b - gx_b_fresh).abs().max()) <= 1e-10 * max(1.0, float(gx_b_fresh.abs().max())):
                ck.fail(desc + ' [%s]: the second pull-back through one retained graph differs from the same pull-back through a fresh graph by %.3g' % (variant, float((gx_b - gx_b_fresh).abs().max())), replay); return 'diff'
        except Exception as e:
            ck.fail(desc + ' [%s]: raises %s: %s' % (variant, type(e).__name__, str(e)[:100]), replay); return 'raise'
        if not torch.isfinite(gx).all():
            ck.fail(desc + ' [%s]: gradient is not finite' % variant, replay); return 'nonfinite'
        if zero_input:
            continue
        f = lambda u: (mod(u) * g).sum()
        for _ in range(3 if variant == 'dense cotangent' else 2):
            v = T(ck.nprng.standard_normal(tuple(x.shape)))
            fd = dirderiv(f, xt.detach(), v, 1e-6)
            an = float((gx * v).sum())
            err = abs(fd - an) / max(1.0, abs(fd), abs(an))
            worst = max(worst, err)
            if err > 2e-5:
                ck.fail(desc + ' [%s]: directional derivative %.10g (central difference) vs %.10g (back-propagation)' % (variant, fd, an), replay); return 'diff'
    if zero_input:
        ck.oracle_ok(('zero', order, biort, b, colour, tuple(x.shape)), group='finite-at-zero', sample={'what': desc, 'max_abs_grad': float(gx.abs().max())})
        return None
    ck.oracle_ok((order, biort, b, colour, tuple(x.shape)), group='order%d' % order, sample={'what': desc, 'cotangents': variants, 'rel_err': worst})
    return None


def oracle_smoothmag(ck, mask, zero=False):
    from pytorch_wavelets.scatternet.lowlevel import SmoothMagFn
    b = float(ck.rng.choice([1e-2, 0.3, 1.0]))
    shape = (2, 3, 4)
    x = T(np.zeros(shape) if zero else ck.nprng.standard_normal(shape)).requires_grad_(bool(mask & 1))
    y = T(np.zeros(shape) if zero else ck.nprng.standard_normal(shape)).requires_grad_(bool(mask & 2))
    desc = 'SmoothMagFn requires_grad=(%s,%s) b=%g%s' % (bool(mask & 1), bool(mask & 2), b, ' at zero' if zero else '')
    replay = {'oracle': 'smoothmag', 'mask': mask, 'zero': zero}
    try:
        r = SmoothMagFn.apply(x, y, torch.tensor(b))
        g = T(ck.nprng.standard_normal(shape))
        need = [t for t in (x, y) if t.requires_grad]
        gs = torch.autograd.grad([r], need, [g], allow_unused=True)
    except Exception as e:
        ck.fail(desc + ': raises %s: %s' % (type(e).__name__, str(e)[:100]), replay); return 'raise'
    rr = torch.sqrt(x.detach() ** 2 + y.detach() ** 2 + b * b)
    it = iter(gs)
    for t, num in ((x, x.detach()), (y, y.detach())):
        if not t.requires_grad:
            continue
        gi = next(it)
        want = g * num / rr
        if gi is None or not torch.isfinite(gi).all() or float((gi - want).abs().max()) > 1e-12:
            ck.fail(desc + ': gradient differs from g * t / sqrt(x^2+y^2+b^2)', replay); return 'diff'
    ck.oracle_ok(('smoothmag', mask, zero), group='smoothmag', sample={'what': desc})
    return None


def oracle_f32_grad(ck, order, biort, qshift, b, x, what):
    """single precision (the default dtype of the library): the gradient of a float32 layer is finite and is the gradient of
    the same layer in double precision up to float32 rounding - every positive bias, also tiny ones, on the all-zero image and on
    images with an identically zero background (band-pass coefficients exactly 0)"""
    from pytorch_wavelets import ScatLayer, ScatLayerj2
    desc = 'float32 gradient of ScatLayer%s biort=%s magbias=%g shape=%s (%s)' % ('j2' if order == 2 else '', biort, b, tuple(x.shape), what)
    replay = {'oracle': 'f32_grad', 'order': order, 'biort': biort, 'qshift': qshift, 'b': b, 'x': arr_json(x), 'what': what}
    old = torch.get_default_dtype()
    try:
        torch.set_default_dtype(torch.float32)
        try:
            mod32 = ScatLayer(biort=biort, magbias=b) if order == 1 else ScatLayerj2(biort=biort, qshift=qshift, magbias=b)
        finally:
            torch.set_default_dtype(old)
        mod64 = (ScatLayer(biort=biort, magbias=b) if order == 1 else ScatLayerj2(biort=biort, qshift=qshift, magbias=b)).double()
        x32 = torch.tensor(x, dtype=torch.float32).requires_grad_(True); x64 = torch.tensor(x, dtype=torch.float64).requires_grad_(True)
        z32 = mod32(x32); z64 = mod64(x64)
        g = ck.nprng.standard_normal(tuple(z64.shape))
        (g32,) = torch.autograd.grad([z32], x32, [torch.tensor(g, dtype=torch.float32)])
        (g64,) = torch.autograd.grad([z64], x64, [torch.tensor(g, dtype=torch.float64)])
    except Exception as e:
        ck.fail(desc + ': raises %s: %s' % (type(e).__name__, str(e)[:100]), replay); return 'raise'
    if not torch.isfinite(g32).all():
        ck.fail(desc + ': the float32 gradient is not finite (%d non-finite entries; the float64 gradient is finite: %s)' % (int((~torch.isfinite(g32)).sum()), bool(torch.isfinite(g64).all())), replay)
        return 'nonfinite'
    err = float((g32.double() - g64).abs().max()); sc_ = max(1.0, float(g64.abs().max()))
    if err > 2e-4 * sc_:
        ck.fail(desc + ': float32 gradient differs from the float64 gradient by %.3g (scale %.3g)' % (err, sc_), replay); return 'diff'
    ck.oracle_ok(('f32', order, biort, b, what), group='float32-gradient', sample={'what': desc, 'err': err})
    return None


def corr_cases(ck, n):
    rng = ck.rng; npr = ck.nprng
    for it in range(n):
        nb = rng.randint(1, 2); c = rng.randint(1, 2)
        sym = rng.choice([1, 1, 0]); rot = rng.choice([0, 0, 1])
        Lo = rng.choice([3, 5, 7, 13]); L1 = rng.choice([3, 5, 7, 19])
        h0 = gen.int_filter(rng, Lo) / 4; h1 = gen.int_filter(rng, L1) / 4; h2 = gen.int_filter(rng, L1) / 4
        He = 2 * rng.randint(1, 6); We = 2 * rng.randint(1, 6)
        xe = npr.standard_normal((nb, c, He, We)) * rng.choice([1.0, 1.0, 0.0])
        dz = npr.standard_normal((nb, 7 * c, He // 2, We // 2))
        bb = np.array([rng.choice([1e-2, 1.0])])
        yield rt.Case('F', 'ScatJ1_bwd', [sym, rot], [h0, h1] + ([h2] if rot else []) + [bb, xe, dz], {'rot': rot})
        if it % 3 == 0:
            # the second-order layer's hand-written backward pass (sides multiples of 8: the module then adds no extension)
            m = 2 * rng.randint(1, 5)
            qf = [gen.int_filter(rng, m) / 4 for _ in range(6)]
            H8 = 8 * rng.randint(1, 2); W8 = 8 * rng.randint(1, 2)
            c2 = rng.randint(1, 2)
            x8 = npr.standard_normal((nb, c2, H8, W8)) * rng.choice([1.0, 1.0, 0.0])
            dz8 = npr.standard_normal((nb, 49 * c2, H8 // 4, W8 // 4))
            f = [h0, h1] + ([h2] if rot else []) + qf[:4] + (qf[4:] if rot else [])
            yield rt.Case('F', 'ScatJ2_bwd', [rot], f + [bb, x8, dz8], {'rot': rot, 'order': 2})


def oracle(ck, extended):
    rng = ck.rng; npr = ck.nprng
    q = ck.tier == 'quick'
    for mask in (1, 2, 3):
        rt.guard(ck, oracle_smoothmag, ck, mask); oracle_smoothmag(ck, mask, zero=True)
    # covering cases: a layer that took over its state from an instance of the other 10-tap q-shift family / from a
    # deferred (meta-device) construction, through load_state_dict
    for (order, qs_, force) in [(2, 'qshift_a', 'alt'), (2, 'qshift_06', 'alt'), (1, 'qshift_a', 'deferred'), (2, 'qshift_a', 'deferred')]:
        rt.guard(ck, oracle_layer_grad, ck, order, 'near_sym_a', qs_, 0.1, 0, npr.standard_normal((1, 2, 8, 8)), False, 'symmetric', force)
    # every family in BOTH padding modes of the first-order layer (options that each work alone must work together)
    for (biort_, qshift_) in FAMS:
        for mode_ in ('zero', 'symmetric'):
            rt.guard(ck, oracle_layer_grad, ck, 1, biort_, qshift_, 0.1, 0, npr.standard_normal((1, 1, 12, 10)), False, mode_)
    # single precision, the whole range of positive biases, inputs whose band-pass coefficients are exactly zero
    blob = np.zeros((1, 1, 16, 16)); blob[0, 0, 6:9, 5:8] = npr.standard_normal((3, 3))
    for kb, b_ in enumerate([1e-2, 1e-3, 1e-4, 2e-4, 5e-5, 1e-5, 0.1, 1.0] if not q else [1e-2, 1e-4, 5e-5, 1e-5, 0.1]):
        biort_, qshift_ = FAMS[kb % len(FAMS)]
        for order_ in (1, 2):
            rt.guard(ck, oracle_f32_grad, ck, order_, biort_, qshift_, b_, np.zeros((1, 1, 16, 16)), 'all-zero image')
            rt.guard(ck, oracle_f32_grad, ck, order_, biort_, qshift_, b_, blob, 'zero background')
        rt.guard(ck, oracle_f32_grad, ck, 1 + kb % 2, biort_, qshift_, b_, npr.standard_normal((1, 2, 16, 8)), 'random image')
    n = (12 if q else 100) * (2 if extended else 1)
    for it in range(n):
        biort, qshift = rng.choice(FAMS)
        b = rng.choice([1e-2, 0.1, 1.0]); colour = rng.choice([0, 0, 1]); C = 3 if colour else rng.randint(1, 2)
        order = 1 + it % 2
        H = rng.randint(3, 12); W = rng.randint(3, 12)
        if order == 2:
            H = rng.choice([8, 16, 5, 11]); W = rng.choice([8, 16, 6])
        x = npr.standard_normal((1, C, H, W))
        # the first-order layer also accepts mode='zero' (the second-order one only implements 'symmetric')
        rt.guard(ck, oracle_layer_grad, ck, order, biort, qshift, b, colour, x, False, 'zero' if (order == 1 and rng.random() < 0.4) else 'symmetric')
        if it % 3 == 0:
            rt.guard(ck, oracle_layer_grad, ck, order, biort, qshift, b, colour, np.zeros_like(x), zero_input=True)


def run(ck):
    from ..translate import regen_all
    rt.setup_torch()
    q = ck.tier == 'quick'
    ck.trusted = TRUSTED + ['the multivariate chain rule (composition of the linear DTCWT/pooling maps with the point-wise smoothed modulus) is standard mathematics assumed, not re-proved',
                            'Float-tier correspondence of the backward pass (1e-9); central differences in float64 as gradient oracle (2e-5 relative)']
    ck.extra['module'] = MODULE
    ck.extra['rule'] = ('correspondence (Float tier): autograd through ScatLayerj1(_rot) vs the Lean model of its backward pass (saved re/r, im/r factors, 1/4 nearest upsample, inv_j1); oracle on the real '
                        'code: directional derivatives by central differences vs back-propagation for both layers, five filter families incl. band-pass, colour on/off, three biases; finiteness at the '
                        'all-zero image; SmoothMagFn for all three requires_grad subsets; distinct by (layer, family, bias, colour, shape)')
    if not getattr(ck, 'no_lean', False):
        ck.lean = rt.lean_check(PROP, MODULE, THEOREMS, regen=regen_all)
    st = rt.correspond('impl-model(float, backward)', corr_cases(ck, 60 if q else 600), IMPL)
    ck.corr.append(st)
    oracle(ck, False)
    if ((ck.lean is not None and not ck.lean.ok) or st.mismatches) and not ck.failures:
        oracle(ck, True)


def replay(ck, path):
    rt.setup_torch()
    d = load_replay(path)
    f = d.get('failure', {}).get('replay')
    if not f:
        print('replay file names no failing input: %s' % d.get('broken_obligations'))
        return 1
    if f['oracle'] == 'layer_grad':
        oracle_layer_grad(ck, f['order'], f['biort'], f['qshift'], f['b'], f['colour'], arr_from(f['x']), f['zero'], f.get('mode', 'symmetric'), f.get('force'))
    else:
        oracle_smoothmag(ck, f['mask'], f['zero'])
    for fl in ck.failures:
        print('REPLAY-FAILS: ' + fl['desc'])
    if not ck.failures:
        print('REPLAY-PASSES')
    return 1 if ck.failures else 0
