"""C17 — orthogonal wavelets with periodization give an orthogonal transform."""
import numpy as np
import torch
from .. import rt, gen, proto
from ..dwt_common import *
from ..impl_dwt import IMPL, T
from .c05 import modules, flat

PROP = 'C17'
MODULE = 'WaveletsVerif.Properties.C17'
THEOREMS = ['WV.C17.per_refines_circular', 'WV.C17.per_synthesis_is_transpose', 'WV.C17.isometry', 'WV.C17.impl_isometry', 'WV.C17.impl_transpose', 'WV.C02.pr_periodization_even', 'WV.C17.isometry_two_tap', 'WV.C05.corr_convT_adjoint', 'WV.C01.afb1dOne_per_eq_dwt_partial_all', 'WV.C10.sfb1dCh_per_eq_idwt_partial',
            'WV.C17J.wavedec_isometry', 'WV.C17J.DWT1DForward_per_eq_wavedec', 'WV.C17J.DWT1D_isometry',
            'WV.C17K.iso_W', 'WV.C17K.iso_H', 'WV.C17K.AFB2D_isometry', 'WV.C17K.DWT2D_isometry',
            'WV.C17T.foldCrop2_id', 'WV.C17T.AFB2D_backward_eq_map', 'WV.C17T.SFB2D_forward_per_val', 'WV.C17T.backprop_eq_inverse',
            'WV.C17T.inverse_is_transpose', 'WV.C17T.DWT2D_inverse_is_transpose',
            'WV.C17U.lvls_of_levelsOK', 'WV.C17U.backprop_eq_inverse1', 'WV.C17U.DWT1D_inverse_is_transpose', 'WV.C17V.forward_shapes', 'WV.C17V.DWT1D_preserves_inner', 'WV.C17W.forward_shapes2', 'WV.C17W.DWT2D_preserves_inner', 'WV.C05U.DWT1D_per_adjoint', 'WV.C10Z.module_glue_gen']
OPS = ['afb1d', 'sfb1d', 'AFB1D_bwd', 'DWT1DForward', 'DWT1DInverse', 'DWTForward']


def matrix_fwd(fwd, shape):
    n = int(np.prod(shape)); cols = []
    with torch.no_grad():
        for k in range(n):
            e = torch.zeros(n); e[k] = 1
            yl, yh = fwd(e.reshape(1, 1, *shape))
            cols.append(flat([yl] + list(yh)))
    return torch.stack(cols, dim=1)        # n_out x n_in


def oracle_orth(ck, dims, J, name, shape):
    import pywt
    if isinstance(name, (tuple, list)):          # 2-D with a different orthogonal wavelet per axis (4-tuple waves)
        wc, wr = pywt.Wavelet(name[0]), pywt.Wavelet(name[1]); name = list(name)
        fwd, _ = modules(2, 2, J, tuple(np.array(v) for v in (wc.dec_lo, wc.dec_hi, wr.dec_lo, wr.dec_hi)))
        _, inv = modules(2, 2, J, tuple(np.array(v) for v in (wc.rec_lo, wc.rec_hi, wr.rec_lo, wr.rec_hi)))
    else:
        w = pywt.Wavelet(name); L = w.dec_len
        fwd, _ = modules(dims, 2, J, (np.array(w.dec_lo), np.array(w.dec_hi)))
        _, inv = modules(dims, 2, J, (np.array(w.rec_lo), np.array(w.rec_hi)))
    desc = '%dD orthogonality %s periodization J=%d shape=%s' % (dims, name, J, tuple(shape))
    replay = {'oracle': 'orth', 'dims': dims, 'J': J, 'name': name, 'shape': list(shape)}
    A = matrix_fwd(fwd, shape)
    n = A.shape[1]
    tol = 1e-9
    if A.shape[0] != n:
        ck.fail(desc + ': operator is %dx%d, not square' % tuple(A.shape), replay); return 'shape'
    e1 = float((A.T @ A - torch.eye(n)).abs().max())
    if e1 > tol:
        ck.fail(desc + ': |A^T A - I| = %.3g' % e1, replay); return 'diff'
    x = T(gen.float_tensor(ck.nprng, (2, 2) + tuple(shape))).requires_grad_(True)
    yl, yh = fwd(x)
    en = float(sum((t ** 2).sum() for t in [yl] + list(yh))); ex = float((x ** 2).sum())
    if abs(en - ex) > tol * max(1.0, ex):
        ck.fail(desc + ': energy %.12g vs %.12g' % (en, ex), replay); return 'energy'
    # inverse == transpose: applying the inverse to a cotangent equals back-propagating it
    cots = [T(gen.float_tensor(ck.nprng, tuple(t.shape))) for t in [yl] + list(yh)]
    (g,) = torch.autograd.grad([yl] + list(yh), x, cots)
    with torch.no_grad():
        s = inv((cots[0], cots[1:]))
    if tuple(s.shape) != tuple(g.shape):
        ck.fail(desc + ': inverse(g) has shape %s, backprop(g) has shape %s' % (tuple(s.shape), tuple(g.shape)), replay); return 'shape'
    e2 = float((g - s).abs().max())
    if e2 > tol * max(1.0, float(s.abs().max())):
        ck.fail(desc + ': |backprop(g) - inverse(g)| = %.3g' % e2, replay); return 'transpose'
    # ... and BOTH equal the transpose of the extracted operator (S - A^T, autograd Jacobian - A^T): two wrong things that agree
    # with each other (an analysis that uses another orthonormal pair than the synthesis and the backward pass) pass every test above
    x1 = T(gen.float_tensor(ck.nprng, (1, 1) + tuple(shape))).requires_grad_(True)
    yl1, yh1 = fwd(x1)
    c1 = [T(gen.float_tensor(ck.nprng, tuple(t.shape))) for t in [yl1] + list(yh1)]
    want = (A.T @ flat(c1).reshape(-1)).reshape(x1.shape)
    (g1,) = torch.autograd.grad([yl1] + list(yh1), x1, c1)
    with torch.no_grad():
        s1 = inv((c1[0], c1[1:]))
    sc = max(1.0, float(want.abs().max()))
    e3 = float((g1 - want).abs().max()); e4 = float((s1 - want).abs().max()) if tuple(s1.shape) == tuple(want.shape) else float('inf')
    if e3 > tol * sc:
        ck.fail(desc + ': |backprop(g) - A^T g| = %.3g (A extracted from unit impulses)' % e3, replay); return 'jacobian'
    if e4 > tol * sc:
        ck.fail(desc + ': |inverse(g) - A^T g| = %.3g (A extracted from unit impulses)' % e4, replay); return 'transpose'
    ck.oracle_ok((dims, J, str(name), tuple(shape)), group='orth%dd' % dims,
                 sample={'wavelet': name, 'J': J, 'shape': list(shape), 'AtA_minus_I': e1, 'energy_defect': abs(en - ex), 'backprop_minus_inverse': e2,
                         'backprop_minus_At': e3, 'inverse_minus_At': e4})
    return None


def oracle_transpose_exact(ck, J, L, N):
    """for ANY filter pair: synthesis with the time-reversed filters is the transpose of analysis
    (periodization, every level even and >= L) - exact on integers"""
    rng = ck.rng
    h0 = gen.int_filter(rng, L); h1 = gen.int_filter(rng, L)
    fwd, _ = modules(1, 2, J, (h0, h1))
    _, inv = modules(1, 2, J, (h0[::-1].copy(), h1[::-1].copy()))
    A = matrix_fwd(fwd, (N,))
    hs, nl = pyramid_shapes_1d(N, L, 2, J)
    with torch.no_grad():
        cols = []
        for k in range(N):
            e = torch.zeros(N); e[k] = 1
            parts = [e[:nl]]; o = nl
            for hl in hs[::-1]:
                parts.append(e[o:o + hl]); o += hl
            # flat order used by matrix_fwd: yl, yh[0] (finest) ... ; rebuild accordingly
            cols.append(None)
        # simpler: compare <A x, c> == <x, S c> on unit impulses c
        S = []
        sizes = [nl] + hs
        tot = sum(sizes)
        for k in range(tot):
            c = torch.zeros(tot); c[k] = 1
            parts = []; o = 0
            for sz in sizes:
                parts.append(c[o:o + sz].reshape(1, 1, sz)); o += sz
            S.append(inv((parts[0], parts[1:])).reshape(-1))
        S = torch.stack(S, dim=1)          # N x tot
    desc = '1D synthesis(reversed filters) == analysis^T, periodization J=%d L=%d N=%d integer filters' % (J, L, N)
    replay = {'oracle': 'transpose', 'J': J, 'L': L, 'N': N, 'h0': arr_json(h0), 'h1': arr_json(h1)}
    if S.shape != A.T.shape or not torch.equal(S, A.T):
        ck.fail(desc, replay); return 'diff'
    ck.oracle_ok(('transpose', J, L, N), group='transpose-exact', sample={'what': desc})
    return None


ORTH = None


def orth_names():
    global ORTH
    if ORTH is None:
        import pywt
        ORTH = [n for f in ('haar', 'db', 'sym', 'coif') for n in pywt.wavelist(f)]
    return ORTH


def oracle_functional(ck, name, dim, shape):
    """the functional entry points afb1d / sfb1d with the taps given as PLAIN LISTS (pywt's dec_lo/dec_hi, rec_lo/rec_hi; the
    functions prepare float32 kernels themselves): analysis equals pywt.dwt, synthesis inverts it and is its transpose"""
    import torch, pywt
    from pytorch_wavelets.dwt import lowlevel as ll
    w = pywt.Wavelet(name)
    desc = 'lowlevel.afb1d / sfb1d with list taps, wavelet %s, periodization, dim=%d, shape=%s' % (name, dim, tuple(shape))
    replay = {'oracle': 'functional', 'name': name, 'dim': dim, 'shape': list(shape)}
    g = np.random.default_rng(len(name) * 1000 + dim * 10 + shape[dim])
    x = torch.tensor(g.standard_normal(shape), dtype=torch.float32)
    try:
        lohi = ll.afb1d(x, list(w.dec_lo), list(w.dec_hi), mode='periodization', dim=dim)
        lo = lohi[:, ::2].contiguous(); hi = lohi[:, 1::2].contiguous()
        y = ll.sfb1d(lo, hi, list(w.rec_lo), list(w.rec_hi), mode='periodization', dim=dim)
        gg = torch.tensor(g.standard_normal(tuple(lo.shape)), dtype=torch.float32); gh = torch.tensor(g.standard_normal(tuple(hi.shape)), dtype=torch.float32)
        s = ll.sfb1d(gg, gh, list(w.rec_lo), list(w.rec_hi), mode='periodization', dim=dim)
    except Exception as e:
        ck.fail(desc + ': raises %s: %s' % (type(e).__name__, str(e)[:120]), replay); return 'raise'
    ref = pywt.dwt(x.numpy().astype(np.float64), w, mode='periodization', axis=dim)
    tol = 2e-5
    if float(np.abs(lo.numpy() - ref[0]).max()) > tol or float(np.abs(hi.numpy() - ref[1]).max()) > tol:
        ck.fail(desc + ': analysis differs from pywt.dwt', replay); return 'diff'
    if tuple(y.shape) != tuple(x.shape) or float((y - x).abs().max()) > tol:
        ck.fail(desc + ': sfb1d(afb1d(x)) != x (max error %.3g)' % (float((y - x).abs().max()) if tuple(y.shape) == tuple(x.shape) else float('nan')), replay); return 'diff'
    lhs = float((s.double() * x.double()).sum()); rhs = float((gg.double() * lo.double()).sum() + (gh.double() * hi.double()).sum())
    if abs(lhs - rhs) > 1e-4 * max(1.0, abs(lhs)):
        ck.fail(desc + ': synthesis is not the transpose of analysis: <S g, x> = %.6g, <g, A x> = %.6g' % (lhs, rhs), replay); return 'diff'
    ck.oracle_ok(('functional', name, dim, tuple(shape)), group='functional-list-taps', sample={'what': desc})
    return None


def oracle_long(ck, name, J, N):
    """very long signals (no operator matrix): critically sampled, energy preserved, inverse(g) == backprop(g), == PyWavelets"""
    import pywt
    w = pywt.Wavelet(name)
    fwd, _ = modules(1, 2, J, (np.array(w.dec_lo), np.array(w.dec_hi)))
    _, inv = modules(1, 2, J, (np.array(w.rec_lo), np.array(w.rec_hi)))
    desc = '1D orthogonality %s periodization J=%d long signal N=%d' % (name, J, N)
    replay = {'oracle': 'long', 'name': name, 'J': J, 'N': N}
    xn = gen.float_tensor(ck.nprng, (1, 2, N))
    x = T(xn).requires_grad_(True)
    yl, yh = fwd(x)
    outs = [yl] + list(yh)
    if sum(int(t.shape[-1]) for t in outs) != N:
        ck.fail(desc + ': %d coefficients per channel for %d samples (not a change of basis)' % (sum(int(t.shape[-1]) for t in outs), N), replay); return 'shape'
    en = float(sum((t ** 2).sum() for t in outs)); ex = float((x ** 2).sum())
    if abs(en - ex) > 1e-9 * max(1.0, ex):
        ck.fail(desc + ': energy %.12g vs %.12g' % (en, ex), replay); return 'energy'
    ref = pywt.wavedec(xn, w, mode='periodization', level=J, axis=-1)
    if float(np.abs(ref[0] - yl.detach().numpy()).max()) > 1e-9 * max(1.0, float(np.abs(ref[0]).max())):
        ck.fail(desc + ': low-pass differs from pywt.wavedec', replay); return 'pywt'
    cots = [T(gen.float_tensor(ck.nprng, tuple(t.shape))) for t in outs]
    (g,) = torch.autograd.grad(outs, x, cots)
    with torch.no_grad():
        s_ = inv((cots[0], cots[1:]))
    if tuple(s_.shape) != tuple(g.shape) or float((g - s_).abs().max()) > 1e-9 * max(1.0, float(s_.abs().max())):
        ck.fail(desc + ': inverse(g) (shape %s) differs from backprop(g) (shape %s)' % (tuple(s_.shape), tuple(g.shape)), replay); return 'transpose'
    ck.oracle_ok(('long', name, J, N), group='orth1d', sample={'wavelet': name, 'J': J, 'N': N, 'energy_defect': abs(en - ex)})
    return None


def oracle_bulk(ck, name, J, shape, dtype):
    """2-D inputs at the bulk end of the size range (many slices / large images, tens of MiB; no operator matrix): critically
    sampled, energy preserved, inverse(g) == backprop(g), == PyWavelets on the first and the last slice"""
    import pywt
    from pytorch_wavelets import DWTForward, DWTInverse
    w = pywt.Wavelet(name)
    desc = '2D orthogonality %s periodization J=%d bulk input shape=%s %s' % (name, J, tuple(shape), str(dtype).split('.')[-1])
    replay = {'oracle': 'bulk', 'name': name, 'J': J, 'shape': list(shape), 'dtype': str(dtype)}
    old = torch.get_default_dtype()
    try:
        torch.set_default_dtype(dtype)
        fwd = DWTForward(J=J, wave=name, mode='periodization'); inv = DWTInverse(wave=name, mode='periodization')
    finally:
        torch.set_default_dtype(old)
    tol = 1e-9 if dtype == torch.float64 else 2e-4
    g_ = torch.Generator().manual_seed(int(np.prod(shape)) % 100003)
    x = torch.randn(*shape, generator=g_, dtype=dtype).requires_grad_(True)
    try:
        yl, yh = fwd(x)
        outs = [yl] + list(yh)
        n_out = sum(int(np.prod(t.shape[-2:])) * (t.shape[2] if t.dim() == 5 else 1) for t in outs)
        if n_out != shape[-2] * shape[-1]:
            ck.fail(desc + ': %d coefficients per slice for %d pixels (not a change of basis; level-1 bands %s)' % (n_out, shape[-2] * shape[-1], tuple(yh[0].shape)), replay); return 'shape'
        en = float(sum((t.double() ** 2).sum() for t in outs)); ex = float((x.double() ** 2).sum())
        if abs(en - ex) > tol * max(1.0, ex):
            ck.fail(desc + ': energy %.10g vs %.10g' % (en, ex), replay); return 'energy'
        for (n0, c0) in [(0, 0), (shape[0] - 1, shape[1] - 1)]:
            ref = pywt.wavedec2(x.detach()[n0, c0].double().numpy(), w, mode='periodization', level=J)
            if float(np.abs(ref[0] - yl.detach()[n0, c0].double().numpy()).max()) > tol * max(1.0, float(np.abs(ref[0]).max())):
                ck.fail(desc + ': low-pass of slice (%d,%d) differs from pywt.wavedec2' % (n0, c0), replay); return 'pywt'
        cots = [torch.randn(*t.shape, generator=g_, dtype=dtype) for t in outs]
        (g,) = torch.autograd.grad(outs, x, cots)
        with torch.no_grad():
            s_ = inv((cots[0], cots[1:]))
        if tuple(s_.shape) != tuple(g.shape) or float((g - s_).abs().max()) > tol * max(1.0, float(s_.abs().max())):
            ck.fail(desc + ': inverse(g) (shape %s) differs from backprop(g) (shape %s)' % (tuple(s_.shape), tuple(g.shape)), replay); return 'transpose'
    except Exception as e:
        ck.fail(desc + ': raises %s: %s' % (type(e).__name__, str(e)[:120]), replay); return 'raise'
    ck.oracle_ok(('bulk', name, J, tuple(shape), str(dtype)), group='orth2d-bulk', sample={'what': desc, 'energy_defect': abs(en - ex)})
    return None


def oracle(ck, extended):
    rng = ck.rng
    import pywt
    q = ck.tier == 'quick'
    # the bulk end of the size range: tens of MiB in one call (many slices of small images; one large image)
    for (name_, J_, shp_, dt_) in [('db5', 1, (64, 65, 32, 32), torch.float32), ('db3', 2, (2, 3, 520, 516), torch.float64)] + \
            ([] if q else [('sym4', 1, (64, 128, 32, 32), torch.float32), ('coif1', 1, (32, 256, 32, 64), torch.float32), ('db2', 3, (1, 1, 2048, 2048), torch.float32)]):
        rt.guard(ck, oracle_bulk, ck, name_, J_, shp_, dt_)
    # the long end of the size range (audio-length signals, not powers of two)
    for (name_, J_, N_) in [('db2', 2, 100000), ('haar', 1, 98304)] + ([] if q else [('sym4', 3, 163840), ('db3', 1, 65538), ('coif1', 2, 262148)]):
        rt.guard(ck, oracle_long, ck, name_, J_, N_)
    for name_ in ['haar', 'db3', 'sym4', 'coif2']:
        rt.guard(ck, oracle_functional, ck, name_, 3, (2, 3, 1, 16))
        rt.guard(ck, oracle_functional, ck, name_, 2, (1, 2, 18, 1))
    names = orth_names()
    for name in (rng.sample(names, 14) if q else names):
        L = pywt.Wavelet(name).dec_len
        J = rng.randint(1, 3)
        base = (L + 1) // 2 * 2          # even, >= L
        mult = rng.randint(0, 3)
        N = (base + 2 * mult) * 2 ** (J - 1)
        if N > (160 if q else 400):
            J = 1; N = base + 2 * mult
        rt.guard(ck, oracle_orth, ck, 1, J, name, (N,))
        if L <= 8:
            J2 = rng.randint(1, 2)
            rt.guard(ck, oracle_orth, ck, 2, J2, name, (base * 2 ** (J2 - 1), (base + 2) * 2 ** (J2 - 1)))
    short = [n for n in names if pywt.Wavelet(n).dec_len <= 8]
    for _ in range(4 if q else 30):
        a, b = rng.sample(short, 2)
        J2 = rng.randint(1, 2)
        La, Lb = pywt.Wavelet(a).dec_len, pywt.Wavelet(b).dec_len
        rt.guard(ck, oracle_orth, ck, 2, J2, (a, b), ((La + 2 * rng.randint(0, 1)) * 2 ** (J2 - 1), (Lb + 2 * rng.randint(0, 2)) * 2 ** (J2 - 1)))
    for it in range((30 if q else 300) * (3 if extended else 1)):
        L = 2 * rng.randint(1, 5); J = rng.randint(1, 3)
        N = (L + 2 * rng.randint(0, 3)) * 2 ** (J - 1)
        rt.guard(ck, oracle_transpose_exact, ck, J, L, N)


def run(ck):
    std_run(ck, PROP, MODULE, THEOREMS, OPS, 240, 2000, oracle,
            rule='correspondence: afb1d/sfb1d/AFB1D backward/DWT modules in all modes (periodization included) on integer data; oracle on the real code: for orthogonal pywt wavelets (haar, db*, sym*, coif*) '
                 'in periodization with every level even and >= L: A^T A = I (operator from unit impulses), energy, backprop(g) == inverse(g) to 1e-9; exactly on integers for arbitrary filter pairs: '
                 'synthesis with reversed filters == transpose of analysis; distinct by (dims, J, wavelet, shape)')


def replay(ck, path):
    rt.setup_torch()
    d = load_replay(path)
    f = d.get('failure', {}).get('replay')
    if not f:
        print('replay file names no failing input: %s' % d.get('broken_obligations'))
        return 1
    if f['oracle'] == 'orth':
        oracle_orth(ck, f['dims'], f['J'], f['name'], tuple(f['shape']))
    elif f['oracle'] == 'functional':
        oracle_functional(ck, f['name'], f['dim'], tuple(f['shape']))
    elif f['oracle'] == 'bulk':
        oracle_bulk(ck, f['name'], f['J'], tuple(f['shape']), getattr(torch, f['dtype'].split('.')[-1]))
    elif f['oracle'] == 'long':
        oracle_long(ck, f['name'], f['J'], f['N'])
    else:
        oracle_transpose_exact(ck, f['J'], f['L'], f['N'])
    for fl in ck.failures:
        print('REPLAY-FAILS: ' + fl['desc'])
    if not ck.failures:
        print('REPLAY-PASSES')
    return 1 if ck.failures else 0
