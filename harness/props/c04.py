"""C04 — DTCWT perfect reconstruction with symmetric extension."""
import numpy as np
from .. import rt, gen, proto
from .. import oracle_dtcwt as OD
from ..dtcwt_common import *
from ..impl_dtcwt import IMPL

PROP = 'C04'
MODULE = 'WaveletsVerif.Properties.C04'
THEOREMS = ['WV.C04.c2q_q2c', 'WV.C04.extendEven_length', 'WV.C04.xt_colfilter', 'WV.C04.colfilter_pr', 'WV.C04.level1_pr', 'WV.C04.pr1_of_bounded',
            'WV.C04Q.xt_coldfilt', 'WV.C04Q.xt_colifilt', 'WV.C04Q.prq_of_residues', 'WV.C04Q.qshift_pr', 'WV.C04Q.level2_pr', 'WV.C04Q.level2_pr_full',
            'WV.C04P.extendEven_rect', 'WV.C04P.crop_extend', 'WV.C04P.loop_pr', 'WV.C04P.dtcwt_pr',
            'WV.C03T.reflect_eq_symIdx', 'WV.C03T.symm_pad_1d_eq', 'WV.C03T.symmPad_eq_gather', 'WV.C04Z.cropToHighs_gen', 'WV.C10Z.dtcwt_glue_gen']
OPS = ['fwd_j1', 'inv_j1', 'fwd_j2plus', 'inv_j2plus', 'q2c', 'c2q', 'DTCWTForward', 'DTCWTInverse']


def oracle_pr(ck, b, s, J, x, o=2, ri=-1):
    bt, qt = OD.lib_tables(b, s)
    h0o, g0o, h1o, g1o = [np.ravel(v) for v in bt]
    h0a, h0b, g0a, g0b, h1a, h1b, g1a, g1b = [np.ravel(v) for v in qt]
    desc = 'DTCWT PR %s/%s J=%d shape=%s layout=(%d,%d)' % (b, s, J, tuple(x.shape), o, ri)
    replay = {'oracle': 'pr', 'b': b, 's': s, 'J': J, 'x': arr_json(x), 'o': o, 'ri': ri}
    from .. import impl_dtcwt
    with impl_dtcwt.named(b, s):
        fw = rt.run_impl(rt.Case('Q', 'DTCWTForward', [o, ri, 1, J, 0, 0], [h0o, h1o, h0a, h0b, h1a, h1b, x]), IMPL)
    if isinstance(fw, tuple):
        ck.fail(desc + ': forward raises %s: %s' % (fw[1], fw[2]), replay); return 'raise'
    with impl_dtcwt.named(b, s):
        bw = rt.run_impl(rt.Case('Q', 'DTCWTInverse', [o, ri, 1, 0], [g0o, g1o, g0a, g0b, g1a, g1b] + list(fw)), IMPL)
    if isinstance(bw, tuple):
        ck.fail(desc + ': inverse raises %s: %s' % (bw[1], bw[2]), replay); return 'raise'
    y = bw[0]
    H, W = x.shape[-2:]
    if tuple(y.shape[-2:]) != (H + H % 2, W + W % 2):
        ck.fail(desc + ': output extent %s, expected the even-extended %s' % (tuple(y.shape[-2:]), (H + H % 2, W + W % 2)), replay); return 'shape'
    err = float(np.max(np.abs(y[..., :H, :W] - x)))
    sc = max(1.0, float(np.max(np.abs(x))))
    # yardstick: the reference package's own round trip on the same input with the same tables (the tables are
    # only PR to their stored precision); the library may be 10x worse, or 1e-12 of the scale
    ref_err = 0.0
    for n_ in range(x.shape[0]):
        for c_ in range(x.shape[1]):
            lo_, hs_ = OD.forward(x[n_, c_], b, s, J)
            r_ = OD.inverse(lo_, hs_, b, s)
            ref_err = max(ref_err, float(np.max(np.abs(r_[:H, :W] - x[n_, c_]))))
    if err > max(10 * ref_err, 1e-12 * sc):
        ck.fail(desc + ': max reconstruction error %.3g (reference package on the same input: %.3g, scale %.3g)' % (err, ref_err, sc), replay); return 'diff'
    ck.oracle_ok((b, s, J, tuple(x.shape), o, ri), group='pr', sample={'filters': '%s/%s' % (b, s), 'J': J, 'shape': list(x.shape), 'max_err': err, 'reference_err': ref_err})
    return None


# --- the hypothesis PRq of WV.C04Q.level2_pr, measured on the shipped q-shift tables ---------------------------
def _treeD(h, off, X, v):
    m = len(h)
    return sum(h[m - 1 - j] * X(4 * v + 2 * j + off - m) for j in range(m))


def _lineD(ha, hb, hp, X, w):
    v = w // 2
    if w % 2 == 0:
        return _treeD(hb, 3, X, v) if hp else _treeD(ha, 2, X, v)
    return _treeD(ha, 2, X, v) if hp else _treeD(hb, 3, X, v)


def _lineE(ha, hb, hp, Y, u):
    m = len(ha); m2 = m // 2; v = u // 4; c = u % 4
    br = lambda h, off, ph: sum(h[m - off - 2 * j] * Y(2 * (v + j) + ph - m2) for j in range(m2))
    if m2 % 2 == 0:
        return [lambda: br(ha, 1, 1 if hp else 0), lambda: br(hb, 1, 0 if hp else 1), lambda: br(ha, 2, 3 if hp else 2), lambda: br(hb, 2, 2 if hp else 3)][c]()
    return [lambda: br(ha, 2, 2 if hp else 1), lambda: br(hb, 2, 1 if hp else 2), lambda: br(ha, 1, 2 if hp else 1), lambda: br(hb, 1, 1 if hp else 2)][c]()


def prq_residual(h0, h1, g0, g1):
    """max over the four output phases c and all impulse positions t of
    | lineE g0 (lineD h0 delta_t) c + lineE g1 (lineD h1 delta_t) c - [t = c] |  — the Lean definition WV.C04Q.PRq
    (h0.. are the FIRST filter arguments of coldfilt/colifilt, i.e. the tables' tree-b filters; the second is the reverse)"""
    h0, h1, g0, g1 = [list(map(float, np.ravel(v))) for v in (h0, h1, g0, g1)]
    B = 2 * (len(h0) + len(g0)) + 12
    worst = 0.0
    for t in range(-B, B + 1):
        X = lambda i, t=t: 1.0 if i == t else 0.0
        Y0 = lambda w: _lineD(h0, h0[::-1], False, X, w)
        Y1 = lambda w: _lineD(h1, h1[::-1], True, X, w)
        for c in range(4):
            v = _lineE(g0, g0[::-1], False, Y0, c) + _lineE(g1, g1[::-1], True, Y1, c)
            worst = max(worst, abs(v - (1.0 if t == c else 0.0)))
    return worst


def oracle_prq(ck):
    """hypotheses of level2_pr on the shipped tables: tree a = reverse(tree b) exactly, PRq to the stored precision"""
    out = {}
    for s in OD.QSHIFTS:
        qt = OD.lib_tables(OD.BIORTS[0], s)[1]
        h0a, h0b, g0a, g0b, h1a, h1b, g1a, g1b = [np.ravel(v) for v in qt]
        desc = 'q-shift table %s' % s
        rev = all(np.array_equal(a, b[::-1]) for a, b in ((h0a, h0b), (h1a, h1b), (g0a, g0b), (g1a, g1b)))
        res = prq_residual(h0b, h1b, g0b, g1b)
        out[s] = {'tree_a_is_reverse_of_tree_b': bool(rev), 'PRq_residual': res, 'taps': int(len(h0a))}
        if not rev:
            ck.fail(desc + ': tree a is not the time reverse of tree b (hypothesis of WV.C04Q.level2_pr)', {'oracle': 'prq', 's': s}); continue
        if not res < 1e-6:
            ck.fail(desc + ': PRq residual %.3g (perfect reconstruction on the line, hypothesis of WV.C04Q.level2_pr)' % res, {'oracle': 'prq', 's': s}); continue
        ck.oracle_ok(('prq', s), group='prq-hypothesis', sample={'table': s, 'PRq_residual': res})
    ck.extra['PRq_hypothesis_measured'] = out


def oracle_reuse(ck, b, s, J, shapes):
    """several forward calls on ONE module instance, inverted afterwards in a different order:
    results are values - a later call must not change an earlier result"""
    import torch
    from pytorch_wavelets import DTCWTForward, DTCWTInverse
    from ..impl_dwt import T, N as NP
    fwd = DTCWTForward(biort=b, qshift=s, J=J); inv = DTCWTInverse(biort=b, qshift=s)
    xs = [T(gen.float_tensor(ck.nprng, sh)) for sh in shapes]
    desc = 'DTCWT PR %s/%s J=%d, %d forward calls on one module before inverting (shapes %s)' % (b, s, J, len(xs), [tuple(sh) for sh in shapes])
    replay = {'oracle': 'reuse', 'b': b, 's': s, 'J': J, 'shapes': [list(sh) for sh in shapes]}
    with torch.no_grad():
        cs = [fwd(x) for x in xs]
        for k in reversed(range(len(xs))):
            y = inv(cs[k])
            H, W = xs[k].shape[-2:]
            if tuple(y.shape[-2:]) != (H + H % 2, W + W % 2) or float((y[..., :H, :W] - xs[k]).abs().max()) > 1e-7 * max(1.0, float(xs[k].abs().max())):
                ck.fail(desc + ': the pyramid returned by call %d no longer reconstructs its input' % (k + 1), replay); return 'diff'
    ck.oracle_ok(('reuse', b, s, J, tuple(map(tuple, shapes))), group='reuse', sample={'what': desc})
    return None


def oracle_depths(ck, b, s, Js, shape):
    """ONE inverse instance, pyramids of different depths one after the other (shallow first, then deeper, then shallower):
    the number of levels belongs to the pyramid handed over, not to the module"""
    import torch
    from pytorch_wavelets import DTCWTForward, DTCWTInverse
    from ..impl_dwt import T
    inv = DTCWTInverse(biort=b, qshift=s)
    desc = 'DTCWT PR %s/%s: one DTCWTInverse instance fed pyramids of depths %s in this order (image %s)' % (b, s, list(Js), tuple(shape))
    replay = {'oracle': 'depths', 'b': b, 's': s, 'Js': list(Js), 'shape': list(shape)}
    H, W = shape[-2:]
    with torch.no_grad():
        for k, J in enumerate(Js):
            x = T(gen.float_tensor(ck.nprng, shape))
            try:
                y = inv(DTCWTForward(biort=b, qshift=s, J=J)(x))
            except Exception as e:
                ck.fail(desc + ': call %d (J=%d) raises %s: %s' % (k + 1, J, type(e).__name__, str(e)[:120]), replay); return 'raise'
            if tuple(y.shape[-2:]) != (H + H % 2, W + W % 2) or float((y[..., :H, :W] - x).abs().max()) > 1e-7 * max(1.0, float(x.abs().max())):
                ck.fail(desc + ': call %d (J=%d) does not reconstruct its input' % (k + 1, J), replay); return 'diff'
    ck.oracle_ok(('depths', b, s, tuple(Js), tuple(shape)), group='reuse', sample={'what': desc})
    return None


def oracle_layouts(ck, b, s, J, x):
    """the same batch handed over in every memory layout of the covering set: the round trip must not care"""
    import torch
    from pytorch_wavelets import DTCWTForward, DTCWTInverse
    from ..impl_dwt import layout_views
    fwd = DTCWTForward(biort=b, qshift=s, J=J).double(); inv = DTCWTInverse(biort=b, qshift=s).double()
    H, W = x.shape[-2:]
    for name, xt in layout_views(x):
        desc = 'DTCWT PR %s/%s J=%d shape=%s, input given as: %s (strides %s)' % (b, s, J, tuple(x.shape), name, tuple(xt.stride()))
        replay = {'oracle': 'layouts', 'b': b, 's': s, 'J': J, 'x': arr_json(x)}
        try:
            with torch.no_grad():
                y = inv(fwd(xt))
        except Exception as e:
            ck.fail(desc + ': raises %s: %s' % (type(e).__name__, str(e)[:160]), replay); return 'raise'
        if tuple(y.shape[-2:]) != (H + H % 2, W + W % 2) or float((y[..., :H, :W] - torch.tensor(x)).abs().max()) > 1e-9 * max(1.0, float(np.max(np.abs(x)))):
            ck.fail(desc + ': does not reconstruct the input', replay); return 'diff'
        ck.oracle_ok(('layout', name, b, s, J, tuple(x.shape)), group='layouts')
    return None


def oracle(ck, extended):
    rng = ck.rng
    q = ck.tier == 'quick'
    if not extended:
        rt.guard(ck, oracle_prq, ck)
    for (shape, J) in [((2, 3, 8, 12), 2), ((3, 2, 7, 10), 2)]:
        b_, s_ = rng.choice([(b, s) for b in OD.BIORTS for s in OD.QSHIFTS])
        rt.guard(ck, oracle_layouts, ck, b_, s_, J, gen.float_tensor(ck.nprng, shape))
    pairs = [(b, s) for b in OD.BIORTS for s in OD.QSHIFTS]
    for (b, s) in (pairs if q else pairs * 6) * (2 if extended else 1):
        J = rng.randint(1, 3 if q else 5)
        H = rng.randint(2, 44); W = rng.randint(2, 44)
        x = gen.float_tensor(ck.nprng, (rng.randint(1, 2), rng.randint(1, 2), H, W), rng.choice([1.0, 1e3]))
        o, ri = (2, -1) if rng.random() < 0.7 else rng.choice(LAYOUTS)
        rt.guard(ck, oracle_pr, ck, b, s, J, x, o, ri)
    # covering cases (independent of the seed): pyramids much deeper than the image is large, so that several levels have
    # 1x1 bands and every level works on the padded low-pass
    for (H, W, J) in [(2, 2, 3), (4, 4, 4), (3, 5, 4), (8, 8, 5), (6, 2, 3), (16, 16, 6)] + ([] if q else [(5, 5, 5), (2, 9, 6), (32, 8, 7)]):
        b, s = rng.choice(pairs)
        x = gen.float_tensor(ck.nprng, (1, 2, H, W))
        rt.guard(ck, oracle_pr, ck, b, s, J, x, 2, -1)
    # the smallest images with EVERY level-1 family (filters longer than the image on one or both axes)
    for b in OD.BIORTS:
        for (H, W) in [(2, 2), (2, 11), (7, 3), (8, 8)]:
            rt.guard(ck, oracle_pr, ck, b, rng.choice(OD.QSHIFTS), rng.randint(1, 3), gen.float_tensor(ck.nprng, (1, 1, H, W)), 2, -1)
    # sizes above every blocking / tiling threshold (gen.scale_shapes_2d) with EVERY level-1 family, several layouts
    for k, shp in enumerate(gen.scale_shapes_2d(ck.tier)):
        for i, b in enumerate(OD.BIORTS):
            if not q or (k + i) % 2 == 1 or shp[2] > 500 or shp[3] > 500:
                o, ri = (2, -1) if (k + i) % 3 else LAYOUTS[(k * 7 + i) % len(LAYOUTS)]
                rt.guard(ck, oracle_pr, ck, b, OD.QSHIFTS[(k + i) % len(OD.QSHIFTS)], 1 + (k + i) % 3, gen.float_tensor(ck.nprng, shp), o, ri)
    for (Js, shape) in [((1, 3, 2, 4), (1, 2, 16, 12)), ((2, 3), (1, 1, 4, 4))] + ([] if q else [((3, 1, 5), (2, 1, 9, 14)), ((1, 2, 3, 4, 5), (1, 1, 32, 32))]):
        b, s = rng.choice(pairs)
        rt.guard(ck, oracle_depths, ck, b, s, Js, shape)
    for _ in range(3 if q else 20):
        b, s = rng.choice(pairs); J = rng.randint(1, 3)
        shapes = [(1, rng.randint(1, 2), rng.randint(4, 24), rng.randint(4, 24)) for _ in range(rng.randint(2, 3))]
        if rng.random() < 0.5:
            shapes = [shapes[0]] * len(shapes)
        rt.guard(ck, oracle_reuse, ck, b, s, J, shapes)


def run(ck):
    std_run(ck, PROP, MODULE, THEOREMS, OPS, 320, 3000, oracle,
            rule='correspondence (exact over Q(sqrt2)) of the analysis and synthesis ops and both modules; oracle: DTCWTInverse(DTCWTForward(x)) on the real code for all 20 named filter pairs, '
                 'J 1..3/5, sizes 2..44 incl. odd and non-multiples of 4, some non-default layouts: even-extended extent, original in the top-left corner to 1e-7 relative; distinct by (pair, J, shape, layout)')


def replay(ck, path):
    rt.setup_torch()
    d = load_replay(path)
    f = d.get('failure', {}).get('replay')
    if not f:
        print('replay file names no failing input: %s' % d.get('broken_obligations'))
        return 1
    if f['oracle'] == 'prq':
        oracle_prq(ck)
    elif f['oracle'] == 'reuse':
        oracle_reuse(ck, f['b'], f['s'], f['J'], [tuple(sh) for sh in f['shapes']])
    elif f['oracle'] == 'layouts':
        oracle_layouts(ck, f['b'], f['s'], f['J'], arr_from(f['x']))
    elif f['oracle'] == 'depths':
        oracle_depths(ck, f['b'], f['s'], tuple(f['Js']), tuple(f['shape']))
    else:
        oracle_pr(ck, f['b'], f['s'], f['J'], arr_from(f['x']), f['o'], f['ri'])
    for fl in ck.failures:
        print('REPLAY-FAILS: ' + fl['desc'])
    if not ck.failures:
        print('REPLAY-PASSES')
    return 1 if ck.failures else 0
